/-
C13 — Time bucketing partitions the time axis consistently.

Property theorems over the model in `Model/Calendar.lean` + `Model/Interval.lean`
(timestamps in milliseconds, `t ≥ 0`, UTC), the tie theorems to the facts regenerated from
/repo's source (`Generated/C13.lean`), non-vacuity examples and observations.
Helper lemmas: `Lemmas/C13Table*.lean` (complete 400-year era table), `Lemmas/C13Calendar.lean`,
`Lemmas/C13Interval.lean`, `Lemmas/C13Planner.lean`.
-/
import LinVerif.Model.Interval
import LinVerif.Generated.C13
import LinVerif.Lemmas.C13Interval
import LinVerif.Lemmas.C13Lookup
import LinVerif.Lemmas.C13Zone
import LinVerif.Lemmas.C13ZoneContract
import LinVerif.Lemmas.C13Ladder
import LinVerif.Lemmas.C13Planner
import LinVerif.Lemmas.C13Goc

namespace LinVerif.Props.C13
open LinVerif.Calendar LinVerif.Interval
open LinVerif.Lemmas.C13 (monthStartDay nextMonthStartDay ZoneOK HourAligned localDay midnightOf)

/-! ## calendar -/

/-- days → civil → days is the identity, for every day number (negative ones included), and the
civil date produced is a real one: month 1..12, day ≥ 1 and before the next month's first day. -/
theorem civil_roundtrip (z : Int) :
    daysFromCivil (civilFromDays z).1 (civilFromDays z).2.1 (civilFromDays z).2.2 = z ∧
    1 ≤ (civilFromDays z).2.1 ∧ (civilFromDays z).2.1 ≤ 12 ∧ 1 ≤ (civilFromDays z).2.2 ∧
    z < daysFromCivil (nextMonth (civilFromDays z).1 (civilFromDays z).2.1).1
          (nextMonth (civilFromDays z).1 (civilFromDays z).2.1).2 1 := by
  obtain ⟨a, b, c, d, e⟩ := Lemmas.C13.civil_spec z
  exact ⟨d, a, b, c, e⟩

/-- civil → days → civil is the identity on every valid date (any year, month 1..12, day from 1
up to the last day of the month — stated as "before the first day of the next month"). -/
theorem civil_roundtrip_inv (y m d : Int) (hm1 : 1 ≤ m) (hm2 : m ≤ 12) (hd1 : 1 ≤ d)
    (hd2 : daysFromCivil y m d < daysFromCivil (nextMonth y m).1 (nextMonth y m).2 1) :
    civilFromDays (daysFromCivil y m d) = (y, m, d) :=
  Lemmas.C13.civil_of_days y m d hm1 hm2 hd1 hd2

/-- months have 28..31 days; in particular consecutive month starts strictly increase -/
theorem month_length (y m : Int) (hm1 : 1 ≤ m) (hm2 : m ≤ 12) :
    28 ≤ daysFromCivil (nextMonth y m).1 (nextMonth y m).2 1 - daysFromCivil y m 1 ∧
    daysFromCivil (nextMonth y m).1 (nextMonth y m).2 1 - daysFromCivil y m 1 ≤ 31 :=
  Lemmas.C13.month_step y m hm1 hm2

/-! ## write-side bucketing: segment / family / slot, for each of the three calculators -/

/-- the family's time range contains the timestamp -/
theorem family_contains (c : Calc) (t : Int) (h : 0 ≤ t) :
    calcFamilyTime c t ≤ t ∧ t ≤ calcFamilyEndTime c (calcFamilyTime c t) :=
  Lemmas.C13.family_contains c h

/-- the family computed from any timestamp inside a family is that family -/
theorem family_idempotent (c : Calc) (t t' : Int) (h : 0 ≤ t)
    (h1 : calcFamilyTime c t ≤ t') (h2 : t' ≤ calcFamilyEndTime c (calcFamilyTime c t)) :
    calcFamilyTime c t' = calcFamilyTime c t :=
  Lemmas.C13.family_idempotent c h h1 h2

/-- consecutive families tile the axis: the millisecond after a family's end is the start of a
family (its own), so there is no gap; with `family_idempotent` there is no overlap. This covers
hour ends, day ends, month ends (28/29/30/31 days) and year ends alike. -/
theorem families_tile (c : Calc) (t : Int) (h : 0 ≤ t) :
    calcFamilyTime c (calcFamilyEndTime c (calcFamilyTime c t) + 1)
      = calcFamilyEndTime c (calcFamilyTime c t) + 1 :=
  Lemmas.C13.families_tile c h

/-- exactly one family: two families that share a timestamp are the same family -/
theorem family_unique (c : Calc) (t₁ t₂ t : Int) (h₁ : 0 ≤ t₁) (h₂ : 0 ≤ t₂)
    (a1 : calcFamilyTime c t₁ ≤ t) (a2 : t ≤ calcFamilyEndTime c (calcFamilyTime c t₁))
    (b1 : calcFamilyTime c t₂ ≤ t) (b2 : t ≤ calcFamilyEndTime c (calcFamilyTime c t₂)) :
    calcFamilyTime c t₁ = calcFamilyTime c t₂ := by
  rw [← Lemmas.C13.family_idempotent c h₁ a1 a2, ← Lemmas.C13.family_idempotent c h₂ b1 b2]

/-- a family lies inside one segment: the segment base time is not after the family start and
every timestamp of the family has the same segment base time -/
theorem segment_contains_family (c : Calc) (t t' : Int) (h : 0 ≤ t)
    (h1 : calcFamilyTime c t ≤ t') (h2 : t' ≤ calcFamilyEndTime c (calcFamilyTime c t)) :
    calcSegmentTime c t ≤ calcFamilyTime c t ∧ calcSegmentTime c t' = calcSegmentTime c t :=
  ⟨Lemmas.C13.segment_le_family c h, Lemmas.C13.segment_const_on_family c h h1 h2⟩

/-- `slot·interval` added to the family start is within one interval below the timestamp
(guard: `interval > 0`; base time = the timestamp's family start, as every caller passes it) -/
theorem slot_bound (c : Calc) (t i : Int) (h : 0 ≤ t) (hi : 0 < i) :
    ∃ s, calcSlot c t (calcFamilyTime c t) i = some s ∧ 0 ≤ s ∧
      calcFamilyTime c t + s * i ≤ t ∧ t < calcFamilyTime c t + (s + 1) * i :=
  Lemmas.C13.slot_bound c h hi

/-- `CalcTimestamp` inverts `CalcSlot` up to the interval: same statement through the code's own
inverse function -/
theorem slot_timestamp (c : Calc) (t i : Int) (h : 0 ≤ t) (hi : 0 < i) :
    ∃ s, calcSlot c t (calcFamilyTime c t) i = some s ∧
      calcTimestamp (calcFamilyTime c t) s i ≤ t ∧ t < calcTimestamp (calcFamilyTime c t) s i + i := by
  obtain ⟨s, e, _, l, u⟩ := Lemmas.C13.slot_bound c h hi
  refine ⟨s, e, ?_, ?_⟩
  · simp only [calcTimestamp]; rw [Int.mul_comm]; omega
  · simp only [calcTimestamp]; rw [Int.mul_comm i s]; rw [Int.add_mul] at u; omega

/-- the write path (`segment.GetOrCreateDataFamily` → `initDataFamily`) and the broker's row
iterator (`timeRangeOfTimestamp`) assign the same family range, which is the one above -/
theorem write_query_agree (c : Calc) (t : Int) :
    segmentFamilyRange c (calcSegmentTime c t) t = some (timeRangeOfTimestamp c t) ∧
    (timeRangeOfTimestamp c t).start = calcFamilyTime c t ∧
    (timeRangeOfTimestamp c t).stop = calcFamilyEndTime c (calcFamilyTime c t) := by
  simp [segmentFamilyRange, timeRangeOfTimestamp, calcFamilyTime]

/-- a segment accepts exactly the timestamps whose segment base time is its own -/
theorem segment_guard (c : Calc) (base t : Int) :
    (segmentFamilyRange c base t).isSome ↔ calcSegmentTime c t = base := by
  simp only [segmentFamilyRange]
  split <;> simp_all

/-- closed forms (what the families are): hour-aligned hours, UTC days, calendar months -/
theorem family_closed_form (t : Int) (h : 0 ≤ t) :
    calcFamilyTime .day t = t / 3600000 * 3600000 ∧
    calcFamilyEndTime .day (calcFamilyTime .day t) = t / 3600000 * 3600000 + 3600000 - 1 ∧
    calcFamilyTime .month t = t / 86400000 * 86400000 ∧
    calcFamilyEndTime .month (calcFamilyTime .month t) = (t / 86400000 + 1) * 86400000 - 1 ∧
    calcFamilyTime .year t = monthStartDay (t / 86400000) * 86400000 ∧
    calcFamilyEndTime .year (calcFamilyTime .year t) = nextMonthStartDay (t / 86400000) * 86400000 - 1 := by
  refine ⟨Lemmas.C13.day_familyTime h, ?_, Lemmas.C13.month_familyTime h, ?_,
    Lemmas.C13.year_familyTime h, ?_⟩
  · rw [Lemmas.C13.day_familyTime h]; simp [calcFamilyEndTime, Lemmas.C13.oneHour_val]
  · rw [Lemmas.C13.month_familyTime h, Lemmas.C13.month_familyEnd]
  · rw [Lemmas.C13.year_familyTime h, Lemmas.C13.year_familyEnd]

/-! ## range lookup: `Shard.GetDataFamilies` (intervalSegment → segment, current code) -/

/-- For every interval type, every set of existing families (given by timestamps `ts ≥ 0` they
were created for, in any number of segments) and every query range `0 ≤ start ≤ stop`: the
families returned are exactly the existing families whose time range intersects the query range
— equivalently the family-truncated query range
`[CalcFamilyTime(start), CalcFamilyEndTime(CalcFamilyTime(stop))]`, see
`get_data_families_truncated`. -/
theorem get_data_families_exact (c : Calc) (q : TimeRange) (ts : List Int) (hq0 : 0 ≤ q.start)
    (hq : q.start ≤ q.stop) (hts : ∀ t ∈ ts, 0 ≤ t) (x : Int) :
    x ∈ getDataFamilies .ownSegment c q ts ↔
      ∃ t ∈ ts, x = calcFamilyTime c t ∧ calcFamilyTime c t ≤ q.stop ∧
        q.start ≤ calcFamilyEndTime c (calcFamilyTime c t) :=
  Lemmas.C13.getDataFamilies_mem c q ts hq0 hq hts x

/-- the same condition against the family-truncated query range: a family `[s, e]` intersects
`[start, stop]` iff `CalcFamilyTime(start) ≤ s ≤ CalcFamilyTime(stop)` -/
theorem get_data_families_truncated (c : Calc) (q : TimeRange) (t : Int) (hq0 : 0 ≤ q.start)
    (hq : q.start ≤ q.stop) (ht : 0 ≤ t) :
    (calcFamilyTime c t ≤ q.stop ∧ q.start ≤ calcFamilyEndTime c (calcFamilyTime c t)) ↔
    (calcFamilyTime c q.start ≤ calcFamilyTime c t ∧ calcFamilyTime c t ≤ calcFamilyTime c q.stop) := by
  have hs0 := Lemmas.C13.familyTime_nonneg c ht
  have cs := Lemmas.C13.family_contains c ht
  have ca := Lemmas.C13.family_contains c hq0
  have cb := Lemmas.C13.family_contains c (t := q.stop) (by omega)
  constructor
  · rintro ⟨h1, h2⟩
    have m1 := Lemmas.C13.familyTime_mono c hq0 h2
    rw [Lemmas.C13.family_idempotent c ht (by omega) (Int.le_refl _)] at m1
    have m2 := Lemmas.C13.familyTime_mono c hs0 h1
    rw [Lemmas.C13.familyTime_fix c ht] at m2
    exact ⟨m1, m2⟩
  · rintro ⟨h1, h2⟩
    refine ⟨by omega, ?_⟩
    by_cases hc : q.start ≤ calcFamilyEndTime c (calcFamilyTime c t)
    · exact hc
    · exfalso
      have m3 := Lemmas.C13.familyTime_mono c
        (t1 := calcFamilyEndTime c (calcFamilyTime c t) + 1) (t2 := q.start) (by omega) (by omega)
      rw [Lemmas.C13.families_tile c ht] at m3
      omega

/-- write and query agree on the family: the family that `GetOrCreateDataFamily` assigns to a
requested timestamp is always among the families `GetDataFamilies` returns -/
theorem query_finds_written_family (c : Calc) (q : TimeRange) (ts : List Int) (t : Int)
    (hq0 : 0 ≤ q.start) (hts : ∀ t ∈ ts, 0 ≤ t) (hm : t ∈ ts) (h1 : q.start ≤ t) (h2 : t ≤ q.stop) :
    calcFamilyTime c t ∈ getDataFamilies .ownSegment c q ts := by
  have cs := Lemmas.C13.family_contains c (hts t hm)
  exact (get_data_families_exact c q ts hq0 (by omega) hts _).2 ⟨t, hm, rfl, by omega, by omega⟩

/-! ## slot range of a family ∩ query range (`Interval.CalcSlotRange`) -/

/-- When the query range meets the family (`rs = q ∩ family`, `rs.start ≤ rs.stop`; a single point
`rs.start = rs.stop` included) `CalcSlotRange` returns `[a, b]` (as `uint16`) with
`family + a·i ≤ rs.start < family + (a+1)·i` and `family + b·i ≤ rs.stop < family + (b+1)·i`:
the slots of the first and last requested timestamps, `a ≤ b`; in particular `[n, n]`, not
`[0, 0]`, for a one-slot range. -/
theorem slot_range_exact (i t : Int) (q : TimeRange) (h : 0 ≤ t) (hi : 0 < i)
    (hne : (q.intersect ⟨calcFamilyTime (intervalType i) t,
        calcFamilyEndTime (intervalType i) (calcFamilyTime (intervalType i) t)⟩).start ≤
      (q.intersect ⟨calcFamilyTime (intervalType i) t,
        calcFamilyEndTime (intervalType i) (calcFamilyTime (intervalType i) t)⟩).stop) :
    ∃ a b, calcSlotRange i (calcFamilyTime (intervalType i) t) q = some (a % 65536, b % 65536) ∧
      0 ≤ a ∧ a ≤ b ∧
      calcFamilyTime (intervalType i) t + a * i ≤
        (q.intersect ⟨calcFamilyTime (intervalType i) t,
          calcFamilyEndTime (intervalType i) (calcFamilyTime (intervalType i) t)⟩).start ∧
      (q.intersect ⟨calcFamilyTime (intervalType i) t,
          calcFamilyEndTime (intervalType i) (calcFamilyTime (intervalType i) t)⟩).start <
        calcFamilyTime (intervalType i) t + (a + 1) * i ∧
      calcFamilyTime (intervalType i) t + b * i ≤
        (q.intersect ⟨calcFamilyTime (intervalType i) t,
          calcFamilyEndTime (intervalType i) (calcFamilyTime (intervalType i) t)⟩).stop ∧
      (q.intersect ⟨calcFamilyTime (intervalType i) t,
          calcFamilyEndTime (intervalType i) (calcFamilyTime (intervalType i) t)⟩).stop <
        calcFamilyTime (intervalType i) t + (b + 1) * i :=
  Lemmas.C13.slotRange_spec i t q h hi hne

/-! ## broker row grouping (`BrokerBatchShardFamilyIterator`) -/

/-- every row is handed out under the family (of the batch's interval type) that contains its
timestamp, and only rows of the batch are handed out -/
theorem broker_groups_sound (c : Calc) (ts : List Int) (hts : ∀ t ∈ ts, 0 ≤ t) :
    ∀ g ∈ groupFamilies c ts, ∀ t ∈ g.2, calcFamilyTime c t = g.1 ∧ t ∈ ts := by
  cases ts with
  | nil => intro g hg; simp [groupFamilies] at hg
  | cons t rest =>
    intro g hg
    simp only [groupFamilies] at hg
    split at hg
    · rename_i hall
      simp only [List.mem_singleton] at hg
      subst hg
      intro x hx
      refine ⟨?_, hx⟩
      rcases List.mem_cons.1 hx with rfl | hx
      · rfl
      · exact Lemmas.C13.range_contains_family c (hts t (by simp)) (List.all_eq_true.1 hall x hx)
    · intro x hx
      have hs : ∀ y ∈ sortAsc (t :: rest), 0 ≤ y := fun y hy =>
        hts y ((Lemmas.C13.sortAsc_perm (t :: rest)).subset hy)
      have := Lemmas.C13.groupSorted_sound c _ _ hs g hg x hx
      exact ⟨this.1, (Lemmas.C13.sortAsc_perm (t :: rest)).subset this.2⟩

/-- no row is lost or duplicated: the rows handed out are a permutation of the batch -/
theorem broker_groups_complete (c : Calc) (ts : List Int) (hts : ∀ t ∈ ts, 0 ≤ t) :
    ((groupFamilies c ts).flatMap (·.2)).Perm ts := by
  cases ts with
  | nil => simp [groupFamilies]
  | cons t rest =>
    simp only [groupFamilies]
    split
    · simp
    · have hs : ∀ y ∈ sortAsc (t :: rest), 0 ≤ y := fun y hy =>
        hts y ((Lemmas.C13.sortAsc_perm (t :: rest)).subset hy)
      have hl : (sortAsc (t :: rest)).length ≤ (t :: rest).length :=
        Nat.le_of_eq (Lemmas.C13.sortAsc_perm (t :: rest)).length_eq
      exact (Lemmas.C13.groupSorted_perm c _ _ hs hl).trans (Lemmas.C13.sortAsc_perm (t :: rest))

/-! ## rollup relation (`kv/family_rollup.go`) -/

/-- hour families ⊆ UTC-day families ⊆ calendar-month families -/
theorem family_nested (c₁ c₂ : Calc) (hc : Lemmas.C13.finerEq c₁ c₂ = true) (t t' : Int) (h : 0 ≤ t)
    (h1 : calcFamilyTime c₁ t ≤ t') (h2 : t' ≤ calcFamilyEndTime c₁ (calcFamilyTime c₁ t)) :
    calcFamilyTime c₂ t' = calcFamilyTime c₂ t :=
  Lemmas.C13.family_nested c₁ c₂ hc h h1 h2

/-- the target slot the rollup relation computes for a source timestamp is the target interval's
slot of that timestamp in the target family: `targetFTime + slot·target ≤ ts < … + target`
(source interval type not coarser than the target's; `ts` in the source family) -/
theorem rollup_slot_bound (source target t ts : Int) (h : 0 ≤ t) (hi : 0 < target)
    (hc : Lemmas.C13.finerEq (intervalType source) (intervalType target) = true)
    (h1 : calcFamilyTime (intervalType source) t ≤ ts)
    (h2 : ts ≤ calcFamilyEndTime (intervalType source) (calcFamilyTime (intervalType source) t)) :
    ∃ s, calcSlot (intervalType target) ts
        (rollupTargetFamilyTime target (calcFamilyTime (intervalType source) t)) target = some s ∧
      0 ≤ s ∧
      rollupTargetFamilyTime target (calcFamilyTime (intervalType source) t) + s * target ≤ ts ∧
      ts < rollupTargetFamilyTime target (calcFamilyTime (intervalType source) t) + (s + 1) * target := by
  have hts : 0 ≤ ts := Int.le_trans (Lemmas.C13.familyTime_nonneg _ h) h1
  have cs := Lemmas.C13.family_contains (intervalType source) h
  have e1 := Lemmas.C13.family_nested _ _ hc h h1 h2
  have e2 := Lemmas.C13.family_nested _ _ hc (t' := calcFamilyTime (intervalType source) t) h
    (Int.le_refl _) (by omega)
  have := Lemmas.C13.slot_bound (intervalType target) (t := ts) (i := target) hts hi
  simp only [rollupTargetFamilyTime]
  rw [e2, ← e1]
  exact this

/-! ## query planner -/

/-- the planner picks an interval the database stores (and which one: the largest stored interval
not above the auto-selected query interval, else the option's first) -/
theorem planner_interval_stored (st : Stmt) (ivs : List Int) (p : Plan)
    (h : calcTimeRangeAndInterval st ivs = some p) : p.storageInterval ∈ ivs := by
  cases ivs with
  | nil => simp [calcTimeRangeAndInterval] at h
  | cons i0 r =>
    simp only [calcTimeRangeAndInterval] at h
    split at h
    · simp at h
    · rename_i s hs
      split at h
      · cases h; exact (Lemmas.C13.findMatch_spec hs).1
      · simp at h

/-- the query interval is a whole multiple (`ratio ≥ 1`) of the storage interval -/
theorem planner_multiple (st : Stmt) (ivs : List Int) (p : Plan) (hpos : ∀ i ∈ ivs, 0 < i)
    (h : calcTimeRangeAndInterval st ivs = some p) :
    p.interval = p.intervalRatio * p.storageInterval ∧ 1 ≤ p.intervalRatio := by
  have hm := planner_interval_stored st ivs p h
  cases ivs with
  | nil => simp [calcTimeRangeAndInterval] at h
  | cons i0 r =>
    simp only [calcTimeRangeAndInterval] at h
    split at h
    · simp at h
    · rename_i s hs
      split at h
      · cases h
        exact ⟨Int.mul_comm _ _, (Lemmas.C13.ratio_spec (hpos _ hm)).1⟩
      · simp at h

/-- the range is aligned to the storage interval and contains the requested range:
`Start' ≤ Start < Start' + s`, `End' ≤ End < End' + s`, `s ∣ Start'`, `s ∣ End'` -/
theorem planner_range_aligned (st : Stmt) (ivs : List Int) (p : Plan) (hpos : ∀ i ∈ ivs, 0 < i)
    (hs0 : 0 ≤ st.range.start) (he0 : 0 ≤ st.range.stop)
    (h : calcTimeRangeAndInterval st ivs = some p) :
    p.storageInterval ∣ p.range.start ∧ p.storageInterval ∣ p.range.stop ∧
    p.range.start ≤ st.range.start ∧ st.range.start < p.range.start + p.storageInterval ∧
    p.range.stop ≤ st.range.stop ∧ st.range.stop < p.range.stop + p.storageInterval := by
  have hm := planner_interval_stored st ivs p h
  cases ivs with
  | nil => simp [calcTimeRangeAndInterval] at h
  | cons i0 r =>
    simp only [calcTimeRangeAndInterval] at h
    split at h
    · simp at h
    · rename_i s hs
      split at h
      · rename_i a b ha hb
        cases h
        have hp : 0 < s := hpos _ hm
        obtain ⟨ra, ea, da, la, ua, _⟩ := Lemmas.C13.truncate_spec hs0 hp
        obtain ⟨rb, eb, db, lb, ub, _⟩ := Lemmas.C13.truncate_spec he0 hp
        rw [ea] at ha; rw [eb] at hb; cases ha; cases hb
        exact ⟨da, db, la, ua, lb, ub⟩
      · simp at h

/-- every requested slot is inside the planned range: the storage slot of any timestamp of the
requested range lies between the planned start and end -/
theorem planner_contains_slots (st : Stmt) (ivs : List Int) (p : Plan) (hpos : ∀ i ∈ ivs, 0 < i)
    (hs0 : 0 ≤ st.range.start) (h : calcTimeRangeAndInterval st ivs = some p)
    (t : Int) (ht1 : st.range.start ≤ t) (ht2 : t ≤ st.range.stop) :
    ∃ r, truncate t p.storageInterval = some r ∧ p.range.start ≤ r ∧ r ≤ p.range.stop := by
  have hm := planner_interval_stored st ivs p h
  cases ivs with
  | nil => simp [calcTimeRangeAndInterval] at h
  | cons i0 r =>
    simp only [calcTimeRangeAndInterval] at h
    split at h
    · simp at h
    · rename_i s hs
      split at h
      · rename_i a b ha hb
        cases h
        have hp : 0 < s := hpos _ hm
        have hne : s ≠ 0 := by omega
        have ht0 : 0 ≤ t := by omega
        have he0 : 0 ≤ st.range.stop := by omega
        simp only [truncate, hne, if_false, Option.some.injEq] at ha hb ⊢
        rw [Int.tdiv_eq_ediv_of_nonneg hs0] at ha
        rw [Int.tdiv_eq_ediv_of_nonneg he0] at hb
        rw [Int.tdiv_eq_ediv_of_nonneg ht0]
        subst ha; subst hb
        exact ⟨_, rfl, Lemmas.C13.truncate_mono ht1 hp, Lemmas.C13.truncate_mono ht2 hp⟩
      · simp at h

/-- the planned range starts at a non-negative, and ends at a not smaller, timestamp -/
theorem planner_range_nonneg (st : Stmt) (ivs : List Int) (p : Plan) (hpos : ∀ i ∈ ivs, 0 < i)
    (hs0 : 0 ≤ st.range.start) (hse : st.range.start ≤ st.range.stop)
    (h : calcTimeRangeAndInterval st ivs = some p) :
    0 ≤ p.range.start ∧ p.range.start ≤ p.range.stop ∧ 0 < p.storageInterval := by
  have hm := planner_interval_stored st ivs p h
  have hp := hpos _ hm
  obtain ⟨r, hr, l, u⟩ := planner_contains_slots st ivs p hpos hs0 h st.range.start (Int.le_refl _) hse
  obtain ⟨d, _, l1, u1, _, _⟩ := planner_range_aligned st ivs p hpos hs0 (by omega) h
  refine ⟨?_, by omega, hp⟩
  -- p.range.start is a multiple of the storage interval and > start - interval ≥ -interval
  obtain ⟨m, hm'⟩ := d
  by_cases hc : 0 ≤ p.range.start
  · exact hc
  · exfalso
    have h1 : p.storageInterval * m < 0 := by omega
    have hm0 : m < 0 := by
      by_cases hm0 : m < 0
      · exact hm0
      · have := Int.mul_nonneg (Int.le_of_lt hp) (by omega : 0 ≤ m); omega
    have : p.storageInterval * m ≤ p.storageInterval * (-1) :=
      Int.mul_le_mul_of_nonneg_left (by omega) (Int.le_of_lt hp)
    omega

/-- the planner does not panic on a valid option (non-empty, positive intervals) -/
theorem planner_total (st : Stmt) (ivs : List Int) (hne : ivs ≠ []) (hpos : ∀ i ∈ ivs, 0 < i) :
    ∃ p, calcTimeRangeAndInterval st ivs = some p := by
  cases ivs with
  | nil => exact absurd rfl hne
  | cons i0 r =>
    simp only [calcTimeRangeAndInterval]
    obtain ⟨s, hs⟩ := Lemmas.C13.findMatch_total (ivs := i0 :: r) (by simp)
      (calcQueryInterval st.range (if st.interval ≤ 0 then i0 else st.interval))
    rw [hs]
    have hp : 0 < s := hpos _ (Lemmas.C13.findMatch_spec hs).1
    have hne : s ≠ 0 := by omega
    simp [truncate, hne]

/-- which stored interval: the largest one `≤ q`, or the option's first when all are larger -/
theorem find_match_spec (ivs : List Int) (q s : Int) (h : findMatchSmallestInterval ivs q = some s) :
    s ∈ ivs ∧ ((s ≤ q ∧ ∀ x ∈ ivs, x ≤ q → x ≤ s) ∨ ((∀ x ∈ ivs, q < x) ∧ ivs.head? = some s)) :=
  Lemmas.C13.findMatch_spec h

/-! ## end to end: a written point is covered by what the planner asks the storage for -/

/-- A point written at timestamp `t` goes (write path) to the family `f = CalcFamilyTime t` and the
slot `s = CalcSlot(t, f, i)` of the database's storage interval `i`. For every query whose
requested range contains `t` and that the planner resolves to storage interval `i` with planned
range `R`: (1) `Shard.GetDataFamilies(R)` returns `f`, and (2) the slot range
`CalcSlotRange(f, R) = [a, b]` read from that family contains `s`.
Guard: `i` divides the family start (true when `i ∣ 1h` for day-type and `i ∣ 1d` for month/year-type
intervals, `storage_divides_family`), so that `Truncate`'s epoch-aligned slot grid and the family's
slot grid coincide; `Neg.unaligned_interval_not_covered` shows the guard is needed. -/
theorem query_covers_written (st : Stmt) (ivs : List Int) (p : Plan) (hpos : ∀ i ∈ ivs, 0 < i)
    (hs0 : 0 ≤ st.range.start) (h : calcTimeRangeAndInterval st ivs = some p)
    (t : Int) (ht1 : st.range.start ≤ t) (ht2 : t ≤ st.range.stop)
    (ts : List Int) (hts : ∀ t ∈ ts, 0 ≤ t) (hm : t ∈ ts)
    (hdiv : p.storageInterval ∣ calcFamilyTime (intervalType p.storageInterval) t) :
    calcFamilyTime (intervalType p.storageInterval) t ∈
      getDataFamilies .ownSegment (intervalType p.storageInterval) p.range ts ∧
    ∃ s a b,
      calcSlot (intervalType p.storageInterval) t
        (calcFamilyTime (intervalType p.storageInterval) t) p.storageInterval = some s ∧
      calcSlotRange p.storageInterval (calcFamilyTime (intervalType p.storageInterval) t) p.range
        = some (a % 65536, b % 65536) ∧ a ≤ s ∧ s ≤ b := by
  have ht0 : 0 ≤ t := by omega
  obtain ⟨n0, n1, hp⟩ := planner_range_nonneg st ivs p hpos hs0 (by omega) h
  obtain ⟨r, hr, l, u⟩ := planner_contains_slots st ivs p hpos hs0 h t ht1 ht2
  have hne : p.storageInterval ≠ 0 := by omega
  simp only [truncate, hne, if_false, Option.some.injEq] at hr
  rw [Int.tdiv_eq_ediv_of_nonneg ht0] at hr
  subst hr
  have hTt : t / p.storageInterval * p.storageInterval ≤ t := Int.ediv_mul_le t hne
  have hc := Lemmas.C13.family_contains (intervalType p.storageInterval) ht0
  -- the family start is a multiple of the interval that is ≤ t, hence ≤ Truncate(t)
  have hfT : calcFamilyTime (intervalType p.storageInterval) t ≤ t / p.storageInterval * p.storageInterval := by
    obtain ⟨k, hk⟩ := hdiv
    have h1 : k * p.storageInterval ≤ t := by rw [Int.mul_comm, ← hk]; omega
    have := Int.mul_le_mul_of_nonneg_right (Int.le_ediv_of_mul_le hp h1) (Int.le_of_lt hp)
    rw [Int.mul_comm k, ← hk] at this; exact this
  refine ⟨?_, Lemmas.C13.covered_slot p.storageInterval t p.range ht0 hp hdiv l u⟩
  exact (get_data_families_exact _ p.range ts n0 n1 hts _).2 ⟨t, hm, rfl, by omega, by omega⟩

/-- the guard of `query_covers_written` holds for the usual intervals -/
theorem storage_divides_family (i t : Int) (h : 0 ≤ t)
    (hg : match intervalType i with | .day => i ∣ 3600000 | _ => i ∣ 86400000) :
    i ∣ calcFamilyTime (intervalType i) t :=
  Lemmas.C13.interval_dvd_familyTime (intervalType i) h hg

/-! ## the two variants of the month calculator's slot rule -/

/-- in UTC (and, by translation, in fixed-offset zones) the plain-quotient variant computes the same
slot as the current `% OneDay` rule for every timestamp against its own family start — every
theorem above about `calcSlot` holds for both variants -/
theorem slot_variants_agree (c : Calc) (t i : Int) (h : 0 ≤ t) :
    calcSlotV .quotient c t (calcFamilyTime c t) i = calcSlot c t (calcFamilyTime c t) i ∧
    calcSlotV .modDay c t (calcFamilyTime c t) i = calcSlot c t (calcFamilyTime c t) i := by
  refine ⟨?_, by cases c <;> rfl⟩
  cases c
  · rfl
  · have hc := Lemmas.C13.family_contains .month h
    rw [Lemmas.C13.month_familyTime h] at hc ⊢
    rw [Lemmas.C13.month_familyEnd] at hc
    have hr : 0 ≤ t - t / 86400000 * 86400000 := by omega
    simp only [calcSlotV, calcSlot, Lemmas.C13.oneDay_val]
    rw [Int.tmod_eq_emod_of_nonneg hr]
    have e : (t - t / 86400000 * 86400000) % 86400000 = t - t / 86400000 * 86400000 := by omega
    rw [e]
  · rfl

theorem slot_range_variant_current (i f : Int) (q : TimeRange) :
    calcSlotRangeV .modDay i f q = calcSlotRange i f q := by
  simp only [calcSlotRangeV, calcSlotRange]
  cases intervalType i <;> rfl

/-- the repaired (plain-quotient) month rule satisfies the slot statement against ANY base time not
after the timestamp — whatever the length of the family, hence also on 23- and 25-hour days of a
DST zone -/
theorem month_slot_quotient_bound (t base i : Int) (hb : base ≤ t) (hi : 0 < i) :
    ∃ s, calcSlotV .quotient .month t base i = some s ∧ 0 ≤ s ∧
      base + s * i ≤ t ∧ t < base + (s + 1) * i := by
  have hr : 0 ≤ t - base := by omega
  have hne : i ≠ 0 := by omega
  refine ⟨(t - base) / i, ?_, Int.ediv_nonneg hr (by omega), ?_, ?_⟩
  · simp only [calcSlotV, hne, if_false]; rw [Int.tdiv_eq_ediv_of_nonneg hr]
  · have := Int.ediv_mul_le (t - base) hne; omega
  · have := Int.lt_ediv_add_one_mul_self (t - base) hi; omega

/-! ## time zones: fixed-offset zones are a translation of the UTC model -/

/-- UTC is the zone with offset 0: the zone-parameterised calculators at offset 0 are the UTC
model's, for every argument -/
theorem utc_is_offset_zero (c : Calc) (t s f : Int) :
    calcSegmentTimeZ (Zone.fixed 0) c t = calcSegmentTime c t ∧
    calcFamilyZ (Zone.fixed 0) c t s = calcFamily c t s ∧
    calcFamilyStartTimeZ (Zone.fixed 0) c s f = calcFamilyStartTime c s f ∧
    calcFamilyEndTimeZ (Zone.fixed 0) c s = calcFamilyEndTime c s ∧
    calcFamilyTimeZ (Zone.fixed 0) c t = calcFamilyTime c t := by
  cases c <;>
    simp only [calcSegmentTimeZ, calcSegmentTime, calcFamilyZ, calcFamily, calcFamilyStartTimeZ,
      calcFamilyStartTime, calcFamilyEndTimeZ, calcFamilyEndTime, calcFamilyTimeZ, calcFamilyTime,
      Lemmas.C13.utc_civil, Lemmas.C13.utc_date, and_self]

/-- For `time.Local` = any fixed-offset zone (`off` seconds east of UTC, `o = 1000·off` ms) the
calculators at an instant `t` are the UTC-model calculators at the local time `t + o`, shifted
back by `o`; the slot is the same number. Guards: the instant and the local time are `≥ 0`. -/
theorem fixed_offset_translation (off : Int) (c : Calc) (t : Int) (h0 : 0 ≤ t)
    (h1 : 0 ≤ t + 1000 * off) :
    calcSegmentTimeZ (Zone.fixed off) c t = calcSegmentTime c (t + 1000 * off) - 1000 * off ∧
    calcFamilyTimeZ (Zone.fixed off) c t = calcFamilyTime c (t + 1000 * off) - 1000 * off ∧
    calcFamilyEndTimeZ (Zone.fixed off) c (calcFamilyTimeZ (Zone.fixed off) c t)
      = calcFamilyEndTime c (calcFamilyTime c (t + 1000 * off)) - 1000 * off ∧
    ∀ i, calcSlot c t (calcFamilyTimeZ (Zone.fixed off) c t) i
      = calcSlot c (t + 1000 * off) (calcFamilyTime c (t + 1000 * off)) i := by
  refine ⟨Lemmas.C13.segment_shift off c t (Or.inl ⟨h0, h1⟩), Lemmas.C13.familyTime_shift off c h0 h1,
    Lemmas.C13.familyEndOfFamilyTime_shift off c h0 h1, fun i => ?_⟩
  rw [Lemmas.C13.familyTime_shift off c h0 h1, Lemmas.C13.calcSlot_shift]

/-- hence the bucketing theorems hold verbatim in every fixed-offset zone -/
theorem zone_family_contains (off : Int) (c : Calc) (t : Int) (h0 : 0 ≤ t) (h1 : 0 ≤ t + 1000 * off) :
    calcFamilyTimeZ (Zone.fixed off) c t ≤ t ∧
    t ≤ calcFamilyEndTimeZ (Zone.fixed off) c (calcFamilyTimeZ (Zone.fixed off) c t) := by
  obtain ⟨_, e2, e3, _⟩ := fixed_offset_translation off c t h0 h1
  have := Lemmas.C13.family_contains c h1
  rw [e3, e2]; omega

theorem zone_family_idempotent (off : Int) (c : Calc) (t t' : Int) (h0 : 0 ≤ t)
    (h1 : 0 ≤ t + 1000 * off) (h0' : 0 ≤ t')
    (a : calcFamilyTimeZ (Zone.fixed off) c t ≤ t')
    (b : t' ≤ calcFamilyEndTimeZ (Zone.fixed off) c (calcFamilyTimeZ (Zone.fixed off) c t)) :
    calcFamilyTimeZ (Zone.fixed off) c t' = calcFamilyTimeZ (Zone.fixed off) c t := by
  obtain ⟨_, e2, e3, _⟩ := fixed_offset_translation off c t h0 h1
  rw [e3] at b; rw [e2] at a
  have hn := Lemmas.C13.familyTime_nonneg c h1
  have h1' : 0 ≤ t' + 1000 * off := by omega
  rw [Lemmas.C13.familyTime_shift off c h0' h1', e2,
    Lemmas.C13.family_idempotent c (t := t + 1000 * off) (t' := t' + 1000 * off) h1 (by omega) (by omega)]

theorem zone_families_tile (off : Int) (c : Calc) (t : Int) (h0 : 0 ≤ t) (h1 : 0 ≤ t + 1000 * off) :
    calcFamilyTimeZ (Zone.fixed off) c
        (calcFamilyEndTimeZ (Zone.fixed off) c (calcFamilyTimeZ (Zone.fixed off) c t) + 1)
      = calcFamilyEndTimeZ (Zone.fixed off) c (calcFamilyTimeZ (Zone.fixed off) c t) + 1 := by
  obtain ⟨_, _, e3, _⟩ := fixed_offset_translation off c t h0 h1
  have hc := zone_family_contains off c t h0 h1
  have hu := Lemmas.C13.family_contains c h1
  rw [e3] at hc ⊢
  have e : calcFamilyEndTime c (calcFamilyTime c (t + 1000 * off)) - 1000 * off + 1 + 1000 * off
      = calcFamilyEndTime c (calcFamilyTime c (t + 1000 * off)) + 1 := by omega
  rw [Lemmas.C13.familyTime_shift off c (by omega) (by omega), e, Lemmas.C13.families_tile c h1]
  omega

theorem zone_segment_contains_family (off : Int) (c : Calc) (t t' : Int) (h0 : 0 ≤ t)
    (h1 : 0 ≤ t + 1000 * off) (h0' : 0 ≤ t')
    (a : calcFamilyTimeZ (Zone.fixed off) c t ≤ t')
    (b : t' ≤ calcFamilyEndTimeZ (Zone.fixed off) c (calcFamilyTimeZ (Zone.fixed off) c t)) :
    calcSegmentTimeZ (Zone.fixed off) c t ≤ calcFamilyTimeZ (Zone.fixed off) c t ∧
    calcSegmentTimeZ (Zone.fixed off) c t' = calcSegmentTimeZ (Zone.fixed off) c t := by
  obtain ⟨e1, e2, e3, _⟩ := fixed_offset_translation off c t h0 h1
  rw [e3] at b; rw [e2] at a
  have hn := Lemmas.C13.familyTime_nonneg c h1
  have h1' : 0 ≤ t' + 1000 * off := by omega
  have sl := Lemmas.C13.segment_le_family c h1
  have sc := Lemmas.C13.segment_const_on_family c (t := t + 1000 * off) (t' := t' + 1000 * off) h1
    (by omega) (by omega)
  rw [e1, e2, Lemmas.C13.segment_shift off c t' (Or.inl ⟨h0', h1'⟩), sc]
  exact ⟨by omega, rfl⟩

theorem zone_slot_bound (off : Int) (c : Calc) (t i : Int) (h0 : 0 ≤ t) (h1 : 0 ≤ t + 1000 * off)
    (hi : 0 < i) :
    ∃ s, calcSlot c t (calcFamilyTimeZ (Zone.fixed off) c t) i = some s ∧ 0 ≤ s ∧
      calcFamilyTimeZ (Zone.fixed off) c t + s * i ≤ t ∧
      t < calcFamilyTimeZ (Zone.fixed off) c t + (s + 1) * i := by
  obtain ⟨_, e2, _, e4⟩ := fixed_offset_translation off c t h0 h1
  obtain ⟨s, es, s0, l, u⟩ := Lemmas.C13.slot_bound c (t := t + 1000 * off) (i := i) h1 hi
  exact ⟨s, by rw [e4 i]; exact es, s0, by rw [e2]; omega, by rw [e2]; omega⟩

/-! ## any `time.Local` satisfying the local-midnight contract (daylight-saving zones included)

`ZoneOK z` (`Lemmas/C13ZoneContract.lean`): with `localDay z t` the wall-clock day number of an
instant and `midnightOf z n` the instant of the local midnight starting day `n` (the two things
`time.Unix(..).Date()` and `time.Date(.., time.Local)` compute), local midnights strictly increase,
`midnightOf (localDay t) ≤ t < midnightOf (localDay t + 1)` for `t ≥ 0`, and
`localDay (midnightOf n) = n`. `HourAligned z`: every local day is a whole number of hours long.
Nothing else about the zone is used: offsets may change (23-, 25-, 23.5-, 24.5-hour days). -/

/-- month-type (families = local days) and year-type (families = local calendar months) calculators:
containment, idempotence and tiling hold over every zone satisfying the contract -/
theorem zone_contract_month_year (z : Zone) (hz : ZoneOK z) (c : Calc) (hc : c = .month ∨ c = .year)
    (t : Int) (h0 : 0 ≤ t) :
    (calcFamilyTimeZ z c t ≤ t ∧ t ≤ calcFamilyEndTimeZ z c (calcFamilyTimeZ z c t)) ∧
    (∀ t', 0 ≤ t' → calcFamilyTimeZ z c t ≤ t' → t' ≤ calcFamilyEndTimeZ z c (calcFamilyTimeZ z c t) →
      calcFamilyTimeZ z c t' = calcFamilyTimeZ z c t) ∧
    calcFamilyTimeZ z c (calcFamilyEndTimeZ z c (calcFamilyTimeZ z c t) + 1)
      = calcFamilyEndTimeZ z c (calcFamilyTimeZ z c t) + 1 := by
  rcases hc with rfl | rfl
  · exact ⟨Lemmas.C13.zc_month_contains hz h0,
      fun t' h0' a b => Lemmas.C13.zc_month_idempotent hz h0' a b, Lemmas.C13.zc_month_tile hz t⟩
  · exact ⟨Lemmas.C13.zc_year_contains hz h0,
      fun t' h0' a b => Lemmas.C13.zc_year_idempotent hz h0' a b, Lemmas.C13.zc_year_tile hz t⟩

/-- day-type calculator (families = hours counted from local midnight): containment over every
zone satisfying the contract; idempotence and tiling when in addition every local day is a whole
number of hours long (whole-hour daylight saving). `Neg.dst_half_hour_day_family_overlaps` shows the
extra hypothesis is needed. -/
theorem zone_contract_day (z : Zone) (hz : ZoneOK z) (t : Int) (h0 : 0 ≤ t) :
    (calcFamilyTimeZ z .day t ≤ t ∧ t ≤ calcFamilyEndTimeZ z .day (calcFamilyTimeZ z .day t)) ∧
    (HourAligned z →
      (∀ t', 0 ≤ t' → calcFamilyTimeZ z .day t ≤ t' →
        t' ≤ calcFamilyEndTimeZ z .day (calcFamilyTimeZ z .day t) →
        calcFamilyTimeZ z .day t' = calcFamilyTimeZ z .day t) ∧
      calcFamilyTimeZ z .day (calcFamilyEndTimeZ z .day (calcFamilyTimeZ z .day t) + 1)
        = calcFamilyEndTimeZ z .day (calcFamilyTimeZ z .day t) + 1) :=
  ⟨Lemmas.C13.zc_day_contains hz h0, fun ha =>
    ⟨fun t' h0' a b => Lemmas.C13.zc_day_idempotent hz ha h0 h0' a b, Lemmas.C13.zc_day_tile hz ha h0⟩⟩

/-- slots over such a zone, in the slot-rule variant the current source selects (month: plain
quotient since fix 46bbfe1): `slot·interval` is within one interval below the timestamp -/
theorem zone_contract_slot (z : Zone) (hz : ZoneOK z) (c : Calc) (t i : Int) (h0 : 0 ≤ t) (hi : 0 < i) :
    ∃ s, calcSlotV .quotient c t (calcFamilyTimeZ z c t) i = some s ∧ 0 ≤ s ∧
      calcFamilyTimeZ z c t + s * i ≤ t ∧ t < calcFamilyTimeZ z c t + (s + 1) * i := by
  have hne : i ≠ 0 := by omega
  cases c
  · -- day: offset below one hour, so `% OneHour` is the identity
    have hc := Lemmas.C13.zc_day_contains hz h0
    simp only [calcFamilyEndTimeZ, Lemmas.C13.oneHour_val] at hc
    have hr : 0 ≤ t - calcFamilyTimeZ z .day t := by omega
    have q := Lemmas.C13.quotient_slot_bound t (calcFamilyTimeZ z .day t) i (by omega) hi
    refine ⟨(t - calcFamilyTimeZ z .day t) / i, ?_, q.1, q.2.1, q.2.2⟩
    simp only [calcSlotV, calcSlot, hne, if_false, Lemmas.C13.oneHour_val]
    rw [Int.tmod_eq_emod_of_nonneg hr]
    have e : (t - calcFamilyTimeZ z .day t) % 3600000 = t - calcFamilyTimeZ z .day t := by omega
    rw [e, Int.tdiv_eq_ediv_of_nonneg hr]
  · have hc := Lemmas.C13.zc_month_contains hz h0
    have hr : 0 ≤ t - calcFamilyTimeZ z .month t := by omega
    have q := Lemmas.C13.quotient_slot_bound t (calcFamilyTimeZ z .month t) i (by omega) hi
    refine ⟨(t - calcFamilyTimeZ z .month t) / i, ?_, q.1, q.2.1, q.2.2⟩
    simp only [calcSlotV, hne, if_false]
    rw [Int.tdiv_eq_ediv_of_nonneg hr]
  · have hc := Lemmas.C13.zc_year_contains hz h0
    have hr : 0 ≤ t - calcFamilyTimeZ z .year t := by omega
    have q := Lemmas.C13.quotient_slot_bound t (calcFamilyTimeZ z .year t) i (by omega) hi
    refine ⟨(t - calcFamilyTimeZ z .year t) / i, ?_, q.1, q.2.1, q.2.2⟩
    simp only [calcSlotV, calcSlot, hne, if_false]
    rw [Int.tdiv_eq_ediv_of_nonneg hr]

/-- the contract is satisfiable: every fixed-offset zone (UTC included) satisfies it and is
hour-aligned -/
theorem fixed_zone_satisfies_contract (off : Int) :
    ZoneOK (Zone.fixed off) ∧ HourAligned (Zone.fixed off) :=
  Lemmas.C13.fixed_zone_ok off

/-! ## interval ladders: validation, segment directories, planner/storage agreement -/

/-- `Intervals.IsValid()` accepts a ladder iff its interval types are pairwise distinct — whatever the
order of the list -/
theorem ladder_valid_iff_types_distinct (ivs : List Int) :
    ladderValid ivs = true ↔ (ivs.map intervalType).Nodup :=
  Lemmas.C13.ladderValid_iff ivs

/-- `DatabaseOption.Validate()` (Ahead/Behind unset): ok iff non-empty with pairwise distinct types -/
theorem validate_ok_iff (ivs : List Int) :
    validateOption ivs = .ok ↔ ivs ≠ [] ∧ (ivs.map intervalType).Nodup := by
  cases ivs with
  | nil => simp [validateOption]
  | cons a r =>
    simp only [validateOption, List.isEmpty_cons, Bool.false_eq_true, if_false, ne_eq,
      reduceCtorEq, not_false_eq_true, true_and]
    rw [← Lemmas.C13.ladderValid_iff]
    split <;> simp_all

/-- a valid ladder's interval segments live in pairwise distinct directories
(`shard/<id>/segment/<type>`) -/
theorem valid_ladder_segment_dirs_distinct (ivs : List Int) (h : ladderValid ivs = true) :
    (ivs.map segmentDirName).Nodup :=
  Lemmas.C13.dirs_nodup ((Lemmas.C13.ladderValid_iff ivs).1 h)

/-- planner and storage agree on the interval: the storage interval the planner picks is the one
the storage resolves its interval type to -/
theorem planner_storage_resolved (st : Stmt) (ivs : List Int) (p : Plan) (hv : ladderValid ivs = true)
    (h : calcTimeRangeAndInterval st ivs = some p) :
    resolveByType ivs (intervalType p.storageInterval) = some p.storageInterval :=
  Lemmas.C13.find_of_nodup ((Lemmas.C13.ladderValid_iff ivs).1 hv) (planner_interval_stored st ivs p h)

/-! ## interval text and time windows -/

/-- `ValueOf(String(v)) = v` for positive whole-second intervals (number/unit level; the decimal
digits are strconv's and fmt's) -/
theorem interval_text_roundtrip (v : Int) (h0 : 0 < v) (hd : 1000 ∣ v) :
    valueOfParts (intervalParts v) = v :=
  Lemmas.C13.parts_roundtrip v h0 hd

/-- `CalcTimeWindows` of the day / month calculators is the number of hour / UTC-day families the
range `[a, b]` touches (the year calculator's is an estimate in 30-day units: modelled, not claimed) -/
theorem time_windows_exact (a b : Int) (ha : 0 ≤ a) (hab : a ≤ b) :
    calcTimeWindows .day a b = b / 3600000 - a / 3600000 + 1 ∧
    calcTimeWindows .month a b = b / 86400000 - a / 86400000 + 1 :=
  ⟨Lemmas.C13.timeWindows_day ha hab, Lemmas.C13.timeWindows_month ha hab⟩

/-! ## one live segment / family object per timestamp (write path, every interleaving)

`Shard.GetOrCrateDataFamily(t)` = `intervalSegment.GetOrCreateSegment(GetSegment(t))` followed by
`segment.GetOrCreateDataFamily(t)`: two get-or-creates on maps guarded by a mutex
(`Model/GetOrCreate.lean`). Any number of writer threads, every schedule of their atomic steps. -/

/-- In the shapes `atomic` (the code as it is: the whole get-or-create is one critical section) and
`splitRecheck` (open outside the lock, look again before storing), after ANY schedule of the
writers' atomic steps: the threads still are the writers of the given timestamps, and two writers
whose timestamps (`≥ 0`) lie in one family — `calcFamilyTime` equal — that have returned hold the
SAME family object, which is the one registered in the registered segment (what a query or a
flush resolves). "Every timestamp belongs to exactly one segment and one family" at the level of
the live objects. -/
theorem family_object_unique (c : Calc) (vs vf : GocVariant)
    (hs : Lemmas.C13.GocSafe vs) (hf : Lemmas.C13.GocSafe vf) (ts : List Int) (sched : List Nat) :
    (gRun vs vf (gInit c ts) sched).threads.map (·.ts) = ts ∧
    ∀ t1 ∈ (gRun vs vf (gInit c ts) sched).threads, ∀ t2 ∈ (gRun vs vf (gInit c ts) sched).threads,
      0 ≤ t1.ts → 0 ≤ t2.ts → calcFamilyTime c t1.ts = calcFamilyTime c t2.ts →
      ∀ a b, t1.famObj = some a → t2.famObj = some b →
        a = b ∧ gRegistered (gRun vs vf (gInit c ts) sched) t1 = some a := by
  obtain ⟨inv, hts⟩ := Lemmas.C13.gRun_inv hs hf c sched (gInit c ts) (Lemmas.C13.gInit_inv c ts)
  refine ⟨hts.trans (Lemmas.C13.gInit_ts c ts), ?_⟩
  intro t1 m1 t2 m2 h1 h2 hfam a b ha hb
  obtain ⟨ok1, s1, f1⟩ := inv t1 m1
  obtain ⟨ok2, s2, f2⟩ := inv t2 m2
  -- the two requests are the same (segment, family index)
  have c2 := Lemmas.C13.family_contains c h2
  rw [← hfam] at c2
  have eseg : t2.seg = t1.seg := by
    rw [s1, s2]; exact Lemmas.C13.segment_const_on_family c h1 c2.1 c2.2
  have efam : t2.fam = t1.fam := by
    rw [f1, f2, s1, s2]; exact Lemmas.C13.family_index_const_on_family c h1 c2.1 c2.2
  obtain ⟨so1, e1, l1⟩ := ok1.2 a ha
  obtain ⟨so2, e2, l2⟩ := ok2.2 b hb
  have r1 := ok1.1 so1 e1
  have r2 := ok2.1 so2 e2
  rw [eseg, r1] at r2
  have eso : so1 = so2 := Option.some.inj r2
  subst eso
  rw [efam, l1] at l2
  refine ⟨Option.some.inj l2, ?_⟩
  simp only [gRegistered, r1, l1]

/-- The converse, for the code's shape (both get-or-creates one critical section): writers of
DIFFERENT families never share a family object — together with `family_object_unique` the live
family objects correspond one to one to the families written. -/
theorem family_object_distinct (c : Calc) (ts : List Int) (sched : List Nat) :
    ∀ t1 ∈ (gRun .atomic .atomic (gInit c ts) sched).threads,
    ∀ t2 ∈ (gRun .atomic .atomic (gInit c ts) sched).threads,
      calcFamilyTime c t1.ts ≠ calcFamilyTime c t2.ts →
      ∀ a b, t1.famObj = some a → t2.famObj = some b → a ≠ b := by
  have sa : Lemmas.C13.GocSafe .atomic := Or.inl rfl
  obtain ⟨inv, _⟩ := Lemmas.C13.gRun_inv sa sa c sched (gInit c ts) (Lemmas.C13.gInit_inv c ts)
  obtain ⟨fresh, _⟩ := Lemmas.C13.gRun_fresh sched (gInit c ts) (Lemmas.C13.gInit_fresh c ts)
  intro t1 m1 t2 m2 hne a b ha hb hab
  obtain ⟨ok1, s1, f1⟩ := inv t1 m1
  obtain ⟨ok2, s2, f2⟩ := inv t2 m2
  obtain ⟨so1, e1, l1⟩ := ok1.2 a ha
  obtain ⟨so2, e2, l2⟩ := ok2.2 b hb
  subst hab
  have k := fresh.2 _ _ _ l1 l2
  have kso : so1 = so2 := by have := congrArg Prod.fst k; simpa using this
  have kfam : t1.fam = t2.fam := congrArg Prod.snd k
  subst kso
  have kseg : t1.seg = t2.seg := by
    have := fresh.2 _ _ _ (ok1.1 so1 e1) (ok2.1 so1 e2)
    exact congrArg Prod.snd this
  apply hne
  simp only [calcFamilyTime]
  rw [← s1, ← s2, ← f1, ← f2, kseg, kfam]

/-- the families of two writers of one timestamp list are those of the list: the writer threads of
`ts` request exactly `(CalcSegmentTime t, CalcFamily t)` — the keys are the C13 arithmetic -/
theorem writer_keys (c : Calc) (ts : List Int) :
    (gInit c ts).threads.map (fun t => (t.seg, t.fam)) =
      ts.map (fun t => (calcSegmentTime c t, calcFamily c t (calcSegmentTime c t))) := by
  simp [gInit, mkThread, Function.comp_def]

/-! ## non-vacuity -/

-- two writers of one hour family, strictly alternating, then drained: one object, registered
example : let s := gDrain .atomic .atomic (gRun .atomic .atomic (gInit .day [1715851800000, 1715851800001]) [0, 1, 0, 1])
    s.threads.map (·.famObj) = [some 1, some 1] ∧ s.threads.map (gRegistered s) = [some 1, some 1] ∧
    s.opened = 1 := by decide

-- 2024-02-29T12:34:56.789Z (leap day): the three calculators
example : calcFamilyTime .day 1709210096789 = 1709208000000 ∧
    calcFamilyTime .month 1709210096789 = 1709164800000 ∧
    calcFamilyTime .year 1709210096789 = 1706745600000 ∧
    calcFamilyEndTime .year 1706745600000 = 1709251199999 ∧
    calcSegmentTime .year 1709210096789 = 1704067200000 := by decide
example : calcSlot .month 1709210096789 1709164800000 300000 = some 150 := by decide
example : calcTimeRangeAndInterval ⟨0, ⟨1709210096789, 1709296496789⟩, false⟩ [10000, 300000, 3600000]
    = some ⟨⟨1709209800000, 1709296200000⟩, 300000, 300000, 1⟩ := by decide

-- single-slot query range inside the 10:00 family of a 10s database: slots [104, 104]
example : calcSlotRange 10000 1709200800000 ⟨1709201840000, 1709201840000⟩ = some (104, 104) := by decide
-- a batch with rows in two adjacent hour families
example : groupFamilies .day [1709203800000, 1709205000000, 1709201000000]
    = [(1709200800000, [1709201000000, 1709203800000]), (1709204400000, [1709205000000])] := by decide

/-! ## tie to /repo's source (regenerated facts) -/
namespace Tie
open LinVerif.Generated

theorem constants :
    C13.oneSecond = oneSecond ∧ C13.oneMinute = oneMinute ∧ C13.oneHour = oneHour ∧
    C13.oneDay = oneDay ∧ C13.oneWeek = oneWeek ∧ C13.oneMonth = oneMonth ∧ C13.oneYear = oneYear := by
  decide

/-- first row whose bound is `≤ i` (the `switch` of `Interval.Type`) -/
def typeLookup : List (Int × String) → String → Int → String
  | [], d, _ => d
  | (b, n) :: r, d, i => if i ≥ b then n else typeLookup r d i

def calcName : Calc → String
  | .day => "Day" | .month => "Month" | .year => "Year"

theorem interval_type (i : Int) :
    calcName (intervalType i) = typeLookup C13.typeRows C13.typeDefault i := by
  simp only [intervalType, C13.typeRows, C13.typeDefault, typeLookup, Lemmas.C13.oneHour_val,
    show oneMinute = 60000 by decide]
  split <;> [skip; split] <;> simp_all [calcName]

theorem calculator_table :
    C13.calculatorRows = [("Year", "yearCalculator"), ("Month", "monthCalculator"), ("default", "dayCalculator")] := by
  decide

theorem query_ladder :
    C13.queryLadder = queryLadder ∧ C13.queryLadderFirstBound = oneHour ∧
    C13.queryLadderFirstResult = "queryInterval" ∧ C13.queryLadderDefault = oneDay ∧
    C13.queryDiffExpr = "queryTimeRange.End - queryTimeRange.Start" := by
  decide

theorem calc_slot (t b i : Int) (hi : i ≠ 0) :
    calcSlot .day t b i = some (C13.dayCalcSlot t b i) ∧
    calcSlot .year t b i = some (C13.yearCalcSlot t b i) := by
  simp [calcSlot, hi, C13.dayCalcSlot, C13.yearCalcSlot, Lemmas.C13.oneHour_val]

/-- the month calculator's slot formula in the source is the model's, in whichever of the two known
variants the source text selects (the proof goes through for the current code and for
`fixes/C13-month-slot-quotient.patch`) -/
theorem calc_slot_month (v : SlotVariant) (hv : slotVariantOf C13.monthCalcSlotExpr = some v)
    (t b i : Int) (hi : i ≠ 0) :
    calcSlotV v .month t b i = some (C13.monthCalcSlot t b i) := by
  cases v <;>
    first
    | (exfalso; revert hv; decide)
    | simp [calcSlotV, calcSlot, hi, C13.monthCalcSlot, Lemmas.C13.oneDay_val]

/-- the current source uses the plain quotient (fix 46bbfe1); `zone_contract_slot` is stated for it -/
theorem month_slot_variant_current : slotVariantOf C13.monthCalcSlotExpr = some .quotient := rfl

/-- the source text selects a known variant -/
theorem month_slot_variant_known : (slotVariantOf C13.monthCalcSlotExpr).isSome = true := by decide

theorem day_calculator (t seg f s : Int) :
    calcFamily .day t seg = C13.dayCalcFamily t seg ∧
    calcFamilyStartTime .day seg f = C13.dayCalcFamilyStartTime seg f ∧
    calcFamilyEndTime .day s = C13.dayCalcFamilyEndTime s := by
  simp [calcFamily, calcFamilyStartTime, calcFamilyEndTime, C13.dayCalcFamily,
    C13.dayCalcFamilyStartTime, C13.dayCalcFamilyEndTime, Lemmas.C13.oneHour_val]

theorem truncate_ratio (t i q s : Int) (hi : i ≠ 0) :
    truncate t i = some (C13.truncate t i) ∧ calIntervalRatio q s = C13.calIntervalRatio q s := by
  simp [truncate, hi, C13.truncate, calIntervalRatio, C13.calIntervalRatio]

/-- the `time.Unix` / `time.Date` arguments and result expressions the calendar part of the
model mirrors (`civilOfMs`, `dateMs` and the `- 1` of the end times) -/
theorem calendar_calls :
    C13.dayCalcSegmentTimeShape = ["timestamp / 1000", "0", "|", "t.Year()", "t.Month()", "t.Day()", "0", "0", "0", "0", "time.Local", "|", "t2.UnixNano() / 1000000"] ∧
    C13.monthCalcSegmentTimeShape = ["timestamp / 1000", "0", "|", "t.Year()", "t.Month()", "1", "0", "0", "0", "0", "time.Local", "|", "t2.UnixNano() / 1000000"] ∧
    C13.monthCalcFamilyShape = ["timestamp / 1000", "0", "|", "|", "t.Day()"] ∧
    C13.monthCalcFamilyStartTimeShape = ["segmentTime / 1000", "0", "|", "t.Year()", "t.Month()", "familyTime", "0", "0", "0", "0", "time.Local", "|", "t2.UnixNano() / 1000000"] ∧
    C13.monthCalcFamilyEndTimeShape = ["familyStartTime / 1000", "0", "|", "t.Year()", "t.Month()", "t.Day() + 1", "0", "0", "0", "0", "time.Local", "|", "t2.UnixNano() / 1000000 - 1"] ∧
    C13.yearCalcSegmentTimeShape = ["timestamp / 1000", "0", "|", "t.Year()", "time.January", "1", "0", "0", "0", "0", "time.Local", "|", "t2.UnixNano() / 1000000"] ∧
    C13.yearCalcFamilyShape = ["timestamp / 1000", "0", "|", "|", "int(t.Month())"] ∧
    C13.yearCalcFamilyStartTimeShape = ["segmentTime / 1000", "0", "|", "t.Year()", "time.Month(familyTime)", "1", "0", "0", "0", "0", "time.Local", "|", "t2.UnixNano() / 1000000"] ∧
    C13.yearCalcFamilyEndTimeShape = ["familyStartTime / 1000", "0", "|", "t.Year()", "t.Month() + 1", "1", "0", "0", "0", "0", "time.Local", "|", "t2.UnixNano() / 1000000 - 1"] := ⟨rfl, rfl, rfl, rfl, rfl, rfl, rfl, rfl, rfl⟩

theorem family_time_bodies :
    C13.dayCalcFamilyTimeBody = ["segmentTime := d.CalcSegmentTime(timestamp)", "family := d.CalcFamily(timestamp, segmentTime)", "return d.CalcFamilyStartTime(segmentTime, family)"] ∧
    C13.monthCalcFamilyTimeBody = ["segmentTime := m.CalcSegmentTime(timestamp)", "family := m.CalcFamily(timestamp, segmentTime)", "return m.CalcFamilyStartTime(segmentTime, family)"] ∧
    C13.yearCalcFamilyTimeBody = ["segmentTime := y.CalcSegmentTime(timestamp)", "family := y.CalcFamily(timestamp, segmentTime)", "return y.CalcFamilyStartTime(segmentTime, family)"] ∧
    C13.dayLayout = ["timestamp", "\"20060102\"", "segmentName", "\"20060102\""] ∧
    C13.monthLayout = ["timestamp", "\"200601\"", "segmentName", "\"200601\""] ∧
    C13.yearLayout = ["timestamp", "\"2006\"", "segmentName", "\"2006\""] := ⟨rfl, rfl, rfl, rfl, rfl, rfl⟩

theorem planner_body :
    C13.plannerBody = ["option := cfg.Option", "interval := statement.Interval", "if interval <= 0 { interval = option.Intervals[0].Interval }", "interval = timeutil.CalcQueryInterval(statement.TimeRange, interval)", "storageInterval := option.FindMatchSmallestInterval(interval)", "intervalVal := storageInterval.Int64()", "statement.TimeRange.Start = timeutil.Truncate(statement.TimeRange.Start, intervalVal)", "statement.TimeRange.End = timeutil.Truncate(statement.TimeRange.End, intervalVal)", "if statement.AutoGroupByTime { statement.Interval = timeutil.Interval(statement.TimeRange.End-statement.TimeRange.Start) + storageInterval }", "if interval < statement.Interval { interval = statement.Interval }", "intervalRatio := timeutil.CalIntervalRatio(interval.Int64(), storageInterval.Int64())", "interval = timeutil.Interval(storageInterval.Int64() * int64(intervalRatio))", "statement.StorageInterval = storageInterval", "statement.Interval = interval", "statement.IntervalRatio = intervalRatio"] := rfl

theorem find_match_body :
    C13.findMatchBody = ["storageIntervals := make([]timeutil.Interval, len(e.Intervals))", "idx := 0", "for k := range e.Intervals { storageIntervals[idx] = e.Intervals[k].Interval idx++ }", "sort.Slice(storageIntervals, func(i, j int) bool { return storageIntervals[i] > storageIntervals[j] })", "storageInterval := e.Intervals[0].Interval", "for _, sInterval := range storageIntervals { if interval >= sInterval { storageInterval = sInterval break } }", "return storageInterval"] := rfl

theorem family_range_bodies :
    C13.initDataFamilyBody = ["calc := s.interval.Calculator()", "familyStartTime := calc.CalcFamilyStartTime(s.baseTime, familyTime)", "dataFamily := newDataFamilyFunc(s.shard, s, s.interval, timeutil.TimeRange{ Start: familyStartTime, End: calc.CalcFamilyEndTime(familyStartTime), }, familyStartTime, family)", "s.families[familyTime] = dataFamily", "return dataFamily"] ∧
    C13.getOrCreateDataFamilyCalls = ["interval.Calculator", "calc.CalcSegmentTime", "fmt.Errorf"] ∧
    C13.timeRangeOfTimestampBody = ["segmentTime := itr.intervalCalc.CalcSegmentTime(timestamp)", "family := itr.intervalCalc.CalcFamily(timestamp, segmentTime)", "familyStartTime := itr.intervalCalc.CalcFamilyStartTime(segmentTime, family)", "return timeutil.TimeRange{ Start: familyStartTime, End: itr.intervalCalc.CalcFamilyEndTime(familyStartTime), }"] := ⟨rfl, rfl, rfl⟩

/-- the code variant of `segment.GetDataFamilies` the lookup theorems are stated for is the one the
current source text selects (fix 8adefd6) -/
theorem lookup_variant : lookupVariantOf C13.gdfRangeExprs = some .ownSegment := rfl

theorem lookup_calls :
    C13.segmentGdfCalls = ["interval.Calculator", "calc.CalcFamilyTime", "calc.CalcFamilyTime", "kvStore.ListFamilyNames", "strconv.Atoi", "s.getOrLoadFamily", "family.TimeRange", "familyQueryTimeRange.Overlap", "append"] ∧
    C13.intervalSegmentRangeExprs = ["intervalCalc.CalcSegmentTime(timeRange.Start)", "timeRange.End"] ∧
    C13.intervalSegmentGdfCalls = ["commontimeutil.Now", "Interval.Calculator", "intervalCalc.CalcSegmentTime", "Retention.Int64", "λ:segmentQueryTimeRange.Contains", "λ:s.getOrLoadSegment", "λ:logger.String", "λ:logger.String", "λ:logger.Error", "λ:logger.Info", "λ:segmentQueryTimeRange.Intersect", "λ:segment.GetDataFamilies", "λ:len", "λ:append", "s.walkSegment", "logger.String", "logger.Error", "logger.Warn"] :=
  ⟨rfl, rfl, rfl⟩

theorem slot_range_body : C13.calcSlotRangeBody = ["calc := i.Calculator()", "storageTimeRange := TimeRange{ Start: familyTime, End: calc.CalcFamilyEndTime(familyTime), }", "rs := timeRange.Intersect(storageTimeRange)", "intervalVal := i.Int64()", "return SlotRange{ Start: uint16(calc.CalcSlot(rs.Start, familyTime, intervalVal)), End: uint16(calc.CalcSlot(rs.End, familyTime, intervalVal)), }"] := rfl

theorem rollup_bodies :
    C13.rollupGetTimestampBody = ["return r.sourceFTime + int64(slot)*r.source.Int64()"] ∧
    C13.rollupIntervalRatioBody = ["return uint16(r.target / r.source)"] ∧
    C13.rollupCalcSlotBody = ["return uint16(r.target.Calculator().CalcSlot(timestamp, r.targetFTime, r.target.Int64()))"] ∧
    C13.rollupBaseSlotBody = ["return r.CalcSlot(r.sourceFTime)"] ∧
    C13.newRollupBody = ["return &rollup{ source: source, target: target, sourceFTime: sourceFTime, targetFTime: targetFTime, }"] ∧
    C13.rollupTargetExprs = ["tSegmentTime := targetInterval.Calculator().CalcSegmentTime(familyStartTime)", "tFamilyTime := targetInterval.Calculator().CalcFamily(familyStartTime, tSegmentTime)", "fSTime := targetInterval.Calculator().CalcFamilyStartTime(tSegmentTime, tFamilyTime)", "rollup := newRollup(sourceInterval, targetInterval, familyStartTime, fSTime)"] :=
  ⟨rfl, rfl, rfl, rfl, rfl, rfl⟩

theorem broker_bodies :
    C13.brokerResetBody = ["itr.groupEnd = 0", "itr.groupStart = 0", "itr.rows = rows", "itr.intervalCalc = interval.Calculator()", "itr.groupFamilyTime = 0", "itr.rows = rows", "if itr.sameFamily = itr.isSameFamily(); itr.sameFamily { return }", "sort.Sort(itr.rows)"] ∧
    C13.brokerIsSameFamilyBody = ["if len(itr.rows) == 0 { return true }", "firstTimestamp := itr.rows[0].m.Timestamp()", "itr.groupFamilyTime = itr.familyTimeOfTimestamp(firstTimestamp)", "timeRange := itr.timeRangeOfTimestamp(firstTimestamp)", "for i := 1; i < len(itr.rows); i++ { if !timeRange.Contains(itr.rows[i].m.Timestamp()) { return false } }", "return true"] ∧
    C13.brokerHasNextFamilyBody = ["if itr.groupEnd >= len(itr.rows) || itr.groupStart > itr.groupEnd { return false }", "if itr.sameFamily { itr.groupEnd = len(itr.rows) itr.groupStart = 0 return true }", "firstTimestamp := itr.rows[itr.groupEnd].m.Timestamp()", "timeRange := itr.timeRangeOfTimestamp(firstTimestamp)", "itr.groupStart = itr.groupEnd", "itr.groupFamilyTime = itr.familyTimeOfTimestamp(firstTimestamp)", "for itr.groupEnd < len(itr.rows) { if !timeRange.Contains(itr.rows[itr.groupEnd].m.Timestamp()) { break } itr.groupEnd++ }", "return itr.groupStart < itr.groupEnd"] ∧
    C13.brokerNextFamilyBody = ["return itr.groupFamilyTime, itr.rows[itr.groupStart:itr.groupEnd]"] ∧
    C13.brokerFamilyTimeOfTimestampBody = ["return itr.intervalCalc.CalcFamilyTime(timestamp)"] ∧
    C13.brokerFamilyIteratorFields = ["groupEnd int", "groupStart int", "groupFamilyTime int64", "sameFamily bool", "rows familySortedRows", "intervalCalc timeutil.IntervalCalculator"] :=
  ⟨rfl, rfl, rfl, rfl, rfl, rfl⟩

theorem ladder_bodies :
    C13.isValidBody = ["intervalMap := make(map[timeutil.IntervalType]Interval)", "for _, i := range m { intervalType := i.Interval.Type() exist, ok := intervalMap[intervalType] if ok { return fmt.Errorf(\"duplicate interval type,[%s(%s),%s(%s)]\", exist.String(), intervalType.String(), i.String(), intervalType.String()) } intervalMap[intervalType] = i }", "return nil"] ∧
    C13.validateBody = ["if len(e.Intervals) == 0 { return errors.New(\"intervals cannot be empty\") }", "if err := e.Intervals.IsValid(); err != nil { return err }", "if err := validateInterval(e.Ahead, false); err != nil { return err }", "if err := validateInterval(e.Behind, false); err != nil { return err }", "return nil"] ∧
    C13.shardIntervalSegmentPathBody = ["return filepath.Join(shardPath(database, shardID), segmentDir, interval.Type().String())"] ∧
    C13.shardSegmentPathBody = ["return filepath.Join(shardPath(database, shardID), segmentDir, interval.Type().String(), name)"] :=
  ⟨rfl, rfl, rfl, rfl⟩

theorem interval_text_bodies :
    C13.intervalStringBody = ["val := i.Int64()", "switch { case val%timeutil.OneYear == 0 && val/timeutil.OneYear > 0: return fmt.Sprintf(\"%dy\", val/timeutil.OneYear) case val%timeutil.OneMonth == 0 && val/timeutil.OneMonth > 0: return fmt.Sprintf(\"%dM\", val/timeutil.OneMonth) case val%timeutil.OneDay == 0 && val/timeutil.OneDay > 0: return fmt.Sprintf(\"%dd\", val/timeutil.OneDay) case val%timeutil.OneHour == 0 && val/timeutil.OneHour > 0: return fmt.Sprintf(\"%dh\", val/timeutil.OneHour) case val%timeutil.OneMinute == 0 && val/timeutil.OneMinute > 0: return fmt.Sprintf(\"%dm\", val/timeutil.OneMinute) default: return fmt.Sprintf(\"%ds\", val/timeutil.OneSecond) }"] ∧
    C13.intervalValueOfBody = ["intervalBytes := []byte(strings.ReplaceAll(intervalStr, \" \", \"\"))", "if len(intervalBytes) <= 1 { return ErrUnknownInterval }", "unixSuffix := string(intervalBytes[len(intervalBytes)-1])", "valuePrefix := string(intervalBytes[:len(intervalBytes)-1])", "var unit int64", "switch unixSuffix { case \"s\", \"S\": unit = timeutil.OneSecond case \"m\": unit = timeutil.OneMinute case \"h\", \"H\": unit = timeutil.OneHour case \"d\", \"D\": unit = timeutil.OneDay case \"M\": unit = timeutil.OneMonth case \"y\", \"Y\": unit = timeutil.OneYear default: return ErrUnknownInterval }", "value, err := strconv.ParseInt(valuePrefix, 10, 64)", "if err != nil { return ErrUnknownInterval }", "*i = Interval(value * unit)", "return nil"] :=
  ⟨rfl, rfl⟩

theorem time_windows_bodies :
    C13.dayCalcTimeWindowsBody = ["t1 := start / timeutil.OneHour * timeutil.OneHour", "t2 := end / timeutil.OneHour * timeutil.OneHour", "return int((t2-t1)/timeutil.OneHour) + 1"] ∧
    C13.monthCalcTimeWindowsBody = ["t1 := time.Unix(start/1000, 0)", "t1 = time.Date(t1.Year(), t1.Month(), t1.Day(), 0, 0, 0, 0, time.Local)", "t2 := time.Unix(end/1000, 0)", "t2 = time.Date(t2.Year(), t2.Month(), t2.Day(), 0, 0, 0, 0, time.Local)", "return int(t2.Sub(t1).Hours()/24) + 1"] ∧
    C13.yearCalcTimeWindowsBody = ["t1 := time.Unix(start/1000, 0)", "t1 = time.Date(t1.Year(), t1.Month(), 0, 0, 0, 0, 0, time.Local)", "t2 := time.Unix(end/1000, 0)", "t2 = time.Date(t2.Year(), t2.Month(), 0, 0, 0, 0, 0, time.Local)", "return int(t2.Sub(t1).Hours()/24/30) + 1"] :=
  ⟨rfl, rfl, rfl⟩

/-- the four get-or-creates that read and write `intervalSegment.segments` / `segment.families`
(write path and query path) are each ONE critical section in the current source: mutex.Lock,
deferred Unlock, lookup, constructor seam, store — the shape `family_object_unique` is applied in
(`GocSafe .atomic`). Opening the object outside the lock, or storing without the lookup under the
same lock, selects another shape (or none) and re-opens this obligation. -/
theorem goc_variant :
    gocVariantOf "segments" "newSegmentFunc" C13.getOrCreateSegmentEvents = some .atomic ∧
    gocVariantOf "segments" "newSegmentFunc" C13.getOrLoadSegmentEvents = some .atomic ∧
    gocVariantOf "families" "newDataFamilyFunc"
      (gocInline "initDataFamily" C13.initDataFamilyEvents C13.getOrCreateDataFamilyEvents) = some .atomic ∧
    gocVariantOf "families" "newDataFamilyFunc"
      (gocInline "initDataFamily" C13.initDataFamilyEvents C13.getOrLoadFamilyEvents) = some .atomic ∧
    Lemmas.C13.GocSafe .atomic := by
  refine ⟨by decide, by decide, by decide, by decide, Or.inl rfl⟩

/-- the full event lists (lock / lookup / create / store, every call) of the get-or-create
functions and the order of the two levels in `shard.GetOrCrateDataFamily` -/
theorem goc_steps :
    C13.getOrCreateSegmentEvents = ["Lock", "defer:Unlock", "read:segments", "call:newSegmentFunc", "call:Errorf", "write:segments"] ∧
    C13.getOrLoadSegmentEvents = ["Lock", "defer:Unlock", "read:segments", "call:newSegmentFunc", "write:segments"] ∧
    C13.getOrCreateDataFamilyEvents = ["call:Calculator", "call:CalcSegmentTime", "call:Errorf", "call:CalcFamily", "Lock", "defer:Unlock", "read:families", "call:string", "call:Itoa", "call:GetFamily", "call:Sprintf", "call:CreateFamily", "call:Errorf", "call:initDataFamily"] ∧
    C13.getOrLoadFamilyEvents = ["Lock", "defer:Unlock", "read:families", "call:GetFamily", "call:initDataFamily"] ∧
    C13.initDataFamilyEvents = ["call:Calculator", "call:CalcFamilyStartTime", "call:CalcFamilyEndTime", "call:newDataFamilyFunc", "write:families"] ∧
    C13.shardGetOrCrateDataFamilyEvents = ["call:Calculator", "call:GetSegment", "call:GetOrCreateSegment", "call:Yield", "call:Calculator", "call:GetSegment", "call:GetOrCreateSegment", "call:GetOrCreateDataFamily"] :=
  ⟨rfl, rfl, rfl, rfl, rfl, rfl⟩

end Tie

/-! ## what fix 8adefd6 repaired: the previous variant of `segment.GetDataFamilies`

Before the fix the family range of a query was built from `CalcFamily` (day of month for month-type,
month of year for year-type segments) of the query's start and end applied to the *segment's* base
time; for a range crossing a month (year) boundary that range is inverted and a family that holds a
requested timestamp is not returned. The full-strength statement `get_data_families_exact` is
false for that variant. -/
namespace Neg

/-- month-type families written on 2023-06-27 and 2023-07-03, query 2023-06-25 .. 2023-07-05:
the old variant returns nothing; the current one returns both -/
theorem per_segment_lookup_misses_family :
    getDataFamilies .perSegment .month ⟨1687651200000, 1688515200000⟩ [1687860000000, 1688378400000] = [] ∧
    getDataFamilies .ownSegment .month ⟨1687651200000, 1688515200000⟩ [1687860000000, 1688378400000]
      = [1687824000000, 1688342400000] := by decide

/-- the inverted range of the old variant in the June 2023 segment: [2023-06-25, 2023-06-05] -/
theorem per_segment_range_inverted :
    familyQueryTimeRange .perSegment .month 1685577600000 ⟨1687651200000, 1688515200000⟩
      = ⟨1687651200000, 1685923200000⟩ := by decide

/-- year-type: families of 2022-12-10 and 2023-01-20, query 2022-11-10 .. 2023-02-03 -/
theorem per_segment_lookup_misses_family_year :
    getDataFamilies .perSegment .year ⟨1668038400000, 1675382400000⟩ [1670630400000, 1674172800000] = [] ∧
    getDataFamilies .ownSegment .year ⟨1668038400000, 1675382400000⟩ [1670630400000, 1674172800000]
      = [1669852800000, 1672531200000] := by decide

/-! ### guards shown necessary -/

/-- Negative timestamps: Go's `timestamp/1000` truncates toward zero, so the 999 ms before a second
boundary are dated with the *next* second. `t = -1` is dated 1970-01-01 and all three calculators
put it into a family that starts at `0 > t`: `family_contains` fails, the guard `0 ≤ t` is needed. -/
theorem negative_timestamp_outside_its_family :
    calcFamilyTime .day (-1) = 0 ∧ calcFamilyTime .month (-1) = 0 ∧ calcFamilyTime .year (-1) = 0 ∧
    ¬ (calcFamilyTime .day (-1) ≤ -1) := by decide

/-- the same half a second before 1969-12-31T00:00:00Z: the month calculator's family is the day
1969-12-31 `[-86400000, -1]`, which does not contain `t = -86400500` -/
theorem negative_timestamp_outside_its_family_day :
    calcFamilyTime .month (-86400500) = -86400000 ∧
    calcFamilyEndTime .month (calcFamilyTime .month (-86400500)) = -1 ∧
    ¬ (calcFamilyTime .month (-86400500) ≤ -86400500) := by decide

/-- whole negative seconds are bucketed correctly (truncation is exact), e.g. 1969-12-31T23:59:58Z -/
theorem negative_whole_second_ok :
    calcFamilyTime .day (-2000) = -3600000 ∧ calcFamilyEndTime .day (-3600000) = -1 ∧
    calcFamilyTime .year (-2000) = -2678400000 := by decide

/-- Storage interval 7 s (day type, does not divide one hour): a point written at 01:00:03Z is in
the 01:00 family, the query `[00:59:00, 01:00:03]` is planned to `[00:58:56, 00:59:59]`
(epoch-aligned 7 s grid), which ends before the family starts: `GetDataFamilies` does not return
the family although the requested range contains the point. The divisibility guard of
`query_covers_written` is necessary. -/
theorem unaligned_interval_not_covered :
    calcTimeRangeAndInterval ⟨0, ⟨1709254740000, 1709254803000⟩, false⟩ [7000]
      = some ⟨⟨1709254736000, 1709254799000⟩, 7000, 7000, 1⟩ ∧
    calcFamilyTime .day 1709254803000 = 1709254800000 ∧
    getDataFamilies .ownSegment .day ⟨1709254736000, 1709254799000⟩ [1709254803000] = [] ∧
    ¬ (7000 ∣ (1709254800000 : Int)) := by decide

/-- DST is outside the model. What fails on a 25-hour day: America/New_York 2024-11-03 (clocks go
back at 06:00Z). The month calculator's family of `t` = 2024-11-04T04:30:00Z (23:30 EST) is the
local day `[04:00Z Nov 3, 04:59:59.999Z Nov 4]` — 25 hours, it contains `t` — but `CalcSlot`
takes the offset `% OneDay`, so with a 5-minute interval the slot is `6` instead of `294`:
`slot·interval` is 24 hours below the timestamp. (On a 23-hour day the rule is not hit.) -/
theorem dst_25h_day_slot_wraps :
    calcFamilyTimeZ Zone.newYorkFall2024 .month 1730694600000 = 1730606400000 ∧
    calcFamilyEndTimeZ Zone.newYorkFall2024 .month 1730606400000 = 1730696399999 ∧
    calcSlot .month 1730694600000 1730606400000 300000 = some 6 ∧
    ¬ (1730694600000 < 1730606400000 + (6 + 1) * 300000) := by decide

/-- the same instant under the repaired rule: slot 294, `294·5m ≤ t − start < 295·5m` -/
theorem dst_25h_day_slot_quotient_ok :
    calcSlotV .quotient .month 1730694600000 1730606400000 300000 = some 294 ∧
    1730606400000 + 294 * 300000 ≤ (1730694600000 : Int) ∧
    (1730694600000 : Int) < 1730606400000 + (294 + 1) * 300000 := by decide

/-- Half-hour daylight saving (Australia/Lord_Howe, 2024-04-07, a 24.5-hour day): the day-type
calculator counts hour families from local midnight, so family 24 `[mid+24h, mid+25h−1]` of
`t` = 00:10 LHST (second pass) runs 30 minutes into the next local day, whose family 0 starts at
`mid+24.5h`: the family of the family's end is another family (overlap), and the family spans two
segments. `HourAligned` in `zone_contract_day` is necessary. -/
theorem dst_half_hour_day_family_overlaps :
    calcFamilyTimeZ Zone.lordHoweApr2024 .day 1712495400000 = 1712494800000 ∧
    calcFamilyEndTimeZ Zone.lordHoweApr2024 .day 1712494800000 = 1712498399999 ∧
    calcFamilyTimeZ Zone.lordHoweApr2024 .day 1712498399999 = 1712496600000 ∧
    calcSegmentTimeZ Zone.lordHoweApr2024 .day 1712495400000 = 1712408400000 ∧
    calcSegmentTimeZ Zone.lordHoweApr2024 .day 1712498399999 = 1712496600000 := by decide

/-- Why `IsValid` must not depend on the order: the ladder `[10s, 1h, 1m]` has two day-type
intervals; it is rejected. Were it accepted (a check comparing only neighbouring elements accepts
it), the 10 s and 1 m interval segments would share the directory `day`, and the storage would
resolve the planner's storage interval 1 m (day type) to the 10 s segment. -/
theorem unsorted_duplicate_type_ladder :
    ladderValid [10000, 3600000, 60000] = false ∧
    validateOption [10000, 3600000, 60000] = .duplicate ∧
    segmentDirName 10000 = segmentDirName 60000 ∧
    (calcTimeRangeAndInterval ⟨60000, ⟨1709254740000, 1709254803000⟩, false⟩ [10000, 60000, 3600000]).map
      (·.storageInterval) = some 60000 ∧
    resolveByType [10000, 60000, 3600000] (intervalType 60000) = some 10000 := by decide

/-- Why `GetOrCreateSegment` must look up, open and store under ONE lock (or look again before it
stores): in the shape `splitNoRecheck` — lookup under the lock, `newSegmentFunc` outside, plain
store — two writers of the same timestamp 2024-05-16T09:30Z that alternate step by step both miss,
both open a segment object (2 opened), each creates its family in its OWN segment object: they
hold two different family objects (2 and 3) and only the last stored segment's family (3) is
registered. `family_object_unique` is false for this shape; the same schedule in `splitRecheck`
opens two segment objects but both writers end with the one registered family. -/
theorem unlocked_open_two_families :
    (let s := gDrain .splitNoRecheck .atomic (gRun .splitNoRecheck .atomic
        (gInit .day [1715851800000, 1715851800000]) [0, 1, 0, 1, 0, 1, 0, 1])
     s.threads.map (·.famObj) = [some 2, some 3] ∧ s.threads.map (gRegistered s) = [some 3, some 3] ∧
       s.opened = 2) ∧
    (let s := gDrain .splitRecheck .atomic (gRun .splitRecheck .atomic
        (gInit .day [1715851800000, 1715851800000]) [0, 1, 0, 1, 0, 1, 0, 1])
     s.threads.map (·.famObj) = [some 2, some 2] ∧ s.threads.map (gRegistered s) = [some 2, some 2] ∧
       s.opened = 2) := by decide

end Neg

end LinVerif.Props.C13
