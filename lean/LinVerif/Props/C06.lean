/-
Property C06 — WAL consumer groups: ordered positions, GC never outruns an unacked reader.

Model: LinVerif/Model/FanOut.lean (pkg/queue fan-out queue, consumer groups, the page-level part
of the queue). Histories are lists of `Op`; `run v State.init ops` is the state after the history
on an empty directory, `v : Variant` selects the `NewConsumerGroup` that is interpreted (the pinned
source is `Variant.current`; `newGroup_shape_known` says which one the source of this run is).

Full-strength statements quantify over ALL histories without an explicit index reset (`NoReset`:
no SetSeq, no SetAppendedSeq, no SetConsumedSeq outside [ack, appended]). Two of the six clauses
are false of the pinned source (namespace `Neg`): they are proved
  * at full strength for the variants of `NewConsumerGroup` that carry the repair
    (hypotheses `v.liftConsumed = true` / `v.freshAtQueueAck = true`), and
  * as `…_partial` for every variant — in particular the pinned one — under the explicit
    hypothesis that excludes the failing region (`Op.restoreOrderedAt`, `Op.freshOkAt`).
-/
import LinVerif.Lemmas.C06Conc
import LinVerif.Lemmas.C06WriteThrough
import LinVerif.Lemmas.C06Reset
import LinVerif.Lemmas.C06Micro
import LinVerif.Lemmas.C06Sync
import LinVerif.Lemmas.C06Msync
import LinVerif.Lemmas.C06Glue
import LinVerif.Model.FanOutPark
import LinVerif.Model.C06Woken
import LinVerif.Generated.C06

set_option linter.unusedSimpArgs false
set_option linter.unusedVariables false

namespace LinVerif.Props.C06
open LinVerif LinVerif.FanOut LinVerif.Map

/-! ## the histories quantified over -/

/-- every step is outside an explicit index reset -/
def NoReset (v : Variant) (ops : List Op) : Prop := Valid v (fun s o => o.okAt s) State.init ops

/-- ... and no group is restored while the queue ack is above its stored consumed position
(excludes the region of finding (b)) -/
def NoResetNoLift (v : Variant) (ops : List Op) : Prop :=
  Valid v (fun s o => o.okAt s ∧ o.restoreOrderedAt s) State.init ops

/-- ... and no group without a meta page is created after the queue ack has moved
(excludes the region of finding (a)) -/
def NoResetNoLate (v : Variant) (ops : List Op) : Prop :=
  Valid v (fun s o => o.okAt s ∧ o.freshOkAt s) State.init ops

/-- both exclusions -/
def NoResetNoLiftNoLate (v : Variant) (ops : List Op) : Prop :=
  Valid v (fun s o => o.okAt s ∧ o.restoreOrderedAt s ∧ o.freshOkAt s) State.init ops

theorem base_of_noReset {v : Variant} {ops : List Op} (h : NoReset v ops) : Base (run v State.init ops) :=
  inv_run (I := Base) (fun _ _ hb ok => hb.step ok) ops _ Base.init h

/-! ## (1) acknowledged ≤ consumed ≤ appended -/

/-- (1) at full strength, for a `NewConsumerGroup` that lifts the consumed position on restore. -/
theorem group_order (v : Variant) (hv : v.liftConsumed = true) (ops : List Op) (h : NoReset v ops)
    (g : Nat) (grp : Group) (hl : lookup (run v State.init ops).live g = some grp) :
    grp.ack ≤ grp.consumed ∧ grp.consumed ≤ (run v State.init ops).q.appended := by
  have := inv_run (v := v) (I := fun s => Base s ∧ Order s)
    (fun s o hi ok => ⟨hi.1.step ok, Order.step hi.1 hi.2 ok (Or.inl hv)⟩) ops _ ⟨Base.init, Order.init⟩ h
  exact this.2.live this.1 g grp hl

/-- (1) for every variant — in particular the pinned source — on histories in which no restore
happens while the queue ack is above the stored consumed position. -/
theorem group_order_partial (v : Variant) (ops : List Op) (h : NoResetNoLift v ops)
    (g : Nat) (grp : Group) (hl : lookup (run v State.init ops).live g = some grp) :
    grp.ack ≤ grp.consumed ∧ grp.consumed ≤ (run v State.init ops).q.appended := by
  have := inv_run (v := v) (I := fun s => Base s ∧ Order s)
    (fun s o hi ok => ⟨hi.1.step ok.1, Order.step hi.1 hi.2 ok.1 (Or.inr ok.2)⟩) ops _ ⟨Base.init, Order.init⟩ h
  exact this.2.live this.1 g grp hl

/-! ## (2) consume hands out consecutive sequences -/

/-- one `Consume`: either nothing is handed out and nothing changes, or consumed+1 is handed out,
becomes the consumed position and is at most the appended position. -/
theorem consume_step (v : Variant) (s : State) (g : Nat) (grp : Group) (hl : lookup s.live g = some grp) :
    (step v s (.consume g) = (s, .val noSeq)) ∨
    (step v s (.consume g) = (s.putGroup g { grp with consumed := grp.consumed + 1 }, .val (grp.consumed + 1)) ∧
      grp.consumed + 1 ≤ s.q.appended) := by
  simp only [FanOut.step, State.consume, hl]
  by_cases hp : grp.paused = true
  · simp [hp]
  · by_cases hh : grp.consumed + 1 ≤ s.q.appended
    · simp [hp, hh]
    · simp [hp, hh]

/-- (2) over histories: from any state in which `g` is live with consumed position `c ≥ -1`, along
any history that neither repositions `g` (SetConsumedSeq/SetSeq on `g`, SetAppendedSeq) nor replaces
its handle (stop `g`, reopen), the sequences `Consume` hands to `g` are c+1, c+2, ... — whatever the
other groups, appends, acks, syncs and GCs in between. -/
theorem consume_consecutive (v : Variant) (g : Nat) (ops : List Op) (s : State) (grp : Group)
    (hl : lookup s.live g = some grp) (hc : -1 ≤ grp.consumed) (hk : ∀ o ∈ ops, o.keeps g) :
    Consecutive grp.consumed (handedOut v g s ops) :=
  handedOut_consecutive v g ops s grp hl hc hk

/-! ## (3) an acknowledgement outside [acknowledged, consumed] is ignored -/

theorem ack_window (v : Variant) (s : State) (g : Nat) (n : Int) (grp : Group)
    (hl : lookup s.live g = some grp) (hout : ¬ (grp.ack ≤ n ∧ n ≤ grp.consumed)) :
    step v s (.ack g n) = (s, .done) := by
  simp only [FanOut.step, State.ackGroup, hl]
  have : ¬ (n ≥ grp.ack ∧ n ≤ grp.consumed) := by omega
  simp [this]

/-- inside the window the ack moves to `n` (and is written through to the meta page) -/
theorem ack_inside (v : Variant) (s : State) (g : Nat) (n : Int) (grp : Group)
    (hl : lookup s.live g = some grp) (hin : grp.ack ≤ n ∧ n ≤ grp.consumed) :
    step v s (.ack g n) = (s.putGroup g { grp with ack := n }, .done) := by
  simp only [FanOut.step, State.ackGroup, hl]
  have : n ≥ grp.ack ∧ n ≤ grp.consumed := by omega
  simp [this]

/-! ## (4) the queue-wide acknowledged position -/

/-- one step outside a reset either leaves the queue ack alone or is a `Sync` that moved it to a
value at or below the ack of every group live at that moment -/
theorem queue_ack_step (v : Variant) (s : State) (o : Op) (hb : Base s) (ok : o.okAt s) :
    (step v s o).1.q.ack = s.q.ack ∨
    (o = .sync ∧ s.q.ack < (step v s o).1.q.ack ∧ (step v s o).1.q.ack ≤ s.q.appended ∧
      ∀ g grp, lookup s.live g = some grp → (step v s o).1.q.ack ≤ grp.ack) := by
  cases o with
  | append len =>
    left
    show (if len > dataPageSize then (s, Res.tooLarge) else ({ s with q := s.q.put len }, Res.done)).1.q.ack = _
    split <;> rfl
  | consume g =>
    left; simp only [FanOut.step, State.consume]
    split
    · rfl
    · split
      · rfl
      · split <;> rfl
  | ack g n =>
    left; simp only [FanOut.step, State.ackGroup]
    split
    · rfl
    · split <;> rfl
  | setConsumed g n =>
    left; simp only [FanOut.step]
    split <;> rfl
  | setSeq g n => exact absurd ok (by simp [Op.okAt])
  | setAppended n => exact absurd ok (by simp [Op.okAt])
  | sync =>
    show s.sync.q.ack = s.q.ack ∨ (_ ∧ s.q.ack < s.sync.q.ack ∧ s.sync.q.ack ≤ s.q.appended ∧
      ∀ g grp, lookup s.live g = some grp → s.sync.q.ack ≤ grp.ack)
    unfold State.sync
    split
    · left; rfl
    · split
      · show (s.q.setAck _).ack = s.q.ack ∨ (_ ∧ s.q.ack < (s.q.setAck _).ack ∧ (s.q.setAck _).ack ≤ s.q.appended ∧
          ∀ g grp, lookup s.live g = some grp → (s.q.setAck _).ack ≤ grp.ack)
        rw [setAck_ack]
        split
        · rename_i hc
          right
          exact ⟨rfl, hc.1, hc.2, fun g grp hl => sync_candidate_le s g grp hl⟩
        · left; rfl
      · left; rfl
  | gc => left; exact gc_ack s.q
  | create g =>
    left; show (s.create v g).q.ack = _
    unfold State.create
    split <;> rfl
  | stop g => left; rfl
  | pause g =>
    left; simp only [FanOut.step]
    split <;> rfl
  | reopen => left; exact reopen_ack hb.q

theorem queue_ack_mono_run (v : Variant) :
    ∀ (ops : List Op) (s : State), Base s → Valid v (fun s o => o.okAt s) s ops → s.q.ack ≤ (run v s ops).q.ack
  | [], _, _, _ => Int.le_refl _
  | o :: os, s, hb, hv => by
    have ih := queue_ack_mono_run v os _ (hb.step (v := v) hv.1) hv.2
    have := queue_ack_step v s o hb hv.1
    show s.q.ack ≤ (run v (step v s o).1 os).q.ack
    rcases this with h | ⟨_, h, _⟩ <;> omega

/-- (4a) the queue ack only moves forward: it never decreases from any point of a history to any
later point. -/
theorem queue_ack_monotone (v : Variant) (ops1 ops2 : List Op) (h : NoReset v (ops1 ++ ops2)) :
    (run v State.init ops1).q.ack ≤ (run v State.init (ops1 ++ ops2)).q.ack := by
  obtain ⟨h1, h2⟩ := Valid.append ops1 ops2 _ h
  rw [run_append]
  exact queue_ack_mono_run v ops2 _ (base_of_noReset h1) h2

/-- (4b) it never exceeds the appended position (and is never below -1). -/
theorem queue_ack_le_appended (v : Variant) (ops : List Op) (h : NoReset v ops) :
    -1 ≤ (run v State.init ops).q.ack ∧ (run v State.init ops).q.ack ≤ (run v State.init ops).q.appended :=
  ⟨(base_of_noReset h).q.ackLo, (base_of_noReset h).q.ackLe⟩

/-- (4c) whenever a step of a history moves it, that step is a `Sync` and the new value is at or
below the acknowledged position of every group existing at that moment. -/
theorem queue_ack_le_min_group_ack (v : Variant) (ops : List Op) (o : Op) (h : NoReset v (ops ++ [o]))
    (hmove : (run v State.init (ops ++ [o])).q.ack ≠ (run v State.init ops).q.ack) :
    o = .sync ∧ ∀ g grp, lookup (run v State.init ops).live g = some grp →
      (run v State.init (ops ++ [o])).q.ack ≤ grp.ack := by
  obtain ⟨h1, h2⟩ := Valid.append ops [o] _ h
  rw [run_append] at hmove ⊢
  have := queue_ack_step v _ o (base_of_noReset h1) h2.1
  rcases this with e | ⟨e, _, _, hall⟩
  · exact absurd e hmove
  · exact ⟨e, hall⟩

/-! ## (5) garbage collection -/

/-- (5a) `GC` removes a data page only if every message stored on it lies below the queue ack
(`m < ack`, a fortiori "at or below"). -/
theorem gc_safe (v : Variant) (ops : List Op) (h : NoReset v ops) (m : Int) (e : Entry)
    (hm0 : 0 ≤ m) (hm : m ≤ (run v State.init ops).q.appended)
    (he : lookup (run v State.init ops).q.entries m = some e)
    (hin : e.page ∈ (run v State.init ops).q.dataPages)
    (hout : e.page ∉ (step v (run v State.init ops) .gc).1.q.dataPages) :
    m < (run v State.init ops).q.ack :=
  (base_of_noReset h).q.gc_removes_only_acked m e hm0 hm he hin hout

/-- (5b) after any history every message above the queue ack can be read (`Get` finds its index
page, its index entry and its data page). -/
theorem readable_above_queue_ack (v : Variant) (ops : List Op) (h : NoReset v ops) (m : Int)
    (h1 : (run v State.init ops).q.ack < m) (h2 : m ≤ (run v State.init ops).q.appended) :
    ∃ len, (run v State.init ops).q.get m = .ok len :=
  (base_of_noReset h).q.readable m h1 h2

/-- (5c) hence: whatever was above the smallest ack of the groups that existed when the queue ack
was last moved, is still readable however the history continues. -/
theorem readable_above_last_sync_min (v : Variant) (ops1 ops2 : List Op)
    (h : NoReset v (ops1 ++ Op.sync :: ops2))
    (hmoved : (run v State.init (ops1 ++ [Op.sync])).q.ack ≠ (run v State.init ops1).q.ack)
    (hlast : (run v State.init (ops1 ++ Op.sync :: ops2)).q.ack = (run v State.init (ops1 ++ [Op.sync])).q.ack)
    (g : Nat) (grp : Group) (hl : lookup (run v State.init ops1).live g = some grp)
    (m : Int) (h1 : grp.ack < m) (h2 : m ≤ (run v State.init (ops1 ++ Op.sync :: ops2)).q.appended) :
    ∃ len, (run v State.init (ops1 ++ Op.sync :: ops2)).q.get m = .ok len := by
  have hs : NoReset v (ops1 ++ [Op.sync]) := by
    have h' : NoReset v ((ops1 ++ [Op.sync]) ++ ops2) := by simpa using h
    exact (Valid.append (ops1 ++ [Op.sync]) ops2 _ h').1
  have := (queue_ack_le_min_group_ack v ops1 .sync hs hmoved).2 g grp hl
  exact readable_above_queue_ack v _ h m (by omega) h2

/-- (5d) at full strength, for a `NewConsumerGroup` that starts new groups at the queue ack:
a message that a live group has not acknowledged is readable. -/
theorem unacked_readable (v : Variant) (hv : v.freshAtQueueAck = true) (ops : List Op) (h : NoReset v ops)
    (g : Nat) (grp : Group) (hl : lookup (run v State.init ops).live g = some grp)
    (m : Int) (h1 : grp.ack < m) (h2 : m ≤ (run v State.init ops).q.appended) :
    ∃ len, (run v State.init ops).q.get m = .ok len := by
  have := inv_run (v := v) (I := fun s => Base s ∧ Above s)
    (fun s o hi ok => ⟨hi.1.step ok, Above.step hi.1 hi.2 ok (Or.inl hv)⟩) ops _ ⟨Base.init, Above.init⟩ h
  have ha := this.2 g grp hl
  exact this.1.q.readable m (by omega) h2

/-- (5d) for every variant on histories without a late first creation. -/
theorem unacked_readable_partial (v : Variant) (ops : List Op) (h : NoResetNoLate v ops)
    (g : Nat) (grp : Group) (hl : lookup (run v State.init ops).live g = some grp)
    (m : Int) (h1 : grp.ack < m) (h2 : m ≤ (run v State.init ops).q.appended) :
    ∃ len, (run v State.init ops).q.get m = .ok len := by
  have := inv_run (v := v) (I := fun s => Base s ∧ Above s)
    (fun s o hi ok => ⟨hi.1.step ok.1, Above.step hi.1 hi.2 ok.1 (Or.inr ok.2)⟩) ops _ ⟨Base.init, Above.init⟩ h
  have ha := this.2 g grp hl
  exact this.1.q.readable m (by omega) h2

/-! ## (6) all positions survive close and reopen -/

/-- the queue's positions survive reopen (every variant, every history without reset) -/
theorem persist_queue (v : Variant) (ops : List Op) (h : NoReset v ops) :
    (step v (run v State.init ops) .reopen).1.q.appended = (run v State.init ops).q.appended ∧
    (step v (run v State.init ops) .reopen).1.q.ack = (run v State.init ops).q.ack :=
  ⟨reopen_appended (base_of_noReset h).q, reopen_ack (base_of_noReset h).q⟩

theorem reopen_group_of_inv (v : Variant) (s : State) (hb : Base s) (ho : Order s) (ha : Above s)
    (g : Nat) (grp : Group) (hl : lookup s.live g = some grp) :
    lookup (step v s .reopen).1.live g = some { grp with paused := false } := by
  show lookup (s.reopen v).live g = _
  rw [reopen_live_lookup, reopen_metas_lookup, hb.grp g grp hl]
  simp only [Option.map_some]
  rw [reopen_ack hb.q, newGroup_some_id v _ _ (ha g grp hl) (ho.live hb g grp hl).1]
  rfl

/-- (6) at full strength for the repaired `NewConsumerGroup`: every live group is live again after
reopen with the same consumed and acknowledged position. -/
theorem persist (v : Variant) (hv1 : v.liftConsumed = true) (hv2 : v.freshAtQueueAck = true)
    (ops : List Op) (h : NoReset v ops) (g : Nat) (grp : Group)
    (hl : lookup (run v State.init ops).live g = some grp) :
    lookup (step v (run v State.init ops) .reopen).1.live g = some { grp with paused := false } := by
  have := inv_run (v := v) (I := fun s => Base s ∧ Order s ∧ Above s)
    (fun s o hi ok => ⟨hi.1.step ok, Order.step hi.1 hi.2.1 ok (Or.inl hv1), Above.step hi.1 hi.2.2 ok (Or.inl hv2)⟩)
    ops _ ⟨Base.init, Order.init, Above.init⟩ h
  exact reopen_group_of_inv v _ this.1 this.2.1 this.2.2 g grp hl

/-- (6) for every variant on histories outside both failing regions. -/
theorem persist_partial (v : Variant) (ops : List Op) (h : NoResetNoLiftNoLate v ops) (g : Nat) (grp : Group)
    (hl : lookup (run v State.init ops).live g = some grp) :
    lookup (step v (run v State.init ops) .reopen).1.live g = some { grp with paused := false } := by
  have := inv_run (v := v) (I := fun s => Base s ∧ Order s ∧ Above s)
    (fun s o hi ok => ⟨hi.1.step ok.1, Order.step hi.1 hi.2.1 ok.1 (Or.inr ok.2.1),
      Above.step hi.1 hi.2.2 ok.1 (Or.inr ok.2.2)⟩)
    ops _ ⟨Base.init, Order.init, Above.init⟩ h
  exact reopen_group_of_inv v _ this.1 this.2.1 this.2.2 g grp hl

/-- (6) reopen restores EVERY group that exists on disk, eagerly (`initConsumerGroups` constructs one
`ConsumerGroup` per directory under cg/, tie `init_groups_tie`): the groups in the map after
`NewFanOutQueue` are exactly the persisted ones — in any state, for every variant — so the next Sync
takes its minimum over all of them, looked up by the caller or not. -/
theorem reopen_restores_all_groups (v : Variant) (s : State) (g : Nat) :
    (lookup (step v s .reopen).1.live g).isSome = (lookup s.metas g).isSome := by
  show (lookup (s.reopen v).live g).isSome = _
  rw [reopen_live_lookup, reopen_metas_lookup]
  cases lookup s.metas g <;> rfl

/-- ... in particular no group that was live before the close is missing afterwards, and the set of
groups only grows by the stopped ones (whose directories are still there). -/
theorem reopen_keeps_live_groups (v : Variant) (ops : List Op) (h : NoReset v ops) (g : Nat) (grp : Group)
    (hl : lookup (run v State.init ops).live g = some grp) :
    (lookup (step v (run v State.init ops) .reopen).1.live g).isSome = true := by
  rw [reopen_restores_all_groups, (base_of_noReset h).grp g grp hl]; rfl

/-- (6) WITH explicit resets: along EVERY history — SetSeq, FanOutQueue.SetAppendedSeq forwards and
backwards, SetConsumedSeq anywhere — every position is on its meta page (the reset is exempt from
the ordering clause, not from persistence): the queue's positions survive reopen unchanged, and
every live group comes back as `NewConsumerGroup` applied to exactly the positions it had (which
is the identity whenever queue ack ≤ ack ≤ consumed, `newGroup_some_id`). -/
theorem persist_with_resets (v : Variant) (ops : List Op) :
    let s := run v State.init ops
    (step v s .reopen).1.q.appended = s.q.appended ∧ (step v s .reopen).1.q.ack = s.q.ack ∧
    (∀ g grp, lookup s.live g = some grp →
      lookup s.metas g = some { consumed := grp.consumed, ack := grp.ack } ∧
      lookup (step v s .reopen).1.live g =
        some (newGroup v s.q.ack (some { consumed := grp.consumed, ack := grp.ack })).toGroup) := by
  intro s
  have h : WT s := WT.run v ops _ WT.init
  have hm := reopen_m s.q
  refine ⟨by show s.q.reopen.appended = _; rw [hm.2.2.1]; exact h.qApp,
    by show s.q.reopen.ack = _; rw [hm.2.2.2]; exact h.qAck, ?_⟩
  intro g grp hl
  exact ⟨h.grp g grp hl, reopen_group_of_wt v s h g grp hl⟩

/-- in particular a group that `FanOutQueue.SetAppendedSeq n` has just reset comes back as (n, n) -/
theorem persist_after_index_reset (v : Variant) (ops : List Op) (n : Int) (g : Nat) (grp : Group)
    (hl : lookup (run v State.init (ops ++ [.setAppended n])).live g = some grp) :
    lookup (step v (run v State.init (ops ++ [.setAppended n])) .reopen).1.live g =
      some { consumed := n, ack := n, paused := false } := by
  have hp := (persist_with_resets v (ops ++ [.setAppended n])).2.2 g grp hl
  rw [run_append] at hl hp ⊢
  have hl' := lookup_map_val (fun _ (x : Group) => ({ x with consumed := n, ack := n } : Group))
    (run v State.init ops).live g
  have hl2 : lookup ((run v State.init ops).setAppended n).live g =
      (lookup (run v State.init ops).live g).map (fun x => ({ x with consumed := n, ack := n } : Group)) := hl'
  have hgrp : grp.consumed = n ∧ grp.ack = n := by
    change lookup ((run v State.init ops).setAppended n).live g = some grp at hl
    rw [hl2] at hl
    cases hh : lookup (run v State.init ops).live g with
    | none => rw [hh] at hl; cases hl
    | some g0 =>
      rw [hh] at hl
      simp only [Option.map_some, Option.some.injEq] at hl
      subst hl; exact ⟨rfl, rfl⟩
  rw [hp.2, hgrp.1, hgrp.2]
  have hq : (run v (run v State.init ops) [Op.setAppended n]).q.ack = n := rfl
  rw [hq, newGroup_some_id v n _ (Int.le_refl _) (Int.le_refl _)]
  rfl

/-- (6) the meta pages always hold the in-memory positions (write-through), so nothing depends on
a clean close: every variant, every history without reset. -/
theorem persist_write_through (v : Variant) (ops : List Op) (h : NoReset v ops) :
    (run v State.init ops).q.mAppended = (run v State.init ops).q.appended ∧
    (run v State.init ops).q.mAck = (run v State.init ops).q.ack ∧
    ∀ g grp, lookup (run v State.init ops).live g = some grp →
      lookup (run v State.init ops).metas g = some { consumed := grp.consumed, ack := grp.ack } :=
  ⟨(base_of_noReset h).q.mApp, (base_of_noReset h).q.mAck, (base_of_noReset h).grp⟩

/-! ## concurrent consume-vs-ack on one group (lock granularity)

`consume()` runs under `lock4headSeq.Lock`, `Ack` under `lock4headSeq.RLock` (generated facts
`consumeLock`, `ackLock`): the write lock excludes the read lock, so each of the two is one atomic
step with respect to the other and a concurrent execution of a consumer thread and an acker thread
is an interleaving of their operation lists. -/

inductive Interleave : List Op → List Op → List Op → Prop
  | nil : Interleave [] [] []
  | left {x a b l} : Interleave a b l → Interleave (x :: a) b (x :: l)
  | right {y a b l} : Interleave a b l → Interleave a (y :: b) (y :: l)

theorem interleave_mem {a b l : List Op} (h : Interleave a b l) : ∀ o ∈ l, o ∈ a ∨ o ∈ b := by
  induction h with
  | nil => intro o ho; cases ho
  | left _ ih =>
    intro o ho
    rcases List.mem_cons.mp ho with e | e
    · exact Or.inl (e ▸ List.mem_cons_self)
    · rcases ih o e with h1 | h1
      · exact Or.inl (List.mem_cons_of_mem _ h1)
      · exact Or.inr h1
  | right _ ih =>
    intro o ho
    rcases List.mem_cons.mp ho with e | e
    · exact Or.inr (e ▸ List.mem_cons_self)
    · rcases ih o e with h1 | h1
      · exact Or.inl h1
      · exact Or.inr (List.mem_cons_of_mem _ h1)

theorem consume_ack_exclusive : Generated.C06.consumeLock = "Lock" ∧ Generated.C06.ackLock = "RLock" := by decide

/-- Every interleaving of a consumer thread (`Consume` calls on `g`) with an acker thread (`Ack`
calls on `g` with arbitrary arguments), started in any state that satisfies the invariants, keeps
ack ≤ consumed ≤ appended and queue ack ≤ ack for every live group, and hands `g` consecutive
sequences. -/
theorem consume_vs_ack (v : Variant) (s : State) (hb : Base s) (ho : Order s) (ha : Above s)
    (g : Nat) (grp : Group) (hl : lookup s.live g = some grp) (hc : -1 ≤ grp.consumed)
    (cs as l : List Op) (hcs : ∀ o ∈ cs, o = .consume g) (has : ∀ o ∈ as, ∃ n, o = .ack g n)
    (hi : Interleave cs as l) :
    (∀ g' grp', lookup (run v s l).live g' = some grp' →
        (run v s l).q.ack ≤ grp'.ack ∧ grp'.ack ≤ grp'.consumed ∧ grp'.consumed ≤ (run v s l).q.appended) ∧
    Consecutive grp.consumed (handedOut v g s l) := by
  have hmem := interleave_mem hi
  have hplain : ∀ o ∈ l, o.okAt s ∧ True := fun _ _ => ⟨by
    rename_i o ho
    rcases hmem o ho with h1 | h1
    · rw [hcs o h1]; trivial
    · obtain ⟨n, e⟩ := has o h1; rw [e]; trivial, trivial⟩
  have hvalid : ∀ (l' : List Op) (s' : State), (∀ o ∈ l', o = .consume g ∨ ∃ n, o = .ack g n) →
      Valid v (fun s o => o.okAt s ∧ o.restoreOrderedAt s ∧ o.freshOkAt s) s' l' := by
    intro l'
    induction l' with
    | nil => intro _ _; trivial
    | cons o os ih =>
      intro s' hall
      refine ⟨?_, ih _ (fun o' ho' => hall o' (List.mem_cons_of_mem _ ho'))⟩
      rcases hall o List.mem_cons_self with e | ⟨n, e⟩ <;> subst e <;> exact ⟨trivial, trivial, trivial⟩
  have hall : ∀ o ∈ l, o = .consume g ∨ ∃ n, o = .ack g n := by
    intro o ho
    rcases hmem o ho with h1 | h1
    · exact Or.inl (hcs o h1)
    · exact Or.inr (has o h1)
  have hinv := inv_run (v := v) (I := fun s => Base s ∧ Order s ∧ Above s)
    (fun s o hi ok => ⟨hi.1.step ok.1, Order.step hi.1 hi.2.1 ok.1 (Or.inr ok.2.1),
      Above.step hi.1 hi.2.2 ok.1 (Or.inr ok.2.2)⟩) l s ⟨hb, ho, ha⟩ (hvalid l s hall)
  refine ⟨fun g' grp' hl' => ⟨hinv.2.2 g' grp' hl', hinv.2.1.live hinv.1 g' grp' hl'⟩, ?_⟩
  apply handedOut_consecutive v g l s grp hl hc
  intro o ho
  rcases hall o ho with e | ⟨n, e⟩ <;> subst e <;> trivial

/-! ## two-step Consume: a call parked in NotEmpty while other goroutines move the positions

`Consume` = (A) unlocked read of consumed+1, (B) park in `NotEmpty` until that head ≤ appended (or
paused/closed), (C) `consume()` under the write lock, which re-reads the consumed position
(Model/FanOutPark.lean: `cbegin` = A+B, `cend` = wake-up + C; generated facts `consumeOuterCalls`,
`consumeCalls` tie the structure, see `call_order_tie`). Histories over `POp` put ANY operation of
any other goroutine — SetConsumedSeq, SetSeq, SetAppendedSeq, Put, Ack, Sync, GC, create/stop —
between `cbegin` and `cend`. -/

/-- what a returning parked call does to the state: nothing, or exactly what `consume()` does now -/
theorem cend_is_consume (v : Variant) (ps : PState) (g : Nat) :
    ((pstep v ps (.cend g)).1.s = ps.s ∧
      ((pstep v ps (.cend g)).2 = .notParked ∨ (pstep v ps (.cend g)).2 = .blocked ∨
       (pstep v ps (.cend g)).2 = .res (.val noSeq))) ∨
    ((pstep v ps (.cend g)).1.s = (step v ps.s (.consume g)).1 ∧
      (pstep v ps (.cend g)).2 = .res (step v ps.s (.consume g)).2 ∧ ∃ grp, lookup ps.s.live g = some grp) := by
  simp only [pstep]
  split
  · exact Or.inl ⟨rfl, Or.inl rfl⟩
  · split
    · split
      · exact Or.inl ⟨rfl, Or.inr (Or.inr rfl)⟩
      · rename_i grp hgrp
        exact Or.inr ⟨rfl, rfl, ⟨grp, hgrp⟩⟩
    · exact Or.inl ⟨rfl, Or.inr (Or.inl rfl)⟩

/-- (2) for a parked call, step form: whatever head it computed before it parked and whatever
happened since, a returning `Consume` that hands out a sequence hands out consumed+1 of the state
it returns in; that becomes the consumed position, the ack is untouched, and it is at most the
appended position. -/
theorem parked_consume_step (v : Variant) (ps : PState) (g : Nat) (n : Int)
    (h : (pstep v ps (.cend g)).2 = .res (.val n)) (hn : n ≠ noSeq) :
    ∃ grp, lookup ps.s.live g = some grp ∧ n = grp.consumed + 1 ∧ n ≤ ps.s.q.appended ∧
      (pstep v ps (.cend g)).1.s = ps.s.putGroup g { grp with consumed := n } := by
  rcases cend_is_consume v ps g with ⟨_, h1 | h1 | h1⟩ | ⟨hs, hr, grp, hgrp⟩
  · rw [h1] at h; cases h
  · rw [h1] at h; cases h
  · rw [h1] at h; cases h; exact absurd rfl hn
  · rw [hr] at h
    rcases consume_step v ps.s g grp hgrp with hc | ⟨hc, hle⟩
    · rw [hc] at h; cases h; exact absurd rfl hn
    · rw [hc] at h hs
      simp only [PRes.res.injEq, Res.val.injEq] at h
      subst h
      exact ⟨grp, hgrp, rfl, hle, hs⟩

/-- a parked call that returns "nothing available" leaves every position as it is -/
theorem parked_consume_empty (v : Variant) (ps : PState) (g : Nat)
    (h : (pstep v ps (.cend g)).2 = .res (.val noSeq)) (grp : Group) (hl : lookup ps.s.live g = some grp)
    (hc : -1 ≤ grp.consumed) : (pstep v ps (.cend g)).1.s = ps.s := by
  rcases cend_is_consume v ps g with ⟨hs, _⟩ | ⟨hs, hr, _⟩
  · exact hs
  · rw [hr] at h
    rcases consume_step v ps.s g grp hl with hcs | ⟨hcs, _⟩
    · rw [hs, hcs]
    · rw [hcs] at h
      simp only [PRes.res.injEq, Res.val.injEq, noSeq] at h
      omega

/-- (2) over histories with parked calls: along EVERY history of operations, `cbegin`s and `cend`s
(any interleaving of a consumer's two-step `Consume` with set-consumed / resets / appends / acks /
anything else, from any state), each sequence a returning parked call hands out is consumedSeq+1
at the time it returns. -/
theorem parked_consume_consecutive (v : Variant) (ps0 : PState) (pre post : List POp) (g : Nat) (n : Int)
    (h : (pstep v (prun v ps0 pre) (.cend g)).2 = .res (.val n)) (hn : n ≠ noSeq) :
    ∃ grp, lookup (prun v ps0 pre).s.live g = some grp ∧ n = grp.consumed + 1 ∧
      n ≤ (prun v ps0 pre).s.q.appended ∧
      lookup (prun v ps0 (pre ++ .cend g :: post)).s.live g =
        lookup (prun v (pstep v (prun v ps0 pre) (.cend g)).1 post).s.live g ∧
      lookup (pstep v (prun v ps0 pre) (.cend g)).1.s.live g = some { grp with consumed := n } := by
  obtain ⟨grp, hl, he, hle, hs⟩ := parked_consume_step v _ g n h hn
  refine ⟨grp, hl, he, hle, ?_, ?_⟩
  · have : ∀ (a b : List POp) (p : PState), prun v p (a ++ b) = prun v (prun v p a) b := by
      intro a
      induction a with
      | nil => intro b p; rfl
      | cons o os ih => intro b p; simp [prun, ih]
    rw [this]; rfl
  · rw [hs]; exact putGroup_live_self _ _ _

/-- every step of a history with parked calls satisfies the guard on its embedded operation -/
def PValid (v : Variant) (G : State → Op → Prop) : PState → List POp → Prop
  | _, [] => True
  | ps, .op o :: os => G ps.s o ∧ PValid v G (pstep v ps (.op o)).1 os
  | ps, o :: os => PValid v G (pstep v ps o).1 os

/-- the invariants of clauses (1), (4), (5) survive every interleaving of two-step `Consume` calls
with reset-free operations of other goroutines (for the pinned source: outside the two excluded
regions; for the repaired one the last two guards are implied). -/
theorem parked_invariants (v : Variant) :
    ∀ (ops : List POp) (ps : PState), Base ps.s → Order ps.s → Above ps.s →
      PValid v (fun s o => o.okAt s ∧ (v.liftConsumed = true ∨ o.restoreOrderedAt s) ∧
        (v.freshAtQueueAck = true ∨ o.freshOkAt s)) ps ops →
      Base (prun v ps ops).s ∧ Order (prun v ps ops).s ∧ Above (prun v ps ops).s
  | [], _, hb, ho, ha, _ => ⟨hb, ho, ha⟩
  | .op o :: os, ps, hb, ho, ha, hv =>
    parked_invariants v os _ (hb.step hv.1.1) (Order.step hb ho hv.1.1 hv.1.2.1) (Above.step hb ha hv.1.1 hv.1.2.2) hv.2
  | .cbegin g :: os, ps, hb, ho, ha, hv => by
    have hs : (pstep v ps (.cbegin g)).1.s = ps.s := by
      simp only [pstep]; split <;> rfl
    exact parked_invariants v os _ (hs ▸ hb) (hs ▸ ho) (hs ▸ ha) hv
  | .cend g :: os, ps, hb, ho, ha, hv => by
    rcases cend_is_consume v ps g with ⟨hs, _⟩ | ⟨hs, _, _⟩
    · exact parked_invariants v os _ (hs ▸ hb) (hs ▸ ho) (hs ▸ ha) hv
    · have ok : (Op.consume g).okAt ps.s := trivial
      exact parked_invariants v os _ (hs ▸ hb.step ok)
        (hs ▸ Order.step hb ho ok (Or.inr trivial)) (hs ▸ Above.step hb ha ok (Or.inr trivial)) hv

/-- non-vacuity and the seeded shape: a call parked with head 10 is woken after a rewind to 3 and
hands out 4 (not its stale head 10); parked across a backwards index reset it hands out reset+1. -/
example :
    let pre : List POp := [.op (.create 0)] ++ (List.replicate 10 (.op (.append 1))) ++
      (List.replicate 10 (.op (.consume 0))) ++ [.op (.ack 0 2), .cbegin 0, .op (.setConsumed 0 3), .op (.append 1)]
    (pstep Variant.fixed (prun Variant.fixed PState.init pre) (.cend 0)).2 = .res (.val 4) ∧
    (pstep Variant.fixed (prun Variant.fixed PState.init (pre ++ [.cend 0, .op (.setConsumed 0 10), .cbegin 0,
        .op (.setAppended 6), .op (.append 1)])) (.cend 0)).2 = .blocked ∧
    (pstep Variant.fixed (prun Variant.fixed PState.init (pre ++ [.cend 0, .op (.setConsumed 0 10), .cbegin 0,
        .op (.setAppended 6)] ++ List.replicate 5 (.op (.append 1)))) (.cend 0)).2 = .res (.val 7) := by decide

/-! ## GetOrCreateConsumerGroup in two steps, interleaved with Sync / Ack / GC (Model/FanOutConc.lean)

The pinned source builds the new group under `lock4map.Lock` (tie `lock_sections_tie`), Sync takes
`lock4map.RLock`: between the moment `NewConsumerGroup` has read the queue ack and the moment the
group is in the map, nothing that takes the map lock can run; everything else (appends, consume /
ack / set-consumed on the other groups, GC) can. -/

/-- every enabled concurrent history ends in the state of the sequential history in which each
two-step create takes effect at its registration: all theorems over `run` apply to it. -/
theorem create_two_step_linearizes (v : Variant) (ops : List COp) (cs : CState)
    (h : crun v true CState.init ops = some cs) : cs.s = run v State.init (clinAll ops) :=
  (crun_lin v ops CState.init cs CInv.init h).2

/-- (4c) under the interleaving: a step that moves the queue ack is a Sync that runs while no
create is in flight, and the new value is at or below the ack of every group in the map — which
includes every group whose creation has begun earlier. -/
theorem queue_ack_le_min_group_ack_interleaved (v : Variant) (ops : List COp) (o : COp) (cs1 cs2 : CState)
    (h1 : crun v true CState.init ops = some cs1) (h2 : cstep v true cs1 o = some cs2)
    (hnr : NoReset v (clinAll ops ++ clin o)) (hmove : cs2.s.q.ack ≠ cs1.s.q.ack) :
    o = .op .sync ∧ cs1.creating = none ∧
      ∀ g grp, lookup cs1.s.live g = some grp → cs2.s.q.ack ≤ grp.ack := by
  obtain ⟨hi1, e1'⟩ := crun_lin v ops CState.init cs1 CInv.init h1
  have e1 : cs1.s = run v State.init (clinAll ops) := e1'
  obtain ⟨_, e2⟩ := cstep_lin v cs1 cs2 o hi1 h2
  cases o with
  | crBegin g => exact absurd (by rw [e2]; rfl) hmove
  | crEnd g =>
    have hm : (run v State.init (clinAll ops ++ [.create g])).q.ack ≠ (run v State.init (clinAll ops)).q.ack := by
      rw [run_append, ← e1]; rw [e2] at hmove; exact hmove
    have := (queue_ack_le_min_group_ack v (clinAll ops) (.create g) hnr hm).1
    cases this
  | op o' =>
    have hm : (run v State.init (clinAll ops ++ [o'])).q.ack ≠ (run v State.init (clinAll ops)).q.ack := by
      rw [run_append, ← e1]; rw [e2] at hmove; exact hmove
    obtain ⟨ho, hall⟩ := queue_ack_le_min_group_ack v (clinAll ops) o' hnr hm
    subst ho
    refine ⟨rfl, ?_, ?_⟩
    · simp only [cstep] at h2
      split at h2
      · cases h2
      · rename_i hen
        cases hc : cs1.creating with
        | none => rfl
        | some c => simp [hc, Op.needsMapLock] at hen
    · intro g grp hl
      have := hall g grp (by rw [← e1]; exact hl)
      rw [run_append, ← e1] at this
      rw [e2]; exact this

/-- (5d) under the interleaving, for a `NewConsumerGroup` that starts new groups at the queue ack
(the source after the fix): a message a registered group has not acknowledged is readable. -/
theorem unacked_readable_interleaved (v : Variant) (hv : v.freshAtQueueAck = true) (ops : List COp) (cs : CState)
    (h : crun v true CState.init ops = some cs) (hnr : NoReset v (clinAll ops))
    (g : Nat) (grp : Group) (hl : lookup cs.s.live g = some grp)
    (m : Int) (h1 : grp.ack < m) (h2 : m ≤ cs.s.q.appended) : ∃ len, cs.s.q.get m = .ok len := by
  rw [create_two_step_linearizes v ops cs h] at hl h2 ⊢
  exact unacked_readable v hv _ hnr g grp hl m h1 h2

/-! ## consume ‖ ack with the meta page: what reopen restores

In the pinned source `Ack` validates, stores and writes the meta page inside ONE read-locked
section (tie `lock_sections_tie`), `consume()` inside one write-locked section: the interleavings of
`consume_vs_ack` are all there are, and after each of them the meta pages hold the in-memory
positions. -/
theorem consume_vs_ack_persist (v : Variant) (s : State) (hb : Base s) (ho : Order s) (ha : Above s)
    (g : Nat) (cs as l : List Op) (hcs : ∀ o ∈ cs, o = .consume g) (has : ∀ o ∈ as, ∃ n, o = .ack g n)
    (hi : Interleave cs as l) (g' : Nat) (grp' : Group) (hl' : lookup (run v s l).live g' = some grp') :
    lookup (run v s l).metas g' = some { consumed := grp'.consumed, ack := grp'.ack } ∧
    lookup (step v (run v s l) .reopen).1.live g' = some { grp' with paused := false } ∧
    lookup (step v (step v (run v s l) (.stop g')).1 (.create g')).1.live g' = some { grp' with paused := false } := by
  have hmem := interleave_mem hi
  have hall : ∀ o ∈ l, o = .consume g ∨ ∃ n, o = .ack g n := by
    intro o ho'
    rcases hmem o ho' with h1 | h1
    · exact Or.inl (hcs o h1)
    · exact Or.inr (has o h1)
  have hvalid : ∀ (l' : List Op) (s' : State), (∀ o ∈ l', o = .consume g ∨ ∃ n, o = .ack g n) →
      Valid v (fun s o => o.okAt s ∧ o.restoreOrderedAt s ∧ o.freshOkAt s) s' l' := by
    intro l'
    induction l' with
    | nil => intro _ _; trivial
    | cons o os ih =>
      intro s' hall'
      refine ⟨?_, ih _ (fun o' ho' => hall' o' (List.mem_cons_of_mem _ ho'))⟩
      rcases hall' o List.mem_cons_self with e | ⟨n, e⟩ <;> subst e <;> exact ⟨trivial, trivial, trivial⟩
  have hinv := inv_run (v := v) (I := fun s => Base s ∧ Order s ∧ Above s)
    (fun s o hi ok => ⟨hi.1.step ok.1, Order.step hi.1 hi.2.1 ok.1 (Or.inr ok.2.1),
      Above.step hi.1 hi.2.2 ok.1 (Or.inr ok.2.2)⟩) l s ⟨hb, ho, ha⟩ (hvalid l s hall)
  refine ⟨hinv.1.grp g' grp' hl', reopen_group_of_inv v _ hinv.1 hinv.2.1 hinv.2.2 g' grp' hl', ?_⟩
  -- stop g' ; create g' : restored from the meta page
  have hm := hinv.1.grp g' grp' hl'
  have hord := (hinv.2.1.live hinv.1 g' grp' hl').1
  have habv := hinv.2.2 g' grp' hl'
  show lookup (State.create v { (run v s l) with live := erase (run v s l).live g' } g').live g' = _
  unfold State.create
  simp only [lookup_erase_self]
  show lookup (upsert _ g' _) g' = _
  rw [lookup_upsert_self]
  show some (newGroup v (run v s l).q.ack (lookup (run v s l).metas g')).toGroup = _
  rw [hm, newGroup_some_id v _ _ habv hord]
  rfl

/-! ## explicit index reset, and a failed start-up

`FanOutQueue.SetAppendedSeq n` puts the queue AND every live group to (n, n) (`fanOutSetAppendedConds
= []`: no group is skipped, tie `guards_tie`). The reset itself is outside clause (1); what it leaves
behind satisfies every clause again, and they keep holding afterwards. -/

/-- right after the reset: queue appended = queue ack = n, every live group consumed = ack = n, so
queue ack = the minimum of the group acks and ack ≤ consumed ≤ appended for every group — from ANY
state reached by ANY history (resets included). -/
theorem index_reset_positions (v : Variant) (ops : List Op) (n : Int) (g : Nat) (grp : Group)
    (hl : lookup (run v State.init (ops ++ [.setAppended n])).live g = some grp) :
    grp.consumed = n ∧ grp.ack = n ∧
    (run v State.init (ops ++ [.setAppended n])).q.appended = n ∧ (run v State.init (ops ++ [.setAppended n])).q.ack = n := by
  rw [run_append] at hl ⊢
  have := setAppended_live _ n g grp hl
  exact ⟨this.1, this.2, rfl, rfl⟩

/-- after the reset (to n ≥ -1, every group directory belonging to a live group) and ANY reset-free
continuation, for every live group: queue ack ≤ ack ≤ consumed ≤ appended — whatever the history
before the reset was. (For the pinned-source variants: outside the two excluded regions.) -/
theorem invariants_after_index_reset (v : Variant) (ops suffix : List Op) (n : Int) (hn : -1 ≤ n)
    (hall : ∀ g m, lookup (run v State.init ops).metas g = some m → ∃ grp, lookup (run v State.init ops).live g = some grp)
    (hv : Valid v (fun s o => o.okAt s ∧ (v.liftConsumed = true ∨ o.restoreOrderedAt s) ∧
        (v.freshAtQueueAck = true ∨ o.freshOkAt s)) ((run v State.init ops).setAppended n) suffix)
    (g : Nat) (grp : Group)
    (hl : lookup (run v State.init (ops ++ .setAppended n :: suffix)).live g = some grp) :
    (run v State.init (ops ++ .setAppended n :: suffix)).q.ack ≤ grp.ack ∧ grp.ack ≤ grp.consumed ∧
      grp.consumed ≤ (run v State.init (ops ++ .setAppended n :: suffix)).q.appended := by
  have hw : WT (run v State.init ops) := WT.run v ops _ WT.init
  have h0 := setAppended_establishes (run v State.init ops) n hw hn hall
  have hinv := inv_run (v := v) (I := fun s => Lite s ∧ Order s ∧ Above s)
    (fun s o hi ok => ⟨hi.1.step ok.1, Order.stepL hi.1 hi.2.1 ok.1 ok.2.1, Above.stepL hi.1 hi.2.2 ok.1 ok.2.2⟩)
    suffix _ h0 hv
  rw [run_append] at hl ⊢
  change lookup (run v ((run v State.init ops).setAppended n) suffix).live g = some grp at hl
  show (run v ((run v State.init ops).setAppended n) suffix).q.ack ≤ _ ∧ _ ∧ _ ≤ (run v ((run v State.init ops).setAppended n) suffix).q.appended
  exact ⟨hinv.2.2 g grp hl, hinv.2.1.liveL hinv.1 g grp hl⟩

/-- a start-up that fails while constructing group `g` (NewFanOutQueue returns the error, nothing is
open) followed by the retry restores exactly what a plain reopen restores — queue positions and
every group; with `persist` / `persist_with_resets`: nothing moved. (`init_groups_tie`: the loop
returns the error, it does not skip the group.) -/
theorem reopen_after_failed_start (v : Variant) (s : State) (g : Nat) :
    (s.reopenFault v g).q.appended = (step v s .reopen).1.q.appended ∧
    (s.reopenFault v g).q.ack = (step v s .reopen).1.q.ack ∧
    ∀ k, lookup (s.reopenFault v g).live k = lookup (step v s .reopen).1.live k :=
  reopenFault_eq_reopen v s g

/-! ## ties to the regenerated facts (harness/internal/extract/facts_c06.go) -/

/-- the source's `NewConsumerGroup` is one of the modelled variants -/
def codeVariant : Variant := (variantOf Generated.C06.newGroupShape).getD Variant.current

theorem newGroup_shape_known : variantOf Generated.C06.newGroupShape = some codeVariant := by decide

theorem constants_tie :
    (indexItemsPerPage : Int) = Generated.C06.indexItemsPerPage ∧
    (dataPageSize : Int) = Generated.C06.dataPageSize ∧
    noSeq = Generated.C06.seqNoNewMessageAvailable ∧
    noSeq = Generated.C06.newGroupInit_consumedSeq ∧ noSeq = Generated.C06.newGroupInit_ackSeq ∧
    Generated.C06.indexItemLength = 16 ∧
    Generated.C06.indexPageSize = Generated.C06.indexItemsPerPage * Generated.C06.indexItemLength ∧
    Generated.C06.queueAppendedSeqOffset = 0 ∧ Generated.C06.queueAcknowledgedSeqOffset = 8 ∧
    Generated.C06.metaPageSize ≥ 16 ∧
    Generated.C06.consumerGroupConsumedSeqOffset = 0 ∧ Generated.C06.consumerGroupAcknowledgedSeqOffset = 8 ∧
    Generated.C06.consumerGroupMetaSize = 16 ∧ Generated.C06.metaPageIndex = 0 := by decide

/-- the guard of `Ack` is the window test of `State.ackGroup` -/
theorem ack_guard_tie (s : State) (g : Nat) (n : Int) (grp : Group) (hl : lookup s.live g = some grp) :
    (s.ackGroup g n).1 =
      if Generated.C06.ackCond n grp.ack grp.consumed = true then s.putGroup g { grp with ack := n } else s := by
  simp only [State.ackGroup, hl, Generated.C06.ackCond, decide_eq_true_eq]
  split <;> rfl

/-- the loop and the final guard of `Sync` are `minAck` / `State.sync` -/
theorem sync_tie (a : Int) (k : Nat) (g : Group) (t : List (Nat × Group)) :
    minAck a ((k, g) :: t) = minAck (if Generated.C06.syncLowerCond g.ack a = true then g.ack else a) t ∧
    Generated.C06.syncStart = "fq.queue.AppendedSeq()" ∧
    (∀ c, Generated.C06.syncMoveCond c = decide (c ≥ 0)) ∧
    Generated.C06.syncConds = ["len(fq.consumerGroups) == 0", "ts < ackSeq", "ackSeq >= 0"] := by
  refine ⟨?_, by decide, fun _ => rfl, by decide⟩
  simp only [minAck, Generated.C06.syncLowerCond, decide_eq_true_eq]

/-- the guards that read fields through calls, as source text -/
theorem guards_tie :
    Generated.C06.consumeConds = ["headSeq <= f.q.Queue().AppendedSeq()"] ∧
    Generated.C06.queueSetAckConds.head? = some "seq > q.acknowledgedSeq.Load() && seq <= q.appendedSeq.Load()" ∧
    Generated.C06.queueValidateConds = ["sequence > q.appendedSeq.Load() || sequence <= q.acknowledgedSeq.Load()"] ∧
    Generated.C06.queueGCConds = ["ackSeq < 0", "!ok"] ∧
    Generated.C06.queueAllocConds.head? = some "q.messageOffset+dataLen > dataPageSize" ∧
    Generated.C06.queuePersistConds.head? = some "indexPageIndex != q.indexPageIndex" ∧
    Generated.C06.queueInitDataPageIndexConds.head? = some "q.appendedSeq.Load() == SeqNoNewMessageAvailable" ∧
    "pageID < index" ∈ Generated.C06.truncatePagesConds ∧
    Generated.C06.getOrCreateConds.head? = some "ok" ∧ Generated.C06.stopGroupConds = ["ok"] ∧
    Generated.C06.setConsumedSeqConds = [] ∧ Generated.C06.setSeqConds = [] ∧
    Generated.C06.fanOutSetAppendedConds = [] := by decide

/-- the calls that make up each modelled operation, in source order (logging, conversions and
error plumbing filtered out) -/
def essential (keep : List String) (calls : List String) : List String := calls.filter (fun c => keep.contains c)

theorem call_order_tie :
    essential ["lock4headSeq.RLock", "acknowledgedSeq.Store", "metaPage.PutUint64"] Generated.C06.ackCalls =
      ["lock4headSeq.RLock", "acknowledgedSeq.Store", "metaPage.PutUint64", "metaPage.PutUint64"] ∧
    essential ["lock4headSeq.Lock", "consumedSeq.Store", "acknowledgedSeq.Store", "metaPage.PutUint64"]
      Generated.C06.consumeCalls = ["lock4headSeq.Lock", "consumedSeq.Store", "metaPage.PutUint64"] ∧
    essential ["lock4headSeq.Lock", "consumedSeq.Store", "acknowledgedSeq.Store", "metaPage.PutUint64"]
      Generated.C06.setConsumedSeqCalls = ["lock4headSeq.Lock", "consumedSeq.Store", "metaPage.PutUint64"] ∧
    essential ["lock4headSeq.Lock", "consumedSeq.Store", "acknowledgedSeq.Store", "metaPage.PutUint64"]
      Generated.C06.setSeqCalls =
      ["lock4headSeq.Lock", "consumedSeq.Store", "acknowledgedSeq.Store", "metaPage.PutUint64", "metaPage.PutUint64"] ∧
    essential ["queue.AppendedSeq", "fo.AcknowledgedSeq", "queue.SetAcknowledgedSeq", "queue.GC"] Generated.C06.syncCalls =
      ["queue.AppendedSeq", "fo.AcknowledgedSeq", "queue.SetAcknowledgedSeq"] ∧
    essential ["metaPage.ReadUint64", "metaPage.PutUint64"] Generated.C06.newConsumerGroupCalls =
      ["metaPage.ReadUint64", "metaPage.ReadUint64", "metaPage.PutUint64", "metaPage.PutUint64"] ∧
    essential ["newQueueFunc", "fq.initConsumerGroups"] Generated.C06.newFanOutQueueCalls =
      ["newQueueFunc", "fq.initConsumerGroups"] ∧
    essential ["listDirFunc", "newConsumerGroupFunc"] Generated.C06.initConsumerGroupsCalls =
      ["listDirFunc", "newConsumerGroupFunc"] ∧
    essential ["queue.SetAppendedSeq", "fo.SetSeq"] Generated.C06.fanOutSetAppendedCalls =
      ["queue.SetAppendedSeq", "fo.SetSeq"] ∧
    essential ["consumerGroup.Close", "delete"] Generated.C06.stopGroupCalls = ["consumerGroup.Close", "delete"] ∧
    essential ["q.AcknowledgedSeq", "indexPageFct.GetPage", "indexPage.ReadUint64", "dataPageFct.TruncatePages",
        "indexPageFct.TruncatePages"] Generated.C06.queueGCCalls =
      ["q.AcknowledgedSeq", "indexPageFct.GetPage", "indexPage.ReadUint64", "dataPageFct.TruncatePages",
        "indexPageFct.TruncatePages"] ∧
    essential ["acknowledgedSeq.Store", "appendedSeq.Store", "metaPage.PutUint64"] Generated.C06.queueSetAckCalls =
      ["acknowledgedSeq.Store", "metaPage.PutUint64"] ∧
    essential ["acknowledgedSeq.Store", "appendedSeq.Store", "metaPage.PutUint64"] Generated.C06.queueSetAppendedCalls =
      ["appendedSeq.Store", "acknowledgedSeq.Store", "metaPage.PutUint64", "metaPage.PutUint64"] ∧
    essential ["indexPageFct.AcquirePage", "indexPage.PutUint64", "metaPage.PutUint64", "appendedSeq.Store"]
      Generated.C06.queuePersistCalls =
      ["indexPageFct.AcquirePage", "indexPage.PutUint64", "metaPage.PutUint64", "appendedSeq.Store"] ∧
    -- Consume delegates to the locked consume() after NotEmpty and stores no position itself ...
    essential ["consumedSeq.Load", "f.Queue().Queue().NotEmpty", "f.consume", "consumedSeq.Store",
        "acknowledgedSeq.Store", "metaPage.PutUint64"] Generated.C06.consumeOuterCalls =
      ["consumedSeq.Load", "f.Queue().Queue().NotEmpty", "f.consume"] ∧
    Generated.C06.consumeOuterCalls.getLast? = some "f.consume" ∧
    Generated.C06.consumeOuterConds = ["!f.Queue().Queue().NotEmpty(headSeq, f.isPause)"] ∧
    -- ... and consume() re-reads the consumed position under the write lock before it stores
    essential ["lock4headSeq.Lock", "consumedSeq.Load", "q.Queue().AppendedSeq", "consumedSeq.Store"]
      Generated.C06.consumeCalls =
      ["lock4headSeq.Lock", "consumedSeq.Load", "q.Queue().AppendedSeq", "consumedSeq.Store"] ∧
    Generated.C06.setConsumedLock = "Lock" ∧ Generated.C06.setSeqLock = "Lock" := by decide

/-- critical sections (what runs inside the lock a method opens first):
* `GetOrCreateConsumerGroup` = `lock4map.Lock; defer Unlock; lookup; newConsumerGroupFunc; register` —
  the group is built and registered inside the write-locked section (the `locked = true` shape of
  Model/FanOutConc.lean); `Sync` reads the groups' acks and moves the queue ack inside
  `lock4map.RLock`; `StopConsumerGroup` takes the write lock;
* `Ack` stores the ack AND writes both meta fields inside its read-locked section (deferred unlock),
  re-reading the positions for the meta write; `consume()` re-reads, stores and persists inside
  its write-locked section. -/
theorem lock_sections_tie :
    Generated.C06.getOrCreateCalls = ["lock4map.Lock", "defer:lock4map.Unlock", "newConsumerGroupFunc"] ∧
    Generated.C06.getOrCreateLock = "Lock" ∧
    "newConsumerGroupFunc" ∈ Generated.C06.getOrCreateLockedCalls ∧
    Generated.C06.syncLock = "RLock" ∧ Generated.C06.stopGroupLock = "Lock" ∧
    Generated.C06.syncCalls.take 2 = ["lock4map.RLock", "defer:lock4map.RUnlock"] ∧
    essential ["fo.AcknowledgedSeq", "queue.SetAcknowledgedSeq"] Generated.C06.syncLockedCalls =
      ["fo.AcknowledgedSeq", "queue.SetAcknowledgedSeq"] ∧
    Generated.C06.ackCalls.take 2 = ["lock4headSeq.RLock", "defer:lock4headSeq.RUnlock"] ∧
    essential ["acknowledgedSeq.Store", "f.ConsumedSeq", "f.AcknowledgedSeq", "metaPage.PutUint64", "lock4headSeq.RUnlock"]
      Generated.C06.ackLockedCalls =
      ["f.AcknowledgedSeq", "f.ConsumedSeq", "acknowledgedSeq.Store", "f.ConsumedSeq", "metaPage.PutUint64",
       "f.AcknowledgedSeq", "metaPage.PutUint64"] ∧
    essential ["metaPage.PutUint64", "acknowledgedSeq.Store"] Generated.C06.ackCalls =
      essential ["metaPage.PutUint64", "acknowledgedSeq.Store"] Generated.C06.ackLockedCalls ∧
    Generated.C06.consumeCalls.take 2 = ["lock4headSeq.Lock", "defer:lock4headSeq.Unlock"] ∧
    Generated.C06.consumeLockedCalls = Generated.C06.consumeCalls := by decide

/-- `initConsumerGroups` constructs and registers a group for every directory it lists and RETURNS
the error of a group that cannot be constructed (short tokens per loop statement, see
`c06RangeBodyKinds`); `FanOutQueue.SetAppendedSeq` calls `SetSeq` on every group unconditionally. -/
theorem init_groups_tie :
    Generated.C06.initConsumerGroupsLoop = ["call:newConsumerGroupFunc", "if:return", "store:consumerGroups"] ∧
    Generated.C06.fanOutSetAppendedLoop = ["call:fo.SetSeq"] ∧
    essential ["mkDirFunc", "listDirFunc", "newConsumerGroupFunc"] Generated.C06.initConsumerGroupsCalls =
      ["mkDirFunc", "listDirFunc", "newConsumerGroupFunc"] ∧
    Generated.C06.newFanOutQueueCalls.getLast? = some "fq.initConsumerGroups" := by decide


/-! ## Round 8: micro-step interleavings, Sync over arbitrary iteration orders, meta-page crash
images, the expiry loop (Model/FanOutMicro.lean, Model/FanOutRepl.lean) -/

open LinVerif.FanOut.Micro in
/-- Consume ‖ Ack ‖ Sync ‖ Put ‖ SetConsumedSeq-inside-the-window (the rewinder `wSet`, round 12) at the
granularity of single loads / stores of shared fields, the
lock regions of the pinned source (`access_tie`): from ANY state satisfying the sequential invariants,
after ANY enabled schedule of micro-steps of the four threads (no explicit index reset) — at every
intermediate point, threads mid-method included — the queue ack is in [-1, appended], every group has
queue ack ≤ ack ≤ consumed ≤ appended, and whenever all threads are idle every meta page holds its
group's in-memory positions (so reopen / stop + create restore exactly them). -/
theorem micro_invariants (s : State) (hb : Base s) (ho : Order s) (ha : Above s) (ops : List MOp)
    (hr : ∀ o ∈ ops, o.isReset = false) (ms : MState)
    (h : mrun Shape.pinned (MState.ofState s) ops = some ms) :
    -1 ≤ ms.sh.qack ∧ ms.sh.qack ≤ ms.sh.appended ∧
    (∀ g x, ms.sh.grp g = some x → ms.sh.qack ≤ x.ack ∧ x.ack ≤ x.consumed ∧ x.consumed ≤ ms.sh.appended) ∧
    (ms.quiet = true → ∀ g x, ms.sh.grp g = some x → ms.sh.pg g = some { consumed := x.consumed, ack := x.ack }) := by
  have h0 : Inv (MState.ofState s) :=
    Inv.ofState s hb.q.ackLo hb.q.ackLe (fun g x hx => ⟨ha g x hx, ho.live hb g x hx⟩) hb.grp
  have hi := Inv.run ops _ ms h0 hr h
  exact ⟨hi.qlo, hi.qle, hi.ord, fun hq g x hx => hi.quiet_write_through hq g x hx⟩

open LinVerif.FanOut.Micro in
/-- (2) under the interleaving: a micro-step changes a group's consumed position only if it is the
Store of consume(), and then from c to c+1 ≤ appended, c the position at THAT moment (the head loaded
before parking plays no role); the call then returns exactly that sequence (`cPut`). -/
theorem micro_consume_next (s : State) (hb : Base s) (ho : Order s) (ha : Above s) (ops : List MOp)
    (hr : ∀ o ∈ ops, o.isReset = false) (ms ms' : MState) (o : MOp) (hro : o.isReset = false)
    (h : mrun Shape.pinned (MState.ofState s) ops = some ms) (hs : mstep Shape.pinned ms o = some ms')
    (k : Nat) (x x' : Group) (hx : ms.sh.grp k = some x) (hx' : ms'.sh.grp k = some x') :
    x'.consumed = x.consumed ∨
    (o = .cStore ∧ x'.consumed = x.consumed + 1 ∧ x'.consumed ≤ ms'.sh.appended ∧ ms'.c = .stored k x'.consumed) ∨
    (o = .wSet k x'.consumed ∧ x.ack ≤ x'.consumed ∧ x'.consumed ≤ ms.sh.appended ∧ x'.ack = x.ack) := by
  have h0 : Inv (MState.ofState s) :=
    Inv.ofState s hb.q.ackLo hb.q.ackLe (fun g x hx => ⟨ha g x hx, ho.live hb g x hx⟩) hb.grp
  have hi := Inv.run ops _ ms h0 hr h
  have hi' := hi.step hro hs
  rcases consumed_step Shape.pinned hro hs k with e | ⟨e, hh, app, x0, hc, hx0, hle, hg', hc'⟩ | ⟨n, x0, e, hx0, h1, h2, hg'⟩
  · left; rw [hx, hx'] at e; simpa using e
  · right; left
    rw [hx] at hx0; cases hx0
    rw [hx'] at hg'; cases hg'
    have hci := hi.ci
    rw [hc] at hci
    obtain ⟨x1, hx1, hh1, _⟩ := hci
    rw [hx] at hx1; cases hx1
    exact ⟨e, hh1, (hi'.ord k _ hx').2.2, hc'⟩
  · right; right
    rw [hx] at hx0; cases hx0
    rw [hx'] at hg'; cases hg'
    exact ⟨e, h1, h2, rfl⟩

open LinVerif.FanOut.Micro in
/-- (3) under the interleaving, rewinds included (round 12): a micro-step changes a group's acknowledged
position only if it is the Store of Ack, and then to an `n` with ack ≤ n ≤ consumed for the positions of
THAT moment — although `SetConsumedSeq` calls of another goroutine (`wSet`, the replicators' re-consume)
may have pulled the consumed position back at any earlier point, also between this Ack's call and its
read lock. An acknowledgement above the current consumed position (e.g. of a batch handed out before the
rewind) is never stored: the window is the current one, not the high-water mark of what was handed out. -/
theorem micro_ack_window (s : State) (hb : Base s) (ho : Order s) (ha : Above s) (ops : List MOp)
    (hr : ∀ o ∈ ops, o.isReset = false) (ms ms' : MState) (o : MOp) (hro : o.isReset = false)
    (h : mrun Shape.pinned (MState.ofState s) ops = some ms) (hs : mstep Shape.pinned ms o = some ms')
    (k : Nat) (x x' : Group) (hx : ms.sh.grp k = some x) (hx' : ms'.sh.grp k = some x') :
    x'.ack = x.ack ∨
    (o = .aStore ∧ x.ack ≤ x'.ack ∧ x'.ack ≤ x.consumed ∧ x'.consumed = x.consumed) := by
  have h0 : Inv (MState.ofState s) :=
    Inv.ofState s hb.q.ackLo hb.q.ackLe (fun g x hx => ⟨ha g x hx, ho.live hb g x hx⟩) hb.grp
  have hi := Inv.run ops _ ms h0 hr h
  rcases ack_step Shape.pinned hro hs k with e | ⟨e, n, ts, hs', x0, hak, hx0, h1, h2, hg'⟩
  · left; rw [hx, hx'] at e; simpa using e
  · right
    rw [hx] at hx0; cases hx0
    rw [hx'] at hg'; cases hg'
    have hai := hi.ai
    rw [hak] at hai
    obtain ⟨x1, hx1, hts, hhs⟩ := hai
    rw [hx] at hx1; cases hx1
    refine ⟨e, ?_, ?_, rfl⟩
    · show x.ack ≤ n; omega
    · show n ≤ x.consumed; omega

open LinVerif.FanOut.Micro in
/-- non-vacuity of the rewinder: group 0 at consumed 9 / ack 2 is rewound to 3 while an Ack(6) is on its
way; the Ack takes its read lock after the rewind and is ignored (positions 3 / 2), a consume then hands
out 4 again. The same Ack taking the lock BEFORE the rewind keeps the rewind out until it is done (6 ≤ 9 is
stored; the rewind to 3 is then outside [6, appended]: not enabled as a reset-free step). -/
example :
    let ms0 : MState := { sh := { appended := 9, qack := 2, grp := fun k => if k = 0 then some ⟨9, 2, false⟩ else none,
                                  pg := fun k => if k = 0 then some ⟨9, 2⟩ else none, names := [0] },
                          c := .idle, a := .idle, y := .idle, r := .idle, outs := [] }
    ((mrun Shape.pinned ms0 [.wSet 0 3, .aLock 0 6, .aStore, .cLoad 0, .cWake, .cLock, .cStore, .cPut]).map
        (fun ms => ((ms.sh.grp 0).map (fun x => (x.consumed, x.ack)), ms.outs, ms.quiet)) =
      some (some (4, 2), [(0, 4)], true)) ∧
    ((mrun Shape.pinned ms0 [.aLock 0 6, .wSet 0 3]).isNone = true) ∧
    ((mrun Shape.pinned ms0 [.aLock 0 6, .aStore, .aLoadC, .aPut1, .aPut2, .wSet 0 3]).isNone = true) ∧
    ((mrun Shape.pinned ms0 [.aLock 0 6, .aStore, .aLoadC, .aPut1, .aPut2, .wSet 0 7]).map
        (fun ms => (ms.sh.grp 0).map (fun x => (x.consumed, x.ack))) = some (some (7, 6))) := by decide

open LinVerif.FanOut.Micro in
/-- (4c) under the interleaving: a micro-step that moves the queue ack is the final step of Sync,
it moves it forward, and the new value is at or below the CURRENT ack of every group — although
Sync read the acks one by one, without any group lock, in an arbitrary iteration order, while acks
and consumes went on in between. -/
theorem micro_queue_ack (s : State) (hb : Base s) (ho : Order s) (ha : Above s) (ops : List MOp)
    (hr : ∀ o ∈ ops, o.isReset = false) (ms ms' : MState) (o : MOp) (hro : o.isReset = false)
    (h : mrun Shape.pinned (MState.ofState s) ops = some ms) (hs : mstep Shape.pinned ms o = some ms') :
    ms'.sh.qack = ms.sh.qack ∨
    (o = .sSet ∧ ms.sh.qack < ms'.sh.qack ∧ ms'.sh.qack ≤ ms'.sh.appended ∧
      ∀ g x, ms'.sh.grp g = some x → ms'.sh.qack ≤ x.ack) := by
  have h0 : Inv (MState.ofState s) :=
    Inv.ofState s hb.q.ackLo hb.q.ackLe (fun g x hx => ⟨ha g x hx, ho.live hb g x hx⟩) hb.grp
  have hi' := (Inv.run ops _ ms h0 hr h).step hro hs
  rcases qack_step Shape.pinned hro hs with e | ⟨e, hlt, _⟩
  · exact Or.inl e
  · exact Or.inr ⟨e, hlt, hi'.qle, fun g x hx => (hi'.ord g x hx).1⟩

open LinVerif.FanOut.Micro in
/-- a Sync that completes between the queue part and the group parts of an index reset, with no
Put in between, cannot move the queue ack: `SetAcknowledgedSeq` refuses everything when
acknowledged = appended -/
theorem micro_sync_during_reset_noop (sh : Sh) (h : sh.qack = sh.appended) (acc : Int) : sh.setAck acc = sh := by
  unfold Sh.setAck
  split
  · rename_i hc; omega
  · rfl

/-- `Sync` over arbitrary group sets and arbitrary map iteration orders: the candidate is exactly
the minimum of the appended position and ALL groups' acks (never-acknowledged groups at -1 included),
whatever order the map is iterated in. -/
theorem sync_any_iteration_order (s : State) (live' : List (Nat × Group)) (h : s.live.Perm live') :
    ({ s with live := live' } : State).sync.q = s.sync.q ∧
    minAck s.q.appended live' = minAck s.q.appended s.live ∧
    (∀ g grp, lookup s.live g = some grp → minAck s.q.appended s.live ≤ grp.ack) ∧
    (minAck s.q.appended s.live = s.q.appended ∨ ∃ k g, (k, g) ∈ s.live ∧ minAck s.q.appended s.live = g.ack) :=
  ⟨sync_perm s live' h, (minAck_perm h _).symm, fun g grp hl => sync_candidate_le s g grp hl, minAck_attained _ _⟩

/-- a group that never acknowledged anything (ack -1 on a fresh queue — e.g. a follower that is down)
is not "unset": while it exists, Sync leaves the whole state alone, so GC removes nothing it needs -/
theorem sync_never_acked_group_holds_queue_ack (s : State) (g : Nat) (grp : Group)
    (hl : lookup s.live g = some grp) (hneg : grp.ack < 0) : (step Variant.fixed s .sync).1 = s :=
  sync_blocked_by_negative_ack s g grp hl hneg

/-- persistence layout: `Ack` is crash-atomic on the meta page (any prefix of its two stores leaves
the old or the new positions), and the restore path of `NewConsumerGroup` re-reads a page torn by its
own stores to the same positions. -/
theorem meta_page_crash_atomic (v : Variant) (hv : v.liftConsumed = true) (grp : Group) (n qack : Int) (m : Meta) (k : Nat) :
    (crashPage { consumed := grp.consumed, ack := grp.ack } (ackStores grp n) k = { consumed := grp.consumed, ack := grp.ack } ∨
     crashPage { consumed := grp.consumed, ack := grp.ack } (ackStores grp n) k = { consumed := grp.consumed, ack := n }) ∧
    crashPage { consumed := grp.consumed, ack := grp.ack } (consumeStores (grp.consumed + 1)) k ∈
      [{ consumed := grp.consumed, ack := grp.ack }, { consumed := grp.consumed + 1, ack := grp.ack }] ∧
    newGroup v qack (some (crashPage m (newGroupStores v qack (some m)) k)) = newGroup v qack (some m) := by
  refine ⟨?_, ?_, newGroup_crash_idem v hv qack m k⟩
  · rw [ack_crash_page]; split
    · exact Or.inl rfl
    · exact Or.inr rfl
  · match k with
    | 0 => simp [crashPage, consumeStores]
    | k + 1 => simp [crashPage, consumeStores, Meta.apply]

/-- observation (outside the close/reopen quantifier — a process crash): a crash between
`AcquirePage` (zero-filled file) and the first store of a FRESH group on a fresh queue leaves (0, 0);
the next start-up restores the group at consumed 0, i.e. sequence 0 is never handed to it. -/
example : newGroup Variant.fixed (-1) (some (crashPage Meta.zero (newGroupStores Variant.fixed (-1) none) 0)) =
    { consumed := 0, ack := 0 } ∧
    newGroup Variant.fixed (-1) (some (crashPage Meta.zero (newGroupStores Variant.fixed (-1) none) 1)) =
    { consumed := 0, ack := 0 } ∧
    newGroup Variant.fixed (-1) (some (crashPage Meta.zero (newGroupStores Variant.fixed (-1) none) 2)) =
    { consumed := -1, ack := -1 } := by decide

/-- replica side: `IsEmpty` (appended ≤ ack) implies `Pending = 0` and, on ordered positions, that the
group has consumed and acknowledged everything; the converse fails (`Neg.expire_on_pending_drops_unacked`) -/
theorem isEmpty_implies_pending_zero (grp : Group) (app : Int) (ho : grp.ack ≤ grp.consumed ∧ grp.consumed ≤ app)
    (he : grp.isEmpty app = true) : grp.pending app = 0 ∧ grp.consumed = app ∧ grp.ack = app := by
  simp only [Group.isEmpty, decide_eq_true_eq] at he
  refine ⟨?_, by omega, by omega⟩
  unfold Group.pending
  split <;> omega

/-- the expiry loop of `partition.IsExpire` (pinned: stops a group only when `IsEmpty`): a group with
anything unacknowledged stays live with its positions, the queue is untouched by the loop, and
stopping an empty group does not change the candidate the next Sync computes. -/
theorem expire_keeps_unacked_groups (v : Variant) (s : State) (gs : List Nat) (k : Nat) (grp : Group)
    (hl : lookup s.live k = some grp) (hne : grp.ack < s.q.appended) :
    lookup (expireLoop v false s gs).live k = some grp ∧ (expireLoop v false s gs).q = s.q :=
  ⟨expireLoop_keeps_nonempty v gs s k grp hl (by simp [Group.isEmpty]; omega), expireLoop_q v false gs s⟩

theorem stop_empty_group_keeps_sync_candidate (s : State) (g : Nat)
    (h : ∀ grp, (g, grp) ∈ s.live → grp.isEmpty s.q.appended = true) :
    minAck s.q.appended (erase s.live g) = minAck s.q.appended s.live :=
  minAck_erase_empty _ _ g (fun grp hm => by have := h grp hm; simpa [Group.isEmpty] using this)

/-- StopConsumerGroup + re-create, and groups created late (fix 33cf950 = `Variant.fixed`): the group
`GetOrCreateConsumerGroup` puts into the map is at queue ack ≤ ack ≤ consumed; without a meta page it
starts exactly at the queue ack; with one (a stopped group) its ack is the stored ack lifted to the
queue ack and its consumed position the stored one lifted to that ack — so stored positions at or
above the queue ack come back unchanged. From ANY state. -/
theorem created_group_positions (v : Variant) (hv1 : v.liftConsumed = true) (hv2 : v.freshAtQueueAck = true)
    (s : State) (g : Nat) (hnl : lookup s.live g = none) :
    ∃ grp, lookup (step v s (.create g)).1.live g = some grp ∧ s.q.ack ≤ grp.ack ∧ grp.ack ≤ grp.consumed ∧
      (lookup s.metas g = none → grp.ack = s.q.ack ∧ grp.consumed = s.q.ack) ∧
      (∀ m, lookup s.metas g = some m →
        grp.ack = (if m.ack < s.q.ack then s.q.ack else m.ack) ∧
        grp.consumed = (if m.consumed < grp.ack then grp.ack else m.consumed)) := by
  refine ⟨(newGroup v s.q.ack (lookup s.metas g)).toGroup, ?_, ?_⟩
  · show lookup (s.create v g).live g = _
    unfold State.create
    rw [hnl]
    exact lookup_upsert_self _ _ _
  · cases hm : lookup s.metas g with
    | none =>
      have e : newGroup v s.q.ack none = { consumed := s.q.ack, ack := s.q.ack } := by simp [newGroup, hv2]
      rw [e]
      exact ⟨Int.le_refl _, Int.le_refl _, fun _ => ⟨rfl, rfl⟩, fun m h => by cases h⟩
    | some m =>
      have ea : (newGroup v s.q.ack (some m)).ack = if m.ack < s.q.ack then s.q.ack else m.ack := by
        simp [newGroup, restoredAck]
      have ec : (newGroup v s.q.ack (some m)).consumed =
          if m.consumed < (newGroup v s.q.ack (some m)).ack then (newGroup v s.q.ack (some m)).ack else m.consumed := by
        simp [newGroup, restoredConsumed, hv1]
      refine ⟨?_, ?_, (fun h => by cases h), (fun m' h' => ?_)⟩
      · show s.q.ack ≤ (newGroup v s.q.ack (some m)).ack
        rw [ea]; split <;> omega
      · show (newGroup v s.q.ack (some m)).ack ≤ (newGroup v s.q.ack (some m)).consumed
        rw [ec]; split <;> omega
      · cases h'
        exact ⟨ea, ec⟩

/-- the regenerated access tables (which shared field is read / written under which lock) are the
ones the micro-step model mirrors: Consume's first load is unlocked and it delegates to consume();
consume() loads, compares, stores and persists under `lock4headSeq.Lock`; Ack does all of its loads,
its Store and both meta writes under `lock4headSeq.RLock` (⇒ `Shape.pinned`); Sync reads the acks
without any group lock under `lock4map.RLock`; SetAppendedSeq only read-locks the map, SetSeq /
SetConsumedSeq write-lock the group; Pending / IsEmpty read under the read lock. -/
def toAccess (l : List (String × String × String)) : List Micro.Access :=
  l.map (fun e => { rw := e.1, field := e.2.1, lock := e.2.2 })

theorem access_tie :
    Generated.C06.consumeOuterAccess = [("R", "consumedSeq", "-"), ("C", "NotEmpty", "-"), ("C", "consume", "-")] ∧
    Generated.C06.consumeAccess = [("R", "consumedSeq", "lock4headSeq.Lock"), ("R", "queue.appendedSeq", "lock4headSeq.Lock"),
      ("W", "consumedSeq", "lock4headSeq.Lock"), ("W", "metaPage", "lock4headSeq.Lock")] ∧
    Generated.C06.ackAccess = [("R", "acknowledgedSeq", "lock4headSeq.RLock"), ("R", "consumedSeq", "lock4headSeq.RLock"),
      ("W", "acknowledgedSeq", "lock4headSeq.RLock"), ("R", "consumedSeq", "lock4headSeq.RLock"),
      ("W", "metaPage", "lock4headSeq.RLock"), ("R", "acknowledgedSeq", "lock4headSeq.RLock"),
      ("W", "metaPage", "lock4headSeq.RLock"), ("C", "msync", "lock4headSeq.RLock")] ∧
    Micro.shapeOfAccess (toAccess Generated.C06.ackAccess) = Micro.Shape.pinned ∧
    Generated.C06.syncAccess = [("R", "queue.appendedSeq", "lock4map.RLock"), ("R", "acknowledgedSeq", "lock4map.RLock"),
      ("W", "queue.acknowledgedSeq", "lock4map.RLock")] ∧
    Generated.C06.fanOutSetAppendedAccess = [("W", "queue.appendedSeq", "lock4map.RLock"), ("C", "SetSeq", "lock4map.RLock")] ∧
    Generated.C06.setSeqAccess = [("W", "consumedSeq", "lock4headSeq.Lock"), ("W", "acknowledgedSeq", "lock4headSeq.Lock"),
      ("R", "consumedSeq", "lock4headSeq.Lock"), ("W", "metaPage", "lock4headSeq.Lock"),
      ("R", "acknowledgedSeq", "lock4headSeq.Lock"), ("W", "metaPage", "lock4headSeq.Lock")] ∧
    Generated.C06.setConsumedSeqAccess = [("W", "consumedSeq", "lock4headSeq.Lock"), ("R", "consumedSeq", "lock4headSeq.Lock"),
      ("W", "metaPage", "lock4headSeq.Lock")] ∧
    Generated.C06.pendingAccess = [("R", "consumedSeq", "lock4headSeq.RLock"), ("R", "queue.appendedSeq", "lock4headSeq.RLock")] ∧
    Generated.C06.isEmptyAccess = [("R", "queue.appendedSeq", "lock4headSeq.RLock"), ("R", "acknowledgedSeq", "lock4headSeq.RLock")] ∧
    Generated.C06.getOrCreateAccess = [("C", "NewConsumerGroup", "lock4map.Lock")] ∧
    Generated.C06.stopGroupAccess = [("C", "Close", "lock4map.Lock"), ("W", "consumerGroups", "lock4map.Lock")] := by decide

/-- meta page layout: every method writes the consumed position to `consumerGroupConsumedSeqOffset`
(0) first and the ack to `consumerGroupAcknowledgedSeqOffset` (8) second — the store orders of
`ackStores` / `consumeStores` / `setSeqStores` / `setConsumedStores` / `newGroupStores`; Ack and SetSeq
re-read the positions for the write. -/
theorem meta_layout_tie :
    Generated.C06.ackPutArgs = ["uint64(f.ConsumedSeq())@consumerGroupConsumedSeqOffset",
      "uint64(f.AcknowledgedSeq())@consumerGroupAcknowledgedSeqOffset"] ∧
    Generated.C06.consumePutArgs = ["uint64(headSeq)@consumerGroupConsumedSeqOffset"] ∧
    Generated.C06.setSeqPutArgs = Generated.C06.ackPutArgs ∧
    Generated.C06.setConsumedSeqPutArgs = ["uint64(f.ConsumedSeq())@consumerGroupConsumedSeqOffset"] ∧
    Generated.C06.newConsumerGroupPutArgs = ["uint64(consumedSeq)@consumerGroupConsumedSeqOffset",
      "uint64(ackSeq)@consumerGroupAcknowledgedSeqOffset"] ∧
    Generated.C06.consumerGroupConsumedSeqOffset = 0 ∧ Generated.C06.consumerGroupAcknowledgedSeqOffset = 8 ∧
    Generated.C06.consumerGroupConsumedSeqOffset + 8 ≤ Generated.C06.consumerGroupAcknowledgedSeqOffset ∧
    Generated.C06.consumerGroupAcknowledgedSeqOffset + 8 ≤ Generated.C06.consumerGroupMetaSize := by decide

/-- `Pending` = max 0 (appended − consumed), `IsEmpty` = appended ≤ ack; `partition.IsExpire` = Sync, GC,
then for every group name: look it up, `IsEmpty` ⇒ stopReplicator, else keep (seeded c08-17 replaced
the test by `Pending()`). -/
theorem expire_tie :
    Generated.C06.pendingConds = ["pending < 0"] ∧ Generated.C06.pendingReturns = ["0", "pending"] ∧
    Generated.C06.isEmptyReturns = ["qh <= f.AcknowledgedSeq()"] ∧
    essential ["log.Sync", "log.Queue().GC", "log.ConsumerGroupNames", "log.GetOrCreateConsumerGroup",
      "consumerGroup.IsEmpty", "consumerGroup.Pending", "p.stopReplicator"] Generated.C06.isExpireCalls =
      ["log.Sync", "log.Queue().GC", "log.ConsumerGroupNames", "log.GetOrCreateConsumerGroup", "consumerGroup.IsEmpty",
       "p.stopReplicator"] ∧
    Generated.C06.isExpireConds.getLast? = some "!consumerGroup.IsEmpty()" ∧
    Generated.C06.isExpireLoop = ["call:log.GetOrCreateConsumerGroup", "if:continue", "call:p.stopReplicator"] := by decide

/-! ## Round 12: the replicator's glue (replica/replicator.go, Model/C06Glue.lean): index ↔ sequence
conversions, the rewind `ResetReplicaIndex`, the replay at the start of a local replicator -/

/-- the bodies of the replicator's conversion methods, of `partition.ResetReplicaIndex`, and the
argument of the rewind in `NewLocalReplicator`, as they are in the source of this run -/
theorem replicator_glue_tie :
    Generated.C06.replReplicaIndexBody = ["return r.channel.ConsumerGroup.ConsumedSeq() + 1"] ∧
    Generated.C06.replAckIndexBody = ["return r.channel.ConsumerGroup.AcknowledgedSeq()"] ∧
    Generated.C06.replAppendIndexBody = ["return r.channel.ConsumerGroup.Queue().Queue().AppendedSeq() + 1"] ∧
    Generated.C06.replResetReplicaIndexBody = ["r.channel.ConsumerGroup.SetConsumedSeq(idx - 1)"] ∧
    Generated.C06.replResetAppendIndexBody = ["r.channel.ConsumerGroup.Queue().SetAppendedSeq(idx - 1)"] ∧
    Generated.C06.replSetAckIndexBody = ["r.channel.ConsumerGroup.Ack(ackIdx)"] ∧
    Generated.C06.replIgnoreMessageBody =
      ["currentAck := r.AckIndex()", "if currentAck+1 == replicaIdx {", "r.SetAckIndex(replicaIdx)", "}"] ∧
    Generated.C06.replConsumeBody = ["return r.channel.ConsumerGroup.Consume()"] ∧
    Generated.C06.replPendingBody = ["return r.channel.ConsumerGroup.Pending()"] ∧
    Generated.C06.localStartResetArgs = ["lr.AckIndex() + 1"] ∧
    Generated.C06.partitionResetReplicaIndexBody = ["p.log.SetAppendedSeq(idx - 1)"] := by decide

open LinVerif.FanOut.Glue in
/-- `ResetReplicaIndex(idx)`: afterwards `ReplicaIndex() = idx`, the acknowledged position and every
other group are untouched, the positions are written through; and it is an operation of the reset-free
alphabet exactly when `AckIndex()+1 ≤ idx ≤ AppendIndex()` -/
theorem reset_replica_index (v : Variant) (s : State) (g : Nat) (grp : Group) (idx : Int)
    (hl : lookup s.live g = some grp) :
    step v s (resetReplicaIndex g idx) = (s.putGroup g { grp with consumed := idx - 1 }, .done) ∧
    (∀ grp', lookup (step v s (resetReplicaIndex g idx)).1.live g = some grp' →
      replicaIndex grp' = idx ∧ ackIndex grp' = ackIndex grp) ∧
    ((resetReplicaIndex g idx).okAt s ↔ ackIndex grp + 1 ≤ idx ∧ idx ≤ appendIndex s.q) := by
  have hst : step v s (resetReplicaIndex g idx) = (s.putGroup g { grp with consumed := idx - 1 }, .done) := by
    simp only [resetReplicaIndex, FanOut.step, hl]
  refine ⟨hst, ?_, ?_⟩
  · intro grp' h
    rw [hst] at h
    rw [putGroup_live_self] at h
    cases h
    exact ⟨by simp [replicaIndex], rfl⟩
  · simp only [resetReplicaIndex, Op.okAt, ackIndex, appendIndex]
    constructor
    · intro h
      have := h grp hl
      omega
    · intro h grp' hl'
      rw [hl] at hl'; cases hl'
      omega

open LinVerif.FanOut.Glue in
/-- The replay at the start of a local replicator ("reset replica index = ack index + 1, replay wal
log") and every other rewind to a position `m` inside the window: from ANY state satisfying the
invariants, for EVERY number `k` of messages ahead, `ResetReplicaIndex(m+1)` followed by `k` Consume calls
hands out exactly m+1, m+2, …, m+k — in particular, for m = ack, every message the group has not
acknowledged, once, in order —, each of them is readable (`Get` answers ok: GC cannot have removed it
because the queue ack is at or below the group's ack), the acknowledged position stays where it was, and
the queue is not touched. The rewind itself is inside the reset-free alphabet (`okAt`), so every theorem
over `NoReset` histories applies to histories containing it. -/
theorem replay_after_rewind (v : Variant) (s : State) (hb : Base s) (ha : Above s) (g : Nat) (grp : Group)
    (hl : lookup s.live g = some grp) (hp : grp.paused = false) (m : Int) (hm : grp.ack ≤ m) (k : Nat)
    (hk : m + k ≤ s.q.appended) :
    (resetReplicaIndex g (m + 1)).okAt s ∧
    results v s (resetReplicaIndex g (m + 1) :: List.replicate k (.consume g)) = .done :: seqFrom (m + 1) k ∧
    (run v s (resetReplicaIndex g (m + 1) :: List.replicate k (.consume g))).q = s.q ∧
    (∃ grp', lookup (run v s (resetReplicaIndex g (m + 1) :: List.replicate k (.consume g))).live g = some grp' ∧
      grp'.consumed = m + k ∧ grp'.ack = grp.ack) ∧
    (∀ i : Nat, i < k → (seqFrom (m + 1) k)[i]? = some (.val (m + 1 + i)) ∧ ∃ len, s.q.get (m + 1 + i) = .ok len) := by
  obtain ⟨hst, _, hok⟩ := reset_replica_index v s g grp (m + 1) hl
  have hm1 : m + 1 - 1 = m := by omega
  rw [hm1] at hst
  have hl1 := putGroup_live_self s g { grp with consumed := m }
  obtain ⟨h1, h2, grp', h3, h4, h5, _⟩ := consume_replicate v g k (s.putGroup g { grp with consumed := m })
    { grp with consumed := m } hl1 hp (by show m + (k : Int) ≤ s.q.appended; exact hk)
  refine ⟨hok.mpr ⟨by simp only [ackIndex]; omega, by simp only [appendIndex]; omega⟩, ?_, ?_, ⟨grp', ?_, h4, h5⟩, ?_⟩
  · simp only [results, hst]
    rw [h1]
  · simp only [run, hst]
    rw [h2]; rfl
  · simp only [run, hst]
    exact h3
  · intro i hi
    refine ⟨seqFrom_get k (m + 1) i hi, hb.q.readable (m + 1 + i) ?_ ?_⟩
    · have := ha g grp hl
      omega
    · omega

open LinVerif.FanOut.Glue in
/-- the start of a local replicator is that rewind with m = ack: it needs nothing but the ordering
invariant to be inside the window -/
theorem local_start_in_window (s : State) (hb : Base s) (ho : Order s) (g : Nat) (grp : Group)
    (hl : lookup s.live g = some grp) :
    localStart s g = [resetReplicaIndex g (grp.ack + 1)] ∧ ∀ o ∈ localStart s g, o.okAt s := by
  have hls : localStart s g = [resetReplicaIndex g (grp.ack + 1)] := by simp [localStart, hl, ackIndex]
  refine ⟨hls, ?_⟩
  intro o ho'
  rw [hls] at ho'
  simp only [List.mem_singleton] at ho'
  subst ho'
  have := ho.live hb g grp hl
  simp only [resetReplicaIndex, Op.okAt]
  intro grp' hl'
  rw [hl] at hl'; cases hl'
  omega

open LinVerif.FanOut.Glue in
/-- `IgnoreMessage(idx)`: acknowledges `idx` exactly when it is the next one after the acknowledged
position AND has been handed out (idx ≤ consumed: the window of `Ack`); in every other case the whole
state is unchanged — after a rewind below `idx` in particular -/
theorem ignore_message (v : Variant) (s : State) (g : Nat) (grp : Group) (idx : Int)
    (hl : lookup s.live g = some grp) :
    run v s (ignoreMessage s g idx) =
      if grp.ack + 1 = idx ∧ idx ≤ grp.consumed then s.putGroup g { grp with ack := idx } else s := by
  by_cases h1 : grp.ack + 1 = idx
  · have hi : ignoreMessage s g idx = [.ack g idx] := by simp [ignoreMessage, hl, ackIndex, setAckIndex, h1]
    rw [hi]
    by_cases h2 : idx ≤ grp.consumed
    · simp only [run, ack_inside v s g idx grp hl ⟨by omega, h2⟩, h1, h2, and_self, if_true]
    · simp only [run, ack_window v s g idx grp hl (by omega), h1, h2, and_false, if_false]
  · have hi : ignoreMessage s g idx = [] := by simp [ignoreMessage, hl, ackIndex, h1]
    rw [hi]
    simp [run, h1]

open LinVerif.FanOut.Glue in
/-- non-vacuity / the shapes: group 0 consumed up to 6, acknowledged 2; a local replicator starts
(rewind to 2), four Consume calls hand out 3,4,5,6 again, all readable; IgnoreMessage(3) acknowledges 3,
IgnoreMessage(5) (not the next one) and IgnoreMessage(4) after a rewind to 3 (not handed out again yet)
change nothing -/
example :
    let s0 := run Variant.fixed State.init
      ([.create 0] ++ List.replicate 8 (.append 5) ++ List.replicate 7 (.consume 0) ++ [.ack 0 2])
    results Variant.fixed s0 (localStart s0 0 ++ List.replicate 4 (.consume 0)) = .done :: seqFrom 3 4 ∧
    ((List.range 4).all fun i => (s0.q.get (3 + i) == .ok 5)) = true ∧
    lookup (run Variant.fixed s0 (ignoreMessage s0 0 3)).live 0 = some { consumed := 6, ack := 3, paused := false } ∧
    run Variant.fixed s0 (ignoreMessage s0 0 5) = s0 ∧
    (let s1 := run Variant.fixed s0 [resetReplicaIndex 0 4, .ack 0 3]
     lookup s1.live 0 = some { consumed := 3, ack := 3, paused := false } ∧ run Variant.fixed s1 (ignoreMessage s1 0 4) = s1) := by
  decide

/-- the skeleton of `remoteReplicator.IsReady` as far as it touches positions (source order; `[returns]` =
the branch ends in a return) -/
theorem remote_handshake_tie :
    Generated.C06.remoteHandshake =
      ["assign:localReplicaIdx := r.ReplicaIndex()", "assign:nextReplicaIdx := remoteLastReplicaAckIdx + 1",
       "if:nextReplicaIdx == localReplicaIdx [returns]", "assign:appendIdx := r.AppendIndex()",
       "assign:smallestAckIdx := r.AckIndex()", "case:remoteLastReplicaAckIdx < smallestAckIdx [returns]",
       "assign:needResetReplicaIdx := smallestAckIdx + 1", "call:r.ResetReplicaIndex(needResetReplicaIdx)",
       "case:nextReplicaIdx > appendIdx", "call:r.ResetAppendIndex(nextReplicaIdx)",
       "call:r.ResetReplicaIndex(nextReplicaIdx)", "call:r.SetAckIndex(remoteLastReplicaAckIdx)",
       "assign:newLocalReplicaIdx := r.ReplicaIndex()", "if:newLocalReplicaIdx == nextReplicaIdx [returns]"] := by decide

open LinVerif.FanOut.Glue in
/-- The remote replicator's handshake, follower not ahead of the leader's log (rAck ≤ appended): whatever the
follower answered, every operation issued lies inside the reset-free alphabet (the rewind targets the window,
the acknowledgement is inside [ack, consumed] of that moment), the queue is untouched, and afterwards the group is
at consumed = ack = max(ack, rAck) — the next index sent is the first unacknowledged one — unless the follower was
already in step (then nothing is issued). -/
theorem handshake_positions (v : Variant) (s : State) (hb : Base s) (ho : Order s) (g : Nat) (grp : Group)
    (hl : lookup s.live g = some grp) (rAck : Int) (hr : rAck ≤ s.q.appended) :
    Valid v (fun s o => o.okAt s) s (handshakeOps s g rAck) ∧
    (run v s (handshakeOps s g rAck)).q = s.q ∧
    (rAck + 1 = replicaIndex grp → run v s (handshakeOps s g rAck) = s) ∧
    (rAck + 1 ≠ replicaIndex grp →
      lookup (run v s (handshakeOps s g rAck)).live g =
        some { grp with consumed := (if rAck < grp.ack then grp.ack else rAck), ack := (if rAck < grp.ack then grp.ack else rAck) }) := by
  have hord := ho.live hb g grp hl
  by_cases h1 : rAck + 1 = replicaIndex grp
  · have hops : handshakeOps s g rAck = [] := by simp [handshakeOps, hl, h1]
    rw [hops]
    exact ⟨trivial, rfl, fun _ => rfl, fun h => absurd h1 h⟩
  · by_cases h2 : rAck < grp.ack
    · have hops : handshakeOps s g rAck = [resetReplicaIndex g (grp.ack + 1)] := by
        simp [handshakeOps, hl, h1, ackIndex, h2]
      rw [hops]
      obtain ⟨hst, _, hok⟩ := reset_replica_index v s g grp (grp.ack + 1) hl
      have e : grp.ack + 1 - 1 = grp.ack := by omega
      rw [e] at hst
      refine ⟨⟨hok.mpr ⟨by simp only [ackIndex]; omega, by simp only [appendIndex]; omega⟩, trivial⟩, ?_, fun h => absurd h h1, fun _ => ?_⟩
      · simp only [run, hst]; rfl
      · simp only [run, hst, h2, if_true]
        rw [putGroup_live_self]
    · have hops : handshakeOps s g rAck = [resetReplicaIndex g (rAck + 1), setAckIndex g rAck] := by
        have : ¬ (rAck + 1 > appendIndex s.q) := by simp only [appendIndex]; omega
        simp [handshakeOps, hl, h1, ackIndex, h2, this]
      rw [hops]
      obtain ⟨hst, _, hok⟩ := reset_replica_index v s g grp (rAck + 1) hl
      have e : rAck + 1 - 1 = rAck := by omega
      rw [e] at hst
      have hl1 := putGroup_live_self s g { grp with consumed := rAck }
      have hst2 := ack_inside v (s.putGroup g { grp with consumed := rAck }) g rAck { grp with consumed := rAck } hl1
        ⟨by show grp.ack ≤ rAck; omega, by show rAck ≤ rAck; omega⟩
      refine ⟨⟨hok.mpr ⟨by simp only [ackIndex]; omega, by simp only [appendIndex]; omega⟩, ?_, trivial⟩, ?_,
        fun h => absurd h h1, fun _ => ?_⟩
      · rw [hst]; exact trivial
      · simp only [run, hst, setAckIndex, hst2]; rfl
      · simp only [run, hst, setAckIndex, hst2, h2, if_false]
        rw [putGroup_live_self]

open LinVerif.FanOut.Glue in
/-- the handshake with a follower AHEAD of the leader's log (rAck > appended: "leader's lost old wal data"): an
explicit index reset to rAck, after which queue and group are at rAck / rAck — shapes by `decide`: a follower in
step, one behind the acknowledged position, one inside the window, one ahead of the log -/
example :
    let s0 := run Variant.fixed State.init
      ([.create 0] ++ List.replicate 8 (.append 5) ++ List.replicate 7 (.consume 0) ++ [.ack 0 2])
    handshakeOps s0 0 6 = [] ∧
    lookup (run Variant.fixed s0 (handshakeOps s0 0 0)).live 0 = some { consumed := 2, ack := 2, paused := false } ∧
    lookup (run Variant.fixed s0 (handshakeOps s0 0 4)).live 0 = some { consumed := 4, ack := 4, paused := false } ∧
    handshakeOps s0 0 11 = [resetAppendIndex 12, resetReplicaIndex 0 12, setAckIndex 0 11] ∧
    lookup (run Variant.fixed s0 (handshakeOps s0 0 11)).live 0 = some { consumed := 11, ack := 11, paused := false } ∧
    (run Variant.fixed s0 (handshakeOps s0 0 11)).q.appended = 11 ∧ (run Variant.fixed s0 (handshakeOps s0 0 11)).q.ack = 11 := by
  decide

/-! ## non-vacuity: the hypotheses are satisfied by non-trivial histories -/

/-- decidable form of `Op.okAt` -/
def okAtB (s : State) : Op → Bool
  | .setConsumed g n =>
    match lookup s.live g with
    | some grp => decide (grp.ack ≤ n ∧ n ≤ s.q.appended)
    | none => true
  | .setSeq _ _ => false
  | .setAppended _ => false
  | _ => true

theorem okAt_of_okAtB {s : State} {o : Op} (h : okAtB s o = true) : o.okAt s := by
  cases o <;> simp_all [okAtB, Op.okAt]
  rename_i g n
  intro grp hl
  rw [hl] at h
  simpa using h

def noResetB (v : Variant) : State → List Op → Bool
  | _, [] => true
  | s, o :: os => okAtB s o && noResetB v (step v s o).1 os

theorem valid_of_noResetB (v : Variant) : ∀ (ops : List Op) (s : State), noResetB v s ops = true →
    Valid v (fun s o => o.okAt s) s ops
  | [], _, _ => trivial
  | o :: os, s, h => by
    simp only [noResetB, Bool.and_eq_true] at h
    exact ⟨okAt_of_okAtB h.1, valid_of_noResetB v os _ h.2⟩

def rep (n : Nat) (o : Op) : List Op := List.replicate n o

/-- two groups from the start, in-window SetConsumedSeq, sync, GC, stop, reopen -/
def sample : List Op :=
  [.create 0, .create 1] ++ rep 6 (.append 10) ++ rep 4 (.consume 0) ++ [.setConsumed 1 5, .ack 0 2, .ack 1 4, .ack 1 9,
   .sync, .gc, .stop 1, .append 3, .consume 0, .ack 0 4, .sync, .reopen, .pause 0, .consume 0, .create 1]

example : NoReset Variant.current sample := valid_of_noResetB _ _ _ (by decide)
example : NoReset Variant.fixed sample := valid_of_noResetB _ _ _ (by decide)
example : (run Variant.current State.init sample).q.appended = 6 ∧ (run Variant.current State.init sample).q.ack = 4 ∧
    lookup (run Variant.current State.init sample).live 0 = some ⟨4, 4, true⟩ ∧
    lookup (run Variant.current State.init sample).live 1 = some ⟨5, 4, false⟩ := by decide

/-! ## Neg: where the pinned source violates the property -/
namespace Neg

/-- finding (a)+(b), witness 1 — a group created after the queue ack has moved, then reopen:
`create 0; 12 × append; 11 × consume 0; ack 0 10; sync; create 1; 6 × consume 1; ack 1 3; sync; reopen`. -/
def witnessLate : List Op :=
  [.create 0] ++ rep 12 (.append 1) ++ rep 11 (.consume 0) ++ [.ack 0 10, .sync, .create 1] ++
  rep 6 (.consume 1) ++ [.ack 1 3, .sync]

/-- finding (b), witness 2 — no late group: group 1 is stopped, the queue ack moves on, group 1 is
re-created: `create 0; create 1; 12 × append; 6 × consume 1; ack 1 3; stop 1; 11 × consume 0;
ack 0 10; sync; create 1`. -/
def witnessStop : List Op :=
  [.create 0, .create 1] ++ rep 12 (.append 1) ++ rep 6 (.consume 1) ++ [.ack 1 3, .stop 1] ++
  rep 11 (.consume 0) ++ [.ack 0 10, .sync, .create 1]

theorem witnesses_have_no_reset :
    NoReset Variant.current (witnessLate ++ [.reopen]) ∧ NoReset Variant.current witnessStop :=
  ⟨valid_of_noResetB _ _ _ (by decide), valid_of_noResetB _ _ _ (by decide)⟩

/-- (a) the pinned source starts the late group at (-1,-1) although the queue ack is 10: sequence 0,
which group 1 has not acknowledged (and is handed next), cannot be read. Negation of
`unacked_readable` for `Variant.current`. -/
theorem unacked_readable_fails :
    NoReset Variant.current (witnessLate.take 27) ∧
    lookup (run Variant.current State.init (witnessLate.take 27)).live 1 = some ⟨-1, -1, false⟩ ∧
    (run Variant.current State.init (witnessLate.take 27)).q.ack = 10 ∧
    (step Variant.current (run Variant.current State.init (witnessLate.take 27)) (.consume 1)).2 = .val 0 ∧
    (run Variant.current State.init (witnessLate.take 27)).q.get 0 = .outOfRange :=
  ⟨valid_of_noResetB _ _ _ (by decide), by decide, by decide, by decide, by decide⟩

/-- (b) negation of `group_order` for `Variant.current`: after a history without any reset group 1
has acknowledged 10 > consumed 5 — by reopen ... -/
theorem group_order_fails_reopen :
    lookup (run Variant.current State.init witnessLate).live 1 = some ⟨5, 3, false⟩ ∧
    lookup (run Variant.current State.init (witnessLate ++ [.reopen])).live 1 = some ⟨5, 10, false⟩ := by decide

/-- ... and by stop / re-create without any late group or reopen. -/
theorem group_order_fails_recreate :
    lookup (run Variant.current State.init witnessStop).live 1 = some ⟨5, 10, false⟩ := by decide

/-- negation of `persist` for `Variant.current`: reopen changed a live group's acknowledged position
(3 before close, 10 after). -/
theorem persist_fails :
    ∃ grp grp', lookup (run Variant.current State.init witnessLate).live 1 = some grp ∧
      lookup (step Variant.current (run Variant.current State.init witnessLate) .reopen).1.live 1 = some grp' ∧
      grp.ack = 3 ∧ grp'.ack = 10 :=
  ⟨⟨5, 3, false⟩, ⟨5, 10, false⟩, by decide, by decide, rfl, rfl⟩

/-- the lift alone repairs (1) on both witnesses, the fresh-start alone repairs (5d) and (6) on the
first; with both every clause holds (theorems above). -/
theorem repaired_on_witnesses :
    lookup (run Variant.fixed State.init (witnessLate ++ [.reopen])).live 1 = some ⟨11, 10, false⟩ ∧
    lookup (run Variant.fixed State.init witnessStop).live 1 = some ⟨10, 10, false⟩ ∧
    lookup (run { liftConsumed := true, freshAtQueueAck := false } State.init (witnessLate ++ [.reopen])).live 1
      = some ⟨10, 10, false⟩ := by decide

/-- What the tie on `GetOrCreateConsumerGroup`'s critical section protects (the shape of seeded
change c06-4, `locked = false`): group 1's creation reads the queue ack (-1), group 0 acks 10, Sync
moves the queue ack to 10, then group 1 is registered at (-1,-1): the queue ack is beyond the ack of
an existing group and sequence 0, which group 1 has not acknowledged, cannot be read. In the locked
shape the same schedule is not enabled (Sync is blocked). -/
def raceCreate : List COp :=
  [.op (.create 0)] ++ List.replicate 12 (.op (.append 1)) ++ List.replicate 11 (.op (.consume 0)) ++
  [.crBegin 1, .op (.ack 0 10), .op .sync, .op .gc, .crEnd 1]

theorem create_outside_map_lock_fails :
    crun Variant.fixed true CState.init raceCreate = none ∧
    ∃ cs, crun Variant.fixed false CState.init raceCreate = some cs ∧
      cs.s.q.ack = 10 ∧ lookup cs.s.live 1 = some ⟨-1, -1, false⟩ ∧ cs.s.q.get 0 = .outOfRange :=
  ⟨by decide, _, rfl, by decide, by decide, by decide⟩

/-- What the tie on `Ack`'s critical section protects (the shape of seeded change c06-6): Ack stores
under the lock, a consume() lands between its unlock and its meta write, the snapshot overwrites the
consumed position on the meta page; after reopen sequence 1 is handed out a second time. -/
theorem ack_persist_outside_lock_fails :
    let s0 := run Variant.fixed State.init [.create 0, .append 1, .append 1, .append 1, .consume 0]
    let a := s0.ackStore 0 0
    let s1 := (step Variant.fixed a.1 (.consume 0))
    let s2 := s1.1.ackPersist 0 (a.2.getD (0, 0))
    s1.2 = .val 1 ∧ lookup s2.live 0 = some ⟨1, 0, false⟩ ∧
    lookup (step Variant.fixed s2 .reopen).1.live 0 = some ⟨0, 0, false⟩ ∧
    (step Variant.fixed (step Variant.fixed s2 .reopen).1 (.consume 0)).2 = .val 1 := by decide

/-- seeded shape c06-13 (reset loop skips a group already at the target): group 0 at consumed 9 /
ack 3, index reset to 9 ⇒ queue ack 9 above the live group's ack 3; sequence 5, which the group has
not acknowledged, is refused by Get. The modelled reset puts the group to (9, 9). -/
theorem reset_skipping_group_fails :
    let s := run Variant.fixed State.init ([.create 0] ++ rep 12 (.append 1) ++ rep 10 (.consume 0) ++ [.ack 0 3])
    lookup (s.setAppendedSkip 9).live 0 = some ⟨9, 3, false⟩ ∧ (s.setAppendedSkip 9).q.ack = 9 ∧
    (s.setAppendedSkip 9).q.get 5 = .outOfRange ∧
    lookup (s.setAppended 9).live 0 = some ⟨9, 9, false⟩ := by decide

/-- seeded shape c06-14 (remembered appended position survives a backward reset): hint 10, the reset
put consumed and appended to 4 ⇒ sequence 5 is handed out although appended is 4; with the hint
invalidated (-1) nothing is handed out. -/
theorem stale_appended_hint_fails :
    consumeWithHint 10 4 4 = (some 5, 10) ∧ (5 : Int) > 4 ∧ consumeWithHint (-1) 4 4 = (none, 4) := by decide

/-- seeded shape c06-15 (a group that fails to load is skipped): groups 0 (ack 10) and 1 (ack 2);
start-up skips group 1; Sync moves the queue ack to 10; when group 1 is obtained again it comes back
at (10, 10) instead of (3, 2). With the modelled start-up (error + retry) it is still (3, 2) and the
queue ack stays 2. -/
theorem skipped_group_at_startup_fails :
    let s := run Variant.fixed State.init ([.create 0, .create 1] ++ rep 12 (.append 1) ++ rep 11 (.consume 0) ++
      [.ack 0 10] ++ rep 4 (.consume 1) ++ [.ack 1 2, .sync])
    let bad := run Variant.fixed (s.reopenSkipping Variant.fixed 1) [.sync, .gc, .create 1]
    let good := run Variant.fixed (s.reopenFault Variant.fixed 1) [.sync, .gc, .create 1]
    s.q.ack = 2 ∧ bad.q.ack = 10 ∧ lookup bad.live 1 = some ⟨10, 10, false⟩ ∧
    good.q.ack = 2 ∧ lookup good.live 1 = some ⟨3, 2, false⟩ := by decide

/-- seeded shape c06-20 (running minimum seeded with -1, negative = "not set"): with a never-acked
group (ack -1) and a group at ack 9 the result depends on the iteration order, and in one order it is
9 — beyond the smallest group ack; the modelled loop gives -1 in both orders. -/
theorem sync_unset_sentinel_fails :
    minAckUnset (-1) [(0, ⟨5, -1, false⟩), (1, ⟨9, 9, false⟩)] = 9 ∧
    minAckUnset (-1) [(1, ⟨9, 9, false⟩), (0, ⟨5, -1, false⟩)] = -1 ∧
    minAck 11 [(0, ⟨5, -1, false⟩), (1, ⟨9, 9, false⟩)] = -1 ∧
    minAck 11 [(1, ⟨9, 9, false⟩), (0, ⟨5, -1, false⟩)] = -1 := by decide

/-- seeded shape c06-19 in the micro-step model (`ackPersistLocked = false`): Ack stores, unlocks and
loads the consumed position (0) for its meta write; the consumer runs a whole consume() (consumed 1,
persisted); then Ack's stale 0 lands. All threads idle, memory says consumed 1, the meta page says 0.
In the pinned shape the schedule is not enabled (consume() is blocked on the write lock). -/
def microS19 : State := run Variant.fixed State.init [.create 0, .append 1, .append 1, .append 1, .consume 0]
def microSched19 : List Micro.MOp :=
  [.aLock 0 0, .aStore, .aLoadC, .cLoad 0, .cWake, .cLock, .cStore, .cPut, .aPut1, .aPut2]

theorem micro_ack_persist_unlocked_fails :
    (Micro.mrun Micro.Shape.pinned (Micro.MState.ofState microS19) microSched19).isNone = true ∧
    (Micro.mrun { ackPersistLocked := false } (Micro.MState.ofState microS19) microSched19).map
      (fun ms => (ms.quiet, ms.sh.grp 0)) = some (true, some ⟨1, 0, false⟩) ∧
    (Micro.mrun { ackPersistLocked := false } (Micro.MState.ofState microS19) microSched19).map
      (fun ms => (ms.sh.pg 0, ms.outs)) = some (some ⟨0, 0⟩, [(0, 1)]) := by decide

/-- shape of seeded change c08-17 seen from the queue (expiry loop testing `Pending() == 0`): group 1
has consumed everything but acknowledged only 3; the loop stops it; Sync then moves the queue ack to
11 and the re-created group comes back at (11, 11): sequences 4..11, never acknowledged by the
follower, are refused by Get. With the pinned test (`IsEmpty`) group 1 stays live at (11, 3) and the
queue ack stays 3. -/
theorem expire_on_pending_drops_unacked :
    let s := run Variant.fixed State.init ([.create 0, .create 1] ++ rep 12 (.append 1) ++ rep 12 (.consume 0) ++
      [.ack 0 11] ++ rep 12 (.consume 1) ++ [.ack 1 3])
    let bad := run Variant.fixed (s.expire Variant.fixed true) [.create 0, .sync, .create 1]
    let good := run Variant.fixed (s.expire Variant.fixed false) [.create 0, .sync, .create 1]
    bad.q.ack = 11 ∧ lookup bad.live 1 = some ⟨11, 11, false⟩ ∧ bad.q.get 4 = .outOfRange ∧
    good.q.ack = 3 ∧ lookup good.live 1 = some ⟨11, 3, false⟩ ∧ good.q.get 4 = .ok 1 := by decide

end Neg

/-! ## Round 10: between NotEmpty's return and the lock of consume() (Model/C06Woken.lean)

Realised on the code by the yield point `c06-consume-enter` (first line of `consume()`). -/

/-- `consume()` either hands out consumed+1 ≤ appended of the state it runs in, or changes nothing -/
theorem consumeInner_step (s : State) (g : Nat) (grp : Group) (hl : lookup s.live g = some grp) :
    (s.consumeInner g = (s, .val noSeq) ∧ ¬ grp.consumed + 1 ≤ s.q.appended) ∨
    (s.consumeInner g = (s.putGroup g { grp with consumed := grp.consumed + 1 }, .val (grp.consumed + 1)) ∧
      grp.consumed + 1 ≤ s.q.appended) := by
  unfold State.consumeInner
  rw [hl]
  by_cases hc : grp.consumed + 1 ≤ s.q.appended
  · right; simp [hc]
  · left; simp [hc]

/-- for a group that is not paused the inner method is the whole `Consume` -/
theorem consumeInner_eq_consume (s : State) (g : Nat) (grp : Group) (hl : lookup s.live g = some grp)
    (hp : grp.paused = false) : s.consumeInner g = s.consume g := by
  unfold State.consumeInner State.consume
  rw [hl]
  simp [hp]

/-- (2) for a `Consume` call that has passed `NotEmpty` and was overtaken by ANY operations of other
goroutines before it takes the lock (rewind, explicit resets, acks, Pause, puts — whatever the head it
computed and whatever `NotEmpty` saw): what it hands out is consumed+1 of the state it locks in, at
most the appended position; that becomes the consumed position and nothing else changes. -/
theorem woken_consume_step (v : Variant) (w : WState) (g : Nat) (n : Int)
    (h : (wstep v w (.wend g)).2 = .res (.res (.val n))) (hn : n ≠ noSeq) :
    ∃ grp, lookup w.ps.s.live g = some grp ∧ n = grp.consumed + 1 ∧ n ≤ w.ps.s.q.appended ∧
      (wstep v w (.wend g)).1.ps.s = w.ps.s.putGroup g { grp with consumed := n } := by
  unfold wstep at h ⊢
  by_cases hc : w.woken.contains g = true
  · simp only [hc, if_true] at h ⊢
    cases hl : lookup w.ps.s.live g with
    | none =>
      have : w.ps.s.consumeInner g = (w.ps.s, .noGroup) := by unfold State.consumeInner; rw [hl]
      rw [this] at h; cases h
    | some grp =>
      rcases consumeInner_step w.ps.s g grp hl with ⟨he, _⟩ | ⟨he, hle⟩
      · rw [he] at h; simp at h; exact absurd h.symm hn
      · rw [he] at h ⊢
        simp at h
        subst h
        exact ⟨grp, rfl, rfl, hle, rfl⟩
  · simp only [hc] at h
    cases h

/-- … and when it hands out nothing, nothing moved and nothing was available at that moment -/
theorem woken_consume_empty (v : Variant) (w : WState) (g : Nat) (grp : Group)
    (hl : lookup w.ps.s.live g = some grp) (hc : -1 ≤ grp.consumed)
    (h : (wstep v w (.wend g)).2 = .res (.res (.val noSeq))) :
    (wstep v w (.wend g)).1.ps.s = w.ps.s ∧ w.ps.s.q.appended < grp.consumed + 1 := by
  unfold wstep at h ⊢
  by_cases hw : w.woken.contains g = true
  · simp only [hw, if_true] at h ⊢
    rcases consumeInner_step w.ps.s g grp hl with ⟨he, hlt⟩ | ⟨he, hle⟩
    · rw [he]; exact ⟨rfl, by omega⟩
    · rw [he] at h; simp [noSeq] at h; omega
  · simp only [hw] at h
    cases h

/-- every step of a history with woken calls satisfies the guard on its embedded operation -/
def WValid (v : Variant) (G : State → Op → Prop) : WState → List WOp → Prop
  | _, [] => True
  | w, .p (.op o) :: os => G w.ps.s o ∧ WValid v G (wstep v w (.p (.op o))).1 os
  | w, o :: os => WValid v G (wstep v w o).1 os

theorem consumeInner_invariants (s : State) (hb : Base s) (ho : Order s) (ha : Above s) (g : Nat) :
    Base (s.consumeInner g).1 ∧ Order (s.consumeInner g).1 ∧ Above (s.consumeInner g).1 := by
  cases hl : lookup s.live g with
  | none =>
    have : s.consumeInner g = (s, .noGroup) := by unfold State.consumeInner; rw [hl]
    rw [this]; exact ⟨hb, ho, ha⟩
  | some grp =>
    rcases consumeInner_step s g grp hl with ⟨he, _⟩ | ⟨he, hle⟩
    · rw [he]; exact ⟨hb, ho, ha⟩
    · rw [he]
      have hord := Order.live hb ho g grp hl
      exact ⟨hb.putGroup g _, Order.putGroup ho g _ ⟨by show grp.ack ≤ grp.consumed + 1; omega, hle⟩,
        Above.putGroup ha g _ (ha g grp hl)⟩

/-- the invariants of clauses (1), (4), (5) survive every interleaving of three-step `Consume` calls
(parked in NotEmpty, or overtaken between NotEmpty and the lock — also by a Pause, which `consume()`
does not look at) with reset-free operations of other goroutines. -/
theorem woken_invariants (v : Variant) :
    ∀ (ops : List WOp) (w : WState), Base w.ps.s → Order w.ps.s → Above w.ps.s →
      WValid v (fun s o => o.okAt s ∧ (v.liftConsumed = true ∨ o.restoreOrderedAt s) ∧
        (v.freshAtQueueAck = true ∨ o.freshOkAt s)) w ops →
      Base (wrun v w ops).ps.s ∧ Order (wrun v w ops).ps.s ∧ Above (wrun v w ops).ps.s
  | [], _, hb, ho, ha, _ => ⟨hb, ho, ha⟩
  | .p (.op o) :: os, w, hb, ho, ha, hv => by
    have hstep : (wstep v w (.p (.op o))).1.ps.s = w.ps.s ∨ (wstep v w (.p (.op o))).1.ps.s = (step v w.ps.s o).1 := by
      simp only [wstep]; split
      · left; rfl
      · right; rfl
    rcases hstep with hs | hs
    · exact woken_invariants v os _ (hs ▸ hb) (hs ▸ ho) (hs ▸ ha) hv.2
    · exact woken_invariants v os _ (hs ▸ hb.step hv.1.1) (hs ▸ Order.step hb ho hv.1.1 hv.1.2.1)
        (hs ▸ Above.step hb ha hv.1.1 hv.1.2.2) hv.2
  | .p (.cbegin g) :: os, w, hb, ho, ha, hv => by
    have hs : (wstep v w (.p (.cbegin g))).1.ps.s = w.ps.s := by
      simp only [wstep]; split
      · rfl
      · show (pstep v w.ps (.cbegin g)).1.s = w.ps.s
        simp only [pstep]; split <;> rfl
    exact woken_invariants v os _ (hs ▸ hb) (hs ▸ ho) (hs ▸ ha) hv
  | .p (.cend g) :: os, w, hb, ho, ha, hv => by
    have hinv : Base (wstep v w (.p (.cend g))).1.ps.s ∧ Order (wstep v w (.p (.cend g))).1.ps.s ∧
        Above (wstep v w (.p (.cend g))).1.ps.s := by
      simp only [wstep]; split
      · exact ⟨hb, ho, ha⟩
      · exact parked_invariants v [.cend g] w.ps hb ho ha trivial
    exact woken_invariants v os _ hinv.1 hinv.2.1 hinv.2.2 hv
  | .wbegin g :: os, w, hb, ho, ha, hv => by
    have hs : (wstep v w (.wbegin g)).1.ps.s = w.ps.s := by
      simp only [wstep]; split
      · split <;> rfl
      · rfl
    exact woken_invariants v os _ (hs ▸ hb) (hs ▸ ho) (hs ▸ ha) hv
  | .wend g :: os, w, hb, ho, ha, hv => by
    have hinv : Base (wstep v w (.wend g)).1.ps.s ∧ Order (wstep v w (.wend g)).1.ps.s ∧
        Above (wstep v w (.wend g)).1.ps.s := by
      simp only [wstep]; split
      · exact consumeInner_invariants w.ps.s hb ho ha g
      · exact ⟨hb, ho, ha⟩
    exact woken_invariants v os _ hinv.1 hinv.2.1 hinv.2.2 hv

/-- non-vacuity, and the shapes the yield point realises: overtaken by a rewind the call hands out
rewind+1 (not the head 11 it computed); overtaken by a backwards index reset it returns "nothing
available" without blocking; overtaken by a Pause it still hands out the next sequence. -/
example :
    let pre : List WOp := [.p (.op (.create 0))] ++ (List.replicate 12 (.p (.op (.append 1)))) ++
      (List.replicate 10 (.p (.op (.consume 0)))) ++ [.p (.op (.ack 0 2)), .wbegin 0]
    (wstep Variant.fixed (wrun Variant.fixed WState.init (pre ++ [.p (.op (.setConsumed 0 3))])) (.wend 0)).2 = .res (.res (.val 4)) ∧
    (wstep Variant.fixed (wrun Variant.fixed WState.init (pre ++ [.p (.op (.setAppended 6))])) (.wend 0)).2 = .res (.res (.val (-1))) ∧
    (wstep Variant.fixed (wrun Variant.fixed WState.init (pre ++ [.p (.op (.pause 0))])) (.wend 0)).2 = .res (.res (.val 10)) ∧
    (wstep Variant.fixed (wrun Variant.fixed WState.init pre) (.p (.op (.stop 0)))).2 = .notEnabled := by decide

/-! ## Round 10: the msync windows of Ack and of queue.SetAcknowledgedSeq (Model/C06Msync.lean) -/

open LinVerif.FanOut.Msync in
/-- The msync shape of the current source, computed from the regenerated access tables: `Ack` does
not store to `acknowledgedSeq` after its msync (a failure is only logged), `queue.SetAcknowledgedSeq`
reads, stores, writes the page and msyncs under `rwMutex.Lock` in that order, and so does
`queue.SetAppendedSeq`. -/
theorem msync_shape_tie :
    Msync.shapeOf Generated.C06.ackAccess Generated.C06.queueSetAckAccess = Msync.Shape.pinned ∧
    Generated.C06.queueSetAckAccess = [("R", "acknowledgedSeq", "rwMutex.Lock"), ("R", "appendedSeq", "rwMutex.Lock"),
      ("W", "acknowledgedSeq", "rwMutex.Lock"), ("W", "metaPage", "rwMutex.Lock"), ("C", "msync", "rwMutex.Lock")] ∧
    Generated.C06.queueSetAppendedAccess = [("W", "appendedSeq", "rwMutex.Lock"), ("W", "acknowledgedSeq", "rwMutex.Lock"),
      ("R", "appendedSeq", "rwMutex.Lock"), ("W", "metaPage", "rwMutex.Lock"), ("R", "acknowledgedSeq", "rwMutex.Lock"),
      ("W", "metaPage", "rwMutex.Lock"), ("C", "msync", "rwMutex.Lock")] := by decide

open LinVerif.FanOut.Msync in
/-- An Ack whose msync is in flight — its new position already visible to Sync and GC — while ANY
enabled operations of other goroutines run (Sync, GC, appends, other groups, creates; any number),
and whose msync then returns WITH OR WITHOUT an error: the state is that of the history with the Ack as
one step at its Store. Full strength over the operations in between; pinned shape (no roll-back). -/
theorem ack_msync_linearizes (v : Variant) (s : State) (g : Nat) (n : Int) (failed : Bool) (mids : List Op) (a' : AState)
    (h : arun Shape.pinned v { s := s, inflight := none } (AOp.ackBegin g n :: (mids.map AOp.op ++ [AOp.ackEnd failed])) = some a') :
    a'.s = run v s (Op.ack g n :: mids) ∧ a'.inflight = none :=
  ack_linearizes Shape.pinned rfl v s g n failed mids a' h

open LinVerif.FanOut.Msync in
/-- … therefore every clause survives it: from a state satisfying the sequential invariants, after the
Ack, any reset-free operations during its msync, and the (possibly failed) return, the queue ack is at
or below every live group's ack, every group is ordered, and every meta page holds the in-memory
positions — a position Sync has seen is never taken back. -/
theorem ack_msync_invariants (v : Variant) (hl : v.liftConsumed = true) (hf : v.freshAtQueueAck = true)
    (s : State) (hb : Base s) (ho : Order s) (ha : Above s) (g : Nat) (n : Int) (failed : Bool) (mids : List Op)
    (hv : Valid v (fun s o => o.okAt s) s (Op.ack g n :: mids)) (a' : AState)
    (h : arun Shape.pinned v { s := s, inflight := none } (AOp.ackBegin g n :: (mids.map AOp.op ++ [AOp.ackEnd failed])) = some a') :
    Base a'.s ∧ Order a'.s ∧ Above a'.s := by
  rw [(ack_msync_linearizes v s g n failed mids a' h).1]
  exact inv_run (I := fun s => Base s ∧ Order s ∧ Above s)
    (fun s o hi ok => ⟨hi.1.step ok, Order.step hi.1 hi.2.1 ok (Or.inl hl), Above.step hi.1 hi.2.2 ok (Or.inl hf)⟩)
    _ s ⟨hb, ho, ha⟩ hv

open LinVerif.FanOut.Msync in
/-- queue.SetAcknowledgedSeq in the locked shape, ANY number of concurrent callers (Sync from several
goroutines) interleaved with index resets and puts, every enabled schedule: the queue ack never
exceeds the appended position, moves only forward along reset-free schedules, and whenever the lock
is free the meta page holds it. -/
theorem set_ack_locked_safe (app ack : Int) (h0 : ack ≤ app) (ops : List QOp) (q' : QState)
    (h : qrun Shape.pinned (QState.start app ack) ops = some q') :
    q'.sh.qack ≤ q'.sh.appended ∧ (q'.lock = none → q'.sh.mAck = q'.sh.qack) ∧
    ((∀ o ∈ ops, ∀ n, o ≠ QOp.reset n) → ack ≤ q'.sh.qack) := by
  obtain ⟨hi, hm⟩ := QInvL.run (sp := Shape.pinned) rfl ops _ q' (QInvL.start app ack h0) h
  exact ⟨hi.le, fun hl => (hi.free hl).1, hm⟩

namespace Neg
open LinVerif.FanOut.Msync

/-- the shape of seeded change c06-17 -/
def rollbackShape : Shape := { ackRollsBack := true, setAckLocked := true }
/-- the shape of seeded change c06-3 -/
def unlockedShape : Shape := { ackRollsBack := false, setAckLocked := false }

/-- two groups, twelve messages, both consumed 0..7; group 1 acknowledged 7, group 0 acknowledged 2 -/
def msyncS0 : State := run Variant.fixed State.init ([.create 0, .create 1] ++ rep 12 (.append 1) ++ rep 8 (.consume 0) ++
  rep 8 (.consume 1) ++ [.ack 1 7, .ack 0 2, .sync])

/-- Roll-back shape: Ack(6) of group 0 publishes 6, Sync moves the queue ack to 6, GC runs, the
msync fails, the position is taken back to 2: the queue ack 6 is beyond the group's ack 2 and the
message 3 the group has not acknowledged is out of range. The same schedule in the pinned shape ends
with the group at 6. -/
theorem ack_rollback_after_failed_msync_fails :
    ((arun rollbackShape Variant.fixed { s := msyncS0, inflight := none } [.ackBegin 0 6, .op .sync, .op .gc, .ackEnd true]).map
      (fun a => (a.s.q.ack, (lookup a.s.live 0).map (·.ack), a.s.q.get 3)) : Option (Int × Option Int × GetRes)) =
      some (6, some 2, GetRes.outOfRange) ∧
    ((arun Shape.pinned Variant.fixed { s := msyncS0, inflight := none } [.ackBegin 0 6, .op .sync, .op .gc, .ackEnd true]).map
      (fun a => (a.s.q.ack, (lookup a.s.live 0).map (·.ack))) : Option (Int × Option Int)) = some (6, some 6) := by decide

/-- Unlocked shape, two Syncs: caller 0 passes the guard with 5 and sits in its msync, caller 1
moves the queue ack to 8, caller 0 publishes 5: the queue ack moved BACKWARDS (8 → 5) with the meta
page at 8. Not enabled in the pinned shape (caller 1 waits for the lock). -/
theorem set_ack_unlocked_moves_back :
    ((qrun unlockedShape (QState.start 12 3) [.enter 0 5, .persist 0, .enter 1 8, .persist 1, .publish 1]).map (·.sh) : Option QSh) =
      some { appended := 12, qack := 8, mAck := 8 } ∧
    ((qrun unlockedShape (QState.start 12 3) [.enter 0 5, .persist 0, .enter 1 8, .persist 1, .publish 1, .publish 0]).map (·.sh) : Option QSh) =
      some { appended := 12, qack := 5, mAck := 8 } ∧
    ((qrun Shape.pinned (QState.start 12 3) [.enter 0 5, .enter 1 8]).map (·.sh) : Option QSh) = none := by decide

/-- Unlocked shape, Sync ‖ index reset: the guard passes with 8, the reset puts the queue to (3, 3),
the delayed publish leaves the queue ack 8 above the appended position 3. -/
theorem set_ack_unlocked_above_appended :
    ((qrun unlockedShape (QState.start 12 3) [.enter 0 8, .persist 0, .reset 3, .publish 0]).map (·.sh) : Option QSh) =
      some { appended := 3, qack := 8, mAck := 3 } ∧
    ((qrun Shape.pinned (QState.start 12 3) [.enter 0 8, .reset 3]).map (·.sh) : Option QSh) = none := by decide

end Neg

/-! ## observations outside the statement -/
namespace Obs

/-- inside an explicit index reset (outside clause (1) and the queue-ack clause as stated — at the
moment Sync moves the queue ack it IS at the minimum of the groups' acks): Sync has scanned the groups
(candidate 8), `FanOutQueue.SetAppendedSeq 2` resets the queue to (2, 2), ten Puts arrive, Sync's final
`SetAcknowledgedSeq 8` now passes its guard (8 > 2, 8 ≤ 12), then the groups are reset to (2, 2):
the queue ack ends at 8 above every group's ack 2. Needs Puts racing the reset; both methods only
read-lock `lock4map` (`access_tie`). Not reported as a finding. -/
def resetS0 : State := run Variant.fixed State.init ([.create 0, .create 1] ++ rep 11 (.append 1) ++ rep 11 (.consume 0) ++
  rep 11 (.consume 1) ++ [.ack 0 8, .ack 1 9])
def resetSched : List Micro.MOp := [.sLock, .sVisit 1, .sVisit 0, .rQueue 2] ++ List.replicate 10 .put ++
  [.sSet, .rSeq1 0, .rSeq2, .rSeq1 1, .rSeq2, .rUnlock]

theorem index_reset_races_sync :
    ((Micro.mrun Micro.Shape.pinned (Micro.MState.ofState resetS0) resetSched).map
      (fun ms => (ms.quiet, ms.sh.qack, ms.sh.appended, ms.sh.grp 0, ms.sh.grp 1)) :
        Option (Bool × Int × Int × Option Group × Option Group)) =
      some (true, 8, 12, some ⟨2, 2, false⟩, some ⟨2, 2, false⟩) := by decide

end Obs

end LinVerif.Props.C06
