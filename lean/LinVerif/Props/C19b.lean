/-
C19, round 9 — deadlines, `Submit`'s random select, and who owns which error-tolerance decision.
Same namespace as Props/C19.lean.

  deadline_*                  a root request (query/search.go exec → WaitResponse) whose context passes its
                              deadline while leaf tasks are still running: for EVERY event list (responses in
                              any order, before / after the deadline, accepted or dropped by the receive pool's
                              select, both cases of WaitResponse's select) `exec` returns at most once, a
                              successful return has seen every expected response and no error (never a partial
                              answer), a timeout return needs the deadline, the return is always possible once
                              the deadline has passed, late responses are dropped or handled harmlessly, and
                              `doneCh` is closed at most once.
  select_choice_*             `workerPool.Submit` with a done context and free queue capacity picks either case:
                              for EVERY resolution of every tree with such stages, every schedule: exactly one
                              completion, carrying an error if a stage failed or was rejected.
  plan_exec_*                 `baseStage.execute`: nil iff every node that ran was ok or (not-found ∧ built with
                              NewPlanNodeWithIgnore); a returned error is the failing node's own.
  tie_errorToleranceSites     every error-tolerance site of the query packages (regenerated) has an owner.
-/
import LinVerif.Props.C19
import LinVerif.Lemmas.C19Deadline
import LinVerif.Model.C19Either
import LinVerif.Model.C19PlanExec
import LinVerif.Generated.C19b

namespace LinVerif.Props.C19
open LinVerif.Pipeline

/-! ## (c) the request deadline on the broker / root -/

section deadline
open LinVerif.C19Deadline LinVerif.BrokerMeta

/-- **deadline_return_at_most_once.** Whatever arrives and whenever the deadline passes, `exec`
returns at most once: one response per request, never two. -/
theorem deadline_return_at_most_once (n : Nat) (sf : Bool) (es : List Ev) (q : Req)
    (h : run false (C19Deadline.init n sf) es = some q) : q.returned.length ≤ 1 :=
  (inv_run es _ q (inv_init n sf) h).retLen

/-- **deadline_no_partial_success.** If the request returns successfully, then — at the moment of
the return — at least the `n` expected responses had been handled, none of them was a real error or
undecodable, no request had failed to be sent, and the returned values are exactly the values of the
responses handled so far. A deadline (or anything else) never turns the answers of SOME nodes into a
successful result. An error return has an error to show; a timeout return needs the deadline. -/
theorem deadline_no_partial_success (n : Nat) (sf : Bool) (es : List Ev) (q : Req)
    (h : run false (C19Deadline.init n sf) es = some q) :
    (∀ vs, q.returned = [.ok vs] →
        sf = false ∧ n ≤ q.handledAtReturn ∧ q.handledAtReturn ≤ q.handled.length ∧
        (∀ r ∈ q.handled.take q.handledAtReturn, r.isErr = false) ∧
        vs = (q.handled.take q.handledAtReturn).flatMap Resp.vals) ∧
    (q.returned = [.err] → (sf || (q.handled.take q.handledAtReturn).any Resp.isErr) = true) ∧
    (q.returned = [.timeout] → q.ctxDone = true) := by
  have hi := inv_run es _ q (inv_init n sf) h
  refine ⟨fun vs hv => ?_, fun hv => ?_, fun hv => ?_⟩
  · have := hi.ret (.ok vs) (by rw [hv]; simp)
    exact ⟨this.1, this.2.1, hi.atRet, this.2.2.1, this.2.2.2⟩
  · exact hi.ret .err (by rw [hv]; simp)
  · exact hi.ret .timeout (by rw [hv]; simp)

/-- **deadline_can_always_return.** "Never none": as long as `exec` has not returned, its task is
registered, and as soon as the deadline has passed (or `doneCh` is closed) the return is enabled —
no sequence of responses, dropped or handled, can take that away. -/
theorem deadline_can_always_return (n : Nat) (sf : Bool) (es : List Ev) (q : Req)
    (h : run false (C19Deadline.init n sf) es = some q) (hr : q.returned = [])
    (hd : q.ctxDone = true ∨ q.ctx.completed = true) :
    ∃ v q', step false q (.wake v) = some q' ∧ q'.returned.length = 1 ∧
      (v = false → q'.returned = [.timeout]) := by
  have hi := inv_run es _ q (inv_init n sf) h
  have hreg := hi.reg hr
  rcases hd with hd | hd
  · have hs : step false q (.wake false) =
        some { q with returned := [.timeout], handledAtReturn := q.handled.length } := by
      simp [step, hr, hreg, hd]
    exact ⟨false, _, hs, by simp, fun _ => rfl⟩
  · have hs : step false q (.wake true) =
        some { q with returned := [if q.ctx.err then Ret.err else Ret.ok q.ctx.results],
                      handledAtReturn := q.handled.length } := by
      simp [step, hr, hreg, hd]
    exact ⟨true, _, hs, by simp, fun hv => by cases hv⟩

/-- **deadline_return_frozen.** After the return nothing changes the answer: responses still in
flight are handled on a context nobody waits for, later ones are dropped. -/
theorem deadline_return_frozen (es : List Ev) (q q' : Req) (x : Ret) (hx : q.returned = [x])
    (h : run false q es = some q') : q'.returned = [x] :=
  returned_frozen es q q' x hx h

/-- **deadline_late_responses_dropped.** Once `exec` has removed its task, `Receive` finds nothing:
the response is dropped, the context and the answer stay as they are. -/
theorem deadline_late_responses_dropped (q : Req) (hreg : q.registered = false) (r : Resp) (a : Bool) :
    step false q (.resp r a) = some { q with dropped := q.dropped + 1 } := by
  simp [step, hreg]

/-- **deadline_done_closed_at_most_once.** `doneCh` is closed at most once in every run — also when
responses are handled after the return, after the deadline, or more often than expected (a second
`close` would panic). -/
theorem deadline_done_closed_at_most_once (n : Nat) (sf : Bool) (es : List Ev) (q : Req)
    (h : run false (C19Deadline.init n sf) es = some q) : q.ctx.closes ≤ 1 := by
  have hi := inv_run es _ q (inv_init n sf) h
  rw [hi.closes]; split <;> simp

/-- non-vacuity and the outcome SET of `WaitResponse`'s select: two nodes answered, the deadline has
passed — both cases are enabled; one returns the complete result, the other the timeout error -/
example :
    (run false (C19Deadline.init 2 false) [.resp (.ok ["a"]) true, .resp (.ok ["b"]) true, .deadline, .wake true]).map
        (·.returned) = some [.ok ["a", "b"]] ∧
    (run false (C19Deadline.init 2 false) [.resp (.ok ["a"]) true, .resp (.ok ["b"]) true, .deadline, .wake false]).map
        (·.returned) = some [.timeout] := by decide

/-- the deadline passes after one of two answers: the only possible return is the timeout error; the
late answer is then dropped (task removed) or — in flight — handled without any effect on the answer -/
example :
    (run false (C19Deadline.init 2 false) [.resp (.ok ["a"]) true, .deadline, .wake true]) = none ∧
    (run false (C19Deadline.init 2 false)
        [.resp (.ok ["a"]) true, .deadline, .wake false, .resp (.ok ["b"]) true, .unregister, .resp (.ok ["b"]) true]).map
        (fun q => (q.returned, q.dropped, q.ctx.closes)) = some ([.timeout], 1, 1) := by decide

end deadline

namespace Neg
open LinVerif.C19Deadline LinVerif.BrokerMeta

/-- if the metadata context tolerated a node's `ErrMsg` (the seeded shape c19-14), a request could
return the healthy node's values as a success although one node had failed — before or after a
deadline -/
theorem partial_success_if_errmsg_tolerated :
    (run true (C19Deadline.init 2 false) [.resp (.ok ["a"]) true, .resp .err true, .wake true]).map (·.returned)
      = some [.ok ["a"]] := by decide

end Neg

/-! ## (a) `Submit`'s random select: every resolution completes exactly once -/

mutual
theorem resolveAll_mem (b : Bool) : ∀ p : PStage, p.resolveAll b ∈ p.resolutions
  | .mk r pp o cs => by
    simp only [PStage.resolveAll, PStage.resolutions, List.mem_flatMap, List.mem_map]
    refine ⟨_, ?_, resolveAllL b cs, resolveAllL_mem b cs, rfl⟩
    cases r with
    | fixed r => simp [PRun.choices]
    | either => cases b <;> simp [PRun.choices]
theorem resolveAllL_mem (b : Bool) : ∀ cs : List PStage, resolveAllL b cs ∈ resolutionsL cs
  | [] => by simp [resolveAllL, resolutionsL]
  | c :: cs => by
    simp only [resolveAllL, resolutionsL, List.mem_flatMap, List.mem_map]
    exact ⟨_, resolveAll_mem b c, _, resolveAllL_mem b cs, rfl⟩
end

/-- **select_choice_exactly_once.** A stage tree in which any number of pooled stages are submitted
with a done context while the queue has room (`either`): whichever case each `select` takes
(EVERY resolution), for every schedule, the pipeline completes exactly once, after every started
stage has finished, and (`first`) with an error whenever a stage failed, panicked or was rejected.
(Source as it is: `stageRecover` and `rejectNotifies`.) -/
theorem select_choice_exactly_once (p : PStage) (root : Stage) (_hres : root ∈ p.resolutions)
    (s : State) (hr : Reachable ⟨.first, true, true⟩ (init root) s) (ht : Terminal s) :
    ∃ f, s.sh.fired = [f] ∧ f.finished = s.sh.registered ∧ f.registered = s.sh.registered ∧
      s.sh.pending = 0 ∧ (f.failedBefore = true → f.arg = true) := by
  obtain ⟨f, hf, h1, h2, _, h4⟩ := completion_under_rejection .first root s hr ht
  exact ⟨f, hf, h1, h2, h4, error_carried true true root s hr f (by rw [hf]; simp)⟩

/-- the outcome set is not a singleton (non-vacuity of `either`) and both members are resolutions -/
theorem select_choice_resolutions_exist (p : PStage) :
    p.resolveAll true ∈ p.resolutions ∧ p.resolveAll false ∈ p.resolutions :=
  ⟨resolveAll_mem true p, resolveAll_mem false p⟩

/-- one `Submit` with a cancelled context and free capacity: both cases are enabled; one rejects the
task (handler called once, never executed), the other queues it (executed once, never rejected) -/
theorem select_outcome_set :
    (PoolSubmit.run false PoolSubmit.init [.cancel, .submitCheck, .submitCtx, .stop]).map
        (fun s => (s.rejected, s.executed, s.queued)) = some (1, 0, false) ∧
    (PoolSubmit.run false PoolSubmit.init [.cancel, .submitCheck, .submitSend, .consume]).map
        (fun s => (s.rejected, s.executed, s.queued)) = some (0, 1, false) := by decide

namespace Neg

/-- `So(Eo)`: the sync root's pooled child is submitted with a done context -/
def treeE : PStage := .mk (.fixed .inline) false .ok [.mk .either false .ok []]

/-- the two resolutions of `treeE` end differently — one callback each, `nil` when the select took the
queue, the context's error when it took `ctx.Done()`: the harness must accept either -/
theorem select_choice_outcomes_differ :
    treeE.resolutions.length = 2 ∧
    outcome ⟨.first, true, true⟩ (treeE.resolveAll true) (List.replicate 9 0 ++ List.replicate 5 1)
      = some ([⟨false, false, false, 2, 2⟩], 0, true) ∧
    outcome ⟨.first, true, true⟩ (treeE.resolveAll false) (List.replicate 13 0)
      = some ([⟨true, false, true, 2, 2⟩], 0, true) := by decide

end Neg

/-! ## (b) the tolerance decision of `baseStage.execute` -/

section planexec
open LinVerif.C19PlanExec

/-- a node's failure the stage may swallow: ok, or not-found on a node built to ignore it -/
def Tolerable (m : PNode) : Prop := m.res = .ok ∨ (m.res = .notFound ∧ m.ignore = true)

/-- a failure that must surface -/
def MustSurface (m : PNode) : Prop := m.res = .err ∨ (m.res = .notFound ∧ m.ignore = false)

def ExecSpec (r : List PNode × Option PNode) : Prop :=
  (r.2 = none → ∀ m ∈ r.1, Tolerable m) ∧ (∀ m, r.2 = some m → m ∈ r.1 ∧ MustSurface m)

mutual
theorem exec_spec : ∀ n : PNode, ExecSpec (exec asIs n)
  | .mk i g r cs => by
    cases r with
    | ok =>
      have ih := execL_spec cs
      rcases h : execL asIs cs with ⟨ran, e⟩
      rw [h] at ih
      simp only [exec, h]
      refine ⟨fun he m hm => ?_, fun m he => ?_⟩
      · rcases List.mem_cons.mp hm with hm | hm
        · subst hm; exact Or.inl rfl
        · exact ih.1 he m hm
      · have := ih.2 m he
        exact ⟨List.mem_cons_of_mem _ this.1, this.2⟩
    | notFound =>
      cases g <;> simp [ExecSpec, exec, tolerated, asIs, PNode.ignore, PNode.res, Tolerable, MustSurface]
    | err =>
      cases g <;> simp [ExecSpec, exec, tolerated, asIs, PNode.ignore, PNode.res, Tolerable, MustSurface]
theorem execL_spec : ∀ cs : List PNode, ExecSpec (execL asIs cs)
  | [] => by simp [execL, ExecSpec]
  | c :: cs => by
    have ihc := exec_spec c
    rcases hc : exec asIs c with ⟨ran, e⟩
    rw [hc] at ihc
    cases e with
    | some e => simpa only [execL, hc] using ihc
    | none =>
      have ih := execL_spec cs
      rcases h : execL asIs cs with ⟨ran', e'⟩
      rw [h] at ih
      simp only [execL, hc, h]
      refine ⟨fun he m hm => ?_, fun m he => ?_⟩
      · rcases List.mem_append.mp hm with hm | hm
        · exact ihc.1 rfl m hm
        · exact ih.1 he m hm
      · have := ih.2 m he
        exact ⟨List.mem_append_right _ this.1, this.2⟩
end

/-- **plan_exec_nil_means_tolerable.** If `baseStage.execute` returns nil for a plan-node tree, every
node whose operator ran either succeeded or failed with not-found on a node built with
`NewPlanNodeWithIgnore`: a real error of any operator, and a not-found of a node that does not
ignore it, always fail the stage (and with it, by `error_carried`, the request). -/
theorem plan_exec_nil_means_tolerable (n : PNode) (h : (exec asIs n).2 = none) :
    ∀ m ∈ (exec asIs n).1, Tolerable m := (exec_spec n).1 h

/-- **plan_exec_error_is_real.** An error returned by `baseStage.execute` is the error of a node that
ran and whose failure must surface. -/
theorem plan_exec_error_is_real (n m : PNode) (h : (exec asIs n).2 = some m) :
    m ∈ (exec asIs n).1 ∧ MustSurface m := (exec_spec n).2 m h

end planexec

namespace Neg
open LinVerif.C19PlanExec

/-- without the `errors.Is(err, ErrNotFound)` half of the condition an ignoring node swallows a real
read error (the stage succeeds with that shard's data missing) … -/
theorem real_error_swallowed_without_notfound_test :
    (exec ⟨true, false⟩ (.mk 0 false .ok [.mk 1 true .err [], .mk 2 true .ok []])).2 = none := by decide

/-- … and without the `IgnoreNotFound()` half a not-found of the metadata lookup (unknown metric) would
be answered as an empty success -/
theorem notfound_swallowed_without_node_test :
    (exec ⟨false, true⟩ (.mk 0 false .notFound [])).2 = none := by decide

/-- the source as it is on the same inputs -/
theorem as_is_surfaces_both :
    ((exec asIs (.mk 0 false .ok [.mk 1 true .err [], .mk 2 true .ok []])).2.map PNode.id = some 1) ∧
    ((exec asIs (.mk 0 false .notFound [])).2.map PNode.id = some 0) ∧
    -- a tolerated not-found ends the node's subtree silently, the siblings still run
    ((exec asIs (.mk 0 false .ok [.mk 1 true .notFound [.mk 2 false .err []], .mk 3 true .ok []])).1.map PNode.id = [0, 1, 3]) := by
  decide

end Neg

/-! ## ties -/

theorem tie_baseStageExecuteTree :
    Generated.C19b.baseStageExecuteTreeSteps =
      C19PlanExec.baseStageExecuteTreeOrder ⟨Generated.C19b.toleranceAsksNode, Generated.C19b.toleranceAsksNotFound⟩ := by
  decide

/-- the tolerance condition is the one the theorems are about -/
theorem tie_toleranceCondition :
    (⟨Generated.C19b.toleranceAsksNode, Generated.C19b.toleranceAsksNotFound⟩ : C19PlanExec.Tol) = C19PlanExec.asIs := by
  decide

theorem tie_metadataWaitResponse :
    Generated.C19b.metadataWaitResponseSteps = C19Deadline.metadataWaitResponseOrder := by decide

theorem tie_metricWaitResponse :
    Generated.C19b.metricWaitResponseSteps = C19Deadline.metricWaitResponseOrder := by decide

theorem tie_receive : Generated.C19b.receiveSteps = C19Deadline.receiveOrder := by decide

theorem tie_exec : Generated.C19b.execSteps = C19Deadline.execOrder := by decide

/-- what `completeStage` calls on the stage inside its critical section OUTSIDE the recover: `Stats()`
and `IsAsync()`. A panic there would leave `sm.mutex` locked exactly like the unguarded `Complete()`
hook did (`Neg.complete_hook_panic_deadlocks`, Model/CompleteLock.lean with `guarded = false`). They
cannot panic in this source: no stage type overrides them, and `baseStage`'s are a field read
(`return stage.operators`) and a nil comparison (`tie_baseStageIsAsync`). A stage type that declares
its own `Stats()`/`IsAsync()`, or a third direct call, re-opens this obligation. -/
theorem tie_completeStageDirectStageCalls :
    Generated.C19b.completeStageDirectStageCalls = ["Stats", "IsAsync"] ∧
    Generated.C19b.stageStatsOverrides = [] ∧
    Generated.C19b.baseStageStatsSteps = ["return stage.operators"] := by decide

/-- … and what it would mean (the lock model with an unguarded call between Lock and Unlock): for
every number of stages, if one such call panics there is a run that ends with the mutex leaked, no
callback and `pending > 0` -/
theorem unguarded_stage_call_panic_deadlocks (n m : Nat) (hm : 0 < m) :
    ∃ s, CompleteLock.Reachable false (CompleteLock.init n m) s ∧ CompleteLock.Stuck false s ∧
      s.holder = .leaked ∧ s.fired = 0 ∧ 0 < s.pending :=
  Neg.complete_hook_panic_deadlocks n m hm

/-! ### every error-tolerance decision has an owner -/

/-- a site of `errorToleranceSites` and the theorem(s) that bound what it may tolerate -/
structure ToleranceOwner where
  site : String
  check : String
  theorems : List String

def toleranceOwners : List ToleranceOwner := [
  ⟨"query/leaf_processor.go:processMetadataSuggest:errors.Is(constants.ErrNotFound)", "C19",
    ["response_exactly_once (tolerated)", "tie_leafProcessMetadataSuggest", "broker_meta_error_iff (not found = payload without values)"]⟩,
  ⟨"query/pipeline.go:Execute:recover()", "C19", ["completion_under_panic", "tie_pipelineExecute"]⟩,
  ⟨"query/pipeline.go:executeStage:recover()", "C19", ["completion_under_panic", "error_carried", "tie_pipelineExecuteStage"]⟩,
  ⟨"query/pipeline_state_matchine.go:safeComplete:recover()", "C19", ["complete_hook_guarded_completes", "tie_safeComplete"]⟩,
  ⟨"query/context/intermediate_metric_context.go:MakePlan:discard(ctx.statement.MarshalJSON)", "C12", ["(marshal of an in-memory statement; not an answer path)"]⟩,
  ⟨"query/context/intermediate_metric_context.go:makeTaskResponse:discard(seriesList.Marshal)", "C12", ["layout_independence"]⟩,
  ⟨"query/context/leaf_reduce_context.go:BuildResultSet:discard(leaf2RootSeries.Marshal)", "C12", ["partition_invariance_partial"]⟩,
  ⟨"query/context/leaf_reduce_context.go:BuildResultSet:discard(leaf2IntermediateSeries.Marshal)", "C12", ["partition_invariance_partial"]⟩,
  ⟨"query/context/metadata_context.go:MakePlan:discard(ctx.Deps.Statement.MarshalJSON)", "C19", ["broker_meta_send_failure (the plan's other failures)"]⟩,
  ⟨"query/context/metric_context.go:checkError:strings.Contains(errMsg, \"not found\")", "C12",
    ["notfound_tolerance", "all_notfound_is_error", "failure_is_error", "generated_checkError"]⟩,
  ⟨"query/context/metric_context.go:checkError:tolerantNotFounds×2", "C12", ["notfound_tolerance", "all_notfound_is_error", "generated_checkError"]⟩,
  ⟨"query/context/metric_context.go:handleStats:discard(encoding.JSONUnmarshal)", "C12", ["(explain statistics only; generated_handleResponse_steps)"]⟩,
  ⟨"query/context/root_metric_context.go:MakePlan:discard(ctx.Deps.Statement.MarshalJSON)", "C12", ["(marshal of an in-memory statement)"]⟩,
  ⟨"query/context/task_context.go:addRequests:tolerantNotFounds", "C12", ["all_notfound_is_error"]⟩,
  ⟨"query/stage/base_stage.go:execute:IgnoreNotFound()", "C19", ["plan_exec_nil_means_tolerable", "plan_exec_error_is_real", "tie_toleranceCondition"]⟩,
  ⟨"query/stage/base_stage.go:execute:errors.Is(constants.ErrNotFound)", "C19", ["plan_exec_nil_means_tolerable", "plan_exec_error_is_real", "tie_toleranceCondition"]⟩,
  ⟨"query/stage/shard_lookup_stage.go:Plan:ignore-node(operator.NewSeriesFiltering)", "C19", ["plan_exec_nil_means_tolerable"]⟩,
  ⟨"query/stage/shard_scan_stage.go:Plan:ignore-node(operator.NewSeriesFiltering)", "C19", ["plan_exec_nil_means_tolerable"]⟩,
  ⟨"query/stage/shard_scan_stage.go:Plan:ignore-node(operator.NewMetricAllSeries)", "C19", ["plan_exec_nil_means_tolerable"]⟩,
  ⟨"query/stage/shard_scan_stage.go:Plan:ignore-node(operator.NewDataFamilyRead)", "C19", ["plan_exec_nil_means_tolerable"]⟩,
  ⟨"query/stage/shard_scan_stage.go:Plan:ignore-node(operator.NewGroupingContextBuild)", "C19", ["plan_exec_nil_means_tolerable"]⟩,
  ⟨"query/stage/shard_scan_stage.go:Plan:ignore-node(operator.NewSeriesLimit)", "C19", ["plan_exec_nil_means_tolerable"]⟩,
  ⟨"internal/concurrent/pool.go:execTask:recover()", "C19", ["completion_under_panic", "tie_execTask"]⟩]

/-- **tie_errorToleranceSites.** The regenerated list of error-tolerance sites is exactly the list of
owned sites: a new `errors.Is`, a new string test on an error message, a new ignoring plan node, a
new `recover()`, a new discarded result anywhere in the query packages is a named open obligation
until somebody (C19 or C12) owns it. The metadata broker context has NO site: it tolerates nothing
(`tie_metadataNoErrMsgTolerance`, `broker_meta_error_iff`). -/
theorem tie_errorToleranceSites :
    Generated.C19b.errorToleranceSites = toleranceOwners.map (·.site) := by decide

/-- every site has an owner with at least one theorem, and only C19 / C12 own sites -/
theorem tolerance_owners_complete :
    toleranceOwners.all (fun o => (o.check = "C19" || o.check = "C12") && !o.theorems.isEmpty) = true := by
  decide

-- the C19-owned statements exist under these names (compile-time check)
example := @plan_exec_nil_means_tolerable
example := @plan_exec_error_is_real
example := @response_exactly_once
example := @broker_meta_error_iff
example := @broker_meta_send_failure
example := @completion_under_panic
example := @error_carried
example := @complete_hook_guarded_completes
example := @tie_leafProcessMetadataSuggest
example := @tie_pipelineExecute
example := @tie_pipelineExecuteStage
example := @tie_safeComplete
example := @tie_execTask

end LinVerif.Props.C19
