/-
C19, round 12 — the worker pool's queue between `Submit` and the execution of a task, for any
number of concurrently submitted tasks (Model/C19PoolQueue.lean). Same namespace as Props/C19.lean.

  pool_queue_completes_at_most_once   whatever the closure does, whatever the interleaving: the handlers of
                                      a task complete its stage at most once, and exactly when the task was
                                      executed or rejected.
  pool_queue_every_task_completes     source as it is (the closure is `execFn()` only): when nothing of the
                                      pool can move any more (and the pool's consumers are alive), EVERY
                                      submitted task has completed its stage exactly once — whether its
                                      context was cancelled before the Submit, while the Submit was blocked on
                                      the full channel, while the task waited in the channel or while a
                                      worker held it; whether the pool was stopped; for every channel
                                      capacity ≥ 1 and every number of consumers ≥ 1.
  pool_queue_progress_terminates /    the pool's own steps run only boundedly often from any reachable state and
  pool_queue_reaches_stuck            some run of them reaches a state where nothing can move (maximal runs exist).
  pool_queue_refines_launch           each task at rest resolves to exactly one `Run` of the stage-tree model.
  Neg.queued_task_lost_if_closure_checks_ctx
                                      the closure returning early on a done context (seeded c19-25's shape):
                                      a task accepted by the pool and cancelled while queued never completes
                                      its stage, whatever happens afterwards.
  Neg.task_stranded_after_drain       (assumption made explicit) a Submit that passed the `Stopped()` check
                                      and sends after Stop's drain found the channel empty leaves its task in
                                      the channel for ever.
-/
import LinVerif.Props.C19
import LinVerif.Lemmas.C19PoolQueue

namespace LinVerif.Props.C19
open LinVerif.PoolQueue

/-- the pool-queue configuration of the source as it is (`slots` = consumers, a parameter) -/
def currentPoolCfg (slots : Nat) : PoolQueue.Cfg :=
  PoolQueue.cfgOf Generated.C19.poolTasksCapacity slots Generated.C19.pooledClosureIsExecFnOnly

/-- **pool_queue_completes_at_most_once.** For every configuration (also the variant closure),
every number of tasks and every interleaving of Submits, cancellations, `Stop()`, receives and
executions: the handlers of a task complete its stage at most once, and they have done so exactly
when the task was executed or rejected — never both, never twice. -/
theorem pool_queue_completes_at_most_once (c : PoolQueue.Cfg) (es : List PoolQueue.Ev) (s : PoolQueue.St)
    (h : PoolQueue.run c PoolQueue.init es = some s) (i : Nat) :
    s.done i ≤ 1 ∧ (s.done i = 1 ↔ (s.ph i = .executed ∨ s.ph i = .rejected)) := by
  have hi := (PoolQueue.inv_run es _ s (PoolQueue.inv_init c) h i).2.2.1
  by_cases hp : s.ph i = .executed ∨ s.ph i = .rejected
  · rw [PoolQueue.b2n_true hp] at hi; exact ⟨by omega, fun _ => hp, fun _ => hi⟩
  · rw [PoolQueue.b2n_false hp] at hi; exact ⟨by omega, fun h1 => by omega, fun h1 => absurd h1 hp⟩

/-- **pool_queue_every_task_completes.** The source as it is (`skip = false`: the submitted closure
runs `execFn()` whatever its context says), any channel capacity ≥ 1, any number of consumers ≥ 1,
any number of tasks, EVERY interleaving: in a state where nothing of the pool can move (no Submit
in progress can go on, nothing to receive, nothing to execute) and the consumers are alive, every
task whose `Submit` was called has completed its stage exactly once (executed or rejected) and is
neither in the channel nor held. In particular a cancellation between `Submit` and the dequeue does
not lose the completion, and a saturated pool only delays it. -/
theorem pool_queue_every_task_completes (cap slots : Nat) (hcap : 0 < cap) (hslots : 0 < slots)
    (es : List PoolQueue.Ev) (s : PoolQueue.St)
    (h : PoolQueue.run ⟨cap, slots, false⟩ PoolQueue.init es = some s)
    (hg : s.consumersGone = false) (hst : PoolQueue.Stuck ⟨cap, slots, false⟩ s) (i : Nat)
    (hsub : s.ph i ≠ .idle) :
    s.done i = 1 ∧ (s.ph i = .executed ∨ s.ph i = .rejected) ∧ i ∉ s.queue ∧ i ∉ s.held := by
  have hinv := PoolQueue.inv_run es _ s (PoolQueue.inv_init _) h
  have hp := PoolQueue.stuck_phase hinv hcap hslots hg hst i
  have hq := hinv i
  have hns : s.ph i ≠ .skipped := hq.2.2.2 rfl
  have her : s.ph i = .executed ∨ s.ph i = .rejected := by
    rcases hp with h1 | h1 | h1 | h1
    · exact absurd h1 hsub
    · exact Or.inl h1
    · exact Or.inr h1
    · exact absurd h1 hns
  refine ⟨?_, her, ?_, ?_⟩
  · rw [hq.2.2.1, PoolQueue.b2n_true her]
  · intro hm
    have := List.count_pos_iff.mpr hm
    rw [hq.1, PoolQueue.b2n_false (by rcases her with h1 | h1 <;> simp [h1])] at this
    omega
  · intro hm
    have := List.count_pos_iff.mpr hm
    rw [hq.2.1, PoolQueue.b2n_false (by rcases her with h1 | h1 <;> simp [h1])] at this
    omega

/-- … for the source as it is now: capacity and closure shape regenerated from pool.go / base_stage.go -/
theorem pool_queue_current (slots : Nat) (hslots : 0 < slots) (es : List PoolQueue.Ev) (s : PoolQueue.St)
    (h : PoolQueue.run (currentPoolCfg slots) PoolQueue.init es = some s)
    (hg : s.consumersGone = false) (hst : PoolQueue.Stuck (currentPoolCfg slots) s) (i : Nat)
    (hsub : s.ph i ≠ .idle) : s.done i = 1 :=
  (pool_queue_every_task_completes Generated.C19.poolTasksCapacity slots (by decide) hslots es s h hg hst i hsub).1

/-- **pool_queue_progress_terminates.** From every reachable state (any configuration) the pool's
own steps (check / send / ctxReject / take / exec, of any tasks, in any order) can only run for a
bounded number of steps: every progress step moves one task one phase forward (measure: 4 per
submitted task). So "nothing of the pool can move" is reached by every run that is not extended by
the environment, and `pool_queue_every_task_completes` talks about all maximal runs. -/
theorem pool_queue_progress_terminates (c : PoolQueue.Cfg) (es0 : List PoolQueue.Ev) (s : PoolQueue.St)
    (h0 : PoolQueue.run c PoolQueue.init es0 = some s) :
    ∃ bound, ∀ (es : List PoolQueue.Ev) (s' : PoolQueue.St), (∀ e ∈ es, e.progress = true) →
      PoolQueue.run c s es = some s' → es.length ≤ bound := by
  have hinv := PoolQueue.inv_run es0 _ s (PoolQueue.inv_init c) h0
  obtain ⟨ts, hn, hcov⟩ := PoolQueue.covered_run es0 _ s (PoolQueue.inv_init c) PoolQueue.covered_init h0
  refine ⟨4 * ts.length, fun es s' hp hr => ?_⟩
  have := PoolQueue.progress_run_dec hn es s s' hinv hp hr (fun j hj => hcov j (PoolQueue.rank_idle hj))
  have := PoolQueue.muF_le ts s.ph
  omega

/-- … and some run of the pool's own steps does reach such a state (no deadlock short of it) -/
theorem pool_queue_reaches_stuck (c : PoolQueue.Cfg) (es0 : List PoolQueue.Ev) (s : PoolQueue.St)
    (h0 : PoolQueue.run c PoolQueue.init es0 = some s) :
    ∃ es s', (∀ e ∈ es, e.progress = true) ∧ PoolQueue.run c s es = some s' ∧ PoolQueue.Stuck c s' := by
  have hinv := PoolQueue.inv_run es0 _ s (PoolQueue.inv_init c) h0
  obtain ⟨ts, hn, hcov⟩ := PoolQueue.covered_run es0 _ s (PoolQueue.inv_init c) PoolQueue.covered_init h0
  have hsup : ∀ j, PoolQueue.rank (s.ph j) ≠ 0 → j ∈ ts := fun j hj => hcov j (PoolQueue.rank_idle hj)
  clear h0 hcov
  generalize hm : PoolQueue.muF ts s.ph = m
  induction m using Nat.strongRecOn generalizing s with
  | _ m ih =>
    by_cases hst : PoolQueue.Stuck c s
    · exact ⟨[], s, by simp, rfl, hst⟩
    · have : ∃ e : PoolQueue.Ev, e.progress = true ∧ PoolQueue.step c s e ≠ none := by
        apply Classical.byContradiction
        intro hne
        apply hst
        intro e he
        apply Classical.byContradiction
        intro h1
        exact hne ⟨e, he, h1⟩
      obtain ⟨e, he, hne⟩ := this
      cases hs : PoolQueue.step c s e with
      | none => exact absurd hs hne
      | some s1 =>
        have hd := PoolQueue.progress_step_dec hinv he hs hn hsup
        obtain ⟨es, s', hp, hr, hst'⟩ := ih (PoolQueue.muF ts s1.ph) (by omega) s1 (PoolQueue.inv_step hinv hs) hd.2 rfl
        refine ⟨e :: es, s', ?_, ?_, hst'⟩
        · intro e' he'
          rcases List.mem_cons.mp he' with h1 | h1
          · subst h1; exact he
          · exact hp e' h1
        · simp only [PoolQueue.run, hs]; exact hr

/-- how the stage-tree model (Model/Pipeline.lean) sees a task of the pool: `pooled` = its own
goroutine `[exec s]` runs, `rejected` = `track true` on the submitting goroutine -/
def runOfTask (s : PoolQueue.St) (i : Nat) : Option Pipeline.Run :=
  match s.ph i with
  | .executed => some .pooled
  | .rejected => some .rejected
  | _ => none

/-- **pool_queue_refines_launch.** The abstraction `launch s` of the stage-tree model (a pooled
stage is EITHER executed on a worker OR rejected, decided once — `PStage.resolutions`) is what the
queue model yields for every task once the pool has come to rest, whatever the saturation,
cancellation and stop timing: each submitted task resolves to exactly one `Run`, with exactly one
completion of its stage. -/
theorem pool_queue_refines_launch (cap slots : Nat) (hcap : 0 < cap) (hslots : 0 < slots)
    (es : List PoolQueue.Ev) (s : PoolQueue.St)
    (h : PoolQueue.run ⟨cap, slots, false⟩ PoolQueue.init es = some s)
    (hg : s.consumersGone = false) (hst : PoolQueue.Stuck ⟨cap, slots, false⟩ s) (i : Nat)
    (hsub : s.ph i ≠ .idle) :
    (runOfTask s i = some .pooled ∨ runOfTask s i = some .rejected) ∧ s.done i = 1 := by
  have := pool_queue_every_task_completes cap slots hcap hslots es s h hg hst i hsub
  refine ⟨?_, this.1⟩
  rcases this.2.1 with h1 | h1
  · left; simp [runOfTask, h1]
  · right; simp [runOfTask, h1]

/-- non-vacuity: a saturated run (capacity 1, one consumer, three tasks; task 1's Submit is blocked on
the full channel and then rejected by its context, task 0 is cancelled while it waits in the channel
and is executed all the same, task 2 goes through after the channel has room again) ends in a state that
satisfies the hypotheses, and the three submitted tasks are completed -/
def satRun : List PoolQueue.Ev :=
  [.submit 0, .check 0, .send 0, .submit 1, .check 1, .submit 2, .check 2, .cancel 0, .cancel 1,
   .ctxReject 1, .take, .send 2, .exec 0, .take, .exec 2]

example : (PoolQueue.run ⟨1, 1, false⟩ PoolQueue.init satRun).map
      (fun s => ([0, 1, 2, 3].map (PoolQueue.obs s), s.queue, s.held, s.consumersGone)) =
    some ([(.executed, 1), (.rejected, 1), (.executed, 1), (.idle, 0)], [], [], false) := by decide

/-- while the channel is full the blocked Submit cannot send (saturation is in the model) -/
example : (PoolQueue.run ⟨1, 1, false⟩ PoolQueue.init
    [.submit 0, .check 0, .send 0, .submit 1, .check 1, .send 1]).isNone = true := by decide

example : ∃ s, PoolQueue.run ⟨1, 1, false⟩ PoolQueue.init satRun = some s ∧ s.consumersGone = false ∧
    PoolQueue.Stuck ⟨1, 1, false⟩ s ∧ s.ph 0 ≠ .idle := by
  refine ⟨_, rfl, rfl, ?_, by decide⟩
  intro e he
  cases e with
  | submit k => cases he
  | cancel k => cases he
  | stop => cases he
  | drainEnd => cases he
  | take => rfl
  | check k =>
    rcases k with _ | _ | _ | k <;> simp [PoolQueue.step, PoolQueue.upd, PoolQueue.init]
  | send k =>
    rcases k with _ | _ | _ | k <;> simp [PoolQueue.step, PoolQueue.upd, PoolQueue.init]
  | ctxReject k =>
    rcases k with _ | _ | _ | k <;> simp [PoolQueue.step, PoolQueue.upd, PoolQueue.init]
  | exec k =>
    rcases k with _ | _ | _ | k <;> simp [PoolQueue.step, PoolQueue.upd, PoolQueue.init]

namespace Neg

/-- the run of seeded change c19-25's mechanism: accepted by the pool, cancelled while queued -/
def cancelledWhileQueued : List PoolQueue.Ev := [.submit 0, .check 0, .send 0, .cancel 0, .take, .exec 0]

/-- **queued_task_lost_if_closure_checks_ctx.** With a closure that returns early when its context
is done, a task that the pool accepted (no rejection, no panic) and whose context was cancelled while
it waited in the channel is consumed without completing its stage — and whatever happens afterwards
(any continuation `es`) the stage stays uncompleted: `pending` never reaches zero, no callback. The
same run with the closure as it is completes the stage. -/
theorem queued_task_lost_if_closure_checks_ctx (cap slots : Nat) (hcap : 0 < cap) (hslots : 0 < slots) :
    ∃ s, PoolQueue.run ⟨cap, slots, true⟩ PoolQueue.init cancelledWhileQueued = some s ∧
      s.ph 0 = .skipped ∧ s.queue = [] ∧ s.held = [] ∧
      ∀ es s', PoolQueue.run ⟨cap, slots, true⟩ s es = some s' → s'.done 0 = 0 := by
  have hrun : ∃ s, PoolQueue.run ⟨cap, slots, true⟩ PoolQueue.init cancelledWhileQueued = some s ∧
      s.ph 0 = .skipped ∧ s.queue = [] ∧ s.held = [] ∧ s.done 0 = 0 := by
    cases hrun : PoolQueue.run ⟨cap, slots, true⟩ PoolQueue.init cancelledWhileQueued with
    | none =>
      simp [cancelledWhileQueued, PoolQueue.run, PoolQueue.step, PoolQueue.init, PoolQueue.upd, hcap, hslots] at hrun
    | some s =>
      simp [cancelledWhileQueued, PoolQueue.run, PoolQueue.step, PoolQueue.init, PoolQueue.upd, hcap, hslots] at hrun
      subst hrun
      exact ⟨_, rfl, by simp [PoolQueue.upd], by simp, by simp, by simp⟩
  obtain ⟨s, hr, hp, hq, hh, hd⟩ := hrun
  refine ⟨s, hr, hp, hq, hh, fun es s' hr' => ?_⟩
  have hinv := PoolQueue.inv_run _ _ s (PoolQueue.inv_init _) hr
  have := (PoolQueue.skipped_run es s s' hinv hr' hp).2
  omega

/-- the same run on the closure as it is: the stage is completed -/
theorem queued_task_executed_as_is :
    (PoolQueue.run ⟨8, 2, false⟩ PoolQueue.init cancelledWhileQueued).map (PoolQueue.obs · 0) =
      some (.executed, 1) := by decide

/-- **task_stranded_after_drain** (the assumption "no Stop() racing a Submit that has passed the
Stopped() check", made explicit): the Submit passes the check, the pool is stopped and its drain
finds the channel empty, then the Submit sends: the task sits in the channel, no receiver is left
(`take` is disabled), its stage is not completed. Hypothesis `consumersGone = false` of
`pool_queue_every_task_completes` excludes exactly this. -/
theorem task_stranded_after_drain :
    ∃ s, PoolQueue.run ⟨8, 2, false⟩ PoolQueue.init [.submit 0, .check 0, .stop, .drainEnd, .send 0] = some s ∧
      PoolQueue.obs s 0 = (.queued, 0) ∧ s.queue = [0] ∧ s.consumersGone = true ∧
      PoolQueue.step ⟨8, 2, false⟩ s .take = none := by
  refine ⟨_, rfl, by decide, by decide, by decide, by decide⟩

end Neg

/-! ## ties -/

/-- hypothesis `0 < cap` -/
theorem tie_poolCapacityPositive : 0 < Generated.C19.poolTasksCapacity := by decide
/-- hypothesis `skip = false`: the closure handed to the pool is `func() { execFn() }` -/
theorem tie_pooledClosureIsExecFnOnly : Generated.C19.pooledClosureIsExecFnOnly = true := by decide
theorem tie_currentPoolCfgSkip (slots : Nat) : (currentPoolCfg slots).skip = false := by
  simp [currentPoolCfg, PoolQueue.cfgOf, tie_pooledClosureIsExecFnOnly]
/-- the only receivers of `p.tasks` are the dispatcher (→ a worker) and Stop's drain (→ execTask):
event `take` -/
theorem tie_poolTaskReceivers : Generated.C19.poolTaskReceivers = PoolQueue.receiversOrder := by decide
theorem tie_workerExecute : Generated.C19.workerExecuteSteps = PoolQueue.workerExecuteOrder := by decide
theorem tie_workerProcess : Generated.C19.workerProcessSteps = PoolQueue.workerProcessOrder := by decide
theorem tie_taskExec : Generated.C19.taskExecSteps = PoolQueue.taskExecOrder := by decide

end LinVerif.Props.C19
