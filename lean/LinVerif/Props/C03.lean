/-
C03 — Compaction of metric data never changes what a reader can observe.

Property theorems over the models `Model/MetricBlock`, `Model/Merge`, `Model/Compact`
(helper lemmas: `Lemmas/C03*.lean`). Values are an abstract type `V` with the per-field-type
aggregate `agg`; the `Int` instance (`aggInt`) is what the executable driver runs.

* `merge_value` … : what the merger (`merger.Merge` + `seriesMerger.merge` +
  `DownSamplingMultiSeriesInto`, ratio 1) writes for every (series, field, slot).
* `compaction_preserves_view` … : one compaction of a family (all level-0 files + overlapping
  level-1 files, any order of the merged iterator among equal keys, any output split).
* `history_view` … : any sequence of flush/compact steps.
* ties to the regenerated facts (`Generated/C03.lean`), `Neg` (the recorded finding), examples.
-/
import LinVerif.Lemmas.C03Compact
import LinVerif.Lemmas.C03Ratio
import LinVerif.Lemmas.C03Split
import LinVerif.Lemmas.C03Reader
import LinVerif.Lemmas.C03Aux
import LinVerif.Model.Rollup
import LinVerif.Generated.C03

set_option linter.unusedSectionVars false
set_option linter.unusedSimpArgs false
namespace LinVerif.Props.C03
open LinVerif LinVerif.Map LinVerif.MetricBlock LinVerif.Merge LinVerif.Compact LinVerif.C03 LinVerif.BlockWriter

variable {V : Type}

/-! ## 1. The merger

`mergeBlocks tol agg bs` is the merge as the code performs it (entries are found by `dataScanner`s,
`tol` = does `nextContainer` accept a zero-length series bucket — generated fact
`scannerToleratesEmptyBucket`). `GoodBlock tol b` = the block has series, and (`tol` or no container
of `b` consists of zero-length series entries only). For `tol = true` this is just "has series"
(what `newDataScanner` demands of every block); for `tol = false` it excludes exactly the region of
finding F2 (`Neg.dead_bucket_*`). -/

/-- the code's merge is the specification-level merge on scannable inputs -/
theorem merge_is_ideal (tol : Bool) (agg : FieldType → V → V → V) (bs : List (Block V))
    (hg : ∀ b ∈ bs, GoodBlock tol b) : mergeBlocks tol agg bs = mergeBlocksI agg bs ∧ mergeFails tol bs = false :=
  ⟨mergeBlocks_eq_ideal tol agg bs hg, mergeFails_false tol bs hg⟩

/-- **merge_value.** For every series, field and slot the merged block holds the left fold, in
input order, of the field's aggregate over the values the input blocks hold for that cell; the
aggregate is the one of the field type the merged block records for the field id. Any number of
inputs, any field sets, any slot ranges, any series sets. -/
theorem merge_value (tol : Bool) (agg : FieldType → V → V → V) (bs : List (Block V))
    (hg : ∀ b ∈ bs, GoodBlock tol b) (s f t : Nat) (ty : FieldType)
    (hty : (mergeBlocks tol agg bs).fieldType? f = some ty) :
    (mergeBlocks tol agg bs).get s f t = foldAgg (agg ty) (bs.filterMap (fun b => b.get s f t)) := by
  rw [mergeBlocks_eq_ideal tol agg bs hg] at hty ⊢
  rw [mergeBlocks_get, hty]

/-- the statement for the scanner of the unrepaired tree: explicit hypothesis that no input block
has a zero-length series bucket (full-strength statement = `merge_value_tolerant`, which needs the
repaired scanner; its negation for the unrepaired one is `Neg.dead_bucket_drops_later_containers`) -/
theorem merge_value_partial (agg : FieldType → V → V → V) (bs : List (Block V))
    (hne : ∀ b ∈ bs, b.series ≠ []) (hnd : ∀ b ∈ bs, NoDeadBucket b) (s f t : Nat) (ty : FieldType)
    (hty : (mergeBlocks false agg bs).fieldType? f = some ty) :
    (mergeBlocks false agg bs).get s f t = foldAgg (agg ty) (bs.filterMap (fun b => b.get s f t)) :=
  merge_value false agg bs (fun b hb => ⟨hne b hb, Or.inr (hnd b hb)⟩) s f t ty hty

/-- full strength (every block that has series) for a scanner that accepts zero-length buckets -/
theorem merge_value_tolerant (agg : FieldType → V → V → V) (bs : List (Block V))
    (hne : ∀ b ∈ bs, b.series ≠ []) (s f t : Nat) (ty : FieldType)
    (hty : (mergeBlocks true agg bs).fieldType? f = some ty) :
    (mergeBlocks true agg bs).get s f t = foldAgg (agg ty) (bs.filterMap (fun b => b.get s f t)) :=
  merge_value true agg bs (fun b hb => ⟨hne b hb, Or.inl rfl⟩) s f t ty hty

/-- every block that has series is scannable by the CURRENT source: the regenerated fact says
`nextContainer` accepts a zero-length series bucket (fix 6674420) -/
theorem goodBlock_current (b : Block V) (hne : b.series ≠ []) :
    GoodBlock Generated.C03.scannerToleratesEmptyBucket b :=
  ⟨hne, Or.inl (by decide)⟩

/-- **merge_value, full strength for the CURRENT source** (via the regenerated flag
`scannerToleratesEmptyBucket`; the proof breaks if `nextContainer` loses its zero-length branch):
any blocks that have series — the only thing `newDataScanner` demands — any field sets, slot
ranges, series sets, zero-length entries and buckets included. -/
theorem merge_value_current (agg : FieldType → V → V → V) (bs : List (Block V))
    (hne : ∀ b ∈ bs, b.series ≠ []) (s f t : Nat) (ty : FieldType)
    (hty : (mergeBlocks Generated.C03.scannerToleratesEmptyBucket agg bs).fieldType? f = some ty) :
    (mergeBlocks Generated.C03.scannerToleratesEmptyBucket agg bs).get s f t =
      foldAgg (agg ty) (bs.filterMap (fun b => b.get s f t)) :=
  merge_value _ agg bs (fun b hb => goodBlock_current b (hne b hb)) s f t ty hty

/-- and it never fails on such inputs -/
theorem merge_never_fails_current (bs : List (Block V)) (hne : ∀ b ∈ bs, b.series ≠ []) :
    mergeFails Generated.C03.scannerToleratesEmptyBucket bs = false :=
  mergeFails_false _ bs (fun b hb => goodBlock_current b (hne b hb))

/-- the field type recorded in the merged block is the one of the first input block that has the
field id; a field id is known to the merged block iff some input block knows it -/
theorem merge_fieldType (tol : Bool) (agg : FieldType → V → V → V) (bs : List (Block V)) (f : Nat) :
    (mergeBlocks tol agg bs).fieldType? f = bs.findSome? (fun b => b.fieldType? f) := by
  have : (mergeBlocks tol agg bs).fieldType? f = (mergeBlocksI agg bs).fieldType? f := rfl
  rw [this]; exact mergeBlocks_fieldType agg bs f

/-- **no cell appears or disappears**: the merged block has a value for a cell iff some input has -/
theorem merge_none_iff (tol : Bool) (agg : FieldType → V → V → V) (bs : List (Block V))
    (hg : ∀ b ∈ bs, GoodBlock tol b) (s f t : Nat) :
    (mergeBlocks tol agg bs).get s f t = none ↔ ∀ b ∈ bs, b.get s f t = none := by
  rw [mergeBlocks_eq_ideal tol agg bs hg, mergeBlocks_get]
  cases hty : (mergeBlocksI agg bs).fieldType? f with
  | none =>
    have := contrib_nil_of_fieldType_none agg bs s f t hty
    rw [List.filterMap_eq_nil_iff] at this
    simp only [true_iff]; exact this
  | some ty =>
    simp only [foldAgg_eq_none_iff, List.filterMap_eq_nil_iff]

/-- **no series appears or disappears** -/
theorem merge_series (tol : Bool) (agg : FieldType → V → V → V) (bs : List (Block V)) (s : Nat) :
    s ∈ (mergeBlocks tol agg bs).seriesIds ↔ ∃ b ∈ bs, s ∈ b.seriesIds := by
  have : (mergeBlocks tol agg bs).seriesIds = (mergeBlocksI agg bs).seriesIds := by
    simp [mergeBlocks, mergeBlocksWith, mergeBlocksI, mergeBlocksIdeal, mergeBlocksBy, Block.seriesIds, keys,
      List.map_map, Function.comp_def]
  rw [this, mergeBlocks_seriesIds, mem_unionIds]

/-- series ids of the merged block ascend strictly (what `FlushSeries` needs) -/
theorem merge_series_sorted (tol : Bool) (agg : FieldType → V → V → V) (bs : List (Block V)) :
    (mergeBlocks tol agg bs).seriesIds.Pairwise (· < ·) := by
  have : (mergeBlocks tol agg bs).seriesIds = (mergeBlocksI agg bs).seriesIds := by
    simp [mergeBlocks, mergeBlocksWith, mergeBlocksI, mergeBlocksIdeal, mergeBlocksBy, Block.seriesIds, keys,
      List.map_map, Function.comp_def]
  rw [this, mergeBlocks_seriesIds]; exact unionIds_sorted bs

/-- **no field appears or disappears**, and the merged fields are sorted by id -/
theorem merge_fields (tol : Bool) (agg : FieldType → V → V → V) (bs : List (Block V)) (f : Nat) :
    ((mergeBlocks tol agg bs).fieldType? f).isSome ↔ ∃ b ∈ bs, (b.fieldType? f).isSome := by
  rw [merge_fieldType]
  constructor
  · intro h
    obtain ⟨ty, hty⟩ := Option.isSome_iff_exists.mp h
    obtain ⟨b, hb, hbt⟩ := List.exists_of_findSome?_eq_some hty
    exact ⟨b, hb, by rw [hbt]; rfl⟩
  · rintro ⟨b, hb, hbt⟩
    cases hfs : bs.findSome? (fun b => b.fieldType? f) with
    | none =>
      rw [List.findSome?_eq_none_iff] at hfs
      rw [hfs b hb] at hbt; cases hbt
    | some ty => rfl

theorem merge_fields_sorted (tol : Bool) (agg : FieldType → V → V → V) (bs : List (Block V)) :
    (keys (mergeBlocks tol agg bs).fields).Pairwise (· ≤ ·) :=
  sortFields_sorted _

/-- the merged slot range is the hull of the ranges of the inputs (that have fields) -/
theorem merge_slot_range (tol : Bool) (agg : FieldType → V → V → V) (bs : List (Block V)) (b : Block V)
    (hb : b ∈ bs) (hf : b.fields ≠ []) :
    (mergeBlocks tol agg bs).start ≤ b.start ∧ b.stop ≤ (mergeBlocks tol agg bs).stop :=
  prepare_hull bs b hb hf

/-- **first/last (and min/max): the merged value is one of the contributed values** -/
theorem merge_member (tol : Bool) (agg : FieldType → V → V → V) (bs : List (Block V))
    (hg : ∀ b ∈ bs, GoodBlock tol b) (s f t : Nat) (ty : FieldType)
    (hty : (mergeBlocks tol agg bs).fieldType? f = some ty) (hsel : Selective (agg ty)) (v : V)
    (hv : (mergeBlocks tol agg bs).get s f t = some v) :
    ∃ b ∈ bs, b.get s f t = some v := by
  rw [merge_value tol agg bs hg s f t ty hty] at hv
  have := foldAgg_mem_of_selective hsel hv
  rw [List.mem_filterMap] at this
  exact this

/-- exactly which one the code keeps: `Last` the value of the LAST input (in the order the blocks
were handed to `Merge`) that has the cell, `First` the value of the FIRST such input -/
theorem merge_last_exact (tol : Bool) (bs : List (Block Int)) (hg : ∀ b ∈ bs, GoodBlock tol b) (s f t : Nat)
    (hty : (mergeBlocks tol aggInt bs).fieldType? f = some .last) :
    (mergeBlocks tol aggInt bs).get s f t = (bs.filterMap (fun b => b.get s f t)).getLast? := by
  rw [merge_value tol aggInt bs hg s f t .last hty]
  exact foldAgg_last _

theorem merge_first_exact (tol : Bool) (bs : List (Block Int)) (hg : ∀ b ∈ bs, GoodBlock tol b) (s f t : Nat)
    (hty : (mergeBlocks tol aggInt bs).fieldType? f = some .first) :
    (mergeBlocks tol aggInt bs).get s f t = (bs.filterMap (fun b => b.get s f t)).head? := by
  rw [merge_value tol aggInt bs hg s f t .first hty]
  exact foldAgg_first _

/-- sum/min/max/histogram on exact integers: the merged value does not depend on the input order -/
theorem merge_order_free (bs bs' : List (Block Int)) (hp : bs.Perm bs') (s f t : Nat) (ty : FieldType)
    (hof : ty.orderFree = true) :
    foldAgg (aggInt ty) (bs.filterMap (fun b => b.get s f t)) =
      foldAgg (aggInt ty) (bs'.filterMap (fun b => b.get s f t)) :=
  foldAgg_perm (aggInt_commAssoc ty hof) (hp.filterMap _)

/-- the scanner itself: visiting any ascending id list that contains the block's ids, it returns
for every visited id the block's own entry (seeded change: a scanner that runs past containers) -/
theorem scanner_finds_every_entry (tol : Bool) (b : Block V) (hg : GoodBlock tol b) (ids : List Nat)
    (hids : ids.Pairwise (· < ·)) (hsub : ∀ x ∈ b.seriesIds, x ∈ ids) :
    scanAll tol b ids = ids.map (fun s => (s, lookup b.series s)) :=
  scanAll_correct tol b hg ids hids hsub

/-- merged blocks can be merged again: no zero-length bucket, series present -/
theorem merge_output_good (tol : Bool) (agg : FieldType → V → V → V) (bs : List (Block V))
    (hg : ∀ b ∈ bs, GoodBlock tol b) (hne : bs ≠ []) (tol' : Bool) : GoodBlock tol' (mergeBlocks tol agg bs) := by
  rw [mergeBlocks_eq_ideal tol agg bs hg]
  cases bs with
  | nil => exact absurd rfl hne
  | cons b t => exact mergeBlocksI_good tol' agg (b :: t) b List.mem_cons_self (hg b List.mem_cons_self).1

/-! ### the merge with an interval ratio (rollup merge, shared with C04) -/

/-- **merge_value_ratio.** `mergeBlocksWith tol cfg` (ratio, base slot, mapped target range): if no
source value of the cell's series/field falls outside the target range (`InWindow`: neither the
`continue` on a negative position nor the `break` past the end is taken), target slot `Q` holds the
left fold — input order, then slot order — of the field's aggregate over exactly the source
values whose target slot `baseSlot + slot / ratio` is `Q`; nothing else, nothing missing. -/
theorem merge_value_ratio (tol : Bool) (cfg : Cfg) (agg : FieldType → V → V → V) (bs : List (Block V))
    (hg : ∀ b ∈ bs, GoodBlock tol b) (s f Q : Nat) (ty : FieldType)
    (hty : (mergeBlocksWith tol cfg agg bs).fieldType? f = some ty)
    (hs : s ∈ unionIds bs)
    (hQ : cfg.mapSlot (prepare bs).srcStart ≤ Q ∧ Q ≤ cfg.mapSlot (prepare bs).srcEnd)
    (hw : InWindow cfg (cfg.mapSlot (prepare bs).srcStart) (cfg.mapSlot (prepare bs).srcEnd) bs s f) :
    (mergeBlocksWith tol cfg agg bs).get s f Q =
      foldAgg (agg ty) (bs.flatMap (fun b => srcValues cfg b s f Q)) := by
  rw [mergeBlocksWith_eq_ideal tol cfg agg bs hg] at hty ⊢
  exact mergeIdeal_get_ratio cfg agg bs s f Q ty hty hs hQ hw

/-- a target slot without mapped source value stays empty -/
theorem merge_value_ratio_none (tol : Bool) (cfg : Cfg) (agg : FieldType → V → V → V) (bs : List (Block V))
    (hg : ∀ b ∈ bs, GoodBlock tol b) (s f Q : Nat) (ty : FieldType)
    (hty : (mergeBlocksWith tol cfg agg bs).fieldType? f = some ty) (hs : s ∈ unionIds bs)
    (hQ : cfg.mapSlot (prepare bs).srcStart ≤ Q ∧ Q ≤ cfg.mapSlot (prepare bs).srcEnd)
    (hw : InWindow cfg (cfg.mapSlot (prepare bs).srcStart) (cfg.mapSlot (prepare bs).srcEnd) bs s f) :
    (mergeBlocksWith tol cfg agg bs).get s f Q = none ↔
      ∀ b ∈ bs, ∀ t, b.start ≤ t → t ≤ b.stop → targetSlot cfg t = Q → b.get s f t = none := by
  rw [merge_value_ratio tol cfg agg bs hg s f Q ty hty hs hQ hw, foldAgg_eq_none_iff]
  simp only [List.flatMap_eq_nil_iff, srcValues, List.filterMap_eq_nil_iff, List.mem_range'_1]
  constructor
  · intro h b hb t h1 h2 h3
    have := h b hb t ⟨h1, by omega⟩
    simpa [h3] using this
  · intro h b hb t ht
    by_cases e : targetSlot cfg t = Q
    · simp [e, h b hb t ht.1 (by omega) e]
    · simp [e]

/-- the position the model places a source slot at is the C04 model's `targetPos`
(`Model/Rollup.lean`: `bs + s / ratio - tstart`) -/
theorem merge_ratio_placement_is_C04 (cfg : Cfg) (tStart t : Nat) :
    LinVerif.Rollup.targetPos (cfg.ratio : Int) (cfg.baseSlot : Int) (tStart : Int) t =
      ((targetSlot cfg t : Nat) : Int) - (tStart : Int) := by
  unfold LinVerif.Rollup.targetPos targetSlot
  push_cast
  rfl

/-! ### prepare's union bitmap, the single TSD stream -/

/-- **prepare_leaves_inputs_unchanged.** `merger.prepare` builds the union of the blocks' series ids in a
bitmap of its own (`roaring.New()`, `tie_union_fresh`) and only or-s the blocks' bitmaps into it: every
input block's bitmap — which that block's `dataScanner` reads AFTER the union was built (high keys,
containers, ranks) — is what it was, and the union holds exactly the ids of the inputs. (Taking the
first block's bitmap as the union mutates it: `Neg.aliased_union_changes_first_block`.) -/
theorem prepare_leaves_inputs_unchanged (h : MergeAux.Alias.Heap) (refs : List Nat)
    (hrefs : ∀ r ∈ refs, r < h.length) :
    (∀ r, r < h.length →
      MergeAux.Alias.deref (MergeAux.Alias.prepareUnion true h refs).1 r = MergeAux.Alias.deref h r) ∧
    (∀ x, x ∈ MergeAux.Alias.deref (MergeAux.Alias.prepareUnion true h refs).1
        (MergeAux.Alias.prepareUnion true h refs).2 ↔ ∃ r ∈ refs, x ∈ MergeAux.Alias.deref h r) := by
  obtain ⟨a, _, c⟩ := prepareUnion_fresh h refs hrefs
  exact ⟨a, c⟩

/-- **one value per set bit.** The has-value bits and the coded values of a field share ONE stream
(`MergeAux.Stream.encode`: a bit per slot, the value right behind a set bit). The decoder loop of
`DownSamplingMultiSeriesInto` reads the value right behind every set bit — before it looks at the
target position — so for every aggregate (first/last included), every ratio and range, with or
without `continue`/`break`, it stays in step with the stream and computes exactly the map-based
`feed` the merge theorems are about. (Reading a value only where it is used desynchronises:
`Neg.lazy_value_read_desynchronises`.) -/
theorem decoder_loop_consumes_every_value (keepsOld : Bool) (op : V → V → V) (cfg : Cfg) (tStart len : Nat)
    (vals : List (Nat × V)) (n : Nat) (acc : List (Nat × V)) (t : Nat) :
    MergeAux.Stream.feedS true keepsOld op cfg tStart len (MergeAux.Stream.encode vals t n) acc t n =
      some (feed op cfg tStart len vals acc t n) :=
  feedS_eq_feed keepsOld op cfg tStart len vals n acc t

/-! ### the block writer (flusher) and the way back through the reader -/

/-- the value a reader of a written block finds for a cell -/
def encGet (e : EncBlock V) (s f t : Nat) : Option V :=
  match readField e s f with
  | none => none
  | some vals => if e.start ≤ t ∧ t ≤ e.stop then lookup vals t else none

/-- **flush_then_read.** The block writer's layout bookkeeping (`Model/BlockWriter.lean`: per-container
series buckets with their low-key offsets written when the high key of the series id changes,
absolute high-key offsets, `Level3.startAt`/`Level4.startAt` re-based at every bucket and entry,
bare data for a single-field metric, data + field offsets + their length for a multi-field one,
nothing at all for `FlushField(nil)`) and the reader's slicing (`readEntry`, `readField`) are
inverse: for series ids in any number of roaring containers (ascending, as both callers write
them), any field subsets per series, zero-length entries and buckets included, the reader finds in
the written block exactly the field data handed to the writer — and the same series ids and field metas. -/
theorem flush_then_read (b : Block V) (hf : b.fields ≠ []) (hne : b.series ≠ [])
    (hs : b.seriesIds.Pairwise (· < ·)) :
    ∃ e, writeBlock b = some e ∧ e.fields = b.fields ∧ e.ids = b.seriesIds ∧
      e.start = b.start ∧ e.stop = b.stop ∧
      (∀ s f, readField e s f = b.fieldData s f) ∧ (∀ s f t, encGet e s f t = b.get s f t) := by
  obtain ⟨e, hw, h1, h2, h3⟩ := writeBlock_read b hf hne hs
  have hst : e.start = b.start ∧ e.stop = b.stop := by
    unfold writeBlock at hw
    simp only [] at hw
    by_cases hc : (writeAll b).ids.isEmpty = true
    · rw [if_pos hc] at hw; cases hw
    · rw [if_neg hc] at hw
      simp only [Option.some.injEq] at hw; subst hw; exact ⟨rfl, rfl⟩
  refine ⟨e, hw, h1, h2, hst.1, hst.2, h3, ?_⟩
  intro s f t
  unfold encGet Block.get
  rw [h3 s f, hst.1, hst.2]
  cases b.fieldData s f <;> rfl

/-- merged blocks are written by the same writer: what the merger hands to `FlushField`/`FlushSeries`
is read back unchanged (the merged block has series ascending and at least one field whenever an
input has) -/
theorem merged_block_flush_then_read (tol : Bool) (agg : FieldType → V → V → V) (bs : List (Block V))
    (hf : (mergeBlocks tol agg bs).fields ≠ []) (hne : (mergeBlocks tol agg bs).series ≠ []) :
    ∃ e, writeBlock (mergeBlocks tol agg bs) = some e ∧
      ∀ s f t, encGet e s f t = (mergeBlocks tol agg bs).get s f t := by
  obtain ⟨e, hw, _, _, _, _, _, h⟩ := flush_then_read (mergeBlocks tol agg bs) hf hne
    (merge_series_sorted tol agg bs)
  exact ⟨e, hw, h⟩

/-! ## 2. One compaction of a family -/

/-- **compaction_preserves_view** (sum, min, max, histogram — any commutative associative
aggregate): after `compact`, a reader of any cell of any metric observes the same value.
`hwf`: table files hold strictly ascending keys inside their meta's key range and type every
field as the metric's schema does (invariant, see `stateWF_*`); `hsh`: the merged iterator
delivers the pairs of equal keys in SOME order. Any number of level-0 files, any overlap with
level 1, any `maxFileSize`/block sizes (output split), any threshold, `rebind` or not. -/
theorem compaction_preserves_view (agg : FieldType → V → V → V) (sch : Nat → Nat → FieldType)
    (p : Params V) (st : Family V) (hwf : StateWF sch p.tolerant st) (hsh : ∀ l, (p.shuffle l).Perm l)
    (m s f t : Nat) (hca : CommAssoc (agg (sch m f))) :
    view (agg (sch m f)) (compact agg p st).1 m s f t = view (agg (sch m f)) st m s f t := by
  unfold view
  rcases compact_contrib agg sch p st hwf hsh m s f t with h | ⟨Rc, Bc, h1, _, h3⟩
  · exact foldAgg_perm hca h
  · rw [h3, foldAgg_append_toList hca, foldAgg_perm hca h1]
    exact foldAgg_perm hca List.perm_append_comm

/-- for these aggregates the order in which a reader visits the files (a Go map iteration order in
`version.level`) does not matter -/
theorem view_visiting_order_free (op : V → V → V) (hca : CommAssoc op) (st st' : Family V)
    (hp : st.files.Perm st'.files) (m s f t : Nat) : view op st m s f t = view op st' m s f t := by
  unfold view
  rw [contrib_eq, contrib_eq]
  exact foldAgg_perm hca (contribOf_perm hp m s f t)

/-- **view_reads_every_covering_file.** The reader consults every file of every level whose key range
contains the metric (`FindFiles` cuts no level short), and on well-formed files that is the same as
asking EVERY file of the version for the metric. Level-1 key ranges are NOT assumed disjoint: after a
compaction whose level-0 inputs lie on both sides of an unpicked level-1 file the merged output spans
that file (`Neg.level1_ranges_overlap`). -/
theorem view_reads_every_covering_file (st : Family V) (m : Nat) :
    blocksOf st m =
      (st.files.filter (fun f => decide (f.minKey ≤ m ∧ m ≤ f.maxKey))).filterMap (fun f => lookup f.entries m) ∧
    ((∀ f ∈ st.files, FileWF f) → blocksOf st m = st.files.filterMap (fun f => lookup f.entries m)) := by
  constructor
  · unfold blocksOf
    induction st.files with
    | nil => rfl
    | cons f r ih =>
      by_cases c : f.minKey ≤ m ∧ m ≤ f.maxKey
      · have hd : decide (f.minKey ≤ m ∧ m ≤ f.maxKey) = true := decide_eq_true c
        rw [List.filterMap_cons, List.filter_cons, hd]
        simp only [if_true, List.filterMap_cons]
        have hg : f.get m = lookup f.entries m := by unfold File.get; rw [if_pos c]
        rw [hg, ih]
      · have hd : decide (f.minKey ≤ m ∧ m ≤ f.maxKey) = false := decide_eq_false c
        rw [List.filterMap_cons, List.filter_cons, hd]
        have hg : f.get m = none := by unfold File.get; rw [if_neg c]
        simp only [hg, Bool.false_eq_true, if_false]
        exact ih
  · intro hwf
    unfold blocksOf
    apply List.filterMap_congr
    intro f hf
    exact File.get_eq_lookup (hwf f hf) m

/-- **compact_fail_preserves_view.** A merge compaction that fails — `merger.Merge` error, a stale stream
writer, or an output file that cannot be created (injected fault `failAt`) — installs nothing: the
version, hence every reader's view, is unchanged. (`mergeCompaction` installs only after `doMerge`
returned nil, its deferred function only cleans up: `tie_merge_compaction`.) -/
theorem compact_fail_preserves_view (agg : FieldType → V → V → V) (p : Params V) (st : Family V)
    (h : (compact agg p st).2 = .crashed) :
    (compact agg p st).1 = st ∧
    ∀ (op : V → V → V) (m s f t : Nat), view op (compact agg p st).1 m s f t = view op st m s f t := by
  have hst : (compact agg p st).1 = st := by
    unfold compact at h ⊢
    by_cases h1 : st.l0.length < p.threshold
    · rw [if_pos h1]
    · rw [if_neg h1] at h ⊢
      simp only [] at h ⊢
      by_cases h2 : st.l0.length = 1 ∧ (pickUp st.l0 st.l1).isEmpty
      · rw [if_pos h2] at h; cases h
      · rw [if_neg h2] at h ⊢
        by_cases h3 : jobFails agg p (st.l0 ++ pickUp st.l0 st.l1) = true
        · rw [if_pos h3]
        · rw [if_neg h3] at h; cases h
  exact ⟨hst, fun op m s f t => by rw [hst]⟩

/-- the injected fault makes the job fail exactly when the output needs the file that cannot be created -/
theorem compact_fails_on_fault (agg : FieldType → V → V → V) (p : Params V) (st : Family V) (k : Nat)
    (h1 : ¬ st.l0.length < p.threshold) (h2 : ¬ (st.l0.length = 1 ∧ (pickUp st.l0 st.l1).isEmpty))
    (hk : p.failAt = some k)
    (hs : k = 0 ∨ (splitLoop p.size p.maxFileSize (mergedEntries agg p (st.l0 ++ pickUp st.l0 st.l1)) [] 0).length > k) :
    (compact agg p st).2 = .crashed := by
  have h3 : jobFails agg p (st.l0 ++ pickUp st.l0 st.l1) = true := by
    unfold jobFails
    simp [hk, hs]
  unfold compact
  rw [if_neg h1]; simp only []
  rw [if_neg h2, if_pos h3]

/-- **nothing appears or disappears** (every aggregate, also first/last): the files of the new
version contribute to a cell iff the files of the old version do -/
theorem compaction_preserves_presence (agg : FieldType → V → V → V) (sch : Nat → Nat → FieldType)
    (p : Params V) (st : Family V) (hwf : StateWF sch p.tolerant st) (hsh : ∀ l, (p.shuffle l).Perm l)
    (m s f t : Nat) :
    contrib (compact agg p st).1 m s f t = [] ↔ contrib st m s f t = [] := by
  rcases compact_contrib agg sch p st hwf hsh m s f t with h | ⟨Rc, Bc, h1, h2, h3⟩
  · exact ⟨fun e => (by rw [e] at h; exact h.symm.eq_nil), fun e => (by rw [e] at h; exact h.eq_nil)⟩
  · constructor
    · intro e
      rw [h3] at e
      cases Bc with
      | nil => exact absurd rfl h2
      | cons v r => simp [foldAgg] at e
    · intro e
      rw [e] at h1
      have := h1.nil_eq
      cases Bc with
      | nil => exact absurd rfl h2
      | cons v r => simp at this

theorem compaction_view_none_iff (agg : FieldType → V → V → V) (sch : Nat → Nat → FieldType)
    (p : Params V) (st : Family V) (hwf : StateWF sch p.tolerant st) (hsh : ∀ l, (p.shuffle l).Perm l)
    (m s f t : Nat) (op : V → V → V) :
    view op (compact agg p st).1 m s f t = none ↔ view op st m s f t = none := by
  unfold view
  rw [foldAgg_eq_none_iff, foldAgg_eq_none_iff]
  exact compaction_preserves_presence agg sch p st hwf hsh m s f t

/-- **first/last: every value the new files hold is one of the values the old files held** -/
theorem compaction_member (agg : FieldType → V → V → V) (sch : Nat → Nat → FieldType)
    (p : Params V) (st : Family V) (hwf : StateWF sch p.tolerant st) (hsh : ∀ l, (p.shuffle l).Perm l)
    (m s f t : Nat) (hsel : Selective (agg (sch m f))) (v : V)
    (hv : v ∈ contrib (compact agg p st).1 m s f t) : v ∈ contrib st m s f t := by
  rcases compact_contrib agg sch p st hwf hsh m s f t with h | ⟨Rc, Bc, h1, _, h3⟩
  · exact (h.mem_iff).mp hv
  · rw [h3] at hv
    apply (h1.mem_iff).mpr
    rcases List.mem_append.mp hv with h | h
    · exact List.mem_append_right _ h
    · apply List.mem_append_left
      cases hfa : foldAgg (agg (sch m f)) Bc with
      | none => rw [hfa] at h; simp at h
      | some w =>
        rw [hfa] at h
        simp only [Option.toList_some, List.mem_singleton] at h
        subst h
        exact foldAgg_mem_of_selective hsel hfa

/-- what a reader (who combines with the same selective aggregate, in any visiting order) sees
after compaction is one of the values the old files contributed -/
theorem compaction_view_member (agg : FieldType → V → V → V) (sch : Nat → Nat → FieldType)
    (p : Params V) (st : Family V) (hwf : StateWF sch p.tolerant st) (hsh : ∀ l, (p.shuffle l).Perm l)
    (m s f t : Nat) (hsel : Selective (agg (sch m f))) (v : V)
    (hv : view (agg (sch m f)) (compact agg p st).1 m s f t = some v) : v ∈ contrib st m s f t :=
  compaction_member agg sch p st hwf hsh m s f t hsel v (foldAgg_mem_of_selective hsel hv)

/-- the invariant is re-established by every step -/
theorem compaction_preserves_invariant (agg : FieldType → V → V → V) (sch : Nat → Nat → FieldType)
    (p : Params V) (st : Family V) (hwf : StateWF sch p.tolerant st) (hsh : ∀ l, (p.shuffle l).Perm l) :
    StateWF sch p.tolerant (compact agg p st).1 := stateWF_compact agg sch p st hwf hsh

theorem flush_preserves_invariant (sch : Nat → Nat → FieldType) (tol : Bool) (st : Family V)
    (es : List (Nat × Block V)) (hwf : StateWF sch tol st) (hes : EntriesOK sch tol es) :
    StateWF sch tol (flush st es) := stateWF_flush sch tol st es hwf hes

/-! ### the merge of one metric depends on that metric's blocks only -/

/-- the entry the compaction writes for key `m`: the merge of exactly the blocks stored under `m`
in the input files, in the order the merged iterator delivered them; nothing if no input has `m` -/
theorem merged_entry_of_key (agg : FieldType → V → V → V) (p : Params V) (P : List (File V))
    (hsh : ∀ l, (p.shuffle l).Perm l) (m : Nat) :
    lookup (mergedEntries agg p P) m =
      (if valuesOf (sortByKey (p.shuffle (P.flatMap (fun f => f.entries)))) m = [] then none
       else some (mergeBlocks p.tolerant agg (valuesOf (sortByKey (p.shuffle (P.flatMap (fun f => f.entries)))) m))) := by
  obtain ⟨_, g3, _⟩ := groups_from_inputs p P hsh
  unfold mergedEntries
  rw [lookup_map_vals (mergeGroups p P) (fun _ v => mergeBlocks p.tolerant agg v) m, g3 m]
  by_cases e : valuesOf (sortByKey (p.shuffle (P.flatMap (fun f => f.entries)))) m = [] <;> simp [e]

/-- **merge_is_per_metric.** Two compaction jobs whose inputs deliver the same blocks for metric `m`
(whatever other metrics they hold, before or after `m`) write the same block for `m`: the merge of
a metric is a function of that metric's blocks — no state is carried from one `Merge` call to the
next (`tie_merger_stateless`: `merger` has only the flusher, the series merger and the rollup
context, none assigned during `Merge`; the writer is `reset()` by `CommitMetric`). -/
theorem merge_is_per_metric (agg : FieldType → V → V → V) (p : Params V) (P₁ P₂ : List (File V))
    (hsh : ∀ l, (p.shuffle l).Perm l) (m : Nat)
    (h : valuesOf (sortByKey (p.shuffle (P₁.flatMap (fun f => f.entries)))) m =
         valuesOf (sortByKey (p.shuffle (P₂.flatMap (fun f => f.entries)))) m) :
    lookup (mergedEntries agg p P₁) m = lookup (mergedEntries agg p P₂) m := by
  rw [merged_entry_of_key agg p P₁ hsh m, merged_entry_of_key agg p P₂ hsh m, h]

/-! ### the output split -/

/-- **split_preserves_entries.** Whatever `maxFileSize` and the block sizes are, the output files of a
merge compaction over scannable, well-formed files hold — concatenated in file order — exactly the
merged entries (each (key, block) pair once, order kept); their key ranges ascend strictly (every file
ends below the start of every later one), each is a well-formed table, every key is answered by
exactly one file, and these files are what the completed job installs in level 1. (The model's split
registers the key of an entry in the file that is open when it is committed and only then lets
`afterAdd` finish the file: `tie_stream_writer_order`.) -/
theorem split_preserves_entries (agg : FieldType → V → V → V) (sch : Nat → Nat → FieldType)
    (p : Params V) (st : Family V) (hwf : StateWF sch p.tolerant st) (hsh : ∀ l, (p.shuffle l).Perm l) :
    let entries := mergedEntries agg p (st.l0 ++ pickUp st.l0 st.l1)
    let outs := (splitLoop p.size p.maxFileSize entries [] 0).filterMap mkFile
    outs.flatMap (fun f => f.entries) = entries ∧
    outs.Pairwise (fun f g => f.maxKey < g.minKey) ∧
    (∀ f ∈ outs, FileWF f) ∧
    (keys entries).Pairwise (· < ·) ∧
    (∀ m, outs.filterMap (fun f => f.get m) = (lookup entries m).toList) ∧
    ((compact agg p st).2 = .merged → (compact agg p st).1.l1 = restUp st.l0 st.l1 ++ outs) := by
  intro entries outs
  have hPmem : ∀ f ∈ st.l0 ++ pickUp st.l0 st.l1, f ∈ st.files := by
    intro f hf
    rcases List.mem_append.mp hf with h1 | h1
    · exact List.mem_append_left _ h1
    · exact List.mem_append_right _ (List.mem_filter.mp h1).1
  obtain ⟨g1, _, _⟩ := groups_from_inputs p (st.l0 ++ pickUp st.l0 st.l1) hsh
  obtain ⟨hG, _⟩ := mergedEntries_ideal agg p (st.l0 ++ pickUp st.l0 st.l1)
    (fun f hf => (hwf f (hPmem f hf)).2.2) hsh
  have hkeys : (keys entries).Pairwise (· < ·) := by
    show (keys (mergedEntries agg p (st.l0 ++ pickUp st.l0 st.l1))).Pairwise (· < ·)
    rw [hG, keys_map_vals]; exact g1
  obtain ⟨s1, s2⟩ := splitLoop_spec p.size p.maxFileSize entries [] 0
  simp only [List.nil_append] at s1
  have hflat : (keys (splitLoop p.size p.maxFileSize entries [] 0).flatten).Pairwise (· < ·) := by
    rw [s1]; exact hkeys
  refine ⟨?_, outs_ranges_ascending _ s2 hflat, fun f hf => (chunks_files_wf _ s2 hflat f hf).1, hkeys, ?_, ?_⟩
  · have := outs_entries _ s2
    show ((splitLoop p.size p.maxFileSize entries [] 0).filterMap mkFile).flatMap (fun f => f.entries) = entries
    rw [List.flatMap_def, this, s1]
  · intro m
    show ((splitLoop p.size p.maxFileSize entries [] 0).filterMap mkFile).filterMap (fun f => f.get m) = _
    rw [chunks_get _ s2 hflat m, s1]
  · intro hm
    unfold compact at hm ⊢
    by_cases h1 : st.l0.length < p.threshold
    · rw [if_pos h1] at hm; cases hm
    · rw [if_neg h1] at hm ⊢
      simp only [] at hm ⊢
      by_cases h2 : st.l0.length = 1 ∧ (pickUp st.l0 st.l1).isEmpty
      · rw [if_pos h2] at hm; cases hm
      · rw [if_neg h2] at hm ⊢
        by_cases h3 : jobFails agg p (st.l0 ++ pickUp st.l0 st.l1) = true
        · rw [if_pos h3] at hm; cases hm
        · rw [if_neg h3]

/-- **first/last, exactly what a compaction guarantees.** The block written for metric `m` holds,
for a `Last` field, the value of the LAST block — in the order in which the merged iterator
delivered the blocks of key `m` — that has the cell, for a `First` field the value of the first
such block. That order is a permutation of the input files' order which depends on the shape of the
iterator's heap (C15 `merge_order_among_equal_keys`: only the pairs of ONE input keep their order;
between inputs nothing is promised, witness `Props.C15.Neg.merge_ties_not_by_input_order`), and the
order in which a reader visits the files of a level is a Go map iteration order. Hence no statement
stronger than membership (`compaction_member`, `compaction_view_member`) holds for what a reader
sees before and after: `Neg.first_last_depend_on_tie_order`. -/
theorem compaction_last_first_exact (p : Params Int) (P : List (File Int)) (hwfP : ∀ f ∈ P, BlocksGood p.tolerant f)
    (hsh : ∀ l, (p.shuffle l).Perm l) (m s f t : Nat) (blk : Block Int)
    (hb : lookup (mergedEntries aggInt p P) m = some blk) :
    (blk.fieldType? f = some .last →
      blk.get s f t = ((valuesOf (sortByKey (p.shuffle (P.flatMap (fun f => f.entries)))) m).filterMap
        (fun b => b.get s f t)).getLast?) ∧
    (blk.fieldType? f = some .first →
      blk.get s f t = ((valuesOf (sortByKey (p.shuffle (P.flatMap (fun f => f.entries)))) m).filterMap
        (fun b => b.get s f t)).head?) := by
  rw [merged_entry_of_key aggInt p P hsh m] at hb
  by_cases e : valuesOf (sortByKey (p.shuffle (P.flatMap (fun f => f.entries)))) m = []
  · rw [if_pos e] at hb; cases hb
  · rw [if_neg e] at hb
    simp only [Option.some.injEq] at hb
    subst hb
    obtain ⟨_, _, hfrom⟩ := groups_from_inputs p P hsh
    obtain ⟨_, g3, _⟩ := groups_from_inputs p P hsh
    have hgood : ∀ b ∈ valuesOf (sortByKey (p.shuffle (P.flatMap (fun f => f.entries)))) m,
        GoodBlock p.tolerant b := by
      intro b hb
      have hl := g3 m
      rw [if_neg e] at hl
      have hmem : (m, valuesOf (sortByKey (p.shuffle (P.flatMap (fun f => f.entries)))) m) ∈ mergeGroups p P :=
        lookup_mem hl
      obtain ⟨f', hf', hin⟩ := (hfrom _ hmem).2 b hb
      exact hwfP f' hf' m b hin
    exact ⟨fun h => merge_last_exact p.tolerant _ hgood s f t h,
           fun h => merge_first_exact p.tolerant _ hgood s f t h⟩

/-! ### the version edit of a compaction -/

/-- **install_deletes_exactly_the_inputs.** The edit a merge compaction over the inputs `ins` of `level`
and `ups` of `level+1` commits (`MarkInputDeletes` then `AddFile(level+1, ·)` for every output), applied
to the per-level file sets, for EVERY pick: no input survives in its level, no other file of any
level is removed, the outputs (fresh numbers) are in `level+1`, other levels are untouched. -/
theorem install_deletes_exactly_the_inputs (v : MergeAux.Edit.Version) (level : Nat) (ins ups outs : List Nat)
    (hl : level + 1 < v.length) (hfresh : ∀ o ∈ outs, o ∉ ups) :
    let v' := MergeAux.Edit.applyAll v (MergeAux.Edit.installRecs true level ins ups outs)
    (∀ x ∈ ins, x ∉ MergeAux.Edit.levelOf v' level) ∧
    (∀ x ∈ ups, x ∉ MergeAux.Edit.levelOf v' (level + 1)) ∧
    (∀ x ∈ MergeAux.Edit.levelOf v level, x ∉ ins → x ∈ MergeAux.Edit.levelOf v' level) ∧
    (∀ x ∈ MergeAux.Edit.levelOf v (level + 1), x ∉ ups → x ∈ MergeAux.Edit.levelOf v' (level + 1)) ∧
    (∀ o ∈ outs, o ∈ MergeAux.Edit.levelOf v' (level + 1)) ∧
    (∀ i, i ≠ level → i ≠ level + 1 → MergeAux.Edit.levelOf v' i = MergeAux.Edit.levelOf v i) := by
  intro v'
  have he := install_effect v level ins ups outs hl
  have hne : ¬ (level + 1 = level) := by omega
  refine ⟨?_, ?_, ?_, ?_, ?_, ?_⟩
  · intro x hx hin
    rw [he level] at hin
    simp at hin
    exact hin.2 hx
  · intro x hx hin
    rw [he (level + 1)] at hin
    simp only [hne, if_false, if_true, List.mem_append, List.mem_filter, decide_eq_true_eq] at hin
    rcases hin with h | h
    · exact h.2 hx
    · exact hfresh x h hx
  · intro x hx hni
    rw [he level]; simp [hx, hni]
  · intro x hx hni
    rw [he (level + 1)]; simp [hne, hx, hni]
  · intro o ho
    rw [he (level + 1)]; simp [hne, ho]
  · intro i h1 h2
    rw [he i]; simp [h1, h2]

/-- when does the compaction job complete? On scannable files (`StateWF`): always if the stream
writer follows the current output builder; otherwise iff the output fits one file. -/
theorem compaction_completes_partial (agg : FieldType → V → V → V) (sch : Nat → Nat → FieldType)
    (p : Params V) (st : Family V) (hwf : StateWF sch p.tolerant st) (hsh : ∀ l, (p.shuffle l).Perm l)
    (hio : p.failAt = none)
    (h : p.rebind = true ∨
      (splitLoop p.size p.maxFileSize (mergedEntries agg p (st.l0 ++ pickUp st.l0 st.l1)) [] 0).length ≤ 1) :
    (compact agg p st).2 ≠ .crashed := by
  have hPg : ∀ f ∈ st.l0 ++ pickUp st.l0 st.l1, BlocksGood p.tolerant f := by
    intro f hf
    apply (hwf f _).2.2
    rcases List.mem_append.mp hf with h1 | h1
    · exact List.mem_append_left _ h1
    · exact List.mem_append_right _ (List.mem_filter.mp h1).1
  obtain ⟨_, hnf⟩ := mergedEntries_ideal agg p (st.l0 ++ pickUp st.l0 st.l1) hPg hsh
  have h3 : ¬ (jobFails agg p (st.l0 ++ pickUp st.l0 st.l1) = true) := by
    unfold jobFails
    simp only []
    rw [hnf, hio]
    rcases h with h | h
    · simp [h]
    · simp; intro _; omega
  unfold compact
  by_cases h1 : st.l0.length < p.threshold
  · rw [if_pos h1]; simp
  · rw [if_neg h1]; simp only []
    by_cases h2 : st.l0.length = 1 ∧ (pickUp st.l0 st.l1).isEmpty
    · rw [if_pos h2]; simp
    · rw [if_neg h2, if_neg h3]; simp

/-- **compaction_completes** — full strength for the CURRENT source: the regenerated fact says the
stream-writer wrapper re-binds to the current output builder at `Prepare` (fix 4fd9a00), so a merge
compaction over scannable files completes for every number of inputs and every output split.
(The proof uses `Generated.C03.streamWriterRebinds = true`; it breaks if the wrapper loses its
`Prepare`. The negation for a writer that does not re-bind stays proved: `Neg.crash_of_split`.) -/
theorem compaction_completes (agg : FieldType → V → V → V) (sch : Nat → Nat → FieldType)
    (p : Params V) (st : Family V) (hp : p.rebind = Generated.C03.streamWriterRebinds)
    (hio : p.failAt = none)
    (hwf : StateWF sch p.tolerant st) (hsh : ∀ l, (p.shuffle l).Perm l) :
    (compact agg p st).2 ≠ .crashed :=
  compaction_completes_partial agg sch p st hwf hsh hio (Or.inl (hp.trans (by decide)))

/-! ## 3. Histories -/

/-- what is required of the operations: flushed blocks type their fields as the schema does, the
merged iterator's tie order is a permutation -/
def OpOK (sch : Nat → Nat → FieldType) (tol : Bool) : Op V → Prop
  | .flush es => EntriesOK sch tol es
  | .compact p => (∀ l, (p.shuffle l).Perm l) ∧ p.tolerant = tol

/-- the values the flushes of a history contribute to a cell, in flush order -/
def flushed (ops : List (Op V)) (m s f t : Nat) : List V :=
  ops.flatMap (fun o => match o with
    | .flush es => flushContrib es m s f t
    | .compact _ => [])

/-- for the CURRENT source the only requirement on flushed entries is the stable field schema
(zero-length series entries/buckets are accepted by the scanner: regenerated flag) -/
theorem entriesOK_current (sch : Nat → Nat → FieldType) (es : List (Nat × Block V))
    (h : ∀ m b, (m, b) ∈ es → ∀ fid ty, b.fieldType? fid = some ty → ty = sch m fid) :
    EntriesOK sch Generated.C03.scannerToleratesEmptyBucket es :=
  fun m b hmb => ⟨h m b hmb, Or.inl (by decide)⟩

theorem run_preserves_invariant (agg : FieldType → V → V → V) (sch : Nat → Nat → FieldType) (tol : Bool)
    (ops : List (Op V)) : ∀ (st : Family V), StateWF sch tol st → (∀ o ∈ ops, OpOK sch tol o) →
      StateWF sch tol (run agg st ops) := by
  induction ops with
  | nil => intro st h _; exact h
  | cons o r ih =>
    intro st hwf hok
    have hr : ∀ o ∈ r, OpOK sch tol o := fun o' h' => hok o' (List.mem_cons_of_mem _ h')
    have ho := hok o List.mem_cons_self
    cases o with
    | flush es => exact ih _ (stateWF_flush sch tol st es hwf ho) hr
    | compact p =>
      obtain ⟨hsh, htol⟩ := ho
      have hwf' : StateWF sch p.tolerant st := htol ▸ hwf
      exact ih _ (htol ▸ stateWF_compact agg sch p st hwf' hsh) hr

/-- **history_view** (sum/min/max/histogram): after ANY sequence of flush and compact steps a reader
observes, for every cell, the aggregate of what the initial files held and everything flushed
since — compactions (how many, when, with which inputs, thresholds, output splits, tie orders)
are invisible. -/
theorem history_view (agg : FieldType → V → V → V) (sch : Nat → Nat → FieldType) (tol : Bool)
    (m s f t : Nat) (hca : CommAssoc (agg (sch m f))) (ops : List (Op V)) :
    ∀ (st : Family V), StateWF sch tol st → (∀ o ∈ ops, OpOK sch tol o) →
      view (agg (sch m f)) (run agg st ops) m s f t =
        foldAgg (agg (sch m f)) (contrib st m s f t ++ flushed ops m s f t) := by
  induction ops with
  | nil => intro st _ _; simp [run, flushed, view]
  | cons o r ih =>
    intro st hwf hok
    have hr : ∀ o ∈ r, OpOK sch tol o := fun o' h' => hok o' (List.mem_cons_of_mem _ h')
    have ho := hok o List.mem_cons_self
    cases o with
    | flush es =>
      have := ih (flush st es) (stateWF_flush sch tol st es hwf ho) hr
      simp only [run, List.foldl_cons, step] at this ⊢
      rw [this]
      have hfl : flushed (Op.flush es :: r) m s f t = flushContrib es m s f t ++ flushed r m s f t := by
        simp [flushed]
      rw [hfl, ← List.append_assoc]
      exact foldAgg_perm hca (List.Perm.append_right _ (flush_contrib st es m s f t))
    | compact p =>
      obtain ⟨hsh, htol⟩ := ho
      have hwf' : StateWF sch p.tolerant st := htol ▸ hwf
      have := ih (compact agg p st).1 (htol ▸ stateWF_compact agg sch p st hwf' hsh) hr
      simp only [run, List.foldl_cons, step] at this ⊢
      rw [this]
      have hfl : flushed (Op.compact p :: r) m s f t = flushed r m s f t := by simp [flushed]
      rw [hfl, foldAgg_append hca, foldAgg_append hca]
      have hv := compaction_preserves_view agg sch p st hwf' hsh m s f t hca
      unfold view at hv
      rw [hv]

/-- from the empty family: the reader sees exactly the aggregate of everything flushed -/
theorem history_view_from_empty (agg : FieldType → V → V → V) (sch : Nat → Nat → FieldType) (tol : Bool)
    (m s f t : Nat) (hca : CommAssoc (agg (sch m f))) (ops : List (Op V))
    (hok : ∀ o ∈ ops, OpOK sch tol o) :
    view (agg (sch m f)) (run agg Family.empty ops) m s f t =
      foldAgg (agg (sch m f)) (flushed ops m s f t) := by
  rw [history_view agg sch tol m s f t hca ops Family.empty (stateWF_empty sch tol) hok]
  simp [contrib, blocksOf, Family.empty, Family.files]

/-- **history, every aggregate**: a cell is present after the history iff it was present initially
or was flushed — no series, field or slot appears or disappears -/
theorem history_presence (agg : FieldType → V → V → V) (sch : Nat → Nat → FieldType) (tol : Bool)
    (m s f t : Nat) (ops : List (Op V)) :
    ∀ (st : Family V), StateWF sch tol st → (∀ o ∈ ops, OpOK sch tol o) →
      (contrib (run agg st ops) m s f t = [] ↔ contrib st m s f t ++ flushed ops m s f t = []) := by
  induction ops with
  | nil => intro st _ _; simp [run, flushed]
  | cons o r ih =>
    intro st hwf hok
    have hr : ∀ o ∈ r, OpOK sch tol o := fun o' h' => hok o' (List.mem_cons_of_mem _ h')
    have ho := hok o List.mem_cons_self
    cases o with
    | flush es =>
      have := ih (flush st es) (stateWF_flush sch tol st es hwf ho) hr
      simp only [run, List.foldl_cons, step] at this ⊢
      rw [this]
      have hfl : flushed (Op.flush es :: r) m s f t = flushContrib es m s f t ++ flushed r m s f t := by
        simp [flushed]
      rw [hfl, ← List.append_assoc]
      have hp := flush_contrib st es m s f t
      simp only [List.append_eq_nil_iff]
      constructor
      · rintro ⟨h1, h2⟩
        rw [h1] at hp
        have := hp.nil_eq
        simp only [List.nil_eq, List.append_eq_nil_iff] at this
        exact ⟨this, h2⟩
      · rintro ⟨⟨h1, h2⟩, h3⟩
        rw [h1, h2] at hp
        exact ⟨hp.eq_nil, h3⟩
    | compact p =>
      obtain ⟨hsh, htol⟩ := ho
      have hwf' : StateWF sch p.tolerant st := htol ▸ hwf
      have := ih (compact agg p st).1 (htol ▸ stateWF_compact agg sch p st hwf' hsh) hr
      simp only [run, List.foldl_cons, step] at this ⊢
      rw [this]
      have hfl : flushed (Op.compact p :: r) m s f t = flushed r m s f t := by simp [flushed]
      rw [hfl]
      simp only [List.append_eq_nil_iff]
      rw [compaction_preserves_presence agg sch p st hwf' hsh m s f t]

/-- **history, first/last**: every value a file holds after the history — hence the value a reader
sees — is one of the values initially held or flushed for that cell -/
theorem history_member (agg : FieldType → V → V → V) (sch : Nat → Nat → FieldType) (tol : Bool)
    (m s f t : Nat) (hsel : Selective (agg (sch m f))) (ops : List (Op V)) :
    ∀ (st : Family V), StateWF sch tol st → (∀ o ∈ ops, OpOK sch tol o) →
      ∀ v ∈ contrib (run agg st ops) m s f t, v ∈ contrib st m s f t ++ flushed ops m s f t := by
  induction ops with
  | nil => intro st _ _ v hv; simpa [run, flushed] using hv
  | cons o r ih =>
    intro st hwf hok v hv
    have hr : ∀ o ∈ r, OpOK sch tol o := fun o' h' => hok o' (List.mem_cons_of_mem _ h')
    have ho := hok o List.mem_cons_self
    cases o with
    | flush es =>
      have := ih (flush st es) (stateWF_flush sch tol st es hwf ho) hr v (by simpa [run, step] using hv)
      have hfl : flushed (Op.flush es :: r) m s f t = flushContrib es m s f t ++ flushed r m s f t := by
        simp [flushed]
      rw [hfl, ← List.append_assoc]
      rcases List.mem_append.mp this with h | h
      · exact List.mem_append_left _ (((flush_contrib st es m s f t).mem_iff).mp h)
      · exact List.mem_append_right _ h
    | compact p =>
      obtain ⟨hsh, htol⟩ := ho
      have hwf' : StateWF sch p.tolerant st := htol ▸ hwf
      have := ih (compact agg p st).1 (htol ▸ stateWF_compact agg sch p st hwf' hsh) hr v
        (by simpa [run, step] using hv)
      have hfl : flushed (Op.compact p :: r) m s f t = flushed r m s f t := by simp [flushed]
      rw [hfl]
      rcases List.mem_append.mp this with h | h
      · exact List.mem_append_left _ (compaction_member agg sch p st hwf' hsh m s f t hsel v h)
      · exact List.mem_append_right _ h

theorem history_view_member (agg : FieldType → V → V → V) (sch : Nat → Nat → FieldType) (tol : Bool)
    (m s f t : Nat) (hsel : Selective (agg (sch m f))) (ops : List (Op V))
    (hok : ∀ o ∈ ops, OpOK sch tol o) (v : V)
    (hv : view (agg (sch m f)) (run agg Family.empty ops) m s f t = some v) :
    v ∈ flushed ops m s f t := by
  have := history_member agg sch tol m s f t hsel ops Family.empty (stateWF_empty sch tol) hok v
    (foldAgg_mem_of_selective hsel hv)
  simpa [contrib, blocksOf, Family.empty, Family.files] using this

/-- every compaction of a history over scannable data completes (current source) -/
theorem history_compactions_complete (agg : FieldType → V → V → V) (sch : Nat → Nat → FieldType) (tol : Bool)
    (pre : List (Op V)) (p : Params V) (st : Family V) (hwf : StateWF sch tol st)
    (hok : ∀ o ∈ pre, OpOK sch tol o) (hp : OpOK sch tol (Op.compact p))
    (hr : p.rebind = Generated.C03.streamWriterRebinds) (hio : p.failAt = none) :
    (compact agg p (run agg st pre)).2 ≠ .crashed := by
  obtain ⟨hsh, htol⟩ := hp
  have := run_preserves_invariant agg sch tol pre st hwf hok
  exact compaction_completes agg sch p _ hr hio (htol ▸ this) hsh

/-! ### the `Int` instance (exact arithmetic) -/

/-- C03 for integer-valued data, order-free field types: sum, min, max, histogram -/
theorem history_view_int (sch : Nat → Nat → FieldType) (tol : Bool) (m s f t : Nat)
    (hof : (sch m f).orderFree = true) (ops : List (Op Int)) (hok : ∀ o ∈ ops, OpOK sch tol o) :
    view (aggInt (sch m f)) (run aggInt Family.empty ops) m s f t =
      foldAgg (aggInt (sch m f)) (flushed ops m s f t) :=
  history_view_from_empty aggInt sch tol m s f t (aggInt_commAssoc _ hof) ops hok

/-- C03 for integer-valued data, first/last (also min/max): one of the flushed values -/
theorem history_member_int (sch : Nat → Nat → FieldType) (tol : Bool) (m s f t : Nat)
    (hns : (sch m f).aggKind ≠ .sum) (ops : List (Op Int)) (hok : ∀ o ∈ ops, OpOK sch tol o) (v : Int)
    (hv : view (aggInt (sch m f)) (run aggInt Family.empty ops) m s f t = some v) :
    v ∈ flushed ops m s f t :=
  history_view_member aggInt sch tol m s f t (aggInt_selective_of_not_sum _ hns) ops hok v hv

/-- every field type is covered by one of the two -/
theorem field_types_covered (ty : FieldType) : ty.orderFree = true ∨ ty.aggKind ≠ .sum := by
  cases ty <;> simp [FieldType.orderFree, FieldType.aggKind]

/-! ## 4. Ties to the regenerated facts -/

/-- `Type.AggType()`: the generated switch table is the model's `aggKind` (and has no other row) -/
theorem tie_fieldAggTable (ty : FieldType) :
    lookup Generated.C03.fieldAggTable ty.code = some ty.aggKind.code := by
  cases ty <;> rfl

theorem tie_fieldAggTable_rows : (keys Generated.C03.fieldAggTable).Perm (FieldType.all.map FieldType.code) := by
  decide

/-- the Go constants are the model's codes -/
theorem tie_codes :
    [Generated.C03.sumField, Generated.C03.minField, Generated.C03.maxField, Generated.C03.lastField,
      Generated.C03.histogramField, Generated.C03.firstField] = FieldType.all.map FieldType.code ∧
    [Generated.C03.aggSum, Generated.C03.aggMin, Generated.C03.aggMax, Generated.C03.aggLast,
      Generated.C03.aggFirst] = [AggKind.sum, .min, .max, .last, .first].map AggKind.code := by
  decide

/-- Go source of `AggType.Aggregate` per aggregate kind, as the model's `AggKind.aggregate` reads it -/
def goAggregate : AggKind → String
  | .sum => "a + b" | .min => "math.Min(a, b)" | .max => "math.Max(a, b)" | .last => "b" | .first => "a"

theorem tie_aggregateTable (k : AggKind) :
    lookup Generated.C03.aggregateTable k.code = some (goAggregate k) := by
  cases k <;> rfl

/-- a reader combines the same cell of two files with the same aggregate the merger uses -/
theorem tie_readerAggTable (ty : FieldType) :
    lookup Generated.C03.readerAggTable ty.code = lookup Generated.C03.fieldAggTable ty.code := by
  cases ty <;> rfl

/-- empty-slot conventions: the merge buffer is filled with +Inf, +Inf means "not set" in the
merge, in the encoder and in the reader-side aggregator (the model's `none`) -/
theorem tie_empty_marker :
    Generated.C03.emptyFill = "math.Inf(1) + 1" ∧
    Generated.C03.mergeEmptyCheck = "math.IsInf(targetValues[targetPos], 1)" ∧
    Generated.C03.emitEmptyCheck = "math.IsInf(value, 1)" ∧
    Generated.C03.readerDropCheck = "math.IsInf(value, 1)" ∧
    Generated.C03.mergeSkipCheck = "targetPos < 0" ∧
    Generated.C03.mergeBreakCheck = "targetPos >= length" ∧
    Generated.C03.targetLengthExpr = "int(target.End-target.Start) + 1" := by
  refine ⟨rfl, rfl, rfl, rfl, rfl, rfl, rfl⟩

/-- the target position computed by `feed` is the Go expression -/
theorem tie_targetPos (base t ratio tStart : Nat) :
    Generated.C03.targetPos base t ratio tStart =
      (base : Int) + ((t / ratio : Nat) : Int) - (tStart : Int) := by
  unfold Generated.C03.targetPos
  rw [← Int.ofNat_tdiv]

/-- compaction merge: source range copied, ratio 1 (`compactCfg`); first block recognised by the
empty field list -/
theorem tie_prepare :
    Generated.C03.compactPrepare = ["ctx.targetRange.Start = ctx.sourceRange.Start",
      "ctx.targetRange.End = ctx.sourceRange.End", "ctx.ratio = 1"] ∧
    Generated.C03.firstBlockCheck = "len(ctx.targetFields) == 0" ∧
    compactCfg.ratio = 1 ∧ compactCfg.baseSlot = 0 := by
  refine ⟨rfl, rfl, rfl, rfl⟩

/-- structure of the compaction job the model mirrors -/
theorem tie_compact_job :
    Generated.C03.doMergeCalls = ["c.newCompactFlusher", "c.newMerger", "c.makeInputIterator",
      "merger.Init", "it.HasNext", "it.Key", "it.Value", "append", "merger.Merge", "append", "len",
      "merger.Merge", "c.finishCompactionOutputFile"] ∧
    Generated.C03.installCalls = ["compaction.MarkInputDeletes", "compaction.GetLevel",
      "compaction.AddFile", "compaction.GetEditLog", "family.commitEditLog", "family.familyInfo", "fmt.Errorf"] ∧
    Generated.C03.afterAddCheck = "cf.compactJob.state.builder.Size() >= cf.compactJob.state.maxFileSize" ∧
    Generated.C03.overlapSkipCheck = "fileMeta.GetMaxKey() < minKey || fileMeta.GetMinKey() > maxKey" ∧
    Generated.C03.findFilesCheck = "key >= file.GetMinKey() && key <= file.GetMaxKey()" ∧
    Generated.C03.pickThresholdCheck = "v.NumberOfFilesInLevel(0) < compactThreshold" ∧
    Generated.C03.trivialMoveExpr = "len(c.levelInputs) == 1 && len(c.levelUpInputs) == 0" := by
  refine ⟨rfl, rfl, rfl, rfl, rfl, rfl, rfl⟩

/-- the model's `rebind` flag is read off the wrapper's method set: only a wrapper that overrides
`Prepare` can direct the next key to the current output builder -/
theorem tie_rebind :
    Generated.C03.streamWriterRebinds = Generated.C03.streamWriterWrapperMethods.contains "Prepare" := by
  decide

/-- `dataScanner.scan` steps at most one container per call, only when it is behind, and answers
only for the container it sits on (the model's `Scanner.scan`); `merger.prepare` widens the slot
range on both sides independently -/
theorem tie_scanner :
    Generated.C03.scanChecks = ["s.highKey < highKey", "s.highContainerIdx >= len(s.highKeys)", "err != nil",
      "highKey != s.highKey", "s.container.Contains(lowSeriesID)"] ∧
    Generated.C03.scanLoops = 0 ∧
    Generated.C03.rangeStartCheck = "ctx.sourceRange.Start > timeRange.Start" ∧
    Generated.C03.rangeEndCheck = "ctx.sourceRange.End < timeRange.End" := by
  refine ⟨rfl, rfl, rfl, rfl⟩

/-- the down-sampling merge keeps its scratch values per call: the only package-level variables it
reaches are the `sync.Pool` of float slices and the read-only `+Inf` fill pattern — no buffer shared
between two merge jobs running at the same time (the model's `feed`/`emit` accumulator is local) -/
theorem tie_no_shared_scratch :
    Generated.C03.downSamplingPackageVars = ["float64Pool", "infFilledBlock"] := by
  decide

/-- nothing survives a `Merge` call inside the merger: its struct holds the block writer, the series
merger and the rollup context only, none of them is assigned while merging; the series merger holds
the writer only. (A field-reader cache kept across metrics — seeded c03-9 — adds a struct field.) -/
theorem tie_merger_stateless :
    Generated.C03.mergerStructFields = ["dataFlusher", "seriesMerger", "rollup"] ∧
    Generated.C03.mergerAssignsInMerge = [] ∧
    Generated.C03.seriesMergerStructFields = ["flusher"] ∧
    Generated.C03.seriesMergerAssigns = [] := by
  refine ⟨rfl, rfl, rfl, rfl⟩

/-- the block writer's bookkeeping as the model mirrors it (`Model/BlockWriter.lean`):
`FlushSeries` — deferred `Level4.startAt = Size()`; first series sets the high key; a high-key change
flushes the bucket, resets the low-key offsets and re-bases `Level3.startAt`, adds the absolute
high-key offset and re-bases `Level4.startAt` (seeded c03-8 drops this one); `flushField` —
`fieldDataAt = Size() - Level4.startAt`; `flushLevel2SeriesBucket` — position relative to
`Level3.startAt`, nothing for an empty bucket; `CommitMetric` defers `reset()`, which clears all of it. -/
theorem tie_flusher_bookkeeping :
    Generated.C03.flushSeriesAssigns = ["w.Level4.startAt = int(w.kvWriter.Size())",
      "w.Level3.isHighKeySetEver = true", "w.Level3.highKey = highKey", "w.Level3.highKey = highKey",
      "w.Level3.startAt = int(w.kvWriter.Size())", "w.Level4.startAt = int(w.kvWriter.Size())"] ∧
    Generated.C03.flushSeriesChecks = ["!seriesHasData", "!w.Level3.isHighKeySetEver",
      "highKey != w.Level3.highKey", "err != nil", "err != nil"] ∧
    Generated.C03.flushSeriesCalls = ["defer:?", "encoding.HighBits", "w.flushLevel2SeriesBucket",
      "lowKeyOffsets.Reset", "kvWriter.Size", "int", "kvWriter.Size", "int", "highKeyOffsets.Add",
      "kvWriter.Size", "int", "kvWriter.Size", "int", "lowKeyOffsets.Add", "w.flushField", "seriesIDs.Add"] ∧
    Generated.C03.flushFieldAssigns = ["w.Level4.fieldAppendIdx = 0",
      "fieldDataAt := int(w.kvWriter.Size()) - w.Level4.startAt"] ∧
    Generated.C03.flushFieldCalls = ["defer:?", "fieldMetas.Len", "kvWriter.Size", "int", "kvWriter.Write",
      "fieldDataOffsets.Add", "w.writeLevel4OffsetsFooter"] ∧
    Generated.C03.flushBucketAssigns = ["posOfLowKeyOffsets := int(w.kvWriter.Size()) - w.Level3.startAt"] ∧
    Generated.C03.flushBucketChecks = ["posOfLowKeyOffsets <= 0", "err != nil"] ∧
    Generated.C03.prepareMetricCalls = ["kvWriter.Prepare", "highKeyOffsets.Add", "len", "make", "w.prepareEncoder"] ∧
    Generated.C03.flusherResetAssigns = ["w.Level2.fieldMetas = w.Level2.fieldMetas[:0]", "w.Level3.startAt = 0",
      "w.Level3.isHighKeySetEver = false", "w.Level4.startAt = 0"] ∧
    Generated.C03.flusherResetCalls = ["seriesIDs.Clear", "highKeyOffsets.Reset", "lowKeyOffsets.Reset",
      "fieldDataOffsets.Reset"] ∧
    Generated.C03.commitMetricFirstCalls = ["defer:w.reset", "seriesIDs.IsEmpty", "w.flushLevel2SeriesBucket"] := by
  refine ⟨rfl, rfl, rfl, rfl, rfl, rfl, rfl, rfl, rfl, rfl, rfl⟩

/-- the stream-writer wrapper registers the key with the current builder BEFORE `afterAdd` may finish the
output file (seeded c03-7 swaps the two), and re-opens/re-binds BEFORE it prepares the next key -/
theorem tie_stream_writer_order :
    Generated.C03.streamWriterCommitCalls = ["StreamWriter.Commit", "compactFlusher.afterAdd"] ∧
    Generated.C03.streamWriterPrepareCalls = ["cf.beforeAdd", "builder.StreamWriter", "StreamWriter.Prepare"] := by
  refine ⟨rfl, rfl⟩

/-- `version.FindFiles` visits every file of every level: no statement leaves one of its loops early
(seeded c03-12 breaks out of a level above 0 after the first covering file) -/
theorem tie_find_files :
    Generated.C03.findFilesLoopExits = [] ∧
    Generated.C03.findFilesCalls = ["level.getFiles", "file.GetMinKey", "file.GetMaxKey", "append"] ∧
    Generated.C03.findFilesCheck = "key >= file.GetMinKey() && key <= file.GetMaxKey()" := by
  refine ⟨rfl, rfl, rfl⟩

/-- `mergeCompaction`: the error of `doMerge` is the function's named result, the results are installed
only on the path after `doMerge` returned nil and (since fix f4ef1f5) a failed manifest commit is the job's error,
the deferred literal only cleans up and logs
(seeded c03-10 installs from the defer, guarded by a shadowed `err`) -/
theorem tie_merge_compaction :
    Generated.C03.mergeCompactionResults = ["err"] ∧
    Generated.C03.mergeCompactionDeferCalls = ["c.cleanupCompaction", "time.Since", "family.familyInfo",
      "logger.String", "logger.String", "elapsed.String", "logger.String", "kvLogger.Info"] ∧
    Generated.C03.mergeCompactionTail = ["if err := c.doMerge(); err != nil { return err }",
      "return c.installCompactionResults()"] := by
  refine ⟨rfl, rfl, rfl⟩

/-- the union bitmap of `prepare` is a new one, never assigned afterwards, only or-ed into
(seeded c03-13 takes the first block's bitmap) -/
theorem tie_union_fresh :
    Generated.C03.unionBaseExpr = "roaring.New()" ∧ Generated.C03.unionAssigns = [] ∧
    Generated.C03.unionCalls = ["seriesIDs.Or"] := by
  refine ⟨rfl, rfl, rfl⟩

/-- the decoder loop reads the value right behind the has-value test, before the position tests, and
there is exactly one `decoder.Value()` in the function (seeded c03-14 moves it into the branches); the
conversion statement of `fixes/C03-slot-loop-uint16-wrap.patch` (loop over `int`) is accepted in front -/
theorem tie_decoder_loop :
    Generated.C03.decoderLoopStmts.filter (fun s => s != "movingSourceSlot := uint16(slot)") =
     ["if !decoder.HasValueWithSlot(movingSourceSlot)",
      "value := math.Float64frombits(decoder.Value())",
      "targetPos := bs + int(movingSourceSlot/ratio) - int(target.Start)",
      "if targetPos < 0", "if targetPos >= length", "if math.IsInf(targetValues[targetPos], 1)"] ∧
    Generated.C03.decoderValueCalls = 1 := by
  refine ⟨rfl, rfl⟩

/-- `MarkInputDeletes` deletes the inputs of `level` from `level` and those of `level+1` from `level+1`
(seeded c03-15 deletes both lists from `level`) -/
theorem tie_mark_input_deletes :
    Generated.C03.markInputDeletesLoops =
      ["range c.levelInputs -> c.editLog.Add(NewDeleteFile(int32(c.level), input.fileNumber))",
       "range c.levelUpInputs -> c.editLog.Add(NewDeleteFile(int32(c.level+1), upInput.fileNumber))"] := by
  rfl

/-- the model's `tol` flag is read off `nextContainer`: does it have a branch for a zero-length bucket -/
theorem tie_tolerant :
    Generated.C03.scannerToleratesEmptyBucket =
      Generated.C03.nextContainerChecks.contains "len(level3Block) == 0" := by
  decide

/-! ## 5. The recorded findings (negations on witnesses) -/

namespace Neg

def wBlock (sid : Nat) (v : Int) : Block Int :=
  { fields := [(1, .sum)], start := 5, stop := 6, series := [(sid, [(1, [(5, v), (6, v + 1)])])] }

def wFile (i : Int) : File Int :=
  { minKey := 1, maxKey := 2, entries := [(1, wBlock 10 i), (2, wBlock 20 (10 * i))] }

/-- three flushed level-0 files with metrics 1 and 2 -/
def wState : Family Int := { l0 := [wFile 1, wFile 2, wFile 3], l1 := [] }

/-- `FamilyOption.MaxFileSize = 1` -/
def wParams (rebind : Bool) : Params Int :=
  { threshold := 0, maxFileSize := 1, size := fun _ _ => 68, shuffle := id, rebind := rebind, tolerant := false, failAt := none }

/-- F1 (repaired by 4fd9a00): **the compaction whose output needs a second file does not complete**
when the stream writer is bound to the first output builder for good: `afterAdd` dereferences the
nil `state.builder` on the second key. Case 0 of every run replays this input on the real code
(key `compact-output-split-stale-stream-writer`; it must pass now). -/
theorem split_without_rebind_crashes : (compact aggInt (wParams false) wState).2 = .crashed := by
  decide

/-- the same compaction with a writer that follows the current builder completes and splits -/
theorem split_with_rebind_merges : (compact aggInt (wParams true) wState).2 = .merged ∧
    (compact aggInt (wParams true) wState).1.l1.length = 2 := by
  decide

/-- in general: no rebinding and a second output file ⇒ the job does not complete -/
theorem crash_of_split (agg : FieldType → V → V → V) (p : Params V) (st : Family V)
    (h1 : ¬ st.l0.length < p.threshold) (h2 : ¬ (st.l0.length = 1 ∧ (pickUp st.l0 st.l1).isEmpty))
    (hr : p.rebind = false)
    (hs : (splitLoop p.size p.maxFileSize (mergedEntries agg p (st.l0 ++ pickUp st.l0 st.l1)) [] 0).length > 1) :
    (compact agg p st).2 = .crashed := by
  have h3 : jobFails agg p (st.l0 ++ pickUp st.l0 st.l1) = true := by
    unfold jobFails
    simp [hr, hs]
  unfold compact
  rw [if_neg h1]; simp only []
  rw [if_neg h2, if_pos h3]

/-! F2: zero-length series bucket. A memory database flushes EVERY series of the metric's shard
index into each block (`timeSeriesIndex.FlushMetricsDataTo` iterates `idx.ids`), with
`FlushField(nil)` for a series that has no page in this memory database; for a single-field metric
such an entry is zero bytes long. -/

/-- a single-field block as a memory database flushes it: series 0 and 131072 wrote in this window,
series 65536 (alone in its container) did not -/
def dA : Block Int :=
  { fields := [(1, .sum)], start := 5, stop := 6,
    series := [(0, [(1, [(5, 3)])]), (65536, []), (131072, [(1, [(5, 7)])])] }

/-- the other input: all three series wrote -/
def dB : Block Int :=
  { fields := [(1, .sum)], start := 5, stop := 6,
    series := [(0, [(1, [(5, 10)])]), (65536, [(1, [(5, 20)])]), (131072, [(1, [(5, 30)])])] }

/-- **F2a: the merger silently drops every container behind a zero-length bucket**: the value 7 of
series 131072 in `dA` is lost (the merged block holds 30 instead of 37), although both inputs are
blocks a memory database flushes. Case 4 of every run replays this on the real merger and on a
real family compaction (key `merge-empty-series-bucket-drops-later-containers`). -/
theorem dead_bucket_drops_later_containers :
    (mergeBlocks false aggInt [dA, dB]).get 131072 1 5 = some 30 ∧
    (mergeBlocksI aggInt [dA, dB]).get 131072 1 5 = some 37 ∧
    mergeFails false [dA, dB] = false := by
  decide

/-- with a scanner that accepts the zero-length bucket nothing is lost -/
theorem dead_bucket_tolerated :
    (mergeBlocks true aggInt [dA, dB]).get 131072 1 5 = some 37 ∧
    (mergeBlocks true aggInt [dA, dB]).get 0 1 5 = some 13 ∧
    (mergeBlocks true aggInt [dA, dB]).get 65536 1 5 = some 20 := by
  decide

/-- the block whose FIRST container is a zero-length bucket -/
def dC : Block Int :=
  { fields := [(1, .sum)], start := 5, stop := 6, series := [(0, []), (65536, [(1, [(5, 7)])])] }

def dParams (tol : Bool) : Params Int :=
  { threshold := 0, maxFileSize := 1000, size := fun _ _ => 1, shuffle := id, rebind := true, tolerant := tol, failAt := none }

def dState : Family Int :=
  { l0 := [{ minKey := 1, maxKey := 1, entries := [(1, dC)] }, { minKey := 1, maxKey := 1, entries := [(1, dB)] }],
    l1 := [] }

/-- **F2b: `newDataScanner` fails on a block whose first container is a zero-length bucket**:
`Merge` returns an error, the compaction job never completes (key
`merge-empty-first-series-bucket-fails`, case 5) -/
theorem dead_first_bucket_fails :
    mergeFails false [dC, dB] = true ∧ mergeFails true [dC, dB] = false ∧
    (compact aggInt (dParams false) dState).2 = .crashed ∧
    (compact aggInt (dParams true) dState).2 = .merged := by
  decide

/-! aliasing, lazy value reads, one-level deletes -/

/-- taking the first block's bitmap as the union: the first block's own id set has changed when its
scanner comes to read it ([1] became [1, 2]); the second block's has not -/
theorem aliased_union_changes_first_block :
    MergeAux.Alias.deref (MergeAux.Alias.prepareUnion false [[1], [2]] [0, 1]).1 0 = [1, 2] ∧
    MergeAux.Alias.deref (MergeAux.Alias.prepareUnion false [[1], [2]] [0, 1]).1 1 = [2] ∧
    MergeAux.Alias.deref (MergeAux.Alias.prepareUnion true [[1], [2]] [0, 1]).1 0 = [1] := by
  decide

/-- a `First` field, target position 0 already set (9) by an earlier input; this input has the slots 0 and 1
(5 and 7). The code reads 5 although it keeps 9, and goes on to place 7. A loop that does not read the
value it does not use meets the value where it expects the next has-value bit: out of step. -/
theorem lazy_value_read_desynchronises :
    MergeAux.Stream.feedS true true (fun a _ => a) compactCfg 0 2
        (MergeAux.Stream.encode [(0, (5 : Int)), (1, 7)] 0 2) [(0, 9)] 0 2 = some [(0, 9), (1, 7)] ∧
    MergeAux.Stream.feedS false true (fun a _ => a) compactCfg 0 2
        (MergeAux.Stream.encode [(0, (5 : Int)), (1, 7)] 0 2) [(0, 9)] 0 2 = none := by
  decide

/-- deleting the level-1 input from level 0: it survives next to the output that contains its data
(every value of it counted twice by a reader) -/
theorem one_level_deletes_keep_upper_input :
    MergeAux.Edit.applyAll [[1, 2], [3, 4]] (MergeAux.Edit.installRecs false 0 [1, 2] [3] [9]) = [[], [3, 4, 9]] ∧
    MergeAux.Edit.applyAll [[1, 2], [3, 4]] (MergeAux.Edit.installRecs true 0 [1, 2] [3] [9]) = [[], [4, 9]] := by
  decide

/-! level-1 key ranges may overlap -/

def oBlock (v : Int) : Block Int :=
  { fields := [(1, .sum)], start := 0, stop := 0, series := [(7, [(1, [(0, v)])])] }

def oFile (ks : List Nat) (v : Int) : File Int :=
  { minKey := ks.head!, maxKey := ks.getLast!, entries := ks.map (fun k => (k, oBlock v)) }

def oParams : Params Int :=
  { threshold := 0, maxFileSize := 100000, size := fun _ _ => 1, shuffle := id, rebind := true, tolerant := true,
    failAt := none }

/-- level 1 holds metrics 100..102 (an earlier compaction); level 0 gets one file below (1..2) and one
above (1000..1001) -/
def oState : Family Int :=
  { l0 := [oFile [1, 2] 5, oFile [1000, 1001] 6], l1 := [oFile [100, 101, 102] 7] }

/-- neither level-0 file overlaps the level-1 file, so it is not picked; the merged output spans it:
after the compaction level 1 holds the files [100..102] and [1..1001] — overlapping key RANGES —
and a reader of metric 101 must still be given the first one (it is: `view` asks every covering file). -/
theorem level1_ranges_overlap :
    (compact aggInt oParams oState).2 = .merged ∧
    (compact aggInt oParams oState).1.l1.map (fun f => (f.minKey, f.maxKey)) = [(100, 102), (1, 1001)] ∧
    view (aggInt .sum) (compact aggInt oParams oState).1 101 7 1 0 = some 7 ∧
    view (aggInt .sum) (compact aggInt oParams oState).1 1000 7 1 0 = some 6 := by
  decide

/-- an output file that cannot be created: nothing is installed -/
theorem fault_installs_nothing :
    (compact aggInt { oParams with maxFileSize := 1, failAt := some 1 } oState).2 = .crashed ∧
    (compact aggInt { oParams with maxFileSize := 1, failAt := some 1 } oState).1.l0.length = 2 := by
  decide

/-! first/last: membership is all there is -/

def lBlock (v : Int) : Block Int :=
  { fields := [(1, .last)], start := 0, stop := 0, series := [(7, [(1, [(0, v)])])] }

def lState : Family Int :=
  { l0 := [{ minKey := 1, maxKey := 1, entries := [(1, lBlock 5)] },
           { minKey := 1, maxKey := 1, entries := [(1, lBlock 9)] }], l1 := [] }

def lParams (sh : List (Nat × Block Int) → List (Nat × Block Int)) : Params Int :=
  { threshold := 0, maxFileSize := 1000, size := fun _ _ => 1, shuffle := sh, rebind := true, tolerant := true, failAt := none }

/-- two level-0 files hold the same slot of a `last` field (5 and 9). Both tie orders of the merged
iterator are permutations; one compaction keeps 9, the other 5; a reader of the uncompacted files
sees 9 or 5 depending on the order in which it visits the two files. Each outcome is one of the
contributed values, and that is all that can be said. -/
theorem first_last_depend_on_tie_order :
    view (aggInt .last) (compact aggInt (lParams id) lState).1 1 7 1 0 = some 9 ∧
    view (aggInt .last) (compact aggInt (lParams List.reverse) lState).1 1 7 1 0 = some 5 ∧
    view (aggInt .last) lState 1 7 1 0 = some 9 ∧
    view (aggInt .last) { lState with l0 := lState.l0.reverse } 1 7 1 0 = some 5 ∧
    contrib lState 1 7 1 0 = [5, 9] := by
  decide

/-- `dA` is exactly what `GoodBlock false` excludes, and what `GoodBlock true` admits -/
theorem dA_not_good : ¬ GoodBlock false dA ∧ GoodBlock true dA := by
  constructor
  · rintro ⟨_, h | h⟩
    · cases h
    · have := h 1 (by decide)
      revert this; decide
  · exact ⟨by decide, Or.inl rfl⟩

end Neg

/-! ## 6. Non-vacuity -/

/-- the witness state satisfies the invariant (schema: field 1 is a sum field) and the identity
tie order is a permutation: the hypotheses of the compaction theorems are satisfiable -/
example : StateWF (fun _ _ => FieldType.sum) false Neg.wState ∧ (∀ l, ((Neg.wParams true).shuffle l).Perm l) := by
  refine ⟨?_, fun l => List.Perm.refl l⟩
  intro f hf
  simp only [Neg.wState, Family.files, List.append_nil, List.mem_cons, List.not_mem_nil, or_false] at hf
  have hS : ∀ i : Int, FileWF (Neg.wFile i) ∧ SchemaOK (fun _ _ => FieldType.sum) (Neg.wFile i) ∧
      BlocksGood false (Neg.wFile i) := by
    intro i
    refine ⟨⟨by simp [Neg.wFile, keys], ?_⟩, ?_, ?_⟩
    · intro k hk; simp [Neg.wFile, keys] at hk ⊢; omega
    · intro m b hmb fid ty hty
      simp only [Neg.wFile, List.mem_cons, Prod.mk.injEq, List.not_mem_nil, or_false] at hmb
      rcases hmb with ⟨_, hb⟩ | ⟨_, hb⟩ <;>
      · subst hb
        simp only [Block.fieldType?, Neg.wBlock, lookup_cons] at hty
        split at hty
        · cases hty; rfl
        · cases hty
    · intro m b hmb
      simp only [Neg.wFile, List.mem_cons, Prod.mk.injEq, List.not_mem_nil, or_false] at hmb
      rcases hmb with ⟨_, hb⟩ | ⟨_, hb⟩ <;>
      · subst hb
        refine ⟨by simp [Neg.wBlock], Or.inr ?_⟩
        intro k hk
        simp only [highKeys, Neg.wBlock, List.foldl_cons, List.foldl_nil, insertId, List.mem_singleton] at hk
        subst hk
        simp [deadBucket, bucket, Neg.wBlock, zeroLen, lookup_cons]
  rcases hf with h | h | h <;> (subst h; exact hS _)

/-- and compaction really merges there: metric 1, series 10, field 1, slot 5 reads 1+2+3 before
and after, from three files before and from one after -/
example :
    view (aggInt .sum) Neg.wState 1 10 1 5 = some 6 ∧
    view (aggInt .sum) (compact aggInt (Neg.wParams true) Neg.wState).1 1 10 1 5 = some 6 ∧
    (contrib Neg.wState 1 10 1 5).length = 3 ∧
    (contrib (compact aggInt (Neg.wParams true) Neg.wState).1 1 10 1 5).length = 1 := by
  decide

def exA : Block Int :=
  { fields := [(1, .last), (2, .first)], start := 0, stop := 1, series := [(7, [(1, [(0, 5)]), (2, [(0, 5)])])] }
def exB : Block Int :=
  { fields := [(2, .first), (1, .last)], start := 0, stop := 3, series := [(7, [(1, [(0, 9)]), (2, [(0, 9)])])] }

/-- the writer/reader pair on a concrete block: two containers, a multi-field metric, a series without
one field, a series without any data -/
def exW : Block Int :=
  { fields := [(3, .sum), (1, .min)], start := 2, stop := 9,
    series := [(5, [(3, [(2, 10)]), (1, [(4, -1)])]), (65540, [(1, [(9, 7)])]), (65541, [])] }

example : (match writeBlock exW with
    | none => false
    | some e => e.highOffs == [0, 6] && e.stream.length == 13 &&
        readField e 65540 1 == some [(9, 7)] && readField e 65540 3 == none &&
        readField e 5 3 == some [(2, 10)] && readField e 65541 1 == none) = true := by
  decide

/-- first/last really depend on the order: two blocks, `last` keeps the second, `first` the first -/
example : (mergeBlocks false aggInt [exA, exB]).get 7 1 0 = some 9 ∧
    (mergeBlocks false aggInt [exA, exB]).get 7 2 0 = some 5 := by
  decide

end LinVerif.Props.C03
