/-
C12, round 13: the second application of `calcTimeRangeAndInterval` (at the intermediate node, on the
statement the root already processed) changes nothing — which is what "using intermediate nodes for
grouping or not ... yield the same result" needs of this glue — exactly outside two regions, both
of which are findings of the real code (`Neg`): auto group-by-time, and a range whose truncation
moves its length across a threshold of `CalcQueryInterval`.
-/
import LinVerif.Model.C12TimePlan
import LinVerif.Generated.C12

namespace LinVerif.Props.C12
open LinVerif.TimePlan

theorem truncate_idem (t u : Nat) (hu : 0 < u) : truncate (truncate t u) u = truncate t u := by
  unfold truncate; rw [Nat.mul_div_cancel _ hu]

theorem bestLE_none {i : Nat} {ivs : List Nat} (h : bestLE i ivs = none) : ∀ v ∈ ivs, ¬ v ≤ i := by
  induction ivs with
  | nil => intro v hv; cases hv
  | cons a as ih =>
    unfold bestLE at h
    cases hb : bestLE i as with
    | none =>
      rw [hb] at h; simp only at h
      by_cases ha : a ≤ i
      · simp [ha] at h
      · intro v hv
        rcases List.mem_cons.mp hv with rfl | hv
        · exact ha
        · exact ih hb v hv
    | some b =>
      rw [hb] at h; simp only at h
      split at h <;> cases h

theorem bestLE_some {i : Nat} {ivs : List Nat} {b : Nat} (h : bestLE i ivs = some b) :
    b ∈ ivs ∧ b ≤ i ∧ ∀ v ∈ ivs, v ≤ i → v ≤ b := by
  induction ivs generalizing b with
  | nil => cases h
  | cons a as ih =>
    unfold bestLE at h
    cases hb : bestLE i as with
    | none =>
      rw [hb] at h; simp only at h
      by_cases ha : a ≤ i
      · simp [ha] at h; subst h
        refine ⟨List.mem_cons_self, ha, ?_⟩
        intro v hv hvi
        rcases List.mem_cons.mp hv with rfl | hv
        · exact Nat.le_refl _
        · exact absurd hvi (bestLE_none hb v hv)
      · simp [ha] at h
    | some b0 =>
      rw [hb] at h; simp only at h
      obtain ⟨hm, hle, hmax⟩ := ih hb
      by_cases hc : a ≤ i ∧ b0 < a
      · rw [if_pos hc] at h; cases h
        refine ⟨List.mem_cons_self, hc.1, ?_⟩
        intro v hv hvi
        rcases List.mem_cons.mp hv with rfl | hv
        · exact Nat.le_refl _
        · exact Nat.le_trans (hmax v hv hvi) (Nat.le_of_lt hc.2)
      · rw [if_neg hc] at h; cases h
        refine ⟨List.mem_cons_of_mem _ hm, hle, ?_⟩
        intro v hv hvi
        rcases List.mem_cons.mp hv with rfl | hv
        · by_cases hlt : b < v
          · exact absurd ⟨hvi, hlt⟩ hc
          · omega
        · exact hmax v hv hvi

/-- `FindMatchSmallestInterval` answers a configured interval. -/
theorem findMatch_mem (first : Nat) (ivs : List Nat) (i : Nat) (hfirst : first ∈ ivs) :
    findMatch first ivs i ∈ ivs := by
  unfold findMatch
  cases hb : bestLE i ivs with
  | none => exact hfirst
  | some b => exact (bestLE_some hb).1

theorem intervalRatio_pos (q s : Nat) (hs : 0 < s) : 1 ≤ intervalRatio q s := by
  unfold intervalRatio
  split
  · exact Nat.le_refl _
  · rename_i h
    have : s ≤ q := by omega
    exact Nat.div_pos this hs

theorem intervalRatio_mul (s r : Nat) (hs : 0 < s) (hr : 1 ≤ r) : intervalRatio (s * r) s = r := by
  unfold intervalRatio
  have : s * 1 ≤ s * r := Nat.mul_le_mul_left s hr
  rw [if_neg (by omega)]
  exact Nat.mul_div_cancel_left r hs

/-- rounding the query interval to a multiple of the storage interval is stable: the storage
interval matched for `m` is matched again for the rounded interval. -/
theorem findMatch_stable (first : Nat) (ivs : List Nat) (m : Nat) (hfirst : first ∈ ivs)
    (hpos : ∀ v ∈ ivs, 0 < v) :
    findMatch first ivs (findMatch first ivs m * intervalRatio m (findMatch first ivs m))
      = findMatch first ivs m := by
  have hstpos : 0 < findMatch first ivs m := hpos _ (findMatch_mem first ivs m hfirst)
  have hr := intervalRatio_pos m (findMatch first ivs m) hstpos
  revert hstpos hr
  unfold findMatch
  cases hb : bestLE m ivs with
  | some b =>
    simp only
    intro hbpos hr
    obtain ⟨hbm, hble, hbmax⟩ := bestLE_some hb
    have hrv : intervalRatio m b = m / b := by
      unfold intervalRatio; rw [if_neg (by omega)]
    have hle : b * intervalRatio m b ≤ m := by rw [hrv]; exact Nat.mul_div_le m b
    have hge : b ≤ b * intervalRatio m b := by
      have := Nat.mul_le_mul_left b hr; omega
    cases hb2 : bestLE (b * intervalRatio m b) ivs with
    | none => exact absurd hge (bestLE_none hb2 b hbm)
    | some b' =>
      simp only
      obtain ⟨hm', hle', hmax'⟩ := bestLE_some hb2
      have h1 : b ≤ b' := hmax' b hbm hge
      have h2 : b' ≤ b := hbmax b' hm' (Nat.le_trans hle' hle)
      omega
  | none =>
    simp only
    intro hfpos hr
    have hlt : m < first := by
      have := bestLE_none hb first hfirst; omega
    have hrv : intervalRatio m first = 1 := by
      unfold intervalRatio; rw [if_pos (Or.inr hlt)]
    rw [hrv, Nat.mul_one]
    cases hb2 : bestLE first ivs with
    | none => exact absurd (Nat.le_refl _) (bestLE_none hb2 first hfirst)
    | some b' =>
      simp only
      obtain ⟨hm', hle', hmax'⟩ := bestLE_some hb2
      have h1 : first ≤ b' := hmax' first hfirst (Nat.le_refl _)
      omega

/-- the second pass's ratio: `c` = the interval the second pass starts from (`≤` the first pass's
`i2`), the statement carries the rounded `st * ratio i2 st`. -/
theorem ratio_second_pass (st c i2 : Nat) (hst : 0 < st) (hc : c ≤ i2) :
    intervalRatio (if c < st * intervalRatio i2 st then st * intervalRatio i2 st else c) st
      = intervalRatio i2 st := by
  have hr := intervalRatio_pos i2 st hst
  by_cases hlt : i2 < st
  · have hrv : intervalRatio i2 st = 1 := by unfold intervalRatio; rw [if_pos (Or.inr hlt)]
    rw [hrv, Nat.mul_one, if_pos (by omega)]
    unfold intervalRatio
    rw [if_neg (by omega)]
    exact Nat.div_self hst
  · have hrv : intervalRatio i2 st = i2 / st := by unfold intervalRatio; rw [if_neg (by omega)]
    have hle : st * intervalRatio i2 st ≤ i2 := by rw [hrv]; exact Nat.mul_div_le i2 st
    have hge : st ≤ st * intervalRatio i2 st := by
      have := Nat.mul_le_mul_left st hr; omega
    by_cases hci : c < st * intervalRatio i2 st
    · rw [if_pos hci]; exact intervalRatio_mul st _ hst hr
    · rw [if_neg hci]
      have hcst : st ≤ c := by omega
      have h1 : c / st ≤ i2 / st := Nat.div_le_div_right hc
      have h2 : i2 / st ≤ c / st := by
        apply (Nat.le_div_iff_mul_le hst).2
        rw [Nat.mul_comm, ← hrv]; omega
      rw [hrv]
      unfold intervalRatio
      rw [if_neg (by omega)]
      omega

/-- the automatic interval depends on the range length only through its region: either the given
interval is kept (`< 1h`) or a constant replaces it. -/
theorem calcQueryInterval_cases (d : Nat) :
    (∀ q, calcQueryInterval d q = q) ∨ (∃ c, ∀ q, calcQueryInterval d q = c) := by
  unfold calcQueryInterval
  by_cases h : d < oneHour
  · left; intro q; rw [if_pos h]
  · right
    refine ⟨calcQueryInterval d 0, ?_⟩
    intro q
    unfold calcQueryInterval
    rw [if_neg h, if_neg h]

/-- **The intermediate's pass changes nothing (partial).** For every database option (any number of
positive storage intervals, `Intervals[0]` among them) and every statement without auto
group-by-time whose truncated range has the automatic interval of the given range (no threshold of
`CalcQueryInterval` lies between the two lengths): the statement a leaf receives behind an
intermediate is the statement a leaf receives from the root. The two excluded regions are findings
(`Neg.auto_group_by_time_replanned`, `Neg.range_truncated_across_threshold_replanned`). -/
theorem intermediate_pass_changes_nothing_partial (first : Nat) (ivs : List Nat) (s : Stmt)
    (hfirst : first ∈ ivs) (hpos : ∀ v ∈ ivs, 0 < v) (hauto : s.auto = false)
    (hregion : ∀ q, calcQueryInterval ((calcPlan first ivs s).stop - (calcPlan first ivs s).start) q
      = calcQueryInterval (s.stop - s.start) q) :
    leafViaIntermediate first ivs s = leafDirect first ivs s := by
  unfold leafViaIntermediate leafDirect
  have hfpos : 0 < first := hpos _ hfirst
  -- names for the first pass
  generalize hs1 : calcPlan first ivs s = s1 at hregion ⊢
  unfold calcPlan calcWith at hs1
  simp only [hauto] at hs1
  rcases calcQueryInterval_cases (s.stop - s.start) with hid | ⟨c, hc⟩
  · -- range < 1h: the given interval is kept
    have hreg' : ∀ q, calcQueryInterval (s1.stop - s1.start) q = q := fun q => by rw [hregion, hid]
    simp only [hid] at hs1
    generalize hm : (if s.interval = 0 then first else s.interval) = m at hs1
    have hi2 : (if m < s.interval then s.interval else m) = m := by
      subst hm; by_cases h0 : s.interval = 0
      · simp [h0]
      · simp [h0]
    simp only [Bool.false_eq_true, if_false, hi2] at hs1
    have hstpos : 0 < findMatch first ivs m := hpos _ (findMatch_mem first ivs m hfirst)
    have hr := intervalRatio_pos m (findMatch first ivs m) hstpos
    have hIpos : 0 < findMatch first ivs m * intervalRatio m (findMatch first ivs m) :=
      Nat.mul_pos hstpos hr
    subst hs1
    unfold calcPlan calcWith
    simp only [hreg', Bool.false_eq_true, if_false]
    rw [if_neg (by omega)]
    rw [findMatch_stable first ivs m hfirst hpos]
    simp only [Nat.lt_irrefl, if_false, truncate_idem _ _ hstpos,
      intervalRatio_mul _ _ hstpos hr]
  · -- range >= 1h: the automatic interval is the same constant in both passes
    have hreg' : ∀ q, calcQueryInterval (s1.stop - s1.start) q = c := fun q => by rw [hregion, hc]
    simp only [hc, Bool.false_eq_true, if_false] at hs1
    have hstpos : 0 < findMatch first ivs c := hpos _ (findMatch_mem first ivs c hfirst)
    have hle : c ≤ (if c < s.interval then s.interval else c) := by
      by_cases h : c < s.interval
      · rw [if_pos h]; omega
      · rw [if_neg h]; exact Nat.le_refl _
    subst hs1
    unfold calcPlan calcWith
    simp only [hreg', Bool.false_eq_true, if_false, truncate_idem _ _ hstpos,
      ratio_second_pass _ _ _ hstpos hle]

/-- corollary in the terms of the seeded region: range `< 1h` before and after truncation, explicit
interval (any value — multiple of the storage interval or not). -/
theorem short_range_second_pass_fixed (first : Nat) (ivs : List Nat) (s : Stmt)
    (hfirst : first ∈ ivs) (hpos : ∀ v ∈ ivs, 0 < v) (hauto : s.auto = false)
    (h0 : s.stop - s.start < oneHour)
    (h1 : (calcPlan first ivs s).stop - (calcPlan first ivs s).start < oneHour) :
    leafViaIntermediate first ivs s = leafDirect first ivs s := by
  apply intermediate_pass_changes_nothing_partial first ivs s hfirst hpos hauto
  intro q
  unfold calcQueryInterval
  rw [if_pos h0, if_pos h1]

/-- the code's intermediate (unguarded) is the second pass of `leafViaIntermediate`; the guarded
shape hands a planned statement on unchanged, so behind it `leafDirect`'s statement arrives. -/
theorem intermediatePlan_unguarded (first : Nat) (ivs : List Nat) (s : Stmt) :
    intermediatePlan false first ivs (calcPlan first ivs s) = leafViaIntermediate first ivs s := by
  simp [intermediatePlan, leafViaIntermediate]

theorem intermediatePlan_guarded_fixed (first : Nat) (ivs : List Nat) (s : Stmt)
    (hfirst : first ∈ ivs) (hpos : ∀ v ∈ ivs, 0 < v) :
    intermediatePlan true first ivs (calcPlan first ivs s) = leafDirect first ivs s := by
  have h : 0 < (calcPlan first ivs s).storage := by
    have := hpos _ (findMatch_mem first ivs
      (calcQueryInterval (s.stop - s.start) (if s.interval = 0 then first else s.interval)) hfirst)
    simpa [calcPlan, calcWith] using this
  simp [intermediatePlan, leafDirect, h]

/-- non-vacuity: `group by time(25s)` on a 10s database, 30 minutes from an unaligned start. -/
example : leafViaIntermediate 10000 [10000]
      { start := 1700000050000, stop := 1700001850000, interval := 25000, storage := 0, ratio := 0, auto := false }
    = { start := 1700000050000, stop := 1700001850000, interval := 20000, storage := 10000, ratio := 2, auto := false } := by
  decide

/-- **Tie to the source.** `calcTimeRangeAndInterval` statement by statement (= `calcWith .storage`:
the range is truncated by `intervalVal`, whose only definition is the storage interval), one call in
each of the two `MakePlan`s (= `leafDirect` is one pass, `leafViaIntermediate` two), the threshold
table of `CalcQueryInterval` (= `calcQueryInterval`), `Truncate`, `CalIntervalRatio`. A changed
statement, truncation unit, call site or threshold breaks this obligation. -/
theorem generated_calc_time_range :
    Generated.C12.calcTimeRangeSteps = ["option := cfg.Option", "interval := statement.Interval", "if interval <= 0", "  interval = option.Intervals[0].Interval", "interval = timeutil.CalcQueryInterval(statement.TimeRange, interval)", "storageInterval := option.FindMatchSmallestInterval(interval)", "intervalVal := storageInterval.Int64()", "statement.TimeRange.Start = timeutil.Truncate(statement.TimeRange.Start, intervalVal)", "statement.TimeRange.End = timeutil.Truncate(statement.TimeRange.End, intervalVal)", "if statement.AutoGroupByTime", "  statement.Interval = timeutil.Interval(statement.TimeRange.End-statement.TimeRange.Start) + storageInterval", "if interval < statement.Interval", "  interval = statement.Interval", "intervalRatio := timeutil.CalIntervalRatio(interval.Int64(), storageInterval.Int64())", "interval = timeutil.Interval(storageInterval.Int64() * int64(intervalRatio))", "statement.StorageInterval = storageInterval", "statement.Interval = interval", "statement.IntervalRatio = intervalRatio"] ∧
    Generated.C12.calcTruncUnits = ["intervalVal", "intervalVal"] ∧
    Generated.C12.calcTruncUnitDefs = ["intervalVal := storageInterval.Int64()"] ∧
    Generated.C12.rootMakePlanCalcCalls = 1 ∧
    Generated.C12.intermediateMakePlanCalcCalls = 1 ∧
    Generated.C12.intermediateCalcGuarded = true ∧
    Generated.C12.calcQueryIntervalTable = ["diff < timeutil.OneHour => return queryInterval", "diff < 3*timeutil.OneHour => return Interval(10 * timeutil.OneSecond)", "diff < 6*timeutil.OneHour => return Interval(30 * timeutil.OneSecond)", "diff < 12*timeutil.OneHour => return Interval(timeutil.OneMinute)", "diff < timeutil.OneDay => return Interval(2 * timeutil.OneMinute)", "diff < 2*timeutil.OneDay => return Interval(5 * timeutil.OneMinute)", "diff < 7*timeutil.OneDay => return Interval(10 * timeutil.OneMinute)", "diff < timeutil.OneMonth => return Interval(timeutil.OneHour)", "diff < 2*timeutil.OneMonth => return Interval(4 * timeutil.OneHour)", "diff < 3*timeutil.OneMonth => return Interval(12 * timeutil.OneHour)", "default => return Interval(timeutil.OneDay)"] ∧
    Generated.C12.truncateSteps = ["return timestamp / interval * interval"] ∧
    Generated.C12.calIntervalRatioSteps = ["if storageInterval == 0 || queryInterval < storageInterval", "  return 1", "return int(queryInterval / storageInterval)"] := by
  refine ⟨?_, ?_, ?_, ?_, ?_, ?_, ?_, ?_, ?_⟩ <;> decide

namespace Neg

/-- finding (h): auto group-by-time on a database with a rollup interval. -/
theorem auto_group_by_time_replanned :
    leafViaIntermediate 10000 [10000, 600000]
      { start := 1700021063000, stop := 1700024484000, interval := 0, storage := 0, ratio := 0, auto := true }
    ≠ leafDirect 10000 [10000, 600000]
      { start := 1700021063000, stop := 1700024484000, interval := 0, storage := 0, ratio := 0, auto := true } := by
  decide

/-- finding (i): the truncation makes a range of 3h - 5s exactly 3h long. -/
theorem range_truncated_across_threshold_replanned :
    leafViaIntermediate 10000 [10000]
      { start := 1700000007000, stop := 1700010802000, interval := 0, storage := 0, ratio := 0, auto := false }
    ≠ leafDirect 10000 [10000]
      { start := 1700000007000, stop := 1700010802000, interval := 0, storage := 0, ratio := 0, auto := false } := by
  decide

/-- the shape "truncate by the larger of query interval (before rounding) and storage interval":
the second pass truncates by the ROUNDED interval and moves the range — `time(25s)` on a 10s
database. -/
theorem query_interval_truncation_not_idempotent :
    calcWith .queryOrStorage 10000 [10000] (calcWith .queryOrStorage 10000 [10000]
      { start := 1700000050000, stop := 1700001850000, interval := 25000, storage := 0, ratio := 0, auto := false })
    ≠ calcWith .queryOrStorage 10000 [10000]
      { start := 1700000050000, stop := 1700001850000, interval := 25000, storage := 0, ratio := 0, auto := false } := by
  decide

end Neg

end LinVerif.Props.C12
