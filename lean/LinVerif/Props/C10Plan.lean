/-
Property C10, part 3 (round 12) — WHICH operators a leaf query runs, and the query without a WHERE
condition. Same namespace as Props/C10.lean.

`metadataLookupStage.Plan` / `shardScanStage.Plan` pick the operators from `Query.Condition != nil`
and `Query.HasGroupBy()`; `baseStage.execute` runs them in order on one shared execute context.
`leafPlan` is that: the two plan functions + the interpreter `execPlan` over `execOp`.

* `tie_plan_operators` — the operator constructors of the two `Plan()` functions with their guards,
  read off the source, evaluate to the model's `metaPlan` / `shardPlan` for all four combinations of
  (has condition, has group-by); statement skeletons of both functions, of `baseStage.execute`, of the
  three operators' `Execute` and of `GetSeriesIDsForMetric`; `series.IDWithoutTags`.
* `plan_runs_operator_chain` — with a condition the plan computes exactly what the hand-ordered chain
  `leafQueryHeap` (all earlier theorems) computes, for every flag value, condition and key list.
* `plan_filter_eq_eval_now` — hence, current source: selected = series whose tags satisfy the condition.
* `shard_plan_keeps_storage_context` — the shard scan plan writes shard-level state only (the lookup
  results shared by all shard contexts of a query are left as they were).
* `nocond_total`, `nocond_selects_all`, `nocond_groupby_values` (+ `_now` over every history) — no
  condition: the selected series are exactly the written series of the metric (plus
  `series.IDWithoutTags` when the query has no group-by — the code adds it unconditionally), and
  group-by returns for each of them that carries all keys exactly its tag values.
* `nocond_selects_exactly_written` — on every history the added id 0 is the metric's first series
  (`series_ids_dense`), so the selection is exactly the written series of the metric.
* `nocond_state_invariance` — same writes, any placement of flush / compaction steps: same answer.
-/
import LinVerif.Props.C10Eval
import LinVerif.Lemmas.C10Plan
import LinVerif.Generated.C10Plan

namespace LinVerif.Props.C10
open LinVerif LinVerif.TagFilter

/-- **tie.** The plan functions in the source are the model's plan functions. -/
theorem tie_plan_operators :
    (∀ hc gb, planOfSource hc gb Generated.C10Plan.metaPlanCtors = (metaPlan hc).map POp.ctor) ∧
    (∀ hc gb, planOfSource hc gb Generated.C10Plan.shardPlanCtors = (shardPlan hc gb).map POp.ctor) ∧
    Generated.C10Plan.metaPlanSkeleton =
      ["0:execPlan := NewEmptyPlanNode()", "0:execCtx := stage.leafExecuteCtx.StorageExecuteCtx",
       "0:database := stage.leafExecuteCtx.Database",
       "0:execPlan.AddChild(NewPlanNode(operator.NewMetadataLookup(execCtx, database)))",
       "0:hasWhereCondition := execCtx.Query.Condition != nil", "0:if hasWhereCondition",
       "1:execPlan.AddChild(NewPlanNode(operator.NewTagValuesLookup(execCtx, database)))", "0:return execPlan"] ∧
    Generated.C10Plan.shardPlanSkeleton =
      ["0:shardExecuteCtx := stage.shardExecuteCtx", "0:queryStmt := shardExecuteCtx.StorageExecuteCtx.Query",
       "0:shard := stage.shard",
       "0:families := shard.GetDataFamilies(queryStmt.StorageInterval.Type(), queryStmt.TimeRange)",
       "0:if len(families) == 0", "1:return nil", "0:execPlan := NewEmptyPlanNode()",
       "0:if queryStmt.Condition != nil",
       "1:execPlan.AddChild(NewPlanNodeWithIgnore(operator.NewSeriesFiltering(shardExecuteCtx, shard)))", "0:else",
       "1:execPlan.AddChild(NewPlanNodeWithIgnore(operator.NewMetricAllSeries(shardExecuteCtx, shard)))",
       "0:range families", "1:family := families[idx]",
       "1:execPlan.AddChild(NewPlanNodeWithIgnore(operator.NewDataFamilyRead(shardExecuteCtx, family)))",
       "0:if shardExecuteCtx.StorageExecuteCtx.Query.HasGroupBy()",
       "1:execPlan.AddChild(NewPlanNodeWithIgnore(operator.NewGroupingContextBuild(shardExecuteCtx, shard)))",
       "0:execPlan.AddChild(NewPlanNodeWithIgnore(operator.NewSeriesLimit(shardExecuteCtx, shard)))",
       "0:return execPlan"] ∧
    Generated.C10Plan.executeSkeleton =
      ["0:if node == nil", "1:return nil", "0:var stats *models.OperatorStats",
       "0:stats, err = node.ExecuteWithStats()", "0:if stats != nil",
       "1:stage.operators = append(stage.operators, stats)", "0:if err != nil",
       "1:if node.IgnoreNotFound() && errors.Is(err, constants.ErrNotFound)", "2:return nil", "1:return err",
       "0:children := node.Children()", "0:range children",
       "1:if err := stage.execute(children[idx]); err != nil", "2:return err", "0:return nil"] ∧
    Generated.C10Plan.allSeriesExecuteSkeleton =
      ["0:queryStmt := op.executeCtx.StorageExecuteCtx.Query",
       "0:seriesIDs, err := op.indexDB.GetSeriesIDsForMetric(op.executeCtx.StorageExecuteCtx.MetricID)",
       "0:if err != nil", "1:return err", "0:if !queryStmt.HasGroupBy()",
       "1:seriesIDs.Add(series.IDWithoutTags)", "0:op.executeCtx.SeriesIDsAfterFiltering.Or(seriesIDs)",
       "0:return nil"] ∧
    Generated.C10Plan.filterExecuteSkeleton =
      ["0:queryStmt := op.executeCtx.StorageExecuteCtx.Query",
       "0:_, seriesIDs := op.findSeriesIDsByExpr(queryStmt.Condition)", "0:if op.err != nil", "1:return op.err",
       "0:op.executeCtx.SeriesIDsAfterFiltering.Or(seriesIDs)", "0:return nil"] ∧
    Generated.C10Plan.lookupExecuteSkeleton =
      ["0:op.executeCtx.TagFilterResult = make(map[string]*flow.TagFilterResult)",
       "0:op.findTagValueIDsByExpr(op.executeCtx.Query.Condition)", "0:return op.err"] ∧
    Generated.C10Plan.getSeriesIDsForMetricSkeleton =
      ["0:return index.metricInverted.getSeriesIDs(uint32(metricID))"] ∧
    Generated.C10Plan.idWithoutTagsSrc = "uint32(0)" ∧ idWithoutTags = 0 := by
  refine ⟨?_, ?_, by decide, by decide, by decide, by decide, by decide, by decide, by decide, by decide, rfl⟩
  · intro hc gb; cases hc <;> cases gb <;> decide
  · intro hc gb; cases hc <;> cases gb <;> decide

/-- **plan_runs_operator_chain.** With a WHERE condition, running the operators the two `Plan()`
functions produce, in plan order on one shared context, is the operator chain every earlier theorem
is about — for every flag value, memoising or not, every condition and group-by key list. -/
theorem plan_runs_operator_chain (F : Flags) (memoise : Bool) (M : Matcher) (st : State) (m : Metric)
    (keys : List Bytes) (c : Expr) :
    leafPlan F memoise M st m keys (some c) = leafQueryHeap F memoise M st m keys c := by
  unfold leafPlan leafQueryHeap queryHeap
  simp only [Option.isSome_some, metaPlan, shardPlan, if_true, List.cons_append, List.nil_append, execPlan, execOp]
  by_cases hk : metricKnown st m = true
  · simp only [hk, Bool.not_true, Bool.false_eq_true, if_false]
    cases hl : lookupKeys st m keys with
    | none => rfl
    | some kids =>
      simp only []
      cases hla : lookupAll F M st m c [] with
      | error e => rfl
      | ok res =>
        simp only [Option.getD_some]
        cases hf : filterHeap F memoise st res c (BHeap.empty, []) with
        | error e => rfl
        | ok r =>
          obtain ⟨kid, a, h, mm⟩ := r
          cases hke : keys.isEmpty <;> simp [execPlan, execOp]
  · have hk' : metricKnown st m = false := by simpa using hk
    simp [hk']

/-- **plan_filter_eq_eval_now.** Current source, the plan as the stages build it: the selected series
are exactly the written series whose tags satisfy the condition. -/
theorem plan_filter_eq_eval_now (M : Matcher) (st : State) (hwf : WF st) (m : Metric) (keys : List Bytes) (c : Expr)
    (hshape : c.shaped = true) {r : LeafResult} (h : leafPlan flagsNow memoNow M st m keys (some c) = .ok r) :
    ∀ s, s ∈ r.series ↔ ∃ t, (m, s, t) ∈ st.written ∧ c.eval M t = true := by
  rw [plan_runs_operator_chain] at h
  unfold leafQueryHeap at h
  split at h
  · cases h
  · split at h
    · cases h
    · cases hq : queryHeap flagsNow memoNow M st m c with
      | error e => simp [hq] at h
      | ok sel =>
        simp only [hq] at h
        have hsel := inplace_filter_eq_eval_now M st hwf m c hshape hq
        split at h <;> (cases h; exact hsel)

/-- one shard-level operator leaves the storage-level part of the context (the tag filter results and
the group-by key ids, shared by all shard contexts of the query) as it found it -/
theorem shard_op_keeps_storage_context (F : Flags) (memoise : Bool) (M : Matcher) (st : State) (m : Metric)
    (keys : List Bytes) (c : Option Expr) (x x' : PCtx) (op : POp)
    (hop : op ≠ .metadataLookup ∧ op ≠ .tagValuesLookup) (h : execOp F memoise M st m keys c x op = .ok x') :
    x'.tfr = x.tfr ∧ x'.kids = x.kids := by
  cases op with
  | metadataLookup => exact absurd rfl hop.1
  | tagValuesLookup => exact absurd rfl hop.2
  | seriesFiltering =>
    unfold execOp at h
    cases c with
    | none => cases h; exact ⟨rfl, rfl⟩
    | some e =>
      simp only at h
      split at h
      · cases h
      · cases h; exact ⟨rfl, rfl⟩
  | metricAllSeries => cases h; exact ⟨rfl, rfl⟩
  | dataFamilyRead => cases h; exact ⟨rfl, rfl⟩
  | groupingContextBuild => cases h; exact ⟨rfl, rfl⟩
  | seriesLimit => cases h; exact ⟨rfl, rfl⟩

/-- **shard_plan_keeps_storage_context.** Whatever the configuration, the shard scan plan only writes
shard-level state: after it ran (on any context) the tag filter results and group-by key ids are
unchanged — so every further shard context of the same query starts from the same lookup results. -/
theorem shard_plan_keeps_storage_context (F : Flags) (memoise : Bool) (M : Matcher) (st : State) (m : Metric)
    (keys : List Bytes) (c : Option Expr) (hc gb : Bool) (x x' : PCtx)
    (h : execPlan F memoise M st m keys c (shardPlan hc gb) x = .ok x') :
    x'.tfr = x.tfr ∧ x'.kids = x.kids := by
  have gen : ∀ (l : List POp), (∀ op ∈ l, op ≠ POp.metadataLookup ∧ op ≠ POp.tagValuesLookup) →
      ∀ x x', execPlan F memoise M st m keys c l x = .ok x' → x'.tfr = x.tfr ∧ x'.kids = x.kids := by
    intro l
    induction l with
    | nil => intro _ x x' h; cases h; exact ⟨rfl, rfl⟩
    | cons op rest ih =>
      intro hl x x' h
      unfold execPlan at h
      cases ho : execOp F memoise M st m keys c x op with
      | error e => simp [ho] at h
      | ok x1 =>
        simp only [ho] at h
        obtain ⟨a1, a2⟩ := shard_op_keeps_storage_context F memoise M st m keys c x x1 op (hl op (List.mem_cons_self ..)) ho
        obtain ⟨b1, b2⟩ := ih (fun o ho' => hl o (List.mem_cons_of_mem _ ho')) x1 x' h
        exact ⟨b1.trans a1, b2.trans a2⟩
  refine gen _ ?_ x x' h
  cases hc <;> cases gb <;> decide

/-- closed form of the no-condition plan -/
theorem leafPlan_none (F : Flags) (memoise : Bool) (M : Matcher) (st : State) (m : Metric) (keys : List Bytes) :
    leafPlan F memoise M st m keys none =
      if !metricKnown st m then .error .metricNotFound
      else match lookupKeys st m keys with
        | none => .error .keyNotFound
        | some _ =>
          .ok { series := allSeries st m ++ (if keys.isEmpty then [idWithoutTags] else []),
                groups := if keys.isEmpty then none
                          else some (groupBy F st m keys (allSeries st m ++ (if keys.isEmpty then [idWithoutTags] else []))) } := by
  unfold leafPlan
  simp only [Option.isSome_none, metaPlan, shardPlan, Bool.false_eq_true, if_false, List.cons_append, List.nil_append,
    execPlan, execOp]
  by_cases hk : metricKnown st m = true
  · simp only [hk, Bool.not_true, Bool.false_eq_true, if_false]
    cases hl : lookupKeys st m keys with
    | none => rfl
    | some kids => cases hke : keys.isEmpty <;> simp [execPlan, execOp]
  · have hk' : metricKnown st m = false := by simpa using hk
    simp [hk']

/-- **nocond_total.** Without a condition the query fails exactly for an unknown metric or a group-by
key outside the metric's schema. -/
theorem nocond_total (F : Flags) (memoise : Bool) (M : Matcher) (st : State) (m : Metric) (keys : List Bytes) :
    (metricKnown st m = false → leafPlan F memoise M st m keys none = .error .metricNotFound) ∧
    (metricKnown st m = true → lookupKeys st m keys = none → leafPlan F memoise M st m keys none = .error .keyNotFound) ∧
    (metricKnown st m = true → lookupKeys st m keys ≠ none → ∃ r, leafPlan F memoise M st m keys none = .ok r) := by
  rw [leafPlan_none]
  refine ⟨fun h => by simp [h], fun h1 h2 => by simp [h1, h2], fun h1 h2 => ?_⟩
  cases hl : lookupKeys st m keys with
  | none => exact absurd hl h2
  | some kids => simp [h1]

/-- **nocond_selects_all.** Without a condition the selected series are exactly the written series of
the metric — plus `series.IDWithoutTags` when the query has no group-by, which `metricAllSeries.Execute`
adds whether or not such a series was written — and the grouping runs on exactly that set. -/
theorem nocond_selects_all (F : Flags) (memoise : Bool) (M : Matcher) (st : State) (hp : SeriesProj st) (m : Metric)
    (keys : List Bytes) {r : LeafResult} (h : leafPlan F memoise M st m keys none = .ok r) :
    (∀ s, s ∈ r.series ↔ (∃ t, (m, s, t) ∈ st.written) ∨ (keys = [] ∧ s = idWithoutTags)) ∧
    (keys = [] → r.groups = none) ∧
    (keys ≠ [] → r.groups = some (groupBy F st m keys r.series)) := by
  rw [leafPlan_none] at h
  split at h
  · cases h
  · split at h
    · cases h
    · cases h
      cases keys with
      | nil =>
        refine ⟨fun s => ?_, fun _ => rfl, fun hne => absurd rfl hne⟩
        simp [allSeries_iff_written hp]
      | cons k ks =>
        refine ⟨fun s => ?_, fun he => (by cases he), fun _ => (by simp)⟩
        simp [allSeries_iff_written hp]

/-- **nocond_groupby_values.** Group-by without a condition: every returned (series, values) is a
written series of the metric with, position by position, its own tag values; every written series of
the metric that carries all grouping keys is returned. -/
theorem nocond_groupby_values (F : Flags) (memoise : Bool) (M : Matcher) (st : State) (hwf : WF st) (hl : LutSafe F st)
    (hp : SeriesProj st) (m : Metric) (keys : List Bytes) (hkeys : keys ≠ []) {r : LeafResult}
    (h : leafPlan F memoise M st m keys none = .ok r)
    {gs : List (SeriesId × List (ValId × Option Bytes))} (hg : r.groups = some (.ok gs)) :
    (∀ s vals, (s, vals) ∈ gs → ∃ t, (m, s, t) ∈ st.written ∧ groupValuesOK t keys vals) ∧
    (∀ s t, (m, s, t) ∈ st.written → (∀ k ∈ keys, ∃ v, (k, v) ∈ t) → ∃ vals, (s, vals) ∈ gs) := by
  obtain ⟨hsel, _, hgr⟩ := nocond_selects_all F memoise M st hp m keys h
  have hgr' := hgr hkeys
  rw [hg] at hgr'
  have hgb : groupBy F st m keys r.series = .ok gs := by
    injection hgr' with h1; exact h1.symm
  have hin : ∀ s ∈ r.series, ∃ t, (m, s, t) ∈ st.written := by
    intro s hs
    rcases (hsel s).mp hs with h1 | ⟨h1, _⟩
    · exact h1
    · exact absurd h1 hkeys
  obtain ⟨g1, g2⟩ := groupby_values F st hwf hl m keys r.series hin hgb
  refine ⟨fun s vals hm => (g1 s vals hm).2, fun s t ht hk => ?_⟩
  exact g2 s ((hsel s).mpr (Or.inl ⟨t, ht⟩)) t ht hk

/-- the series store mirrors the written series on every history (no hypothesis on the writes) -/
theorem series_store_mirrors_written (F : Flags) (ops : List Op) : SeriesProj (run F ops State.init) :=
  run_seriesProj F ops seriesProj_init

/-- series ids of a metric are dense on every history -/
theorem series_ids_dense (F : Flags) (ops : List Op) : SeriesDense (run F ops State.init) :=
  run_seriesDense F ops seriesDense_init

/-- **nocond_selects_exactly_written.** On every history (any flag values, any placement of flush /
compaction steps) the query without a condition selects EXACTLY the written series of the metric:
the `series.IDWithoutTags` that `metricAllSeries.Execute` adds for a query without group-by is the id
of the metric's first series (ids are 0, 1, 2, … per metric), so it never adds a series that was not
written. -/
theorem nocond_selects_exactly_written (F : Flags) (memoise : Bool) (M : Matcher) (ops : List Op) (m : Metric)
    (keys : List Bytes) {r : LeafResult} (h : leafPlan F memoise M (run F ops State.init) m keys none = .ok r) :
    ∀ s, s ∈ r.series ↔ ∃ t, (m, s, t) ∈ (run F ops State.init).written := by
  have hp := series_store_mirrors_written F ops
  have hd := series_ids_dense F ops
  intro s
  rw [(nocond_selects_all F memoise M _ hp m keys h).1 s]
  constructor
  · rintro (h1 | ⟨_, h2⟩)
    · exact h1
    · have hk : metricKnown (run F ops State.init) m = true := by
        rw [leafPlan_none] at h
        cases hk : metricKnown (run F ops State.init) m with
        | true => rfl
        | false => simp [hk] at h
      rw [h2]
      exact (allSeries_iff_written hp m 0).mp (zero_mem_allSeries hd hk)
  · exact fun h1 => Or.inl h1

/-- **nocond_selects_all, current source**, on every reachable state. -/
theorem nocond_selects_all_now (ops : List Op) (M : Matcher) (m : Metric) (keys : List Bytes) {r : LeafResult}
    (h : leafPlan flagsNow memoNow M (run flagsNow ops State.init) m keys none = .ok r) :
    ∀ s, s ∈ r.series ↔ (∃ t, (m, s, t) ∈ (run flagsNow ops State.init).written) ∨ (keys = [] ∧ s = idWithoutTags) :=
  (nocond_selects_all flagsNow memoNow M _ (series_store_mirrors_written flagsNow ops) m keys h).1

/-- **nocond_groupby_values, current source**, on every reachable state. -/
theorem nocond_groupby_values_now (ops : List Op) (hv : ValidOps ops) (M : Matcher) (m : Metric) (keys : List Bytes)
    (hkeys : keys ≠ []) {r : LeafResult}
    (h : leafPlan flagsNow memoNow M (run flagsNow ops State.init) m keys none = .ok r)
    {gs : List (SeriesId × List (ValId × Option Bytes))} (hg : r.groups = some (.ok gs)) :
    (∀ s vals, (s, vals) ∈ gs → ∃ t, (m, s, t) ∈ (run flagsNow ops State.init).written ∧ groupValuesOK t keys vals) ∧
    (∀ s t, (m, s, t) ∈ (run flagsNow ops State.init).written → (∀ k ∈ keys, ∃ v, (k, v) ∈ t) → ∃ vals, (s, vals) ∈ gs) :=
  nocond_groupby_values flagsNow memoNow M _ (write_path_establishes_wf_now ops hv).1
    (write_path_establishes_wf_now ops hv).2 (series_store_mirrors_written flagsNow ops) m keys hkeys h hg

/-- **nocond_state_invariance.** Two histories with the same writes, flush / compaction steps placed
anywhere: the query without a condition fails alike or selects the same series. -/
theorem nocond_state_invariance (F : Flags) (memoise : Bool) (M : Matcher) (ops1 ops2 : List Op)
    (hw : writesOf ops1 = writesOf ops2) (m : Metric) (keys : List Bytes) :
    (leafPlan F memoise M (run F ops1 State.init) m keys none).map (·.series) =
      (leafPlan F memoise M (run F ops2 State.init) m keys none).map (·.series) := by
  obtain ⟨h1, _, h3, _⟩ := core_eq_iff.mp (run_core_eq F F ops1 ops2 hw)
  have hk : metricKnown (run F ops1 State.init) m = metricKnown (run F ops2 State.init) m := by
    unfold metricKnown; rw [h3]
  have ha : allSeries (run F ops1 State.init) m = allSeries (run F ops2 State.init) m := by
    unfold allSeries; rw [h3]
  have hl : ∀ ks, lookupKeys (run F ops1 State.init) m ks = lookupKeys (run F ops2 State.init) m ks := by
    intro ks
    induction ks with
    | nil => rfl
    | cons k t ih => simp only [lookupKeys, h1, ih]
  rw [leafPlan_none, leafPlan_none, hk, ha, hl keys]
  cases metricKnown (run F ops2 State.init) m with
  | false => rfl
  | true =>
    simp only [Bool.not_true, Bool.false_eq_true, if_false]
    cases lookupKeys (run F ops2 State.init) m keys <;> rfl

/-! ### non-vacuity: the sample history of Props/C10.lean (three series in files and memory) -/

example : SeriesProj (run flagsNow sampleOps State.init) := series_store_mirrors_written flagsNow sampleOps

example :
    (leafPlan flagsNow memoNow anchoredMatcher (run flagsNow sampleOps State.init) mCpu [] none).map (·.series)
      = .ok [0, 1, 2, 0] := by decide

example :
    (leafPlan flagsNow memoNow anchoredMatcher (run flagsNow sampleOps State.init) mCpu [kZone] none).map (·.groups)
      = .ok (some (.ok [(0, [(1, some [49])]), (1, [(1, some [49])]), (2, [(3, some [50])])])) := by decide

example :
    (leafPlan flagsNow memoNow anchoredMatcher (run flagsNow sampleOps State.init) mCpu []
      (some (.or (.atom (.like kHost [97, 98, 42])) (.not (.atom (.eq kZone [49])))))).map (·.series) = .ok [0, 2] := by
  decide

end LinVerif.Props.C10
