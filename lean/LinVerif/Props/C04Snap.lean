/-
C04 — "… exactly once, also when the rollup … is repeated after a restart": the rollup bookkeeping
(`rollupFiles` of the source families, `referenceFiles` of the target families) survives the manifest
snapshot that every open of a store writes and the next open replays, for ANY number of restarts at
ANY place of a history and any emission order of the snapshot's map iterations.

Model: Model/Rollup.lean §E (`snapshotLogs` = `createFamilySnapshot`, `restore` = `recover()` replaying
the snapshot logs, `St.restart`, `HOp`/`St.runH`). Lemmas: Lemmas/C04Snap.lean.
-/
import LinVerif.Generated.C04
import LinVerif.Lemmas.C04Snap
import Mathlib.Data.List.Count

set_option linter.unusedSimpArgs false
namespace LinVerif.Props.C04
open LinVerif.Rollup LinVerif.Lemmas.C04

/-! ## ties -/

/-- `createFamilySnapshot` writes one `NewReferenceFile(store, familyID, file)` per entry of
`GetAllReferenceFiles()` where `store`, `familyID`, `file` are the variables of the three nested `range`
loops (the family id is the KEY of the inner map, i.e. the SOURCE family — it shadows the function's
parameter, which is the id of the family being snapshotted), and one `NewRollupFile(file, interval)`
per entry of `GetRollupFiles()`. This is `snapshotLogs true`. -/
theorem tie_snapshot_shape :
    Generated.C04.snapshotRefFamilyIsLoopVar = true ∧
    Generated.C04.snapshotRefArgs = ["store", "familyID", "file"] ∧
    Generated.C04.snapshotRefLoops =
      ["store, families := range refFiles", "familyID, files := range families", "_, file := range files"] ∧
    Generated.C04.snapshotRefSource = "current.GetAllReferenceFiles()" ∧
    Generated.C04.snapshotRollupArgs = ["file", "interval"] ∧
    Generated.C04.snapshotRollupLoops =
      ["file, intervals := range rollupFiles", "_, interval := range intervals"] ∧
    Generated.C04.snapshotRollupSource = "current.GetRollupFiles()" := by
  decide

/-- the key under which a reference is written (`doRollupWork`), looked up (`doRollupWork`) and deleted
(`cleanReferenceFiles`) is the same pair (base name of the source store, id of the source family); and
`version.rollup`'s `addReferenceFile` skips a file that is already listed while `addRollupFile` appends
(`restoreLog`). -/
theorem tie_reference_keys :
    Generated.C04.rollupRefKeyArgs =
      [("doRollupWork.CreateNewReferenceFile", ["sourceStore", "sourceFamilyID", "fileNumber"]),
       ("cleanReferenceFiles.CreateDeleteReferenceFile", ["sourceStore", "sourceFamilyID", "file"])] ∧
    Generated.C04.rollupRefLookup = ["f.familyVersion.GetLiveReferenceFiles(sourceStore)", "referenceFiles[sourceFamilyID]"] ∧
    Generated.C04.rollupRefKeyDefs =
      ["doRollupWork: _, sourceStore := filepath.Split(sourceFamily.getStore().Name())",
       "doRollupWork: sourceFamilyID := sourceFamily.ID()",
       "cleanReferenceFiles: _, sourceStore := filepath.Split(sourceFamily.getStore().Name())",
       "cleanReferenceFiles: sourceFamilyID := sourceFamily.ID()"] ∧
    Generated.C04.addReferenceFileDedups = true ∧
    Generated.C04.addRollupFileAppends = true := by
  decide

/-! ## round trip -/

/-- Snapshot then replay gives back exactly the live rollup entries and exactly the live references
(as sets; the replayed reference list has no duplicates), whatever order the map iterations emitted
the logs in; nothing else of the state is touched. -/
theorem snapshot_restore_roundtrip (own : Iv → Nat) (perm : List SLog → List SLog) (hp : SameLogs perm) (σ : St) :
    let σ' := σ.restart true own perm
    (∀ p, p ∈ σ'.pending ↔ p ∈ σ.pending) ∧ (∀ q, q ∈ σ'.refs ↔ q ∈ σ.refs) ∧ σ'.refs.Nodup
    ∧ σ'.merged = σ.merged ∧ σ'.l0 = σ.l0 ∧ σ'.registered = σ.registered := by
  intro σ'
  obtain ⟨m1, m2, m3⟩ := restart_mem own perm hp σ
  exact ⟨m1, m2, m3, rfl, rfl, rfl⟩

/-- … hence a restart is the `reopen` operation of the histories of `once` -/
theorem restart_is_reopen_step (own : Iv → Nat) (perm : List SLog → List SLog) (hp : SameLogs perm) (σ : St) :
    ∃ p r, σ.restart true own perm = σ.step (.reopen p r) :=
  ⟨_, _, restart_eq_reopen own perm hp σ⟩

/-- any number of restarts in a row changes nothing but the order inside the two tables -/
theorem restarts_keep_bookkeeping (own : Iv → Nat) (perms : List (List SLog → List SLog))
    (hps : ∀ f ∈ perms, SameLogs f) (ops : List Op) :
    let σ := St.init.run ops
    let σ' := σ.restarts true own perms
    (∀ p, p ∈ σ'.pending ↔ p ∈ σ.pending) ∧ (∀ q, q ∈ σ'.refs ↔ q ∈ σ.refs)
    ∧ σ'.merged = σ.merged ∧ σ'.l0 = σ.l0 ∧ σ'.registered = σ.registered := by
  intro σ σ'
  obtain ⟨_, b⟩ := restarts_spec own perms hps σ (Inv.init.run ops)
  exact ⟨b.pending, b.refs, b.merged, b.l0, b.registered⟩

/-! ## once, with restarts anywhere -/

theorem inv_runH (own : Iv → Nat) (hs : List HOp) (hperm : ∀ f, HOp.restart f ∈ hs → SameLogs f) :
    ∀ σ : St, Inv σ → Inv (σ.runH true own hs) := by
  induction hs with
  | nil => intro σ h; exact h
  | cons a t ih =>
    intro σ h
    simp only [St.runH, List.foldl_cons]
    apply ih (fun f hf => hperm f (List.mem_cons_of_mem _ hf))
    cases a with
    | op o => exact h.step o
    | restart f => exact h.restart own f (hperm f (List.mem_cons_self ..))

/-- `once` for histories in which the process is restarted any number of times at any place (each
restart = snapshot written by `createFamilySnapshot`, replayed by the next `recover()`): no
contribution is merged twice, every registered pair with data is pending or merged exactly once. -/
theorem once_any_restarts (own : Iv → Nat) (hs : List HOp) (hperm : ∀ f, HOp.restart f ∈ hs → SameLogs f) :
    let σ := St.init.runH true own hs
    σ.merged.Nodup
    ∧ (∀ p, σ.merged.count p ≤ 1)
    ∧ (∀ p ∈ σ.registered, p.1 ∈ σ.l0 → p ∈ σ.pending ∨ σ.merged.count p = 1) := by
  intro σ
  have h : Inv σ := inv_runH own hs hperm St.init Inv.init
  refine ⟨h.nodup, fun p => List.nodup_iff_count_le_one.1 h.nodup p, ?_⟩
  intro p hp hl
  rcases h.live p hp hl with h1 | h1
  · exact Or.inl h1
  · exact Or.inr (List.count_eq_one_of_mem h.nodup h1)

/-- The crash the bookkeeping is designed for: a rollup run dies after `cut` committed records (e.g.
after the target family committed the merge + references, before the source family deleted its
rollup entries), the process is restarted `perms.length` times (0, 1, 2, … — each restart rewrites the
manifest from a snapshot), then the rollup runs again and completes: every registered file with data
of that family is merged into every processed, available target interval EXACTLY once, and nothing
anywhere is merged twice. -/
theorem exactly_once_across_crash_and_restarts (own : Iv → Nat) (ops : List Op) (fam : Nat)
    (ivs avail dvs : List Iv) (cut : Nat) (perms : List (List SLog → List SLog)) (hps : ∀ f ∈ perms, SameLogs f)
    (ivs' avail' dvs' : List Iv) :
    let σ1 := (St.init.run ops).step (.rollup fam ivs avail dvs (some cut))
    let σ2 := σ1.restarts true own perms
    let σ3 := σ2.step (.rollup fam ivs' avail' dvs' none)
    σ3.merged.Nodup ∧ (∀ p, σ3.merged.count p ≤ 1)
    ∧ (∀ p ∈ σ3.registered, p.1 ∈ σ3.l0 → p.1.1 = fam → p.2 ∈ ivs' → p.2 ∈ avail' → σ3.merged.count p = 1)
    ∧ (∀ p ∈ σ3.pending, ¬ (p.1.1 = fam ∧ p.2 ∈ ivs' ∧ p.2 ∈ avail')) := by
  intro σ1 σ2 σ3
  have h1 : Inv σ1 := (Inv.init.run ops).step _
  obtain ⟨h2, _⟩ := restarts_spec own perms hps σ1 h1
  obtain ⟨h3, hpend, hcnt⟩ := drains_of_inv σ2 h2 fam ivs' avail' dvs'
  exact ⟨h3.nodup, fun p => List.nodup_iff_count_le_one.1 h3.nodup p, hcnt, hpend⟩

/-! ## non-vacuity -/

/-- two files, a run cut after the merge record, TWO restarts (the second one emitting its logs in
reverse order), rollup again: both files merged exactly once, both tables empty -/
example :
    let σ := St.init.runH true (fun _ => 1)
      [.op (.flush 2 5 true [300000]), .op (.flush 2 7 true [300000]),
       .op (.rollup 2 [300000] [300000] [300000] (some 1)),
       .restart id, .restart List.reverse,
       .op (.rollup 2 [300000] [300000] [300000] none)]
    σ.merged = [((2, 5), 300000), ((2, 7), 300000)] ∧ σ.pending = [] ∧ σ.refs = [] := by decide

example : SameLogs id ∧ SameLogs List.reverse :=
  ⟨fun _ _ => Iff.rfl, fun _ _ => List.mem_reverse⟩

namespace Neg

/-- (seeded c04-20's shape) the snapshot writes every reference under the id of the family being
snapshotted (`snapshotLogs false`, here target family id 1 ≠ source family 2). A run that is cut
between the target commit and the source family's delete leaves the reference as the only protection
of the still-pending file; after the restart that replays such a snapshot the reference is filed under
the wrong family, `doRollupWork` does not find it, and the next run merges file (2,5) a second time.
(On real stores this needs TWO restarts: the first one replays the incremental records correctly and
WRITES the bad snapshot, the second one reads it — the harness's restart region does 1–3.) -/
theorem snapshot_under_own_id_merges_twice :
    let σ1 := St.init.run [.flush 2 5 true [300000], .rollup 2 [300000] [300000] [300000] (some 1)]
    let σ2 := σ1.restart false (fun _ => 1) id
    let σ3 := σ2.step (.rollup 2 [300000] [300000] [300000] none)
    σ1.refs = [(300000, (2, 5))] ∧ σ2.refs = [(300000, (1, 5))]
    ∧ σ3.merged.count ((2, 5), 300000) = 2 := by
  decide

end Neg

end LinVerif.Props.C04
