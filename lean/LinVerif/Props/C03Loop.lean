/-
C03 — second property file (round 8): the pieces of the compaction path around the merge theorems of
`Props/C03.lean` that were only correspondence-tested so far.

* `pick_*`      — `PickL0Compaction`'s collection of the level-1 inputs (a map keyed by file number):
                  every picked file is listed exactly once, the picked set is exactly the level-1 files
                  that overlap some level-0 input, and it is (a permutation of) the `pickUp` of the family model.
* `slot_loop_*` — the `uint16` loop variable of the slot loop in `DownSamplingMultiSeriesInto`: below slot
                  65535 the loop is the loop over the naturals of all other theorems; a range that ends at
                  65535 never leaves the loop (`Neg`, recorded finding `merge-hangs-at-end-slot-65535`).
* `field_reader_*` — the per-block `fieldReader` object reused for the whole merge: for any field sets of
                  the inputs (one field, many, mixed) it hands out exactly the data the merge theorems use.
* `damage_*`    — error branches of the merge read path: which damage fails the merge (and with it the
                  compaction, leaving the version untouched), which is swallowed (`Neg`).
-/
import LinVerif.Lemmas.C03Loop
import LinVerif.Lemmas.C03Compact
import LinVerif.Generated.C03

set_option linter.unusedSectionVars false
set_option linter.unusedSimpArgs false
set_option linter.unusedVariables false
namespace LinVerif.Props.C03
open LinVerif LinVerif.Map LinVerif.MetricBlock LinVerif.Merge LinVerif.Compact LinVerif.C03 LinVerif.MergeLoop

variable {V : Type}

/-! ## 8. `PickL0Compaction`: the level-1 inputs -/

/-- **every input file appears exactly once**: whatever the number of level-0 files that overlap a
level-1 file, the list handed to `NewCompaction` holds it once (no hypothesis at all) -/
theorem pick_each_input_once {α : Type} (num : α → Nat) (ov : α → α → Bool) (l0 l1 : List α) :
    (Pick.picked num ov l0 l1).Nodup :=
  picked_nodup num ov l0 l1

/-- **the picked set is closed under overlap**: a level-1 file is picked iff it overlaps the key range
of some level-0 input (file numbers are unique inside the level) -/
theorem pick_closed_under_overlap {α : Type} (num : α → Nat) (ov : α → α → Bool) (l0 l1 : List α)
    (hinj : ∀ f ∈ l1, ∀ g ∈ l1, num f = num g → f = g) (f : α) :
    f ∈ Pick.picked num ov l0 l1 ↔ f ∈ l1 ∧ ∃ g ∈ l0, ov g f = true :=
  mem_picked num ov l0 l1 hinj f

/-- the map-based collection is the `pickUp` of the family model, up to the (Go map) order -/
theorem pick_is_pickUp (num : File V → Nat) (l0 l1 : List (File V)) (hnd : l1.Nodup)
    (hinj : ∀ f ∈ l1, ∀ g ∈ l1, num f = num g → f = g) :
    (Pick.picked num (fun g f => overlaps g f) l0 l1).Perm (pickUp l0 l1) := by
  unfold pickUp
  apply (List.perm_ext_iff_of_nodup (picked_nodup _ _ _ _)
    (List.Nodup.sublist List.filter_sublist hnd)).2
  intro f
  rw [mem_picked num _ l0 l1 hinj f]
  simp only [List.mem_filter, List.any_eq_true]

/-- the order in which the picked level-1 files are listed only permutes what the merged iterator is
given: it is one of the tie orders (`Params.shuffle`) all compaction theorems quantify over -/
theorem pick_order_is_a_tie_order (l0 up up' : List (File V)) (hp : up'.Perm up) :
    ((l0 ++ up').flatMap (fun f => f.entries)).Perm ((l0 ++ up).flatMap (fun f => f.entries)) :=
  List.Perm.flatMap_right _ (List.Perm.append_left l0 hp)

/-! ## 9. the `uint16` slot loop -/

/-- **below slot 65535 nothing wraps**: the decoder loop with a `uint16` loop variable, given enough
steps, ends with exactly what `Merge.feed` (the loop of all merge theorems) computes — any aggregate,
any ratio/base slot, any values, any start (also an inverted range). Partial: the hypothesis
`stop < 65535` excludes exactly the region of `Neg.slot_loop_never_ends_at_65535`. -/
theorem slot_loop_partial (op : V → V → V) (cfg : Cfg) (tStart len : Nat) (vals acc : List (Nat × V))
    (start stop fuel : Nat) (hstop : stop < 65535) (hfuel : stop + 1 - start < fuel) :
    Wrap.loop16 (Wrap.feedBody op cfg tStart len vals) stop fuel acc start =
      some (feed op cfg tStart len vals acc start (stop + 1 - start)) := by
  rw [loop16_no_wrap _ start stop fuel acc hstop hfuel, loopNat_feedBody]

/-! ## 10. the reused `fieldReader` -/

/-- **any field sets per input.** One `fieldReader` object serves a whole input block: created or
reset for a series the block has a (non-empty) entry for, left untouched otherwise, asked for every
target field `tf` of the merged metric (fields the block may not have), closed after every series.
For every series the scanner visits it hands out `dataOf` = the data the block holds for that series
and field, `none` for a field id the block does not have — whether the block has one field or many,
and whatever the other inputs' field sets are. No hypothesis on the block or the visiting order. -/
theorem field_reader_reuse_is_stateless (tol : Bool) (b : Block V) (ids tf : List Nat) :
    Reader.seriesLoop false true b.fields tf none (scanAll tol b ids) =
      (scanAll tol b ids).map (fun p => (p.1, tf.map (Reader.dataOf b.fields p.2))) :=
  seriesLoop_code b.fields tf (scanAll tol b ids) none (by intro r h; cases h)

/-- `dataOf` over the scanner's answers is `scanData`, the data function of `mergeBlocksWith` -/
theorem scanData_is_dataOf (tol : Bool) (ids : List Nat) (b : Block V) (s f : Nat) :
    scanData tol ids b s f = Reader.dataOf b.fields (lookup (scanAll tol b ids) s).join f := by
  unfold scanData Reader.dataOf
  generalize lookup (scanAll tol b ids) s = x
  rcases x with _ | _ | e
  · rfl
  · rfl
  · simp only [Option.join]
    cases lookup b.fields f <;> rfl

/-- the reader of the code, not completed: exactly the block's data of the field -/
theorem field_reader_get (fields : List (Nat × FieldType)) (e : Entry V) (f : Nat) :
    (Reader.FR.reset e).get false fields f = Reader.dataOf fields (some e) f :=
  get_code fields (Reader.FR.reset e) f rfl

/-! ## 11. damaged input blocks -/

/-- undamaged inputs: the damage-aware merge IS the merge of all other theorems -/
theorem damage_none_is_merge (tol : Bool) (agg : FieldType → V → V → V) (bs : List (Block V)) :
    Damage.mergeBlocks tol agg (bs.map (fun b => (b, Damage.Dmg.none))) = mergeBlocks tol agg bs ∧
    Damage.mergeFails tol (bs.map (fun b => (b, Damage.Dmg.none))) = mergeFails tol bs :=
  ⟨dmergeBlocks_none tol agg bs, dmergeFails_none tol bs⟩

/-- a block `NewReader` rejects makes `prepare`, hence `Merge`, return the error -/
theorem damage_header_fails_merge (tol : Bool) (bds : List (Block V × Damage.Dmg)) (bd : Block V × Damage.Dmg)
    (hm : bd ∈ bds) (hh : bd.2.header = true) : Damage.mergeFails tol bds = true :=
  header_damage_fails tol bds bd hm hh

/-- so does a block whose FIRST series bucket cannot be read (`newDataScanner`) -/
theorem damage_first_bucket_fails_merge (tol : Bool) (bds : List (Block V × Damage.Dmg))
    (bd : Block V × Damage.Dmg) (hm : bd ∈ bds) (k : Nat) (r : List Nat)
    (hk : highKeys bd.1 = k :: r) (hb : k ∈ bd.2.buckets) : Damage.mergeFails tol bds = true :=
  first_bucket_damage_fails tol bds bd hm k r hk hb

/-- a `Merge` error for any key fails the job: nothing is installed, every reader's view stays
(with `compact_fail_preserves_view`) -/
theorem merge_error_fails_job (agg : FieldType → V → V → V) (p : Params V) (inputs : List (File V))
    (h : (mergeGroups p inputs).any (fun g => mergeFails p.tolerant g.2) = true) :
    jobFails agg p inputs = true := by
  unfold jobFails
  simp only [h, Bool.true_or]

/-! ## 12. ties -/

/-- `PickL0Compaction` collects the level-1 inputs through a map keyed by file number: per level-0
input the overlapping files are STORED under their number, the input list is built from the map
(seeded c03-20 appends per level-0 input instead) -/
theorem tie_pick_l0 :
    Generated.C03.pickL0Steps =
      ["append append(levelInputs, v.GetFiles(0)...)",
       "make levelUpInputMap map[table.FileNumber]*FileMeta",
       "range levelInputs", "range upInputs",
       "store levelUpInputMap[upInput.GetFileNumber()] = upInput",
       "range levelUpInputMap", "append append(levelUpInputs, upInput)"] := by
  rfl

/-- `GetFieldData`: `completed` first, then the lookup in the block's field index, and INSIDE that branch
the one-field shortcut (`Reader.FR.get false`; seeded c03-19 takes the shortcut before the lookup);
`Reset` un-completes, `Close` completes; `seriesMerger.merge` asks and closes every reader;
`Merge` keeps the reader of a block when the scanner returns no entry (`continue`) -/
theorem tie_field_reader :
    Generated.C03.getFieldDataIfs =
      ["0:r.completed -> return nil",
       "0:idx, ok := r.fieldIndexes[fieldID]; ok -> return fieldBlock",
       "1:r.fieldCount == 1 -> return r.seriesEntry",
       "1:err != nil -> return nil"] ∧
    Generated.C03.fieldReaderResetIfs.head? = some "0:r.fieldCount == 1 -> return" ∧
    Generated.C03.fieldReaderCloseAssigns = ["r.completed = true"] ∧
    Generated.C03.seriesMergerReaderCalls = ["reader.GetFieldData", "reader.SlotRange", "reader.Close"] ∧
    Generated.C03.mergeLoopIfs.take 4 =
      ["0:err != nil -> return err", "0:len(seriesEntry) == 0 -> continue",
       "0:fieldReaders[blockIdx] == nil -> fieldReaders[blockIdx] = newFieldReader(scanner.fieldIndexes",
       "0:else"] := by
  refine ⟨rfl, rfl, rfl, rfl, rfl⟩

/-- the slot loop's variable is what `decoder.StartTime()` returns, a `uint16` (flag `slotLoopWraps`);
the alternative the flag accepts is the loop over `int` of `fixes/C03-slot-loop-uint16-wrap.patch` -/
theorem tie_slot_loop :
    (Generated.C03.slotLoopWraps = true ∧ Generated.C03.slotLoopStartType = "uint16" ∧
      Generated.C03.slotLoopHeader =
        "movingSourceSlot := decoder.StartTime(); movingSourceSlot <= decoder.EndTime(); movingSourceSlot++") ∨
    (Generated.C03.slotLoopWraps = false ∧
      Generated.C03.slotLoopHeader =
        "slot := int(decoder.StartTime()); slot <= int(decoder.EndTime()); slot++") := by
  decide

/-- the error branches of the merge read path as `Damage` models them: every error branch of
`nextContainer` returns before `s.highContainerIdx++`; `scan` swallows the error (`return nil`);
`newDataScanner` and `prepare` return it; `Merge` returns `prepare`'s error before anything is written -/
theorem tie_read_path_errors :
    Generated.C03.nextContainerStmts =
      ["s.highKey = s.highKeys[s.highContainerIdx]", "s.container = ..", "level3Block, err := ..",
       "if err != nil -> return err", "if len(level3Block) == 0 -> return nil",
       "if len(level3Block) <= 4 -> return fmt.Errorf(..)", "lowKeyOffsetsAt := ..",
       "if lowKeyOffsetsAt+4 >= uint32(len(level3Block)) -> return fmt.Errorf(..)",
       "if _, err := s.lowKeyOffsets.Unmarshal(level3Block[lowKeyOffsetsAt:]); err != nil -> return err",
       "s.seriesEntries = ..", "s.highContainerIdx++", "return nil"] ∧
    Generated.C03.scanIfs =
      ["0:s.highKey < highKey -> if", "1:s.highContainerIdx >= len(s.highKeys) -> return nil",
       "1:err := s.nextContainer(); err != nil -> return nil", "0:highKey != s.highKey -> return nil",
       "0:s.container.Contains(lowSeriesID) -> return seriesEntry"] ∧
    Generated.C03.newDataScannerIfs =
      ["0:len(s.highKeys) == 0 -> return nil, fmt.Errorf(..)",
       "0:err := s.nextContainer(); err != nil -> return nil, err"] ∧
    Generated.C03.prepareErrIfs =
      ["0:err != nil -> return nil, err",
       "0:ctx.scanners[idx], err = newDataScanner(reader); err != nil -> return nil, err"] ∧
    Generated.C03.mergeLoopIfs.head? = some "0:err != nil -> return err" ∧
    Generated.C03.initReaderIfs.length = 5 := by
  refine ⟨rfl, rfl, rfl, rfl, rfl, rfl⟩

/-! ## 13. negations on witnesses -/
namespace Neg

/-- a level-1 file and two level-0 files that both overlap it (metric 1, series 7, a `sum` field) -/
def pBlock (v : Int) : Block Int :=
  { fields := [(1, .sum)], start := 5, stop := 5, series := [(7, [(1, [(5, v)])])] }
def pUp : File Int := { minKey := 1, maxKey := 1, entries := [(1, pBlock 100)] }
def pA : File Int := { minKey := 1, maxKey := 1, entries := [(1, pBlock 1)] }
def pB : File Int := { minKey := 1, maxKey := 1, entries := [(1, pBlock 2)] }
def pParams : Params Int :=
  { threshold := 0, maxFileSize := 1000, size := fun _ _ => 10, shuffle := id, rebind := true,
    tolerant := true, failAt := none }

/-- **without the map** (seeded c03-20) the level-1 file is listed once per overlapping level-0 input,
the merged iterator delivers its block twice and the `sum` cell becomes 203 instead of 103 -/
theorem no_dedup_merges_a_level1_file_twice :
    (Pick.pickedNoDedup (fun g f => overlaps g f) [pA, pB] [pUp]).length = 2 ∧
    (Pick.picked (fun _ => 3) (fun g f => overlaps g f) [pA, pB] [pUp]).length = 1 ∧
    ((lookup (mergedEntries aggInt pParams
        ([pA, pB] ++ Pick.pickedNoDedup (fun g f => overlaps g f) [pA, pB] [pUp])) 1).bind
          (fun b => b.get 7 1 5)) = some 203 ∧
    ((lookup (mergedEntries aggInt pParams
        ([pA, pB] ++ Pick.picked (fun _ => 3) (fun g f => overlaps g f) [pA, pB] [pUp])) 1).bind
          (fun b => b.get 7 1 5)) = some 103 := by
  decide

/-- **F3 (recorded finding `merge-hangs-at-end-slot-65535`).** A compaction merge over a block whose
slot range ends at 65535: `movingSourceSlot <= decoder.EndTime()` holds for every `uint16`, the
`break` is never taken (the target range ends at 65535 too), so however many steps are allowed the
loop is still running — for every start slot, target start, values and accumulator. -/
theorem slot_loop_never_ends_at_65535 (op : V → V → V) (tStart : Nat) (vals acc : List (Nat × V))
    (start : Nat) (hs : start < 65536) (fuel : Nat) :
    Wrap.loop16 (Wrap.feedBody op compactCfg tStart (65535 + 1 - tStart) vals) 65535 fuel acc start = none :=
  loop16_hangs _ (fun st m hm => feedBody_no_break op tStart vals st m hm) fuel acc start hs

/-- the same range one slot lower terminates (witness `[65530, 65534]`) -/
theorem slot_loop_ends_at_65534 :
    Wrap.loop16 (Wrap.feedBody (aggInt .sum) compactCfg 65530 5 [(65534, 7)]) 65534 10 [] 65530 =
      some [(4, 7)] := by
  decide

/-- **shortcut before the lookup** (seeded c03-19): a one-field block answers a request for a field it
does not have with its only field's data; merged with a two-field block the cell (7, field 2, slot 5)
appears although no input has it -/
def sOne : Block Int :=
  { fields := [(1, .sum)], start := 5, stop := 6, series := [(7, [(1, [(5, 1), (6, 2)])])] }
def sTwo : Block Int :=
  { fields := [(1, .sum), (2, .sum)], start := 5, stop := 9, series := [(7, [(1, [(9, 50)]), (2, [(9, 100)])])] }

theorem shortcut_before_lookup_leaks_field :
    (Reader.FR.reset [(1, [(5, (1 : Int)), (6, 2)])]).get true sOne.fields 2 = some [(5, 1), (6, 2)] ∧
    (Reader.FR.reset [(1, [(5, (1 : Int)), (6, 2)])]).get false sOne.fields 2 = none ∧
    (mergeBlocksBy (fun s f b => match lookup b.series s with
        | none => none
        | some e => (Reader.FR.reset e).get true b.fields f) compactCfg aggInt [sOne, sTwo]).get 7 2 5 = some 1 ∧
    sOne.get 7 2 5 = none ∧ sTwo.get 7 2 5 = none ∧
    (mergeBlocksBy (fun s f b => match lookup b.series s with
        | none => none
        | some e => (Reader.FR.reset e).get false b.fields f) compactCfg aggInt [sOne, sTwo]).get 7 2 5 = none := by
  decide

set_option synthInstance.maxSize 1024 in
/-- **a reader that is not closed** hands the previous series' data to a series the block does not have
("if it doesn't mark metricReader completed, some data will read duplicate") -/
theorem unclosed_reader_repeats_previous_series :
    Reader.seriesLoop false false [(1, FieldType.sum)] [1] none
        [(7, some [(1, [(5, (1 : Int))])]), (8, none)] =
      [(7, [some [(5, 1)]]), (8, [some [(5, 1)]])] ∧
    Reader.seriesLoop false true [(1, FieldType.sum)] [1] none
        [(7, some [(1, [(5, (1 : Int))])]), (8, none)] =
      [(7, [some [(5, 1)]]), (8, [none])] := by
  decide

/-- two blocks with series in two containers; in the second block the bucket of container 1 is damaged -/
def gA : Block Int :=
  { fields := [(1, .sum)], start := 5, stop := 5, series := [(0, [(1, [(5, 3)])]), (65536, [(1, [(5, 7)])])] }
def gB : Block Int :=
  { fields := [(1, .sum)], start := 5, stop := 5, series := [(0, [(1, [(5, 10)])]), (65536, [(1, [(5, 20)])])] }

/-- **O5 (outside the statement: the inputs are not flushed blocks).** Damage in a LATER series bucket is
swallowed by `scan`: the merge succeeds and silently loses that block's values (27 becomes 7), while
the same damage in the first bucket, or in the header, fails the merge. -/
theorem damaged_later_bucket_is_swallowed :
    Damage.mergeFails true [(gA, Damage.Dmg.none), (gB, { header := false, buckets := [1] })] = false ∧
    (Damage.mergeBlocks true aggInt [(gA, Damage.Dmg.none), (gB, { header := false, buckets := [1] })]).get 65536 1 5 = some 7 ∧
    (mergeBlocks true aggInt [gA, gB]).get 65536 1 5 = some 27 ∧
    (Damage.mergeBlocks true aggInt [(gA, Damage.Dmg.none), (gB, { header := false, buckets := [1] })]).get 0 1 5 = some 13 ∧
    Damage.mergeFails true [(gA, Damage.Dmg.none), (gB, { header := false, buckets := [0] })] = true ∧
    Damage.mergeFails true [(gA, Damage.Dmg.none), (gB, { header := true, buckets := [] })] = true := by
  decide

end Neg

/-! ## 14. non-vacuity -/

/-- the pick theorems on a family with three level-1 files, one overlapped by both level-0 files -/
example : (Pick.picked (fun (f : Nat × Nat × Nat) => f.1) (fun g f => !(decide (f.2.2 < g.2.1) || decide (f.2.1 > g.2.2)))
    [(10, 1, 10), (11, 5, 20)] [(3, 1, 6), (4, 100, 200), (5, 15, 30)]).map (·.1) = [3, 5] := by
  decide

end LinVerif.Props.C03
