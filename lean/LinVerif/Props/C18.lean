import LinVerif.Model.Master
namespace LinVerif.Props.C18
theorem trivial_test : (1 : Nat) + 1 = 2 := rfl
end LinVerif.Props.C18
