/-
C18 — Shard placement and shard leadership stay valid under any node churn.

Property theorems over the models `LinVerif.Assign` (coordinator/master/shard_assign.go,
replica_leader_elector.go, models.ShardAssignment.AddReplica) and `LinVerif.Master`
(coordinator/master/state_manager.go event handlers, models.StorageState).
Helper lemmas: `Lemmas/C18Assign.lean`, `Lemmas/C18Master.lean`.
-/
import LinVerif.Model.Master
import LinVerif.Generated.C18
import LinVerif.Lemmas.C18Assign
import LinVerif.Lemmas.C18Master
import LinVerif.Lemmas.C18Config
import LinVerif.Model.C18State
import LinVerif.Lemmas.C18State
import LinVerif.Lemmas.C18Order
import LinVerif.Lemmas.C18Recreate

namespace LinVerif.Props.C18
open LinVerif LinVerif.Assign LinVerif.Master LinVerif.Lemmas.C18

/-! ## 1. Ties to the facts regenerated from /repo's source -/

/-- Go's `replicaIndex` (with `%` = `Int.tmod`) on the non-negative arguments the loop passes is the
model's `replicaIndex`. -/
theorem tie_replicaIndex (first shift j n : Nat) (hn : 2 ≤ n) :
    Generated.C18.replicaIndex first shift j n = (Assign.replicaIndex first shift j n : Int) := by
  unfold Generated.C18.replicaIndex Assign.replicaIndex
  have h1 : ((n : Int) - 1) = ((n - 1 : Nat) : Int) := by omega
  simp only [h1]
  rw [← Int.natCast_add, ← Int.ofNat_tmod, ← Int.natCast_one, ← Int.natCast_add, ← Int.natCast_add,
    ← Int.ofNat_tmod]

/-- `firstReplicaIndex := (int(currentShardID) + startIndex) % numOfNode` -/
theorem tie_firstReplicaIndex (cur start n : Nat) :
    Generated.C18.firstReplicaIndex cur start n = (((cur + start) % n : Nat) : Int) := by
  unfold Generated.C18.firstReplicaIndex
  rw [← Int.natCast_add, ← Int.ofNat_tmod]

/-- the first index of the model's replica list is Go's `firstReplicaIndex`, the others are Go's
`replicaIndex(firstReplicaIndex, nextReplicaShift, j, numOfNode)` for `j = 0 .. rf-2` -/
theorem tie_replicaIdxs (n rf start shift cur : Nat) (hn : 2 ≤ n) :
    (replicaIdxs n rf start shift cur).map (fun (i : Nat) => (i : Int)) =
      Generated.C18.firstReplicaIndex cur start n ::
        (List.range (rf - 1)).map (fun (j : Nat) =>
          Generated.C18.replicaIndex (Generated.C18.firstReplicaIndex cur start n) shift j n) := by
  simp only [replicaIdxs, List.map_cons, List.map_map, tie_firstReplicaIndex]
  congr 1
  apply List.map_congr_left
  intro j _
  simp only [Function.comp]
  rw [tie_replicaIndex _ _ _ _ hn]

/-- `if currentShardID > 0 && int(currentShardID)%numOfNode == 0 { nextReplicaShift++ }` -/
theorem tie_bump (n shift cur : Nat) :
    Assign.bump n shift cur = if Generated.C18.bumpCond cur n then shift + 1 else shift := by
  unfold Assign.bump Generated.C18.bumpCond
  have h : (Int.tmod (cur : Int) (n : Int) = 0) ↔ cur % n = 0 := by
    rw [← Int.ofNat_tmod]; omega
  have h2 : ((cur : Int) > 0) ↔ cur > 0 := by omega
  simp only [h, h2, decide_eq_true_eq]

/-- `models.ShardStateType` iota block and `models.NoLeader` -/
theorem tie_states :
    Generated.C18.unknownShard = (stUnknown : Int) ∧ Generated.C18.newShard = (stNew : Int) ∧
    Generated.C18.onlineShard = (stOnline : Int) ∧ Generated.C18.offlineShard = (stOffline : Int) ∧
    Generated.C18.noLeader = -1 ∧
    (elected [] [] ShardState.zero).leader = Generated.C18.noLeader ∧
    ((elected [] [] ShardState.zero).state : Int) = Generated.C18.offlineShard ∧
    ((elected [1] [1] ShardState.zero).state : Int) = Generated.C18.onlineShard := by
  decide

/-- call order inside the assignment loop body: `AddReplica(first)`, then per `j`:
`replicaIndex`, `AddReplica`; the elector appends live replicas in assignment order -/
theorem tie_call_order :
    Generated.C18.assignLoopCalls = ["len", "rand.Intn", "rand.Intn", "models.ShardID", "int", "int",
      "shardAssignment.AddReplica", "replicaIndex", "shardAssignment.AddReplica"] ∧
    Generated.C18.electLeaderCalls = ["append", "len"] := by
  decide

/-- event delivery inside the master and state publishing, as the source says now:
`EmitEvent` is the blocking send `m.events <- event` (no `default:` arm, nothing dropped) — the
assumption `events_fifo_lossless` rests on —, `consumeEvent` hands every received event to
`processEvent`, and `syncState` marshals the state, writes it and returns the write's error
(no early return, no bookkeeping before the write). -/
theorem tie_event_delivery :
    Generated.C18.emitEventShape = ["send m.events <- event"] ∧
    Generated.C18.consumeEventShape = ["for", "{", "select", "{", "case assign event = recv m.events",
      "call m.processEvent", "case recv m.ctx.Done()", "return", "}", "}"] ∧
    0 < Generated.C18.eventsCap := by
  decide

theorem tie_syncState :
    Generated.C18.syncStateShape = ["assign ctx,cancel = call context.WithTimeout", "defer cancel",
      "assign data = call encoding.JSONMarshal", "if", "assign err = call masterRepo.Put",
      "cond err != nil", "{", "return err", "}", "return nil"] := by
  decide

/-- `storageCluster.DropDatabaseAssignment` deletes exactly one repository key, the dropped
database's own assignment path (no listing by prefix, no loop) — the model's `dropDb` erases
exactly the entries keyed by that database (`drop_keeps_other_databases`). -/
theorem tie_dropDatabaseAssignment :
    Generated.C18.dropDatabaseAssignmentShape = ["if", "assign err = call repo.Delete", "cond err != nil",
      "{", "return err", "}", "return nil"] ∧
    Generated.C18.dropDatabaseAssignmentCalls = ["constants.GetShardAssignPath", "repo.Delete"] := by
  decide

/-- a master that takes over starts empty: `newStorageCluster` wraps `models.NewStorageState()` and
makes no repository call; `NewStateManager` builds fresh maps; `StateMachineFactory.Start` lists
live nodes, then database configs, then shard assignments (the order of `repoEvents`). -/
theorem tie_failover_start :
    Generated.C18.newStorageClusterCalls = ["logger.GetLogger", "models.NewStorageState", "log.Info"] ∧
    Generated.C18.newStorageClusterShape = ["assign log = call logger.GetLogger",
      "assign cluster = &storageCluster{…}", "call log.Info", "return cluster"] ∧
    Generated.C18.newStateManagerCalls = ["context.WithCancel", "newStorageCluster", "make", "make",
      "newReplicaLeaderElector", "make", "atomic.NewBool", "metrics.NewStateManagerStatistics",
      "metrics.NewShardLeaderStatistics", "logger.GetLogger", "mgr.consumeEvent"] ∧
    Generated.C18.factoryStartOrder = ["f.createStorageNodeStateMachine", "f.createDatabaseConfigStateMachine",
      "f.createShardAssignmentStateMachine", "f.createDatabaseLimitsStateMachine"] := by
  decide

/-! ## 2. Every shard gets exactly `rf` distinct nodes of the live list -/

/-- what the property demands of one shard's replica list -/
def ValidReplicas (nodes : List Nat) (rf : Nat) (rs : List Nat) : Prop :=
  rs.length = rf ∧ rs.Nodup ∧ ∀ r ∈ rs, r ∈ nodes

/-- `assignReplicasToStorageNodes`, any cluster, any replica factor within bounds, any (random)
start and shift, any starting shard id, any number of new shards, on top of any assignment that
does not yet contain the new shard ids: each new shard gets exactly `rf` distinct nodes taken from
`nodes`; more precisely the list `shardNodes` for the loop's shift at that shard. -/
theorem assign_valid (nodes : List Nat) (hnd : nodes.Nodup) (rf : Nat) (hrf : 1 ≤ rf)
    (hle : rf ≤ nodes.length) (start shift cur0 k : Nat) (a : Assignment)
    (hfresh : ∀ s, cur0 ≤ s → s < cur0 + k → Map.lookup a s = none) :
    ∀ s, cur0 ≤ s → s < cur0 + k →
      ∃ rs, Map.lookup (assignLoop nodes rf start k shift cur0 a) s = some rs ∧
        rs = shardNodes nodes rf start (shiftAt nodes.length shift cur0 (s - cur0)) s ∧
        ValidReplicas nodes rf rs := by
  intro s h1 h2
  have h := assignLoop_lookup_in nodes hnd rf start hrf hle k shift cur0 a hfresh (s - cur0) (by omega)
  rw [show cur0 + (s - cur0) = s by omega] at h
  exact ⟨_, h, rfl, shardNodes_length hrf, shardNodes_nodup hnd hrf hle,
    shardNodes_subset (by omega)⟩

/-- `ShardAssignment` succeeds exactly on `numShards > 0`, `0 < rf ≤ |nodes|`; the result holds
exactly the shards `[startShard, startShard + numShards)`, each with `rf` distinct live nodes. -/
theorem shardAssignment_valid (nodes : List Nat) (hnd : nodes.Nodup) (numShards rf : Int)
    (start shift startShard : Nat) (h1 : 0 < numShards) (h2 : 0 < rf) (h3 : rf ≤ nodes.length) :
    ∃ res, shardAssignment nodes numShards rf start shift startShard = .ok res ∧
      (∀ s : Nat, startShard ≤ s → (s : Int) < startShard + numShards →
        ∃ rs, Map.lookup res s = some rs ∧ ValidReplicas nodes rf.toNat rs) ∧
      (∀ s : Nat, (s < startShard ∨ (startShard : Int) + numShards ≤ s) → Map.lookup res s = none) := by
  refine ⟨assignLoop nodes rf.toNat start numShards.toNat shift startShard [], ?_, ?_, ?_⟩
  · unfold shardAssignment
    rw [if_neg (by omega), if_neg (by omega), if_neg (by omega)]
  · intro s hs1 hs2
    obtain ⟨rs, hl, _, hv⟩ := assign_valid nodes hnd rf.toNat (by omega) (by omega) start shift
      startShard numShards.toNat [] (fun _ _ _ => rfl) s hs1 (by omega)
    exact ⟨rs, hl, hv⟩
  · intro s hs
    rw [assignLoop_lookup_out nodes rf.toNat start numShards.toNat shift startShard [] s (by omega)]
    rfl

/-- the three error branches of `ShardAssignment`, in the order the code tests them -/
theorem shardAssignment_errors (nodes : List Nat) (numShards rf : Int) (start shift startShard : Nat) :
    (numShards ≤ 0 → shardAssignment nodes numShards rf start shift startShard = .error .numShards) ∧
    (0 < numShards → rf ≤ 0 →
      shardAssignment nodes numShards rf start shift startShard = .error .replicaFactor) ∧
    (0 < numShards → 0 < rf → rf > nodes.length →
      shardAssignment nodes numShards rf start shift startShard = .error .tooFewNodes) := by
  unfold shardAssignment
  refine ⟨fun h => by rw [if_pos h], fun h1 h2 => by rw [if_neg (by omega), if_pos h2],
    fun h1 h2 h3 => by rw [if_neg (by omega), if_neg (by omega), if_pos h3]⟩

/-- `ModifyShardAssignment` (grow): with existing shard ids `0 .. len-1` and `startShard = len`
(what `stateManager.modifyShardAssignment` passes) every added shard gets `rf` distinct live nodes. -/
theorem modifyShardAssignment_valid (nodes : List Nat) (hnd : nodes.Nodup) (cfgShards rf : Int)
    (existing : Assignment) (start shift startShard : Nat)
    (hkeys : ∀ s, startShard ≤ s → Map.lookup existing s = none)
    (h1 : (existing.length : Int) < cfgShards) (h2 : 0 < rf) (h3 : rf ≤ nodes.length) :
    ∃ res, modifyShardAssignment nodes cfgShards rf existing start shift startShard = .ok res ∧
      (∀ s : Nat, startShard ≤ s → (s : Int) < startShard + (cfgShards - existing.length) →
        ∃ rs, Map.lookup res s = some rs ∧ ValidReplicas nodes rf.toNat rs) ∧
      (∀ s : Nat, (s < startShard ∨ (startShard : Int) + (cfgShards - existing.length) ≤ s) →
        Map.lookup res s = Map.lookup existing s) := by
  refine ⟨assignLoop nodes rf.toNat start (cfgShards - existing.length).toNat shift startShard existing,
    ?_, ?_, ?_⟩
  · unfold modifyShardAssignment
    simp only []
    rw [if_neg (by omega), if_neg (by omega), if_neg (by omega)]
  · intro s hs1 hs2
    obtain ⟨rs, hl, _, hv⟩ := assign_valid nodes hnd rf.toNat (by omega) (by omega) start shift
      startShard (cfgShards - existing.length).toNat existing (fun s hs _ => hkeys s hs) s hs1 (by omega)
    exact ⟨rs, hl, hv⟩
  · intro s hs
    exact assignLoop_lookup_out nodes rf.toNat start _ shift startShard existing s (by omega)

/-- the error branches of `ModifyShardAssignment` -/
theorem modifyShardAssignment_errors (nodes : List Nat) (cfgShards rf : Int) (existing : Assignment)
    (start shift startShard : Nat) :
    (cfgShards - existing.length ≤ 0 →
      modifyShardAssignment nodes cfgShards rf existing start shift startShard = .error .numShards) ∧
    (0 < cfgShards - existing.length → rf ≤ 0 →
      modifyShardAssignment nodes cfgShards rf existing start shift startShard = .error .replicaFactor) ∧
    (0 < cfgShards - existing.length → 0 < rf → rf > nodes.length →
      modifyShardAssignment nodes cfgShards rf existing start shift startShard = .error .tooFewNodes) := by
  unfold modifyShardAssignment
  simp only []
  refine ⟨fun h => by rw [if_pos h], fun h1 h2 => by rw [if_neg (by omega), if_pos h2],
    fun h1 h2 h3 => by rw [if_neg (by omega), if_neg (by omega), if_pos h3]⟩

/-! ## 3. First replicas are handed out round-robin -/

/-- number of shards in `[cur0, cur0+k)` whose first replica in `res` is node `x` -/
def firstCount (res : Assignment) (cur0 k x : Nat) : Nat :=
  (List.range' cur0 k).countP (fun s => (Map.lookup res s).bind List.head? = some x)

/-- Within one call, the numbers of new shards whose FIRST replica is `x` resp. `y` differ by at
most one, for any two nodes of the list (stated as `≤ … + 1` for every ordered pair). -/
theorem assign_roundrobin (nodes : List Nat) (hnd : nodes.Nodup) (rf : Nat) (hrf : 1 ≤ rf)
    (hle : rf ≤ nodes.length) (start shift cur0 k : Nat) (a : Assignment)
    (hfresh : ∀ s, cur0 ≤ s → s < cur0 + k → Map.lookup a s = none)
    (x y : Nat) (hx : x ∈ nodes) (hy : y ∈ nodes) :
    firstCount (assignLoop nodes rf start k shift cur0 a) cur0 k x
      ≤ firstCount (assignLoop nodes rf start k shift cur0 a) cur0 k y + 1 := by
  have hn : 0 < nodes.length := by omega
  -- each count is a residue count in the window
  have key : ∀ z, z ∈ nodes → ∃ iz, iz < nodes.length ∧
      firstCount (assignLoop nodes rf start k shift cur0 a) cur0 k z
        = cntRes nodes.length iz (cur0 + start) k := by
    intro z hz
    obtain ⟨iz, hiz, hget⟩ := List.mem_iff_getElem.mp hz
    refine ⟨iz, hiz, ?_⟩
    rw [← countP_shift]
    unfold firstCount
    apply List.countP_congr
    intro s hs
    rw [List.mem_range'_1] at hs
    obtain ⟨rs, hl, hrs, _⟩ := assign_valid nodes hnd rf hrf hle start shift cur0 k a hfresh s hs.1 hs.2
    have hmod : (s + start) % nodes.length < nodes.length := Nat.mod_lt _ hn
    simp only [hl, hrs, Option.bind_some, shardNodes_head, Option.some.injEq, decide_eq_true_eq]
    constructor
    · intro h
      have h' : nodes.getD ((s + start) % nodes.length) 0 = nodes.getD iz 0 := by
        rw [h, getD_eq_getElem' nodes iz hiz, hget]
      exact getD_inj_of_nodup hnd hmod hiz h'
    · intro h
      rw [h, getD_eq_getElem' nodes iz hiz, hget]
  obtain ⟨ix, hix, hcx⟩ := key x hx
  obtain ⟨iy, hiy, hcy⟩ := key y hy
  rw [hcx, hcy]
  exact cntRes_balanced hix hiy _ _

/-! ## 4. Growing keeps existing shards where they are -/

/-- the loop never touches a shard id outside `[cur0, cur0+k)` -/
theorem grow_keeps_existing (nodes : List Nat) (rf start shift cur0 k : Nat) (a : Assignment)
    (s : Nat) (hs : s < cur0 ∨ cur0 + k ≤ s) :
    Map.lookup (assignLoop nodes rf start k shift cur0 a) s = Map.lookup a s :=
  assignLoop_lookup_out nodes rf start k shift cur0 a s hs

/-- `ModifyShardAssignment` with `startShard` = number of existing shards and existing ids
`0 .. len-1`: every existing shard keeps exactly its replica list, whatever the live nodes,
replica factor, start position and target shard count are. -/
theorem modify_keeps_existing (nodes : List Nat) (cfgShards rf : Int) (existing : Assignment)
    (start shift : Nat) (hids : ∀ s rs, Map.lookup existing s = some rs → s < existing.length)
    (res : Assignment)
    (hok : modifyShardAssignment nodes cfgShards rf existing start shift existing.length = .ok res) :
    ∀ s rs, Map.lookup existing s = some rs → Map.lookup res s = some rs := by
  intro s rs hl
  unfold modifyShardAssignment at hok
  simp only [] at hok
  split at hok
  · cases hok
  · split at hok
    · cases hok
    · split at hok
      · cases hok
      · cases hok
        rw [assignLoop_lookup_out nodes _ start _ shift existing.length existing s
          (Or.inl (hids s rs hl))]
        exact hl

/-! ## 5. Leadership under node churn: the inductive invariant over all event sequences -/

/-- `Inv` spelled out (definitions live in `Lemmas/C18Master.lean`). -/
theorem inv_iff (st : St) : Inv st ↔
    (Map.keys st.asg).Nodup ∧ (Map.keys st.shards).Nodup ∧
    (∀ db ss, Map.lookup st.shards db = some ss →
      ∃ a, Map.lookup st.asg db = some a ∧
        (Map.keys a).Nodup ∧ (Map.keys ss).Nodup ∧
        (∀ sid s, Map.lookup ss sid = some s → ∃ rs, Map.lookup a sid = some rs ∧
          (s.state = stOnline ↔ ∃ r, r ∈ rs ∧ r ∈ st.live) ∧
          (s.state = stOnline → ∃ l : Nat, s.leader = (l : Int) ∧ l ∈ st.live ∧ l ∈ rs) ∧
          (s.state ≠ stOnline → s.state = stOffline ∧ s.leader = -1) ∧
          s.replicas = rs) ∧
        (∀ sid rs, Map.lookup a sid = some rs → ∃ s, Map.lookup ss sid = some s)) ∧
    (∀ db a, Map.lookup st.asg db = some a → ∃ ss, Map.lookup st.shards db = some ss) := by
  constructor
  · intro h
    refine ⟨h.asg_keys, h.shards_keys, ?_, h.has_states⟩
    intro db ss hs
    obtain ⟨a, ha, hok⟩ := h.db_ok db ss hs
    refine ⟨a, ha, hok.asg_keys, hok.st_keys, ?_, hok.reported⟩
    intro sid s hl
    obtain ⟨rs, hr, hso⟩ := hok.shard_ok sid s hl
    exact ⟨rs, hr, hso.online_iff, hso.leader_ok, hso.offline, hso.replicas_eq⟩
  · rintro ⟨h1, h2, h3, h4⟩
    refine ⟨h1, h2, ?_, h4⟩
    intro db ss hs
    obtain ⟨a, ha, k1, k2, k3, k4⟩ := h3 db ss hs
    refine ⟨a, ha, k1, k2, ?_, k4⟩
    intro sid s hl
    obtain ⟨rs, hr, j1, j2, j3, j4⟩ := k3 sid s hl
    exact ⟨rs, hr, j1, j2, j3, j4⟩

theorem inv_initial : Inv St.init := inv_init

/-- every event (node up — also for a node that is already live —, node down — also for a node
that is not live —, assignment change, database config change, database drop) preserves `Inv` -/
theorem inv_preserved (st : St) (ev : Event) (h : Inv st) (hw : WellFormed ev) : Inv (step st ev) :=
  inv_step h ev hw

/-- `Inv` holds after ANY sequence of events from the empty state -/
theorem inv_reachable (es : List Event) (hw : ∀ e ∈ es, WellFormed e) : Inv (run St.init es) :=
  inv_run es St.init inv_init hw

/-- The property's second sentence, for every event sequence: every reported shard state (every
entry of `ShardStates`) belongs to an assigned shard, is online exactly when at least one of its
replicas is alive, an online shard's leader is an alive replica of that shard, and a shard that is
not online is offline without leader. Stated on list membership (no shadowed entries exist). -/
theorem churn_leadership (es : List Event) (hw : ∀ e ∈ es, WellFormed e) :
    let st := run St.init es
    ∀ db ss, (db, ss) ∈ st.shards → ∀ sid s, (sid, s) ∈ ss →
      ∃ a rs, (db, a) ∈ st.asg ∧ (sid, rs) ∈ a ∧
        (s.state = stOnline ↔ ∃ r, r ∈ rs ∧ r ∈ st.live) ∧
        (s.state = stOnline → ∃ l : Nat, s.leader = (l : Int) ∧ l ∈ st.live ∧ l ∈ rs) ∧
        (s.state ≠ stOnline → s.state = stOffline ∧ s.leader = -1) := by
  intro st db ss hdb sid s hsid
  have hinv : Inv st := inv_reachable es hw
  have h1 := lookup_of_mem st.shards db ss hinv.shards_keys hdb
  obtain ⟨a, ha, hok⟩ := hinv.db_ok db ss h1
  have h2 := lookup_of_mem ss sid s hok.st_keys hsid
  obtain ⟨rs, hr, hso⟩ := hok.shard_ok sid s h2
  exact ⟨a, rs, mem_of_lookup _ _ _ ha, mem_of_lookup _ _ _ hr, hso.online_iff, hso.leader_ok,
    hso.offline⟩

/-- `LiveNodes` is exactly what the event history says: a node is live iff the last start-up /
failure event naming it was a start-up (`aliveAfter`, defined in `Lemmas/C18Master.lean`) -/
theorem live_is_event_history (es : List Event) (r : Nat) :
    r ∈ (run St.init es).live ↔ aliveAfter r es false = true := by
  have := mem_live_run r es St.init
  simpa [St.init] using this

/-- `churn_leadership` with "alive" read off the event sequence itself rather than off the
state's `LiveNodes` -/
theorem churn_leadership_events (es : List Event) (hw : ∀ e ∈ es, WellFormed e) :
    let st := run St.init es
    ∀ db ss, (db, ss) ∈ st.shards → ∀ sid s, (sid, s) ∈ ss →
      ∃ a rs, (db, a) ∈ st.asg ∧ (sid, rs) ∈ a ∧
        (s.state = stOnline ↔ ∃ r, r ∈ rs ∧ aliveAfter r es false = true) ∧
        (s.state = stOnline → ∃ l : Nat, s.leader = (l : Int) ∧ aliveAfter l es false = true ∧ l ∈ rs) ∧
        (s.state ≠ stOnline → s.state = stOffline ∧ s.leader = -1) := by
  intro st db ss hdb sid s hsid
  obtain ⟨a, rs, h1, h2, h3, h4, h5⟩ := churn_leadership es hw db ss hdb sid s hsid
  refine ⟨a, rs, h1, h2, ?_, ?_, h5⟩
  · rw [h3]
    constructor
    · rintro ⟨r, hr, hl⟩; exact ⟨r, hr, (live_is_event_history es r).mp hl⟩
    · rintro ⟨r, hr, hl⟩; exact ⟨r, hr, (live_is_event_history es r).mpr hl⟩
  · intro ho
    obtain ⟨l, k1, k2, k3⟩ := h4 ho
    exact ⟨l, k1, (live_is_event_history es l).mp k2, k3⟩

/-- conversely every assigned shard of every database is reported -/
theorem churn_every_shard_reported (es : List Event) (hw : ∀ e ∈ es, WellFormed e) :
    let st := run St.init es
    ∀ db a, (db, a) ∈ st.asg → ∀ sid rs, (sid, rs) ∈ a →
      ∃ ss s, (db, ss) ∈ st.shards ∧ (sid, s) ∈ ss := by
  intro st db a hdb sid rs hsid
  have hinv : Inv st := inv_reachable es hw
  have h1 := lookup_of_mem st.asg db a hinv.asg_keys hdb
  obtain ⟨ss, hss⟩ := hinv.has_states db a h1
  obtain ⟨a', ha', hok⟩ := hinv.db_ok db ss hss
  rw [h1] at ha'; cases ha'
  have h2 := lookup_of_mem a sid rs hok.asg_keys hsid
  obtain ⟨s, hs⟩ := hok.reported sid rs h2
  exact ⟨ss, s, mem_of_lookup _ _ _ hss, mem_of_lookup _ _ _ hs⟩

/-! ## 6. Placement and leadership together -/

/-- what `ShardAssignment` returns is a well-formed assignment event (distinct shard ids) -/
theorem shardAssignment_wellFormed (nodes : List Nat) (numShards rf : Int) (start shift startShard : Nat)
    (db : Nat) (res : Assignment)
    (hok : shardAssignment nodes numShards rf start shift startShard = .ok res) :
    WellFormed (.assignChanged db res) := by
  unfold shardAssignment at hok
  split at hok
  · cases hok
  · split at hok
    · cases hok
    · split at hok
      · cases hok
      · cases hok
        exact nodup_keys_assignLoop nodes _ start _ shift startShard [] (by simp [Map.keys])

/-- A database created on nodes that are all alive starts with every shard online: after any
event history, delivering the assignment computed by `ShardAssignment` over a list of live nodes
yields only online shards for that database, each led by an alive replica. -/
theorem created_on_live_nodes_all_online (es : List Event) (hw : ∀ e ∈ es, WellFormed e)
    (nodes : List Nat) (hnd : nodes.Nodup) (numShards rf : Int) (start shift : Nat) (db : Nat)
    (res : Assignment) (hlive : ∀ r ∈ nodes, r ∈ (run St.init es).live)
    (hok : shardAssignment nodes numShards rf start shift 0 = .ok res) :
    let st := step (run St.init es) (.assignChanged db res)
    ∀ ss, (db, ss) ∈ st.shards → ∀ sid s, (sid, s) ∈ ss →
      s.state = stOnline ∧ ∃ l : Nat, s.leader = (l : Int) ∧ l ∈ st.live ∧ l ∈ s.replicas := by
  intro st ss hdb sid s hsid
  have hwf := shardAssignment_wellFormed nodes numShards rf start shift 0 db res hok
  have hinv : Inv st := inv_step (inv_reachable es hw) _ hwf
  have h1 := lookup_of_mem st.shards db ss hinv.shards_keys hdb
  obtain ⟨a, ha, hdbok⟩ := hinv.db_ok db ss h1
  have ha' : Map.lookup st.asg db = some res := Map.lookup_upsert_self _ _ _
  rw [ha'] at ha; cases ha
  have h2 := lookup_of_mem ss sid s hdbok.st_keys hsid
  obtain ⟨rs, hr, hso⟩ := hdbok.shard_ok sid s h2
  -- the parameters were accepted, so the validity theorem applies
  have hpos : 0 < numShards ∧ 0 < rf ∧ rf ≤ nodes.length := by
    unfold shardAssignment at hok
    split at hok
    · cases hok
    · split at hok
      · cases hok
      · split at hok
        · cases hok
        · omega
  obtain ⟨res', hok', hin, hout⟩ := shardAssignment_valid nodes hnd numShards rf start shift 0
    hpos.1 hpos.2.1 hpos.2.2
  rw [hok] at hok'; cases hok'
  have hrange : (sid : Int) < (0 : Nat) + numShards := by
    apply Classical.byContradiction
    intro hn
    have := hout sid (Or.inr (by omega))
    rw [hr] at this; cases this
  obtain ⟨rs', hr', hv⟩ := hin sid (Nat.zero_le _) hrange
  rw [hr] at hr'; cases hr'
  obtain ⟨hlen, _, hsub⟩ := hv
  have hne : rs ≠ [] := by
    intro e; rw [e] at hlen; simp at hlen; omega
  obtain ⟨r0, hr0⟩ := List.exists_mem_of_ne_nil rs hne
  have hon : s.state = stOnline := hso.online_iff.mpr ⟨r0, hr0, hlive r0 (hsub r0 hr0)⟩
  obtain ⟨l, k1, k2, k3⟩ := hso.leader_ok hon
  exact ⟨hon, l, k1, k2, hso.replicas_eq ▸ k3⟩

/-- dropping a database leaves every other database's assignment and shard states untouched
(and the live set) -/
theorem drop_keeps_other_databases (st : St) (db db' : Nat) (h : db ≠ db') :
    Map.lookup (step st (.dropDb db)).asg db' = Map.lookup st.asg db' ∧
    Map.lookup (step st (.dropDb db)).shards db' = Map.lookup st.shards db' ∧
    (step st (.dropDb db)).live = st.live := by
  have hs : step st (.dropDb db) = if st.dbs.contains db then
      { st with dbs := st.dbs.filter (· ≠ db), asg := Map.erase st.asg db,
                shards := Map.erase st.shards db } else st := rfl
  rw [hs]
  by_cases hc : st.dbs.contains db
  · rw [if_pos hc]
    exact ⟨Map.lookup_erase_ne _ _ _ h, Map.lookup_erase_ne _ _ _ h, rfl⟩
  · rw [if_neg hc]
    exact ⟨rfl, rfl, rfl⟩

/-! ## 7. Delivery from `EmitEvent` to `processEvent` -/

/-- `events_fifo_lossless`: for every channel capacity and every interleaving of `EmitEvent` calls
(blocking when the channel is full) with the consumer goroutine's steps, the manager's state
followed by the still-queued events is the state after ALL emitted events in emission order; in
particular once the queue is drained the state is `run St.init emitted` — nothing is lost,
duplicated or reordered. -/
theorem events_fifo_lossless (cap : Nat) (as : List QAction) :
    let q := qrun cap QSt.init as
    run q.st q.queue = run St.init q.emitted ∧ (q.queue = [] → q.st = run St.init q.emitted) := by
  intro q
  have h : QInv q := qinv_run cap as QSt.init qinv_init
  exact ⟨h, fun hq => by unfold QInv at h; rw [hq] at h; exact h⟩

/-- the leadership statement at every quiescent point of every emit/consume schedule, with
"alive" read off the emitted events -/
theorem churn_leadership_queued (cap : Nat) (as : List QAction)
    (hw : ∀ e, QAction.emit e ∈ as → WellFormed e) :
    let q := qrun cap QSt.init as
    q.queue = [] →
    ∀ db ss, (db, ss) ∈ q.st.shards → ∀ sid s, (sid, s) ∈ ss →
      ∃ a rs, (db, a) ∈ q.st.asg ∧ (sid, rs) ∈ a ∧
        (s.state = stOnline ↔ ∃ r, r ∈ rs ∧ aliveAfter r q.emitted false = true) ∧
        (s.state = stOnline → ∃ l : Nat, s.leader = (l : Int) ∧ aliveAfter l q.emitted false = true ∧ l ∈ rs) ∧
        (s.state ≠ stOnline → s.state = stOffline ∧ s.leader = -1) := by
  intro q hq
  have hst : q.st = run St.init q.emitted := (events_fifo_lossless cap as).2 hq
  have hwf : ∀ e ∈ q.emitted, WellFormed e :=
    emitted_run cap WellFormed as QSt.init hw (fun e he => by simp [QSt.init] at he)
  rw [hst]
  exact churn_leadership_events q.emitted hwf

/-- non-vacuity: with capacity 2 a third `EmitEvent` blocks until the consumer took one; after
draining, both node events and the assignment have been applied -/
example :
    let q := qrun 2 QSt.init [.emit (.nodeUp 1), .emit (.assignChanged 0 [(0, [1])]), .emit (.nodeDown 1),
      .consume, .emit (.nodeDown 1), .consume, .consume]
    q.queue = [] ∧ q.emitted.length = 3 ∧
      q.st.shards = [(0, [(0, { state := stOffline, leader := -1, replicas := [1] })])] := by
  decide

/-! ## 8. Master fail-over and watch interleavings -/

/-- what a master reports after taking over is a function of the repository alone: whatever the
previous master held (dead nodes it still believed alive, dropped databases, leaders) is gone -/
theorem failover_depends_only_on_repo (old old' : St) (r : Repo) : failover old r = failover old' r := rfl

/-- after a fail-over exactly the nodes registered in the repository are live — a node that died
while no master was watching is not live, whatever the old master thought -/
theorem failover_live (old : St) (r : Repo) (n : Nat) : n ∈ (failover old r).live ↔ n ∈ r.live := by
  unfold failover repoEvents
  rw [run_append, run_append]
  rw [mem_live_run_nonnode n _ _ (by
    intro e he id
    obtain ⟨p, _, rfl⟩ := List.mem_map.mp he
    exact fun h => Key.noConfusion h)]
  rw [mem_live_run_nonnode n _ _ (by
    intro e he id
    obtain ⟨p, _, rfl⟩ := List.mem_map.mp he
    exact fun h => Key.noConfusion h)]
  rw [mem_live_run_nodeUps]
  simp [St.init]

/-- all C18 invariants hold after a fail-over and after any events that follow it -/
theorem failover_then_churn (old : St) (r : Repo) (hr : ∀ p ∈ r.asgs, (Map.keys p.2).Nodup)
    (es : List Event) (hw : ∀ e ∈ es, WellFormed e) :
    Inv (run (failover old r) es) ∧
    run (failover old r) es = run St.init (repoEvents r ++ es) := by
  have hwr : ∀ e ∈ repoEvents r ++ es, WellFormed e := by
    intro e he
    rcases List.mem_append.mp he with h | h
    · unfold repoEvents at h
      rcases List.mem_append.mp h with h1 | h1
      · rcases List.mem_append.mp h1 with h2 | h2
        · obtain ⟨x, _, rfl⟩ := List.mem_map.mp h2; trivial
        · obtain ⟨x, _, rfl⟩ := List.mem_map.mp h2; trivial
      · obtain ⟨p, hp, rfl⟩ := List.mem_map.mp h1
        exact hr p hp
    · exact hw e h
  have heq : run (failover old r) es = run St.init (repoEvents r ++ es) := by
    unfold failover; rw [run_append]
  exact ⟨heq ▸ inv_reachable _ hwr, heq⟩

/-- The etcd watches deliver each key's events in order and different keys' events in an arbitrary
interleaving. Every delivery order `es` is covered: the invariant holds for it, and the live set is
determined by the per-key streams alone — two delivery orders with the same stream for node `n`'s
key agree on whether `n` is live, however the streams are interleaved. -/
theorem watch_interleavings (es es' : List Event) (hw : ∀ e ∈ es, WellFormed e) (hw' : ∀ e ∈ es', WellFormed e) :
    Inv (run St.init es) ∧ Inv (run St.init es') ∧
    ∀ n, streamOf (.node n) es = streamOf (.node n) es' →
      (n ∈ (run St.init es).live ↔ n ∈ (run St.init es').live) := by
  refine ⟨inv_reachable es hw, inv_reachable es' hw', ?_⟩
  intro n hs
  rw [live_is_event_history, live_is_event_history, aliveAfter_streamOf n es, aliveAfter_streamOf n es', hs]

/-- non-vacuity: the old master believed node 1 alive and led by it; node 1 died during the outage -/
example :
    let old := run St.init [.nodeUp 1, .nodeUp 2, .dbCfg 0, .assignChanged 0 [(0, [1, 2])]]
    let new := failover old { live := [2], cfgs := [0], asgs := [(0, [(0, [1, 2])])] }
    old.shards = [(0, [(0, { state := stOnline, leader := 1, replicas := [1, 2] })])] ∧
    new.shards = [(0, [(0, { state := stOnline, leader := 2, replicas := [1, 2] })])] ∧ new.live = [2] := by
  decide

/-- non-vacuity: two interleavings of the same per-key streams (assignment before / after the
node events) — same live set, different but both valid shard states -/
example :
    streamOf (.node 1) [Event.nodeUp 1, .assignChanged 0 [(0, [1])], .nodeDown 1]
      = streamOf (.node 1) [Event.assignChanged 0 [(0, [1])], .nodeUp 1, .nodeDown 1] := by
  rfl

/-! ## 9. The database-config handler on the repository: registrations vs. the manager's view,
repository read faults -/

/-- `storageCluster.GetLiveNodes` lists the registration keys and decodes them; it does not read
`c.state.LiveNodes` (no fast path): the model's `getLiveNodes` ignores the manager's view. -/
theorem tie_getLiveNodes :
    Generated.C18.getLiveNodesShape = ["assign kvs,err = call repo.List", "if", "cond err != nil", "{",
      "return nil,err", "}", "range kvs", "{", "assign node = models.StatefulNode{}", "if",
      "assign err = call json.Unmarshal", "cond err != nil", "{", "return nil,err", "}",
      "assign rs = call append", "}", "return rs,nil"] ∧
    Generated.C18.getLiveNodesCalls = ["repo.List", "json.Unmarshal", "append"] := by
  decide

/-- `GetShardAssign` passes the repository's error on unchanged (`if err != nil { return nil, err }`
right after the `Get`), and `shardAssignment()` gives up on every error but `ErrNotExist`; creation
happens only for `shardAssign == nil`: the model's `getShardAssign` / `cfgHandle` dispatch. -/
theorem tie_getShardAssign :
    Generated.C18.getShardAssignHandlerShape = ["assign data,err = call masterRepo.Get", "if", "cond err != nil",
      "{", "return nil,err", "}", "assign shardAssign = &models.ShardAssignment{}", "if",
      "assign err = call encoding.JSONUnmarshal", "cond err != nil", "{", "return nil,err", "}",
      "return shardAssign,nil"] := by
  decide

theorem tie_shardAssignment_dispatch :
    Generated.C18.shardAssignmentHandlerShape = ["if", "cond databaseCfg.Name == \"\"", "{", "return", "}",
      "assign cluster = m.storage", "assign m.databases[databaseCfg.Name] = databaseCfg",
      "assign shardAssign,err = call m.GetShardAssign", "if",
      "cond err != nil && err != statepkg.ErrNotExist", "{", "return", "}", "switch", "{",
      "case shardAssign == nil", "assign _,err = call m.createShardAssignment", "if", "cond err != nil", "{",
      "return", "}", "case len(shardAssign.Shards) != databaseCfg.NumOfShard", "if",
      "assign err = call m.modifyShardAssignment", "cond err != nil", "{", "return", "}", "default",
      "assign data = call encoding.JSONMarshal", "if", "assign err = call masterRepo.Put", "cond err != nil",
      "{", "return", "}", "}"] := by
  decide

/-- create and grow: the nodes come from `storage.GetLiveNodes()` (error / empty list → return before
anything is written), the assignment is written with `masterRepo.Put` and then
`storage.SaveDatabaseAssignment`, each error returned at once -/
theorem tie_create_modify_handlers :
    Generated.C18.createShardAssignmentHandlerShape = ["assign liveNodes,err = call storage.GetLiveNodes", "if",
      "cond err != nil", "{", "return nil,err", "}", "if", "cond len(liveNodes) == 0", "{",
      "return nil,constants.ErrNoLiveNode", "}", "assign databaseName = cfg.Name", "stmt *ast.DeclStmt",
      "assign nodes = call make", "range liveNodes", "{", "assign node = liveNodes[idx]",
      "assign nodeIDs = call append", "assign nodes[node.ID] = &node", "}",
      "assign shardAssign,err = call ShardAssignment", "if", "cond err != nil", "{", "return nil,err", "}",
      "assign data = call encoding.JSONMarshal", "if", "assign err = call masterRepo.Put", "cond err != nil", "{",
      "return nil,err", "}", "if", "assign err = call storage.SaveDatabaseAssignment", "cond err != nil", "{",
      "return nil,err", "}", "return shardAssign,nil"] ∧
    Generated.C18.modifyShardAssignmentHandlerShape = ["assign nodes = call make", "if",
      "cond len(shardAssign.Shards) > cfg.NumOfShard", "{", "call panic", "}", "else", "{", "if",
      "cond len(shardAssign.Shards) < cfg.NumOfShard", "{", "assign liveNodes,err = call storage.GetLiveNodes",
      "if", "cond err != nil", "{", "return err", "}", "if", "cond len(liveNodes) == 0", "{",
      "return constants.ErrNoLiveNode", "}", "stmt *ast.DeclStmt", "range liveNodes", "{",
      "assign node = liveNodes[idx]", "assign nodeIDs = call append", "assign nodes[node.ID] = &node", "}",
      "assign err = call ModifyShardAssignment", "if", "cond err != nil", "{", "return err", "}", "}", "}",
      "assign databaseName = cfg.Name", "assign data = call encoding.JSONMarshal", "if",
      "assign err = call masterRepo.Put", "cond err != nil", "{", "return err", "}", "if",
      "assign err = call storage.SaveDatabaseAssignment", "cond err != nil", "{", "return err", "}",
      "return nil"] := by
  decide

/-- the watch callbacks of the master's state machines: a registration key that appears becomes
`NodeStartup`, one that vanishes `NodeFailure`; a config key `DatabaseConfigChanged` /
`DatabaseConfigDeletion`; an assignment key `ShardAssignmentChanged` (create callback first, delete
callback second) — the event kinds `register` / `crash` / `cfg` / `drop` / `deliverAsg` of the
`World` model queue resp. apply -/
theorem tie_factory_event_types :
    Generated.C18.factoryEventTypes = [
      "createStorageNodeStateMachine: watch constants.StorageLiveNodesPath, discovery.NodeStartup, discovery.NodeFailure",
      "createDatabaseConfigStateMachine: watch constants.DatabaseConfigPath, discovery.DatabaseConfigChanged, discovery.DatabaseConfigDeletion",
      "createShardAssignmentStateMachine: watch constants.ShardAssignmentPath, discovery.ShardAssignmentChanged, discovery.ShardAssignmentDeletion"] :=
  rfl

/-- a failed read of the persisted assignment (any error but ErrNotExist) never leads to a write:
the repository is left exactly as it was — an existing database is not taken for a new one -/
theorem cfg_read_fault_changes_nothing (r : Store) (view : List Nat) (db : Nat) (numShards rf : Int)
    (start shift : Nat) (f : Faults) (hf : f.get = true) :
    cfgHandle r view db numShards rf start shift f = r := by
  unfold cfgHandle getShardAssign
  simp [hf]

/-- placement does not depend on the manager's own view of the live nodes at all -/
theorem cfg_ignores_managers_view (r : Store) (view view' : List Nat) (db : Nat) (numShards rf : Int)
    (start shift : Nat) (f : Faults) :
    cfgHandle r view db numShards rf start shift f = cfgHandle r view' db numShards rf start shift f := rfl

/-- a config event of one database leaves every other database's persisted assignment and the
registrations untouched -/
theorem cfg_other_databases_untouched (r : Store) (view : List Nat) (db db' : Nat) (numShards rf : Int)
    (start shift : Nat) (f : Faults) (h : db ≠ db') :
    Map.lookup (cfgHandle r view db numShards rf start shift f).asgs db' = Map.lookup r.asgs db' ∧
    (cfgHandle r view db numShards rf start shift f).reg = r.reg := by
  have ho := cfgHandle_outcome r view db numShards rf start shift f
  generalize cfgHandle r view db numShards rf start shift f = r' at ho
  cases ho with
  | unchanged => exact ⟨rfl, rfl⟩
  | created a => exact ⟨putAsg_lookup_ne _ _ _ _ _ h, putAsg_reg _ _ _ _⟩
  | grown a a' => exact ⟨putAsg_lookup_ne _ _ _ _ _ h, putAsg_reg _ _ _ _⟩
  | retriggered a => exact ⟨putAsg_lookup_ne _ _ _ _ _ h, putAsg_reg _ _ _ _⟩

/-- "growing the shard count keeps existing shards where they are", for the handler as a whole:
whatever the config event asks for, whichever repository calls fail, whatever the registrations
and the manager's view are — every shard of the persisted assignment keeps its replica list. -/
theorem cfg_keeps_existing_shards (r : Store) (view : List Nat) (db : Nat) (numShards rf : Int)
    (start shift : Nat) (f : Faults) (a : Assignment) (hl : Map.lookup r.asgs db = some a) (hd : Dense a) :
    ∃ a', Map.lookup (cfgHandle r view db numShards rf start shift f).asgs db = some a' ∧
      ∀ s rs, Map.lookup a s = some rs → Map.lookup a' s = some rs := by
  have ho := cfgHandle_outcome r view db numShards rf start shift f
  generalize cfgHandle r view db numShards rf start shift f = r' at ho
  cases ho with
  | unchanged => exact ⟨a, hl, fun _ _ h => h⟩
  | created a0 _ _ hn => rw [hl] at hn; cases hn
  | grown a0 a1 _ _ hl0 _ hok =>
    rw [hl] at hl0; cases hl0
    rw [putAsg_lookup_self]
    split
    · exact ⟨a, hl, fun _ _ h => h⟩
    · exact ⟨a1, rfl, modify_keeps_existing r.reg numShards rf a start shift (fun s rs h => hd.lt h) a1 hok⟩
  | retriggered a0 _ hl0 =>
    rw [hl] at hl0; cases hl0
    rw [putAsg_lookup_self]
    split
    · exact ⟨a, hl, fun _ _ h => h⟩
    · exact ⟨a, rfl, fun _ _ h => h⟩

/-- "replicas taken from the nodes alive at creation", for the handler as a whole: every shard a
config event ADDS to a database's persisted assignment (all shards of a created database, the new
shards of a grown one) gets exactly `rf` distinct nodes that are REGISTERED when the event is
handled — for every view the manager may hold (any lag of the node watch), any faults. -/
theorem cfg_new_shards_on_registered (r : Store) (view : List Nat) (db : Nat) (numShards rf : Int)
    (start shift : Nat) (f : Faults) (hreg : r.reg.Nodup)
    (hd : ∀ a, Map.lookup r.asgs db = some a → Dense a)
    (a' : Assignment) (s : Nat) (rs : List Nat)
    (hl' : Map.lookup (cfgHandle r view db numShards rf start shift f).asgs db = some a')
    (hs : Map.lookup a' s = some rs)
    (hnew : ∀ a, Map.lookup r.asgs db = some a → Map.lookup a s = none) :
    ValidReplicas r.reg rf.toNat rs := by
  have ho := cfgHandle_outcome r view db numShards rf start shift f
  generalize cfgHandle r view db numShards rf start shift f = r' at ho hl'
  have old : Map.lookup r.asgs db = some a' → False := by
    intro h; rw [hnew a' h] at hs; cases hs
  cases ho with
  | unchanged => exact (old hl').elim
  | created a0 _ _ hn _ hok =>
    rw [putAsg_lookup_self] at hl'
    split at hl'
    · exact (old hl').elim
    · cases hl'
      obtain ⟨p1, p2, p3⟩ := shardAssignment_ok_pos hok
      obtain ⟨res, hok', hin, hout⟩ := shardAssignment_valid r.reg hreg numShards rf start shift 0 p1 p2 p3
      rw [hok] at hok'; cases hok'
      by_cases hr : (s : Int) < (0 : Nat) + numShards
      · obtain ⟨rs', h1, hv⟩ := hin s (Nat.zero_le _) hr
        rw [hs] at h1; cases h1; exact hv
      · have := hout s (Or.inr (by omega))
        rw [hs] at this; cases this
  | grown a0 a1 _ _ hl0 hlt hok =>
    rw [putAsg_lookup_self] at hl'
    split at hl'
    · exact (old hl').elim
    · cases hl'
      have hd0 := hd a0 hl0
      obtain ⟨p1, p2, p3⟩ := modifyShardAssignment_ok_pos hok
      obtain ⟨res, hok', hin, hout⟩ := modifyShardAssignment_valid r.reg hreg numShards rf a0 start shift a0.length
        (fun s hs => hd0.none_of_le hs) p1 p2 p3
      rw [hok] at hok'; cases hok'
      have hnone := hnew a0 hl0
      have hge : a0.length ≤ s := by
        apply Classical.byContradiction
        intro hn
        have := (hd0.ids s).mpr (by omega)
        rw [hnone] at this; cases this
      by_cases hr : (s : Int) < a0.length + (numShards - a0.length)
      · obtain ⟨rs', h1, hv⟩ := hin s hge hr
        rw [hs] at h1; cases h1; exact hv
      · have := hout s (Or.inr (by omega))
        rw [hs, hnone] at this; cases this
  | retriggered a0 _ hl0 =>
    rw [putAsg_lookup_self] at hl'
    split at hl'
    · exact (old hl').elim
    · cases hl'; exact (old hl0).elim

/-- The whole system — registrations appear and vanish, the node watch hands the events over late,
databases are created / grown / altered in between with any of the handler's repository calls
failing, assignments are delivered at any time, databases are dropped — for EVERY such history:
registrations form a set, every persisted assignment has shard ids `0..n-1`, and the manager
satisfies the leadership invariant `Inv` (so `churn_leadership` holds of its state). -/
theorem world_invariant (es : List WEvent) :
    let w := wrun World.init es
    w.store.reg.Nodup ∧ (∀ db a, Map.lookup w.store.asgs db = some a → Dense a) ∧ Inv w.st :=
  let h := winv_run es World.init winv_init
  ⟨h.reg, h.dense, h.st⟩

/-- "registered" is what the history of registration changes says -/
theorem registered_is_registration_history (es : List WEvent) (r : Nat) :
    r ∈ (wrun World.init es).store.reg ↔ registeredAfter r es false = true := by
  have := mem_reg_wrun r es World.init
  simpa [World.init] using this

/-- In every reachable world, whatever the manager currently believes about the live nodes, a config
event places every added shard on `rf` distinct nodes that are registered at that moment. -/
theorem world_placement_on_registered (es : List WEvent) (db : Nat) (numShards rf : Int)
    (start shift : Nat) (f : Faults) (a' : Assignment) (s : Nat) (rs : List Nat) :
    let w := wrun World.init es
    Map.lookup (wstep w (.cfg db numShards rf start shift f)).store.asgs db = some a' →
    Map.lookup a' s = some rs →
    (∀ a, Map.lookup w.store.asgs db = some a → Map.lookup a s = none) →
    rs.length = rf.toNat ∧ rs.Nodup ∧ ∀ x ∈ rs, registeredAfter x es false = true := by
  intro w hl' hs hnew
  have hw := winv_run es World.init winv_init
  obtain ⟨h1, h2, h3⟩ := cfg_new_shards_on_registered w.store w.st.live db numShards rf start shift f hw.reg
    (fun a h => hw.dense db a h) a' s rs hl' hs hnew
  exact ⟨h1, h2, fun x hx => (registered_is_registration_history es x).mp (h3 x hx)⟩

/-- Lag is only lag: in every reachable world the manager's live set, advanced by the node events
that are still queued, IS the registered set; once the node watch has caught up the two coincide. -/
theorem world_view_catches_up (es : List WEvent) :
    let w := wrun World.init es
    (∀ r, r ∈ (run w.st w.nodeq).live ↔ r ∈ w.store.reg) ∧
    (w.nodeq = [] → ∀ r, r ∈ w.st.live ↔ r ∈ w.store.reg) := by
  intro w
  have h : ViewInv w := viewInv_run es World.init viewInv_init
  refine ⟨h, fun hq r => ?_⟩
  have := h r
  rw [hq] at this
  exact this

/-- The property's second sentence for the whole system, with "alive" = REGISTERED: whenever the
node watch has caught up (no node event queued), after any history of registration changes, late
deliveries, creates / grows with faults, assignment deliveries and drops, every reported shard is
online exactly when one of its replicas is registered, and an online shard's leader is a registered
replica of that shard. -/
theorem world_quiescent_leadership (es : List WEvent) :
    let w := wrun World.init es
    w.nodeq = [] →
    ∀ db ss, (db, ss) ∈ w.st.shards → ∀ sid s, (sid, s) ∈ ss →
      ∃ a rs, (db, a) ∈ w.st.asg ∧ (sid, rs) ∈ a ∧
        (s.state = stOnline ↔ ∃ r, r ∈ rs ∧ r ∈ w.store.reg) ∧
        (s.state = stOnline → ∃ l : Nat, s.leader = (l : Int) ∧ l ∈ w.store.reg ∧ l ∈ rs) ∧
        (s.state ≠ stOnline → s.state = stOffline ∧ s.leader = -1) := by
  intro w hq db ss hdb sid s hsid
  have hinv : Inv w.st := (world_invariant es).2.2
  have hv := (world_view_catches_up es).2 hq
  have h1 := lookup_of_mem w.st.shards db ss hinv.shards_keys hdb
  obtain ⟨a, ha, hok⟩ := hinv.db_ok db ss h1
  have h2 := lookup_of_mem ss sid s hok.st_keys hsid
  obtain ⟨rs, hr, hso⟩ := hok.shard_ok sid s h2
  refine ⟨a, rs, mem_of_lookup _ _ _ ha, mem_of_lookup _ _ _ hr, ?_, ?_, hso.offline⟩
  · rw [hso.online_iff]
    constructor
    · rintro ⟨r, hr1, hr2⟩; exact ⟨r, hr1, (hv r).mp hr2⟩
    · rintro ⟨r, hr1, hr2⟩; exact ⟨r, hr1, (hv r).mpr hr2⟩
  · intro ho
    obtain ⟨l, k1, k2, k3⟩ := hso.leader_ok ho
    exact ⟨l, k1, (hv l).mp k2, k3⟩

/-- one step of the world keeps a persisted shard unless its database is dropped -/
theorem wstep_keeps_shard (w : World) (hw : WInv w) (e : WEvent) (db s : Nat) (a : Assignment) (rs : List Nat)
    (hl : Map.lookup w.store.asgs db = some a) (hs : Map.lookup a s = some rs) (hne : e ≠ .drop db) :
    ∃ a', Map.lookup (wstep w e).store.asgs db = some a' ∧ Map.lookup a' s = some rs := by
  cases e with
  | register id => exact ⟨a, hl, hs⟩
  | crash id => exact ⟨a, hl, hs⟩
  | deliverNode =>
    refine ⟨a, ?_, hs⟩
    simp only [wstep]; split <;> exact hl
  | deliverAsg d =>
    refine ⟨a, ?_, hs⟩
    simp only [wstep]; split <;> exact hl
  | drop d =>
    refine ⟨a, ?_, hs⟩
    have hd : d ≠ db := fun e => hne (by rw [e])
    show Map.lookup (Map.erase w.store.asgs d) db = some a
    rw [Map.lookup_erase_ne _ _ _ hd]; exact hl
  | cfg d numShards rf start shift f =>
    by_cases hd : d = db
    · subst hd
      obtain ⟨a', h1, h2⟩ := cfg_keeps_existing_shards w.store w.st.live d numShards rf start shift f a hl
        (hw.dense d a hl)
      exact ⟨a', h1, h2 s rs hs⟩
    · refine ⟨a, ?_, hs⟩
      show Map.lookup (cfgHandle w.store w.st.live d numShards rf start shift f).asgs db = some a
      rw [(cfg_other_databases_untouched w.store w.st.live d db numShards rf start shift f hd).1]; exact hl

/-- A persisted shard never moves: once shard `s` of database `db` is persisted with replica list
`rs`, it keeps exactly that list through every later history (node churn, late events, creates and
grows of any database with any repository faults, assignment deliveries, drops of OTHER databases)
until `db` itself is dropped. -/
theorem world_shards_never_move (es fs : List WEvent) (db s : Nat) (a : Assignment) (rs : List Nat)
    (hl : Map.lookup (wrun World.init es).store.asgs db = some a) (hs : Map.lookup a s = some rs)
    (hnd : ∀ e ∈ fs, e ≠ .drop db) :
    ∃ a', Map.lookup (wrun World.init (es ++ fs)).store.asgs db = some a' ∧ Map.lookup a' s = some rs := by
  have key : ∀ (fs : List WEvent) (w : World), WInv w → ∀ a, Map.lookup w.store.asgs db = some a →
      Map.lookup a s = some rs → (∀ e ∈ fs, e ≠ .drop db) →
      ∃ a', Map.lookup (wrun w fs).store.asgs db = some a' ∧ Map.lookup a' s = some rs := by
    intro fs
    induction fs with
    | nil => intro w _ a hl hs _; exact ⟨a, hl, hs⟩
    | cons e t ih =>
      intro w hw a hl hs hnd
      obtain ⟨a1, h1, h2⟩ := wstep_keeps_shard w hw e db s a rs hl hs (hnd e List.mem_cons_self)
      exact ih (wstep w e) (winv_step hw e) a1 h1 h2 (fun e' he' => hnd e' (List.mem_cons_of_mem _ he'))
  have : wrun World.init (es ++ fs) = wrun (wrun World.init es) fs := by
    unfold wrun; rw [List.foldl_append]
  rw [this]
  exact key fs _ (winv_run es World.init winv_init) a hl hs hnd

/-- non-vacuity (the lagging node watch): node 3's registration is gone, its NodeFailure event is
still queued; the manager believes 1, 2, 3 alive; a database created now lands on 1 and 2 only -/
example :
    let w := wrun World.init [.register 1, .register 2, .register 3, .deliverNode, .deliverNode, .deliverNode,
      .crash 3, .cfg 0 3 1 0 0 Faults.none]
    w.st.live = [1, 2, 3] ∧ w.store.reg = [1, 2] ∧ w.nodeq.length = 1 ∧
      w.store.asgs = [(0, [(0, [1]), (1, [2]), (2, [1])])] := by
  decide

/-- non-vacuity (read fault): two more nodes joined, the grow's read of the assignment fails — the
persisted assignment stays; the same grow without the fault extends it and keeps shards 0, 1 -/
example :
    let w := wrun World.init [.register 1, .register 2, .cfg 0 2 2 0 0 Faults.none, .register 3, .register 4]
    (wstep w (.cfg 0 4 2 1 1 { get := true, list := false, put := false })).store.asgs = [(0, [(0, [1, 2]), (1, [2, 1])])] ∧
    (wstep w (.cfg 0 4 2 1 1 Faults.none)).store.asgs
      = [(0, [(0, [1, 2]), (1, [2, 1]), (2, [4, 2]), (3, [1, 3])])] := by
  decide

/-! ## 10. Round 10: the `models.StorageState` helpers, any replay order at start-up, the consumers of
the published state, the elect-leader choice function -/

/-- models/state.go: `LeadersOnNode` / `ReplicasOnNode` append to `result[name]` (the list of THIS database, created by its first match — no scratch slice shared between databases), `DropDatabase` deletes the two entries keyed by the name, `NodeOnline` / `NodeOffline` set / delete one key; `Replica.Contain` is a linear search: `collectOnNode`, `dropDatabase`, `nodeOnline`, `nodeOffline` of Model/C18State.lean -/
theorem tie_state_helpers :
    Generated.C18.leadersOnNodeShape = ["assign result = make(map[string][]ShardID)", "range name,shards := s.ShardStates", "{", "range shardID,shard := shards", "{", "if", "cond shard.Leader == nodeID", "{", "assign result[name] = append(result[name], shardID)", "}", "}", "}", "return result"] ∧
    Generated.C18.replicasOnNodeShape = ["assign result = make(map[string][]ShardID)", "range name,shardAssignment := s.ShardAssignments", "{", "assign shards = shardAssignment.Shards", "range shardID,replicas := shards", "{", "if", "cond replicas.Contain(nodeID)", "{", "assign result[name] = append(result[name], shardID)", "}", "}", "}", "return result"] ∧
    Generated.C18.dropDatabaseShape = ["delete(s.ShardStates, name)", "delete(s.ShardAssignments, name)"] ∧
    Generated.C18.nodeOnlineShape = ["assign s.LiveNodes[node.ID] = node"] ∧
    Generated.C18.nodeOfflineShape = ["delete(s.LiveNodes, nodeID)"] ∧
    Generated.C18.replicaContainShape = ["range _,id := r.Replicas", "{", "if", "cond id == nodeID", "{", "return true", "}", "}", "return false"] := by
  decide

/-- `ElectLeader`: unknown shard → error; the live replicas are collected IN REPLICA ORDER into a fresh list; none → error; the first one is the leader: `Assign.electLeader` = `find?` -/
theorem tie_electLeader :
    Generated.C18.electLeaderShape = ["assign replicas,ok = shardAssignment.Shards[shardID]", "if", "cond !ok", "{", "assign err = constants.ErrShardNotFound", "return", "}", "assign liveReplicaNodes = models.Replica{}", "range _,replica := replicas.Replicas", "{", "if", "assign _,ok = liveNodes[replica]", "cond ok", "{", "assign liveReplicaNodes.Replicas = append(liveReplicaNodes.Replicas, replica)", "}", "}", "if", "cond len(liveReplicaNodes.Replicas) == 0", "{", "assign err = constants.ErrNoLiveReplica", "return", "}", "assign leader = liveReplicaNodes.Replicas[0]", "return"] := by
  decide

/-- the node handlers: `onStorageNodeStartup` = NodeOnline → onNodeStartup → syncState, `onStorageNodeFailure` = NodeOffline → onNodeFailure → syncState (an unparsable key returns before touching the state); `onNodeStartup` walks `ReplicasOnNode`, skips databases without shard states, sets Online/leader only when the shard is not online; `onNodeFailure` walks `LeadersOnNode` (taken before the loop) and stores what `ElectLeader` says: `step2` -/
theorem tie_node_handlers :
    Generated.C18.onStorageNodeStartupShape = ["assign node = models.StatefulNode{}", "if", "assign err = json.Unmarshal(data, &node)", "cond err != nil", "{", "return err", "}", "assign s = m.storage.GetState()", "s.NodeOnline(node)", "m.onNodeStartup(s, node)", "return m.syncState(s)"] ∧
    Generated.C18.onStorageNodeFailureShape = ["assign _,nodeIDStr = filepath.Split(key)", "assign id,err = strconv.ParseInt(nodeIDStr, 10, 64)", "if", "cond err != nil", "{", "return nil", "}", "assign s = m.storage.GetState()", "assign nodeID = models.NodeID(id)", "s.NodeOffline(nodeID)", "m.onNodeFailure(s, nodeID)", "return m.syncState(s)"] ∧
    Generated.C18.onNodeStartupShape = ["assign replicasOnOnlineNode = state.ReplicasOnNode(node.ID)", "range db,shards := replicasOnOnlineNode", "{", "if", "assign shardStates,ok = state.ShardStates[db]", "cond ok", "{", "range _,shardID := shards", "{", "assign shardState = shardStates[shardID]", "if", "cond shardState.State != models.OnlineShard", "{", "assign shardState.State = models.OnlineShard", "assign shardState.Leader = node.ID", "}", "assign shardStates[shardID] = shardState", "}", "}", "}"] ∧
    Generated.C18.onNodeFailureShape = ["assign leadersOnOfflineNode = state.LeadersOnNode(nodeID)", "assign liveNodes = state.LiveNodes", "range db,shards := leadersOnOfflineNode", "{", "assign shardAssignment = state.ShardAssignments[db]", "assign shardStates = state.ShardStates[db]", "range _,shardID := shards", "{", "assign leader,err = m.elector.ElectLeader(shardAssignment, liveNodes, shardID)", "assign shardState = shardStates[shardID]", "if", "cond err != nil", "{", "assign shardState.State = models.OfflineShard", "assign shardState.Leader = models.NoLeader", "}", "else", "{", "assign shardState.State = models.OnlineShard", "assign shardState.Leader = leader", "}", "assign shardStates[shardID] = shardState", "}", "}"] := by
  decide

/-- `onShardAssignmentChange` = decode → remember → initializeShardState → syncState; `initializeShardState` builds ONE state per shard of the assignment whatever the live set is (no early return) and stores assignment and states under the database name; `onDatabaseCfgDelete` of an unknown database returns before any change, otherwise forget → DropDatabase → syncState → DropDatabaseAssignment -/
theorem tie_assignment_and_drop_handlers :
    Generated.C18.onShardAssignmentChangeShape = ["assign shardAssignment = &models.ShardAssignment{}", "if", "assign err = encoding.JSONUnmarshal(data, shardAssignment)", "cond err != nil", "{", "return err", "}", "assign m.shardAssignments[shardAssignment.Name] = shardAssignment", "m.initializeShardState(m.storage, shardAssignment)", "return m.syncState(m.storage.GetState())"] ∧
    Generated.C18.initializeShardStateShape = ["assign storageState = storage.GetState()", "assign liveNodes = storageState.LiveNodes", "assign shardStates = make(map[models.ShardID]models.ShardState)", "range shardID,replicas := shardAssignment.Shards", "{", "assign leader,err = m.elector.ElectLeader(shardAssignment, liveNodes, shardID)", "assign shardState = models.ShardState{…}", "if", "cond err != nil", "{", "assign shardState.State = models.OfflineShard", "assign shardState.Leader = models.NoLeader", "}", "else", "{", "assign shardState.State = models.OnlineShard", "assign shardState.Leader = leader", "}", "assign shardStates[shardID] = shardState", "}", "assign storageState.ShardAssignments[shardAssignment.Name] = shardAssignment", "assign storageState.ShardStates[shardAssignment.Name] = shardStates"] ∧
    Generated.C18.onDatabaseCfgDeleteShape = ["assign name = strings.TrimPrefix(key, constants.GetDatabaseConfigPath(\"\"))", "assign _,ok = m.databases[name]", "if", "cond !ok", "{", "return constants.ErrDatabaseNotFound", "}", "delete(m.databases, name)", "delete(m.shardAssignments, name)", "m.storage.GetState().DropDatabase(name)", "if", "assign err = m.syncState(m.storage.GetState())", "cond err != nil", "{", "return err", "}", "if", "assign err = m.storage.DropDatabaseAssignment(name)", "cond err != nil", "{", "return err", "}", "return nil"] := by
  decide

/-- what is published under /storage/state and who reads it: the JSON field names of StorageState / ShardState / Replica, the source files naming the key (the master writes it in syncState; the master's and the broker's state-machine factories register it), the broker storing the decoded state as it is and `GetQueryableReplicas` sending every ONLINE shard to `liveNodes[shardState.Leader]` (`queryTargets`) -/
theorem tie_published_shape :
    Generated.C18.storageStateJSON = ["LiveNodes map[NodeID]StatefulNode json:\"liveNodes\"", "ShardAssignments map[string]*ShardAssignment json:\"shardAssignments\"", "ShardStates map[string]map[ShardID]ShardState json:\"shardStates\""] ∧
    Generated.C18.shardStateJSON = ["Replica Replica json:\"replica\"", "ID ShardID json:\"id\"", "State ShardStateType json:\"state\"", "Leader NodeID json:\"leader\""] ∧
    Generated.C18.replicaJSON = ["Replicas []NodeID json:\"replicas\""] ∧
    Generated.C18.storageStatePathUsers = ["coordinator/broker/state_machine_factory.go x2", "coordinator/master/state_machine_factory.go x1", "coordinator/master/state_manager.go x1"] ∧
    Generated.C18.brokerOnStorageStateChangeShape = ["assign newState = &models.StorageState{}", "if", "assign err = encoding.JSONUnmarshal(data, newState)", "cond err != nil", "{", "return err", "}", "assign oldState = m.storageState", "assign liveNodesSet = make(map[string]struct{})", "range idx := newState.LiveNodes", "{", "assign node = newState.LiveNodes[idx]", "assign liveNodesSet[node.Indicator()] = struct{}{}", "m.connectionManager.CreateConnection(&node)", "}", "range _,node := oldState.LiveNodes", "{", "assign target = node.Indicator()", "if", "assign _,exist = liveNodesSet[target]", "cond !exist", "{", "m.connectionManager.CloseConnection(&node)", "}", "}", "assign m.storageState = newState", "m.notifyShardStateChange(newState)", "return nil"] ∧
    Generated.C18.brokerGetQueryableReplicasShape = ["m.mutex.RLock()", "defer mutex.RUnlock", "assign _,ok = m.databases[databaseName]", "if", "cond !ok", "{", "return nil,constants.ErrDatabaseNotFound", "}", "assign liveNodes = m.storageState.LiveNodes", "if", "cond len(liveNodes) == 0", "{", "return nil,constants.ErrNoLiveNode", "}", "assign shards = m.storageState.ShardStates[databaseName]", "if", "cond len(shards) == 0", "{", "return nil,constants.ErrShardNotFound", "}", "assign result = make(map[string][]models.ShardID)", "range shardID,shardState := shards", "{", "if", "cond shardState.State == models.OnlineShard", "{", "assign node = liveNodes[shardState.Leader]", "assign nodeID = node.Indicator()", "assign result[nodeID] = append(result[nodeID], shardID)", "}", "else", "{", "}", "}", "return result,nil"] := by
  decide

/-- `LeadersOnNode(id)` for ANY set of databases: shard `sid` is listed under database `db` iff `db` has a
shard state for `sid` whose leader is `id` — every database gets its own list (nothing of another
database's list shows up in it), and a database without such a shard has no entry at all -/
theorem leadersOnNode_spec (shards : List (Nat × List (Nat × ShardState))) (id : Nat)
    (h : (Map.keys shards).Nodup) (db sid : Nat) :
    (sid ∈ (Map.lookup (leadersOnNode shards id) db).getD [] ↔
      ∃ ss s, Map.lookup shards db = some ss ∧ (sid, s) ∈ ss ∧ s.leader = (id : Int)) ∧
    (Map.lookup (leadersOnNode shards id) db ≠ some []) := by
  unfold leadersOnNode
  rw [collectOnNode_eq _ shards h, lookup_collected _ shards db h]
  cases hl : Map.lookup shards db with
  | none => simp
  | some ss =>
    simp only [Option.bind]
    by_cases he : idsOf (fun s : ShardState => decide (s.leader = (id : Int))) ss = []
    · rw [if_pos he]
      refine ⟨?_, by simp⟩
      constructor
      · intro hx; simp at hx
      · rintro ⟨ss', s, hss, hin, hld⟩
        cases hss
        have : sid ∈ idsOf (fun s : ShardState => decide (s.leader = (id : Int))) ss := by
          simp only [idsOf, List.mem_map, List.mem_filter]
          exact ⟨(sid, s), ⟨hin, by simp [hld]⟩, rfl⟩
        rw [he] at this; simp at this
    · rw [if_neg he]
      refine ⟨?_, by simpa using he⟩
      simp only [Option.getD_some, idsOf, List.mem_map, List.mem_filter]
      constructor
      · rintro ⟨e, ⟨hin, hp⟩, rfl⟩
        exact ⟨ss, e.2, rfl, hin, by simpa using hp⟩
      · rintro ⟨ss', s, hss, hin, hld⟩
        cases hss
        exact ⟨(sid, s), ⟨hin, by simp [hld]⟩, rfl⟩

/-- `ReplicasOnNode(id)` for ANY set of databases: shard `sid` is listed under `db` iff `db`'s assignment
gives `sid` a replica list containing `id` -/
theorem replicasOnNode_spec (asg : List (Nat × Assignment)) (id : Nat)
    (h : (Map.keys asg).Nodup) (db sid : Nat) :
    sid ∈ (Map.lookup (replicasOnNode asg id) db).getD [] ↔
      ∃ a rs, Map.lookup asg db = some a ∧ (sid, rs) ∈ a ∧ id ∈ rs := by
  unfold replicasOnNode
  rw [collectOnNode_eq _ asg h, lookup_collected _ asg db h]
  cases hl : Map.lookup asg db with
  | none => simp
  | some a =>
    simp only [Option.bind]
    have hmem : sid ∈ idsOf (fun rs : List Nat => rs.contains id) a ↔ ∃ rs, (sid, rs) ∈ a ∧ id ∈ rs := by
      simp only [idsOf, List.mem_map, List.mem_filter]
      constructor
      · rintro ⟨e, ⟨hin, hp⟩, rfl⟩; exact ⟨e.2, hin, by simpa using hp⟩
      · rintro ⟨rs, hin, hp⟩; exact ⟨(sid, rs), ⟨hin, by simpa using hp⟩, rfl⟩
    by_cases he : idsOf (fun rs : List Nat => rs.contains id) a = []
    · rw [if_pos he]
      constructor
      · intro hx; simp at hx
      · rintro ⟨a', rs, ha, hin, hp⟩
        cases ha
        have := hmem.mpr ⟨rs, hin, hp⟩
        rw [he] at this; simp at this
    · rw [if_neg he]
      simp only [Option.getD_some]
      rw [hmem]
      constructor
      · rintro ⟨rs, hin, hp⟩; exact ⟨a, rs, rfl, hin, hp⟩
      · rintro ⟨a', rs, ha, hin, hp⟩; cases ha; exact ⟨rs, hin, hp⟩

/-- REFINEMENT: the handlers written with the helpers, as state_manager.go writes them (`step2`:
NodeOnline → onNodeStartup over ReplicasOnNode; NodeOffline → onNodeFailure over LeadersOnNode;
DropDatabase), compute exactly `Master.step` on every state satisfying the invariant — any number of
databases, any shard sets -/
theorem helpers_refine_step (st : St) (h : Inv st) (ev : Event) : step2 st ev = step st ev :=
  step2_eq_step_of_inv st h ev

/-- … hence along every event sequence; every theorem about `run` is a theorem about `run2` -/
theorem helpers_refine_run (es : List Event) (hw : ∀ e ∈ es, WellFormed e) :
    run2 St.init es = run St.init es ∧ Inv (run2 St.init es) := by
  have := run2_eq_run_of_inv es St.init inv_init hw
  exact ⟨this, this ▸ inv_reachable es hw⟩

/-- `ElectLeader` is "the first alive replica in replica order": it answers `l` iff the replica list
splits as `pre ++ l :: post` with `l` alive and nobody in `pre` alive; it fails iff no replica is alive -/
theorem electLeader_first_alive (rs live : List Nat) :
    (∀ l, electLeader rs live = some l ↔
      ∃ pre post, rs = pre ++ l :: post ∧ l ∈ live ∧ ∀ x ∈ pre, x ∉ live) ∧
    (electLeader rs live = none ↔ ∀ r ∈ rs, r ∉ live) :=
  ⟨electLeader_some_iff rs live, electLeader_none_iff rs live⟩

/-- the choice is stable under every change of the live set that keeps the leader alive and revives no
replica that was dead (nodes outside the replica list may come and go freely) -/
theorem electLeader_choice_stable (rs live live' : List Nat) (l : Nat) (h : electLeader rs live = some l)
    (hl : l ∈ live') (hpre : ∀ x ∈ rs, x ∈ live' → x ∈ live) : electLeader rs live' = some l :=
  electLeader_stable rs live live' l h hl hpre

/-- STABILITY of the reported leader: once a shard is online with leader `l`, its state entry stays
exactly as it is through every later event sequence that contains no failure of `l`, no re-delivery
of its database's assignment and no drop of its database — other nodes (also other replicas of the
shard, also earlier ones in replica order) may start and fail freely, other databases may be created,
grown and dropped -/
theorem leader_unchanged_while_alive (es fs : List Event) (hw : ∀ e ∈ es, WellFormed e)
    (hw' : ∀ e ∈ fs, WellFormed e) (db sid l : Nat) (ss : List (Nat × ShardState)) (s : ShardState)
    (hss : Map.lookup (run St.init es).shards db = some ss) (hs : Map.lookup ss sid = some s)
    (hon : s.state = stOnline) (hl : s.leader = (l : Int)) (hq : ∀ e ∈ fs, ¬ Touches db l e) :
    ∃ ss', Map.lookup (run St.init (es ++ fs)).shards db = some ss' ∧ Map.lookup ss' sid = some s := by
  rw [run_append]
  exact leader_stable_run fs _ (inv_reachable es hw) hw' db sid l ss s hss hs hon hl hq

/-- START-UP / FAIL-OVER IN ANY ORDER: let the new master be handed one event per repository key
(registered nodes, database configs, persisted assignments) in ANY order `es` (any permutation of
`repoEvents r` — assignments before nodes, nodes in between, …). Then the invariant holds, exactly the
registered nodes are live, the manager holds every persisted assignment, and EVERY shard of EVERY
persisted assignment is reported, online iff one of its replicas is registered, led by a registered
replica. (An assignment handled while no node is known yet builds offline states that the node
start-ups revive — no order leaves a shard unreported.) -/
theorem startup_any_order (r : Repo) (hk : (Map.keys r.asgs).Nodup)
    (hr : ∀ p ∈ r.asgs, (Map.keys p.2).Nodup) (es : List Event) (hp : es.Perm (repoEvents r)) :
    let st := run St.init es
    Inv st ∧ (∀ n, n ∈ st.live ↔ n ∈ r.live) ∧
    ∀ db a, Map.lookup r.asgs db = some a →
      Map.lookup st.asg db = some a ∧
      ∀ sid rs, Map.lookup a sid = some rs →
        ∃ ss s, Map.lookup st.shards db = some ss ∧ Map.lookup ss sid = some s ∧
          (s.state = stOnline ↔ ∃ x, x ∈ rs ∧ x ∈ r.live) ∧
          (s.state = stOnline → ∃ l : Nat, s.leader = (l : Int) ∧ l ∈ r.live ∧ l ∈ rs) ∧
          (s.state ≠ stOnline → s.state = stOffline ∧ s.leader = -1) := by
  intro st
  have hmem : ∀ e, e ∈ es ↔ e ∈ repoEvents r := fun e => hp.mem_iff
  have hrepo : ∀ e, e ∈ repoEvents r ↔
      (∃ n ∈ r.live, e = .nodeUp n) ∨ (∃ d ∈ r.cfgs, e = .dbCfg d) ∨
      (∃ p ∈ r.asgs, e = .assignChanged p.1 p.2) := by
    intro e
    simp only [repoEvents, List.mem_append, List.mem_map, or_assoc]
    constructor
    · rintro (⟨n, hn, rfl⟩ | ⟨d, hd, rfl⟩ | ⟨p, hpp, rfl⟩)
      · exact Or.inl ⟨n, hn, rfl⟩
      · exact Or.inr (Or.inl ⟨d, hd, rfl⟩)
      · exact Or.inr (Or.inr ⟨p, hpp, rfl⟩)
    · rintro (⟨n, hn, rfl⟩ | ⟨d, hd, rfl⟩ | ⟨p, hpp, rfl⟩)
      · exact Or.inl ⟨n, hn, rfl⟩
      · exact Or.inr (Or.inl ⟨d, hd, rfl⟩)
      · exact Or.inr (Or.inr ⟨p, hpp, rfl⟩)
  have hw : ∀ e ∈ es, WellFormed e := by
    intro e he
    rcases (hrepo e).mp ((hmem e).mp he) with ⟨n, _, rfl⟩ | ⟨d, _, rfl⟩ | ⟨p, hpp, rfl⟩
    · trivial
    · trivial
    · exact hr p hpp
  have hinv : Inv st := inv_reachable es hw
  have hlive : ∀ n, n ∈ st.live ↔ n ∈ r.live := by
    intro n
    rw [live_is_event_history, aliveAfter_no_down n es false (by
      intro e he id hid
      subst hid
      rcases (hrepo _).mp ((hmem _).mp he) with ⟨n, _, h⟩ | ⟨d, _, h⟩ | ⟨p, _, h⟩ <;> cases h)]
    rw [hmem, hrepo]
    constructor
    · rintro (h | ⟨n', hn', h⟩ | ⟨d, _, h⟩ | ⟨p, _, h⟩)
      · cases h
      · cases h; exact hn'
      · cases h
      · cases h
    · intro hn; exact Or.inr (Or.inl ⟨n, hn, rfl⟩)
  refine ⟨hinv, hlive, ?_⟩
  intro db a hdb
  have hasg : Map.lookup st.asg db = some a := by
    apply asg_run_unique es St.init db a
    · intro e he d hd
      subst hd
      rcases (hrepo _).mp ((hmem _).mp he) with ⟨n, _, h⟩ | ⟨d', _, h⟩ | ⟨p, _, h⟩ <;> cases h
    · intro a' ha'
      rcases (hrepo _).mp ((hmem _).mp ha') with ⟨n, _, h⟩ | ⟨d', _, h⟩ | ⟨p, hpp, h⟩
      · cases h
      · cases h
      · cases h
        have := lookup_of_mem r.asgs p.1 p.2 hk hpp
        rw [hdb] at this
        exact (Option.some.inj this).symm
    · exact (hmem _).mpr ((hrepo _).mpr (Or.inr (Or.inr ⟨(db, a), mem_of_lookup _ _ _ hdb, rfl⟩)))
  refine ⟨hasg, ?_⟩
  intro sid rs hsid
  obtain ⟨ss, hss⟩ := hinv.has_states db a hasg
  obtain ⟨a', ha', hok⟩ := hinv.db_ok db ss hss
  rw [hasg] at ha'; cases ha'
  obtain ⟨s, hs⟩ := hok.reported sid rs hsid
  obtain ⟨rs', hrs', hso⟩ := hok.shard_ok sid s hs
  rw [hsid] at hrs'; cases hrs'
  refine ⟨ss, s, hss, hs, ?_, ?_, hso.offline⟩
  · rw [hso.online_iff]
    constructor
    · rintro ⟨x, hx, hl⟩; exact ⟨x, hx, (hlive x).mp hl⟩
    · rintro ⟨x, hx, hl⟩; exact ⟨x, hx, (hlive x).mpr hl⟩
  · intro ho
    obtain ⟨l, k1, k2, k3⟩ := hso.leader_ok ho
    exact ⟨l, k1, (hlive l).mp k2, k3⟩

/-- node id reuse: whatever happened before (failures of the node, drops and re-creations, other
nodes), a start-up event of node `id` leaves every assigned shard that has `id` among its replicas
online -/
theorem node_startup_revives (es : List Event) (hw : ∀ e ∈ es, WellFormed e) (id : Nat) :
    let st := run St.init (es ++ [.nodeUp id])
    ∀ db a sid rs, Map.lookup st.asg db = some a → Map.lookup a sid = some rs → id ∈ rs →
      ∃ ss s, Map.lookup st.shards db = some ss ∧ Map.lookup ss sid = some s ∧ s.state = stOnline := by
  intro st db a sid rs hdb hsid hid
  have hw' : ∀ e ∈ es ++ [Event.nodeUp id], WellFormed e := by
    intro e he
    rcases List.mem_append.mp he with h | h
    · exact hw e h
    · simp at h; subst h; trivial
  have hinv : Inv st := inv_reachable _ hw'
  have hlive : id ∈ st.live := by
    show id ∈ (run St.init (es ++ [.nodeUp id])).live
    rw [run_append]
    exact (mem_live_step _ (.nodeUp id) id).mpr (Or.inr rfl)
  obtain ⟨ss, hss⟩ := hinv.has_states db a hdb
  obtain ⟨a', ha', hok⟩ := hinv.db_ok db ss hss
  rw [hdb] at ha'; cases ha'
  obtain ⟨s, hs⟩ := hok.reported sid rs hsid
  obtain ⟨rs', hrs', hso⟩ := hok.shard_ok sid s hs
  rw [hsid] at hrs'; cases hrs'
  exact ⟨ss, s, hss, hs, hso.online_iff.mpr ⟨id, hid, hlive⟩⟩

/-- a (re-)created database starts from scratch: what the manager holds for `db` after an assignment
event is a function of the payload and the live set alone — nothing of a dropped predecessor with the
same name (other replica factor, other nodes, other shard count) is carried over -/
theorem recreate_is_fresh (st : St) (db : Nat) (a : Assignment) :
    Map.lookup (step st (.assignChanged db a)).asg db = some a ∧
    Map.lookup (step st (.assignChanged db a)).shards db = some (initShardStates a st.live) :=
  ⟨Map.lookup_upsert_self _ _ _, Map.lookup_upsert_self _ _ _⟩

/-- THE CONSUMER: in every reachable state, for every database, the broker's `GetQueryableReplicas`
finds the leader of EVERY online shard among the published live nodes (never the zero node), and that
leader is a replica of the shard -/
theorem published_leader_resolves (es : List Event) (hw : ∀ e ∈ es, WellFormed e) :
    let st := run St.init es
    ∀ db targets, queryTargets st db = some targets → ∀ sid t, (sid, t) ∈ targets →
      ∃ (l : Nat) (a : Assignment) (rs : List Nat), t = some l ∧ l ∈ st.live ∧
        Map.lookup st.asg db = some a ∧ Map.lookup a sid = some rs ∧ l ∈ rs := by
  intro st db targets hq sid t hin
  have hinv : Inv st := inv_reachable es hw
  unfold queryTargets at hq
  cases hss : Map.lookup st.shards db with
  | none => rw [hss] at hq; simp at hq
  | some ss =>
    rw [hss] at hq
    simp only [Option.map_some, Option.some.injEq] at hq
    subst hq
    simp only [List.mem_map, List.mem_filter] at hin
    obtain ⟨e, ⟨he, hon⟩, heq⟩ := hin
    obtain ⟨a, ha, hok⟩ := hinv.db_ok db ss hss
    have hl := lookup_of_mem ss e.1 e.2 hok.st_keys he
    obtain ⟨rs, hrs, hso⟩ := hok.shard_ok e.1 e.2 hl
    have hon' : e.2.state = stOnline := by simpa using hon
    obtain ⟨l, k1, k2, k3⟩ := hso.leader_ok hon'
    have h1 : e.1 = sid := (Prod.mk.inj heq).1
    have h2 := (Prod.mk.inj heq).2
    refine ⟨l, a, rs, ?_, k2, ha, h1 ▸ hrs, k3⟩
    rw [← h2, k1]
    simp [k2]

/-- non-vacuity / discrimination: with ONE scratch slice shared by all databases (`aliasedLists`) node 1
leading db 0 / shard 0 and db 1 / shard 1 would be reported as leading db 0 / shard 1 — the real helper
(and `leadersOnNode_spec`) says shard 0 -/
example :
    let sh : List (Nat × List (Nat × ShardState)) :=
      [(0, [(0, { state := stOnline, leader := 1, replicas := [1, 2] }), (1, { state := stOnline, leader := 2, replicas := [2, 1] })]),
       (1, [(0, { state := stOnline, leader := 2, replicas := [2, 1] }), (1, { state := stOnline, leader := 1, replicas := [1, 2] })])]
    leadersOnNode sh 1 = [(0, [0]), (1, [1])] ∧ aliasedLists (leadersOnNode sh 1) = [(0, [1]), (1, [1])] := by
  decide

/-- non-vacuity / discrimination: the assignment replayed BEFORE the node start-ups — the real
`initShardStates` builds offline states that the start-ups revive; a variant returning early while no
node is known (`initShardStatesFast`) builds none, and then nothing is ever reported for the database -/
example :
    let es : List Event := [.assignChanged 0 [(0, [1, 2])], .dbCfg 0, .nodeUp 1, .nodeUp 2]
    (run St.init es).shards = [(0, [(0, { state := stOnline, leader := 1, replicas := [1, 2] })])] ∧
    (run2 St.init es).shards = (run St.init es).shards ∧
    initShardStatesFast [(0, [1, 2])] St.init.live = none := by
  decide

/-! ## Non-vacuity -/

/-- a reachable state with an online shard (led by the surviving replica) and an offline shard -/
example :
    (run St.init [.nodeUp 1, .nodeUp 2, .dbCfg 0, .assignChanged 0 [(0, [1, 2]), (1, [1])],
        .nodeUp 2, .nodeDown 7, .nodeDown 1]).shards
      = [(0, [(0, { state := stOnline, leader := 2, replicas := [1, 2] }),
              (1, { state := stOffline, leader := -1, replicas := [1] })])] := by
  decide

/-- … and the offline shard comes back, led by the restarted node -/
example :
    (run St.init [.nodeUp 1, .nodeUp 2, .assignChanged 0 [(0, [1, 2]), (1, [1])],
        .nodeDown 1, .nodeUp 1]).shards
      = [(0, [(0, { state := stOnline, leader := 2, replicas := [1, 2] }),
              (1, { state := stOnline, leader := 1, replicas := [1] })])] := by
  decide

/-- the doc-comment example of shard_assign.go: 5 nodes, 10 shards, replica factor 3 -/
example :
    shardAssignment [0, 1, 2, 3, 4] 10 3 0 0 0 = .ok
      [(0, [0, 1, 2]), (1, [1, 2, 3]), (2, [2, 3, 4]), (3, [3, 4, 0]), (4, [4, 0, 1]),
       (5, [0, 2, 3]), (6, [1, 3, 4]), (7, [2, 4, 0]), (8, [3, 0, 1]), (9, [4, 1, 2])] := by
  rfl

/-- the hypotheses of `assign_valid` / `assign_roundrobin` are satisfiable with a grown assignment -/
example : ∃ (nodes : List Nat) (a : Assignment), nodes.Nodup ∧ 2 ≤ nodes.length ∧ a ≠ [] ∧
    (∀ s, 2 ≤ s → s < 2 + 5 → Map.lookup a s = none) :=
  ⟨[4, 9, 6], [(0, [4, 9]), (1, [9, 6])], by decide, by decide, by decide, by
    intro s h1 h2
    have : s = 2 ∨ s = 3 ∨ s = 4 ∨ s = 5 ∨ s = 6 := by omega
    rcases this with rfl | rfl | rfl | rfl | rfl <;> rfl⟩

/-! ## 11. Round 12: what is held for a database is the history of THAT database — drop and re-creation
under the same name; the helper `ReplicasOnNode` (what `onNodeStartup` revives) follows it -/

/-- in every reachable state the assignment the manager holds for `db`, and whether `db` is known to it,
are what `db`'s OWN events say (`dbView`: config seen, last payload delivered, not dropped since —
a drop of an unknown name changes nothing): no node event, no event of another database, and nothing
an earlier incarnation of the same name left behind takes part -/
theorem held_assignment_is_database_history (es : List Event) (db : Nat) :
    Map.lookup (run St.init es).asg db = (dbView db es).held ∧
    (run St.init es).dbs.contains db = (dbView db es).known := by
  have h := viewOf_run St.init db es
  rw [viewOf_init] at h
  exact ⟨congrArg DbView.held h, congrArg DbView.known h⟩

/-- `ReplicasOnNode(id)` after ANY history lists shard `sid` under `db` iff the payload `db`'s own history
holds NOW has `id` among the replicas of `sid` — a derived view of the assignments has no memory -/
theorem replicasOnNode_is_database_history (es : List Event) (hw : ∀ e ∈ es, WellFormed e)
    (id db sid : Nat) :
    sid ∈ (Map.lookup (replicasOnNode (run St.init es).asg id) db).getD [] ↔
      ∃ a rs, (dbView db es).held = some a ∧ (sid, rs) ∈ a ∧ id ∈ rs := by
  have hinv := inv_reachable es hw
  rw [replicasOnNode_spec _ id hinv.asg_keys db sid, (held_assignment_is_database_history es db).1]

/-- drop + re-create + restart: after any history `es`, a drop of `db` and a new payload `a` for the same
name (ANY shard count — also the one the dropped incarnation had — any replica factor, any placement),
then any events `ns` that do not name `db`'s assignment (node churn, other databases, `db`'s config),
then a start-up of node `id`:
(1) `ReplicasOnNode(id)` lists for `db` exactly the shards of `a` that have `id` among their replicas;
(2) each of them is reported online, led by an alive replica of its replica list in `a`;
(3) every shard of `db` reported online is a shard of `a` led by an alive node of its replica list in `a`
    (nothing of the dropped incarnation is revived). -/
theorem restart_after_recreate (es ns : List Event) (db : Nat) (a : Assignment) (id : Nat)
    (hw : ∀ e ∈ es, WellFormed e) (hwn : ∀ e ∈ ns, WellFormed e) (ha : (Map.keys a).Nodup)
    (hns : ∀ e ∈ ns, ¬ NamesAsg db e) :
    let st := run St.init (es ++ [.dropDb db, .assignChanged db a] ++ ns ++ [.nodeUp id])
    (∀ sid, sid ∈ (Map.lookup (replicasOnNode st.asg id) db).getD [] ↔ ∃ rs, (sid, rs) ∈ a ∧ id ∈ rs) ∧
    (∀ sid rs, (sid, rs) ∈ a → id ∈ rs →
      ∃ ss s, Map.lookup st.shards db = some ss ∧ Map.lookup ss sid = some s ∧ s.state = stOnline ∧
        ∃ l : Nat, s.leader = (l : Int) ∧ l ∈ st.live ∧ l ∈ rs) ∧
    (∀ ss sid s, Map.lookup st.shards db = some ss → Map.lookup ss sid = some s → s.state = stOnline →
      ∃ rs, ∃ l : Nat, (sid, rs) ∈ a ∧ s.leader = (l : Int) ∧ l ∈ st.live ∧ l ∈ rs) := by
  intro st
  have hw' : ∀ e ∈ es ++ [Event.dropDb db, Event.assignChanged db a] ++ ns ++ [Event.nodeUp id], WellFormed e := by
    intro e he
    simp only [List.mem_append, List.mem_cons, List.not_mem_nil, or_false] at he
    rcases he with ((h | h | h) | h) | h
    · exact hw e h
    · subst h; trivial
    · subst h; exact ha
    · exact hwn e h
    · subst h; trivial
  have hinv : Inv st := inv_reachable _ hw'
  -- the payload held for db is `a`
  have hheld : Map.lookup st.asg db = some a := by
    rw [(held_assignment_is_database_history _ db).1, dbView_append, dbView_append, dbView_append]
    show (dbViewStep db (List.foldl (dbViewStep db) _ ns) (.nodeUp id)).held = some a
    show (List.foldl (dbViewStep db) _ ns).held = some a
    rw [held_foldl_of_not_names db ns _ hns]
    exact held_after_drop_create db _ a
  have hlive : id ∈ st.live := by
    show id ∈ (run St.init (es ++ [.dropDb db, .assignChanged db a] ++ ns ++ [.nodeUp id])).live
    rw [run_append]
    exact (mem_live_step _ (.nodeUp id) id).mpr (Or.inr rfl)
  refine ⟨?_, ?_, ?_⟩
  · intro sid
    rw [replicasOnNode_spec _ id hinv.asg_keys db sid, hheld]
    constructor
    · rintro ⟨a', rs, h1, h2, h3⟩; cases h1; exact ⟨rs, h2, h3⟩
    · rintro ⟨rs, h2, h3⟩; exact ⟨a, rs, rfl, h2, h3⟩
  · intro sid rs hin hid
    obtain ⟨ss, hss⟩ := hinv.has_states db a hheld
    obtain ⟨a', ha', hok⟩ := hinv.db_ok db ss hss
    rw [hheld] at ha'; cases ha'
    have hsid := lookup_of_mem a sid rs ha hin
    obtain ⟨s, hs⟩ := hok.reported sid rs hsid
    obtain ⟨rs', hrs', hso⟩ := hok.shard_ok sid s hs
    rw [hsid] at hrs'; cases hrs'
    have hon : s.state = stOnline := hso.online_iff.mpr ⟨id, hid, hlive⟩
    obtain ⟨l, k1, k2, k3⟩ := hso.leader_ok hon
    exact ⟨ss, s, hss, hs, hon, l, k1, k2, k3⟩
  · intro ss sid s hss hs hon
    obtain ⟨a', ha', hok⟩ := hinv.db_ok db ss hss
    rw [hheld] at ha'; cases ha'
    obtain ⟨rs, hrs, hso⟩ := hok.shard_ok sid s hs
    obtain ⟨l, k1, k2, k3⟩ := hso.leader_ok hon
    exact ⟨rs, l, mem_of_lookup a sid rs hrs, k1, k2, k3⟩

/-- drop + re-create, the failure side: after any history, a drop of `db`, a new payload `a` for the same name and
any events that do not name `db`'s assignment, every shard `LeadersOnNode(id)` lists under `db` — what
`onNodeFailure` is about to re-elect — is a shard of `a` with `id`, alive so far, among its replicas in `a`;
and it lists every shard of `db` whose reported leader is `id` -/
theorem leaders_after_recreate (es ns : List Event) (db : Nat) (a : Assignment) (id : Nat)
    (hw : ∀ e ∈ es, WellFormed e) (hwn : ∀ e ∈ ns, WellFormed e) (ha : (Map.keys a).Nodup)
    (hns : ∀ e ∈ ns, ¬ NamesAsg db e) :
    let st := run St.init (es ++ [.dropDb db, .assignChanged db a] ++ ns)
    (∀ sid, sid ∈ (Map.lookup (leadersOnNode st.shards id) db).getD [] →
      ∃ rs, (sid, rs) ∈ a ∧ id ∈ rs ∧ id ∈ st.live) ∧
    (∀ ss sid s, Map.lookup st.shards db = some ss → Map.lookup ss sid = some s → s.leader = (id : Int) →
      sid ∈ (Map.lookup (leadersOnNode st.shards id) db).getD []) := by
  intro st
  have hw' : ∀ e ∈ es ++ [Event.dropDb db, Event.assignChanged db a] ++ ns, WellFormed e := by
    intro e he
    simp only [List.mem_append, List.mem_cons, List.not_mem_nil, or_false] at he
    rcases he with (h | h | h) | h
    · exact hw e h
    · subst h; trivial
    · subst h; exact ha
    · exact hwn e h
  have hinv : Inv st := inv_reachable _ hw'
  have hheld : Map.lookup st.asg db = some a := by
    rw [(held_assignment_is_database_history _ db).1]
    exact dbView_after_recreate db a es ns hns
  refine ⟨?_, ?_⟩
  · intro sid hsid
    obtain ⟨ss, s, hss, hin, hl⟩ := ((leadersOnNode_spec st.shards id hinv.shards_keys db sid).1).mp hsid
    obtain ⟨a', ha', hok⟩ := hinv.db_ok db ss hss
    rw [hheld] at ha'; cases ha'
    have hs := lookup_of_mem ss sid s hok.st_keys hin
    obtain ⟨rs, hrs, hso⟩ := hok.shard_ok sid s hs
    by_cases hon : s.state = stOnline
    · obtain ⟨l, k1, k2, k3⟩ := hso.leader_ok hon
      have : l = id := by rw [k1] at hl; exact Int.ofNat.inj hl
      subst this
      exact ⟨rs, mem_of_lookup a sid rs hrs, k3, k2⟩
    · have := (hso.offline hon).2
      rw [this] at hl
      omega
  · intro ss sid s hss hs hl
    exact ((leadersOnNode_spec st.shards id hinv.shards_keys db sid).1).mpr
      ⟨ss, s, hss, mem_of_lookup ss sid s hs, hl⟩

/-- the repository side of a re-creation: in every reachable world, a drop of `db` followed by a config event
for the same name (any shard count — also the dropped incarnation's —, any replica factor, any draws, any faults, any
lag of the node watch) persists, if anything, an assignment in which EVERY shard — not only ids beyond the dropped
incarnation's — has exactly `rf` distinct nodes registered at that moment: the handler finds nothing of the dropped
incarnation and takes the create branch -/
theorem world_recreate_places_every_shard (es : List WEvent) (db : Nat) (numShards rf : Int)
    (start shift : Nat) (f : Faults) :
    let w := wrun World.init es
    let w' := wstep (wstep w (.drop db)) (.cfg db numShards rf start shift f)
    ∀ a' s rs, Map.lookup w'.store.asgs db = some a' → Map.lookup a' s = some rs →
      ValidReplicas w.store.reg rf.toNat rs := by
  intro w w' a' s rs hl hs
  have hreg : w.store.reg.Nodup := (world_invariant es).1
  have hnone : Map.lookup (Map.erase w.store.asgs db) db = none := Map.lookup_erase_self _ _
  exact cfg_new_shards_on_registered { w.store with asgs := Map.erase w.store.asgs db } (step w.st (.dropDb db)).live
    db numShards rf start shift f hreg
    (by intro a h; rw [hnone] at h; cases h) a' s rs hl hs
    (by intro a h; rw [hnone] at h; cases h)

/-- non-vacuity of `world_recreate_places_every_shard`: nodes 1,2,3 register, db 0 is created with 3 shards
(start 0), node 1 crashes, db 0 is dropped and created again with 3 shards (start 1): shard 0 is on node 3 now -/
example :
    let w := wrun World.init [.register 1, .register 2, .register 3, .cfg 0 3 1 0 0 Faults.none, .crash 1]
    let w' := wstep (wstep w (.drop 0)) (.cfg 0 3 1 1 0 Faults.none)
    Map.lookup w.store.asgs 0 = some [(0, [1]), (1, [2]), (2, [3])] ∧
    Map.lookup w'.store.asgs 0 = some [(0, [3]), (1, [2]), (2, [3])] := by
  decide

/-- no hidden derived state: EVERY field (exported or not) of the manager, of the storage-cluster controller and of
`models.ShardAssignment` — the model's `St` is `storage.state` (live / asg / shards, see `tie_published_shape` for
`models.StorageState`'s own fields) plus `databases`; `shardAssignments` is written by the assignment / drop handlers
and read by nobody; `GetState` hands out the one state object, not a copy or a cached view -/
theorem tie_no_hidden_state :
    Generated.C18.stateManagerFields = ["ctx context.Context ", "cancel context.CancelFunc ", "repoFactory statepkg.RepositoryFactory ", "stateMachineFct *StateMachineFactory ", "storage StorageCluster ", "masterRepo statepkg.Repository ", "elector ReplicaLeaderElector ", "databases map[string]*models.Database ", "shardAssignments map[string]*models.ShardAssignment ", "events chan *discovery.Event ", "running *atomic.Bool ", "mutex sync.RWMutex ", "statistics *metrics.StateManagerStatistics ", "shardLeaderStatistics *metrics.ShardLeaderStatistics ", "logger logger.Logger "] ∧
    Generated.C18.storageClusterFields = ["ctx context.Context ", "repo state.Repository ", "state *models.StorageState ", "logger logger.Logger "] ∧
    Generated.C18.shardAssignmentFields = ["Shards map[ShardID]*Replica json:\"shards\"", "Name string json:\"name\"", "replicaFactor int "] ∧
    Generated.C18.storageGetStateShape = ["return c.state"] := by
  decide

/-- the dispatch of `processEvent` (six event types, one handler each, under the manager's mutex, nothing handled
once the manager is closed) and the two handlers that never touch the storage state: `onDatabaseCfgChange` (decode,
then `shardAssignment` — the config handler of §9) and `onDatabaseLimitsChange` (unknown name → ErrDatabaseNotFound,
otherwise one Put of the limits key): the harness feeds limits events as `noop` ops -/
theorem tie_event_dispatch :
    Generated.C18.processEventShape = ["assign eventType = event.Type.String()", "defer ?", "m.mutex.Lock()", "defer mutex.Unlock", "if", "cond !m.running.Load()", "{", "return", "}", "stmt *ast.DeclStmt", "switch event.Type", "{", "case discovery.DatabaseConfigChanged", "assign err = m.onDatabaseCfgChange(event.Key, event.Value)", "case discovery.DatabaseLimitsChanged", "assign err = m.onDatabaseLimitsChange(event.Key, event.Value)", "case discovery.DatabaseConfigDeletion", "assign err = m.onDatabaseCfgDelete(event.Key)", "case discovery.ShardAssignmentChanged", "assign err = m.onShardAssignmentChange(event.Key, event.Value)", "case discovery.NodeStartup", "assign err = m.onStorageNodeStartup(event.Key, event.Value)", "case discovery.NodeFailure", "assign err = m.onStorageNodeFailure(event.Key)", "}", "if", "cond err != nil", "{", "}", "else", "{", "}"] ∧
    Generated.C18.onDatabaseCfgChangeShape = ["assign cfg = &models.Database{}", "if", "assign err = encoding.JSONUnmarshal(data, &cfg)", "cond err != nil", "{", "return err", "}", "m.shardAssignment(cfg)", "return nil"] ∧
    Generated.C18.onDatabaseLimitsChangeShape = ["assign name = strings.TrimPrefix(key, constants.GetDatabaseLimitPath(\"\"))", "assign _,ok = m.databases[name]", "if", "cond !ok", "{", "return constants.ErrDatabaseNotFound", "}", "if", "assign err = m.storage.SetDatabaseLimits(name, data)", "cond err != nil", "{", "return err", "}", "return nil"] ∧
    Generated.C18.setDatabaseLimitsShape = ["if", "assign err = c.repo.Put(c.ctx, constants.GetDatabaseLimitPath(database), limits)", "cond err != nil", "{", "return err", "}", "return nil"] := by
  decide

/-- non-vacuity of `restart_after_recreate` and discrimination: database 0 is created on nodes 1,2 (shard 0 on
node 1, shard 1 on node 2), node 1 restarts, the database is dropped and created again with the SAME shard
count but the other placement, node 1 fails and restarts: the model revives shard 1 (node 1's shard NOW);
`ReplicasOnNode` answered through an index built from the first incarnation and kept because the shard count
is unchanged (`indexedView`) names shard 0 instead -/
example :
    let a1 : Assignment := [(0, [1]), (1, [2])]
    let a2 : Assignment := [(0, [2]), (1, [1])]
    let es : List Event := [.nodeUp 1, .nodeUp 2, .dbCfg 0, .assignChanged 0 a1, .nodeDown 1, .nodeUp 1]
    let st := run St.init (es ++ [.dropDb 0, .assignChanged 0 a2] ++ [.dbCfg 0, .nodeDown 1] ++ [.nodeUp 1])
    (dbView 0 es).held = some a1 ∧ st.asg = [(0, a2)] ∧
    replicasOnNode st.asg 1 = [(0, [1])] ∧
    replicasOnNode (indexedView [(0, a1)] st.asg) 1 = [(0, [0])] ∧
    st.shards = [(0, [(0, { state := stOnline, leader := 2, replicas := [2] }),
                      (1, { state := stOnline, leader := 1, replicas := [1] })])] := by
  decide

end LinVerif.Props.C18
