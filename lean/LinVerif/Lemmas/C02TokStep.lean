/-
C02, content level: every step preserves `TokInv` (given `Safe` and the merger contract).
-/
import LinVerif.Lemmas.C02TokInv
set_option linter.unusedSimpArgs false
set_option linter.unusedVariables false

namespace LinVerif.Lemmas.C02
open LinVerif.VersionSet LinVerif.TableCache

/-- states that agree on everything `TokInv` reads -/
theorem tok_frame {cfg : Cfg} {s s' : St} (ht : TokInv cfg s)
    (hver : s'.ver = s.ver) (hcur : s'.cur = s.cur) (hcontent : s'.content = s.content)
    (hfl : s'.flushed = s.flushed) (hnf : s.nextFile ≤ s'.nextFile) (hcomp : s'.compacting = s.compacting)
    (hnj : s'.nJob = s.nJob) (hjob : s'.job = s.job) : TokInv cfg s' := by
  refine tok_update (s.nJob) ht hver hcur hcontent hfl hnf hcomp hnj (fun k _ => by rw [hjob]) ?_ ?_
  · intro h; exact absurd h (Nat.lt_irrefl _)
  · rw [hjob]; exact fun a b => ⟨a, b⟩

theorem removeVersion_tokfields (cfg : Cfg) (s : St) (v : Nat) :
    (removeVersion cfg s v).ver = s.ver ∧ (removeVersion cfg s v).cur = s.cur ∧
    (removeVersion cfg s v).content = s.content ∧ (removeVersion cfg s v).flushed = s.flushed ∧
    (removeVersion cfg s v).nextFile = s.nextFile ∧ (removeVersion cfg s v).compacting = s.compacting ∧
    (removeVersion cfg s v).nJob = s.nJob ∧ (removeVersion cfg s v).job = s.job := by
  unfold removeVersion; split <;> simp

theorem tok_removeVersion {cfg : Cfg} {s : St} (v : Nat) (ht : TokInv cfg s) : TokInv cfg (removeVersion cfg s v) := by
  obtain ⟨a, b, c, d, e, f, g, h⟩ := removeVersion_tokfields cfg s v
  exact tok_frame ht a b c d (by omega) f g h

theorem tok_snapRemove {cfg : Cfg} {s : St} (i : Nat) (z : Bool) (ht : TokInv cfg s) :
    TokInv cfg (snapRemove cfg s i z) := by
  unfold snapRemove
  cases z
  · exact tok_frame ht rfl rfl rfl rfl (Nat.le_refl _) rfl rfl rfl
  · simp only [if_true]
    exact tok_frame (tok_removeVersion (s.snap i).ver ht) rfl rfl rfl rfl (Nat.le_refl _) rfl rfl rfl

/-- a job changes only its own record (and nothing `TokInv` reads elsewhere) -/
theorem tok_setJob {cfg : Cfg} {s : St} {j : Nat} {x : Job} (ht : TokInv cfg s)
    (hx : JobTok cfg s x)
    (hu : x.kind = .compact → started x.pc = true → (s.job j).kind = .compact ∧ started (s.job j).pc = true) :
    TokInv cfg (s.setJob j x) := by
  refine tok_update j ht rfl rfl rfl rfl (Nat.le_refl _) rfl rfl ?_ ?_ ?_
  · intro k hk; simp [St.setJob, upd, hk]
  · intro _; simpa [St.setJob] using hx
  · simpa [St.setJob] using hu

macro "jobtok_at'" : tactic =>
  `(tactic| (constructor <;>
      simp only [started, preSwap, outHidden, mergedRange, editRange, compactOnly, preAlloc, outNo, Option.toList] at * <;>
      grind))

/-- moving a job's pc (other record fields that `JobTok` does not read may change too) -/
theorem tok_setPc {cfg : Cfg} {s : St} {j : Nat} {pc' : Pc} (ht : TokInv cfg s) (hj : j < s.nJob)
    (hx : JobTok cfg s { s.job j with pc := pc' })
    (hst : (s.job j).kind = .compact → started pc' = true → started (s.job j).pc = true) :
    TokInv cfg (setPc s j pc') := by
  unfold setPc
  exact tok_setJob ht hx (fun a b => ⟨a, hst a b⟩)


set_option hygiene false in
/-- `JobTok cfg s x` for a record `x` built from `s.job j`, with `hpc : (s.job j).pc = …`,
`ht : TokInv cfg s`, `hj : j < s.nJob`, `hso : JobOk s j (s.job j)` in scope -/
macro "tokjob" : tactic =>
  `(tactic| (
      obtain ⟨x1, x2, x3, x4, x4', x5, x6, x7, x8⟩ := ht.jobs j hj
      obtain ⟨h0, hn0, hn0b, hn0c, hn1, hn2, h1, h2, h3, h4, h5, h6, h7, h8, h9, h10, hrec, hnf, hrd, h11, h12, h13, h14⟩ := hso
      generalize s.job j = b at *
      obtain ⟨kind, pc, payload, snap, inputs, trivial, todoIn, out, edit, csnap, newVer, prev, prevZero, nfRead, dlist, live, todoDel⟩ := b
      simp only at hpc
      subst hpc
      constructor <;>
        simp only [started, preSwap, outHidden, mergedRange, editRange, compactOnly, preAlloc, outNo, Option.toList,
          outPending, outOnDisk, inCommit, ownRange, csnapRange, delRange, postSwap] at * <;>
        grind))

theorem tok_pcMove {cfg : Cfg} {s : St} {j : Nat} (pc0 pc' : Pc) (hs : Safe s) (ht : TokInv cfg s) (hj : j < s.nJob)
    (hpc : (s.job j).pc = pc0)
    (hok : started pc' = true → started pc0 = true)
    (hr1 : preSwap pc' = true → preSwap pc0 = true)
    (hr2 : mergedRange pc' = true → mergedRange pc0 = true)
    (hr3 : editRange pc' = true → editRange pc0 = true)
    (hr4 : outHidden pc' = true → outHidden pc0 = true)
    (hr5 : pc' ≠ .cSnapped ∧ pc' ≠ .reading ∧ pc' ≠ .merging ∧ pc' ≠ .allocd) :
    TokInv cfg (setPc s j pc') := by
  apply tok_setPc ht hj
  · obtain ⟨x1, x2, x3, x4, x4', x5, x6, x7, x8⟩ := ht.jobs j hj
    rw [hpc] at x1 x2 x3 x4 x4' x5 x6 x7 x8
    constructor
    case excl => intro a b; exact x1 a (hok b)
    case inputsIn => intro a b; exact x2 a (hr1 b)
    case triv => intro a b c; exact x3 a (hr1 b) c
    case nontriv => intro _ hp; simp only at hp; rcases hp with h | h | h <;> simp_all
    case allocKind => intro hp; simp only at hp; exact absurd hp hr5.2.2.2
    case merged => intro a b c; exact x5 a b (hr2 c)
    case shape => intro a; exact x6 (hr3 a)
    case hidden => intro a; exact x7 (hr4 a)
    case hidden' => intro hp; simp only at hp; exact absurd hp hr5.1
  · intro _ h; rw [hpc]; exact hok h


theorem snapGetReader_tokfields (s : St) (i f : Nat) (keep : Bool) :
    (snapGetReader s i f keep).ver = s.ver ∧ (snapGetReader s i f keep).cur = s.cur ∧
    (snapGetReader s i f keep).content = s.content ∧ (snapGetReader s i f keep).flushed = s.flushed ∧
    (snapGetReader s i f keep).nextFile = s.nextFile ∧ (snapGetReader s i f keep).compacting = s.compacting ∧
    (snapGetReader s i f keep).nJob = s.nJob ∧ (snapGetReader s i f keep).job = s.job := by
  unfold snapGetReader
  split
  · cases keep <;> simp [St.setSnap]
  · simp

theorem tok_snapGetReader {cfg : Cfg} {s : St} (i f : Nat) (keep : Bool) (ht : TokInv cfg s) :
    TokInv cfg (snapGetReader s i f keep) := by
  obtain ⟨a, b, c, d, e, f', g, h⟩ := snapGetReader_tokfields s i f keep
  exact tok_frame ht a b c d (by omega) f' g h

theorem tok_jstep {cfg : Cfg} {s s' : St} {j : Nat} (hm : MergerOk cfg.merge) (hcl : cfg.cloneLocked = true) (hpf : cfg.pendFirst = true)
    (hlf : cfg.listFirst = true)
    (hs : Safe s) (ht : TokInv cfg s) (hst : jstep cfg s j = some s') : TokInv cfg s' := by
  unfold jstep at hst
  simp only [hpf, hlf, ↓reduceIte] at hst
  split at hst
  case isFalse => cases hst
  case isTrue hj =>
  have hso := hs.jobs j hj
  try dsimp only at hst
  split at hst
  case h_1 hpc => -- start
    split at hst
    · split at hst
      · cases hst; exact tok_jAlloc _ _ hs ht hj (Or.inl ⟨hpc, by assumption⟩)
      · cases hst
    · split at hst
      · cases hst
      · next hk hnc => cases hst; exact tok_jStartCompact hs ht hj hpc hk (by simpa using hnc)
    · next hk =>
      cases hst
      apply tok_setJob ht
      · tokjob
      · intro _ hst'; simp [started] at hst' ⊢; simp_all
    · next hk =>
      cases hst
      apply tok_setPc ht hj
      · tokjob
      · intro hc; rw [hk] at hc; cases hc
    · next hk =>
      cases hst
      unfold jRollupStart
      apply tok_setJob ht
      · tokjob
      · intro _ hst'; simp [started] at hst' ⊢; simp_all
  case h_2 hpc => -- picked
    cases hst
    unfold jPicked
    dsimp only
    split
    · apply tok_setJob ht
      · tokjob
      · intro a _; exact ⟨a, by rw [hpc]; rfl⟩
    · apply tok_setJob ht
      · tokjob
      · intro a _; exact ⟨a, by rw [hpc]; rfl⟩
  case h_3 hpc => -- reading
    cases hst
    unfold jRead
    dsimp only
    split
    · apply tok_setPc ht hj
      · tokjob
      · intro _ _; rw [hpc]; rfl
    · split
      · apply tok_snapGetReader
        apply tok_setJob ht
        · tokjob
        · intro a _; exact ⟨a, by rw [hpc]; rfl⟩
      · exact tok_pcMove .reading .closeOwn hs ht hj hpc (by decide) (by decide) (by decide) (by decide) (by decide) (by decide)
  case h_4 hpc =>
    split at hst
    · cases hst; exact tok_jAlloc _ _ hs ht hj (Or.inr ⟨hpc, rfl⟩)
    · cases hst
  case h_5 hpc => -- allocd: jCreate
    cases hst
    unfold jCreate
    dsimp only
    have h1 : TokInv cfg (createFiles s (outNo (s.job j))) := tok_frame ht rfl rfl rfl rfl (Nat.le_refl _) rfl rfl rfl
    apply tok_setJob h1
    · refine jobTok_congr (s := s) rfl rfl rfl rfl ?_
      obtain ⟨x1, x2, x3, x4, x4', x5, x6, x7, x8⟩ := ht.jobs j hj
      generalize s.job j = b at *
      obtain ⟨kind, pc, payload, snap, inputs, trivial, todoIn, out, edit, csnap, newVer, prev, prevZero, nfRead, dlist, live, todoDel⟩ := b
      simp only at hpc
      subst hpc
      cases kind <;>
      · constructor <;>
          simp only [started, preSwap, outHidden, mergedRange, editRange, outNo, Option.toList] at * <;> grind
    · intro a _
      exact ⟨a, (by show started (s.job j).pc = true; rw [hpc]; rfl)⟩
  case h_6 hpc => -- ready
    split at hst
    · cases hst
      exact tok_pcMove .ready .cUnlocked hs ht hj hpc (by decide) (by decide) (by decide) (by decide) (by decide) (by decide)
    · split at hst
      · cases hst
        have h1 : TokInv cfg (s.setJob j { s.job j with nfRead := s.nextFile, pc := .cLocked }) := by
          apply tok_setJob ht
          · tokjob
          · intro a _; exact ⟨a, by rw [hpc]; rfl⟩
        exact tok_frame h1 rfl rfl rfl rfl (Nat.le_refl _) rfl rfl rfl
      · cases hst
  case h_7 hpc => exact absurd hpc hso.notCloned
  case h_8 hpc => cases hst; exact tok_jSnap hs ht hj hpc
  case h_9 hpc => cases hst; exact tok_jSwap hm hs ht hj hpc
  case h_10 hpc =>
    cases hst
    unfold jCheck
    apply tok_setJob ht
    · tokjob
    · intro a _; exact ⟨a, by rw [hpc]; rfl⟩
  case h_11 hpc =>
    cases hst
    unfold jPrevRm
    dsimp only
    have h1 := tok_pcMove .cChecked .cPrevDone hs ht hj hpc (by decide) (by decide) (by decide) (by decide) (by decide) (by decide)
    split
    · exact tok_removeVersion _ h1
    · exact h1
  case h_12 hpc =>
    split at hst
    · cases hst
      exact tok_frame (tok_pcMove .cPrevDone .cDecd hs ht hj hpc (by decide) (by decide) (by decide) (by decide) (by decide) (by decide))
        rfl rfl rfl rfl (Nat.le_refl _) rfl rfl rfl
    · cases hst
  case h_13 hpc =>
    split at hst
    · cases hst
      exact tok_snapRemove _ _ (tok_pcMove .cDecd .cRemoved hs ht hj hpc (by decide) (by decide) (by decide) (by decide) (by decide) (by decide))
    · cases hst
  case h_14 hpc =>
    split at hst
    · cases hst
      exact tok_frame (tok_pcMove .cRemoved .cReleased hs ht hj hpc (by decide) (by decide) (by decide) (by decide) (by decide) (by decide))
        rfl rfl rfl rfl (Nat.le_refl _) rfl rfl rfl
    · cases hst
  case h_15 hpc =>
    cases hst
    exact tok_frame (tok_pcMove .cReleased .cUnlocked hs ht hj hpc (by decide) (by decide) (by decide) (by decide) (by decide) (by decide))
      rfl rfl rfl rfl (Nat.le_refl _) rfl rfl rfl
  case h_16 hpc =>
    split at hst
    · cases hst
      exact tok_frame (tok_pcMove .cUnlocked .closeOwn hs ht hj hpc (by decide) (by decide) (by decide) (by decide) (by decide) (by decide))
        rfl rfl rfl rfl (Nat.le_refl _) rfl rfl rfl
    · cases hst
      exact tok_frame (tok_pcMove .cUnlocked .doStart hs ht hj hpc (by decide) (by decide) (by decide) (by decide) (by decide) (by decide))
        rfl rfl rfl rfl (Nat.le_refl _) rfl rfl rfl
    · cases hst
      exact tok_frame (tok_pcMove .cUnlocked .done hs ht hj hpc (by decide) (by decide) (by decide) (by decide) (by decide) (by decide))
        rfl rfl rfl rfl (Nat.le_refl _) rfl rfl rfl
  case h_17 hpc =>
    split at hst
    · cases hst
      exact tok_frame (tok_pcMove .closeOwn .oDecd hs ht hj hpc (by decide) (by decide) (by decide) (by decide) (by decide) (by decide))
        rfl rfl rfl rfl (Nat.le_refl _) rfl rfl rfl
    · cases hst
  case h_18 hpc =>
    split at hst
    · cases hst
      exact tok_snapRemove _ _ (tok_pcMove .oDecd .oRemoved hs ht hj hpc (by decide) (by decide) (by decide) (by decide) (by decide) (by decide))
    · cases hst
  case h_19 hpc =>
    split at hst
    · cases hst
      exact tok_frame (tok_pcMove .oRemoved .doStart hs ht hj hpc (by decide) (by decide) (by decide) (by decide) (by decide) (by decide))
        rfl rfl rfl rfl (Nat.le_refl _) rfl rfl rfl
    · cases hst
  case h_20 hpc =>
    cases hst
    unfold doList
    apply tok_setJob ht
    · tokjob
    · intro a _; exact ⟨a, by rw [hpc]; rfl⟩
  case h_21 hpc =>
    cases hst
    unfold doPend
    apply tok_setJob ht
    · tokjob
    · intro a _; exact ⟨a, by rw [hpc]; rfl⟩
  case h_22 hpc =>
    cases hst
    unfold doActive
    apply tok_setJob ht
    · tokjob
    · intro a _; exact ⟨a, by rw [hpc]; rfl⟩
  case h_23 hpc =>
    cases hst
    unfold doRollup
    dsimp only
    apply tok_setJob ht
    · tokjob
    · intro a _; exact ⟨a, by rw [hpc]; rfl⟩
  case h_24 hpc =>
    split at hst
    · cases hst; exact tok_jFinish ht hj (by rw [hpc]; rfl)
    · cases hst
      exact tok_frame (tok_pcMove .doRolled .doEvicted hs ht hj hpc (by decide) (by decide) (by decide) (by decide) (by decide) (by decide))
        rfl rfl rfl rfl (Nat.le_refl _) rfl rfl rfl
  case h_25 hpc =>
    split at hst
    · cases hst; exact tok_jFinish ht hj (by rw [hpc]; rfl)
    · cases hst
      exact tok_frame (tok_pcMove .doRemoved .doEvicted hs ht hj hpc (by decide) (by decide) (by decide) (by decide) (by decide) (by decide))
        rfl rfl rfl rfl (Nat.le_refl _) rfl rfl rfl
  case h_26 hpc =>
    split at hst
    · cases hst
    · next f rest _ =>
      cases hst
      unfold doRemove
      have h1 : TokInv cfg (s.setJob j { s.job j with todoDel := rest, pc := .doRemoved }) := by
        apply tok_setJob ht
        · tokjob
        · intro a _; exact ⟨a, by rw [hpc]; rfl⟩
      exact tok_frame h1 rfl rfl rfl rfl (Nat.le_refl _) rfl rfl rfl
  case h_27 hpc => cases hst
  case h_28 hpc => exact absurd hpc hso.notCreatedU
  case h_29 hpc => exact absurd hpc hso.notLiveL


theorem tok_step {cfg : Cfg} {s s' : St} {a : Act} (hm : MergerOk cfg.merge) (hcl : cfg.cloneLocked = true) (hpf : cfg.pendFirst = true)
    (hlf : cfg.listFirst = true) (hs : Safe s) (ht : TokInv cfg s) (hst : step cfg s a = some s') : TokInv cfg s' := by
  cases a with
  | acquire =>
    simp only [step] at hst; cases hst
    exact tok_frame ht rfl rfl rfl rfl (Nat.le_refl _) rfl rfl rfl
  | getReader i f =>
    simp only [step] at hst
    split at hst
    · cases hst; exact tok_snapGetReader _ _ _ ht
    · cases hst
  | loadFile i f =>
    simp only [step] at hst
    split at hst
    · cases hst; exact tok_snapGetReader _ _ _ ht
    · cases hst
  | sDec i =>
    simp only [step] at hst
    split at hst
    · cases hst; exact tok_frame ht rfl rfl rfl rfl (Nat.le_refl _) rfl rfl rfl
    · cases hst
  | sRemove i =>
    simp only [step] at hst
    split at hst
    · split at hst
      · cases hst; exact tok_snapRemove _ _ ht
      · cases hst
    · cases hst
  | sRel i =>
    simp only [step] at hst
    split at hst
    · cases hst; exact tok_frame ht rfl rfl rfl rfl (Nat.le_refl _) rfl rfl rfl
    · cases hst
  | spawn k p => simp only [step] at hst; cases hst; exact tok_spawn k p ht
  | jstep j => exact tok_jstep hm hcl hpf hlf hs ht hst
  | cleanup fs =>
    simp only [step] at hst
    split at hst
    · cases hst; exact tok_frame ht rfl rfl rfl rfl (Nat.le_refl _) rfl rfl rfl
    · cases hst
  | findErrRelease i fs =>
    simp only [step] at hst
    split at hst
    · cases hst; exact tok_frame ht rfl rfl rfl rfl (Nat.le_refl _) rfl rfl rfl
    · cases hst
  | sDec2 i =>
    simp only [step] at hst
    split at hst
    · cases hst; exact tok_frame ht rfl rfl rfl rfl (Nat.le_refl _) rfl rfl rfl
    · cases hst
  | getReaderNoRetain i f =>
    simp only [step] at hst
    split at hst
    · cases hst; exact tok_frame ht rfl rfl rfl rfl (Nat.le_refl _) rfl rfl rfl
    · cases hst
  | env df dv =>
    simp only [step] at hst
    split at hst
    · cases hst; exact tok_frame ht rfl rfl rfl rfl (Nat.le_add_right _ _) rfl rfl rfl
    · cases hst

theorem tok_reachable {cfg : Cfg} {v0 f0 : Nat} {s : St} (hm : MergerOk cfg.merge) (hr : cfg.recheck = true)
    (hcl : cfg.cloneLocked = true) (hal : cfg.allocLocked = true) (hfe : cfg.findErrReleases = false)
    (hpf : cfg.pendFirst = true) (hcc : cfg.closeCAS = true) (hga : cfg.getReaderAtomic = true)
    (hlf : cfg.listFirst = true) (h : Reachable cfg v0 f0 s) : TokInv cfg s := by
  induction h with
  | init => exact tok_init cfg v0 f0
  | step a hreach hst ih => exact tok_step hm hcl hpf hlf (safe_reachable hr hcl hal hfe hpf hcc hga hlf hreach) ih hst

end LinVerif.Lemmas.C02
