/-
C20 helper lemmas: well-formedness of trie trees and the specification of `buildNode` /
`buildEntries` (iteration of the built tree returns the input; the built tree is well formed).
-/
import LinVerif.Lemmas.C20WF

set_option linter.unusedSimpArgs false
set_option linter.unusedVariables false

namespace LinVerif.Lemmas.C20
open LinVerif.TrieTree

/-! ### sortedness -/

/-- strictly increasing keys, as a pairwise relation -/
def Sorted (kvs : List KV) : Prop := kvs.Pairwise (fun a b => keyLt a.1 b.1 = true)

/-- every byte of every key is `< 256` -/
def BytesOK (kvs : List KV) : Prop := ∀ kv ∈ kvs, ∀ b ∈ kv.1, b < 256

theorem sortedKeys_iff (kvs : List KV) : sortedKeys kvs = true ↔ Sorted kvs := by
  induction kvs with
  | nil => simp [sortedKeys, Sorted]
  | cons a r ih =>
    cases r with
    | nil => simp [sortedKeys, Sorted]
    | cons b r' =>
      simp only [sortedKeys, Bool.and_eq_true, ih]
      unfold Sorted at *
      constructor
      · rintro ⟨h1, h2⟩
        refine List.Pairwise.cons ?_ h2
        intro x hx
        rcases List.mem_cons.1 hx with rfl | hx
        · exact h1
        · exact keyLt_trans h1 ((List.pairwise_cons.1 h2).1 x hx)
      · intro h
        have h' := List.pairwise_cons.1 h
        exact ⟨h'.1 b (List.mem_cons_self ..), h'.2⟩

theorem bytesOK_iff (kvs : List KV) : bytesOK kvs = true ↔ BytesOK kvs := by
  simp [bytesOK, BytesOK, List.all_eq_true]

theorem Sorted.tail {a : KV} {r : List KV} (h : Sorted (a :: r)) : Sorted r :=
  (List.pairwise_cons.1 h).2

theorem Sorted.head_lt {a : KV} {r : List KV} (h : Sorted (a :: r)) : ∀ x ∈ r, keyLt a.1 x.1 = true :=
  (List.pairwise_cons.1 h).1

theorem Sorted.take {l : List KV} (h : Sorted l) (n : Nat) : Sorted (l.take n) :=
  List.Pairwise.sublist (List.take_sublist n l) h

theorem Sorted.drop {l : List KV} (h : Sorted l) (n : Nat) : Sorted (l.drop n) :=
  List.Pairwise.sublist (List.drop_sublist n l) h

theorem BytesOK.sub {l l' : List KV} (h : BytesOK l) (hs : ∀ x ∈ l', x ∈ l) : BytesOK l' :=
  fun kv hkv => h kv (hs kv hkv)

/-- after an empty first key every other key is non-empty -/
theorem rest_nonempty_of_sorted {v0 : Nat} {rest : List KV} (h : Sorted (([], v0) :: rest)) :
    ∀ kv ∈ rest, kv.1 ≠ [] := by
  intro kv hkv e
  have := h.head_lt kv hkv
  simp [e, keyLt_nil_right] at this

theorem any_isEmpty_false {kvs : List KV} (h : ∀ kv ∈ kvs, kv.1 ≠ []) :
    kvs.any (fun kv => kv.1.isEmpty) = false := by
  rw [List.any_eq_false]
  intro kv hkv
  have := h kv hkv
  cases hk : kv.1 with
  | nil => exact absurd hk this
  | cons _ _ => simp

/-! ### sizes -/

theorem kvSize_append (a b : List KV) : kvSize (a ++ b) = kvSize a + kvSize b := by
  induction a with
  | nil => simp [kvSize]
  | cons x xs ih => simp [kvSize, ih]; omega

theorem kvSize_take_drop (l : List KV) (n : Nat) : kvSize (l.take n) + kvSize (l.drop n) = kvSize l := by
  rw [← kvSize_append, List.take_append_drop]

theorem kvSize_tails {l : List KV} (h : ∀ kv ∈ l, kv.1 ≠ []) : kvSize (tails l) + l.length = kvSize l := by
  induction l with
  | nil => simp [kvSize, tails]
  | cons x xs ih =>
    have hx := h x (List.mem_cons_self ..)
    have ih' := ih (fun kv hkv => h kv (List.mem_cons_of_mem _ hkv))
    cases hk : x.1 with
    | nil => exact absurd hk hx
    | cons c t =>
      simp only [tails, List.map_cons, kvSize, List.length_cons, hk, List.tail_cons] at *
      omega

theorem length_le_kvSize (l : List KV) : l.length ≤ kvSize l := by
  induction l with
  | nil => simp [kvSize]
  | cons x xs ih => simp [kvSize]; omega

/-! ### the group scan -/

theorem scanGroup_short (cur a : Nat) (t : List Nat) (h : t.length < 4) :
    scanGroup cur (a :: t) = if a == cur then 1 + scanGroup cur t else 0 := by
  match t, h with
  | [], _ => simp [scanGroup]
  | [b], _ => simp [scanGroup]
  | [b, c], _ => simp [scanGroup]
  | [b, c, d], _ => simp [scanGroup]
  | _ :: _ :: _ :: _ :: _, h => simp at h; omega

theorem scanGroup_eq (cur : Nat) (hs : List Nat) (hmono : hs.Pairwise (· ≤ ·)) (hlo : ∀ h ∈ hs, cur ≤ h) :
    scanGroup cur hs = (hs.takeWhile (· == cur)).length := by
  induction hn : hs.length using Nat.strongRecOn generalizing hs with
  | _ n ih =>
    match hs, hmono, hlo, hn with
    | [], _, _, _ => simp [scanGroup]
    | a :: t, hm, hl, hlen =>
      have hmt : t.Pairwise (· ≤ ·) := (List.pairwise_cons.1 hm).2
      have hlt : ∀ h ∈ t, cur ≤ h := fun h hh => hl h (List.mem_cons_of_mem _ hh)
      have iht := ih t.length (by simp at hlen; omega) t hmt hlt rfl
      by_cases hshort : t.length < 4
      · rw [scanGroup_short cur a t hshort, List.takeWhile_cons]
        by_cases h : (a == cur) = true
        · simp [h, iht]; omega
        · simp [h]
      · match t, hm, hl, hlen, hmt, hlt, iht, hshort with
        | b :: c :: d :: e :: t', hm, hl, hlen, hmt, hlt, iht, _ =>
          have ha := hl a (by simp)
          have he := hl e (by simp)
          simp only [List.pairwise_cons, List.mem_cons] at hm
          obtain ⟨h1, h2, h3, h4, h5, ht⟩ := hm
          have hab := h1 b (by simp)
          have hbc := h2 c (by simp)
          have hcd := h3 d (by simp)
          have hde := h4 e (by simp)
          simp only [scanGroup]
          by_cases hE : e = cur
          · have e1 : a = cur := by omega
            have e2 : b = cur := by omega
            have e3 : c = cur := by omega
            have e4 : d = cur := by omega
            subst e1 e2 e3 e4
            have := ih t'.length (by simp at hlen; omega) t' ht (fun h hh => hl h (by simp [hh])) rfl
            simp [hE, List.takeWhile_cons, this]; omega
          · by_cases hA : a = cur
            · simp [hE, hA, iht, List.takeWhile_cons]; omega
            · simp [hE, hA, List.takeWhile_cons]
        | [], _, _, _, _, _, _, h => simp at h
        | [_], _, _, _, _, _, _, h => simp at h
        | [_, _], _, _, _, _, _, _, h => simp at h
        | [_, _, _], _, _, _, _, _, _, h => simp at h

/-! ### label groups of a sorted key list -/

/-- the label `key[depth]` of a pair -/
def hd (kv : KV) : Nat := kv.1.headD 0

theorem heads_eq (kvs : List KV) : heads kvs = kvs.map hd := rfl

theorem hd_le_of_keyLt {a b : KV} (ha : a.1 ≠ []) (hb : b.1 ≠ []) (h : keyLt a.1 b.1 = true) : hd a ≤ hd b := by
  unfold hd
  cases hka : a.1 with
  | nil => exact absurd hka ha
  | cons x xs =>
    cases hkb : b.1 with
    | nil => exact absurd hkb hb
    | cons y ys =>
      rw [hka, hkb, keyLt_cons_cons] at h
      simp only [Bool.or_eq_true, decide_eq_true_eq, Bool.and_eq_true, beq_iff_eq] at h
      simp only [List.headD_cons]
      rcases h with h | ⟨h, _⟩ <;> omega

theorem heads_mono {kvs : List KV} (h : Sorted kvs) (hne : ∀ kv ∈ kvs, kv.1 ≠ []) :
    (kvs.map hd).Pairwise (· ≤ ·) := by
  induction kvs with
  | nil => simp
  | cons x xs ih =>
    simp only [List.map_cons, List.pairwise_cons, List.mem_map, forall_exists_index, and_imp,
      forall_apply_eq_imp_iff₂]
    refine ⟨?_, ih h.tail (fun kv hkv => hne kv (List.mem_cons_of_mem _ hkv))⟩
    intro y hy
    exact hd_le_of_keyLt (hne x (List.mem_cons_self ..)) (hne y (List.mem_cons_of_mem _ hy)) (h.head_lt y hy)

theorem takeWhile_length_map (kvs : List KV) (c : Nat) :
    ((kvs.map hd).takeWhile (· == c)).length = (kvs.takeWhile (fun kv => hd kv == c)).length := by
  induction kvs with
  | nil => rfl
  | cons x xs ih =>
    simp only [List.map_cons, List.takeWhile_cons]
    by_cases h : (hd x == c) = true <;> simp [h, ih]

theorem take_takeWhile_length {α} (p : α → Bool) (l : List α) :
    l.take (l.takeWhile p).length = l.takeWhile p := by
  induction l with
  | nil => rfl
  | cons x xs ih =>
    simp only [List.takeWhile_cons]
    by_cases h : p x = true <;> simp [h, ih]

theorem drop_takeWhile_length {α} (p : α → Bool) (l : List α) :
    l.drop (l.takeWhile p).length = l.dropWhile p := by
  induction l with
  | nil => rfl
  | cons x xs ih =>
    simp only [List.takeWhile_cons, List.dropWhile_cons]
    by_cases h : p x = true <;> simp [h, ih]

/-- the width computed by the Go group scan is the number of leading keys with the first label -/
theorem scan_width {kvs : List KV} {k : Key} {v : Nat} {r : List KV} (hk : kvs = (k, v) :: r)
    (hs : Sorted kvs) (hne : ∀ kv ∈ kvs, kv.1 ≠ []) :
    scanGroup (k.headD 0) (heads kvs) = (kvs.takeWhile (fun kv => hd kv == k.headD 0)).length := by
  have hm := heads_mono hs hne
  rw [heads_eq, scanGroup_eq _ _ hm, takeWhile_length_map]
  intro h hh
  rw [hk] at hm hh
  simp only [List.map_cons, List.mem_cons] at hh
  rcases hh with rfl | hh
  · simp [hd]
  · simp only [List.map_cons] at hm
    exact (List.pairwise_cons.1 hm).1 h hh

theorem width_pos {kvs : List KV} {k : Key} {v : Nat} {r : List KV} (hk : kvs = (k, v) :: r) :
    1 ≤ (kvs.takeWhile (fun kv => hd kv == k.headD 0)).length := by
  subst hk
  simp [List.takeWhile_cons, hd]

theorem width_le (kvs : List KV) (c : Nat) : (kvs.takeWhile (fun kv => hd kv == c)).length ≤ kvs.length :=
  List.Sublist.length_le (List.takeWhile_sublist _)

theorem group_hd {kvs : List KV} {c : Nat} : ∀ kv ∈ kvs.takeWhile (fun kv => hd kv == c), hd kv = c := by
  induction kvs with
  | nil => simp
  | cons x xs ih =>
    intro kv hkv
    rw [List.takeWhile_cons] at hkv
    by_cases h : (hd x == c) = true
    · simp only [h, if_true, List.mem_cons] at hkv
      rcases hkv with rfl | hkv
      · simpa using h
      · exact ih kv hkv
    · simp [h] at hkv

theorem rest_hd_gt {kvs : List KV} {c : Nat} (hm : (kvs.map hd).Pairwise (· ≤ ·)) (hlo : ∀ kv ∈ kvs, c ≤ hd kv) :
    ∀ kv ∈ kvs.dropWhile (fun kv => hd kv == c), c < hd kv := by
  induction kvs with
  | nil => simp
  | cons x xs ih =>
    simp only [List.map_cons, List.pairwise_cons] at hm
    rw [List.dropWhile_cons]
    by_cases h : (hd x == c) = true
    · simp only [h, if_true]
      exact ih hm.2 (fun kv hkv => hlo kv (List.mem_cons_of_mem _ hkv))
    · simp only [h]
      have hx : c < hd x := by
        have := hlo x (List.mem_cons_self ..)
        simp at h; omega
      intro kv hkv
      rcases List.mem_cons.1 hkv with rfl | hkv
      · exact hx
      · have := hm.1 (hd kv) (List.mem_map.2 ⟨kv, hkv, rfl⟩)
        omega

/-- keys of one label group, one byte deeper, are still sorted -/
theorem sorted_tails {g : List KV} {c : Nat} (hs : Sorted g) (hne : ∀ kv ∈ g, kv.1 ≠ []) (hc : ∀ kv ∈ g, hd kv = c) :
    Sorted (tails g) := by
  induction g with
  | nil => simp [tails, Sorted]
  | cons x xs ih =>
    have ih' := ih hs.tail (fun kv hkv => hne kv (List.mem_cons_of_mem _ hkv)) (fun kv hkv => hc kv (List.mem_cons_of_mem _ hkv))
    have hlt' := hs.head_lt
    unfold Sorted tails at *
    simp only [List.map_cons, List.pairwise_cons, List.mem_map, forall_exists_index, and_imp,
      forall_apply_eq_imp_iff₂]
    refine ⟨?_, ih'⟩
    intro y hy
    have hlt := hlt' y hy
    have hx := hne x (List.mem_cons_self ..)
    have hy' := hne y (List.mem_cons_of_mem _ hy)
    have hcx := hc x (List.mem_cons_self ..)
    have hcy := hc y (List.mem_cons_of_mem _ hy)
    unfold hd at hcx hcy
    cases hkx : x.1 with
    | nil => exact absurd hkx hx
    | cons a as =>
      cases hky : y.1 with
      | nil => exact absurd hky hy'
      | cons b bs =>
        rw [hkx, hky, keyLt_cons_cons] at hlt
        rw [hkx] at hcx; rw [hky] at hcy
        simp only [List.headD_cons] at hcx hcy
        subst hcx hcy
        simpa using hlt

theorem bytesOK_tails {g : List KV} (h : BytesOK g) : BytesOK (tails g) := by
  intro kv hkv b hb
  unfold tails at hkv
  obtain ⟨x, hx, rfl⟩ := List.mem_map.1 hkv
  exact h x hx b (List.mem_of_mem_tail hb)

theorem map_tails {g : List KV} {c : Nat} (hne : ∀ kv ∈ g, kv.1 ≠ []) (hc : ∀ kv ∈ g, hd kv = c) (base : Key) :
    (tails g).map (fun kv => ((base ++ [c]) ++ kv.1, kv.2)) = g.map (fun kv => (base ++ kv.1, kv.2)) := by
  induction g with
  | nil => rfl
  | cons x xs ih =>
    have ih' := ih (fun kv hkv => hne kv (List.mem_cons_of_mem _ hkv)) (fun kv hkv => hc kv (List.mem_cons_of_mem _ hkv))
    have hx := hne x (List.mem_cons_self ..)
    have hcx := hc x (List.mem_cons_self ..)
    unfold hd at hcx
    unfold tails at *
    simp only [List.map_cons, List.map_map] at *
    rw [ih']
    cases hkx : x.1 with
    | nil => exact absurd hkx hx
    | cons a as =>
      rw [hkx] at hcx
      simp only [List.headD_cons] at hcx
      subst hcx
      simp [hkx]

theorem tails_length (g : List KV) : (tails g).length = g.length := by simp [tails]

theorem takeWhile_all {α} (p : α → Bool) (l : List α) (h : (l.takeWhile p).length = l.length) : ∀ x ∈ l, p x = true := by
  induction l with
  | nil => simp
  | cons x xs ih =>
    rw [List.takeWhile_cons] at h
    by_cases hp : p x = true
    · simp only [hp, if_true, List.length_cons, Nat.add_right_cancel_iff] at h
      intro y hy
      rcases List.mem_cons.1 hy with rfl | hy
      · exact hp
      · exact ih h y hy
    · simp [hp] at h

/-- a non-empty row of real entries is a well-formed node row -/
theorem wfRow_of_wfEntries {es : Entries} (h : WFEntries es) (hne : es.isNil = false) : WFRow es := by
  cases es with
  | nil => simp [Entries.isNil] at hne
  | leaf l suf v r =>
    unfold WFRow
    have h' := h
    unfold WFEntries at h'
    right
    exact ⟨h'.1, h'.2.1, h'.2.2⟩
  | child l n r =>
    unfold WFRow
    unfold WFEntries at h
    exact h

theorem key_eq_cons_of_ne {k : Key} (h : k ≠ []) : k = k.headD 0 :: k.tail := by
  cases k with
  | nil => exact absurd rfl h
  | cons a as => rfl

/-- what the statement of the build specification says about one call of `buildNode` -/
def NodeSpec (fuel : Nat) : Prop :=
  ∀ (pfx : List Nat) (kvs : List KV), 2 * kvSize kvs + 2 ≤ fuel → Sorted kvs → BytesOK kvs →
    (2 ≤ kvs.length ∨ ∃ k v, kvs = [(k, v)] ∧ k ≠ []) →
    ∃ n, buildNode fuel pfx kvs = some n ∧
      (∀ path, iterNode path n = kvs.map (fun kv => (path ++ pfx ++ kv.1, kv.2))) ∧
      WFNode n ∧ ((∀ v, kvs ≠ [([255], v)]) → NoSingleFF n.entries) ∧
      (2 ≤ kvs.length → 2 ≤ n.entries.length)

/-- … and about one call of `buildEntries` -/
def EntriesSpec (fuel : Nat) : Prop :=
  ∀ (kvs : List KV), 2 * kvSize kvs + 1 ≤ fuel → Sorted kvs → BytesOK kvs → (∀ kv ∈ kvs, kv.1 ≠ []) →
    ∃ es, buildEntries fuel kvs = some es ∧
      (∀ base, iterEntries base es = kvs.map (fun kv => (base ++ kv.1, kv.2))) ∧
      WFEntries es ∧
      (∀ p : Nat → Prop, (∀ kv ∈ kvs, p (hd kv)) → allLabels p es) ∧
      (kvs ≠ [] → es.isNil = false) ∧
      (∀ k v r, kvs = (k, v) :: r → (kvs.takeWhile (fun kv => hd kv == k.headD 0)).length < kvs.length → 2 ≤ es.length)

theorem length_pos_of_isNil_false {es : Entries} (h : es.isNil = false) : 1 ≤ es.length := by
  cases es <;> simp [Entries.isNil, Entries.length] at *

theorem entriesSpec_step (fuel : Nat) (hN : NodeSpec fuel) (hE : EntriesSpec fuel) : EntriesSpec (fuel + 1) := by
  intro kvs hf hs hb hne
  match kvs, hf, hs, hb, hne with
  | [], _, _, _, _ =>
    refine ⟨.nil, by simp [buildEntries], by simp [iterEntries], trivial, fun _ _ => trivial, by simp, ?_⟩
    intro k v r h; simp at h
  | (k, v) :: r, hf, hs, hb, hne =>
    have hk : k ≠ [] := hne (k, v) (List.mem_cons_self ..)
    have hkc := key_eq_cons_of_ne hk
    have hw := scan_width (kvs := (k, v) :: r) rfl hs hne
    have hwpos := width_pos (kvs := (k, v) :: r) (k := k) (v := v) (r := r) rfl
    have hwle := width_le ((k, v) :: r) (k.headD 0)
    have hmono := heads_mono hs hne
    have hlo : ∀ kv ∈ (k, v) :: r, k.headD 0 ≤ hd kv := by
      intro kv hkv
      rcases List.mem_cons.1 hkv with rfl | hkv
      · simp [hd]
      · simp only [List.map_cons] at hmono
        exact (List.pairwise_cons.1 hmono).1 (hd kv) (List.mem_map.2 ⟨kv, hkv, rfl⟩)
    have hc255 : k.headD 0 ≤ 255 := by
      have := hb (k, v) (List.mem_cons_self ..) (k.headD 0) (by rw [hkc]; simp)
      omega
    generalize hwdef : ((k, v) :: r).takeWhile (fun kv => hd kv == k.headD 0) = grp at *
    have hgrp_take : ((k, v) :: r).take grp.length = grp := by rw [← hwdef]; exact take_takeWhile_length _ _
    have hrest_drop : ((k, v) :: r).drop grp.length = ((k, v) :: r).dropWhile (fun kv => hd kv == k.headD 0) := by
      rw [← hwdef]; exact drop_takeWhile_length _ _
    have hrest_gt : ∀ kv ∈ ((k, v) :: r).drop grp.length, k.headD 0 < hd kv := by
      rw [hrest_drop]; exact rest_hd_gt hmono hlo
    have hrest_mem : ∀ kv ∈ ((k, v) :: r).drop grp.length, kv ∈ (k, v) :: r := fun kv h => List.mem_of_mem_drop h
    have hsz := kvSize_take_drop ((k, v) :: r) grp.length
    have hsplit : grp ++ ((k, v) :: r).drop grp.length = (k, v) :: r := by
      have := List.take_append_drop grp.length ((k, v) :: r)
      rwa [hgrp_take] at this
    -- the entries of the remaining groups
    obtain ⟨es', he1, he2, he3, he4, he5, _⟩ := hE (((k, v) :: r).drop grp.length)
      (by
        have : 1 ≤ kvSize (((k, v) :: r).take grp.length) := by
          rw [hgrp_take]; exact Nat.le_trans hwpos (length_le_kvSize grp)
        omega)
      (hs.drop _) (hb.sub hrest_mem) (fun kv h => hne kv (hrest_mem kv h))
    have habove : allLabels (k.headD 0 < ·) es' := he4 _ hrest_gt
    by_cases hw1 : grp.length = 1
    · -- width 1: a leaf with the rest of the key as suffix
      have hdrop1 : ((k, v) :: r).drop 1 = r := rfl
      have hes : buildEntries (fuel + 1) ((k, v) :: r) = some (.leaf (k.headD 0) k.tail v es') := by
        simp only [buildEntries, hw, hw1, beq_self_eq_true, if_true]
        rw [hw1] at he1
        have he1' : buildEntries fuel r = some es' := he1
        simp [he1']
      have hwf : WFEntries (.leaf (k.headD 0) k.tail v es') := by
        unfold WFEntries; exact ⟨hc255, habove, he3⟩
      refine ⟨_, hes, ?_, hwf, ?_, by simp [Entries.isNil], ?_⟩
      · intro base
        rw [iterEntries_leaf_real hwf, he2, hw1, hdrop1, List.map_cons, ← hkc]
      · intro p hp
        refine ⟨hp (k, v) (List.mem_cons_self ..), he4 p (fun kv h => hp kv (hrest_mem kv h))⟩
      · intro k' v' r' hk' hlt
        cases hk'
        rw [hwdef] at hlt
        have : ((k, v) :: r).drop grp.length ≠ [] := by
          intro e
          have := congrArg List.length e
          simp only [List.length_drop, List.length_nil] at this
          omega
        have := length_pos_of_isNil_false (he5 this)
        simp only [Entries.length]; omega
    · -- width ≥ 2: a child node
      have hw2 : 2 ≤ grp.length := by omega
      have hgrp_mem : ∀ kv ∈ grp, kv ∈ (k, v) :: r := by
        intro kv h; rw [← hgrp_take] at h; exact List.mem_of_mem_take h
      have hgrp_hd : ∀ kv ∈ grp, hd kv = k.headD 0 := by rw [← hwdef]; exact group_hd
      have hgrp_ne : ∀ kv ∈ grp, kv.1 ≠ [] := fun kv h => hne kv (hgrp_mem kv h)
      have hgrp_sorted : Sorted grp := by rw [← hgrp_take]; exact hs.take _
      have hsz2 := kvSize_tails hgrp_ne
      obtain ⟨n, hn1, hn2, hwfn, _, hn4⟩ := hN [] (tails grp)
        (by rw [hgrp_take] at hsz; omega)
        (sorted_tails hgrp_sorted hgrp_ne hgrp_hd) (bytesOK_tails (hb.sub hgrp_mem))
        (Or.inl (by rw [tails_length]; exact hw2))
      have hes : buildEntries (fuel + 1) ((k, v) :: r) = some (.child (k.headD 0) n es') := by
        simp only [buildEntries, hw]
        have : (grp.length == 1) = false := by simp [hw1]
        simp only [this]
        rw [hgrp_take, hn1, he1]
        simp
      have hlen2 : 2 ≤ n.entries.length := hn4 (by rw [tails_length]; exact hw2)
      have hwf : WFEntries (.child (k.headD 0) n es') := by
        unfold WFEntries; exact ⟨hc255, habove, hwfn, hlen2, he3⟩
      refine ⟨_, hes, ?_, hwf, ?_, by simp [Entries.isNil], ?_⟩
      · intro base
        simp only [iterEntries]
        rw [hn2, he2]
        have := map_tails hgrp_ne hgrp_hd base
        simp only [List.append_nil] at this ⊢
        rw [this, ← List.map_append, hsplit]
      · intro p hp
        refine ⟨hp (k, v) (List.mem_cons_self ..), he4 p (fun kv h => hp kv (hrest_mem kv h))⟩
      · intro k' v' r' hk' hlt
        cases hk'
        rw [hwdef] at hlt
        have : ((k, v) :: r).drop grp.length ≠ [] := by
          intro e
          have := congrArg List.length e
          simp only [List.length_drop, List.length_nil] at this
          omega
        have := length_pos_of_isNil_false (he5 this)
        simp only [Entries.length]; omega

theorem nodeSpec_step (fuel : Nat) (hN : NodeSpec fuel) (hE : EntriesSpec fuel) : NodeSpec (fuel + 1) := by
  intro pfx kvs hf hs hb hlen
  match kvs, hf, hs, hb, hlen with
  | [], _, _, _, hlen =>
    rcases hlen with h | ⟨k, v, h, _⟩ <;> simp at h
  | ([], v0) :: rest, hf, hs, hb, hlen =>
    -- first key completed: terminator entry, then the entries of the other keys
    have hrest_ne : rest ≠ [] := by
      rcases hlen with h | ⟨k, v, h, hk⟩
      · intro e; subst e; simp at h
      · cases h; exact absurd rfl hk
    have hne := rest_nonempty_of_sorted hs
    obtain ⟨es, he1, he2, he3, _, he5, _⟩ := hE rest (by simp [kvSize] at hf; omega) hs.tail
      (hb.sub (fun x h => List.mem_cons_of_mem _ h)) hne
    have hnil := he5 hrest_ne
    have hb' : buildNode (fuel + 1) pfx (([], v0) :: rest) = some (.mk pfx (.leaf labelTerminator [] v0 es)) := by
      cases hr : rest with
      | nil => exact absurd hr hrest_ne
      | cons x xs =>
        simp only [buildNode]
        rw [← hr, any_isEmpty_false hne, he1]
        simp
    have hlen2 : 2 ≤ (Node.mk pfx (.leaf labelTerminator [] v0 es)).entries.length := by
      have := length_pos_of_isNil_false hnil
      simp only [Node.entries, Entries.length]; omega
    refine ⟨_, hb', ?_, ?_, fun _ => noSingleFF_of_length hlen2, fun _ => hlen2⟩
    · intro path
      simp only [iterNode, iterEntries, hnil, labelTerminator, beq_self_eq_true, Bool.not_false, Bool.and_self,
        if_true, he2, List.map_cons, List.append_nil]
    · unfold WFNode WFRow
      left
      exact ⟨rfl, rfl, hnil, he3⟩
  | (c :: k', v0) :: rest, hf, hs, hb, hlen =>
    have hne : ∀ kv ∈ (c :: k', v0) :: rest, kv.1 ≠ [] := by
      intro kv hkv
      rcases List.mem_cons.1 hkv with rfl | hkv
      · simp
      · intro e
        have := hs.head_lt kv hkv
        simp [e, keyLt_nil_right] at this
    have hw := scan_width (kvs := (c :: k', v0) :: rest) rfl hs hne
    simp only [List.headD_cons] at hw
    have hbn : buildNode (fuel + 1) pfx ((c :: k', v0) :: rest) =
        (if (scanGroup c (heads ((c :: k', v0) :: rest)) == ((c :: k', v0) :: rest).length
              && scanGroup c (heads ((c :: k', v0) :: rest)) != 1) = true then
          buildNode fuel (pfx ++ [c]) (tails ((c :: k', v0) :: rest))
        else (buildEntries fuel ((c :: k', v0) :: rest)).map (fun es => Node.mk pfx es)) := by
      simp only [buildNode]
      rw [any_isEmpty_false hne]
      simp
    by_cases hcomp : (scanGroup c (heads ((c :: k', v0) :: rest)) == ((c :: k', v0) :: rest).length
        && scanGroup c (heads ((c :: k', v0) :: rest)) != 1) = true
    · -- one-way node: compress into the prefix
      rw [if_pos hcomp] at hbn
      simp only [Bool.and_eq_true, beq_iff_eq, bne_iff_ne, ne_eq] at hcomp
      obtain ⟨hall, hn1⟩ := hcomp
      rw [hw] at hall hn1
      have hallc : ∀ kv ∈ (c :: k', v0) :: rest, hd kv = c := by
        intro kv hkv
        simpa using takeWhile_all _ _ hall kv hkv
      have hlen2 : 2 ≤ ((c :: k', v0) :: rest).length := by
        rw [hall] at hn1
        simp at hn1 ⊢
        cases rest with
        | nil => simp at hn1
        | cons _ _ => simp
      have hsz := kvSize_tails hne
      obtain ⟨n, hn1', hn2, hn3, _, hn4⟩ := hN (pfx ++ [c]) (tails ((c :: k', v0) :: rest))
        (by omega) (sorted_tails hs hne hallc) (bytesOK_tails hb) (Or.inl (by rw [tails_length]; exact hlen2))
      have hl2 := hn4 (by rw [tails_length]; exact hlen2)
      refine ⟨n, by rw [hbn, hn1'], ?_, hn3, fun _ => noSingleFF_of_length hl2, fun _ => hl2⟩
      intro path
      rw [hn2]
      have := map_tails hne hallc (path ++ pfx)
      simp only [List.append_assoc] at this ⊢
      exact this
    · -- a branching node (or a single key): the entries of its label groups
      rw [if_neg hcomp] at hbn
      obtain ⟨es, he1, he2, he3, _, he5, he6⟩ := hE ((c :: k', v0) :: rest) (by omega) hs hb hne
      have hnil := he5 (by simp)
      refine ⟨.mk pfx es, by rw [hbn, he1]; rfl, ?_, ?_, ?_, ?_⟩
      · intro path
        simp only [iterNode, he2, List.append_assoc]
      · unfold WFNode
        exact wfRow_of_wfEntries he3 hnil
      · intro hamb v e
        simp only [Node.entries] at e
        have h2 := he2 []
        rw [e] at h2
        simp [iterEntries, Entries.isNil] at h2
        obtain ⟨⟨⟨h21, h22⟩, h23⟩, h24⟩ := h2
        exact hamb v (by rw [← h21, h22, h23, h24])
      · intro hlen2
        simp only [Node.entries]
        apply he6 (c :: k') v0 rest rfl
        simp only [List.headD_cons]
        rw [← hw]
        simp only [Bool.and_eq_true, beq_iff_eq, bne_iff_ne, ne_eq, not_and, Decidable.not_not] at hcomp
        have hle := width_le ((c :: k', v0) :: rest) c
        rw [← hw] at hle
        rcases Nat.lt_or_ge (scanGroup c (heads ((c :: k', v0) :: rest))) ((c :: k', v0) :: rest).length with h | h
        · exact h
        · have := hcomp (by omega)
          omega

/-- the build specification holds for every amount of fuel -/
theorem build_spec_all (fuel : Nat) : NodeSpec fuel ∧ EntriesSpec fuel := by
  induction fuel with
  | zero =>
    constructor
    · intro pfx kvs hf; omega
    · intro kvs hf; omega
  | succ f ih => exact ⟨nodeSpec_step f ih.1 ih.2, entriesSpec_step f ih.1 ih.2⟩

/-! ### the top-level statement -/

/-- the inputs of `Build`: keys strictly increasing (sorted and distinct), every byte `< 256`, at
least one key, and not the key set {""} (for which the Go code panics, see `Neg`). -/
structure Buildable (kvs : List KV) : Prop where
  sorted : sortedKeys kvs = true
  bytes : bytesOK kvs = true
  nonempty : kvs ≠ []
  notOnlyEmptyKey : ∀ v, kvs ≠ [([], v)]

theorem Buildable.shape {kvs : List KV} (h : Buildable kvs) :
    2 ≤ kvs.length ∨ ∃ k v, kvs = [(k, v)] ∧ k ≠ [] := by
  match kvs, h with
  | [], h => exact absurd rfl h.nonempty
  | [(k, v)], h =>
    right
    refine ⟨k, v, rfl, ?_⟩
    intro e; subst e
    exact h.notOnlyEmptyKey v rfl
  | _ :: _ :: _, _ => left; simp

/-- everything the build specification gives for a buildable input -/
theorem build_spec {kvs : List KV} (h : Buildable kvs) :
    ∃ t, build kvs = some t ∧ iter t = kvs ∧ WFNode t ∧
      ((∀ v, kvs ≠ [([255], v)]) → NoSingleFF t.entries) := by
  obtain ⟨n, h1, h2, h3, h4, _⟩ := (build_spec_all (2 * kvSize kvs + 2)).1 [] kvs (Nat.le_refl _)
    ((sortedKeys_iff kvs).1 h.sorted) ((bytesOK_iff kvs).1 h.bytes) h.shape
  refine ⟨n, h1, ?_, h3, h4⟩
  have := h2 []
  simp only [List.nil_append] at this
  rw [iter, this]
  induction kvs with
  | nil => rfl
  | cons x xs ih => simp


end LinVerif.Lemmas.C20
