/-
C05: three ways the code could be (and, as seeded changes, was) rewritten that break the
property, as model functions. The Neg theorems in Props/C05 show on concrete histories that
each of them violates it — they document which structural facts the proofs rest on
(sequence read inside the critical section; a failed index-page switch fails the Put;
NewQueue restores the cursor from the last item even when everything is acknowledged).
-/
import LinVerif.Lemmas.C05Defs

namespace LinVerif.Queue.Mutant

/-- Put whose sequence number was read BEFORE the lock was taken (`seq` is passed in) -/
def putWithSeq (st : St) (m : Msg) (seq : Int) : St × PutRes :=
  put ⟨st.mem, { st.q with appended := seq - 1 }⟩ m

/-- Put whose index-page switch failed but was only logged: the item is stored through the
old index page object, `indexPageIndex` stays, the Put reports success -/
def putIdxSwitchLost (st : St) (m : Msg) : St × PutRes :=
  if m.len > dataPageSize then (st, .tooLarge)
  else
    let a := alloc st.mem st.q m.len
    let mem := writeData a.mem a.pg a.off m m.len
    let n := nextSeq a.q
    let io := (n % indexItemsPerPage) * indexItemLength
    let pgI := a.q.indexPageIndex
    let mem := setIndex mem pgI (io + queueDataPageIndexOffset) a.pg
    let mem := setIndex mem pgI (io + messageOffsetOffset) (a.off % u32)
    let mem := setIndex mem pgI (io + messageLengthOffset) (m.len % u32)
    let mem := setMeta mem queueAppendedSeqOffset (a.q.appended + 1)
    ({ mem := mem, q := { a.q with appended := a.q.appended + 1 } }, .ok (a.q.appended + 1))

/-- NewQueue that rewinds the write cursor to data page 0 / offset 0 when everything is
acknowledged -/
def openQDrained (mem : Mem) : St :=
  let app := mem.metaW queueAppendedSeqOffset
  let ak := mem.metaW queueAcknowledgedSeqOffset
  if mem.hasMeta ∧ app ≠ -1 ∧ app = ak then
    let ipg := app.toNat / indexItemsPerPage
    { mem := acquireData (acquireIndex mem ipg) 0,
      q := { appended := app, acked := ak, dataPageIndex := 0, indexPageIndex := ipg, messageOffset := 0 } }
  else openQ mem

end LinVerif.Queue.Mutant
