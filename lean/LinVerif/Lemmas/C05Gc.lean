/-
C05 helper lemmas, part 3b: `queue.GC` split into its atomic steps (acknowledged-sequence
read / index-item read / data truncation / index truncation), interleaved with complete
Puts and acks. `GcOK` is what the GC caller's local variables are known to satisfy between
its steps; it is preserved by Puts and acks, and it makes each truncation step safe.
-/
import LinVerif.Lemmas.C05Seq

namespace LinVerif.Queue

/-- data page ids are monotone in the sequence from sequence `a` on -/
def MonoFrom (st : St) (a : Int) : Prop :=
  ∀ n n' : Nat, a ≤ (n : Int) → n ≤ n' → (n' : Int) ≤ st.q.appended →
    (entry st.mem n).pg ≤ (entry st.mem n').pg

/-- every message from sequence `a` on lives in data page `b` or later -/
def BoundFrom (st : St) (a : Int) (b : Nat) : Prop :=
  ∀ n : Nat, a ≤ (n : Int) → (n : Int) ≤ st.q.appended → b ≤ (entry st.mem n).pg

def GcOK (st : St) : GcSt → Prop
  | .idle => True
  | .snapped a => 0 ≤ a ∧ a ≤ st.q.acked ∧ MonoFrom st a
  | .bounded a b => 0 ≤ a ∧ a ≤ st.q.acked ∧ BoundFrom st a b
  | .truncated a => 0 ≤ a ∧ a ≤ st.q.acked

/-- what a complete Put does to the index: only the item of the new sequence changes, and it
points at the cursor's page or a later one -/
theorem put_entries {st : St} (I : Inv st) (m : Msg) (hl : m.len ≤ dataPageSize) :
    (∀ n, n ≠ nextSeq st.q → entry (put st m).1.mem n = entry st.mem n) ∧
    st.q.dataPageIndex ≤ (entry (put st m).1.mem (nextSeq st.q)).pg := by
  rw [put_eq st m hl]
  have I1 := alloc_inv I.core 0 m rfl hl
  obtain ⟨I2, _⟩ := write_inv I1 0 m _ _ (setTh_same _ _ _)
  obtain ⟨_, _, _, e3⟩ := persist_inv I2 0 m _ _ (setTh_same _ _ _)
  simp only [alloc_nextSeq] at e3
  constructor
  · intro n hn
    dsimp only
    rw [entry_persistStores_ne _ _ _ _ _ _ (by simpa using hn), entry_writeData, alloc_entry]
  · dsimp only
    rw [e3]
    exact alloc_pg_ge _ _ _

theorem gcok_put {st : St} (I : Inv st) (m : Msg) (g : GcSt) (G : GcOK st g) : GcOK (put st m).1 g := by
  by_cases hl : m.len ≤ dataPageSize
  · obtain ⟨_, _, r3, r4, _, _⟩ := put_inv I m hl
    obtain ⟨hne, hge⟩ := put_entries I m hl
    have C := I.core
    have hap : -1 ≤ st.q.appended := Int.le_trans C.ackLo C.ackHi
    have hns := nextSeq_cast hap
    have hah := C.ackHi
    cases g with
    | idle => trivial
    | truncated a => exact ⟨G.1, by rw [r4]; exact G.2⟩
    | snapped a =>
      obtain ⟨g1, g2, g3⟩ := G
      refine ⟨g1, by rw [r4]; exact g2, ?_⟩
      intro n n' h1 h2 h3
      rw [r3] at h3
      by_cases e' : n' = nextSeq st.q
      · subst e'
        by_cases e : n = nextSeq st.q
        · subst e; exact Nat.le_refl _
        · rw [hne n e]
          have hcur := I.qs.base st.q.appended.toNat (by omega)
          have hm := g3 n st.q.appended.toNat h1 (by omega) (by omega)
          omega
      · rw [hne n (by omega), hne n' e']
        exact g3 n n' h1 h2 (by omega)
    | bounded a b =>
      obtain ⟨g1, g2, g3⟩ := G
      refine ⟨g1, by rw [r4]; exact g2, ?_⟩
      intro n h1 h2
      rw [r3] at h2
      by_cases e : n = nextSeq st.q
      · subst e
        have hcur := I.qs.base st.q.appended.toNat (by omega)
        have hb := g3 st.q.appended.toNat (by omega) (by omega)
        omega
      · rw [hne n e]; exact g3 n h1 (by omega)
  · have : (put st m).1 = st := by unfold put; rw [if_pos (by omega)]
    rw [this]; exact G

theorem gcok_ack {st : St} (I : Inv st) (s : Int) (g : GcSt) (G : GcOK st g) : GcOK (ack st s) g := by
  have hq : (ack st s).q.appended = st.q.appended ∧ st.q.acked ≤ (ack st s).q.acked ∧
      (∀ n, entry (ack st s).mem n = entry st.mem n) := by
    unfold ack; split
    · rename_i h; exact ⟨rfl, by dsimp only; omega, fun n => rfl⟩
    · exact ⟨rfl, Int.le_refl _, fun n => rfl⟩
  obtain ⟨q1, q2, q3⟩ := hq
  cases g with
  | idle => trivial
  | truncated a => exact ⟨G.1, by have := G.2; omega⟩
  | snapped a =>
    obtain ⟨g1, g2, g3⟩ := G
    refine ⟨g1, by omega, ?_⟩
    intro n n' h1 h2 h3
    rw [q3, q3]; exact g3 n n' h1 h2 (by omega)
  | bounded a b =>
    obtain ⟨g1, g2, g3⟩ := G
    refine ⟨g1, by omega, ?_⟩
    intro n h1 h2
    rw [q3]; exact g3 n h1 (by omega)

/-- GC step 1: the acknowledged sequence just read satisfies `GcOK` -/
theorem gc_snap_ok {st : St} (I : Inv st) (h : ¬ st.q.acked < 0) : GcOK st (.snapped st.q.acked) :=
  ⟨by omega, Int.le_refl _, fun n n' h1 h2 h3 => I.qs.mono n n' h1 h2 h3⟩

/-- GC step 2: the data page id read from the item of the snapshot sequence bounds every
message from that sequence on -/
theorem gc_read_ok {st : St} {a : Int} (G : GcOK st (.snapped a)) :
    GcOK st (.bounded a (entry st.mem a.toNat).pg) := by
  obtain ⟨g1, g2, g3⟩ := G
  exact ⟨g1, g2, fun n h1 h2 => g3 a.toNat n (by omega) (by omega) h2⟩

/-- GC step 3: truncating the data pages below the bound keeps every readable message -/
theorem gc_truncData_inv {st : St} (I : Inv st) {a : Int} {b : Nat} (G : GcOK st (.bounded a b)) :
    Inv ⟨truncateData st.mem b, st.q⟩ ∧ Pres st ⟨truncateData st.mem b, st.q⟩ ∧
    GcOK ⟨truncateData st.mem b, st.q⟩ (.truncated a) := by
  obtain ⟨g1, g2, g3⟩ := G
  have C := I.core
  have hah := C.ackHi
  have hap0 : 0 ≤ st.q.appended := by omega
  have hcur := I.qs.base st.q.appended.toNat (by omega)
  refine ⟨?_, ⟨Int.le_refl _, Int.le_refl _, ?_⟩, g1, g2⟩
  · apply frame_inv I _ b 0
    · rfl
    · rfl
    · intro n _ _; rfl
    · intro p hp hb
      simp only [truncateData, List.mem_filter, decide_eq_true_eq]
      exact ⟨hp, hb⟩
    · intro p hp _; exact hp
    · intro n hn; exact g3 n (by unfold Readable at hn; omega) hn.2
    · have := g3 st.q.appended.toNat (by omega) (by omega)
      omega
    · intro _ _; exact Nat.zero_le _
    · exact Or.inl (Nat.zero_le _)
  · intro n hn _
    dsimp only
    unfold content
    have he : entry (truncateData st.mem b) n = entry st.mem n := rfl
    rw [he]
    apply readBytes_congr
    intro i _
    have := g3 n (by unfold Readable at hn; omega) hn.2
    simp only [truncateData]
    rw [if_neg (by omega)]

/-- GC step 4: truncating the index pages below the snapshot sequence's page keeps every
readable message -/
theorem gc_truncIndex_inv {st : St} (I : Inv st) {a : Int} (G : GcOK st (.truncated a)) :
    Inv ⟨truncateIndex st.mem (a.toNat / indexItemsPerPage), st.q⟩ ∧
    Pres st ⟨truncateIndex st.mem (a.toNat / indexItemsPerPage), st.q⟩ := by
  obtain ⟨g1, g2⟩ := G
  have C := I.core
  have hent : ∀ n : Nat, st.q.acked ≤ (n : Int) →
      entry (truncateIndex st.mem (a.toNat / indexItemsPerPage)) n = entry st.mem n := by
    intro n hn
    have : ¬ (n / indexItemsPerPage < a.toNat / indexItemsPerPage) := by qomega
    simp only [entry, truncateIndex, if_neg this]
  refine ⟨?_, Int.le_refl _, Int.le_refl _, ?_⟩
  · apply frame_inv I _ 0 (a.toNat / indexItemsPerPage)
    · rfl
    · rfl
    · intro n h1 _; exact hent n h1
    · intro p hp _; exact hp
    · intro p hp hb
      simp only [truncateIndex, List.mem_filter, decide_eq_true_eq]
      exact ⟨hp, hb⟩
    · intro _ _; exact Nat.zero_le _
    · exact Nat.zero_le _
    · intro n hn; unfold Readable at hn; qomega
    · have hah := C.ackHi
      have hap := nextSeq_cast (Int.le_trans C.ackLo C.ackHi)
      by_cases hc : a.toNat / indexItemsPerPage ≤ st.q.indexPageIndex
      · exact Or.inl hc
      · right; qomega
  · intro n hn _
    dsimp only
    unfold content
    rw [hent n (by unfold Readable at hn; omega)]
    apply readBytes_congr
    intro i _; rfl

end LinVerif.Queue
