/-
Inductive invariant of the micro-step interleaving model (Model/FanOutMicro.lean) for the pinned
lock shape and reset-free schedules.
-/
import LinVerif.Model.FanOutMicro

set_option linter.unusedSimpArgs false
set_option linter.unusedVariables false

namespace LinVerif.FanOut.Micro
open LinVerif.FanOut

/-- the consumer has stored the consumed position of `k` but not yet written its meta page -/
def CPc.storing : CPc → Nat → Bool
  | .stored g _, k => g == k
  | _, _ => false

/-- the acker has stored the ack of `k` but not yet written its meta page -/
def APc.acking : APc → Nat → Bool
  | .stored g _, k => g == k
  | .loaded g _ _, k => g == k
  | .put1 g _, k => g == k
  | _, _ => false

def CInv (sh : Sh) : CPc → Prop
  | .read g h app => ∃ x, sh.grp g = some x ∧ h = x.consumed + 1 ∧ app ≤ sh.appended
  | .stored g h => ∃ x, sh.grp g = some x ∧ x.consumed = h
  | _ => True

def AInv (sh : Sh) : APc → Prop
  | .idle => True
  | .read g _ ts hs => ∃ x, sh.grp g = some x ∧ x.ack = ts ∧ x.consumed = hs
  | .stored g n => ∃ x, sh.grp g = some x ∧ x.ack = n
  | .loaded g n c => ∃ x, sh.grp g = some x ∧ x.ack = n ∧ x.consumed = c
  | .put1 g n => ∃ x, sh.grp g = some x ∧ x.ack = n

def SInv (sh : Sh) : SPc → Prop
  | .idle => True
  | .scan acc vis => acc ≤ sh.appended ∧ ∀ g, g ∈ vis → ∀ x, sh.grp g = some x → acc ≤ x.ack

structure Inv (ms : MState) : Prop where
  qlo : -1 ≤ ms.sh.qack
  qle : ms.sh.qack ≤ ms.sh.appended
  ord : ∀ g x, ms.sh.grp g = some x → ms.sh.qack ≤ x.ack ∧ x.ack ≤ x.consumed ∧ x.consumed ≤ ms.sh.appended
  nm : ∀ g x, ms.sh.grp g = some x → g ∈ ms.sh.names
  excl : ∀ k, ms.c.holds k = true → ms.a.holds Shape.pinned k = true → False
  ci : CInv ms.sh ms.c
  ai : AInv ms.sh ms.a
  si : SInv ms.sh ms.y
  wt : ∀ g x, ms.sh.grp g = some x → ∃ m, ms.sh.pg g = some m ∧
        (ms.c.storing g = false → m.consumed = x.consumed) ∧ (ms.a.acking g = false → m.ack = x.ack)
  ri : ms.r = .idle

theorem holds_of_storing {c : CPc} {k : Nat} (h : c.storing k = true) : c.holds k = true := by
  cases c <;> simp_all [CPc.storing, CPc.holds]

theorem holds_of_acking {a : APc} {k : Nat} (h : a.acking k = true) : a.holds Shape.pinned k = true := by
  cases a <;> simp_all [APc.acking, APc.holds, Shape.pinned]

/-- AInv only looks at the acker's own group -/
theorem AInv.setGrp_other {sh : Sh} {a : APc} (h : AInv sh a) (g : Nat) (x' : Group)
    (hne : a.holds Shape.pinned g = false) : AInv (sh.setGrp g x') a := by
  cases a with
  | idle => trivial
  | read g' n ts hs =>
    have : g' ≠ g := by simpa [APc.holds] using hne
    obtain ⟨x, hx, h1, h2⟩ := h
    exact ⟨x, by simp [Sh.setGrp, this, hx], h1, h2⟩
  | stored g' n =>
    have : g' ≠ g := by simpa [APc.holds, Shape.pinned] using hne
    obtain ⟨x, hx, h1⟩ := h
    exact ⟨x, by simp [Sh.setGrp, this, hx], h1⟩
  | loaded g' n c =>
    have : g' ≠ g := by simpa [APc.holds, Shape.pinned] using hne
    obtain ⟨x, hx, h1, h2⟩ := h
    exact ⟨x, by simp [Sh.setGrp, this, hx], h1, h2⟩
  | put1 g' n =>
    have : g' ≠ g := by simpa [APc.holds, Shape.pinned] using hne
    obtain ⟨x, hx, h1⟩ := h
    exact ⟨x, by simp [Sh.setGrp, this, hx], h1⟩

theorem CInv.setGrp_other {sh : Sh} {c : CPc} (h : CInv sh c) (g : Nat) (x' : Group)
    (hne : c.holds g = false) : CInv (sh.setGrp g x') c := by
  cases c with
  | idle => trivial
  | parked _ _ => trivial
  | woken _ => trivial
  | read g' hh app =>
    have : g' ≠ g := by simpa [CPc.holds] using hne
    obtain ⟨x, hx, h1, h2⟩ := h
    exact ⟨x, by simp [Sh.setGrp, this, hx], h1, h2⟩
  | stored g' hh =>
    have : g' ≠ g := by simpa [CPc.holds] using hne
    obtain ⟨x, hx, h1⟩ := h
    exact ⟨x, by simp [Sh.setGrp, this, hx], h1⟩

/-- CInv / AInv do not look at the meta pages; appended may grow -/
theorem CInv.mono {sh sh' : Sh} {c : CPc} (h : CInv sh c) (hg : sh'.grp = sh.grp) (ha : sh.appended ≤ sh'.appended) :
    CInv sh' c := by
  cases c with
  | idle => trivial
  | parked _ _ => trivial
  | woken _ => trivial
  | read g' hh app =>
    obtain ⟨x, hx, h1, h2⟩ := h
    exact ⟨x, by rw [hg]; exact hx, h1, by omega⟩
  | stored g' hh =>
    obtain ⟨x, hx, h1⟩ := h
    exact ⟨x, by rw [hg]; exact hx, h1⟩

theorem AInv.mono {sh sh' : Sh} {a : APc} (h : AInv sh a) (hg : sh'.grp = sh.grp) : AInv sh' a := by
  cases a with
  | idle => trivial
  | read g' n ts hs => obtain ⟨x, hx, h1⟩ := h; exact ⟨x, by rw [hg]; exact hx, h1⟩
  | stored g' n => obtain ⟨x, hx, h1⟩ := h; exact ⟨x, by rw [hg]; exact hx, h1⟩
  | loaded g' n c => obtain ⟨x, hx, h1⟩ := h; exact ⟨x, by rw [hg]; exact hx, h1⟩
  | put1 g' n => obtain ⟨x, hx, h1⟩ := h; exact ⟨x, by rw [hg]; exact hx, h1⟩

theorem SInv.mono {sh sh' : Sh} {y : SPc} (h : SInv sh y) (ha : sh.appended ≤ sh'.appended)
    (hg : ∀ g x', sh'.grp g = some x' → ∃ x, sh.grp g = some x ∧ x.ack ≤ x'.ack) : SInv sh' y := by
  cases y with
  | idle => trivial
  | scan acc vis =>
    obtain ⟨h1, h2⟩ := h
    refine ⟨by omega, fun g hgv x' hx' => ?_⟩
    obtain ⟨x, hx, hle⟩ := hg g x' hx'
    have := h2 g hgv x hx
    omega

theorem all_contains {names vis : List Nat} (h : names.all (fun k => vis.contains k) = true) {g : Nat}
    (hg : g ∈ names) : g ∈ vis := by
  rw [List.all_eq_true] at h
  have := h g hg
  simpa using this

/-- the invariant is preserved by every enabled micro-step of the reset-free alphabet, pinned shape -/
theorem Inv.step {ms ms' : MState} {o : MOp} (hi : Inv ms) (hr : o.isReset = false)
    (h : mstep Shape.pinned ms o = some ms') : Inv ms' := by
  have hrh : ∀ k, ms.r.holds k = false := by intro k; rw [hi.ri]; rfl
  cases o with
  | rQueue n => cases hr
  | rSeq1 g => cases hr
  | rSeq2 => cases hr
  | rUnlock => cases hr
  | cLoad g =>
    simp only [mstep] at h
    split at h
    · rename_i x hc hx
      cases h
      exact ⟨hi.qlo, hi.qle, hi.ord, hi.nm, by intro k hk; simp [CPc.holds] at hk, trivial, hi.ai, hi.si,
        by
          intro k x hk
          obtain ⟨m, hm, h1, h2⟩ := hi.wt k x hk
          exact ⟨m, hm, fun _ => h1 (by rw [hc]; rfl), h2⟩, hi.ri⟩
    · cases h
  | cWake =>
    simp only [mstep] at h
    split at h
    · rename_i g head hc
      split at h
      · rename_i x hx
        have hwt : ∀ (c' : CPc), (∀ k, c'.storing k = false) → ∀ k x, ms.sh.grp k = some x → ∃ m, ms.sh.pg k = some m ∧
            (c'.storing k = false → m.consumed = x.consumed) ∧ (ms.a.acking k = false → m.ack = x.ack) := by
          intro c' _ k x hk
          obtain ⟨m, hm, h1, h2⟩ := hi.wt k x hk
          exact ⟨m, hm, fun _ => h1 (by rw [hc]; rfl), h2⟩
        split at h
        · cases h
          exact ⟨hi.qlo, hi.qle, hi.ord, hi.nm, by intro k hk; simp [CPc.holds] at hk, trivial, hi.ai, hi.si,
            hwt _ (fun _ => rfl), hi.ri⟩
        · split at h
          · cases h
            exact ⟨hi.qlo, hi.qle, hi.ord, hi.nm, by intro k hk; simp [CPc.holds] at hk, trivial, hi.ai, hi.si,
              hwt _ (fun _ => rfl), hi.ri⟩
          · cases h
      · cases h
    · cases h
  | cLock =>
    simp only [mstep] at h
    split at h
    · rename_i g hc
      split at h
      · rename_i x hx
        split at h
        · cases h
        · rename_i hfree
          cases h
          simp only [Bool.or_eq_true, not_or, Bool.not_eq_true] at hfree
          refine ⟨hi.qlo, hi.qle, hi.ord, hi.nm, ?_, ⟨x, hx, rfl, Int.le_refl _⟩, hi.ai, hi.si, ?_, hi.ri⟩
          · intro k hk hak
            have : g = k := by simpa [CPc.holds] using hk
            subst this
            rw [hfree.1] at hak; cases hak
          · intro k x' hk
            obtain ⟨m, hm, h1, h2⟩ := hi.wt k x' hk
            exact ⟨m, hm, fun _ => h1 (by rw [hc]; rfl), h2⟩
      · cases h
    · cases h
  | cStore =>
    simp only [mstep] at h
    split at h
    · rename_i g hh app hc
      split at h
      · rename_i x hx
        have hci := hi.ci
        rw [hc] at hci
        obtain ⟨x0, hx0, hh0, happ⟩ := hci
        rw [hx] at hx0; cases hx0
        have hox := hi.ord g x hx
        have hnoa : ms.a.holds Shape.pinned g = false := by
          cases hah : ms.a.holds Shape.pinned g with
          | false => rfl
          | true => exact absurd hah (fun hah => hi.excl g (by rw [hc]; simp [CPc.holds]) hah)
        split at h
        · rename_i hle
          cases h
          refine ⟨hi.qlo, hi.qle, ?_, ?_, ?_, ⟨{ x with consumed := hh }, by simp [Sh.setGrp], rfl⟩, hi.ai.setGrp_other g _ hnoa, ?_, ?_, hi.ri⟩
          · intro k y hk
            by_cases hkg : k = g
            · subst hkg
              simp only [Sh.setGrp, if_true] at hk
              cases hk
              exact ⟨hox.1, by show x.ack ≤ hh; omega, by show hh ≤ ms.sh.appended; omega⟩
            · simp only [Sh.setGrp, hkg, if_false] at hk
              exact hi.ord k y hk
          · intro k y hk
            by_cases hkg : k = g
            · subst hkg; exact hi.nm k x hx
            · simp only [Sh.setGrp, hkg, if_false] at hk
              exact hi.nm k y hk
          · intro k hk hak
            have : g = k := by simpa [CPc.holds] using hk
            subst this
            rw [hnoa] at hak; cases hak
          · refine hi.si.mono (Int.le_refl _) ?_
            intro k y hk
            by_cases hkg : k = g
            · subst hkg
              simp only [Sh.setGrp, if_true] at hk
              cases hk
              exact ⟨x, hx, Int.le_refl _⟩
            · simp only [Sh.setGrp, hkg, if_false] at hk
              exact ⟨y, hk, Int.le_refl _⟩
          · intro k y hk
            by_cases hkg : k = g
            · subst hkg
              simp only [Sh.setGrp, if_true] at hk
              cases hk
              obtain ⟨m, hm, h1, h2⟩ := hi.wt k x hx
              refine ⟨m, hm, fun hf => ?_, h2⟩
              simp [CPc.storing] at hf
            · simp only [Sh.setGrp, hkg, if_false] at hk
              obtain ⟨m, hm, h1, h2⟩ := hi.wt k y hk
              exact ⟨m, hm, fun _ => h1 (by rw [hc]; rfl), h2⟩
        · cases h
          refine ⟨hi.qlo, hi.qle, hi.ord, hi.nm, by intro k hk; simp [CPc.holds] at hk, trivial, hi.ai, hi.si, ?_, hi.ri⟩
          intro k y hk
          obtain ⟨m, hm, h1, h2⟩ := hi.wt k y hk
          exact ⟨m, hm, fun _ => h1 (by rw [hc]; rfl), h2⟩
      · cases h
    · cases h
  | cPut =>
    simp only [mstep] at h
    split at h
    · rename_i g hh hc
      split at h
      · rename_i m hm
        cases h
        have hci := hi.ci
        rw [hc] at hci
        obtain ⟨x0, hx0, hh0⟩ := hci
        refine ⟨hi.qlo, hi.qle, hi.ord, hi.nm, by intro k hk; simp [CPc.holds] at hk, trivial,
          hi.ai.mono rfl, hi.si.mono (Int.le_refl _) (fun k y hk => ⟨y, hk, Int.le_refl _⟩), ?_, hi.ri⟩
        intro k y hk
        have hk' : ms.sh.grp k = some y := hk
        by_cases hkg : k = g
        · subst hkg
          rw [hx0] at hk'; cases hk'
          obtain ⟨m', hm', h1, h2⟩ := hi.wt k x0 hx0
          rw [hm] at hm'; cases hm'
          exact ⟨{ m with consumed := hh }, by simp [Sh.setPg], fun _ => hh0.symm, h2⟩
        · obtain ⟨m', hm', h1, h2⟩ := hi.wt k y hk'
          exact ⟨m', by simp [Sh.setPg, hkg, hm'], fun _ => h1 (by rw [hc]; simp [CPc.storing]; exact fun e => hkg e.symm), h2⟩
      · cases h
    · cases h
  | aLock g n =>
    simp only [mstep] at h
    split at h
    · rename_i x ha hx
      split at h
      · cases h
      · rename_i hfree
        cases h
        simp only [Bool.or_eq_true, not_or, Bool.not_eq_true] at hfree
        refine ⟨hi.qlo, hi.qle, hi.ord, hi.nm, ?_, hi.ci, ⟨x, hx, rfl, rfl⟩, hi.si, ?_, hi.ri⟩
        · intro k hk hak
          have : g = k := by simpa [APc.holds] using hak
          subst this
          rw [hfree.1] at hk; cases hk
        · intro k y hk
          obtain ⟨m, hm, h1, h2⟩ := hi.wt k y hk
          exact ⟨m, hm, h1, fun _ => h2 (by rw [ha]; rfl)⟩
    · cases h
  | aStore =>
    simp only [mstep] at h
    split at h
    · rename_i g n ts hs ha
      split at h
      · rename_i x hx
        have hai := hi.ai
        rw [ha] at hai
        obtain ⟨x0, hx0, hts, hhs⟩ := hai
        rw [hx] at hx0; cases hx0
        have hox := hi.ord g x hx
        have hnoc : ms.c.holds g = false := by
          cases hch : ms.c.holds g with
          | false => rfl
          | true => exact absurd hch (fun hch => hi.excl g hch (by rw [ha]; simp [APc.holds]))
        split at h
        · rename_i hwin
          cases h
          refine ⟨hi.qlo, hi.qle, ?_, ?_, ?_, hi.ci.setGrp_other g _ hnoc, ⟨{ x with ack := n }, by simp [Sh.setGrp], rfl⟩, ?_, ?_, hi.ri⟩
          · intro k y hk
            by_cases hkg : k = g
            · subst hkg
              simp only [Sh.setGrp, if_true] at hk
              cases hk
              exact ⟨by show ms.sh.qack ≤ n; omega, by show n ≤ x.consumed; omega, hox.2.2⟩
            · simp only [Sh.setGrp, hkg, if_false] at hk
              exact hi.ord k y hk
          · intro k y hk
            by_cases hkg : k = g
            · subst hkg; exact hi.nm k x hx
            · simp only [Sh.setGrp, hkg, if_false] at hk
              exact hi.nm k y hk
          · intro k hk hak
            have : g = k := by simpa [APc.holds, Shape.pinned] using hak
            subst this
            rw [hnoc] at hk; cases hk
          · refine hi.si.mono (Int.le_refl _) ?_
            intro k y hk
            by_cases hkg : k = g
            · subst hkg
              simp only [Sh.setGrp, if_true] at hk
              cases hk
              exact ⟨x, hx, by show x.ack ≤ n; omega⟩
            · simp only [Sh.setGrp, hkg, if_false] at hk
              exact ⟨y, hk, Int.le_refl _⟩
          · intro k y hk
            by_cases hkg : k = g
            · subst hkg
              simp only [Sh.setGrp, if_true] at hk
              cases hk
              obtain ⟨m, hm, h1, h2⟩ := hi.wt k x hx
              exact ⟨m, hm, h1, fun hf => by simp [APc.acking] at hf⟩
            · simp only [Sh.setGrp, hkg, if_false] at hk
              obtain ⟨m, hm, h1, h2⟩ := hi.wt k y hk
              exact ⟨m, hm, h1, fun _ => h2 (by rw [ha]; rfl)⟩
        · cases h
          refine ⟨hi.qlo, hi.qle, hi.ord, hi.nm, by intro k _ hk; simp [APc.holds] at hk, hi.ci, trivial, hi.si, ?_, hi.ri⟩
          intro k y hk
          obtain ⟨m, hm, h1, h2⟩ := hi.wt k y hk
          exact ⟨m, hm, h1, fun _ => h2 (by rw [ha]; rfl)⟩
      · cases h
    · cases h
  | aLoadC =>
    simp only [mstep] at h
    split at h
    · rename_i g n ha
      split at h
      · rename_i x hx
        cases h
        have hai := hi.ai
        rw [ha] at hai
        obtain ⟨x0, hx0, hn⟩ := hai
        rw [hx] at hx0; cases hx0
        refine ⟨hi.qlo, hi.qle, hi.ord, hi.nm, ?_, hi.ci, ⟨x, hx, hn, rfl⟩, hi.si, ?_, hi.ri⟩
        · intro k hk hak
          exact hi.excl k hk (by rw [ha]; simpa [APc.holds] using hak)
        · intro k y hk
          obtain ⟨m, hm, h1, h2⟩ := hi.wt k y hk
          exact ⟨m, hm, h1, fun hf => h2 (by rw [ha]; simpa [APc.acking] using hf)⟩
      · cases h
    · cases h
  | aPut1 =>
    simp only [mstep] at h
    split at h
    · rename_i g n c ha
      split at h
      · rename_i m hm
        cases h
        have hai := hi.ai
        rw [ha] at hai
        obtain ⟨x0, hx0, hn, hcc⟩ := hai
        have hnoc : ms.c.holds g = false := by
          cases hch : ms.c.holds g with
          | false => rfl
          | true => exact absurd hch (fun hch => hi.excl g hch (by rw [ha]; simp [APc.holds, Shape.pinned]))
        refine ⟨hi.qlo, hi.qle, hi.ord, hi.nm, ?_, hi.ci.mono rfl (Int.le_refl _), ⟨x0, hx0, hn⟩,
          hi.si.mono (Int.le_refl _) (fun k y hk => ⟨y, hk, Int.le_refl _⟩), ?_, hi.ri⟩
        · intro k hk hak
          exact hi.excl k hk (by rw [ha]; simpa [APc.holds] using hak)
        · intro k y hk
          have hk' : ms.sh.grp k = some y := hk
          by_cases hkg : k = g
          · subst hkg
            rw [hx0] at hk'; cases hk'
            obtain ⟨m', hm', h1, h2⟩ := hi.wt k x0 hx0
            rw [hm] at hm'; cases hm'
            exact ⟨{ m with consumed := c }, by simp [Sh.setPg], fun _ => hcc.symm, fun hf => by simp [APc.acking] at hf⟩
          · obtain ⟨m', hm', h1, h2⟩ := hi.wt k y hk'
            exact ⟨m', by simp [Sh.setPg, hkg, hm'], h1,
              fun _ => h2 (by rw [ha]; simp [APc.acking]; exact fun e => hkg e.symm)⟩
      · cases h
    · cases h
  | aPut2 =>
    simp only [mstep] at h
    split at h
    · rename_i g n ha
      split at h
      · rename_i x m hx hm
        cases h
        have hnoc : ms.c.holds g = false := by
          cases hch : ms.c.holds g with
          | false => rfl
          | true => exact absurd hch (fun hch => hi.excl g hch (by rw [ha]; simp [APc.holds, Shape.pinned]))
        refine ⟨hi.qlo, hi.qle, hi.ord, hi.nm, by intro k _ hk; simp [APc.holds] at hk, hi.ci.mono rfl (Int.le_refl _),
          trivial, hi.si.mono (Int.le_refl _) (fun k y hk => ⟨y, hk, Int.le_refl _⟩), ?_, hi.ri⟩
        intro k y hk
        have hk' : ms.sh.grp k = some y := hk
        by_cases hkg : k = g
        · subst hkg
          rw [hx] at hk'; cases hk'
          obtain ⟨m', hm', h1, h2⟩ := hi.wt k x hx
          rw [hm] at hm'; cases hm'
          exact ⟨{ m with ack := x.ack }, by simp [Sh.setPg], h1, fun _ => rfl⟩
        · obtain ⟨m', hm', h1, h2⟩ := hi.wt k y hk'
          exact ⟨m', by simp [Sh.setPg, hkg, hm'], h1,
            fun _ => h2 (by rw [ha]; simp [APc.acking]; exact fun e => hkg e.symm)⟩
      · cases h
    · cases h
  | sLock =>
    simp only [mstep] at h
    split at h
    · split at h
      · cases h; exact hi
      · cases h
        exact ⟨hi.qlo, hi.qle, hi.ord, hi.nm, hi.excl, hi.ci, hi.ai, ⟨Int.le_refl _, by intro g hg; cases hg⟩, hi.wt, hi.ri⟩
    · cases h
  | sVisit g =>
    simp only [mstep] at h
    split at h
    · rename_i acc vis hy
      split at h
      · split at h
        · rename_i x hx
          cases h
          have hsi := hi.si
          rw [hy] at hsi
          obtain ⟨h1, h2⟩ := hsi
          refine ⟨hi.qlo, hi.qle, hi.ord, hi.nm, hi.excl, hi.ci, hi.ai, ⟨?_, ?_⟩, hi.wt, hi.ri⟩
          · show (if x.ack < acc then x.ack else acc) ≤ ms.sh.appended
            split <;> omega
          · intro k hk y hky
            show (if x.ack < acc then x.ack else acc) ≤ y.ack
            rcases List.mem_cons.mp hk with e | e
            · subst e
              have hky' : ms.sh.grp k = some y := hky
              rw [hx] at hky'; cases hky'
              split <;> omega
            · have := h2 k e y hky
              split <;> omega
        · cases h
      · cases h
    · cases h
  | sSet =>
    simp only [mstep] at h
    split at h
    · rename_i acc vis hy
      split at h
      · rename_i hall
        cases h
        have hsi := hi.si
        rw [hy] at hsi
        obtain ⟨h1, h2⟩ := hsi
        by_cases hacc : acc ≥ 0
        · by_cases hmove : acc > ms.sh.qack ∧ acc ≤ ms.sh.appended
          · have hsh : (if acc ≥ 0 then ms.sh.setAck acc else ms.sh) = { ms.sh with qack := acc } := by
              simp [hacc, Sh.setAck, hmove]
            rw [hsh]
            refine ⟨by show -1 ≤ acc; omega, hmove.2, ?_, hi.nm, hi.excl, hi.ci.mono rfl (Int.le_refl _), hi.ai.mono rfl,
              trivial, hi.wt, hi.ri⟩
            intro k y hk
            have hk' : ms.sh.grp k = some y := hk
            have := h2 k (all_contains hall (hi.nm k y hk')) y hk'
            have ho := hi.ord k y hk'
            exact ⟨this, ho.2.1, ho.2.2⟩
          · have hsh : (if acc ≥ 0 then ms.sh.setAck acc else ms.sh) = ms.sh := by
              simp [hacc, Sh.setAck, hmove]
            rw [hsh]
            exact ⟨hi.qlo, hi.qle, hi.ord, hi.nm, hi.excl, hi.ci, hi.ai, trivial, hi.wt, hi.ri⟩
        · have hsh : (if acc ≥ 0 then ms.sh.setAck acc else ms.sh) = ms.sh := by simp [hacc]
          rw [hsh]
          exact ⟨hi.qlo, hi.qle, hi.ord, hi.nm, hi.excl, hi.ci, hi.ai, trivial, hi.wt, hi.ri⟩
      · cases h
    · cases h
  | put =>
    simp only [mstep] at h
    cases h
    refine ⟨hi.qlo, by show ms.sh.qack ≤ ms.sh.appended + 1; have := hi.qle; omega, ?_, hi.nm, hi.excl,
      hi.ci.mono rfl (by show ms.sh.appended ≤ ms.sh.appended + 1; omega), hi.ai.mono rfl,
      hi.si.mono (by show ms.sh.appended ≤ ms.sh.appended + 1; omega) (fun k y hk => ⟨y, hk, Int.le_refl _⟩), hi.wt, hi.ri⟩
    intro k y hk
    have := hi.ord k y hk
    exact ⟨this.1, this.2.1, by show y.consumed ≤ ms.sh.appended + 1; omega⟩
  | wSet g n =>
    simp only [mstep] at h
    split at h
    · rename_i x m hx hm
      split at h
      · cases h
      · rename_i hfree
        split at h
        · rename_i hwin
          cases h
          simp only [Bool.or_eq_true, not_or, Bool.not_eq_true] at hfree
          obtain ⟨⟨hfc, hfa⟩, _⟩ := hfree
          have hox := hi.ord g x hx
          refine ⟨hi.qlo, hi.qle, ?_, ?_, hi.excl, (hi.ci.setGrp_other g _ hfc).mono rfl (Int.le_refl _),
            (hi.ai.setGrp_other g _ hfa).mono rfl, ?_, ?_, hi.ri⟩
          · intro k y hk
            by_cases hkg : k = g
            · subst hkg
              simp only [Sh.setPg, Sh.setGrp, if_true] at hk
              cases hk
              exact ⟨hox.1, hwin.1, hwin.2⟩
            · simp only [Sh.setPg, Sh.setGrp, hkg, if_false] at hk
              exact hi.ord k y hk
          · intro k y hk
            by_cases hkg : k = g
            · subst hkg; exact hi.nm k x hx
            · simp only [Sh.setPg, Sh.setGrp, hkg, if_false] at hk
              exact hi.nm k y hk
          · refine hi.si.mono (Int.le_refl _) ?_
            intro k y hk
            by_cases hkg : k = g
            · subst hkg
              simp only [Sh.setPg, Sh.setGrp, if_true] at hk
              cases hk
              exact ⟨x, hx, Int.le_refl _⟩
            · simp only [Sh.setPg, Sh.setGrp, hkg, if_false] at hk
              exact ⟨y, hk, Int.le_refl _⟩
          · intro k y hk
            by_cases hkg : k = g
            · subst hkg
              simp only [Sh.setPg, Sh.setGrp, if_true] at hk
              cases hk
              obtain ⟨m', hm', h1, h2⟩ := hi.wt k x hx
              rw [hm] at hm'; cases hm'
              exact ⟨{ m with consumed := n }, by simp [Sh.setPg], fun _ => rfl, h2⟩
            · simp only [Sh.setPg, Sh.setGrp, hkg, if_false] at hk
              obtain ⟨m', hm', h1, h2⟩ := hi.wt k y hk
              exact ⟨m', by simp [Sh.setPg, Sh.setGrp, hkg, hm'], h1, h2⟩
        · cases h
    · cases h

/-- ... hence by every enabled reset-free schedule -/
theorem Inv.run : ∀ (ops : List MOp) (ms ms' : MState), Inv ms → (∀ o ∈ ops, o.isReset = false) →
    mrun Shape.pinned ms ops = some ms' → Inv ms'
  | [], ms, ms', hi, _, h => by simp only [mrun, Option.some.injEq] at h; exact h ▸ hi
  | o :: os, ms, ms', hi, hr, h => by
    simp only [mrun] at h
    split at h
    · cases h
    · rename_i ms1 h1
      exact Inv.run os ms1 ms' (hi.step (hr o List.mem_cons_self) h1) (fun o' ho' => hr o' (List.mem_cons_of_mem _ ho')) h

/-! ### what one step does to the observable positions -/

/-- consumed positions: only `cStore` writes one (reset-free alphabet, ANY lock shape), and then it
moves the group's position from `h - 1` to `h`, where `h` is what consume() loaded under the lock -/
theorem consumed_step (sp : Shape) {ms ms' : MState} {o : MOp} (hr : o.isReset = false)
    (h : mstep sp ms o = some ms') (k : Nat) :
    (ms'.sh.grp k).map (·.consumed) = (ms.sh.grp k).map (·.consumed) ∨
    (o = .cStore ∧ ∃ hh app x, ms.c = .read k hh app ∧ ms.sh.grp k = some x ∧ hh ≤ app ∧
      ms'.sh.grp k = some { x with consumed := hh } ∧ ms'.c = .stored k hh) ∨
    (∃ n x, o = .wSet k n ∧ ms.sh.grp k = some x ∧ x.ack ≤ n ∧ n ≤ ms.sh.appended ∧
      ms'.sh.grp k = some { x with consumed := n }) := by
  cases o with
  | wSet g n =>
    simp only [mstep] at h
    split at h
    · rename_i x m hx hm
      split at h
      · cases h
      · split at h
        · rename_i hwin
          cases h
          by_cases hkg : k = g
          · subst hkg
            exact Or.inr (Or.inr ⟨n, x, rfl, hx, hwin.1, hwin.2, by simp [Sh.setPg, Sh.setGrp]⟩)
          · left; simp [Sh.setPg, Sh.setGrp, hkg]
        · cases h
    · cases h
  | rQueue n => cases hr
  | rSeq1 g => cases hr
  | rSeq2 => cases hr
  | rUnlock => cases hr
  | cStore =>
    simp only [mstep] at h
    split at h
    · rename_i g hh app hc
      split at h
      · rename_i x hx
        split at h
        · rename_i hle
          cases h
          by_cases hkg : k = g
          · subst hkg
            exact Or.inr (Or.inl ⟨rfl, hh, app, x, hc, hx, hle, by simp [Sh.setGrp], rfl⟩)
          · left; simp [Sh.setGrp, hkg]
        · cases h; left; rfl
      · cases h
    · cases h
  | aStore =>
    left
    simp only [mstep] at h
    split at h
    · rename_i g n ts hs ha
      split at h
      · rename_i x hx
        split at h
        · cases h
          by_cases hkg : k = g
          · subst hkg; simp [Sh.setGrp, hx]
          · simp [Sh.setGrp, hkg]
        · cases h; rfl
      · cases h
    · cases h
  | cLoad g => left; simp only [mstep] at h; split at h <;> cases h; rfl
  | cWake =>
    left; simp only [mstep] at h
    split at h
    · split at h
      · split at h
        · cases h; rfl
        · split at h <;> cases h; rfl
      · cases h
    · cases h
  | cLock =>
    left; simp only [mstep] at h
    split at h
    · split at h
      · split at h <;> cases h; rfl
      · cases h
    · cases h
  | cPut =>
    left; simp only [mstep] at h
    split at h
    · split at h <;> cases h; rfl
    · cases h
  | aLock g n =>
    left; simp only [mstep] at h
    split at h
    · split at h <;> cases h; rfl
    · cases h
  | aLoadC =>
    left; simp only [mstep] at h
    split at h
    · split at h <;> cases h; rfl
    · cases h
  | aPut1 =>
    left; simp only [mstep] at h
    split at h
    · split at h <;> cases h; rfl
    · cases h
  | aPut2 =>
    left; simp only [mstep] at h
    split at h
    · split at h <;> cases h; rfl
    · cases h
  | sLock =>
    left; simp only [mstep] at h
    split at h
    · split at h <;> cases h <;> rfl
    · cases h
  | sVisit g =>
    left; simp only [mstep] at h
    split at h
    · split at h
      · split at h <;> cases h; rfl
      · cases h
    · cases h
  | sSet =>
    left; simp only [mstep] at h
    split at h
    · split at h
      · cases h
        show (Sh.grp (if _ then _ else _) k).map _ = _
        split
        · unfold Sh.setAck; split <;> rfl
        · rfl
      · cases h
    · cases h
  | put => left; simp only [mstep] at h; cases h; rfl

/-- acknowledged positions: only `aStore` writes one (reset-free alphabet, ANY lock shape, the rewinder
included), and then to the `n` the acker tested against the `ts` / `hs` it loaded under the read lock -/
theorem ack_step (sp : Shape) {ms ms' : MState} {o : MOp} (hr : o.isReset = false)
    (h : mstep sp ms o = some ms') (k : Nat) :
    (ms'.sh.grp k).map (·.ack) = (ms.sh.grp k).map (·.ack) ∨
    (o = .aStore ∧ ∃ n ts hs x, ms.a = .read k n ts hs ∧ ms.sh.grp k = some x ∧ ts ≤ n ∧ n ≤ hs ∧
      ms'.sh.grp k = some { x with ack := n }) := by
  cases o with
  | rQueue n => cases hr
  | rSeq1 g => cases hr
  | rSeq2 => cases hr
  | rUnlock => cases hr
  | aStore =>
    simp only [mstep] at h
    split at h
    · rename_i g n ts hs ha
      split at h
      · rename_i x hx
        split at h
        · rename_i hwin
          cases h
          by_cases hkg : k = g
          · subst hkg
            exact Or.inr ⟨rfl, n, ts, hs, x, ha, hx, hwin.1, hwin.2, by simp [Sh.setGrp]⟩
          · left; simp [Sh.setGrp, hkg]
        · cases h; left; rfl
      · cases h
    · cases h
  | cStore =>
    left
    simp only [mstep] at h
    split at h
    · rename_i g hh app hc
      split at h
      · rename_i x hx
        split at h
        · cases h
          by_cases hkg : k = g
          · subst hkg; simp [Sh.setGrp, hx]
          · simp [Sh.setGrp, hkg]
        · cases h; rfl
      · cases h
    · cases h
  | wSet g n =>
    left
    simp only [mstep] at h
    split at h
    · rename_i x m hx hm
      split at h
      · cases h
      · split at h
        · cases h
          by_cases hkg : k = g
          · subst hkg; simp [Sh.setPg, Sh.setGrp, hx]
          · simp [Sh.setPg, Sh.setGrp, hkg]
        · cases h
    · cases h
  | cLoad g => left; simp only [mstep] at h; split at h <;> cases h; rfl
  | cWake =>
    left; simp only [mstep] at h
    split at h
    · split at h
      · split at h
        · cases h; rfl
        · split at h <;> cases h; rfl
      · cases h
    · cases h
  | cLock =>
    left; simp only [mstep] at h
    split at h
    · split at h
      · split at h <;> cases h; rfl
      · cases h
    · cases h
  | cPut =>
    left; simp only [mstep] at h
    split at h
    · split at h <;> cases h; rfl
    · cases h
  | aLock g n =>
    left; simp only [mstep] at h
    split at h
    · split at h <;> cases h; rfl
    · cases h
  | aLoadC =>
    left; simp only [mstep] at h
    split at h
    · split at h <;> cases h; rfl
    · cases h
  | aPut1 =>
    left; simp only [mstep] at h
    split at h
    · split at h <;> cases h; rfl
    · cases h
  | aPut2 =>
    left; simp only [mstep] at h
    split at h
    · split at h <;> cases h; rfl
    · cases h
  | sLock =>
    left; simp only [mstep] at h
    split at h
    · split at h <;> cases h <;> rfl
    · cases h
  | sVisit g =>
    left; simp only [mstep] at h
    split at h
    · split at h
      · split at h <;> cases h; rfl
      · cases h
    · cases h
  | sSet =>
    left; simp only [mstep] at h
    split at h
    · split at h
      · cases h
        show (Sh.grp (if _ then _ else _) k).map _ = _
        split
        · unfold Sh.setAck; split <;> rfl
        · rfl
      · cases h
    · cases h
  | put => left; simp only [mstep] at h; cases h; rfl

/-- the queue ack: only `sSet` moves it, and only upwards (reset-free alphabet, any lock shape) -/
theorem qack_step (sp : Shape) {ms ms' : MState} {o : MOp} (hr : o.isReset = false)
    (h : mstep sp ms o = some ms') :
    ms'.sh.qack = ms.sh.qack ∨ (o = .sSet ∧ ms.sh.qack < ms'.sh.qack ∧ ms'.y = .idle) := by
  cases o with
  | wSet g n =>
    left; simp only [mstep] at h
    split at h
    · split at h
      · cases h
      · split at h <;> cases h; rfl
    · cases h
  | rQueue n => cases hr
  | rSeq1 g => cases hr
  | rSeq2 => cases hr
  | rUnlock => cases hr
  | sSet =>
    simp only [mstep] at h
    split at h
    · rename_i acc vis hy
      split at h
      · cases h
        by_cases hacc : acc ≥ 0
        · by_cases hmove : acc > ms.sh.qack ∧ acc ≤ ms.sh.appended
          · right
            refine ⟨rfl, ?_, rfl⟩
            show ms.sh.qack < (Sh.qack (if _ then _ else _))
            simp [hacc, Sh.setAck, hmove]
          · left
            show (Sh.qack (if _ then _ else _)) = _
            simp [hacc, Sh.setAck, hmove]
        · left
          show (Sh.qack (if _ then _ else _)) = _
          simp [hacc]
      · cases h
    · cases h
  | cStore =>
    left; simp only [mstep] at h
    split at h
    · split at h
      · split at h <;> cases h <;> rfl
      · cases h
    · cases h
  | aStore =>
    left; simp only [mstep] at h
    split at h
    · split at h
      · split at h <;> cases h <;> rfl
      · cases h
    · cases h
  | cLoad g => left; simp only [mstep] at h; split at h <;> cases h; rfl
  | cWake =>
    left; simp only [mstep] at h
    split at h
    · split at h
      · split at h
        · cases h; rfl
        · split at h <;> cases h; rfl
      · cases h
    · cases h
  | cLock =>
    left; simp only [mstep] at h
    split at h
    · split at h
      · split at h <;> cases h; rfl
      · cases h
    · cases h
  | cPut =>
    left; simp only [mstep] at h
    split at h
    · split at h <;> cases h; rfl
    · cases h
  | aLock g n =>
    left; simp only [mstep] at h
    split at h
    · split at h <;> cases h; rfl
    · cases h
  | aLoadC =>
    left; simp only [mstep] at h
    split at h
    · split at h <;> cases h; rfl
    · cases h
  | aPut1 =>
    left; simp only [mstep] at h
    split at h
    · split at h <;> cases h; rfl
    · cases h
  | aPut2 =>
    left; simp only [mstep] at h
    split at h
    · split at h <;> cases h; rfl
    · cases h
  | sLock =>
    left; simp only [mstep] at h
    split at h
    · split at h <;> cases h <;> rfl
    · cases h
  | sVisit g =>
    left; simp only [mstep] at h
    split at h
    · split at h
      · split at h <;> cases h; rfl
      · cases h
    · cases h
  | put => left; simp only [mstep] at h; cases h; rfl

/-- when every thread is idle the meta page of every group holds its in-memory positions -/
theorem Inv.quiet_write_through {ms : MState} (hi : Inv ms) (hq : ms.quiet = true) (g : Nat) (x : Group)
    (hx : ms.sh.grp g = some x) : ms.sh.pg g = some { consumed := x.consumed, ack := x.ack } := by
  simp only [MState.quiet, Bool.and_eq_true, beq_iff_eq] at hq
  obtain ⟨m, hm, h1, h2⟩ := hi.wt g x hx
  rw [hq.1.1.1] at h1
  rw [hq.1.1.2] at h2
  rw [hm]
  have e1 := h1 rfl
  have e2 := h2 rfl
  cases m
  simp_all

/-- the sequential invariants give the micro invariant of the embedded state -/
theorem Inv.ofState (s : State) (hlo : -1 ≤ s.q.ack) (hle : s.q.ack ≤ s.q.appended)
    (hord : ∀ g x, Map.lookup s.live g = some x → s.q.ack ≤ x.ack ∧ x.ack ≤ x.consumed ∧ x.consumed ≤ s.q.appended)
    (hwt : ∀ g x, Map.lookup s.live g = some x → Map.lookup s.metas g = some { consumed := x.consumed, ack := x.ack }) :
    Inv (MState.ofState s) :=
  ⟨hlo, hle, hord, fun g x hx => Map.mem_keys_of_lookup hx, (by intro k hk; cases hk), trivial, trivial, trivial,
    fun g x hx => ⟨_, hwt g x hx, fun _ => rfl, fun _ => rfl⟩, rfl⟩

end LinVerif.FanOut.Micro
