/-
C13 — fixed-offset zones are a translation of the UTC model: the zone calculators at `t` are the
UTC calculators at the local time `t + o` (`o = 1000·off` ms) shifted back by `o`.
-/
import LinVerif.Model.IntervalZone
import LinVerif.Lemmas.C13Interval

namespace LinVerif.Lemmas.C13
open LinVerif.Calendar LinVerif.Interval

/-- arguments on which `timestamp/1000` (truncation toward zero) commutes with the shift: both the
instant and the local time are non-negative, or the instant is a whole number of seconds -/
def okArg (off x : Int) : Prop := (0 ≤ x ∧ 0 ≤ x + 1000 * off) ∨ 1000 ∣ x

theorem civil_shift (off x : Int) (h : okArg off x) :
    civilOfMsZ (Zone.fixed off) x = civilOfMs (x + 1000 * off) := by
  have e : Int.tdiv x 1000 + off = Int.tdiv (x + 1000 * off) 1000 := by
    rcases h with ⟨h0, h1⟩ | ⟨k, rfl⟩
    · rw [Int.tdiv_eq_ediv_of_nonneg h0, Int.tdiv_eq_ediv_of_nonneg h1]; omega
    · have e1 : 1000 * k + 1000 * off = (k + off) * 1000 := by omega
      have e2 : 1000 * k = k * 1000 := by omega
      rw [e1, e2, Int.mul_tdiv_cancel _ (by decide), Int.mul_tdiv_cancel _ (by decide)]
  simp only [civilOfMsZ, civilOfMs, Zone.fixed, e]

theorem date_shift (off y m d : Int) :
    dateMsZ (Zone.fixed off) y m d = dateMs y m d - 1000 * off := by
  simp only [dateMsZ, dateMs, Zone.fixed, oneDay_val]; omega

theorem segment_shift (off : Int) (c : Calc) (x : Int) (h : okArg off x) :
    calcSegmentTimeZ (Zone.fixed off) c x = calcSegmentTime c (x + 1000 * off) - 1000 * off := by
  cases c <;> simp only [calcSegmentTimeZ, calcSegmentTime, civil_shift off x h, date_shift]

theorem family_shift (off : Int) (c : Calc) (x s : Int) (h : okArg off x) :
    calcFamilyZ (Zone.fixed off) c x s = calcFamily c (x + 1000 * off) (s + 1000 * off) := by
  cases c
  · simp only [calcFamilyZ, calcFamily]; congr 1; omega
  · simp only [calcFamilyZ, calcFamily, civil_shift off x h]
  · simp only [calcFamilyZ, calcFamily, civil_shift off x h]

theorem familyStart_shift (off : Int) (c : Calc) (s f : Int) (h : okArg off s) :
    calcFamilyStartTimeZ (Zone.fixed off) c s f = calcFamilyStartTime c (s + 1000 * off) f - 1000 * off := by
  cases c
  · simp only [calcFamilyStartTimeZ, calcFamilyStartTime]; omega
  · simp only [calcFamilyStartTimeZ, calcFamilyStartTime, civil_shift off s h, date_shift]
  · simp only [calcFamilyStartTimeZ, calcFamilyStartTime, civil_shift off s h, date_shift]

theorem familyEnd_shift (off : Int) (c : Calc) (s : Int) (h : okArg off s) :
    calcFamilyEndTimeZ (Zone.fixed off) c s = calcFamilyEndTime c (s + 1000 * off) - 1000 * off := by
  cases c
  · simp only [calcFamilyEndTimeZ, calcFamilyEndTime]; omega
  · simp only [calcFamilyEndTimeZ, calcFamilyEndTime, civil_shift off s h, date_shift]; omega
  · simp only [calcFamilyEndTimeZ, calcFamilyEndTime, civil_shift off s h, date_shift]; omega

theorem segment_dvd1000 (c : Calc) {u : Int} (h : 0 ≤ u) : 1000 ∣ calcSegmentTime c u := by
  cases c
  · rw [day_segment h]; exact ⟨u / 86400000 * 86400, by omega⟩
  · rw [month_segment h]; exact ⟨monthStartDay (u / 86400000) * 86400, by omega⟩
  · rw [year_segment h]; exact ⟨yearStartDay (u / 86400000) * 86400, by omega⟩

theorem familyTime_dvd1000 (c : Calc) {u : Int} (h : 0 ≤ u) : 1000 ∣ calcFamilyTime c u := by
  cases c
  · rw [day_familyTime h]; exact ⟨u / 3600000 * 3600, by omega⟩
  · rw [month_familyTime h]; exact ⟨u / 86400000 * 86400, by omega⟩
  · rw [year_familyTime h]; exact ⟨monthStartDay (u / 86400000) * 86400, by omega⟩

theorem okArg_of_dvd {off x : Int} (h : 1000 ∣ x) : okArg off (x - 1000 * off) := by
  obtain ⟨k, rfl⟩ := h
  exact Or.inr ⟨k - off, by omega⟩

/-- the family start in the zone is the UTC-model family start of the local time, shifted back -/
theorem familyTime_shift (off : Int) (c : Calc) {t : Int} (h0 : 0 ≤ t) (h1 : 0 ≤ t + 1000 * off) :
    calcFamilyTimeZ (Zone.fixed off) c t = calcFamilyTime c (t + 1000 * off) - 1000 * off := by
  have hs := okArg_of_dvd (off := off) (segment_dvd1000 c h1)
  simp only [calcFamilyTimeZ, calcFamilyTime]
  rw [segment_shift off c t (Or.inl ⟨h0, h1⟩), family_shift off c t _ (Or.inl ⟨h0, h1⟩),
    familyStart_shift off c _ _ hs]
  simp only [Int.sub_add_cancel]

theorem familyEndOfFamilyTime_shift (off : Int) (c : Calc) {t : Int} (h0 : 0 ≤ t)
    (h1 : 0 ≤ t + 1000 * off) :
    calcFamilyEndTimeZ (Zone.fixed off) c (calcFamilyTimeZ (Zone.fixed off) c t)
      = calcFamilyEndTime c (calcFamilyTime c (t + 1000 * off)) - 1000 * off := by
  rw [familyTime_shift off c h0 h1,
    familyEnd_shift off c _ (okArg_of_dvd (familyTime_dvd1000 c h1))]
  simp only [Int.sub_add_cancel]

theorem calcSlot_shift (c : Calc) (t b o i : Int) : calcSlot c t (b - o) i = calcSlot c (t + o) b i := by
  have e : t - (b - o) = t + o - b := by omega
  cases c <;> simp only [calcSlot, e]

/-- UTC is the zone with offset 0 (no guard on the timestamp) -/
theorem utc_civil (x : Int) : civilOfMsZ (Zone.fixed 0) x = civilOfMs x := by
  simp [civilOfMsZ, civilOfMs, Zone.fixed]

theorem utc_date (y m d : Int) : dateMsZ (Zone.fixed 0) y m d = dateMs y m d := by
  simp only [dateMsZ, dateMs, Zone.fixed, oneDay_val]; omega

end LinVerif.Lemmas.C13
