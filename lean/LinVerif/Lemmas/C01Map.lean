/-
C01 helper lemmas about the insertion-ordered association lists of `LinVerif.Map`
(keys without duplicates; replaying the entries of a map into an empty map rebuilds it).
-/
import LinVerif.Util.Map

set_option linter.unusedSectionVars false
namespace LinVerif.Map

variable {κ : Type} [DecidableEq κ] {ν : Type}

theorem keys_cons (p : κ × ν) (t : List (κ × ν)) : keys (p :: t) = p.1 :: keys t := rfl

theorem keys_append (a b : List (κ × ν)) : keys (a ++ b) = keys a ++ keys b := by
  simp [keys]

theorem lookup_eq_none_of_not_mem {m : List (κ × ν)} {k : κ} (h : k ∉ keys m) : lookup m k = none := by
  induction m with
  | nil => rfl
  | cons p t ih =>
    obtain ⟨k', v'⟩ := p
    simp only [keys_cons, List.mem_cons, not_or] at h
    have h1 : ¬ k' = k := fun e => h.1 e.symm
    simp [lookup, h1, ih h.2]

theorem upsert_of_not_mem {m : List (κ × ν)} {k : κ} (v : ν) (h : k ∉ keys m) :
    upsert m k v = m ++ [(k, v)] := by
  induction m with
  | nil => rfl
  | cons p t ih =>
    obtain ⟨k', v'⟩ := p
    simp only [keys_cons, List.mem_cons, not_or] at h
    have h1 : ¬ k' = k := fun e => h.1 e.symm
    simp [upsert, h1, ih h.2]

theorem upsert_append_self (m : List (κ × ν)) (k : κ) (v w : ν) (t : List (κ × ν)) (h : k ∉ keys m) :
    upsert (m ++ (k, v) :: t) k w = m ++ (k, w) :: t := by
  induction m with
  | nil => simp [upsert]
  | cons p t' ih =>
    obtain ⟨k', v'⟩ := p
    simp only [keys_cons, List.mem_cons, not_or] at h
    have h1 : ¬ k' = k := fun e => h.1 e.symm
    simp [upsert, h1, ih h.2]

theorem lookup_append_self (m : List (κ × ν)) (k : κ) (v : ν) (t : List (κ × ν)) (h : k ∉ keys m) :
    lookup (m ++ (k, v) :: t) k = some v := by
  induction m with
  | nil => simp [lookup]
  | cons p t' ih =>
    obtain ⟨k', v'⟩ := p
    simp only [keys_cons, List.mem_cons, not_or] at h
    have h1 : ¬ k' = k := fun e => h.1 e.symm
    simp [lookup, h1, ih h.2]

theorem mem_upsert {m : List (κ × ν)} {k : κ} {v : ν} {e : κ × ν} (h : e ∈ upsert m k v) :
    e = (k, v) ∨ e ∈ m := by
  induction m with
  | nil => simp [upsert] at h; exact Or.inl h
  | cons p t ih =>
    obtain ⟨k', v'⟩ := p
    by_cases h1 : k' = k
    · simp only [upsert, h1, if_true, List.mem_cons] at h
      rcases h with h | h
      · exact Or.inl h
      · exact Or.inr (List.mem_cons_of_mem _ h)
    · simp only [upsert, h1, if_false, List.mem_cons] at h
      rcases h with h | h
      · exact Or.inr (by simp [h])
      · rcases ih h with h | h
        · exact Or.inl h
        · exact Or.inr (List.mem_cons_of_mem _ h)

theorem keys_upsert (m : List (κ × ν)) (k : κ) (v : ν) :
    keys (upsert m k v) = if k ∈ keys m then keys m else keys m ++ [k] := by
  induction m with
  | nil => simp [upsert, keys]
  | cons p t ih =>
    obtain ⟨k', v'⟩ := p
    by_cases h1 : k' = k
    · subst h1; simp [upsert, keys]
    · have h2 : ¬ k = k' := fun e => h1 e.symm
      simp only [upsert, h1, if_false, keys_cons, ih, List.mem_cons, h2, false_or]
      by_cases h3 : k ∈ keys t <;> simp [h3]

theorem nodup_keys_upsert {m : List (κ × ν)} (k : κ) (v : ν) (h : (keys m).Nodup) :
    (keys (upsert m k v)).Nodup := by
  rw [keys_upsert]
  by_cases h1 : k ∈ keys m
  · simp [h1, h]
  · simp only [h1, if_false]
    rw [List.nodup_append]
    refine ⟨h, by simp, ?_⟩
    intro a ha b hb
    simp only [List.mem_singleton] at hb
    subst hb
    intro e; subst e; exact h1 ha

theorem mem_erase {m : List (κ × ν)} {k : κ} {e : κ × ν} (h : e ∈ erase m k) : e ∈ m ∧ e.1 ≠ k := by
  simp only [erase, List.mem_filter, ne_eq, decide_eq_true_eq] at h
  exact h

theorem mem_erase_of {m : List (κ × ν)} {k : κ} {e : κ × ν} (h : e ∈ m) (h2 : e.1 ≠ k) : e ∈ erase m k := by
  simp only [erase, List.mem_filter, ne_eq, decide_eq_true_eq]
  exact ⟨h, h2⟩

theorem keys_erase (m : List (κ × ν)) (k : κ) : keys (erase m k) = (keys m).filter (fun x => x ≠ k) := by
  induction m with
  | nil => rfl
  | cons p t ih =>
    rw [erase_cons]
    by_cases h : p.1 = k
    · simp [h, ih, keys_cons]
    · simp [h, ih, keys_cons]

theorem nodup_keys_erase {m : List (κ × ν)} (k : κ) (h : (keys m).Nodup) : (keys (erase m k)).Nodup := by
  rw [keys_erase]
  exact h.sublist List.filter_sublist

theorem not_mem_keys_erase (m : List (κ × ν)) (k : κ) : k ∉ keys (erase m k) := by
  rw [keys_erase]; simp

theorem mem_keys_iff {m : List (κ × ν)} {k : κ} : k ∈ keys m ↔ ∃ v, (k, v) ∈ m := by
  simp [keys]

theorem lookup_of_mem {m : List (κ × ν)} {k : κ} {v : ν} (hn : (keys m).Nodup) (h : (k, v) ∈ m) :
    lookup m k = some v := by
  induction m with
  | nil => simp at h
  | cons p t ih =>
    obtain ⟨k', v'⟩ := p
    simp only [keys_cons, List.nodup_cons] at hn
    simp only [List.mem_cons, Prod.mk.injEq] at h
    rcases h with ⟨h1, h2⟩ | h
    · subst h1; subst h2; simp [lookup]
    · have : ¬ k' = k := by
        intro e; subst e
        exact hn.1 (mem_keys_iff.mpr ⟨v, h⟩)
      simp [lookup, this, ih hn.2 h]

theorem mem_of_lookup {m : List (κ × ν)} {k : κ} {v : ν} (h : lookup m k = some v) : (k, v) ∈ m := by
  induction m with
  | nil => simp [lookup] at h
  | cons p t ih =>
    obtain ⟨k', v'⟩ := p
    by_cases h1 : k' = k
    · simp only [lookup, h1, if_true, Option.some.injEq] at h
      subst h1; subst h; simp
    · simp only [lookup, h1, if_false] at h
      exact List.mem_cons_of_mem _ (ih h)

/-- replaying the entries of a duplicate-free map, in list order, rebuilds the same list -/
theorem foldl_upsert_entries (pre l : List (κ × ν)) (h : (keys (pre ++ l)).Nodup) :
    l.foldl (fun m e => upsert m e.1 e.2) pre = pre ++ l := by
  induction l generalizing pre with
  | nil => simp
  | cons e t ih =>
    have hk : e.1 ∉ keys pre := by
      rw [keys_append, keys_cons, List.nodup_append] at h
      intro hm
      exact h.2.2 _ hm _ (by simp) rfl
    simp only [List.foldl_cons]
    rw [upsert_of_not_mem _ hk]
    have : pre ++ [(e.1, e.2)] ++ t = pre ++ e :: t := by simp
    rw [ih (pre ++ [(e.1, e.2)]) (by rw [this]; exact h), this]

end LinVerif.Map
