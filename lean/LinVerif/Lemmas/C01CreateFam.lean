/-
C01 — invariants of store.CreateFamily under concurrent creators (helper lemmas for Props/C01).
-/
import LinVerif.Model.C01CreateFam

namespace LinVerif.C01CF

/-- one id per family name, everywhere the id is kept -/
structure Inv (s : St) : Prop where
  opened_info : ∀ nm h, (nm, h) ∈ s.opened → s.info nm = some h.id
  opened_fv : ∀ nm h, (nm, h) ∈ s.opened → s.fvs nm = some h.id
  fams_opened : ∀ nm h, s.fams nm = some h → (nm, h) ∈ s.opened
  options_info : ∀ nm, s.options nm = s.info nm
  fv_info : ∀ nm id, s.fvs nm = some id → s.info nm = some id
  info_le : ∀ nm id, s.info nm = some id → id ≤ s.seq
  info_inj : ∀ a b id, s.info a = some id → s.info b = some id → a = b
  info_dir : ∀ nm id, s.info nm = some id → s.dirs nm = true

theorem inv_init : Inv St.init := by
  constructor <;> intros <;> simp_all [St.init]

@[simp] theorem upd_same {α : Type} (f : Nat → α) (i : Nat) (a : α) : upd f i a i = a := by simp [upd]

theorem upd_other {α : Type} (f : Nat → α) (i j : Nat) (a : α) (h : j ≠ i) : upd f i a j = f j := by simp [upd, h]

/-- returning an already published handle keeps the invariant -/
theorem inv_return_published {s : St} (hi : Inv s) {nm : Nat} {h : Handle} (hf : s.fams nm = some h)
    (thr' : Nat → Thr) : Inv { s with thr := thr', opened := s.opened ++ [(nm, h)] } := by
  have ho := hi.fams_opened nm h hf
  constructor
  · intro nm' h' hm
    simp only [List.mem_append, List.mem_singleton, Prod.mk.injEq] at hm
    rcases hm with hm | ⟨rfl, rfl⟩
    · exact hi.opened_info nm' h' hm
    · exact hi.opened_info _ _ ho
  · intro nm' h' hm
    simp only [List.mem_append, List.mem_singleton, Prod.mk.injEq] at hm
    rcases hm with hm | ⟨rfl, rfl⟩
    · exact hi.opened_fv nm' h' hm
    · exact hi.opened_fv _ _ ho
  · intro nm' h' hf'
    exact List.mem_append_left _ (hi.fams_opened nm' h' hf')
  · exact hi.options_info
  · exact hi.fv_info
  · exact hi.info_le
  · exact hi.info_inj
  · exact hi.info_dir

/-- opening with the option `info nm = some id` (directory present or just created) and publishing the
new object keeps the invariant; `seq'`/`info'` are the values after part 1 -/
theorem inv_open_publish {s : St} (hi : Inv s) (nm id hid : Nat) (hinfo : s.info nm = some id)
    (thr' : Nat → Thr) (nextH' : Nat) :
    Inv { s with dirs := upd s.dirs nm true, fvs := upd s.fvs nm (some ((s.fvs nm).getD id)), nextH := nextH',
                 thr := thr', fams := upd s.fams nm (some ⟨hid, id⟩), opened := s.opened ++ [(nm, ⟨hid, id⟩)] } := by
  have hfv : (s.fvs nm).getD id = id := by
    cases hq : s.fvs nm with
    | none => rfl
    | some id' =>
      have := hi.fv_info nm id' hq
      rw [hinfo] at this
      simp at this
      simp [this]
  constructor
  · intro nm' h' hm
    simp only [List.mem_append, List.mem_singleton, Prod.mk.injEq] at hm
    rcases hm with hm | ⟨rfl, rfl⟩
    · exact hi.opened_info nm' h' hm
    · exact hinfo
  · intro nm' h' hm
    simp only [List.mem_append, List.mem_singleton, Prod.mk.injEq] at hm
    rcases hm with hm | ⟨rfl, rfl⟩
    · by_cases hn : nm' = nm
      · subst hn
        have := hi.opened_info nm' h' hm
        rw [hinfo] at this
        simp at this
        subst this
        simp [hfv]
      · simp only [upd, hn, if_false]
        exact hi.opened_fv nm' h' hm
    · simp [hfv]
  · intro nm' h' hf'
    by_cases hn : nm' = nm
    · subst hn
      simp only [upd_same, Option.some.injEq] at hf'
      subst hf'
      simp
    · simp only [upd, hn, if_false] at hf'
      exact List.mem_append_left _ (hi.fams_opened nm' h' hf')
  · exact hi.options_info
  · intro nm' id' hq
    by_cases hn : nm' = nm
    · subst hn
      simp only [upd_same, hfv, Option.some.injEq] at hq
      subst hq
      exact hinfo
    · simp only [upd, hn, if_false] at hq
      exact hi.fv_info nm' id' hq
  · exact hi.info_le
  · exact hi.info_inj
  · intro nm' id' hq
    by_cases hn : nm' = nm
    · subst hn; simp
    · simp only [upd, hn, if_false]
      exact hi.info_dir nm' id' hq

/-- part 1 on a family without a directory: a fresh id, entered into storeInfo and OPTIONS -/
theorem inv_assign {s : St} (hi : Inv s) (nm : Nat) (hd : s.dirs nm = false) (thr' : Nat → Thr) :
    Inv { s with seq := s.seq + 1, info := upd s.info nm (some (s.seq + 1)), options := upd s.info nm (some (s.seq + 1)),
                 dirs := upd s.dirs nm true, thr := thr' } := by
  have hnone : s.info nm = none := by
    cases hq : s.info nm with
    | none => rfl
    | some id => have := hi.info_dir nm id hq; rw [hd] at this; cases this
  constructor
  · intro nm' h' hm
    have := hi.opened_info nm' h' hm
    by_cases hn : nm' = nm
    · subst hn; rw [hnone] at this; cases this
    · simp only [upd, hn, if_false]; exact this
  · exact hi.opened_fv
  · exact hi.fams_opened
  · intro nm'; rfl
  · intro nm' id' hq
    have := hi.fv_info nm' id' hq
    by_cases hn : nm' = nm
    · subst hn; rw [hnone] at this; cases this
    · simp only [upd, hn, if_false]; exact this
  · intro nm' id' hq
    by_cases hn : nm' = nm
    · subst hn
      simp only [upd_same, Option.some.injEq] at hq
      show id' ≤ s.seq + 1
      omega
    · simp only [upd, hn, if_false] at hq
      have := hi.info_le nm' id' hq
      show id' ≤ s.seq + 1
      omega
  · intro a b id ha hb
    by_cases h1 : a = nm <;> by_cases h2 : b = nm
    · rw [h1, h2]
    · subst h1
      simp only [upd_same, Option.some.injEq] at ha
      simp only [upd, h2, if_false] at hb
      have := hi.info_le b id hb
      omega
    · subst h2
      simp only [upd_same, Option.some.injEq] at hb
      simp only [upd, h1, if_false] at ha
      have := hi.info_le a id ha
      omega
    · simp only [upd, h1, if_false] at ha
      simp only [upd, h2, if_false] at hb
      exact hi.info_inj a b id ha hb
  · intro nm' id' hq
    by_cases hn : nm' = nm
    · subst hn; simp
    · simp only [upd, hn, if_false] at hq ⊢
      exact hi.info_dir nm' id' hq

/-- changing only thread-local state keeps the invariant -/
theorem inv_thr {s : St} (hi : Inv s) (thr' : Nat → Thr) : Inv { s with thr := thr' } :=
  ⟨hi.opened_info, hi.opened_fv, hi.fams_opened, hi.options_info, hi.fv_info, hi.info_le, hi.info_inj, hi.info_dir⟩

/-- the invariant speaks about seven fields only -/
theorem Inv.congr {a b : St} (hi : Inv a) (h1 : b.opened = a.opened) (h2 : b.info = a.info) (h3 : b.options = a.options)
    (h4 : b.seq = a.seq) (h5 : b.dirs = a.dirs) (h6 : b.fvs = a.fvs) (h7 : b.fams = a.fams) : Inv b := by
  constructor
  · rw [h1, h2]; exact hi.opened_info
  · rw [h1, h6]; exact hi.opened_fv
  · rw [h1, h7]; exact hi.fams_opened
  · rw [h2, h3]; exact hi.options_info
  · rw [h2, h6]; exact hi.fv_info
  · rw [h2, h4]; exact hi.info_le
  · rw [h2]; exact hi.info_inj
  · rw [h2, h5]; exact hi.info_dir

theorem upd_upd {α : Type} (f : Nat → α) (i : Nat) (a b : α) : upd (upd f i a) i b = upd f i b := by
  funext j; simp only [upd]; split <;> rfl

/-- the write-lock region as ONE atomic step keeps the invariant (with or without the re-check) -/
theorem inv_regionAll (cfg : Cfg) {s : St} (hi : Inv s) (t : Nat) : Inv (regionAll cfg s t) := by
  generalize hnm : (s.thr t).name = nm
  cases hre : (if cfg.recheck then s.fams nm else none) with
  | some h =>
    have hf : s.fams nm = some h := by
      by_cases hc : cfg.recheck <;> simp [hc] at hre
      exact hre
    refine (inv_return_published hi hf s.thr).congr ?_ ?_ ?_ ?_ ?_ ?_ ?_ <;>
      simp [regionAll, part1, hnm, hre]
  | none =>
    cases hd : s.dirs nm with
    | true =>
      cases hq : s.info nm with
      | none =>
        refine hi.congr ?_ ?_ ?_ ?_ ?_ ?_ ?_ <;>
          simp [regionAll, part1, part2, hnm, hre, hd, hq]
      | some id =>
        refine (inv_open_publish hi nm id s.nextH hq s.thr 0).congr ?_ ?_ ?_ ?_ ?_ ?_ ?_ <;>
          simp [regionAll, part1, part2, part3, hnm, hre, hd, hq]
    | false =>
      have h1 := inv_assign hi nm hd s.thr
      have h2 := inv_open_publish h1 nm (s.seq + 1) s.nextH (by simp) s.thr 0
      have hnone : s.info nm = none := by
        cases hq : s.info nm with
        | none => rfl
        | some id => have := hi.info_dir nm id hq; rw [hd] at this; cases this
      have hfvn : s.fvs nm = none := by
        cases hq : s.fvs nm with
        | none => rfl
        | some id => have := hi.fv_info nm id hq; rw [hnone] at this; cases this
      refine h2.congr ?_ ?_ ?_ ?_ ?_ ?_ ?_ <;>
        simp [regionAll, part1, part2, part3, hnm, hre, hd, upd_upd, hfvn]

/-- every step of the model with the lock held to return keeps the invariant -/
theorem inv_step (cfg : Cfg) (hheld : cfg.held = true) {s : St} (hi : Inv s) (e : Step) : Inv (step cfg s e) := by
  cases e with
  | fast t nm =>
    simp only [step]
    split
    · exact hi
    · split
      · next h hf => exact inv_return_published hi hf _
      · exact inv_thr hi _
  | region t =>
    simp only [step, hheld, if_true]
    split
    · exact hi
    · exact inv_regionAll cfg hi t
  | openS t => simp [step, hheld]; exact hi
  | publish t => simp [step, hheld]; exact hi
  | fstart hid nm n => exact hi.congr rfl rfl rfl rfl rfl rfl rfl
  | cleanup hid nm => exact hi.congr rfl rfl rfl rfl rfl rfl rfl
  | fcommit hid nm n => exact hi.congr rfl rfl rfl rfl rfl rfl rfl

theorem inv_run (cfg : Cfg) (hheld : cfg.held = true) (steps : List Step) {s : St} (hi : Inv s) : Inv (run cfg s steps) := by
  induction steps generalizing s with
  | nil => exact hi
  | cons e rest ih => exact ih (inv_step cfg hheld hi e)

/-! ### one family OBJECT per name when s.families is looked up again under the write lock -/

/-- every handle ever returned for a name is the published one -/
def Single (s : St) : Prop := ∀ nm h, (nm, h) ∈ s.opened → s.fams nm = some h

theorem single_init : Single St.init := by intro nm h hm; simp [St.init] at hm

theorem single_regionAll (cfg : Cfg) (hre : cfg.recheck = true) {s : St} (hs : Single s) (t : Nat) :
    Single (regionAll cfg s t) := by
  generalize hnm : (s.thr t).name = nm
  cases hf : s.fams nm with
  | some h =>
    intro nm' h' hm
    simp [regionAll, part1, hnm, hre, hf] at hm ⊢
    rcases hm with hm | ⟨rfl, rfl⟩
    · exact hs nm' h' hm
    · exact hf
  | none =>
    have hno : ∀ h, (nm, h) ∉ s.opened := by
      intro h hm; have := hs nm h hm; rw [hf] at this; cases this
    intro nm' h' hm
    cases hd : s.dirs nm <;> cases hq : s.info nm <;>
      simp [regionAll, part1, part2, part3, hnm, hre, hf, hd, hq] at hm ⊢
    all_goals first
      | exact hs nm' h' hm
      | (rcases hm with hm | ⟨rfl, rfl⟩
         · have hne : nm' ≠ nm := by
             intro he; subst he; exact hno h' hm
           simp only [upd, hne, if_false]
           exact hs nm' h' hm
         · simp)

theorem single_step (cfg : Cfg) (hheld : cfg.held = true) (hre : cfg.recheck = true) {s : St} (hs : Single s) (e : Step) :
    Single (step cfg s e) := by
  cases e with
  | fast t nm =>
    simp only [step]
    split
    · exact hs
    · split
      · next h hf =>
        intro nm' h' hm
        simp only [List.mem_append, List.mem_singleton, Prod.mk.injEq] at hm
        rcases hm with hm | ⟨rfl, rfl⟩
        · exact hs nm' h' hm
        · exact hf
      · exact hs
  | region t =>
    simp only [step, hheld, if_true]
    split
    · exact hs
    · exact single_regionAll cfg hre hs t
  | openS t => simp [step, hheld]; exact hs
  | publish t => simp [step, hheld]; exact hs
  | fstart hid nm n => exact hs
  | cleanup hid nm => exact hs
  | fcommit hid nm n => exact hs

theorem single_run (cfg : Cfg) (hheld : cfg.held = true) (hre : cfg.recheck = true) (steps : List Step) {s : St}
    (hs : Single s) : Single (run cfg s steps) := by
  induction steps generalizing s with
  | nil => exact hs
  | cons e rest ih => exact ih (single_step cfg hheld hre hs e)

end LinVerif.C01CF
