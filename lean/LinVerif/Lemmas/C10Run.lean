/-
C10 helper lemmas, part 5: whole histories (writes with placement steps anywhere between them) keep
the invariant; the part of the state a query's outcome depends on besides the index views (`core`)
is independent of the placement steps; which error a query reports.
-/
import LinVerif.Lemmas.C10Place

set_option linter.unusedSimpArgs false
set_option linter.unusedVariables false

namespace LinVerif.TagFilter
open LinVerif

/-! ### frames of the write path -/

theorem genTagKeyID_frame (st : State) (m : Metric) (k : Bytes) :
    (genTagKeyID st m k).1.dict = st.dict ∧ (genTagKeyID st m k).1.inv = st.inv ∧
    (genTagKeyID st m k).1.fwd = st.fwd ∧ (genTagKeyID st m k).1.series = st.series ∧
    (genTagKeyID st m k).1.written = st.written ∧ (genTagKeyID st m k).1.valSeq = st.valSeq := by
  unfold genTagKeyID
  cases Map.lookup st.schema (m, k) <;> simp

theorem genTagValueID_frame (st : State) (kid : KeyId) (v : Bytes) :
    (genTagValueID st kid v).1.schema = st.schema ∧ (genTagValueID st kid v).1.keySeq = st.keySeq ∧
    (genTagValueID st kid v).1.inv = st.inv ∧ (genTagValueID st kid v).1.fwd = st.fwd ∧
    (genTagValueID st kid v).1.series = st.series ∧ (genTagValueID st kid v).1.written = st.written := by
  unfold genTagValueID
  cases st.dict.findValue kid v <;> simp

theorem addTag_fwd (st : State) (m : Metric) (sid : SeriesId) (kv : Bytes × Bytes) :
    (addTag st m sid kv).fwd.l0 = st.fwd.l0 ∧ (addTag st m sid kv).fwd.l1 = st.fwd.l1 ∧
    (addTag st m sid kv).fwd.imm = st.fwd.imm ∧
    (∀ e ∈ (addTag st m sid kv).fwd.mtb, e ∈ st.fwd.mtb ∨ e.2.1 = sid) := by
  rw [addTag_eq]
  have h1 := (genTagKeyID_frame st m kv.1).2.2.1
  have h2 := (genTagValueID_frame (genTagKeyID st m kv.1).1 (genTagKeyID st m kv.1).2 kv.2).2.2.2.1
  refine ⟨by simp [indexTag, h2, h1], by simp [indexTag, h2, h1], by simp [indexTag, h2, h1], ?_⟩
  intro e he
  simp only [indexTag, h2, h1] at he
  split at he
  · exact Or.inl he
  · rcases List.mem_append.mp he with he | he
    · exact Or.inl he
    · simp at he; subst he; exact Or.inr rfl

theorem foldl_addTag_fwd (m : Metric) (sid : SeriesId) (tags : Tags) (st : State) :
    (tags.foldl (fun s kv => addTag s m sid kv) st).fwd.l0 = st.fwd.l0 ∧
    (tags.foldl (fun s kv => addTag s m sid kv) st).fwd.l1 = st.fwd.l1 ∧
    (tags.foldl (fun s kv => addTag s m sid kv) st).fwd.imm = st.fwd.imm ∧
    (∀ e ∈ (tags.foldl (fun s kv => addTag s m sid kv) st).fwd.mtb, e ∈ st.fwd.mtb ∨ e.2.1 = sid) := by
  induction tags generalizing st with
  | nil => exact ⟨rfl, rfl, rfl, fun e he => Or.inl he⟩
  | cons kv t ih =>
    obtain ⟨a1, b1, c1, d1⟩ := addTag_fwd st m sid kv
    obtain ⟨a2, b2, c2, d2⟩ := ih (addTag st m sid kv)
    simp only [List.foldl_cons]
    refine ⟨a2.trans a1, b2.trans b1, c2.trans c1, ?_⟩
    intro e he
    rcases d2 e he with h | h
    · exact d1 e h
    · exact Or.inr h

theorem write_fwd (st : State) (m : Metric) (tags : Tags) :
    (write st m tags).1.fwd.l0 = st.fwd.l0 ∧ (write st m tags).1.fwd.l1 = st.fwd.l1 ∧
    (write st m tags).1.fwd.imm = st.fwd.imm ∧
    (∀ e ∈ (write st m tags).1.fwd.mtb, e ∈ st.fwd.mtb ∨ e.2.1 = nextSeriesId st m) := by
  unfold write
  cases Map.lookup st.series (m, tags) with
  | some sid => exact ⟨rfl, rfl, rfl, fun e he => Or.inl he⟩
  | none => exact foldl_addTag_fwd m (nextSeriesId st m) tags _

theorem nextSeriesId_le (st : State) (m : Metric) : nextSeriesId st m ≤ st.series.length := by
  unfold nextSeriesId
  exact List.length_filter_le _ _

theorem write_series_length {st : State} (h : Good st) (m : Metric) (tags : Tags) :
    (write st m tags).1.series.length ≤ st.series.length + 1 := by
  unfold write
  cases Map.lookup st.series (m, tags) with
  | some sid => simp
  | none =>
    simp only
    have := (foldl_addTag_fwd m (nextSeriesId st m) tags
      { st with series := st.series ++ [((m, tags), nextSeriesId st m)], written := st.written ++ [(m, nextSeriesId st m, [])] })
    -- series is untouched by addTag
    have hs : ∀ (t : Tags) (s : State), (t.foldl (fun s kv => addTag s m (nextSeriesId st m) kv) s).series = s.series := by
      intro t
      induction t with
      | nil => intro s; rfl
      | cons kv t ih =>
        intro s
        simp only [List.foldl_cons, ih]
        rw [addTag_eq]
        simp only [indexTag]
        rw [(genTagValueID_frame _ _ _).2.2.2.2.1, (genTagKeyID_frame _ _ _).2.2.2.1]
    rw [hs]
    simp

theorem write_lutSafe {F : Flags} {st : State} (hl : LutSafe F st) (m : Metric) (tags : Tags)
    (hsmall : F.lutCumulative = false → nextSeriesId st m < 131072) : LutSafe F (write st m tags).1 := by
  obtain ⟨a, b, c, d⟩ := write_fwd st m tags
  constructor
  · intro f hf
    apply hl.files f
    simpa [Fwd.files, a, b] using hf
  · intro hc e he
    rcases mem_fwd_all.mp he with he | he | ⟨f, hf, he⟩
    · rcases d e he with h | h
      · exact hl.small hc e (mem_fwd_all.mpr (Or.inl h))
      · rw [h]; exact hsmall hc
    · exact hl.small hc e (mem_fwd_all.mpr (Or.inr (Or.inl (by simpa [c] using he))))
    · exact hl.small hc e (mem_fwd_all.mpr (Or.inr (Or.inr ⟨f, by simpa [Fwd.files, a, b] using hf, he⟩)))

/-! ### the flush phases along a history -/

theorem addTag_phase_frame (st : State) (m : Metric) (sid : SeriesId) (kv : Bytes × Bytes) :
    (addTag st m sid kv).inv.imm = st.inv.imm ∧ (addTag st m sid kv).inv.l0 = st.inv.l0 ∧
    (addTag st m sid kv).inv.l1 = st.inv.l1 ∧ (addTag st m sid kv).inv.phase = st.inv.phase ∧
    (addTag st m sid kv).fwd.phase = st.fwd.phase := by
  rw [addTag_eq]
  have h1 := genTagKeyID_frame st m kv.1
  have h2 := genTagValueID_frame (genTagKeyID st m kv.1).1 (genTagKeyID st m kv.1).2 kv.2
  refine ⟨?_, ?_, ?_, ?_, ?_⟩ <;> simp [indexTag, h2.2.2.1, h2.2.2.2.1, h1.2.1, h1.2.2.1]

theorem foldl_addTag_phase_frame (m : Metric) (sid : SeriesId) (tags : Tags) (st : State) :
    (tags.foldl (fun s kv => addTag s m sid kv) st).inv.imm = st.inv.imm ∧
    (tags.foldl (fun s kv => addTag s m sid kv) st).inv.l0 = st.inv.l0 ∧
    (tags.foldl (fun s kv => addTag s m sid kv) st).inv.l1 = st.inv.l1 ∧
    (tags.foldl (fun s kv => addTag s m sid kv) st).inv.phase = st.inv.phase ∧
    (tags.foldl (fun s kv => addTag s m sid kv) st).fwd.phase = st.fwd.phase := by
  induction tags generalizing st with
  | nil => exact ⟨rfl, rfl, rfl, rfl, rfl⟩
  | cons kv t ih =>
    obtain ⟨a1, b1, c1, d1, e1⟩ := addTag_phase_frame st m sid kv
    obtain ⟨a2, b2, c2, d2, e2⟩ := ih (addTag st m sid kv)
    simp only [List.foldl_cons]
    exact ⟨a2.trans a1, b2.trans b1, c2.trans c1, d2.trans d1, e2.trans e1⟩

theorem write_phase_frame (st : State) (m : Metric) (tags : Tags) :
    (write st m tags).1.inv.imm = st.inv.imm ∧ (write st m tags).1.inv.l0 = st.inv.l0 ∧
    (write st m tags).1.inv.l1 = st.inv.l1 ∧ (write st m tags).1.inv.phase = st.inv.phase ∧
    (write st m tags).1.fwd.phase = st.fwd.phase := by
  unfold write
  cases Map.lookup st.series (m, tags) with
  | some sid => exact ⟨rfl, rfl, rfl, rfl, rfl⟩
  | none => exact foldl_addTag_phase_frame m (nextSeriesId st m) tags _

theorem phaseOK_init : PhaseOK State.init := by
  constructor <;> intro h <;> exact absurd rfl h

/-- writes go to the mutable tables only: a flush in progress keeps its batch -/
theorem write_phaseOK {st : State} (hp : PhaseOK st) (m : Metric) (tags : Tags) : PhaseOK (write st m tags).1 := by
  obtain ⟨a, b, c, d, e⟩ := write_phase_frame st m tags
  obtain ⟨fa, fb, fc, _⟩ := write_fwd st m tags
  constructor
  · rw [d, a]
    simpa [Inv.files, b, c] using hp.inv
  · rw [e, fc]
    simpa [Fwd.files, fa, fb] using hp.fwd

theorem inv_prepare_busy {d : Inv} (b : Bool) (p : InvPart) (h1 : d.imm = some p) (h2 : p ≠ []) : d.prepare b = d := by
  unfold Inv.prepare
  cases p with
  | nil => exact absurd rfl h2
  | cons x t => simp [h1]

theorem fwd_prepare_busy {d : Fwd} (b : Bool) (p : FwdPart) (h1 : d.imm = some p) (h2 : p ≠ []) : d.prepare b = d := by
  unfold Fwd.prepare
  cases p with
  | nil => exact absurd rfl h2
  | cons x t => simp [h1]

theorem inv_prepare_phase (d : Inv) (b : Bool) : (d.prepare b).phase = d.phase := by
  unfold Inv.prepare
  cases d.imm with
  | none => rfl
  | some p => cases p with
    | nil => cases b <;> rfl
    | cons x t => rfl

theorem fwd_prepare_phase (d : Fwd) (b : Bool) : (d.prepare b).phase = d.phase := by
  unfold Fwd.prepare
  cases d.imm with
  | none => rfl
  | some p => cases p with
    | nil => cases b <;> rfl
    | cons x t => rfl

theorem inv_flush_phase (d : Inv) : d.flush.phase = .idle ∨ d.flush = d := by
  unfold Inv.flush
  by_cases h : d.phase = .idle
  · left
    simp only [h, ne_eq, not_true_eq_false, ite_false]
    unfold Inv.flushNow
    cases d.imm with
    | none => exact h
    | some p => cases p <;> exact h
  · right; simp [h]

theorem fwd_flush_phase (d : Fwd) : d.flush.phase = .idle ∨ d.flush = d := by
  unfold Fwd.flush
  by_cases h : d.phase = .idle
  · left
    simp only [h, ne_eq, not_true_eq_false, ite_false]
    unfold Fwd.flushNow
    cases d.imm with
    | none => exact h
    | some p => cases p <;> exact h
  · right; simp [h]

/-- every placement step keeps `PhaseOK` -/
theorem step_phaseOK {F : Flags} {st : State} (hl : LutSafe F st) (hp : PhaseOK st) (s : Step) :
    PhaseOK (st.step F s) := by
  cases s with
  | prepareMeta => exact ⟨hp.inv, hp.fwd⟩
  | flushMeta => exact ⟨hp.inv, hp.fwd⟩
  | compactMeta => exact ⟨hp.inv, hp.fwd⟩
  | prepareIndex =>
    constructor
    · intro h
      simp only [State.step] at h ⊢
      rw [inv_prepare_phase] at h
      obtain ⟨p, h1, h2, h3⟩ := hp.inv h
      rw [inv_prepare_busy _ p h1 h2]
      exact ⟨p, h1, h2, h3⟩
    · intro h
      simp only [State.step] at h ⊢
      rw [fwd_prepare_phase] at h
      obtain ⟨p, h1, h2, h3⟩ := hp.fwd h
      rw [fwd_prepare_busy _ p h1 h2]
      exact ⟨p, h1, h2, h3⟩
  | flushIndex =>
    constructor
    · intro h
      simp only [State.step] at h ⊢
      rcases inv_flush_phase st.inv with h1 | h1
      · exact absurd h1 h
      · rw [h1] at h ⊢; exact hp.inv h
    · intro h
      simp only [State.step] at h ⊢
      rcases fwd_flush_phase st.fwd with h1 | h1
      · exact absurd h1 h
      · rw [h1] at h ⊢; exact hp.fwd h
  | compactIndex =>
    constructor
    · intro h
      have hph : (st.inv.compact).phase = st.inv.phase := by unfold Inv.compact; split <;> rfl
      have him : (st.inv.compact).imm = st.inv.imm := by unfold Inv.compact; split <;> rfl
      simp only [State.step] at h ⊢
      rw [hph] at h
      obtain ⟨p, h1, h2, h3⟩ := hp.inv h
      refine ⟨p, him.trans h1, h2, ?_⟩
      intro hc e he
      have := h3 (hph ▸ hc) e he
      unfold Inv.compact
      split
      · simpa [Inv.files] using this
      · exact this
    · intro h
      have hph : (st.fwd.compact F.lutCumulative).phase = st.fwd.phase := by unfold Fwd.compact; split <;> rfl
      have him : (st.fwd.compact F.lutCumulative).imm = st.fwd.imm := by unfold Fwd.compact; split <;> rfl
      simp only [State.step] at h ⊢
      rw [hph] at h
      obtain ⟨p, h1, h2, h3⟩ := hp.fwd h
      refine ⟨p, him.trans h1, h2, ?_⟩
      intro hc e he
      obtain ⟨f, hf, hef⟩ := h3 (hph ▸ hc) e he
      unfold Fwd.compact
      split
      · refine ⟨mergeFwdFiles F.lutCumulative (st.fwd.l0 ++ st.fwd.l1), by simp [Fwd.files], ?_⟩
        have hok' : ∀ f ∈ st.fwd.l0 ++ st.fwd.l1, FileOK F.lutCumulative f := hl.files
        rw [mem_mergeFwdFiles hok']
        exact ⟨f, hf, hef⟩
      · exact ⟨f, hf, hef⟩
  | fwdWrite =>
    refine ⟨hp.inv, ?_⟩
    intro h
    simp only [State.step, Fwd.flushWrite] at h ⊢
    by_cases hi : st.fwd.phase = .idle
    · simp only [hi, ne_eq, not_true_eq_false, ite_false] at h ⊢
      cases him : st.fwd.imm with
      | none => simp [him, hi] at h
      | some p =>
        cases p with
        | nil => simp [him, hi] at h
        | cons x t =>
          simp only [him]
          exact ⟨x :: t, rfl, by simp, fun hc => by cases hc⟩
    · simp only [hi, ne_eq, not_false_eq_true, ite_true] at h ⊢
      exact hp.fwd hi
  | fwdFail =>
    refine ⟨hp.inv, ?_⟩
    intro h
    simp only [State.step, Fwd.flushFail] at h ⊢
    split at h
    · exact absurd rfl h
    · rename_i hw
      rw [if_neg hw]
      exact hp.fwd h
  | fwdCommit =>
    refine ⟨hp.inv, ?_⟩
    intro h
    simp only [State.step, Fwd.flushCommit] at h ⊢
    by_cases hw : st.fwd.phase = .writing
    · obtain ⟨p, h1, h2, _⟩ := hp.fwd (by rw [hw]; decide)
      simp only [hw, ite_true, h1]
      refine ⟨p, rfl, h2, ?_⟩
      intro _ e he
      exact ⟨buildFwdFile p, by simp [Fwd.files], mem_buildFwdFile.mpr he⟩
    · simp only [hw, ite_false] at h ⊢
      exact hp.fwd h
  | fwdDrop =>
    refine ⟨hp.inv, ?_⟩
    intro h
    simp only [State.step, Fwd.flushDrop] at h ⊢
    split at h
    · exact absurd rfl h
    · rename_i hw
      rw [if_neg hw]
      exact hp.fwd h
  | invWrite =>
    refine ⟨?_, hp.fwd⟩
    intro h
    simp only [State.step, Inv.flushWrite] at h ⊢
    by_cases hi : st.inv.phase = .idle
    · simp only [hi, ne_eq, not_true_eq_false, ite_false] at h ⊢
      cases him : st.inv.imm with
      | none => simp [him, hi] at h
      | some p =>
        cases p with
        | nil => simp [him, hi] at h
        | cons x t =>
          simp only [him]
          exact ⟨x :: t, rfl, by simp, fun hc => by cases hc⟩
    · simp only [hi, ne_eq, not_false_eq_true, ite_true] at h ⊢
      exact hp.inv hi
  | invFail =>
    refine ⟨?_, hp.fwd⟩
    intro h
    simp only [State.step, Inv.flushFail] at h ⊢
    split at h
    · exact absurd rfl h
    · rename_i hw
      rw [if_neg hw]
      exact hp.inv h
  | invCommit =>
    refine ⟨?_, hp.fwd⟩
    intro h
    simp only [State.step, Inv.flushCommit] at h ⊢
    by_cases hw : st.inv.phase = .writing
    · obtain ⟨p, h1, h2, _⟩ := hp.inv (by rw [hw]; decide)
      simp only [hw, ite_true, h1]
      refine ⟨p, rfl, h2, ?_⟩
      intro _ e he
      simp [Inv.files, he]
    · simp only [hw, ite_false] at h ⊢
      exact hp.inv h
  | invDrop =>
    refine ⟨?_, hp.fwd⟩
    intro h
    simp only [State.step, Inv.flushDrop] at h ⊢
    split at h
    · exact absurd rfl h
    · rename_i hw
      rw [if_neg hw]
      exact hp.inv h

/-! ### histories -/

def numWrites : List Op → Nat
  | [] => 0
  | .write _ _ :: r => numWrites r + 1
  | .place _ :: r => numWrites r

/-- every written series has distinct tag keys (what ingestion guarantees, property C16) -/
def ValidOps (ops : List Op) : Prop := ∀ m t, Op.write m t ∈ ops → (t.map Prod.fst).Nodup

/-- the invariant of reachable states: `n` bounds the number of series written so far -/
structure Reach (F : Flags) (n : Nat) (st : State) : Prop where
  good : Good st
  lut : LutSafe F st
  phase : PhaseOK st
  count : st.series.length ≤ n

theorem reach_init (F : Flags) : Reach F 0 State.init := by
  refine ⟨good_init, ⟨?_, ?_⟩, phaseOK_init, by simp [State.init]⟩
  · intro f hf; simp [State.init, Fwd.files] at hf
  · intro _ e he; simp [State.init, Fwd.all, Fwd.files, optList] at he

theorem run_reach {F : Flags} (ops : List Op) {n : Nat} {st : State} (h : Reach F n st) (hv : ValidOps ops)
    (hb : F.lutCumulative = true ∨ n + numWrites ops ≤ 131072) :
    Reach F (n + numWrites ops) (run F ops st) := by
  induction ops generalizing n st with
  | nil => simpa [run, numWrites] using h
  | cons op r ih =>
    have hvr : ValidOps r := fun m t hm => hv m t (List.mem_cons_of_mem _ hm)
    cases op with
    | write m tags =>
      have hnd := hv m tags List.mem_cons_self
      have h1 : Reach F (n + 1) (write st m tags).1 := by
        refine ⟨(write_spec h.good m tags hnd).1, write_lutSafe h.lut m tags ?_, write_phaseOK h.phase m tags, ?_⟩
        · intro hc
          rcases hb with hb | hb
          · rw [hb] at hc; cases hc
          · have h5 := nextSeriesId_le st m
            have h6 := h.count
            simp only [numWrites] at hb
            try dsimp only [SeriesId] at *
            omega
        · exact Nat.le_trans (write_series_length h.good m tags) (Nat.succ_le_succ h.count)
      have := ih h1 hvr (by
        rcases hb with hb | hb
        · exact Or.inl hb
        · right; simp only [numWrites] at hb; omega)
      simp only [run, List.foldl_cons, applyOp, numWrites] at this ⊢
      have e : n + (numWrites r + 1) = n + 1 + numWrites r := by omega
      rw [e]; exact this
    | place s =>
      have h1 : Reach F n (st.step F s) :=
        ⟨step_good h.good h.lut h.phase s, step_lutSafe h.lut h.phase s, step_phaseOK h.lut h.phase s, by
          cases s <;> exact h.count⟩
      have := ih h1 hvr (by simpa [numWrites] using hb)
      simpa [run, applyOp, numWrites] using this

/-- a history from the empty database reaches a well-formed index -/
theorem run_wf {F : Flags} (ops : List Op) (hv : ValidOps ops)
    (hb : F.lutCumulative = true ∨ numWrites ops ≤ 131072) :
    WF (run F ops State.init) ∧ LutSafe F (run F ops State.init) := by
  have := run_reach ops (reach_init F) hv (by simpa using hb)
  exact ⟨this.good.wf, this.lut⟩

/-! ### what a query depends on besides the index views -/

structure Core where
  schema : List ((Metric × Bytes) × KeyId)
  keySeq : Nat
  series : List ((Metric × Tags) × SeriesId)
  written : List (Metric × SeriesId × Tags)

def State.core (st : State) : Core :=
  { schema := st.schema, keySeq := st.keySeq, series := st.series, written := st.written }

theorem core_eq_iff {a b : State} :
    a.core = b.core ↔ a.schema = b.schema ∧ a.keySeq = b.keySeq ∧ a.series = b.series ∧ a.written = b.written := by
  simp [State.core]

theorem addTag_core {a b : State} (h : a.core = b.core) (m : Metric) (sid : SeriesId) (kv : Bytes × Bytes) :
    (addTag a m sid kv).core = (addTag b m sid kv).core := by
  obtain ⟨h1, h2, h3, h4⟩ := core_eq_iff.mp h
  rw [addTag_eq, addTag_eq, core_eq_iff]
  simp only [indexTag]
  have fa := genTagValueID_frame (genTagKeyID a m kv.1).1 (genTagKeyID a m kv.1).2 kv.2
  have fb := genTagValueID_frame (genTagKeyID b m kv.1).1 (genTagKeyID b m kv.1).2 kv.2
  have ga := genTagKeyID_frame a m kv.1
  have gb := genTagKeyID_frame b m kv.1
  rw [fa.1, fb.1, fa.2.1, fb.2.1, fa.2.2.2.2.1, fb.2.2.2.2.1, fa.2.2.2.2.2, fb.2.2.2.2.2,
    ga.2.2.2.1, gb.2.2.2.1, ga.2.2.2.2.1, gb.2.2.2.2.1]
  refine ⟨?_, ?_, h3, by rw [h4]⟩
  · unfold genTagKeyID; rw [h1, h2]; cases Map.lookup b.schema (m, kv.1) <;> simp [h1, h2]
  · unfold genTagKeyID; rw [h1, h2]; cases Map.lookup b.schema (m, kv.1) <;> simp [h1, h2]

theorem foldl_addTag_core (m : Metric) (sid : SeriesId) (tags : Tags) {a b : State} (h : a.core = b.core) :
    (tags.foldl (fun s kv => addTag s m sid kv) a).core = (tags.foldl (fun s kv => addTag s m sid kv) b).core := by
  induction tags generalizing a b with
  | nil => exact h
  | cons kv t ih => simp only [List.foldl_cons]; exact ih (addTag_core h m sid kv)

theorem write_core {a b : State} (h : a.core = b.core) (m : Metric) (tags : Tags) :
    (write a m tags).1.core = (write b m tags).1.core := by
  obtain ⟨h1, h2, h3, h4⟩ := core_eq_iff.mp h
  unfold write
  rw [h3]
  cases Map.lookup b.series (m, tags) with
  | some sid => exact h
  | none =>
    simp only
    have hn : nextSeriesId a m = nextSeriesId b m := by simp [nextSeriesId, h3]
    rw [hn]
    apply foldl_addTag_core
    rw [core_eq_iff]
    exact ⟨h1, h2, by simp [h3], by simp [h4]⟩

theorem step_core (F : Flags) (st : State) (s : Step) : (st.step F s).core = st.core := by
  cases s <;> rfl

/-- replay of the writes alone -/
def replay (ws : List (Metric × Tags)) (st : State) : State :=
  ws.foldl (fun s w => (write s w.1 w.2).1) st

theorem run_core_replay (F : Flags) (ops : List Op) {a b : State} (h : a.core = b.core) :
    (run F ops a).core = (replay (writesOf ops) b).core := by
  induction ops generalizing a b with
  | nil => simpa [run, replay, writesOf] using h
  | cons op r ih =>
    cases op with
    | write m tags =>
      simp only [run, List.foldl_cons, applyOp, writesOf, replay]
      exact ih (write_core h m tags)
    | place s =>
      simp only [run, List.foldl_cons, applyOp, writesOf]
      exact ih ((step_core F a s).trans h)

/-- two histories with the same writes agree on schema, series store and written series, however
flushes and compactions are placed (and whatever the code facts are) -/
theorem run_core_eq (F1 F2 : Flags) (ops1 ops2 : List Op) (h : writesOf ops1 = writesOf ops2) :
    (run F1 ops1 State.init).core = (run F2 ops2 State.init).core := by
  rw [run_core_replay F1 ops1 (rfl : State.init.core = State.init.core),
    run_core_replay F2 ops2 (rfl : State.init.core = State.init.core), h]

/-! ### which error a query reports -/

/-- failure of one atomic filter's value lookup: decided by the pattern alone -/
def atomError (F : Flags) (M : Matcher) : Atom → Option Err
  | .like _ p => if p = [star] ∧ F.likeStarGuarded = false then some .panic else none
  | .rx _ p => if M.valid p = true then none else some .badRegexp
  | _ => none

def atomOutcomeErr (F : Flags) (M : Matcher) (schema : List ((Metric × Bytes) × KeyId)) (m : Metric) (a : Atom) :
    Option Err :=
  match Map.lookup schema (m, a.key) with
  | none => some .keyNotFound
  | some _ => atomError F M a

theorem findValuesByLike_star {F : Flags} {d : Dict} {kid : KeyId} (h : F.likeStarGuarded = false) :
    findValuesByLike F d kid [star] = .error .panic := by
  simp [findValuesByLike, h]

theorem resolveAtom_outcome (F : Flags) (M : Matcher) (d : Dict) (kid : KeyId) (a : Atom) :
    match atomError F M a with
    | some e => resolveAtom F M d kid a = .error e
    | none => ∃ ids, resolveAtom F M d kid a = .ok ids := by
  cases a with
  | eq k v => exact ⟨_, rfl⟩
  | inn k vs => exact ⟨_, rfl⟩
  | like k p =>
    simp only [atomError, resolveAtom]
    by_cases hp : p = [star] ∧ F.likeStarGuarded = false
    · simp only [hp, and_self, ite_true]
      exact findValuesByLike_star hp.2
    · simp only [hp, ite_false]
      apply findValuesByLike_ok
      by_cases hg : F.likeStarGuarded = true
      · exact Or.inl hg
      · right
        intro h
        exact hp ⟨h, by simpa using hg⟩
  | rx k p =>
    simp only [atomError, resolveAtom]
    by_cases hv : M.valid p = true
    · simp only [hv, ite_true]; exact ⟨_, rfl⟩
    · simp [hv]

theorem lookupAtom_outcome (F : Flags) (M : Matcher) (st : State) (m : Metric) (a : Atom) :
    match atomOutcomeErr F M st.schema m a with
    | some e => lookupAtom F M st m a = .error e
    | none => ∃ r, lookupAtom F M st m a = .ok r := by
  unfold atomOutcomeErr lookupAtom
  cases hl : Map.lookup st.schema (m, a.key) with
  | none => simp
  | some kid =>
    simp only
    have := resolveAtom_outcome F M st.dict kid a
    cases he : atomError F M a with
    | some e => simp only [he] at this ⊢; simp [this]
    | none =>
      simp only [he] at this ⊢
      obtain ⟨ids, hids⟩ := this
      exact ⟨(kid, ids), by simp [hids]⟩

/-- the first failing atomic filter in walk order -/
def firstErr (F : Flags) (M : Matcher) (schema : List ((Metric × Bytes) × KeyId)) (m : Metric) : List Atom → Option Err
  | [] => none
  | a :: t =>
    match atomOutcomeErr F M schema m a with
    | some e => some e
    | none => firstErr F M schema m t

theorem lookupList_outcome (F : Flags) (M : Matcher) (st : State) (m : Metric) (as : List Atom) (acc : TFR) :
    match firstErr F M st.schema m as with
    | some e => lookupList F M st m as acc = .error e
    | none => ∃ res, lookupList F M st m as acc = .ok res := by
  induction as generalizing acc with
  | nil => exact ⟨acc, rfl⟩
  | cons a t ih =>
    simp only [firstErr, lookupList]
    have ha := lookupAtom_outcome F M st m a
    cases he : atomOutcomeErr F M st.schema m a with
    | some e => simp only [he] at ha ⊢; simp [ha]
    | none =>
      simp only [he] at ha ⊢
      obtain ⟨r, hr⟩ := ha
      simp only [hr]
      exact ih _

end LinVerif.TagFilter
