/-
C08 helper lemmas, part 2: the inductive invariant of the replication model and its
preservation by every sub-step (handshake, connect, send phase) and every event.
-/
import LinVerif.Lemmas.C08Log

namespace LinVerif.Replication

/-- leader log `L` and follower log `F` agree on every position in `(lo, hi]` both hold -/
def Agr (L : Log) (lo hi : Int) (F : Log) : Prop :=
  ∀ i m m', lo < i → i ≤ hi → L.get i = some m → F.get i = some m' → m = m'

/-- leader-internal invariant (queue + the follower's consumer group) -/
structure LInt (L : Log) (cons gack : Int) : Prop where
  ack_ge : -1 ≤ L.ack
  ack_app : L.ack ≤ L.app
  ack_gack : L.ack ≤ gack
  gack_cons : gack ≤ cons
  cons_app : cons ≤ L.app ∨ cons = gack
  holes : NoHoles L

structure FInt (F : Log) : Prop where
  ack_ge : -1 ≤ F.ack
  ack_app : F.ack ≤ F.app
  holes : NoHoles F

/-- the image log `I` is a past state of `L`: not longer, and the pages up to its end are the same -/
def Pre (I L : Log) : Prop := I.app ≤ L.app ∧ ∀ i, i ≤ I.app → lookup i L.store = lookup i I.store

structure ImgOK (im : Img) (L F : Log) : Prop where
  lint : LInt im.L im.cons im.gack
  agr : Agr im.L im.gack im.cons F
  pre : Pre im.L L

/-- the invariant over the components it mentions -/
structure InvC (L : Log) (cons gack : Int) (F : Log) (chan : Chan) (stream : Stream)
    (img : Option Img) : Prop where
  lint : LInt L cons gack
  fint : FInt F
  k : chan = .ready → F.app ≤ cons
  sync : chan = .ready → stream ≠ .broken → cons = F.app
  agr : Agr L gack cons F
  img : ∀ im, img = some im → ImgOK im L F

@[reducible] def Inv (s : St) : Prop := InvC s.L s.cons s.gack s.F s.chan s.stream s.img

/-- invariant at event boundaries: a ready channel holds a stream -/
def BInv (s : St) : Prop := Inv s ∧ (s.chan = .ready → s.stream ≠ .none)

/-- the follower's held bytes are the leader's page content (histories WITHOUT leader tail loss) -/
def G (L F : Log) : Prop := ∀ i m', F.get i = some m' → i ≤ L.app ∧ lookup i L.store = some m'

/-- extra invariant of histories without leader tail loss -/
structure NLC (L : Log) (cons : Int) (F : Log) : Prop where
  cons_app : cons ≤ L.app
  f_app : F.app ≤ L.app
  g : G L F

@[reducible] def NL (s : St) : Prop := NLC s.L s.cons s.F

/-! ### Agr / Pre -/

theorem agr_empty_range {L F : Log} {lo hi : Int} (h : hi ≤ lo) : Agr L lo hi F := by
  intro i m m' h1 h2 _ _; omega

theorem agr_follower_holds_nothing {L F : Log} {lo hi : Int} (h : ∀ i, F.get i = none) : Agr L lo hi F := by
  intro i m m' _ _ _ hf; rw [h i] at hf; cases hf

theorem agr_leader_holds_nothing {L F : Log} {lo hi : Int} (h : ∀ i, L.get i = none) : Agr L lo hi F := by
  intro i m m' _ _ hl _; rw [h i] at hl; cases hl

theorem agr_mono {L F : Log} {lo hi lo' hi' : Int} (h : Agr L lo hi F) (h1 : lo ≤ lo') (h2 : hi' ≤ hi) :
    Agr L lo' hi' F := by
  intro i m m' a b c d; exact h i m m' (by omega) (by omega) c d

/-- the range may grow beyond what the follower holds -/
theorem agr_extend {L F : Log} {lo hi hi' : Int} (h : Agr L lo hi F) (hf : F.app ≤ hi) : Agr L lo hi' F := by
  intro i m m' a _ c d
  by_cases hi1 : i ≤ hi
  · exact h i m m' a hi1 c d
  · rw [get_none_of_gt (by omega)] at d; cases d

theorem agr_follower_put {L F : Log} {lo hi : Int} {m : Msg} (h : Agr L lo hi F) (hle : F.ack ≤ F.app)
    (hm : ∀ m', L.get (F.app + 1) = some m' → m' = m) : Agr L lo hi (F.put m) := by
  intro i x x' a b c d
  by_cases hi1 : i = F.app + 1
  · subst hi1
    rw [get_put_eq hle] at d
    cases d
    exact hm x c
  · rw [get_put_ne hi1] at d
    exact h i x x' a b c d

theorem agr_leader_put {L F : Log} {lo hi : Int} {m : Msg} (h : Agr L lo hi F) (hh : hi ≤ L.app) :
    Agr (L.put m) lo hi F := by
  intro i x x' a b c d
  rw [get_put_ne (by omega)] at c
  exact h i x x' a b c d

theorem agr_leader_setAck {L F : Log} {lo hi a : Int} (h : Agr L lo hi F) : Agr (L.setAck a) lo hi F := by
  intro i x x' p q c d
  exact h i x x' p q (get_setAck_some c) d

theorem pre_refl (L : Log) : Pre L L := ⟨Int.le_refl _, fun _ _ => rfl⟩

theorem pre_put {I L : Log} {m : Msg} (h : Pre I L) : Pre I (L.put m) := by
  refine ⟨by simp only [Log.put]; have := h.1; omega, ?_⟩
  intro i hi
  simp only [Log.put]
  rw [lookup_cons_ne (by have := h.1; omega)]
  exact h.2 i hi

theorem pre_setAppended {I L : Log} {k : Int} (h : Pre I L) (hk : L.app ≤ k) : Pre I (L.setAppended k) := by
  refine ⟨by simp only [Log.setAppended]; have := h.1; omega, ?_⟩
  intro i hi
  simp only [Log.setAppended]
  exact h.2 i hi

theorem pre_setAck {I L : Log} {a : Int} (h : Pre I L) : Pre I (L.setAck a) := by
  refine ⟨by rw [setAck_app]; exact h.1, ?_⟩
  intro i hi
  rw [setAck_store]
  exact h.2 i hi

/-- a message the image holds at `c` is the one the current leader log holds there -/
theorem pre_get_eq {I L : Log} {c : Int} {m m' : Msg} (h : Pre I L) (hi : I.get c = some m')
    (hl : L.get c = some m) : m' = m := by
  have a := get_some hi
  have b := get_some hl
  have e := h.2 c a.2.1
  rw [a.2.2, b.2.2] at e
  cases e; rfl

/-! ### InvC building blocks -/

theorem imgok_follower {im : Img} {L F F' : Log} (h : ImgOK im L F) (ha : Agr im.L im.gack im.cons F') :
    ImgOK im L F' := ⟨h.lint, ha, h.pre⟩

theorem imgok_leader {im : Img} {L L' F : Log} (h : ImgOK im L F) (hp : Pre im.L L') :
    ImgOK im L' F := ⟨h.lint, h.agr, hp⟩

/-- any non-ready channel state; the stream may be anything -/
theorem invc_notready {L : Log} {c g : Int} {F : Log} {ch ch' : Chan} {st st' : Stream} {im : Option Img}
    (h : InvC L c g F ch st im) (hc : ch' ≠ .ready) : InvC L c g F ch' st' im :=
  ⟨h.lint, h.fint, fun e => absurd e hc, fun e => absurd e hc, h.agr, h.img⟩

/-- the channel becomes ready with the replica index at the follower's next index -/
theorem invc_ready {L : Log} {c g : Int} {F : Log} {ch : Chan} {st st' : Stream} {im : Option Img}
    (h : InvC L c g F ch st im) (hc : c = F.app) : InvC L c g F .ready st' im :=
  ⟨h.lint, h.fint, fun _ => by omega, fun _ _ => hc, h.agr, h.img⟩

/-- stream changes that keep the `sync` obligation -/
theorem invc_stream {L : Log} {c g : Int} {F : Log} {ch : Chan} {st st' : Stream} {im : Option Img}
    (h : InvC L c g F ch st im) (hs : ch = .ready → st' ≠ .broken → st ≠ .broken) : InvC L c g F ch st' im :=
  ⟨h.lint, h.fint, h.k, fun e n => h.sync e (hs e n), h.agr, h.img⟩

/-- handshake branch "follower behind the group's ack": follower reset to `g`, replica index rewound to `g+1` -/
theorem invc_follower_reset {L : Log} {c g : Int} {F : Log} {ch : Chan} {st st' : Stream} {im : Option Img}
    (h : InvC L c g F ch st im) : InvC L g g (F.setAppended g) .ready st' im := by
  have hl := h.lint
  refine ⟨⟨hl.ack_ge, hl.ack_app, hl.ack_gack, Int.le_refl _, Or.inr rfl, hl.holes⟩,
    ⟨by simp only [Log.setAppended]; have := hl.ack_ge; have := hl.ack_gack; omega,
     by simp only [Log.setAppended]; omega, noHoles_setAppended⟩,
    fun _ => by simp only [Log.setAppended]; omega, fun _ _ => by simp only [Log.setAppended],
    agr_empty_range (Int.le_refl _), ?_⟩
  intro i hi
  exact imgok_follower (h.img i hi) (agr_follower_holds_nothing (fun _ => get_setAppended))

/-- handshake branch "rewind replica index and ack to the follower's appended index" -/
theorem invc_rewind {L : Log} {c g : Int} {F : Log} {ch : Chan} {st st' : Stream} {im : Option Img}
    (h : InvC L c g F ch st im) (hg : g ≤ F.app) : InvC L F.app F.app F .ready st' im := by
  have hl := h.lint
  exact ⟨⟨hl.ack_ge, hl.ack_app, by have := hl.ack_gack; omega, Int.le_refl _, Or.inr rfl, hl.holes⟩,
    h.fint, fun _ => Int.le_refl _, fun _ _ => rfl, agr_empty_range (Int.le_refl _), h.img⟩

/-- handshake branch "follower ahead of the leader's append index": everything jumps to the follower's index -/
theorem invc_reset_append {L : Log} {c g : Int} {F : Log} {ch : Chan} {st st' : Stream} {im : Option Img}
    (h : InvC L c g F ch st im) (hk : L.app ≤ F.app) :
    InvC (L.setAppended F.app) F.app F.app F .ready st' im := by
  have hf := h.fint
  refine ⟨⟨by simp only [Log.setAppended]; have := hf.ack_ge; have := hf.ack_app; omega,
      by simp only [Log.setAppended]; omega, by simp only [Log.setAppended]; omega,
      Int.le_refl _, Or.inr rfl, noHoles_setAppended⟩,
    hf, fun _ => Int.le_refl _, fun _ _ => rfl, agr_empty_range (Int.le_refl _), ?_⟩
  intro i hi
  exact imgok_leader (h.img i hi) (pre_setAppended (h.img i hi).pre hk)

/-! ### NLC building blocks -/

theorem g_follower_holds_nothing {L F : Log} (h : ∀ i, F.get i = none) : G L F := by
  intro i m' hf; rw [h i] at hf; cases hf

theorem nlc_follower_reset {L : Log} {c g : Int} {F : Log} (h : NLC L c F) (hg : g ≤ c) :
    NLC L g (F.setAppended g) :=
  ⟨by have := h.cons_app; omega, by simp only [Log.setAppended]; have := h.cons_app; omega,
   g_follower_holds_nothing (fun _ => get_setAppended)⟩

theorem nlc_rewind {L : Log} {c : Int} {F : Log} (h : NLC L c F) : NLC L F.app F :=
  ⟨h.f_app, h.f_app, h.g⟩

theorem nlc_reset_append {L : Log} {c : Int} {F : Log} (h : NLC L c F) :
    NLC (L.setAppended F.app) F.app F := by
  refine ⟨by simp only [Log.setAppended]; omega, by simp only [Log.setAppended]; omega, ?_⟩
  intro i m' hf
  have hb := get_some hf
  exact ⟨by simp only [Log.setAppended]; exact hb.2.1, by simp only [Log.setAppended]; exact (h.g i m' hf).2⟩

theorem nlc_consume {L : Log} {c : Int} {F : Log} (h : NLC L c F) (hle : c + 1 ≤ L.app) : NLC L (c + 1) F :=
  ⟨hle, h.f_app, h.g⟩

theorem nlc_deliver {L : Log} {c : Int} {F : Log} {m : Msg} (h : NLC L c F) (hc : c = F.app)
    (hle : c + 1 ≤ L.app) (hm : L.get (c + 1) = some m) (hf : F.ack ≤ F.app) : NLC L (c + 1) (F.put m) := by
  refine ⟨hle, by simp only [Log.put]; omega, ?_⟩
  intro i m' hg
  by_cases hi : i = F.app + 1
  · subst hi
    rw [get_put_eq hf] at hg
    cases hg
    rw [← hc]
    exact ⟨hle, (get_some hm).2.2⟩
  · rw [get_put_ne hi] at hg
    exact h.g i m' hg

theorem nlc_append {L : Log} {c : Int} {F : Log} {m : Msg} (h : NLC L c F) : NLC (L.put m) c F := by
  refine ⟨by simp only [Log.put]; have := h.cons_app; omega, by simp only [Log.put]; have := h.f_app; omega, ?_⟩
  intro i m' hf
  have hx := h.g i m' hf
  refine ⟨by simp only [Log.put]; omega, ?_⟩
  simp only [Log.put]
  rw [lookup_cons_ne (by omega)]
  exact hx.2

theorem nlc_flose {L : Log} {c : Int} {F : Log} (h : NLC L c F) (hl : -1 ≤ L.app) : NLC L c Log.empty := by
  refine ⟨h.cons_app, by simp only [Log.empty]; exact hl, g_follower_holds_nothing ?_⟩
  intro i; unfold Log.get Log.empty; dsimp only; split
  · rename_i hc; omega
  · rfl

theorem nlc_gc {L : Log} {c a : Int} {F : Log} (h : NLC L c F) : NLC (L.setAck a) c F :=
  ⟨by rw [setAck_app]; exact h.cons_app, by rw [setAck_app]; exact h.f_app,
   fun i m' hf => by rw [setAck_app, setAck_store]; exact h.g i m' hf⟩

/-- full agreement follows from `G` -/
theorem agreement_of_g {L F : Log} (h : G L F) {i : Int} {m m' : Msg} (hl : L.get i = some m)
    (hf : F.get i = some m') : m = m' := by
  have a := (get_some hl).2.2
  have b := (h i m' hf).2
  rw [a] at b; cases b; rfl

/-! ### sub-steps of `partition.replica` -/

theorem inv_mk {s' : St} {L : Log} {c g : Int} {F : Log} {ch : Chan} {st : Stream} {im : Option Img}
    (h : InvC L c g F ch st im) (e1 : s'.L = L) (e2 : s'.cons = c) (e3 : s'.gack = g) (e4 : s'.F = F)
    (e5 : s'.chan = ch) (e6 : s'.stream = st) (e7 : s'.img = im) : Inv s' := by
  subst e1 e2 e3 e4 e5 e6 e7; exact h

structure HsPost (s s' : St) (ok : Bool) : Prop where
  inv : Inv s'
  ok_ready : ok = true → s'.chan = .ready ∧ s'.stream = .none ∧ s'.cons = s'.F.app
  ok_idx : ok = true → s'.cons = (if s.F.app < s.gack then s.gack else s.F.app)
  fail : ok = false → s'.chan = .failure
  ackok : s'.gack ≠ s.gack → s'.gack ≤ s'.F.app
  nl : NL s → NL s'

theorem handshake_spec (cfg : Cfg) (s : St) (f : Fault) (h : Inv s) :
    HsPost s (handshake cfg s f).1 (handshake cfg s f).2 := by
  have hfail : ∀ st : Stream, HsPost s { s with chan := .failure, stream := st } false :=
    fun st => ⟨invc_notready h (fun e => by cases e), by simp, by simp, by simp, by simp, id⟩
  have hgc := h.lint.gack_cons
  unfold handshake replicaAckIndex resetReplicaIndex followerReset
  dsimp only
  split
  · exact hfail _
  split
  · exact hfail _
  split
  · -- equal
    rename_i heq
    have hc : s.cons = s.F.app := by omega
    refine ⟨inv_mk (invc_ready (st' := .none) h hc) rfl rfl rfl rfl rfl rfl rfl, fun _ => ⟨rfl, rfl, hc⟩, ?_, by simp, by simp, id⟩
    intro _
    dsimp only
    split <;> omega
  split
  · rename_i hlt
    split
    · exact hfail _
    · have e : s.gack + 1 - 1 = s.gack := by omega
      rw [e]
      refine ⟨inv_mk (invc_follower_reset (st' := .none) h) rfl rfl rfl rfl rfl rfl rfl, fun _ => ⟨rfl, rfl, rfl⟩, ?_, by simp, by simp,
        fun n => nlc_follower_reset n hgc⟩
      intro _
      dsimp only
      rw [if_pos hlt]
  · rename_i hne hge
    have e : s.F.app + 1 - 1 = s.F.app := by omega
    by_cases hah : aheadFires cfg s.F.app (s.L.app + 1) = true
    · simp only [hah, if_true, resetAppendIndex, ackGroup, e, Int.le_refl, and_self]
      have hk : s.L.app ≤ s.F.app := by
        unfold aheadFires at hah
        split at hah <;> simp at hah <;> omega
      refine ⟨inv_mk (invc_reset_append (st' := .none) h hk) rfl rfl rfl rfl rfl rfl rfl, fun _ => ⟨rfl, rfl, rfl⟩, ?_, by simp, by simp,
        fun n => nlc_reset_append n⟩
      intro _
      dsimp only
      rw [if_neg hge]
    · have hah' : aheadFires cfg s.F.app (s.L.app + 1) = false := by simpa using hah
      have hg : s.gack ≤ s.F.app := by omega
      simp only [hah', Bool.false_eq_true, if_false, ackGroup, e, Int.le_refl, and_true, hg, if_true]
      refine ⟨inv_mk (invc_rewind (st' := .none) h hg) rfl rfl rfl rfl rfl rfl rfl, fun _ => ⟨rfl, rfl, rfl⟩, ?_, by simp, by simp,
        fun n => nlc_rewind n⟩
      intro _
      dsimp only
      rw [if_neg hge]

structure CnPost (s s' : St) (ok : Bool) : Prop where
  inv : Inv s'
  same : s'.L = s.L ∧ s'.cons = s.cons ∧ s'.gack = s.gack ∧ s'.F = s.F ∧ s'.img = s.img
  ok_ready : ok = true → s'.chan = .ready ∧ s'.stream ≠ .none
  fail : ok = false → s'.chan = .failure

theorem connect_spec (s : St) (f : Fault) (h : Inv s) (hr : s.chan = .ready) :
    CnPost s (connect s f).1 (connect s f).2 := by
  unfold connect
  split
  · rename_i hs
    exact ⟨h, ⟨rfl, rfl, rfl, rfl, rfl⟩, fun _ => ⟨hr, hs⟩, by simp⟩
  · rename_i hs
    have hs' : s.stream = .none := by
      cases hst : s.stream <;> simp_all
    split
    · exact ⟨invc_notready h (fun e => by cases e), ⟨rfl, rfl, rfl, rfl, rfl⟩, by simp, by simp⟩
    · have hc : s.cons = s.F.app := h.sync hr (by rw [hs']; intro e; cases e)
      exact ⟨inv_mk (invc_ready (st' := .up) h hc) rfl rfl rfl rfl rfl rfl rfl, ⟨rfl, rfl, rfl, rfl, rfl⟩,
        fun _ => ⟨rfl, by simp⟩, by simp⟩

/-- consumed one message that was not delivered -/
theorem invc_consume_fail {L : Log} {c g : Int} {F : Log} {ch : Chan} {st st' : Stream} {im : Option Img}
    (h : InvC L c g F ch st im) (hk : F.app ≤ c) (hle : c + 1 ≤ L.app) : InvC L (c + 1) g F .failure st' im := by
  have hl := h.lint
  exact ⟨⟨hl.ack_ge, hl.ack_app, hl.ack_gack, by have := hl.gack_cons; omega, Or.inl hle, hl.holes⟩, h.fint,
    (fun e => by cases e), (fun e => by cases e), agr_extend h.agr hk, h.img⟩

/-- consumed one message and the follower appended it (it was the follower's next index) -/
theorem invc_deliver {L : Log} {c g : Int} {F : Log} {ch ch' : Chan} {st st' : Stream} {im : Option Img} {m : Msg}
    (h : InvC L c g F ch st im) (hc : c = F.app) (hle : c + 1 ≤ L.app) (hm : L.get (c + 1) = some m) :
    InvC L (c + 1) g (F.put m) ch' st' im := by
  have hl := h.lint
  have hf := h.fint
  refine ⟨⟨hl.ack_ge, hl.ack_app, hl.ack_gack, by have := hl.gack_cons; omega, Or.inl hle, hl.holes⟩,
    ⟨hf.ack_ge, by simp only [Log.put]; have := hf.ack_app; omega, noHoles_put hf.holes hf.ack_app⟩,
    fun _ => by simp only [Log.put]; omega, fun _ _ => by simp only [Log.put]; omega, ?_, ?_⟩
  · apply agr_follower_put (agr_extend h.agr (by omega)) hf.ack_app
    intro m' hm'
    rw [← hc, hm] at hm'
    cases hm'; rfl
  · intro i hi
    have hio := h.img i hi
    refine imgok_follower hio (agr_follower_put hio.agr hf.ack_app ?_)
    intro m' hm'
    rw [← hc] at hm'
    exact pre_get_eq hio.pre hm' hm

/-- the group's ack moves forward inside `[gack, cons]` -/
theorem invc_ack {L : Log} {c g a : Int} {F : Log} {ch : Chan} {st : Stream} {im : Option Img}
    (h : InvC L c g F ch st im) (h1 : g ≤ a) (h2 : a ≤ c) : InvC L c a F ch st im := by
  have hl := h.lint
  refine ⟨⟨hl.ack_ge, hl.ack_app, by have := hl.ack_gack; omega, h2, ?_, hl.holes⟩, h.fint, h.k, h.sync,
    agr_mono h.agr h1 (Int.le_refl _), h.img⟩
  rcases hl.cons_app with hx | hx
  · exact Or.inl hx
  · exact Or.inr (by omega)

structure SpPost (s s' : St) (o : Out) : Prop where
  inv : Inv s'
  stream : s'.stream = s.stream
  label : o ≠ .mismatch ∧ o ≠ .ignored
  ackok : s'.gack ≠ s.gack → s'.gack ≤ s'.F.app
  fmono : s.F.app ≤ s'.F.app
  nl : NL s → NL s'

theorem sendPhase_spec (s : St) (f : Fault) (h : Inv s) (hr : s.chan = .ready) :
    SpPost s (sendPhase s f).1 (sendPhase s f).2 := by
  have hl := h.lint
  have hc1 : -1 ≤ s.cons := by have := hl.ack_ge; have := hl.ack_gack; have := hl.gack_cons; omega
  unfold sendPhase consume
  dsimp only
  split
  · rename_i hle
    dsimp only
    rw [if_neg (by omega)]
    obtain ⟨m, hm⟩ := hl.holes (s.cons + 1) (by have := hl.ack_gack; have := hl.gack_cons; omega) hle
    rw [hm]
    dsimp only
    unfold replicaSend replicaLog
    dsimp only
    have hk := h.k hr
    split
    · -- send failed
      exact ⟨inv_mk (invc_consume_fail (st' := s.stream) h hk hle) rfl rfl rfl rfl rfl rfl rfl, rfl, by simp, by simp, Int.le_refl _,
        fun n => nlc_consume n hle⟩
    · rename_i hs
      have hup : s.stream = .up := by
        cases hst : s.stream <;> simp_all
      have hc : s.cons = s.F.app := h.sync hr (by rw [hup]; intro e; cases e)
      rw [if_neg (by omega : ¬ (s.cons + 1 ≠ s.F.app + 1))]
      dsimp only
      split
      · -- recv failed
        exact ⟨inv_mk (invc_deliver (ch' := .failure) (st' := s.stream) h hc hle hm) rfl rfl rfl rfl rfl rfl rfl, rfl, by simp,
          by simp, by simp only [Log.put]; omega, fun n => nlc_deliver n hc hle hm h.fint.ack_app⟩
      · rw [if_pos (by omega : s.F.app + 1 = s.cons + 1)]
        unfold ackGroup
        dsimp only
        rw [if_pos ⟨by have := hl.gack_cons; omega, by omega⟩]
        refine ⟨inv_mk (invc_ack (invc_deliver (ch' := s.chan) (st' := s.stream) h hc hle hm) (a := s.F.app + 1) (by have := hl.gack_cons; omega) (by omega))
          rfl rfl rfl rfl rfl rfl rfl, rfl, by simp, ?_, by simp only [Log.put]; omega,
          fun n => nlc_deliver n hc hle hm h.fint.ack_app⟩
        intro _
        simp only [Log.put]; omega
  · dsimp only
    rw [if_pos (by decide)]
    exact ⟨h, rfl, by simp, by simp, Int.le_refl _, id⟩

/-! ### one `partition.replica` call -/

/-- what every event guarantees -/
structure EvPost (s s' : St) (o : Out) : Prop where
  binv : BInv s'
  label : o ≠ .mismatch ∧ o ≠ .ignored
  ackok : s'.gack ≠ s.gack → s'.gack ≤ s'.F.app
  nl : NL s → NL s'

theorem binv_of_notready {s : St} (h : Inv s) (hc : s.chan ≠ .ready) : BInv s :=
  ⟨h, fun e => absurd e hc⟩

structure IrPost (s s' : St) (ok : Bool) : Prop where
  inv : Inv s'
  ok_ready : ok = true → s'.chan = .ready
  fail : ok = false → s'.chan = .failure
  ackok : s'.gack ≠ s.gack → s'.gack ≤ s'.F.app
  nl : NL s → NL s'

theorem isReady_spec (cfg : Cfg) (s : St) (f : Fault) (h : Inv s) :
    IrPost s (isReady cfg s f).1 (isReady cfg s f).2 := by
  unfold isReady
  split
  · rename_i hr
    exact ⟨h, fun _ => hr, by simp, by simp, id⟩
  split
  · exact ⟨invc_notready h (fun e => by cases e), by simp, by simp, by simp, id⟩
  · have hs := handshake_spec cfg s f h
    exact ⟨hs.inv, fun e => (hs.ok_ready e).1, hs.fail, hs.ackok, hs.nl⟩

theorem replicaStep_spec (cfg : Cfg) (s : St) (f : Fault) (h : Inv s) :
    EvPost s (replicaStep cfg s f).1 (replicaStep cfg s f).2 := by
  unfold replicaStep
  have hi := isReady_spec cfg s f h
  generalize isReady cfg s f = r at hi ⊢
  obtain ⟨s1, ok⟩ := r
  dsimp only at hi ⊢
  cases ok
  · have hf := hi.fail rfl
    simp only [Bool.false_eq_true, if_false]
    refine ⟨binv_of_notready hi.inv (by rw [hf]; intro e; cases e), ?_, hi.ackok, hi.nl⟩
    split <;> simp
  · simp only [if_true]
    have hr := hi.ok_ready rfl
    have hc := connect_spec s1 f hi.inv hr
    generalize connect s1 f = r2 at hc ⊢
    obtain ⟨s2, ok2⟩ := r2
    dsimp only at hc ⊢
    cases ok2
    · have hf := hc.fail rfl
      simp only [Bool.false_eq_true, if_false]
      have hnl : NL s1 → NL s2 := by
        intro n; unfold NL; rw [hc.same.1, hc.same.2.1, hc.same.2.2.2.1]; exact n
      refine ⟨binv_of_notready hc.inv (by rw [hf]; intro e; cases e), by simp, ?_, fun n => hnl (hi.nl n)⟩
      rw [hc.same.2.2.1, hc.same.2.2.2.1]
      exact hi.ackok
    · simp only [if_true]
      have hrd := hc.ok_ready rfl
      have hsp := sendPhase_spec s2 f hc.inv hrd.1
      have hnl : NL s1 → NL s2 := by
        intro n; unfold NL; rw [hc.same.1, hc.same.2.1, hc.same.2.2.2.1]; exact n
      refine ⟨⟨hsp.inv, fun _ => by rw [hsp.stream]; exact hrd.2⟩, hsp.label, ?_, fun n => hsp.nl (hnl (hi.nl n))⟩
      intro hne
      by_cases h23 : (sendPhase s2 f).1.gack = s2.gack
      · have h1 : s1.gack ≠ s.gack := by rw [← hc.same.2.2.1, ← h23]; exact hne
        have := hi.ackok h1
        have hm := hsp.fmono
        rw [hc.same.2.2.2.1] at hm
        rw [h23, hc.same.2.2.1]
        omega
      · exact hsp.ackok h23

/-! ### events -/

theorem invc_append {L : Log} {c g : Int} {F : Log} {ch : Chan} {st : Stream} {im : Option Img} {m : Msg}
    (h : InvC L c g F ch st im) : InvC (L.put m) c g F ch st im := by
  have hl := h.lint
  refine ⟨⟨hl.ack_ge, by simp only [Log.put]; have := hl.ack_app; omega, hl.ack_gack, hl.gack_cons, ?_,
      noHoles_put hl.holes hl.ack_app⟩, h.fint, h.k, h.sync, ?_, ?_⟩
  · rcases hl.cons_app with hx | hx
    · exact Or.inl (by simp only [Log.put]; omega)
    · exact Or.inr hx
  · rcases hl.cons_app with hx | hx
    · exact agr_leader_put h.agr hx
    · exact agr_empty_range (by omega)
  · intro i hi
    exact imgok_leader (h.img i hi) (pre_put (h.img i hi).pre)

theorem invc_flose {L : Log} {c g : Int} {F : Log} {ch : Chan} {st st' : Stream} {im : Option Img}
    (h : InvC L c g F ch st im) (hs : ch = .ready → st' = .broken) : InvC L c g Log.empty ch st' im := by
  have hl := h.lint
  have hn : ∀ i, Log.empty.get i = none := by
    intro i; unfold Log.get Log.empty; dsimp only; split
    · rename_i hc; omega
    · rfl
  refine ⟨hl, ⟨by simp [Log.empty], by simp [Log.empty], noHoles_empty⟩, ?_, ?_, agr_follower_holds_nothing hn, ?_⟩
  · intro _
    simp only [Log.empty]
    have := hl.ack_ge; have := hl.ack_gack; have := hl.gack_cons; omega
  · intro e n; exact absurd (hs e) n
  · intro i hi
    exact imgok_follower (h.img i hi) (agr_follower_holds_nothing hn)

theorem invc_snap {L : Log} {c g o : Int} {F : Log} {ch : Chan} {st : Stream} {im : Option Img}
    (h : InvC L c g F ch st im) : InvC L c g F ch st (some { L := L, cons := c, gack := g, oack := o }) := by
  refine ⟨h.lint, h.fint, h.k, h.sync, h.agr, ?_⟩
  intro i hi
  cases hi
  exact ⟨h.lint, h.agr, pre_refl L⟩

theorem invc_restore {L : Log} {c g : Int} {F : Log} {ch : Chan} {st st' : Stream} {im : Img} {oi : Option Img}
    (h : InvC L c g F ch st oi) (hi : oi = some im) : InvC im.L im.cons im.gack F .init st' oi := by
  have ho := h.img im hi
  refine ⟨ho.lint, h.fint, (fun e => by cases e), (fun e => by cases e), ho.agr, ?_⟩
  intro j hj
  rw [hi] at hj
  cases hj
  exact ⟨ho.lint, ho.agr, pre_refl _⟩

theorem invc_gc {L : Log} {c g a : Int} {F : Log} {ch : Chan} {st : Stream} {im : Option Img}
    (h : InvC L c g F ch st im) (ha : a ≤ g) : InvC (L.setAck a) c g F ch st im := by
  have hl := h.lint
  refine ⟨⟨?_, ?_, ?_, hl.gack_cons, by rw [setAck_app]; exact hl.cons_app, noHoles_setAck hl.holes⟩,
    h.fint, h.k, h.sync, agr_leader_setAck h.agr, ?_⟩
  · rcases setAck_ack_cases (l := L) (a := a) with hx | hx
    · have := hl.ack_ge; omega
    · rw [hx]; exact hl.ack_ge
  · rw [setAck_app]
    rcases setAck_ack_cases (l := L) (a := a) with hx | hx
    · omega
    · rw [hx]; exact hl.ack_app
  · rcases setAck_ack_cases (l := L) (a := a) with hx | hx
    · omega
    · rw [hx]; exact hl.ack_gack
  · intro i hi
    exact imgok_leader (h.img i hi) (pre_setAck (h.img i hi).pre)

def Ev.isRestart : Ev → Bool
  | .lrestore => true
  | .lrestart => true
  | _ => false

structure NextPost (s s' : St) (o : Out) (e : Ev) : Prop where
  binv : BInv s'
  label : o ≠ .mismatch ∧ o ≠ .ignored
  ackok : e.isRestart = false → s'.gack ≠ s.gack → s'.gack ≤ s'.F.app
  nl : e ≠ .lrestore → NL s → NL s'

theorem nextpost_of_evpost {s s' s0 : St} {o : Out} {e : Ev} (h : EvPost s0 s' o) (hg : s0.gack = s.gack)
    (hn : NL s → NL s0) :
    NextPost s s' o e := ⟨h.binv, h.label, fun _ => by rw [← hg]; exact h.ackok, fun _ n => h.nl (hn n)⟩

theorem next_spec (cfg : Cfg) (s : St) (e : Ev) (h : BInv s) :
    NextPost s (next cfg s e).1 (next cfg s e).2 e := by
  have hi := h.1
  have hl := hi.lint
  cases e with
  | append m =>
    simp only [next]
    refine ⟨?_, by simp, ?_, ?_⟩
    · split
      · exact h
      · exact ⟨inv_mk (invc_append hi) rfl rfl rfl rfl rfl rfl rfl, h.2⟩
    · intro _; split <;> simp
    · intro _ n
      split
      · exact n
      · exact nlc_append n
  | step f =>
    simp only [next]
    split
    · exact ⟨h, by simp, by simp, fun _ n => n⟩
    · exact nextpost_of_evpost (replicaStep_spec cfg s f hi) rfl id
  | frestart =>
    simp only [next]
    refine ⟨⟨inv_mk (invc_stream (st' := brokenStream s.stream) hi ?_) rfl rfl rfl rfl rfl rfl rfl, ?_⟩, by simp, by simp, fun _ n => n⟩
    · intro hr hnb
      have := h.2 hr
      cases hs : s.stream <;> simp_all [brokenStream]
    · intro hr
      have := h.2 hr
      cases hs : s.stream <;> simp_all [brokenStream]
  | flose =>
    have hla : -1 ≤ s.L.app := by have := hl.ack_ge; have := hl.ack_app; omega
    simp only [next]
    refine ⟨⟨inv_mk (invc_flose (st' := brokenStream s.stream) hi ?_) rfl rfl rfl rfl rfl rfl rfl, ?_⟩, by simp, by simp,
      fun _ n => nlc_flose n hla⟩
    · intro hr
      have := h.2 hr
      cases hs : s.stream <;> simp_all [brokenStream]
    · intro hr
      have := h.2 hr
      cases hs : s.stream <;> simp_all [brokenStream]
  | lsnap =>
    simp only [next]
    exact ⟨⟨inv_mk (invc_snap (o := s.oack) hi) rfl rfl rfl rfl rfl rfl rfl, h.2⟩, by simp, by simp, fun _ n => n⟩
  | lrestore =>
    simp only [next]
    split
    · exact ⟨h, by simp, by simp, fun _ n => n⟩
    · rename_i im him
      have ho := hi.img im him
      refine ⟨binv_of_notready (inv_mk (invc_restore (st' := .none) hi him) rfl rfl ?_ rfl rfl rfl rfl) (by simp [reopenLeader]),
        by simp, by simp [Ev.isRestart], fun x => absurd rfl x⟩
      simp only [reopenLeader]
      rw [if_neg (by have := ho.lint.ack_gack; omega)]
  | lrestart =>
    simp only [next]
    refine ⟨binv_of_notready (inv_mk (invc_notready (ch' := .init) (st' := .none) hi (fun e => by cases e)) rfl rfl ?_ rfl rfl rfl rfl) (by simp [reopenLeader]),
      by simp, by simp [Ev.isRestart], fun _ n => n⟩
    simp only [reopenLeader]
    rw [if_neg (by have := hl.ack_gack; omega)]
  | offline =>
    simp only [next]
    exact ⟨⟨hi, h.2⟩, by simp, by simp, fun _ n => n⟩
  | online f =>
    simp only [next]
    split
    · exact nextpost_of_evpost (replicaStep_spec cfg _ f (inv_mk hi rfl rfl rfl rfl rfl rfl rfl)) rfl id
    · exact ⟨⟨hi, h.2⟩, by simp, by simp, fun _ n => n⟩
  | gc =>
    have key : ∀ a, a ≤ s.gack → NextPost s (if 0 ≤ a then { s with L := s.L.setAck a } else s) Out.idle .gc := by
      intro a ha
      refine ⟨?_, by simp, ?_, ?_⟩
      · split
        · exact ⟨inv_mk (invc_gc hi ha) rfl rfl rfl rfl rfl rfl rfl, h.2⟩
        · exact h
      · intro _; split <;> simp
      · intro _ n
        split
        · exact nlc_gc n
        · exact n
    simp only [next]
    exact key _ (by split <;> split <;> omega)
  | oack n =>
    simp only [next]
    refine ⟨?_, by simp, ?_, ?_⟩
    · split
      · exact ⟨inv_mk hi rfl rfl rfl rfl rfl rfl rfl, h.2⟩
      · exact h
    · intro _; split <;> simp
    · intro _ n
      split
      · exact n
      · exact n

/-! ### all event sequences -/

theorem binv_init : BInv St.init := by
  have hn : ∀ i, Log.empty.get i = none := by
    intro i; unfold Log.get Log.empty; dsimp only; split
    · rename_i hc; omega
    · rfl
  refine ⟨⟨⟨by simp [St.init, Log.empty], by simp [St.init, Log.empty], by simp [St.init, Log.empty],
      by simp [St.init], Or.inl (by simp [St.init, Log.empty]), noHoles_empty⟩,
    ⟨by simp [St.init, Log.empty], by simp [St.init, Log.empty], noHoles_empty⟩,
    (fun e => by simp [St.init] at e), (fun e => by simp [St.init] at e),
    agr_follower_holds_nothing hn, (fun im e => by simp [St.init] at e)⟩, fun e => by simp [St.init] at e⟩

theorem nl_init : NL St.init := by
  refine ⟨by simp [St.init, Log.empty], by simp [St.init, Log.empty], g_follower_holds_nothing ?_⟩
  intro i; unfold Log.get St.init Log.empty; dsimp only; split
  · rename_i hc; omega
  · rfl

theorem binv_foldl (cfg : Cfg) (evs : List Ev) : ∀ s, BInv s →
    BInv (evs.foldl (fun s e => (next cfg s e).1) s) := by
  induction evs with
  | nil => intro s h; exact h
  | cons e t ih => intro s h; exact ih _ (next_spec cfg s e h).binv

theorem binv_run (cfg : Cfg) (evs : List Ev) : BInv (run cfg evs) :=
  binv_foldl cfg evs _ binv_init

/-- histories without leader tail loss -/
def NoLoss (evs : List Ev) : Prop := ∀ e ∈ evs, e ≠ Ev.lrestore

theorem nl_foldl (cfg : Cfg) (evs : List Ev) (hn : NoLoss evs) : ∀ s, BInv s → NL s →
    NL (evs.foldl (fun s e => (next cfg s e).1) s) := by
  induction evs with
  | nil => intro s _ n; exact n
  | cons e t ih =>
    intro s h n
    have hp := next_spec cfg s e h
    exact ih (fun x hx => hn x (List.mem_cons_of_mem _ hx)) _ hp.binv (hp.nl (hn e List.mem_cons_self) n)

theorem nl_run (cfg : Cfg) (evs : List Ev) (hn : NoLoss evs) : NL (run cfg evs) :=
  nl_foldl cfg evs hn _ binv_init nl_init

end LinVerif.Replication
