/-
C08 helper lemmas, part 2: the per-follower invariant `InvC` of the replication model over the
components it mentions, and one lemma per way those components change.
-/
import LinVerif.Lemmas.C08Log

namespace LinVerif.Replication

/-- leader log `L` and follower log `F` agree on every position in `(lo, hi]` both hold -/
def Agr (L : Log) (lo hi : Int) (F : Log) : Prop :=
  ∀ i m m', lo < i → i ≤ hi → L.get i = some m → F.get i = some m' → m = m'

/-- leader-internal invariant (queue + one follower's consumer group); `L.ack ≤ gack` is kept
separately (`InvC.ackg`) because it does not hold for a group that IsExpire has stopped -/
structure LInt (L : Log) (cons gack : Int) : Prop where
  ack_ge : -1 ≤ L.ack
  ack_app : L.ack ≤ L.app
  gack_ge : -1 ≤ gack
  gack_cons : gack ≤ cons
  cons_app : cons ≤ L.app ∨ cons = gack
  cons_le : cons ≤ L.app + 1
  holes : NoHoles L

structure FInt (F : Log) : Prop where
  ack_ge : -1 ≤ F.ack
  ack_app : F.ack ≤ F.app
  holes : NoHoles F

/-- the image log `I` is a past state of `L`: not longer, and the pages up to its end are the same -/
def Pre (I L : Log) : Prop := I.app ≤ L.app ∧ ∀ i, i ≤ I.app → lookup i L.store = lookup i I.store

/-- one follower's view of a saved image: the queue and that follower's group positions -/
structure ImgV where
  L : Log
  cons : Int
  gack : Int

def Img.va (i : Img) : ImgV := { L := i.L, cons := i.cons, gack := i.gack }
def Img.vb (i : Img) : ImgV := { L := i.L, cons := i.cons2, gack := i.gack2 }

structure ImgOK (im : ImgV) (L F : Log) : Prop where
  lint : LInt im.L im.cons im.gack
  agr : Agr im.L im.gack im.cons F
  pre : Pre im.L L

/-- the invariant of ONE follower's channel over the components it mentions
(`stp`: the group has been stopped by IsExpire) -/
structure InvC (L : Log) (cons gack : Int) (F : Log) (chan : Chan) (stream : Stream) (dz stp : Bool)
    (iv : List ImgV) : Prop where
  lint : LInt L cons gack
  ackg : stp = false → L.ack ≤ gack
  fint : FInt F
  k : chan = .ready → F.app ≤ cons
  sync : chan = .ready → dz = false → stream ≠ .broken → cons = F.app
  agr : Agr L gack cons F
  img : ∀ im, im ∈ iv → ImgOK im L F

/-- the follower's held bytes are the leader's page content (histories WITHOUT leader tail loss) -/
def G (L F : Log) : Prop := ∀ i m', F.get i = some m' → i ≤ L.app ∧ lookup i L.store = some m'

/-- extra per-follower invariant of histories without leader tail loss -/
structure NLC (L : Log) (cons gack : Int) (F : Log) : Prop where
  cons_app : cons ≤ L.app
  f_app : F.app ≤ L.app
  f_ack : F.ack ≤ gack
  g : G L F

/-! ### Agr / Pre -/

theorem agr_empty_range {L F : Log} {lo hi : Int} (h : hi ≤ lo) : Agr L lo hi F := by
  intro i m m' h1 h2 _ _; omega

theorem agr_follower_holds_nothing {L F : Log} {lo hi : Int} (h : ∀ i, F.get i = none) : Agr L lo hi F := by
  intro i m m' _ _ _ hf; rw [h i] at hf; cases hf

theorem agr_leader_holds_nothing {L F : Log} {lo hi : Int} (h : ∀ i, L.get i = none) : Agr L lo hi F := by
  intro i m m' _ _ hl _; rw [h i] at hl; cases hl

theorem agr_mono {L F : Log} {lo hi lo' hi' : Int} (h : Agr L lo hi F) (h1 : lo ≤ lo') (h2 : hi' ≤ hi) :
    Agr L lo' hi' F := by
  intro i m m' a b c d; exact h i m m' (by omega) (by omega) c d

/-- the range may grow beyond what the follower holds -/
theorem agr_extend {L F : Log} {lo hi hi' : Int} (h : Agr L lo hi F) (hf : F.app ≤ hi) : Agr L lo hi' F := by
  intro i m m' a _ c d
  by_cases hi1 : i ≤ hi
  · exact h i m m' a hi1 c d
  · rw [get_none_of_gt (by omega)] at d; cases d

theorem agr_follower_put {L F : Log} {lo hi : Int} {m : Msg} (h : Agr L lo hi F) (hle : F.ack ≤ F.app)
    (hm : ∀ m', L.get (F.app + 1) = some m' → m' = m) : Agr L lo hi (F.put m) := by
  intro i x x' a b c d
  by_cases hi1 : i = F.app + 1
  · subst hi1
    rw [get_put_eq hle] at d
    cases d
    exact hm x c
  · rw [get_put_ne hi1] at d
    exact h i x x' a b c d

theorem agr_leader_put {L F : Log} {lo hi : Int} {m : Msg} (h : Agr L lo hi F) (hh : hi ≤ L.app) :
    Agr (L.put m) lo hi F := by
  intro i x x' a b c d
  rw [get_put_ne (by omega)] at c
  exact h i x x' a b c d

theorem agr_leader_setAck {L F : Log} {lo hi a : Int} (h : Agr L lo hi F) : Agr (L.setAck a) lo hi F := by
  intro i x x' p q c d
  exact h i x x' p q (get_setAck_some c) d

theorem pre_refl (L : Log) : Pre L L := ⟨Int.le_refl _, fun _ _ => rfl⟩

theorem pre_put {I L : Log} {m : Msg} (h : Pre I L) : Pre I (L.put m) := by
  refine ⟨by simp only [Log.put]; have := h.1; omega, ?_⟩
  intro i hi
  simp only [Log.put]
  rw [lookup_cons_ne (by have := h.1; omega)]
  exact h.2 i hi

theorem pre_setAppended {I L : Log} {k : Int} (h : Pre I L) (hk : L.app ≤ k) : Pre I (L.setAppended k) := by
  refine ⟨by simp only [Log.setAppended]; have := h.1; omega, ?_⟩
  intro i hi
  simp only [Log.setAppended]
  exact h.2 i hi

theorem pre_setAck {I L : Log} {a : Int} (h : Pre I L) : Pre I (L.setAck a) := by
  refine ⟨by rw [setAck_app]; exact h.1, ?_⟩
  intro i hi
  rw [setAck_store]
  exact h.2 i hi

/-- a message the image holds at `c` is the one the current leader log holds there -/
theorem pre_get_eq {I L : Log} {c : Int} {m m' : Msg} (h : Pre I L) (hi : I.get c = some m')
    (hl : L.get c = some m) : m' = m := by
  have a := get_some hi
  have b := get_some hl
  have e := h.2 c a.2.1
  rw [a.2.2, b.2.2] at e
  cases e; rfl

/-! ### InvC building blocks -/

section
variable {L : Log} {c g : Int} {F : Log} {ch ch' : Chan} {st st' : Stream} {dz dz' stp : Bool} {iv : List ImgV}

theorem imgok_follower {im : ImgV} {L F F' : Log} (h : ImgOK im L F) (ha : Agr im.L im.gack im.cons F') :
    ImgOK im L F' := ⟨h.lint, ha, h.pre⟩

theorem imgok_leader {im : ImgV} {L L' F : Log} (h : ImgOK im L F) (hp : Pre im.L L') :
    ImgOK im L' F := ⟨h.lint, h.agr, hp⟩

theorem lint_cons_ge (h : LInt L c g) : -1 ≤ c := by
  have := h.gack_ge; have := h.gack_cons; omega

/-- any non-ready channel state; the stream and the ghost flag may be anything -/
theorem invc_notready (h : InvC L c g F ch st dz stp iv) (hc : ch' ≠ .ready) : InvC L c g F ch' st' dz' stp iv :=
  ⟨h.lint, h.ackg, h.fint, fun e => absurd e hc, fun e => absurd e hc, h.agr, h.img⟩

/-- the channel becomes ready with the replica index at the follower's next index -/
theorem invc_ready (h : InvC L c g F ch st dz stp iv) (hc : c = F.app) : InvC L c g F .ready st' dz' stp iv :=
  ⟨h.lint, h.ackg, h.fint, fun _ => by omega, fun _ _ _ => hc, h.agr, h.img⟩

/-- stream / ghost changes that keep the `sync` obligation -/
theorem invc_stream (h : InvC L c g F ch st dz stp iv)
    (hs : ch = .ready → dz' = false → st' ≠ .broken → dz = false ∧ st ≠ .broken) : InvC L c g F ch st' dz' stp iv :=
  ⟨h.lint, h.ackg, h.fint, h.k, fun e d n => h.sync e (hs e d n).1 (hs e d n).2, h.agr, h.img⟩

/-- handshake branch "follower behind the group's ack": follower reset to `g`, replica index rewound to `g+1` -/
theorem invc_follower_reset (h : InvC L c g F ch st dz stp iv) : InvC L g g (F.setAppended g) .ready st' dz' stp iv := by
  have hl := h.lint
  refine ⟨⟨hl.ack_ge, hl.ack_app, hl.gack_ge, Int.le_refl _, Or.inr rfl, by have := hl.gack_cons; have := hl.cons_le; omega, hl.holes⟩,
    h.ackg,
    ⟨by simp only [Log.setAppended]; exact hl.gack_ge,
     by simp only [Log.setAppended]; omega, noHoles_setAppended⟩,
    fun _ => by simp only [Log.setAppended]; omega, fun _ _ _ => by simp only [Log.setAppended],
    agr_empty_range (Int.le_refl _), ?_⟩
  intro i hi
  exact imgok_follower (h.img i hi) (agr_follower_holds_nothing (fun _ => get_setAppended))

/-- handshake branch "rewind replica index and ack to the follower's appended index" -/
theorem invc_rewind (h : InvC L c g F ch st dz stp iv) (hg : g ≤ F.app) (hle : F.app ≤ L.app + 1) :
    InvC L F.app F.app F .ready st' dz' stp iv := by
  have hl := h.lint
  exact ⟨⟨hl.ack_ge, hl.ack_app, by have := hl.gack_ge; omega, Int.le_refl _, Or.inr rfl, hle, hl.holes⟩,
    fun e => by have := h.ackg e; omega,
    h.fint, fun _ => Int.le_refl _, fun _ _ _ => rfl, agr_empty_range (Int.le_refl _), h.img⟩

/-- handshake branch "follower ahead of the leader's append index": everything jumps to the follower's index -/
theorem invc_reset_append (h : InvC L c g F ch st dz stp iv) (hk : L.app ≤ F.app) :
    InvC (L.setAppended F.app) F.app F.app F .ready st' dz' stp iv := by
  have hf := h.fint
  have hfa : -1 ≤ F.app := by have := hf.ack_ge; have := hf.ack_app; omega
  refine ⟨⟨by simp only [Log.setAppended]; exact hfa,
      by simp only [Log.setAppended]; omega, hfa,
      Int.le_refl _, Or.inr rfl, by simp only [Log.setAppended]; omega, noHoles_setAppended⟩,
    fun _ => by simp only [Log.setAppended]; omega,
    hf, fun _ => Int.le_refl _, fun _ _ _ => rfl, agr_empty_range (Int.le_refl _), ?_⟩
  intro i hi
  exact imgok_leader (h.img i hi) (pre_setAppended (h.img i hi).pre hk)

/-- the OTHER follower's handshake reset the leader's append index to `k`: the queue jumps to `k`
and so does this group unless it is stopped; if this channel was ready the ghost flag is raised -/
theorem invc_other_reset_append {k : Int} (h : InvC L c g F ch st dz stp iv) (hk : L.app ≤ k) (hc : c ≤ k)
    (hd : ch = .ready → dz' = true) :
    InvC (L.setAppended k) (if stp = true then c else k) (if stp = true then g else k) F ch st dz' stp iv := by
  have hl := h.lint
  have hk1 : -1 ≤ k := by have := hl.ack_ge; have := hl.ack_app; omega
  have himg : ∀ im, im ∈ iv → ImgOK im (L.setAppended k) F := fun i hi =>
    imgok_leader (h.img i hi) (pre_setAppended (h.img i hi).pre hk)
  have hsync : ch = .ready → dz' = false → st ≠ .broken → False := by
    intro e d _; rw [hd e] at d; cases d
  cases stp with
  | true =>
    simp only [if_true]
    exact ⟨⟨by simp only [Log.setAppended]; exact hk1, by simp only [Log.setAppended]; omega, hl.gack_ge, hl.gack_cons,
        Or.inl (by simp only [Log.setAppended]; exact hc), by simp only [Log.setAppended]; omega, noHoles_setAppended⟩,
      (fun e => by cases e), h.fint, h.k, (fun e d n => (hsync e d n).elim),
      agr_leader_holds_nothing (fun _ => get_setAppended), himg⟩
  | false =>
    simp only [Bool.false_eq_true, if_false]
    exact ⟨⟨by simp only [Log.setAppended]; exact hk1, by simp only [Log.setAppended]; omega, hk1,
        Int.le_refl _, Or.inr rfl, by simp only [Log.setAppended]; omega, noHoles_setAppended⟩,
      (fun _ => by simp only [Log.setAppended]; omega), h.fint, (fun e => by have := h.k e; omega),
      (fun e d n => (hsync e d n).elim), agr_leader_holds_nothing (fun _ => get_setAppended), himg⟩

/-- Connect created the stream -/
theorem invc_connect (h : InvC L c g F .ready .none dz stp iv) : InvC L c g F .ready .up dz stp iv :=
  ⟨h.lint, h.ackg, h.fint, h.k, fun e d _ => h.sync e d (fun x => by cases x), h.agr, h.img⟩

/-- consumed one message that was not delivered -/
theorem invc_consume_fail (h : InvC L c g F ch st dz stp iv) (hk : F.app ≤ c) (hle : c + 1 ≤ L.app) :
    InvC L (c + 1) g F .failure st' dz' stp iv := by
  have hl := h.lint
  exact ⟨⟨hl.ack_ge, hl.ack_app, hl.gack_ge, by have := hl.gack_cons; omega, Or.inl hle, by omega, hl.holes⟩, h.ackg, h.fint,
    (fun e => by cases e), (fun e => by cases e), agr_extend h.agr hk, h.img⟩

/-- consumed one message, offered it, and the follower did not append it (its next index is another
one, or its Put failed) while the answer arrived: the state stays as it is with the replica index one
further; the ghost flag marks the channel as out of step -/
theorem invc_consume_mismatch (h : InvC L c g F ch st dz stp iv) (hk : F.app ≤ c) (hle : c + 1 ≤ L.app) :
    InvC L (c + 1) g F ch' st true stp iv := by
  have hl := h.lint
  exact ⟨⟨hl.ack_ge, hl.ack_app, hl.gack_ge, by have := hl.gack_cons; omega, Or.inl hle, by omega, hl.holes⟩, h.ackg, h.fint,
    (fun _ => by omega), (fun _ d _ => by cases d), agr_extend h.agr hk, h.img⟩

/-- consumed one message and the follower appended it (it was the follower's next index) -/
theorem invc_deliver {m : Msg} (h : InvC L c g F ch st dz stp iv) (hc : c = F.app) (hle : c + 1 ≤ L.app)
    (hm : L.get (c + 1) = some m) : InvC L (c + 1) g (F.put m) ch' st' dz' stp iv := by
  have hl := h.lint
  have hf := h.fint
  refine ⟨⟨hl.ack_ge, hl.ack_app, hl.gack_ge, by have := hl.gack_cons; omega, Or.inl hle, by omega, hl.holes⟩, h.ackg,
    ⟨hf.ack_ge, by simp only [Log.put]; have := hf.ack_app; omega, noHoles_put hf.holes hf.ack_app⟩,
    fun _ => by simp only [Log.put]; omega, fun _ _ _ => by simp only [Log.put]; omega, ?_, ?_⟩
  · apply agr_follower_put (agr_extend h.agr (by omega)) hf.ack_app
    intro m' hm'
    rw [← hc, hm] at hm'
    cases hm'; rfl
  · intro i hi
    have hio := h.img i hi
    refine imgok_follower hio (agr_follower_put hio.agr hf.ack_app ?_)
    intro m' hm'
    rw [← hc] at hm'
    exact pre_get_eq hio.pre hm' hm

/-- the group's ack moves forward inside `[gack, cons]` -/
theorem invc_ack {a : Int} (h : InvC L c g F ch st dz stp iv) (h1 : g ≤ a) (h2 : a ≤ c) : InvC L c a F ch st dz stp iv := by
  have hl := h.lint
  refine ⟨⟨hl.ack_ge, hl.ack_app, by have := hl.gack_ge; omega, h2, ?_, hl.cons_le, hl.holes⟩,
    (fun e => by have := h.ackg e; omega), h.fint, h.k, h.sync,
    agr_mono h.agr h1 (Int.le_refl _), h.img⟩
  rcases hl.cons_app with hx | hx
  · exact Or.inl hx
  · exact Or.inr (by omega)

theorem invc_append {m : Msg} (h : InvC L c g F ch st dz stp iv) : InvC (L.put m) c g F ch st dz stp iv := by
  have hl := h.lint
  refine ⟨⟨hl.ack_ge, by simp only [Log.put]; have := hl.ack_app; omega, hl.gack_ge, hl.gack_cons, ?_,
      by simp only [Log.put]; have := hl.cons_le; omega, noHoles_put hl.holes hl.ack_app⟩, h.ackg, h.fint, h.k, h.sync, ?_, ?_⟩
  · rcases hl.cons_app with hx | hx
    · exact Or.inl (by simp only [Log.put]; omega)
    · exact Or.inr hx
  · rcases hl.cons_app with hx | hx
    · exact agr_leader_put h.agr hx
    · exact agr_empty_range (by omega)
  · intro i hi
    exact imgok_leader (h.img i hi) (pre_put (h.img i hi).pre)

theorem log_empty_get (i : Int) : Log.empty.get i = none := by
  unfold Log.get Log.empty; dsimp only; split
  · rename_i hc; omega
  · rfl

theorem invc_flose (h : InvC L c g F ch st dz stp iv) (hs : ch = .ready → st' = .broken) :
    InvC L c g Log.empty ch st' dz stp iv := by
  have hl := h.lint
  refine ⟨hl, h.ackg, ⟨by simp [Log.empty], by simp [Log.empty], noHoles_empty⟩, ?_, ?_,
    agr_follower_holds_nothing log_empty_get, ?_⟩
  · intro _
    simp only [Log.empty]
    have := lint_cons_ge hl; omega
  · intro e _ n; exact absurd (hs e) n
  · intro i hi
    exact imgok_follower (h.img i hi) (agr_follower_holds_nothing log_empty_get)

/-- the follower's partition is destroyed under the (possibly open) stream: its log is empty again and
the channel is out of step (ghost flag) until the next handshake -/
theorem invc_fclose (h : InvC L c g F ch st dz stp iv) : InvC L c g Log.empty ch st true stp iv := by
  have hl := h.lint
  refine ⟨hl, h.ackg, ⟨by simp [Log.empty], by simp [Log.empty], noHoles_empty⟩, ?_, (fun _ d _ => by cases d),
    agr_follower_holds_nothing log_empty_get, ?_⟩
  · intro _
    simp only [Log.empty]
    have := lint_cons_ge hl; omega
  · intro i hi
    exact imgok_follower (h.img i hi) (agr_follower_holds_nothing log_empty_get)

/-- a new image of the current state is pushed -/
theorem invc_snap (h : InvC L c g F ch st dz stp iv) :
    InvC L c g F ch st dz stp ({ L := L, cons := c, gack := g } :: iv) := by
  refine ⟨h.lint, h.ackg, h.fint, h.k, h.sync, h.agr, ?_⟩
  intro i hi
  rcases List.mem_cons.mp hi with rfl | hi
  · exact ⟨h.lint, h.agr, pre_refl L⟩
  · exact h.img i hi

/-- `NewConsumerGroup` on re-open lifts the ack to the queue's ack and the consumed sequence to the ack -/
theorem lint_lift (h : LInt L c g) :
    LInt L (liftCons c (liftAck g L.ack)) (liftAck g L.ack) ∧ L.ack ≤ liftAck g L.ack ∧
    g ≤ liftAck g L.ack ∧ liftCons c (liftAck g L.ack) = (if c < liftAck g L.ack then liftAck g L.ack else c) := by
  unfold liftCons liftAck
  refine ⟨⟨h.ack_ge, h.ack_app, ?_, ?_, ?_, ?_, h.holes⟩, ?_, ?_, rfl⟩
  · split <;> have := h.ack_ge <;> have := h.gack_ge <;> omega
  · split <;> split <;> have := h.gack_cons <;> omega
  · have := h.ack_app; have := h.gack_cons
    rcases h.cons_app with hx | hx
    · split <;> split <;> first | (exact Or.inl (by omega)) | (exact Or.inr (by omega))
    · split <;> split <;> first | (exact Or.inr (by omega)) | (exact Or.inl (by omega))
  · have := h.ack_app; have := h.cons_le; have := h.gack_cons
    split <;> split <;> omega
  · split <;> omega
  · split <;> omega

/-- the leader re-opens on the image `im`; `iv'` are the images that are kept (all past states of `im`) -/
theorem invc_restore {im : ImgV} {iv' : List ImgV} (h : InvC L c g F ch st dz stp iv) (hi : im ∈ iv)
    (hsub : ∀ v, v ∈ iv' → v ∈ iv) (hpre : ∀ v, v ∈ iv' → Pre v.L im.L) :
    InvC im.L (liftCons im.cons (liftAck im.gack im.L.ack)) (liftAck im.gack im.L.ack) F .init st' dz' false iv' := by
  have ho := h.img im hi
  have hl := lint_lift ho.lint
  refine ⟨hl.1, fun _ => hl.2.1, h.fint, (fun e => by cases e), (fun e => by cases e), ?_, ?_⟩
  · rw [hl.2.2.2]
    split
    · exact agr_empty_range (Int.le_refl _)
    · exact agr_mono ho.agr hl.2.2.1 (Int.le_refl _)
  · intro j hj
    have hjo := h.img j (hsub j hj)
    exact ⟨hjo.lint, hjo.agr, hpre j hj⟩

/-- the leader re-opens on its current directory -/
theorem invc_restart (h : InvC L c g F ch st dz stp iv) :
    InvC L (liftCons c (liftAck g L.ack)) (liftAck g L.ack) F .init st' dz' false iv := by
  have hl := lint_lift h.lint
  refine ⟨hl.1, fun _ => hl.2.1, h.fint, (fun e => by cases e), (fun e => by cases e), ?_, h.img⟩
  rw [hl.2.2.2]
  split
  · exact agr_empty_range (Int.le_refl _)
  · exact agr_mono h.agr hl.2.2.1 (Int.le_refl _)

theorem invc_gc {a : Int} (h : InvC L c g F ch st dz stp iv) (ha : stp = false → a ≤ g) :
    InvC (L.setAck a) c g F ch st dz stp iv := by
  have hl := h.lint
  refine ⟨⟨?_, ?_, hl.gack_ge, hl.gack_cons, by rw [setAck_app]; exact hl.cons_app, by rw [setAck_app]; exact hl.cons_le,
      noHoles_setAck hl.holes⟩, ?_,
    h.fint, h.k, h.sync, agr_leader_setAck h.agr, ?_⟩
  · rcases setAck_ack_cases (l := L) (a := a) with hx | hx
    · have := hl.ack_ge; omega
    · rw [hx]; exact hl.ack_ge
  · rw [setAck_app]
    rcases setAck_ack_cases (l := L) (a := a) with hx | hx
    · omega
    · rw [hx]; exact hl.ack_app
  · intro e
    rcases setAck_ack_cases (l := L) (a := a) with hx | hx
    · have := ha e; omega
    · rw [hx]; exact h.ackg e
  · intro i hi
    exact imgok_leader (h.img i hi) (pre_setAck (h.img i hi).pre)

/-- a brand-new group is created on the partition: it starts at the queue's acknowledged sequence -/
theorem invc_join_new (h : InvC L c g F ch st dz stp iv) : InvC L L.ack L.ack F .init .none false false iv := by
  have hl := h.lint
  exact ⟨⟨hl.ack_ge, hl.ack_app, hl.ack_ge, Int.le_refl _, Or.inr rfl, by have := hl.ack_app; omega, hl.holes⟩,
    (fun _ => Int.le_refl _), h.fint, (fun e => by cases e), (fun e => by cases e), agr_empty_range (Int.le_refl _), h.img⟩

/-- a group that does not exist (yet / any more) on the leader: positions read as -1 -/
theorem invc_unborn (h : InvC L c g F ch st dz stp iv) : InvC L (-1) (-1) F .init .none false true iv := by
  have hl := h.lint
  exact ⟨⟨hl.ack_ge, hl.ack_app, Int.le_refl _, Int.le_refl _, Or.inr rfl, by have := hl.ack_ge; have := hl.ack_app; omega, hl.holes⟩,
    (fun e => by cases e), h.fint, (fun e => by cases e), (fun e => by cases e), agr_empty_range (Int.le_refl _), h.img⟩

/-- the leader re-opens on an image in which this follower's group does not exist -/
theorem invc_restore_unborn {im : ImgV} {iv' : List ImgV} (h : InvC L c g F ch st dz stp iv) (hi : im ∈ iv)
    (hsub : ∀ v, v ∈ iv' → v ∈ iv) (hpre : ∀ v, v ∈ iv' → Pre v.L im.L) :
    InvC im.L (-1) (-1) F .init .none false true iv' := by
  have ho := h.img im hi
  have hl := ho.lint
  refine ⟨⟨hl.ack_ge, hl.ack_app, Int.le_refl _, Int.le_refl _, Or.inr rfl, by have := hl.ack_ge; have := hl.ack_app; omega, hl.holes⟩,
    (fun e => by cases e), h.fint, (fun e => by cases e), (fun e => by cases e), agr_empty_range (Int.le_refl _), ?_⟩
  intro j hj
  have hjo := h.img j (hsub j hj)
  exact ⟨hjo.lint, hjo.agr, hpre j hj⟩

/-- the group and its replicator are stopped (the channel state is parked at `init`) -/
theorem invc_stop (h : InvC L c g F ch st dz stp iv) : InvC L c g F .init .none dz true iv :=
  ⟨h.lint, (fun e => by cases e), h.fint, (fun e => by cases e), (fun e => by cases e), h.agr, h.img⟩

end

/-! ### NLC building blocks -/

section
variable {L : Log} {c g : Int} {F : Log}

theorem g_follower_holds_nothing {L F : Log} (h : ∀ i, F.get i = none) : G L F := by
  intro i m' hf; rw [h i] at hf; cases hf

theorem nlc_follower_reset (h : NLC L c g F) (hg : g ≤ c) : NLC L g g (F.setAppended g) :=
  ⟨by have := h.cons_app; omega, by simp only [Log.setAppended]; have := h.cons_app; omega,
   by simp only [Log.setAppended]; omega, g_follower_holds_nothing (fun _ => get_setAppended)⟩

theorem nlc_rewind (h : NLC L c g F) (hf : F.ack ≤ F.app) : NLC L F.app F.app F :=
  ⟨h.f_app, h.f_app, hf, h.g⟩

theorem nlc_consume (h : NLC L c g F) (hle : c + 1 ≤ L.app) : NLC L (c + 1) g F :=
  ⟨hle, h.f_app, h.f_ack, h.g⟩

theorem nlc_ack {a : Int} (h : NLC L c g F) (hga : g ≤ a) : NLC L c a F :=
  ⟨h.cons_app, h.f_app, by have := h.f_ack; omega, h.g⟩

theorem nlc_deliver {m : Msg} (h : NLC L c g F) (hc : c = F.app)
    (hle : c + 1 ≤ L.app) (hm : L.get (c + 1) = some m) (hf : F.ack ≤ F.app) : NLC L (c + 1) g (F.put m) := by
  refine ⟨hle, by simp only [Log.put]; omega, by simp only [Log.put]; exact h.f_ack, ?_⟩
  intro i m' hg
  by_cases hi : i = F.app + 1
  · subst hi
    rw [get_put_eq hf] at hg
    cases hg
    rw [← hc]
    exact ⟨hle, (get_some hm).2.2⟩
  · rw [get_put_ne hi] at hg
    exact h.g i m' hg

theorem nlc_append {m : Msg} (h : NLC L c g F) : NLC (L.put m) c g F := by
  refine ⟨by simp only [Log.put]; have := h.cons_app; omega, by simp only [Log.put]; have := h.f_app; omega, h.f_ack, ?_⟩
  intro i m' hf
  have hx := h.g i m' hf
  refine ⟨by simp only [Log.put]; omega, ?_⟩
  simp only [Log.put]
  rw [lookup_cons_ne (by omega)]
  exact hx.2

theorem nlc_flose (h : NLC L c g F) (hl : -1 ≤ L.app) (hg : -1 ≤ g) : NLC L c g Log.empty :=
  ⟨h.cons_app, by simp only [Log.empty]; exact hl, by simp only [Log.empty]; exact hg,
   g_follower_holds_nothing log_empty_get⟩

theorem nlc_gc {a : Int} (h : NLC L c g F) : NLC (L.setAck a) c g F :=
  ⟨by rw [setAck_app]; exact h.cons_app, by rw [setAck_app]; exact h.f_app, h.f_ack,
   fun i m' hf => by rw [setAck_app, setAck_store]; exact h.g i m' hf⟩

/-- full agreement follows from `G` -/
theorem agreement_of_g {L F : Log} (h : G L F) {i : Int} {m m' : Msg} (hl : L.get i = some m)
    (hf : F.get i = some m') : m = m' := by
  have a := (get_some hl).2.2
  have b := (h i m' hf).2
  rw [a] at b; cases b; rfl

end

end LinVerif.Replication
