import LinVerif.Lemmas.C13Table
/-! C13 era table, days `[65536, 98304)` of the era. -/
namespace LinVerif.Lemmas.C13
theorem tableC : checkRange okN 15 65536 = true := by decide +kernel
end LinVerif.Lemmas.C13
