/-
C08, round 12: interpreter of the REGENERATED decision tree of `remoteReplicator.IsReady`'s handshake
(`Generated.C08.handshakePlan`, emitted by harness/internal/extract/facts_c08_plan.go from the source)
over the model's state, and the proof that the hand-written `Replication.handshake` is exactly that
interpretation — for every state, every fault, every `cfg` whose `fixed` is the regenerated shape.

The interpreter knows the MEANING of each primitive the tree may mention (accessors, state-changing
calls, rpcs, state names) and nothing about the order, the guards or the argument expressions: those
come from the source. A primitive it does not know gives `none` (never a default), so a new call in
IsReady re-opens the tie.
-/
import LinVerif.Model.Replication
import LinVerif.Generated.C08

namespace LinVerif.Replication
open LinVerif.Generated.C08 (Hs)

/-- `models.Replicator…State` by name -/
def planChan (n : String) : Option Chan :=
  if n = "ReplicatorReadyState" then some .ready
  else if n = "ReplicatorFailureState" then some .failure
  else if n = "ReplicatorInitState" then some .init
  else none

/-- accessors of the replicator: `r.ReplicaIndex()` = consumed+1, `r.AppendIndex()` = appended+1,
`r.AckIndex()` = the group's acknowledged sequence -/
def planRead (n : String) (s : St) : Option Int :=
  if n = "r.ReplicaIndex" then some (s.cons + 1)
  else if n = "r.AppendIndex" then some (s.L.app + 1)
  else if n = "r.AckIndex" then some s.gack
  else none

/-- calls that change the leader's side -/
def planCall (n : String) (a : Int) (s : St) : Option St :=
  if n = "r.closeStream" then some { s with stream := .none, dz := false }
  else if n = "r.ResetReplicaIndex" then some (resetReplicaIndex s a)
  else if n = "r.ResetAppendIndex" then some (resetAppendIndex s a)
  else if n = "r.SetAckIndex" then some (ackGroup s a)
  else none

/-- rpcs: `none` inside = the rpc returned an error (the injected fault of that point); otherwise the
state after the rpc and its integer result (0 when it has none) -/
def planRpc (n : String) (a : Int) (s : St) (f : Fault) : Option (Option (St × Int)) :=
  if n = "r.cliFct.CreateReplicaServiceClient" then some (if f = .cli then none else some (s, 0))
  else if n = "r.getLastAckIdxFromReplica" then
    some (if f = .getack then none else some (s, replicaAckIndex s.F))
  else if n = "r.replicaCli.Reset" then
    some (if f = .reset then none else some ({ s with F := followerReset s.F a }, 0))
  else none

/-- interpretation of a decision tree on a model state under one fault -/
def runPlan : Hs → St → Fault → Option (St × Bool)
  | .ret st b, s, _ =>
    match planChan st with
    | some c => some ({ s with chan := c }, b)
    | none => none
  | .call n a k, s, f =>
    match planCall n a s with
    | some s' => runPlan k s' f
    | none => none
  | .read n k, s, f =>
    match planRead n s with
    | some v => runPlan (k v) s f
    | none => none
  | .rpc n a e k, s, f =>
    match planRpc n a s f with
    | some none => runPlan e s f
    | some (some (s', v)) => runPlan (k v) s' f
    | none => none
  | .recv _ _ _, _, _ => none   -- no stream receive inside the handshake

end LinVerif.Replication

namespace LinVerif.Replication
open LinVerif.Generated.C08 (Hs handshakePlan)

theorem runPlan_ite (c : Prop) [Decidable c] (a b : Hs) (s : St) (f : Fault) :
    runPlan (if c then a else b) s f = if c then runPlan a s f else runPlan b s f := by
  split <;> rfl

/-- closeStream (and the ghost reset that goes with a new handshake) -/
def closeStreamSt (s : St) : St := { s with stream := .none, dz := false }
/-- follower side of the Reset rpc -/
def resetRemoteSt (s : St) (a : Int) : St := { s with F := followerReset s.F a }
def setChan (s : St) (c : Chan) : St := { s with chan := c }

theorem rp_close (a : Int) (k : Hs) (s : St) (f : Fault) :
    runPlan (.call "r.closeStream" a k) s f = runPlan k (closeStreamSt s) f := rfl
theorem rp_rri (a : Int) (k : Hs) (s : St) (f : Fault) :
    runPlan (.call "r.ResetReplicaIndex" a k) s f = runPlan k (resetReplicaIndex s a) f := rfl
theorem rp_rai (a : Int) (k : Hs) (s : St) (f : Fault) :
    runPlan (.call "r.ResetAppendIndex" a k) s f = runPlan k (resetAppendIndex s a) f := rfl
theorem rp_ack (a : Int) (k : Hs) (s : St) (f : Fault) :
    runPlan (.call "r.SetAckIndex" a k) s f = runPlan k (ackGroup s a) f := rfl
theorem rp_readR (k : Int → Hs) (s : St) (f : Fault) :
    runPlan (.read "r.ReplicaIndex" k) s f = runPlan (k (s.cons + 1)) s f := rfl
theorem rp_readA (k : Int → Hs) (s : St) (f : Fault) :
    runPlan (.read "r.AppendIndex" k) s f = runPlan (k (s.L.app + 1)) s f := rfl
theorem rp_readK (k : Int → Hs) (s : St) (f : Fault) :
    runPlan (.read "r.AckIndex" k) s f = runPlan (k s.gack) s f := rfl
theorem rp_cli (a : Int) (e : Hs) (k : Int → Hs) (s : St) (f : Fault) :
    runPlan (.rpc "r.cliFct.CreateReplicaServiceClient" a e k) s f =
      if f = .cli then runPlan e s f else runPlan (k 0) s f := by
  by_cases h : f = .cli <;> simp [runPlan, planRpc, h]
theorem rp_getack (a : Int) (e : Hs) (k : Int → Hs) (s : St) (f : Fault) :
    runPlan (.rpc "r.getLastAckIdxFromReplica" a e k) s f =
      if f = .getack then runPlan e s f else runPlan (k s.F.app) s f := by
  by_cases h : f = .getack <;> simp [runPlan, planRpc, h, replicaAckIndex]
theorem rp_reset (a : Int) (e : Hs) (k : Int → Hs) (s : St) (f : Fault) :
    runPlan (.rpc "r.replicaCli.Reset" a e k) s f =
      if f = .reset then runPlan e s f else runPlan (k 0) (resetRemoteSt s a) f := by
  by_cases h : f = .reset <;> simp [runPlan, planRpc, h, resetRemoteSt]
theorem rp_ready (b : Bool) (s : St) (f : Fault) :
    runPlan (.ret "ReplicatorReadyState" b) s f = some (setChan s .ready, b) := rfl
theorem rp_failure (b : Bool) (s : St) (f : Fault) :
    runPlan (.ret "ReplicatorFailureState" b) s f = some (setChan s .failure, b) := rfl
theorem rp_init (b : Bool) (s : St) (f : Fault) :
    runPlan (.ret "ReplicatorInitState" b) s f = some (setChan s .init, b) := rfl

/-- `handshake` written with the named sub-steps (definitional) -/
theorem handshake_unfold (cfg : Cfg) (s : St) (f : Fault) :
    handshake cfg s f =
      (let t := closeStreamSt s
       if f = .cli then (setChan t .failure, false)
       else if f = .getack then (setChan t .failure, false)
       else if t.F.app + 1 = t.cons + 1 then (setChan t .ready, true)
       else if t.F.app < t.gack then
         if f = .reset then (setChan t .failure, false)
         else (setChan (resetReplicaIndex (resetRemoteSt t (t.gack + 1)) (t.gack + 1)) .ready, true)
       else
         let u := if aheadFires cfg t.F.app (t.L.app + 1) then resetAppendIndex t (t.F.app + 1) else t
         let u := ackGroup (resetReplicaIndex u (t.F.app + 1)) t.F.app
         if u.cons + 1 = t.F.app + 1 then (setChan u .ready, true) else (setChan u .failure, false)) := rfl

/-- The hand-written model of the handshake IS the interpretation of the decision tree regenerated
from IsReady's source: every state, every fault. -/
theorem handshake_eq_plan (cfg : Cfg) (hfx : cfg.fixed = true) (s : St) (f : Fault) :
    runPlan handshakePlan s f = some (handshake cfg s f) := by
  unfold handshakePlan
  simp only [runPlan_ite, rp_close, rp_rri, rp_rai, rp_ack, rp_readR, rp_readA, rp_readK, rp_cli, rp_getack,
    rp_reset, rp_ready, rp_failure]
  rw [handshake_unfold]
  simp only [aheadFires, hfx]
  generalize closeStreamSt s = t
  by_cases h1 : f = .cli
  · simp [h1]
  by_cases h2 : f = .getack
  · simp [h2]
  by_cases h3 : t.F.app + 1 = t.cons + 1
  · simp [h1, h2, h3]
  by_cases h4 : t.F.app < t.gack
  · by_cases h5 : f = .reset
    · simp [h3, h4, h5]
    · simp [h1, h2, h3, h4, h5]
  by_cases h6 : t.F.app + 1 > t.L.app + 1
  · simp [h1, h2, h3, h4, h6]
    split <;> rfl
  · simp [h1, h2, h3, h4, h6]
    split <;> rfl

/-! ### `remoteReplicator.Replica(idx, msg)` -/

/-- what the follower's side does with a delivered request: `ReplicaHandler.Replica` + `partition.ReplicaLog`
(closed partition: `(0, ErrPartitionClosed)`), as (new follower log, `resp.AckIndex`, `resp.Err` as 0 = "") -/
def handlerAnswer (s : St) (idx : Int) (m : Msg) (f : Fault) : Log × Int × Int :=
  let r := if s.closed then (s.F, (0 : Int)) else replicaLog s.F idx m (decide (f = .put))
  let respErr := s.closed || decide (f = .put ∧ idx = s.F.app + 1)
  (r.1, r.2, if respErr then 1 else 0)

/-- interpretation of the regenerated tree of `Replica`: `pend` = the answer in flight
(`resp.ReplicaIndex`, `resp.AckIndex`, `resp.Err`). `Send` fails when there is no usable stream or the
request is lost; otherwise the request is delivered and handled; `Recv` fails when the answer is lost. -/
def runSend (m : Msg) : Hs → St → Option (Int × Int × Int) → Fault → Option St
  | .ret st _, s, _, _ =>
    if st = "unchanged" then some s
    else match planChan st with
      | some c => some { s with chan := c }
      | none => none
  | .call n a k, s, p, f => if n = "r.SetAckIndex" then runSend m k (ackGroup s a) p f else none
  | .read _ _, _, _, _ => none
  | .rpc n a e k, s, p, f =>
    if n = "r.replicaStream.Send" then
      if s.stream ≠ .up ∨ f = .send then runSend m e s p f
      else runSend m (k 0) { s with F := (handlerAnswer s a m f).1 }
        (some (a, (handlerAnswer s a m f).2.1, (handlerAnswer s a m f).2.2)) f
    else none
  | .recv n e k, s, p, f =>
    if n = "r.replicaStream.Recv" then
      if f = .recv then runSend m e s p f
      else match p with
        | some (ri, ai, er) => runSend m (k ri ai er) s p f
        | none => none
    else none

theorem runSend_ite (m : Msg) (c : Prop) [Decidable c] (a b : Hs) (s : St) (p : Option (Int × Int × Int)) (f : Fault) :
    runSend m (if c then a else b) s p f = if c then runSend m a s p f else runSend m b s p f := by
  split <;> rfl

/-- the request has been delivered and handled by the follower -/
def deliverSt (s : St) (a : Int) (m : Msg) (f : Fault) : St := { s with F := (handlerAnswer s a m f).1 }

theorem rs_send (m : Msg) (a : Int) (e : Hs) (k : Int → Hs) (s : St) (p : Option (Int × Int × Int)) (f : Fault) :
    runSend m (.rpc "r.replicaStream.Send" a e k) s p f =
      if s.stream ≠ .up ∨ f = .send then runSend m e s p f
      else runSend m (k 0) (deliverSt s a m f) (some (a, (handlerAnswer s a m f).2.1, (handlerAnswer s a m f).2.2)) f := rfl
theorem rs_recv (m : Msg) (e : Hs) (k : Int → Int → Int → Hs) (s : St) (ri ai er : Int) (f : Fault) :
    runSend m (.recv "r.replicaStream.Recv" e k) s (some (ri, ai, er)) f =
      if f = .recv then runSend m e s (some (ri, ai, er)) f else runSend m (k ri ai er) s (some (ri, ai, er)) f := rfl
theorem rs_ack (m : Msg) (a : Int) (k : Hs) (s : St) (p : Option (Int × Int × Int)) (f : Fault) :
    runSend m (.call "r.SetAckIndex" a k) s p f = runSend m k (ackGroup s a) p f := rfl
theorem rs_unchanged (m : Msg) (b : Bool) (s : St) (p : Option (Int × Int × Int)) (f : Fault) :
    runSend m (.ret "unchanged" b) s p f = some s := rfl
theorem rs_failure (m : Msg) (b : Bool) (s : St) (p : Option (Int × Int × Int)) (f : Fault) :
    runSend m (.ret "ReplicatorFailureState" b) s p f = some (setChan s .failure) := rfl

/-- `replicaSend`'s state component written with the named sub-steps -/
theorem replicaSend_unfold (cfg : Cfg) (hm : cfg.mfail = true) (s : St) (idx : Int) (m : Msg) (f : Fault) :
    (replicaSend cfg s idx m f).1 =
      if s.stream ≠ .up ∨ f = .send then setChan s .failure
      else if f = .recv then setChan (deliverSt s idx m f) .failure
      else if (handlerAnswer s idx m f).2.2 = 0 ∧ (handlerAnswer s idx m f).2.1 = idx then
        ackGroup (deliverSt s idx m f) (handlerAnswer s idx m f).2.1
      else setChan (deliverSt s idx m f) .failure := by
  unfold replicaSend
  by_cases h1 : s.stream ≠ .up ∨ f = .send
  · simp [h1, setChan]
  have hs : s.stream = .up := Classical.byContradiction fun h => h1 (Or.inl h)
  have hf : f ≠ .send := fun h => h1 (Or.inr h)
  by_cases h2 : f = .recv
  · subst h2
    simp [hs, setChan, deliverSt, handlerAnswer]
  by_cases hc : s.closed = true
  · simp [hs, hf, h2, hm, handlerAnswer, deliverSt, setChan, hc]
  · by_cases hp : f = .put ∧ idx = s.F.app + 1
    · simp [hs, hm, handlerAnswer, deliverSt, setChan, hc, hp]
    · simp [hs, hf, h2, hm, handlerAnswer, deliverSt, setChan, hc, hp]
      split <;> rfl

/-- The model's `replicaSend` (repaired else-branch, `resp.Err` checked: the tree as it is) IS the
interpretation of the decision tree regenerated from `Replica`'s source: every state, index, message, fault. -/
theorem replicaSend_eq_plan (cfg : Cfg) (hm : cfg.mfail = true) (s : St) (idx : Int) (m : Msg) (f : Fault) :
    runSend m (LinVerif.Generated.C08.replicaPlan idx) s none f = some (replicaSend cfg s idx m f).1 := by
  unfold LinVerif.Generated.C08.replicaPlan
  rw [replicaSend_unfold cfg hm]
  simp only [rs_send, rs_recv, rs_ack, rs_unchanged, rs_failure, runSend_ite]
  by_cases h1 : s.stream ≠ .up ∨ f = .send
  · simp only [h1, if_true]
  have hs : s.stream = .up := Classical.byContradiction fun h => h1 (Or.inl h)
  have hf : f ≠ .send := fun h => h1 (Or.inr h)
  by_cases h2 : f = .recv
  · subst h2
    simp [hs]
  simp only [h1, h2, if_false]
  split <;> rfl

end LinVerif.Replication
