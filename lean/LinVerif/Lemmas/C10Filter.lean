/-
C10 helper lemmas, part 2: the well-formedness invariant of the index with respect to the written
series, and the correctness of tag-values lookup + series filtering under it.
-/
import LinVerif.Lemmas.C10Basic

set_option linter.unusedSimpArgs false
set_option linter.unusedVariables false

namespace LinVerif.TagFilter
open LinVerif

/-- The index is consistent with the written series (`st.written`):
schema and dictionary are injective functions, every posting / forward entry comes from a tag of a
written series (soundness) and every tag of a written series has its schema, dictionary, posting and
forward entry (completeness). Stated over the union of all parts of each store. -/
structure WF (st : State) : Prop where
  schemaFun : ∀ mk kid kid', (mk, kid) ∈ st.schema → (mk, kid') ∈ st.schema → kid = kid'
  schemaInj : ∀ mk mk' kid, (mk, kid) ∈ st.schema → (mk', kid) ∈ st.schema → mk = mk'
  dictFun : DictFun st.dict.all
  dictInj : ∀ kid kid' v v' id, (kid, v, id) ∈ st.dict.all → (kid', v', id) ∈ st.dict.all → kid = kid' ∧ v = v'
  writtenFun : ∀ m s t t', (m, s, t) ∈ st.written → (m, s, t') ∈ st.written → t = t'
  writtenNodup : ∀ m s t, (m, s, t) ∈ st.written → (t.map Prod.fst).Nodup
  invSound : ∀ id s, (id, s) ∈ st.inv.all →
    ∃ m t k v kid, (m, s, t) ∈ st.written ∧ (k, v) ∈ t ∧ ((m, k), kid) ∈ st.schema ∧ (kid, v, id) ∈ st.dict.all
  fwdSound : ∀ kid s id, (kid, s, id) ∈ st.fwd.all →
    ∃ m t k v, (m, s, t) ∈ st.written ∧ (k, v) ∈ t ∧ ((m, k), kid) ∈ st.schema ∧ (kid, v, id) ∈ st.dict.all
  complete : ∀ m s t k v, (m, s, t) ∈ st.written → (k, v) ∈ t →
    ∃ kid id, ((m, k), kid) ∈ st.schema ∧ (kid, v, id) ∈ st.dict.all ∧ (id, s) ∈ st.inv.all ∧ (kid, s, id) ∈ st.fwd.all

/-- Go's `LiteralPrefix` contract as `FindValuesByRegexp` uses it: every matching VALUE starts with
the literal prefix. (True for patterns anchored at the start; false for Go's unanchored `Match`.) -/
def Matcher.PrefixSound (M : Matcher) : Prop :=
  ∀ p v, M.isMatch p v = true → (M.lit p).isPrefixOf v = true

/-! ### `like` dispatch against the reference matcher -/

theorem nil_isSuffixOf (v : Bytes) : ([] : Bytes).isSuffixOf v = true := by
  simp [List.isSuffixOf, nil_isPrefixOf]

theorem isInfix_nil (v : Bytes) : isInfix [] v = true := by
  cases v <;> simp [isInfix, nil_isPrefixOf]

theorem findValuesByLike_spec {F : Flags} {d : Dict} (hf : DictFun d.all) {kid : KeyId} {p : Bytes}
    {ids : List ValId} (h : findValuesByLike F d kid p = .ok ids) (id : ValId) :
    id ∈ ids ↔ ∃ v, likeRef p v = true ∧ (kid, v, id) ∈ d.all := by
  match p with
  | [] =>
    simp [findValuesByLike] at h
    subst h
    simp [likeRef]
  | [a] =>
    by_cases ha : a = star
    · subst ha
      by_cases hg : F.likeStarGuarded = true
      · simp [findValuesByLike, hg] at h
        subst h
        rw [mem_scan_sound (fun v _ => nil_isPrefixOf v)]
        simp [likeRef, nil_isSuffixOf]
      · simp [findValuesByLike, hg] at h
    · have hne : (a == star) = false := by simpa using ha
      simp [findValuesByLike, hne, ha] at h
      subst h
      rw [mem_findValueL hf]
      simp [likeRef, hne, ha]
  | a :: b :: t =>
    have hlast : (a :: b :: t).getLast? = (b :: t).getLast? := by simp [List.getLast?_cons_cons]
    have hne : ((a :: b :: t) == ([] : Bytes)) = false := by simp
    have hne1 : ((a :: b :: t) == [star]) = false := by simp
    by_cases ha : a = star
    · subst ha
      by_cases hs : (b :: t).getLast? = some star
      · -- *middle*
        have h2 : ¬ (t.length + 1 + 1 < 2) := by omega
        simp [findValuesByLike, hlast, hs, h2] at h
        subst h
        rw [mem_scan_sound (fun v _ => nil_isPrefixOf v)]
        simp [likeRef, hs]
      · -- *suffix
        have hs' : ((b :: t).getLast? == some star) = false := by simpa using hs
        simp [findValuesByLike, hlast, hs, hs'] at h
        subst h
        rw [mem_scan_sound (fun v _ => nil_isPrefixOf v)]
        simp [likeRef, hs, hs']
    · have hne2 : (a == star) = false := by simpa using ha
      by_cases hs : (b :: t).getLast? = some star
      · -- prefix*
        simp [findValuesByLike, hlast, hs, hne2, ha] at h
        subst h
        rw [mem_scan_sound (fun v hv => hv)]
        simp [likeRef, hlast, hs, hne2, ha]
      · -- exact
        have hs' : ((b :: t).getLast? == some star) = false := by simpa using hs
        simp [findValuesByLike, hlast, hs, hs', hne2, ha] at h
        subst h
        rw [mem_findValueL hf]
        simp [likeRef, hlast, hs, hs', hne2, ha]

/-- `FindValuesByLike` fails only by the slice panic on the bare `*` -/
theorem findValuesByLike_ok {F : Flags} {d : Dict} {kid : KeyId} {p : Bytes}
    (hstar : F.likeStarGuarded = true ∨ p ≠ [star]) : ∃ ids, findValuesByLike F d kid p = .ok ids := by
  match p with
  | [] => simp [findValuesByLike]
  | [a] =>
    by_cases ha : a = star
    · subst ha
      rcases hstar with hg | hg
      · simp [findValuesByLike, hg]
      · exact absurd rfl hg
    · have hne : (a == star) = false := by simpa using ha
      simp [findValuesByLike, hne, ha]
  | a :: b :: t =>
    have hlast : (a :: b :: t).getLast? = (b :: t).getLast? := by simp [List.getLast?_cons_cons]
    have h2 : ¬ (t.length + 1 + 1 < 2) := by omega
    by_cases ha : a = star <;> by_cases hs : (b :: t).getLast? = some star <;>
      simp [findValuesByLike, hlast, ha, hs, h2]

theorem findValuesByRegexp_spec {F : Flags} {M : Matcher} {d : Dict} {kid : KeyId} {p : Bytes}
    (hpre : F.rxLitPrefix = true → M.PrefixSound) (id : ValId) :
    id ∈ findValuesByRegexp F M d kid p ↔ ∃ v, M.isMatch p v = true ∧ (kid, v, id) ∈ d.all := by
  unfold findValuesByRegexp
  apply mem_scan_sound
  intro v hv
  by_cases hF : F.rxLitPrefix = true
  · simp [hF]; simpa using hpre hF p v hv
  · simp [hF]

/-- the value ids an atomic filter resolves to are those of the dictionary values it holds on -/
theorem resolveAtom_spec {F : Flags} {M : Matcher} {d : Dict} (hf : DictFun d.all)
    (hpre : F.rxLitPrefix = true → M.PrefixSound) {kid : KeyId} {a : Atom} {ids : List ValId}
    (h : resolveAtom F M d kid a = .ok ids) (id : ValId) :
    id ∈ ids ↔ ∃ v, a.holdsOn M v = true ∧ (kid, v, id) ∈ d.all := by
  cases a with
  | eq k v =>
    simp [resolveAtom] at h; subst h
    rw [mem_findValueL hf]
    simp [Atom.holdsOn]
  | inn k vs =>
    simp [resolveAtom] at h; subst h
    simp only [List.mem_flatMap, mem_findValueL hf, Atom.holdsOn]
    constructor
    · rintro ⟨v, hv, hm⟩; exact ⟨v, by simpa using hv, hm⟩
    · rintro ⟨v, hv, hm⟩; exact ⟨v, by simpa using hv, hm⟩
  | like k p =>
    simp only [resolveAtom] at h
    simpa [Atom.holdsOn] using findValuesByLike_spec hf h id
  | rx k p =>
    simp only [resolveAtom] at h
    by_cases hv : M.valid p = true
    · simp [hv] at h; subst h
      simpa [Atom.holdsOn] using findValuesByRegexp_spec hpre id
    · simp [hv] at h

/-! ### the `TagFilterResult` map -/

theorem sameKey_refl (F : Flags) (a : Atom) : sameKey F a a = true := by
  unfold sameKey; split <;> simp

theorem sameKey_symm {F : Flags} {a b : Atom} (h : sameKey F a b = true) : sameKey F b a = true := by
  by_cases hF : F.keyByRewrite = true <;> simp [sameKey, hF] at h ⊢ <;> exact h.symm

theorem sameKey_trans {F : Flags} {a b c : Atom} (h1 : sameKey F a b = true) (h2 : sameKey F b c = true) :
    sameKey F a c = true := by
  by_cases hF : F.keyByRewrite = true <;> simp [sameKey, hF] at h1 h2 ⊢ <;> exact h1.trans h2

theorem tfrGet_put_same {F : Flags} (acc : TFR) {a b : Atom} (r : KeyId × List ValId)
    (h : sameKey F a b = true) : tfrGet F (tfrPut F acc a r) b = some r := by
  induction acc with
  | nil => simp [tfrPut, tfrGet, h]
  | cons p t ih =>
    obtain ⟨c, rc⟩ := p
    by_cases hc : sameKey F c a = true
    · simp [tfrPut, hc, tfrGet, h]
    · have hcb : sameKey F c b = false := by
        cases hcb : sameKey F c b with
        | false => rfl
        | true => exact absurd (sameKey_trans hcb (sameKey_symm h)) hc
      simp [tfrPut, hc, tfrGet, hcb, ih]

theorem tfrGet_put_other {F : Flags} (acc : TFR) {a b : Atom} (r : KeyId × List ValId)
    (h : sameKey F a b = false) : tfrGet F (tfrPut F acc a r) b = tfrGet F acc b := by
  induction acc with
  | nil => simp [tfrPut, tfrGet, h]
  | cons p t ih =>
    obtain ⟨c, rc⟩ := p
    by_cases hc : sameKey F c a = true
    · have hcb : sameKey F c b = false := by
        cases hcb : sameKey F c b with
        | false => rfl
        | true =>
          have := sameKey_trans (sameKey_symm hc) hcb
          rw [h] at this; cases this
      simp [tfrPut, hc, tfrGet, hcb, h]
    · by_cases hcb : sameKey F c b = true
      · simp [tfrPut, hc, tfrGet, hcb]
      · simp [tfrPut, hc, tfrGet, hcb, ih]

/-- the lookup walk over a list of atomic filters -/
def lookupList (F : Flags) (M : Matcher) (st : State) (m : Metric) : List Atom → TFR → Except Err TFR
  | [], acc => .ok acc
  | a :: t, acc =>
    match lookupAtom F M st m a with
    | .ok r => lookupList F M st m t (tfrPut F acc a r)
    | .error e => .error e

theorem lookupList_append (F : Flags) (M : Matcher) (st : State) (m : Metric) (l1 l2 : List Atom) (acc : TFR) :
    lookupList F M st m (l1 ++ l2) acc =
      match lookupList F M st m l1 acc with
      | .ok acc' => lookupList F M st m l2 acc'
      | .error e => .error e := by
  induction l1 generalizing acc with
  | nil => simp [lookupList]
  | cons a t ih =>
    simp only [List.cons_append, lookupList]
    cases lookupAtom F M st m a with
    | ok r => simp [ih]
    | error e => simp

/-- on conditions of the grammar's shape the walk visits the atomic filters in order -/
theorem lookupAll_eq_list (F : Flags) (M : Matcher) (st : State) (m : Metric) (c : Expr) (hs : c.shaped = true)
    (acc : TFR) : lookupAll F M st m c acc = lookupList F M st m c.atoms acc := by
  induction c generalizing acc with
  | atom a =>
    simp only [lookupAll, Expr.atoms, lookupList]
    cases lookupAtom F M st m a <;> rfl
  | paren e ih => simp only [Expr.shaped] at hs; simpa [lookupAll, Expr.atoms] using ih hs acc
  | not e ih =>
    simp only [Expr.shaped, Bool.and_eq_true] at hs
    simpa [lookupAll, Expr.atoms] using ih hs.2 acc
  | and l r ihl ihr =>
    simp only [Expr.shaped, Bool.and_eq_true] at hs
    simp only [lookupAll, Expr.atoms, lookupList_append, ihl hs.1]
    cases lookupList F M st m l.atoms acc with
    | ok acc' => simp [ihr hs.2]
    | error e => simp
  | or l r ihl ihr =>
    simp only [Expr.shaped, Bool.and_eq_true] at hs
    simp only [lookupAll, Expr.atoms, lookupList_append, ihl hs.1]
    cases lookupList F M st m l.atoms acc with
    | ok acc' => simp [ihr hs.2]
    | error e => simp
  | badop l r _ _ => simp [Expr.shaped] at hs

/-- after a successful walk every atomic filter resolved -/
theorem lookupList_all_ok {F : Flags} {M : Matcher} {st : State} {m : Metric} {as : List Atom} {acc res : TFR}
    (h : lookupList F M st m as acc = .ok res) : ∀ a ∈ as, ∃ r, lookupAtom F M st m a = .ok r := by
  induction as generalizing acc with
  | nil => intro a ha; cases ha
  | cons a t ih =>
    simp only [lookupList] at h
    cases hr : lookupAtom F M st m a with
    | error e => simp [hr] at h
    | ok r =>
      simp [hr] at h
      intro b hb
      rcases List.mem_cons.mp hb with rfl | hb
      · exact ⟨r, hr⟩
      · exact ih h b hb

/-- atoms that do not share `b`'s slot leave it alone -/
theorem lookupList_get_other {F : Flags} {M : Matcher} {st : State} {m : Metric} {as : List Atom} {acc res : TFR}
    (h : lookupList F M st m as acc = .ok res) (b : Atom) (hb : ∀ a ∈ as, sameKey F a b = false) :
    tfrGet F res b = tfrGet F acc b := by
  induction as generalizing acc with
  | nil => simp [lookupList] at h; subst h; rfl
  | cons a t ih =>
    simp only [lookupList] at h
    cases hr : lookupAtom F M st m a with
    | error e => simp [hr] at h
    | ok r =>
      simp [hr] at h
      rw [ih h (fun a' ha' => hb a' (List.mem_cons_of_mem _ ha'))]
      exact tfrGet_put_other acc r (hb a List.mem_cons_self)

/-- if every atomic filter that shares `b`'s slot resolves to `rb` (and one exists), the slot holds `rb` -/
theorem lookupList_get {F : Flags} {M : Matcher} {st : State} {m : Metric} {as : List Atom} {acc res : TFR}
    (h : lookupList F M st m as acc = .ok res) (b : Atom) (rb : KeyId × List ValId)
    (hall : ∀ a ∈ as, sameKey F a b = true → lookupAtom F M st m a = .ok rb)
    (hex : ∃ a ∈ as, sameKey F a b = true) : tfrGet F res b = some rb := by
  induction as generalizing acc with
  | nil => obtain ⟨a, ha, _⟩ := hex; cases ha
  | cons a t ih =>
    simp only [lookupList] at h
    cases hr : lookupAtom F M st m a with
    | error e => simp [hr] at h
    | ok r =>
      simp [hr] at h
      by_cases ht : ∃ a' ∈ t, sameKey F a' b = true
      · exact ih h (fun a' ha' => hall a' (List.mem_cons_of_mem _ ha')) ht
      · have hnone : ∀ a' ∈ t, sameKey F a' b = false := by
          intro a' ha'
          cases hk : sameKey F a' b with
          | false => rfl
          | true => exact absurd ⟨a', ha', hk⟩ ht
        rw [lookupList_get_other h b hnone]
        obtain ⟨a', ha', hk⟩ := hex
        rcases List.mem_cons.mp ha' with rfl | ha'
        · have := hall a' List.mem_cons_self hk
          rw [hr] at this
          cases this
          exact tfrGet_put_same acc _ hk
        · exact absurd ⟨a', ha', hk⟩ ht

/-- no two different atomic filters of the condition share a `TagFilterResult` slot -/
def NoCollision (F : Flags) (c : Expr) : Prop :=
  ∀ a ∈ c.atoms, ∀ b ∈ c.atoms, sameKey F a b = true → a = b

theorem noCollision_of_injective {F : Flags} (hF : F.keyByRewrite = false) (c : Expr) : NoCollision F c := by
  intro a _ b _ h
  simpa [sameKey, hF] using h

/-- under `NoCollision` every atomic filter of the condition reads back its own result -/
theorem lookup_get_own {F : Flags} {M : Matcher} {st : State} {m : Metric} {c : Expr} {res : TFR}
    (hs : c.shaped = true) (hnc : NoCollision F c) (h : lookupAll F M st m c [] = .ok res) :
    ∀ a ∈ c.atoms, ∃ r, lookupAtom F M st m a = .ok r ∧ tfrGet F res a = some r := by
  rw [lookupAll_eq_list F M st m c hs] at h
  intro a ha
  obtain ⟨r, hr⟩ := lookupList_all_ok h a ha
  refine ⟨r, hr, lookupList_get h a r ?_ ⟨a, ha, sameKey_refl F a⟩⟩
  intro a' ha' hk
  rw [hnc a' ha' a ha hk]
  exact hr

/-! ### series filtering -/

theorem lookupAtom_ok {F : Flags} {M : Matcher} {st : State} {m : Metric} {a : Atom} {kid : KeyId} {ids : List ValId}
    (h : lookupAtom F M st m a = .ok (kid, ids)) :
    ((m, a.key), kid) ∈ st.schema ∧ resolveAtom F M st.dict kid a = .ok ids := by
  unfold lookupAtom at h
  cases hl : Map.lookup st.schema (m, a.key) with
  | none => simp [hl] at h
  | some kid' =>
    simp [hl] at h
    cases hr : resolveAtom F M st.dict kid' a with
    | error e => simp [hr] at h
    | ok ids' =>
      simp [hr] at h
      obtain ⟨h1, h2⟩ := h
      subst h1; subst h2
      exact ⟨lookup_some_mem hl, hr⟩

theorem any_key_iff {t : Tags} {k : Bytes} : (t.any (fun kv => kv.1 == k)) = true ↔ ∃ v, (k, v) ∈ t := by
  simp only [List.any_eq_true, beq_iff_eq]
  constructor
  · rintro ⟨⟨a, b⟩, hm, h⟩; simp at h; subst h; exact ⟨b, hm⟩
  · rintro ⟨v, hm⟩; exact ⟨(k, v), hm, rfl⟩

theorem atom_eval_iff {M : Matcher} {t : Tags} {a : Atom} :
    a.eval M t = true ↔ ∃ v, (a.key, v) ∈ t ∧ a.holdsOn M v = true := by
  unfold Atom.eval
  simp only [List.any_eq_true, Bool.and_eq_true, beq_iff_eq]
  constructor
  · rintro ⟨⟨k, v⟩, hm, hk, hh⟩; simp at hk hh; subst hk; exact ⟨v, hm, hh⟩
  · rintro ⟨v, hm, hh⟩; exact ⟨(a.key, v), hm, rfl, hh⟩

/-- the series an atomic filter selects through dictionary + postings -/
theorem atom_series {F : Flags} {M : Matcher} {st : State} (hwf : WF st)
    (hpre : F.rxLitPrefix = true → M.PrefixSound) {m : Metric} {a : Atom} {kid : KeyId} {ids : List ValId}
    (h : lookupAtom F M st m a = .ok (kid, ids)) (s : SeriesId) :
    s ∈ st.inv.seriesOfIds ids ↔ ∃ t, (m, s, t) ∈ st.written ∧ a.eval M t = true := by
  obtain ⟨hk, hr⟩ := lookupAtom_ok h
  rw [mem_seriesOfIds]
  constructor
  · rintro ⟨id, hid, hp⟩
    obtain ⟨v, hv, hd⟩ := (resolveAtom_spec hwf.dictFun hpre hr id).mp hid
    obtain ⟨m', t, k', v', kid', hw, hkv, hsch, hd'⟩ := hwf.invSound id s hp
    obtain ⟨e1, e2⟩ := hwf.dictInj _ _ _ _ _ hd hd'
    subst e1; subst e2
    have := hwf.schemaInj _ _ _ hk hsch
    cases this
    exact ⟨t, hw, atom_eval_iff.mpr ⟨v, hkv, hv⟩⟩
  · rintro ⟨t, hw, he⟩
    obtain ⟨v, hkv, hv⟩ := atom_eval_iff.mp he
    obtain ⟨kid', id, hsch, hd, hi, _⟩ := hwf.complete m s t a.key v hw hkv
    have := hwf.schemaFun _ _ _ hk hsch
    subst this
    exact ⟨id, (resolveAtom_spec hwf.dictFun hpre hr id).mpr ⟨v, hv, hd⟩, hi⟩

/-- the series that carry a tag key, through the forward index -/
theorem seriesForTag_iff {st : State} (hwf : WF st) {m : Metric} {k : Bytes} {kid : KeyId}
    (hk : ((m, k), kid) ∈ st.schema) (s : SeriesId) :
    s ∈ st.fwd.seriesForTag kid ↔ ∃ t, (m, s, t) ∈ st.written ∧ (t.any (fun kv => kv.1 == k)) = true := by
  rw [mem_seriesForTag]
  constructor
  · rintro ⟨id, hf⟩
    obtain ⟨m', t, k', v', hw, hkv, hsch, _⟩ := hwf.fwdSound kid s id hf
    have := hwf.schemaInj _ _ _ hk hsch
    cases this
    exact ⟨t, hw, any_key_iff.mpr ⟨v', hkv⟩⟩
  · rintro ⟨t, hw, hh⟩
    obtain ⟨v, hkv⟩ := any_key_iff.mp hh
    obtain ⟨kid', id, hsch, _, _, hf⟩ := hwf.complete m s t k v hw hkv
    have := hwf.schemaFun _ _ _ hk hsch
    subst this
    exact ⟨id, hf⟩

theorem notKey_atoms {e : Expr} {k : Bytes} (h : e.notKey = some k) : ∃ a, e.atoms = [a] ∧ a.key = k := by
  induction e with
  | atom a => simp [Expr.notKey] at h; exact ⟨a, rfl, h⟩
  | paren e ih => simp only [Expr.notKey] at h; simpa [Expr.atoms] using ih h
  | not e _ => simp [Expr.notKey] at h
  | and l r _ _ => simp [Expr.notKey] at h
  | or l r _ _ => simp [Expr.notKey] at h
  | badop l r _ _ => simp [Expr.notKey] at h

/-- `findSeriesIDsByExpr` on a condition of the grammar's shape, given that every atomic filter reads
back its own lookup result: the series ids are those whose tags satisfy the condition, and the
returned tag key id is the id of the operand's key whenever a `not` may use it. -/
theorem filterExpr_spec {F : Flags} {M : Matcher} {st : State} (hwf : WF st)
    (hpre : F.rxLitPrefix = true → M.PrefixSound) {m : Metric} {res : TFR} (c : Expr)
    (hs : c.shaped = true)
    (hown : ∀ a ∈ c.atoms, ∃ r, lookupAtom F M st m a = .ok r ∧ tfrGet F res a = some r) :
    ∃ kid S, filterExpr F st res c = .ok (kid, S) ∧
      (∀ s, s ∈ S ↔ ∃ t, (m, s, t) ∈ st.written ∧ c.eval M t = true) ∧
      (∀ k, c.notKey = some k → ((m, k), kid) ∈ st.schema) := by
  induction c with
  | atom a =>
    obtain ⟨⟨kid, ids⟩, hr, hg⟩ := hown a (by simp [Expr.atoms])
    refine ⟨kid, st.inv.seriesOfIds ids, by simp [filterExpr, hg], ?_, ?_⟩
    · intro s; simpa [Expr.eval] using atom_series hwf hpre hr s
    · intro k hk
      simp [Expr.notKey] at hk; subst hk
      exact (lookupAtom_ok hr).1
  | paren e ih =>
    simp only [Expr.shaped] at hs
    obtain ⟨kid, S, h1, h2, h3⟩ := ih hs (by simpa [Expr.atoms] using hown)
    exact ⟨kid, S, by simpa [filterExpr] using h1, by simpa [Expr.eval] using h2, by simpa [Expr.notKey] using h3⟩
  | not e ih =>
    simp only [Expr.shaped, Bool.and_eq_true, Option.isSome_iff_exists] at hs
    obtain ⟨⟨k, hk⟩, hse⟩ := hs
    obtain ⟨kid, S, h1, h2, h3⟩ := ih hse (by simpa [Expr.atoms] using hown)
    have hsch := h3 k hk
    refine ⟨0, (st.fwd.seriesForTag kid).filter (fun s => !S.contains s), by simp [filterExpr, h1], ?_, by simp [Expr.notKey]⟩
    intro s
    simp only [List.mem_filter, Expr.eval, hk, Bool.and_eq_true, Bool.not_eq_true', List.contains_eq_mem,
      decide_eq_false_iff_not, Bool.not_eq_eq_eq_not, Bool.not_true]
    rw [seriesForTag_iff hwf hsch, h2]
    constructor
    · rintro ⟨⟨t, hw, hh⟩, hn⟩
      refine ⟨t, hw, hh, ?_⟩
      cases he : e.eval M t with
      | false => rfl
      | true => exact absurd ⟨t, hw, he⟩ hn
    · rintro ⟨t, hw, hh, he⟩
      refine ⟨⟨t, hw, hh⟩, ?_⟩
      rintro ⟨t', hw', he'⟩
      rw [hwf.writtenFun m s t t' hw hw'] at he
      rw [he] at he'; cases he'
  | and l r ihl ihr =>
    simp only [Expr.shaped, Bool.and_eq_true] at hs
    obtain ⟨kl, Sl, hl1, hl2, _⟩ := ihl hs.1 (fun a ha => hown a (by simp [Expr.atoms, ha]))
    obtain ⟨kr, Sr, hr1, hr2, _⟩ := ihr hs.2 (fun a ha => hown a (by simp [Expr.atoms, ha]))
    refine ⟨0, Sl.filter (fun s => Sr.contains s), by simp [filterExpr, hl1, hr1], ?_, by simp [Expr.notKey]⟩
    intro s
    simp only [List.mem_filter, List.contains_eq_mem, decide_eq_true_eq, Expr.eval, Bool.and_eq_true]
    rw [hl2, hr2]
    constructor
    · rintro ⟨⟨t, hw, h1⟩, ⟨t', hw', h2⟩⟩
      rw [← hwf.writtenFun m s t t' hw hw'] at h2
      exact ⟨t, hw, h1, h2⟩
    · rintro ⟨t, hw, h1, h2⟩
      exact ⟨⟨t, hw, h1⟩, ⟨t, hw, h2⟩⟩
  | or l r ihl ihr =>
    simp only [Expr.shaped, Bool.and_eq_true] at hs
    obtain ⟨kl, Sl, hl1, hl2, _⟩ := ihl hs.1 (fun a ha => hown a (by simp [Expr.atoms, ha]))
    obtain ⟨kr, Sr, hr1, hr2, _⟩ := ihr hs.2 (fun a ha => hown a (by simp [Expr.atoms, ha]))
    refine ⟨0, Sl ++ Sr, by simp [filterExpr, hl1, hr1], ?_, by simp [Expr.notKey]⟩
    intro s
    simp only [List.mem_append, Expr.eval, Bool.or_eq_true]
    rw [hl2, hr2]
    constructor
    · rintro (⟨t, hw, h1⟩ | ⟨t, hw, h1⟩)
      · exact ⟨t, hw, Or.inl h1⟩
      · exact ⟨t, hw, Or.inr h1⟩
    · rintro ⟨t, hw, h1 | h1⟩
      · exact Or.inl ⟨t, hw, h1⟩
      · exact Or.inr ⟨t, hw, h1⟩
  | badop l r _ _ => simp [Expr.shaped] at hs

end LinVerif.TagFilter
