/-
C16 — helper lemmas for the influx field model.
-/
import Mathlib.Tactic.SplitIfs
import LinVerif.Model.InfluxField

namespace LinVerif.Lemmas.C16
open LinVerif.Row LinVerif.InfluxField

/-- boolean literals of the line protocol as the parser knows them -/
def isBoolLit (v : String) : Bool :=
  ["t", "T", "f", "F"].contains v || falseWords.contains v || trueWords.contains v

/-- a value token that is a literal of a supported type: boolean, integer with i/u suffix, float
(NaN / Inf spellings included — they are floats, and invalidate the line) -/
def Supported (E : Strconv) (v : String) : Prop :=
  isBoolLit v = true ∨
  (∃ c, lastChar v = some c ∧ intTails.contains c = true ∧ (E.parseInt (dropLast v)).isSome = true) ∨
  (E.parseFloat v).isSome = true

/-- what is assumed of strconv.ParseFloat: no float literal ends in i/I/u/U/t/T, and one ending in
f/F is an infinity (`inf`) — checked against the real strconv on every generated token -/
structure StrconvSpec (E : Strconv) : Prop where
  float_not_suffixed : ∀ s c, (E.parseFloat s).isSome = true → lastChar s = some c →
    intTails.contains c = false ∧ trueTails.contains c = false
  float_f_is_inf : ∀ s v c, E.parseFloat s = some v → lastChar s = some c →
    falseTails.contains c = true → v.isInf = true

def KeyOk (k : String) : Prop := k ≠ "" ∧ isBlank k = false

theorem lastChar_some (v : String) (h : v ≠ "") : ∃ c, lastChar v = some c := by
  unfold lastChar
  cases hl : v.toList with
  | nil =>
    exfalso; apply h
    have : v = String.ofList v.toList := by simp
    rw [this, hl]
  | cons a rest =>
    cases hg : (a :: rest).getLast? with
    | none => simp at hg
    | some c => exact ⟨c, rfl⟩

theorem boolLit_not_dropped (E : Strconv) (k v : String) (hk : KeyOk k) (h : isBoolLit v = true) :
    parseField E k v ≠ .drop := by
  obtain ⟨h1, h2⟩ := hk
  simp only [isBoolLit, falseWords, trueWords, List.contains_cons, List.contains_nil, Bool.or_false,
    Bool.or_eq_true, beq_iff_eq] at h
  rcases h with ((h | h | h | h) | (h | h | h)) | (h | h | h) <;> subst h
  · have hl : lastChar "t" = some 't' := by decide
    have hn : "t".length = 1 := by decide
    simp [parseField, h1, h2, hl, hn, intTails, trueTails, falseTails, falseWords, trueWords]
  · have hl : lastChar "T" = some 'T' := by decide
    have hn : "T".length = 1 := by decide
    simp [parseField, h1, h2, hl, hn, intTails, trueTails, falseTails, falseWords, trueWords]
  · have hl : lastChar "f" = some 'f' := by decide
    have hn : "f".length = 1 := by decide
    simp [parseField, h1, h2, hl, hn, intTails, trueTails, falseTails, falseWords, trueWords]
  · have hl : lastChar "F" = some 'F' := by decide
    have hn : "F".length = 1 := by decide
    simp [parseField, h1, h2, hl, hn, intTails, trueTails, falseTails, falseWords, trueWords]
  · have hl : lastChar "false" = some 'e' := by decide
    simp [parseField, h1, h2, hl, intTails, trueTails, falseTails, falseWords, trueWords]
  · have hl : lastChar "False" = some 'e' := by decide
    simp [parseField, h1, h2, hl, intTails, trueTails, falseTails, falseWords, trueWords]
  · have hl : lastChar "FALSE" = some 'E' := by decide
    simp [parseField, h1, h2, hl, intTails, trueTails, falseTails, falseWords, trueWords]
  · have hl : lastChar "true" = some 'e' := by decide
    simp [parseField, h1, h2, hl, intTails, trueTails, falseTails, falseWords, trueWords]
  · have hl : lastChar "True" = some 'e' := by decide
    simp [parseField, h1, h2, hl, intTails, trueTails, falseTails, falseWords, trueWords]
  · have hl : lastChar "TRUE" = some 'E' := by decide
    simp [parseField, h1, h2, hl, intTails, trueTails, falseTails, falseWords, trueWords]

/-- a supported literal under a usable key is never classified as a droppable bad field -/
theorem supported_not_dropped (E : Strconv) (hE : StrconvSpec E) (k v : String) (hk : KeyOk k)
    (hv : v ≠ "") (hs : Supported E v) : parseField E k v ≠ .drop := by
  rcases hs with hb | ⟨c, hc, hi, hp⟩ | hf
  · exact boolLit_not_dropped E k v hk hb
  · obtain ⟨h1, h2⟩ := hk
    cases hpi : E.parseInt (dropLast v) with
    | none => rw [hpi] at hp; cases hp
    | some n =>
      simp only [parseField, hv, h1, h2, hc, hi, hpi, if_true, if_false, Bool.false_eq_true]
      simp
  · obtain ⟨h1, h2⟩ := hk
    obtain ⟨c, hc⟩ := lastChar_some v hv
    obtain ⟨hni, hnt⟩ := hE.float_not_suffixed v c hf hc
    cases hpf : E.parseFloat v with
    | none => rw [hpf] at hf; cases hf
    | some x =>
      by_cases hff : falseTails.contains c = true
      · have hinf := hE.float_f_is_inf v x c hpf hc hff
        simp only [parseField, hv, if_false, h1, h2, hc, hni, hnt, hff, if_true, hpf, hinf, Bool.false_eq_true]
        split_ifs <;> simp
      · have hff' : falseTails.contains c = false := by simpa using hff
        simp only [parseField, hv, if_false, h1, h2, hc, hni, hnt, hff', hpf, Bool.false_eq_true]
        split_ifs <;> simp

/-- the fields a token stands for -/
def fieldsOf (E : Strconv) (t : String × String) : List SField :=
  match parseField E t.1 t.2 with
  | .fields fs => fs
  | _ => []

def TokenOk (E : Strconv) (t : String × String) : Prop := KeyOk t.1 ∧ t.2 ≠ "" ∧ Supported E t.2

theorem toLinSimpleField_ne_nil (k : String) (v : F) : toLinSimpleField k v ≠ [] := by
  unfold toLinSimpleField
  split_ifs <;> simp

theorem fields_ne_nil (E : Strconv) (k v : String) (fs : List SField)
    (h : parseField E k v = .fields fs) : fs ≠ [] := by
  unfold parseField at h
  by_cases c1 : v = ""
  · simp [c1] at h
  by_cases c2 : k = ""
  · simp [c1, c2] at h
  by_cases c3 : isBlank k = true
  · simp [c1, c2, c3] at h
  simp only [c1, c2, c3, if_false, Bool.false_eq_true] at h
  cases hl : lastChar v with
  | none => simp [hl] at h
  | some tail =>
    simp only [hl] at h
    by_cases a1 : intTails.contains tail = true
    · simp only [a1, if_true] at h
      cases hp : E.parseInt (dropLast v) with
      | none => simp [hp] at h
      | some n =>
        simp only [hp] at h
        cases h
        exact toLinSimpleField_ne_nil _ _
    simp only [a1, if_false, Bool.false_eq_true] at h
    by_cases a2 : trueTails.contains tail = true
    · simp only [a2, if_true] at h
      by_cases l1 : v.length = 1
      · simp only [l1, if_true] at h; cases h; simp
      · simp [l1] at h
    simp only [a2, if_false, Bool.false_eq_true] at h
    by_cases a3 : falseTails.contains tail = true
    · simp only [a3, if_true] at h
      by_cases l1 : v.length = 1
      · simp only [l1, if_true] at h; cases h; simp
      · simp only [l1, if_false] at h
        cases hp : E.parseFloat v with
        | none => simp [hp] at h
        | some x =>
          simp only [hp] at h
          by_cases hx : x.isInf = true
          · simp [hx] at h
          · simp [hx] at h
    simp only [a3, if_false, Bool.false_eq_true] at h
    by_cases w1 : falseWords.contains v = true
    · simp only [w1, if_true] at h; cases h; simp
    simp only [w1, if_false, Bool.false_eq_true] at h
    by_cases w2 : trueWords.contains v = true
    · simp only [w2, if_true] at h; cases h; simp
    simp only [w2, if_false, Bool.false_eq_true] at h
    cases hp : E.parseFloat v with
    | none => simp [hp] at h
    | some x =>
      simp only [hp] at h
      cases h
      exact toLinSimpleField_ne_nil _ _

/-- with supported tokens only, the drop-and-continue loop never drops: it either ends the line or
collects the fields of every token -/
theorem parseFields_all_or_none (E : Strconv) (hE : StrconvSpec E) :
    ∀ toks : List (String × String), (∀ t ∈ toks, TokenOk E t) →
      parseFields E toks = none ∨
      (parseFields E toks = some (toks.flatMap (fieldsOf E)) ∧ ∀ t ∈ toks, fieldsOf E t ≠ [])
  | [], _ => Or.inr ⟨rfl, by simp⟩
  | (k, v) :: rest, h => by
    have ht := h (k, v) List.mem_cons_self
    have hnd := supported_not_dropped E hE k v ht.1 ht.2.1 ht.2.2
    have ih := parseFields_all_or_none E hE rest (fun t ht' => h t (List.mem_cons_of_mem _ ht'))
    cases hp : parseField E k v with
    | rejectLine => left; simp [parseFields, hp]
    | drop => exact absurd hp hnd
    | fields fs =>
      rcases ih with ih | ⟨ih, ihne⟩
      · left; simp [parseFields, hp, ih]
      · right
        refine ⟨by simp [parseFields, hp, ih, fieldsOf], ?_⟩
        intro t ht'
        rcases List.mem_cons.1 ht' with rfl | ht''
        · simp only [fieldsOf, hp]
          exact fields_ne_nil E k v fs hp
        · exact ihne t ht''

theorem mapM_addSimpleField (fs out : List SField) (h : fs.mapM addSimpleField = some out) :
    out = fs.map (fun f => { f with name := sanitizeFieldName f.name }) := by
  induction fs generalizing out with
  | nil => simp at h; subst h; rfl
  | cons f rest ih =>
    simp only [List.mapM_cons, Option.bind_eq_bind] at h
    cases hf : addSimpleField f with
    | none => simp [hf] at h
    | some g =>
      cases hr : rest.mapM addSimpleField with
      | none => simp [hf, hr] at h
      | some r =>
        simp [hf, hr] at h
        subst h
        have hg : g = { f with name := sanitizeFieldName f.name } := by
          unfold addSimpleField at hf
          split_ifs at hf
          exact (Option.some.inj hf).symm
        rw [hg, ih r hr]
        rfl

end LinVerif.Lemmas.C16
