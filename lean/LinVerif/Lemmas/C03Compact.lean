/-
C03 helper lemmas: one compaction step and one flush step in terms of the values the files of the
version contribute to a cell; the state invariant (file keys ascending and inside the meta's key
range, field types as in the metric's schema) and its preservation.
-/
import LinVerif.Lemmas.C03Group
import LinVerif.Lemmas.C03Scan

set_option linter.unusedSectionVars false
set_option linter.unusedSimpArgs false
namespace LinVerif.C03
open LinVerif.Map LinVerif.MetricBlock LinVerif.Merge LinVerif.Compact

variable {V : Type}

/-- every block of the file types its fields as the metric's schema does -/
def SchemaOK (sch : Nat → Nat → FieldType) (f : File V) : Prop :=
  ∀ m b, (m, b) ∈ f.entries → ∀ fid ty, b.fieldType? fid = some ty → ty = sch m fid

/-- every block of the file can be scanned by the merger (`GoodBlock`) -/
def BlocksGood (tol : Bool) (f : File V) : Prop := ∀ m b, (m, b) ∈ f.entries → GoodBlock tol b

/-- what is required of flushed entries: field types as in the schema; no zero-length series
bucket unless the scanner tolerates it -/
def EntriesOK (sch : Nat → Nat → FieldType) (tol : Bool) (es : List (Nat × Block V)) : Prop :=
  ∀ m b, (m, b) ∈ es → (∀ fid ty, b.fieldType? fid = some ty → ty = sch m fid) ∧
    (tol = true ∨ NoDeadBucket b)

/-- invariant of a family version -/
def StateWF (sch : Nat → Nat → FieldType) (tol : Bool) (st : Family V) : Prop :=
  ∀ f ∈ st.files, FileWF f ∧ SchemaOK sch f ∧ BlocksGood tol f

/-- the values a list of files contributes to one cell, in list order -/
def contribOf (fs : List (File V)) (m s f t : Nat) : List V :=
  (fs.filterMap (fun x => x.get m)).filterMap (fun b => b.get s f t)

theorem contrib_eq (st : Family V) (m s f t : Nat) : contrib st m s f t = contribOf st.files m s f t := rfl

theorem contribOf_append (a b : List (File V)) (m s f t : Nat) :
    contribOf (a ++ b) m s f t = contribOf a m s f t ++ contribOf b m s f t := by
  simp [contribOf, List.filterMap_append]

theorem contribOf_perm {a b : List (File V)} (h : a.Perm b) (m s f t : Nat) :
    (contribOf a m s f t).Perm (contribOf b m s f t) :=
  (h.filterMap _).filterMap _

/-! ### the blocks a merge compaction merges under one key -/

theorem flatMap_filter_key (P : List (File V)) (hwf : ∀ f ∈ P, FileWF f) (m : Nat) :
    valuesOf (P.flatMap (fun f => f.entries)) m = P.filterMap (fun f => f.get m) := by
  induction P with
  | nil => rfl
  | cons f r ih =>
    have h1 : valuesOf (f.entries ++ r.flatMap (fun f => f.entries)) m =
        valuesOf f.entries m ++ valuesOf (r.flatMap (fun f => f.entries)) m := by
      simp [valuesOf, List.filter_append]
    simp only [List.flatMap_cons, h1, ih (fun f' hf' => hwf f' (List.mem_cons_of_mem _ hf'))]
    have h2 : valuesOf f.entries m = (f.get m).toList := file_filter_key (hwf f List.mem_cons_self) m
    rw [h2, List.filterMap_cons]
    cases f.get m <;> simp

theorem valuesOf_perm {β : Type} {a b : List (Nat × β)} (h : a.Perm b) (m : Nat) :
    (valuesOf a m).Perm (valuesOf b m) := (h.filter _).map _

theorem keys_map_vals {β γ : Type} (l : List (Nat × β)) (g : Nat × β → γ) :
    keys (l.map (fun p => (p.1, g p))) = keys l := by
  simp [keys, List.map_map, Function.comp_def]

/-- every group `doMerge` forms consists of blocks of the picked input files -/
theorem groups_from_inputs (p : Params V) (P : List (File V)) (hsh : ∀ l, (p.shuffle l).Perm l) :
    (keys (mergeGroups p P)).Pairwise (· < ·) ∧
    (∀ m, lookup (mergeGroups p P) m =
      (if valuesOf (sortByKey (p.shuffle (P.flatMap (fun f => f.entries)))) m = [] then none
       else some (valuesOf (sortByKey (p.shuffle (P.flatMap (fun f => f.entries)))) m))) ∧
    ∀ g ∈ mergeGroups p P, g.2 ≠ [] ∧ ∀ b' ∈ g.2, ∃ f' ∈ P, (g.1, b') ∈ f'.entries := by
  have hperm : (sortByKey (p.shuffle (P.flatMap (fun f => f.entries)))).Perm (P.flatMap (fun f => f.entries)) :=
    (sortByKey_perm _).trans (hsh _)
  obtain ⟨g1, g3⟩ := groupLoop_top (sortByKey (p.shuffle (P.flatMap (fun f => f.entries)))) (sortByKey_sorted _)
  refine ⟨g1, g3, ?_⟩
  intro g hg
  have hl : lookup (mergeGroups p P) g.1 = some g.2 :=
    lookup_of_mem_nodup (nodup_of_pairwise_lt g1) (by cases g; exact hg)
  unfold mergeGroups at hl
  rw [g3 g.1] at hl
  by_cases e : valuesOf (sortByKey (p.shuffle (P.flatMap (fun f => f.entries)))) g.1 = []
  · simp [e] at hl
  · simp only [e, if_false, Option.some.injEq] at hl
    refine ⟨by rw [← hl]; exact e, ?_⟩
    intro b' hb'
    rw [← hl] at hb'
    unfold valuesOf at hb'
    rw [List.mem_map] at hb'
    obtain ⟨pr, hpr, hpe⟩ := hb'
    rw [List.mem_filter] at hpr
    have hkey : pr.1 = g.1 := by simpa using hpr.2
    have hmem : pr ∈ P.flatMap (fun f => f.entries) := (hperm.mem_iff).mp hpr.1
    rw [List.mem_flatMap] at hmem
    obtain ⟨f', hf', hpf⟩ := hmem
    refine ⟨f', hf', ?_⟩
    have : pr = (g.1, b') := by
      cases pr; simp only at hkey hpe; rw [hkey, hpe]
    rw [← this]; exact hpf

/-- with scannable input blocks every merge of the job is the specification-level merge and none fails -/
theorem mergedEntries_ideal (agg : FieldType → V → V → V) (p : Params V) (P : List (File V))
    (hgood : ∀ f ∈ P, BlocksGood p.tolerant f) (hsh : ∀ l, (p.shuffle l).Perm l) :
    mergedEntries agg p P = (mergeGroups p P).map (fun g => (g.1, mergeBlocksI agg g.2)) ∧
    (mergeGroups p P).any (fun g => mergeFails p.tolerant g.2) = false := by
  obtain ⟨_, _, hfrom⟩ := groups_from_inputs p P hsh
  have hg : ∀ g ∈ mergeGroups p P, ∀ b ∈ g.2, GoodBlock p.tolerant b := by
    intro g hg b hb
    obtain ⟨f', hf', hin⟩ := (hfrom g hg).2 b hb
    exact hgood f' hf' g.1 b hin
  constructor
  · unfold mergedEntries
    apply List.map_congr_left
    intro g hgm
    rw [mergeBlocks_eq_ideal p.tolerant agg g.2 (hg g hgm)]
  · rw [List.any_eq_false]
    intro g hgm
    simp [mergeFails_false p.tolerant g.2 (hg g hgm)]

/-- what the output files of a merge compaction hold for key `m`: nothing if no input has the key,
otherwise ONE block, the merge of the inputs' blocks for `m` in the order the merged iterator
delivered them (a permutation of the order in which a reader visits the input files) -/
theorem merged_outputs_get (agg : FieldType → V → V → V) (p : Params V) (P : List (File V))
    (hwf : ∀ f ∈ P, FileWF f) (hgood : ∀ f ∈ P, BlocksGood p.tolerant f)
    (hsh : ∀ l, (p.shuffle l).Perm l) (m : Nat) :
    ∃ B : List (Block V), B.Perm (P.filterMap (fun f => f.get m)) ∧
      ((splitLoop p.size p.maxFileSize (mergedEntries agg p P) [] 0).filterMap mkFile).filterMap
          (fun f => f.get m) = (if B = [] then [] else [mergeBlocksI agg B]) ∧
      (∀ f ∈ (splitLoop p.size p.maxFileSize (mergedEntries agg p P) [] 0).filterMap mkFile,
        FileWF f ∧ ∀ k b, (k, b) ∈ f.entries → ∃ B', b = mergeBlocksI agg B' ∧ B' ≠ [] ∧
          ∀ b' ∈ B', ∃ f' ∈ P, (k, b') ∈ f'.entries) := by
  have hperm : (sortByKey (p.shuffle (P.flatMap (fun f => f.entries)))).Perm (P.flatMap (fun f => f.entries)) :=
    (sortByKey_perm _).trans (hsh _)
  obtain ⟨g1, g3, hfrom⟩ := groups_from_inputs p P hsh
  obtain ⟨hG, _⟩ := mergedEntries_ideal agg p P hgood hsh
  have hGk : keys (mergedEntries agg p P) = keys (mergeGroups p P) := by
    rw [hG]; exact keys_map_vals (mergeGroups p P) (fun g => mergeBlocksI agg g.2)
  obtain ⟨s1, s2⟩ := splitLoop_spec p.size p.maxFileSize (mergedEntries agg p P) [] 0
  simp only [List.nil_append] at s1
  have hsortG : (keys (splitLoop p.size p.maxFileSize (mergedEntries agg p P) [] 0).flatten).Pairwise (· < ·) := by
    rw [s1, hGk]; exact g1
  refine ⟨valuesOf (sortByKey (p.shuffle (P.flatMap (fun f => f.entries)))) m, ?_, ?_, ?_⟩
  · rw [← flatMap_filter_key P hwf m]; exact valuesOf_perm hperm m
  · rw [chunks_get _ s2 hsortG m, s1, hG,
      lookup_map_vals (mergeGroups p P) (fun _ v => mergeBlocksI agg v) m, g3 m]
    by_cases e : valuesOf (sortByKey (p.shuffle (P.flatMap (fun f => f.entries)))) m = []
    · simp [e]
    · simp [e]
  · intro f hf
    obtain ⟨w1, w2⟩ := chunks_files_wf _ s2 hsortG f hf
    refine ⟨w1, ?_⟩
    intro k b hkb
    have hin : (k, b) ∈ mergedEntries agg p P := by
      rw [← s1]; exact List.mem_flatten.mpr ⟨f.entries, w2, hkb⟩
    rw [hG, List.mem_map] at hin
    obtain ⟨g, hg, hge⟩ := hin
    have hk : g.1 = k := congrArg Prod.fst hge
    have hb : mergeBlocksI agg g.2 = b := congrArg Prod.snd hge
    obtain ⟨hne, hall⟩ := hfrom g hg
    refine ⟨g.2, hb.symm, hne, ?_⟩
    intro b' hb'
    obtain ⟨f', hf', hin'⟩ := hall b' hb'
    exact ⟨f', hf', by rw [← hk]; exact hin'⟩

/-! ### the three results of `compact` -/

theorem compact_cases (agg : FieldType → V → V → V) (p : Params V) (st : Family V) :
    (compact agg p st).1 = st ∨
    (compact agg p st).1 = { l0 := [], l1 := st.l1 ++ st.l0 } ∨
    (compact agg p st).1 = { l0 := [], l1 := restUp st.l0 st.l1 ++
      (splitLoop p.size p.maxFileSize (mergedEntries agg p (st.l0 ++ pickUp st.l0 st.l1)) [] 0).filterMap mkFile } := by
  unfold compact
  by_cases h1 : st.l0.length < p.threshold
  · left; rw [if_pos h1]
  · by_cases h2 : st.l0.length = 1 ∧ (pickUp st.l0 st.l1).isEmpty
    · right; left; rw [if_neg h1]; simp only []; rw [if_pos h2]
    · by_cases h3 : jobFails agg p (st.l0 ++ pickUp st.l0 st.l1) = true
      · left; rw [if_neg h1]; simp only []; rw [if_neg h2, if_pos h3]
      · right; right; rw [if_neg h1]; simp only []; rw [if_neg h2, if_neg h3]

theorem files_perm_pick (st : Family V) :
    st.files.Perm ((st.l0 ++ pickUp st.l0 st.l1) ++ restUp st.l0 st.l1) := by
  unfold Family.files pickUp restUp
  rw [List.append_assoc]
  exact List.Perm.append_left _ (List.filter_append_perm _ _).symm

/-- **one compaction step, per cell**: either the contributed values are only rearranged, or the
values `Bc` contributed by the picked input files are replaced by their single aggregate (with
the aggregate of the metric's schema), the values `Rc` of the untouched files stay. -/
theorem compact_contrib (agg : FieldType → V → V → V) (sch : Nat → Nat → FieldType) (p : Params V)
    (st : Family V) (hwf : StateWF sch p.tolerant st) (hsh : ∀ l, (p.shuffle l).Perm l) (m s f t : Nat) :
    (contrib (compact agg p st).1 m s f t).Perm (contrib st m s f t) ∨
    ∃ Rc Bc : List V, (contrib st m s f t).Perm (Bc ++ Rc) ∧ Bc ≠ [] ∧
      contrib (compact agg p st).1 m s f t = Rc ++ (foldAgg (agg (sch m f)) Bc).toList := by
  rcases compact_cases agg p st with h | h | h
  · left; rw [h]
  · left; rw [h, contrib_eq, contrib_eq]
    exact contribOf_perm (by simp [Family.files]; exact List.perm_append_comm) m s f t
  · rw [h]
    have hP : ∀ f ∈ st.l0 ++ pickUp st.l0 st.l1, FileWF f := by
      intro f hf
      apply (hwf f _).1
      rcases List.mem_append.mp hf with h1 | h1
      · exact List.mem_append_left _ h1
      · exact List.mem_append_right _ (List.mem_filter.mp h1).1
    have hPg : ∀ f ∈ st.l0 ++ pickUp st.l0 st.l1, BlocksGood p.tolerant f := by
      intro f hf
      apply (hwf f _).2.2
      rcases List.mem_append.mp hf with h1 | h1
      · exact List.mem_append_left _ h1
      · exact List.mem_append_right _ (List.mem_filter.mp h1).1
    obtain ⟨B, hB, hout, _⟩ := merged_outputs_get agg p (st.l0 ++ pickUp st.l0 st.l1) hP hPg hsh m
    have hnew : contrib { l0 := [], l1 := restUp st.l0 st.l1 ++
        (splitLoop p.size p.maxFileSize (mergedEntries agg p (st.l0 ++ pickUp st.l0 st.l1)) [] 0).filterMap mkFile } m s f t =
        contribOf (restUp st.l0 st.l1) m s f t ++
          (if B = [] then [] else [mergeBlocksI agg B]).filterMap (fun b => b.get s f t) := by
      rw [contrib_eq]
      simp only [Family.files, List.nil_append]
      rw [contribOf_append]
      congr 1
      unfold contribOf
      rw [hout]
    have hold : (contrib st m s f t).Perm
        (B.filterMap (fun b => b.get s f t) ++ contribOf (restUp st.l0 st.l1) m s f t) := by
      rw [contrib_eq]
      refine (contribOf_perm (files_perm_pick st) m s f t).trans ?_
      rw [contribOf_append]
      exact List.Perm.append_right _ (hB.symm.filterMap _)
    by_cases hBc : B.filterMap (fun b => b.get s f t) = []
    · -- no picked input has the cell: neither has the merged block
      left
      rw [hnew]
      have hz : (if B = [] then [] else [mergeBlocksI agg B]).filterMap (fun b => b.get s f t) = [] := by
        by_cases e : B = []
        · simp [e]
        · simp only [e, if_false, List.filterMap_cons, List.filterMap_nil]
          rw [mergeBlocks_get]
          cases (mergeBlocksI agg B).fieldType? f with
          | none => rfl
          | some ty => simp only []; rw [hBc]; rfl
      rw [hz, List.append_nil]
      rw [hBc, List.nil_append] at hold
      exact hold.symm
    · right
      refine ⟨contribOf (restUp st.l0 st.l1) m s f t, B.filterMap (fun b => b.get s f t), hold, hBc, ?_⟩
      rw [hnew]
      congr 1
      have hBne : B ≠ [] := by intro e; rw [e] at hBc; exact hBc rfl
      simp only [hBne, if_false, List.filterMap_cons, List.filterMap_nil]
      -- the merged block's field type is the schema's
      obtain ⟨v, hv⟩ : ∃ v, v ∈ B.filterMap (fun b => b.get s f t) := by
        cases hc : B.filterMap (fun b => b.get s f t) with
        | nil => exact absurd hc hBc
        | cons v _ => exact ⟨v, List.mem_cons_self⟩
      rw [List.mem_filterMap] at hv
      obtain ⟨b0, hb0, hg0⟩ := hv
      have hty0 : ∃ ty0, b0.fieldType? f = some ty0 := by
        cases hq : b0.fieldType? f with
        | none => rw [get_eq_none_of_fieldType_none b0 s f t hq] at hg0; cases hg0
        | some ty0 => exact ⟨ty0, rfl⟩
      have hmergedTy : ∃ ty, (mergeBlocksI agg B).fieldType? f = some ty ∧ ty = sch m f := by
        rw [mergeBlocks_fieldType]
        cases hfs : B.findSome? (fun b => b.fieldType? f) with
        | none =>
          rw [List.findSome?_eq_none_iff] at hfs
          obtain ⟨ty0, h0⟩ := hty0
          rw [hfs b0 hb0] at h0; cases h0
        | some ty =>
          refine ⟨ty, rfl, ?_⟩
          obtain ⟨b1, hb1, hb1ty⟩ := List.exists_of_findSome?_eq_some hfs
          -- b1 is a block of key m in one of the picked files
          have hb1P : b1 ∈ (st.l0 ++ pickUp st.l0 st.l1).filterMap (fun f => f.get m) := (hB.mem_iff).mp hb1
          rw [List.mem_filterMap] at hb1P
          obtain ⟨f1, hf1, hf1g⟩ := hb1P
          have hf1files : f1 ∈ st.files := by
            rcases List.mem_append.mp hf1 with h1 | h1
            · exact List.mem_append_left _ h1
            · exact List.mem_append_right _ (List.mem_filter.mp h1).1
          have hin : (m, b1) ∈ f1.entries := by
            rw [File.get_eq_lookup (hwf f1 hf1files).1] at hf1g
            exact lookup_mem hf1g
          exact (hwf f1 hf1files).2.1 m b1 hin f ty hb1ty
      obtain ⟨ty, hty, htye⟩ := hmergedTy
      rw [mergeBlocks_get, hty]
      simp only []
      rw [htye]
      cases foldAgg (agg (sch m f)) (B.filterMap (fun b => b.get s f t)) <;> rfl

/-! ### preservation of the invariant -/

theorem stateWF_compact (agg : FieldType → V → V → V) (sch : Nat → Nat → FieldType) (p : Params V)
    (st : Family V) (hwf : StateWF sch p.tolerant st) (hsh : ∀ l, (p.shuffle l).Perm l) :
    StateWF sch p.tolerant (compact agg p st).1 := by
  rcases compact_cases agg p st with h | h | h
  · rw [h]; exact hwf
  · rw [h]
    intro f hf
    apply hwf f
    simp only [Family.files, List.nil_append] at hf
    exact (List.perm_append_comm.mem_iff).mp hf
  · rw [h]
    intro f hf
    simp only [Family.files, List.nil_append] at hf
    rcases List.mem_append.mp hf with h1 | h1
    · exact hwf f (List.mem_append_right _ (List.mem_filter.mp h1).1)
    · have hPmem : ∀ f ∈ st.l0 ++ pickUp st.l0 st.l1, f ∈ st.files := by
        intro f hf
        rcases List.mem_append.mp hf with h1 | h1
        · exact List.mem_append_left _ h1
        · exact List.mem_append_right _ (List.mem_filter.mp h1).1
      obtain ⟨_, _, _, hfiles⟩ := merged_outputs_get agg p (st.l0 ++ pickUp st.l0 st.l1)
        (fun f hf => (hwf f (hPmem f hf)).1) (fun f hf => (hwf f (hPmem f hf)).2.2) hsh 0
      obtain ⟨w1, w2⟩ := hfiles f h1
      refine ⟨w1, ?_, ?_⟩
      · intro k b hkb fid ty hty
        obtain ⟨B', hbe, _, hB'⟩ := w2 k b hkb
        rw [hbe, mergeBlocks_fieldType] at hty
        obtain ⟨b1, hb1, hb1ty⟩ := List.exists_of_findSome?_eq_some hty
        obtain ⟨f', hf', hin⟩ := hB' b1 hb1
        exact (hwf f' (hPmem f' hf')).2.1 k b1 hin fid ty hb1ty
      · intro k b hkb
        obtain ⟨B', hbe, hne, hB'⟩ := w2 k b hkb
        cases hB : B' with
        | nil => exact absurd hB hne
        | cons b0 t =>
          have hb0 : b0 ∈ B' := by rw [hB]; exact List.mem_cons_self
          obtain ⟨f', hf', hin⟩ := hB' b0 hb0
          have hg0 := (hwf f' (hPmem f' hf')).2.2 k b0 hin
          rw [hbe]
          exact mergeBlocksI_good p.tolerant agg B' b0 hb0 hg0.1

/-- the file one flush writes (if any) -/
def flushFile (es : List (Nat × Block V)) : Option (File V) :=
  mkFile (ascFilter none (es.filter (fun e => !e.2.series.isEmpty)))

theorem flush_files (st : Family V) (es : List (Nat × Block V)) :
    (flush st es).files = st.l0 ++ (flushFile es).toList ++ st.l1 := by
  unfold flush flushFile
  cases mkFile (ascFilter none (es.filter (fun e => !e.2.series.isEmpty))) with
  | none => simp [Family.files]
  | some f => simp [Family.files]

theorem flush_files_perm (st : Family V) (es : List (Nat × Block V)) :
    (flush st es).files.Perm (st.files ++ (flushFile es).toList) := by
  rw [flush_files]
  unfold Family.files
  rw [List.append_assoc, List.append_assoc]
  exact List.Perm.append_left _ List.perm_append_comm

theorem ascFilter_subset_filter (es : List (Nat × Block V)) :
    ∀ e ∈ ascFilter none (es.filter (fun e => !e.2.series.isEmpty)), e ∈ es ∧ e.2.series ≠ [] := by
  intro e he
  have h1 := (ascFilter_sublist none _).subset he
  rw [List.mem_filter] at h1
  refine ⟨h1.1, ?_⟩
  intro hn
  have := h1.2
  rw [hn] at this
  simp at this

theorem flushFile_wf (sch : Nat → Nat → FieldType) (tol : Bool) (es : List (Nat × Block V))
    (hes : EntriesOK sch tol es) :
    ∀ f ∈ (flushFile es).toList, FileWF f ∧ SchemaOK sch f ∧ BlocksGood tol f := by
  intro f hf
  unfold flushFile at hf
  have hsorted := ascFilter_sorted (es.filter (fun e => !e.2.series.isEmpty))
  have hsub := ascFilter_subset_filter es
  cases hc : ascFilter none (es.filter (fun e => !e.2.series.isEmpty)) with
  | nil => rw [hc] at hf; simp [mkFile] at hf
  | cons e t =>
    rw [hc] at hf hsorted hsub
    obtain ⟨f0, hf0, hfe, hwf⟩ := mkFile_spec (e :: t) (by simp) hsorted
    rw [hf0] at hf
    simp only [Option.toList_some, List.mem_singleton] at hf
    subst hf
    refine ⟨hwf, ?_, ?_⟩
    · intro m b hmb
      rw [hfe] at hmb
      exact (hes m b (hsub (m, b) hmb).1).1
    · intro m b hmb
      rw [hfe] at hmb
      exact ⟨(hsub (m, b) hmb).2, (hes m b (hsub (m, b) hmb).1).2⟩

theorem stateWF_flush (sch : Nat → Nat → FieldType) (tol : Bool) (st : Family V) (es : List (Nat × Block V))
    (hwf : StateWF sch tol st) (hes : EntriesOK sch tol es) : StateWF sch tol (flush st es) := by
  intro f hf
  have := ((flush_files_perm st es).mem_iff).mp hf
  rcases List.mem_append.mp this with h | h
  · exact hwf f h
  · exact flushFile_wf sch tol es hes f h

/-- the values one flush adds to a cell -/
def flushContrib (es : List (Nat × Block V)) (m s f t : Nat) : List V :=
  contribOf (flushFile es).toList m s f t

theorem flush_contrib (st : Family V) (es : List (Nat × Block V)) (m s f t : Nat) :
    (contrib (flush st es) m s f t).Perm (contrib st m s f t ++ flushContrib es m s f t) := by
  rw [contrib_eq, contrib_eq]
  unfold flushContrib
  rw [← contribOf_append]
  exact contribOf_perm (flush_files_perm st es) m s f t

theorem stateWF_empty (sch : Nat → Nat → FieldType) (tol : Bool) : StateWF sch tol (Family.empty : Family V) := by
  intro f hf; simp [Family.empty, Family.files] at hf

end LinVerif.C03
