import LinVerif.Lemmas.C13Table
/-! C13 era table, days `[131072, 146097)` of the era
(131072 + 8192 + 4096 + 2048 + 512 + 128 + 32 + 16 + 1 = 146097). -/
namespace LinVerif.Lemmas.C13
theorem tableE13 : checkRange okN 13 131072 = true := by decide +kernel
theorem tableE12 : checkRange okN 12 139264 = true := by decide +kernel
theorem tableE11 : checkRange okN 11 143360 = true := by decide +kernel
theorem tableE9 : checkRange okN 9 145408 = true := by decide +kernel
theorem tableE7 : checkRange okN 7 145920 = true := by decide +kernel
theorem tableE5 : checkRange okN 5 146048 = true := by decide +kernel
theorem tableE4 : checkRange okN 4 146080 = true := by decide +kernel
theorem tableE0 : checkRange okN 0 146096 = true := by decide +kernel
end LinVerif.Lemmas.C13
