/-
A reused snappyReader is clean after every Uncompress, failed ones included (Model/SnappyReuse.lean).
-/
import LinVerif.Model.SnappyReuse

namespace LinVerif.SnappyReuse

theorem deferred_resets_all :
    Generated.C14.snappyReaderUncompressDeferred.contains "compressed.Reset" = true ∧
    Generated.C14.snappyReaderUncompressDeferred.contains "decompressed.Reset" = true ∧
    Generated.C14.snappyReaderUncompressDeferred.contains "reader.Reset" = true := by decide

theorem cleanup_eq (r : Reader) : Reader.cleanup Generated.C14.snappyReaderUncompressDeferred r = {} := by
  obtain ⟨h1, h2, h3⟩ := deferred_resets_all
  unfold Reader.cleanup
  rw [h1, h2, h3]
  rfl

theorem uncompress_state (lib : Lib) (r : Reader) (data : List Nat) : (r.uncompress lib data).2 = {} := by
  unfold Reader.uncompress Reader.uncompressWith
  by_cases hs : r.stuck
  · simp [hs, cleanup_eq]
  · simp [hs, cleanup_eq]

theorem run_state (lib : Lib) (hist : List (List Nat)) : ∀ r : Reader, r = {} → Reader.run lib r hist = {} := by
  induction hist with
  | nil => intro r h; exact h
  | cons d t ih => intro r _; exact ih _ (uncompress_state lib r d)

end LinVerif.SnappyReuse
