/-
C10 helper lemmas, part 6: group-by (grouping scanners, grouping context, per-series values).
-/
import LinVerif.Lemmas.C10Run

set_option linter.unusedSimpArgs false
set_option linter.unusedVariables false

namespace LinVerif.TagFilter
open LinVerif

/-- what a scanner stores -/
def Scanner.entries : Scanner → List (SeriesId × ValId)
  | .mem es => es
  | .file cs => cs.flatMap containerEntries

def Scanner.ok (cum : Bool) : Scanner → Prop
  | .mem _ => True
  | .file cs => ContainersOK cum cs

theorem scanner_seriesIDs (sc : Scanner) : sc.seriesIDs = sc.entries.map (·.1) := by
  cases sc with
  | mem es => rfl
  | file cs =>
    simp only [Scanner.seriesIDs, Scanner.entries, List.map_flatMap]

theorem nodup_keys_unique {t : Tags} (h : (t.map Prod.fst).Nodup) {k v v' : Bytes}
    (h1 : (k, v) ∈ t) (h2 : (k, v') ∈ t) : v = v' := by
  induction t with
  | nil => cases h1
  | cons x r ih =>
    simp only [List.map_cons, List.nodup_cons] at h
    have key : ∀ w, (k, w) ∈ r → k ∈ r.map Prod.fst := fun w hw => List.mem_map.mpr ⟨(k, w), hw, rfl⟩
    rcases List.mem_cons.mp h1 with e1 | h1'
    · rcases List.mem_cons.mp h2 with e2 | h2'
      · rw [← e1] at e2; cases e2; rfl
      · exfalso; rw [← e1] at h; exact h.1 (key v' h2')
    · rcases List.mem_cons.mp h2 with e2 | h2'
      · exfalso; rw [← e2] at h; exact h.1 (key v h1')
      · exact ih h.2 h1' h2'

/-- a series has one forward entry per tag key -/
theorem fwd_fun {st : State} (hwf : WF st) {kid : KeyId} {s : SeriesId} {id1 id2 : ValId}
    (h1 : (kid, s, id1) ∈ st.fwd.all) (h2 : (kid, s, id2) ∈ st.fwd.all) : id1 = id2 := by
  obtain ⟨m1, t1, k1, v1, w1, kv1, sc1, d1⟩ := hwf.fwdSound _ _ _ h1
  obtain ⟨m2, t2, k2, v2, w2, kv2, sc2, d2⟩ := hwf.fwdSound _ _ _ h2
  have := hwf.schemaInj _ _ _ sc1 sc2
  cases this
  have := hwf.writtenFun _ _ _ _ w1 w2
  subst this
  have := nodup_keys_unique (hwf.writtenNodup _ _ _ w1) kv1 kv2
  subst this
  exact hwf.dictFun _ _ _ _ d1 d2

/-- reading a scanner at the series' high key and keeping the series' rows -/
theorem mem_read_filter {cum : Bool} {sc : Scanner} (hok : sc.ok cum) {s : SeriesId} {e : SeriesId × ValId} :
    e ∈ (sc.read cum (s / 65536)).filter (fun e => e.1 == s) ↔ e ∈ sc.entries ∧ e.1 = s := by
  cases sc with
  | mem es =>
    simp only [Scanner.read, Scanner.entries, List.mem_filter, beq_iff_eq]
    constructor
    · rintro ⟨⟨h1, _⟩, h2⟩; exact ⟨h1, h2⟩
    · rintro ⟨h1, h2⟩; exact ⟨⟨h1, by rw [h2]⟩, h2⟩
  | file cs =>
    simp only [Scanner.ok] at hok
    obtain ⟨hr1, hr2⟩ := readContainer_spec hok
    simp only [Scanner.read, Scanner.entries, List.mem_filter, beq_iff_eq, List.mem_flatMap]
    constructor
    · rintro ⟨h1, h2⟩
      refine ⟨?_, h2⟩
      by_cases hex : ∃ c ∈ cs, c.1 = s / 65536
      · obtain ⟨c, hc, hc1⟩ := hex
        rw [← hc1, hr1 c hc] at h1
        simp only [Option.getD_some, List.mem_map] at h1
        obtain ⟨lv, hlv, rfl⟩ := h1
        exact ⟨c, hc, mem_containerEntries.mpr ⟨lv, hlv, rfl⟩⟩
      · rw [hr2 _ (fun c hc hc1 => hex ⟨c, hc, hc1⟩)] at h1
        simp at h1
    · rintro ⟨⟨c, hc, hce⟩, h2⟩
      refine ⟨?_, h2⟩
      obtain ⟨lv, hlv, he⟩ := mem_containerEntries.mp hce
      have hlow := hok.2.2 c hc lv hlv
      have hhigh : s / 65536 = c.1 := by
        rw [← h2, he]
        show (c.1 * 65536 + lv.1) / 65536 = c.1
        omega
      rw [hhigh, hr1 c hc]
      simp only [Option.getD_some, List.mem_map]
      exact ⟨lv, hlv, he.symm⟩

theorem mem_memEntry {p : FwdPart} {kid : KeyId} {e : SeriesId × ValId} :
    e ∈ memEntry p kid ↔ (kid, e.1, e.2) ∈ p := by
  unfold memEntry
  simp only [List.mem_map, List.mem_filter, beq_iff_eq]
  constructor
  · rintro ⟨x, ⟨hx, hk⟩, rfl⟩
    obtain ⟨a, b, c⟩ := x
    simp at hk; subst hk; exact hx
  · intro h
    exact ⟨(kid, e.1, e.2), ⟨h, rfl⟩, rfl⟩

/-- the grouping scanners of a key: well-formed, sound, and complete for the selected series -/
theorem groupingScanners_spec {F : Flags} {st : State} (hl : LutSafe F st) (kid : KeyId) (sel : List SeriesId) :
    (∀ sc ∈ groupingScanners st.fwd kid sel, sc.ok F.lutCumulative) ∧
    (∀ sc ∈ groupingScanners st.fwd kid sel, ∀ e ∈ sc.entries, (kid, e.1, e.2) ∈ st.fwd.all) ∧
    (∀ s ∈ sel, ∀ id, (kid, s, id) ∈ st.fwd.all → ∃ sc ∈ groupingScanners st.fwd kid sel, (s, id) ∈ sc.entries) := by
  unfold groupingScanners
  simp only [List.mem_append, List.mem_filterMap, List.mem_flatMap, List.mem_filter, beq_iff_eq]
  refine ⟨?_, ?_, ?_⟩
  · rintro sc (⟨p, _, hp⟩ | ⟨f, hf, kc, ⟨hkc, _⟩, hsc⟩)
    · split at hp
      · cases hp
      · split at hp
        · cases hp; trivial
        · cases hp
    · split at hsc
      · cases hsc
        exact hl.files f hf kc hkc
      · cases hsc
  · rintro sc (⟨p, hpm, hp⟩ | ⟨f, hf, kc, ⟨hkc, hk⟩, hsc⟩) e he
    · split at hp
      · cases hp
      · split at hp
        · cases hp
          simp only [Scanner.entries] at he
          have := mem_memEntry.mp he
          rw [mem_fwd_all]
          simp only [List.mem_cons, List.not_mem_nil, or_false] at hpm
          rcases hpm with rfl | hpm
          · exact Or.inl this
          · cases himm : st.fwd.imm with
            | none => simp [himm] at hpm
            | some q =>
              simp [himm] at hpm
              subst hpm
              exact Or.inr (Or.inl (by simpa [himm, optList] using this))
        · cases hp
    · split at hsc
      · cases hsc
        simp only [Scanner.entries] at he
        rw [mem_fwd_all]
        refine Or.inr (Or.inr ⟨f, hf, ?_⟩)
        rw [fileEntries_eq, List.mem_flatMap]
        exact ⟨kc, hkc, mem_keyEntries.mpr ⟨hk.symm, he⟩⟩
      · cases hsc
  · intro s hs id hin
    rcases mem_fwd_all.mp hin with hin | hin | ⟨f, hf, hin⟩
    · refine ⟨Scanner.mem (memEntry st.fwd.mtb kid), Or.inl ⟨st.fwd.mtb, by simp, ?_⟩, (mem_memEntry (e := (s, id))).mpr hin⟩
      have hne : (memEntry st.fwd.mtb kid).isEmpty = false := by
        cases hh : memEntry st.fwd.mtb kid with
        | nil => have := (mem_memEntry (e := (s, id))).mpr hin; rw [hh] at this; cases this
        | cons a b => rfl
      have hany : (memEntry st.fwd.mtb kid).any (fun e => sel.contains e.1) = true := by
        simp only [List.any_eq_true]
        exact ⟨(s, id), (mem_memEntry (e := (s, id))).mpr hin, by simpa using hs⟩
      rw [hne, hany]; rfl
    · cases himm : st.fwd.imm with
      | none => simp [himm, optList] at hin
      | some q =>
        have hin' : (kid, s, id) ∈ q := by simpa [himm, optList] using hin
        refine ⟨Scanner.mem (memEntry q kid), Or.inl ⟨q, by simp [himm], ?_⟩, (mem_memEntry (e := (s, id))).mpr hin'⟩
        have hne : (memEntry q kid).isEmpty = false := by
          cases hh : memEntry q kid with
          | nil => have := (mem_memEntry (e := (s, id))).mpr hin'; rw [hh] at this; cases this
          | cons a b => rfl
        have hany : (memEntry q kid).any (fun e => sel.contains e.1) = true := by
          simp only [List.any_eq_true]
          exact ⟨(s, id), (mem_memEntry (e := (s, id))).mpr hin', by simpa using hs⟩
        rw [hne, hany]; rfl
    · rw [fileEntries_eq, List.mem_flatMap] at hin
      obtain ⟨kc, hkc, hke⟩ := hin
      obtain ⟨hk, hce⟩ := mem_keyEntries.mp hke
      simp only at hk hce
      refine ⟨Scanner.file kc.2, Or.inr ⟨f, hf, kc, ⟨hkc, hk.symm⟩, ?_⟩, hce⟩
      have hany : (Scanner.file kc.2).seriesIDs.any (fun s => sel.contains s) = true := by
        rw [scanner_seriesIDs]
        simp only [List.any_eq_true, List.mem_map]
        exact ⟨s, ⟨(s, id), hce, rfl⟩, by simpa using hs⟩
      rw [hany]; rfl

/-- the series ids some scanner of the key holds, among the selected ones -/
theorem mem_cur_iff {F : Flags} {st : State} (hl : LutSafe F st) (kid : KeyId) (sel : List SeriesId) {s : SeriesId}
    (hs : s ∈ sel) :
    s ∈ (groupingScanners st.fwd kid sel).flatMap Scanner.seriesIDs ↔ ∃ id, (kid, s, id) ∈ st.fwd.all := by
  obtain ⟨_, h2, h3⟩ := groupingScanners_spec hl kid sel
  simp only [List.mem_flatMap, scanner_seriesIDs, List.mem_map]
  constructor
  · rintro ⟨sc, hsc, e, he, rfl⟩
    exact ⟨e.2, h2 sc hsc e he⟩
  · rintro ⟨id, hin⟩
    obtain ⟨sc, hsc, he⟩ := h3 s hs id hin
    exact ⟨sc, hsc, (s, id), he, rfl⟩

theorem groupingLoop_spec {F : Flags} {st : State} (hl : LutSafe F st) (sel : List SeriesId) (kids : List KeyId)
    (final0 : List SeriesId) (hsub : ∀ s ∈ final0, s ∈ sel) {final : List SeriesId} {scs : List (List Scanner)}
    (h : groupingLoop st.fwd sel kids final0 = .ok (final, scs)) :
    scs = kids.map (fun kid => groupingScanners st.fwd kid sel) ∧
    (∀ s, s ∈ final ↔ s ∈ final0 ∧ ∀ kid ∈ kids, ∃ id, (kid, s, id) ∈ st.fwd.all) := by
  induction kids generalizing final0 final scs with
  | nil =>
    simp only [groupingLoop, Except.ok.injEq, Prod.mk.injEq] at h
    obtain ⟨h1, h2⟩ := h
    subst h1; subst h2
    exact ⟨rfl, fun s => by simp⟩
  | cons kid ks ih =>
    simp only [groupingLoop] at h
    split at h
    · cases h
    · rename_i hne
      split at h
      · rename_i f scs' hr
        simp only [Except.ok.injEq, Prod.mk.injEq] at h
        obtain ⟨h1, h2⟩ := h
        subst h1; subst h2
        obtain ⟨e1, e2⟩ := ih _ (fun s hs => hsub s (List.mem_filter.mp hs).1) hr
        refine ⟨by rw [e1]; rfl, ?_⟩
        intro s
        rw [e2]
        simp only [List.mem_filter, List.mem_cons, forall_eq_or_imp]
        constructor
        · rintro ⟨⟨h0, hc⟩, hk⟩
          have hc' : s ∈ (groupingScanners st.fwd kid sel).flatMap Scanner.seriesIDs := by
            simpa [List.mem_flatMap] using hc
          exact ⟨h0, (mem_cur_iff hl kid sel (hsub s h0)).mp hc', hk⟩
        · rintro ⟨h0, hc, hk⟩
          have hc' := (mem_cur_iff hl kid sel (hsub s h0)).mpr hc
          exact ⟨⟨h0, by simpa [List.mem_flatMap] using hc'⟩, hk⟩
      · cases h

theorem getLast?_mem {α : Type} {l : List α} {a : α} (h : l.getLast? = some a) : a ∈ l := by
  induction l with
  | nil => simp at h
  | cons x t ih =>
    cases t with
    | nil => simp at h; subst h; simp
    | cons y r =>
      rw [List.getLast?_cons_cons] at h
      exact List.mem_cons_of_mem _ (ih h)

theorem getLast?_isSome {α : Type} {l : List α} (h : l ≠ []) : ∃ a, l.getLast? = some a := by
  induction l with
  | nil => exact absurd rfl h
  | cons x t ih =>
    cases t with
    | nil => exact ⟨x, rfl⟩
    | cons y r =>
      rw [List.getLast?_cons_cons]
      exact ih (by simp)

/-- the value id `BuildGroup` assigns for one key is the series' forward entry -/
theorem valueIdOf_spec {F : Flags} {st : State} (hwf : WF st) (hl : LutSafe F st) (kid : KeyId) (sel : List SeriesId)
    {s : SeriesId} (hs : s ∈ sel) {id : ValId} (hin : (kid, s, id) ∈ st.fwd.all) :
    valueIdOf F.lutCumulative (groupingScanners st.fwd kid sel) s = id := by
  obtain ⟨h1, h2, h3⟩ := groupingScanners_spec hl kid sel
  unfold valueIdOf
  have hmem : ∀ e, e ∈ (groupingScanners st.fwd kid sel).flatMap
      (fun x => (x.read F.lutCumulative (s / 65536)).filter (fun e => e.1 == s)) ↔
      ∃ sc ∈ groupingScanners st.fwd kid sel, e ∈ sc.entries ∧ e.1 = s := by
    intro e
    simp only [List.mem_flatMap]
    constructor
    · rintro ⟨sc, hsc, he⟩; exact ⟨sc, hsc, (mem_read_filter (h1 sc hsc)).mp he⟩
    · rintro ⟨sc, hsc, he⟩; exact ⟨sc, hsc, (mem_read_filter (h1 sc hsc)).mpr he⟩
  have hne : (groupingScanners st.fwd kid sel).flatMap
      (fun x => (x.read F.lutCumulative (s / 65536)).filter (fun e => e.1 == s)) ≠ [] := by
    obtain ⟨sc, hsc, he⟩ := h3 s hs id hin
    intro hnil
    have := (hmem (s, id)).mpr ⟨sc, hsc, he, rfl⟩
    rw [hnil] at this
    cases this
  obtain ⟨a, ha⟩ := getLast?_isSome hne
  rw [ha]
  simp only [Option.map_some, Option.getD_some]
  obtain ⟨sc, hsc, he, hes⟩ := (hmem a).mp (getLast?_mem ha)
  have := h2 sc hsc a he
  rw [hes] at this
  exact fwd_fun hwf this hin

theorem keyOfId_spec {st : State} (hwf : WF st) {kid : KeyId} {v : Bytes} {id : ValId}
    (h : (kid, v, id) ∈ st.dict.all) : st.dict.keyOfId kid id = some v := by
  unfold Dict.keyOfId
  cases hf : st.dict.all.find? (fun e => e.1 == kid && e.2.2 == id) with
  | none =>
    have := List.find?_eq_none.mp hf (kid, v, id) h
    simp at this
  | some e =>
    have hm := List.mem_of_find?_eq_some hf
    have hp := List.find?_some hf
    obtain ⟨a, b, c⟩ := e
    simp at hp
    obtain ⟨h1, h2⟩ := hp
    subst h1; subst h2
    simp only [Option.map_some]
    rw [(hwf.dictInj _ _ _ _ _ hm h).2]

/-- per-series grouping values against the series' tags -/
theorem valuesFor_spec {F : Flags} {st : State} (hwf : WF st) (hl : LutSafe F st) {m : Metric} (sel : List SeriesId)
    {s : SeriesId} (hs : s ∈ sel) {t : Tags} (hw : (m, s, t) ∈ st.written)
    (keys : List Bytes) (kids : List KeyId) (hk : lookupKeys st m keys = some kids)
    (hall : ∀ k ∈ keys, ∃ v, (k, v) ∈ t) :
    groupValuesOK t keys
      (valuesFor F.lutCumulative st.dict s kids (kids.map (fun kid => groupingScanners st.fwd kid sel))) := by
  induction keys generalizing kids with
  | nil =>
    simp only [lookupKeys, Option.some.injEq] at hk
    subst hk
    simp [valuesFor, groupValuesOK]
  | cons k ks ih =>
    simp only [lookupKeys] at hk
    cases h1 : Map.lookup st.schema (m, k) with
    | none => simp [h1] at hk
    | some kid =>
      cases h2 : lookupKeys st m ks with
      | none => simp [h1, h2] at hk
      | some r =>
        simp only [h1, h2, Option.some.injEq] at hk
        subst hk
        simp only [List.map_cons, valuesFor]
        obtain ⟨v, hv⟩ := hall k List.mem_cons_self
        obtain ⟨kid', id, hsch, hd, _, hf⟩ := hwf.complete m s t k v hw hv
        have := hwf.schemaFun _ _ _ (lookup_some_mem h1) hsch
        subst this
        have hid := valueIdOf_spec hwf hl kid sel hs hf
        refine ⟨⟨v, hv, ?_⟩, ih r h2 (fun k' hk' => hall k' (List.mem_cons_of_mem _ hk'))⟩
        simp only [hid]
        exact keyOfId_spec hwf hd

theorem lookupKeys_mem {st : State} {m : Metric} {keys : List Bytes} {kids : List KeyId}
    (hk : lookupKeys st m keys = some kids) :
    (∀ k ∈ keys, ∃ kid ∈ kids, ((m, k), kid) ∈ st.schema) ∧ (∀ kid ∈ kids, ∃ k ∈ keys, ((m, k), kid) ∈ st.schema) := by
  induction keys generalizing kids with
  | nil =>
    simp only [lookupKeys, Option.some.injEq] at hk
    subst hk
    exact ⟨fun k hk => (by cases hk), fun k hk => (by cases hk)⟩
  | cons k ks ih =>
    simp only [lookupKeys] at hk
    cases h1 : Map.lookup st.schema (m, k) with
    | none => simp [h1] at hk
    | some kid =>
      cases h2 : lookupKeys st m ks with
      | none => simp [h1, h2] at hk
      | some r =>
        simp only [h1, h2, Option.some.injEq] at hk
        subst hk
        obtain ⟨i1, i2⟩ := ih h2
        constructor
        · intro k' hk'
          rcases List.mem_cons.mp hk' with rfl | hk'
          · exact ⟨kid, List.mem_cons_self, lookup_some_mem h1⟩
          · obtain ⟨kid', hm, hs⟩ := i1 k' hk'
            exact ⟨kid', List.mem_cons_of_mem _ hm, hs⟩
        · intro kid' hk'
          rcases List.mem_cons.mp hk' with rfl | hk'
          · exact ⟨k, List.mem_cons_self, lookup_some_mem h1⟩
          · obtain ⟨k', hm, hs⟩ := i2 kid' hk'
            exact ⟨k', List.mem_cons_of_mem _ hm, hs⟩

/-! ### small facts used by the property theorems -/

theorem validOps_of_writes {ops1 ops2 : List Op} (hw : writesOf ops1 = writesOf ops2) (hv : ValidOps ops1) :
    ValidOps ops2 := by
  have key : ∀ ops : List Op, ∀ m t, Op.write m t ∈ ops ↔ (m, t) ∈ writesOf ops := by
    intro ops
    induction ops with
    | nil => intro m t; simp [writesOf]
    | cons op r ih =>
      intro m t
      cases op with
      | write m' t' => simp [writesOf, ih]
      | place s => simp [writesOf, ih]
  intro m t hm
  exact hv m t ((key ops1 m t).mpr (hw ▸ (key ops2 m t).mp hm))

theorem numWrites_eq (ops : List Op) : numWrites ops = (writesOf ops).length := by
  induction ops with
  | nil => rfl
  | cons op r ih => cases op <;> simp [numWrites, writesOf, ih]

/-- the values reported for a series are determined by its tags: whatever the index state, two
answers for the same series carry the same strings -/
theorem groupValuesOK_unique {t : Tags} (hnd : (t.map Prod.fst).Nodup) (keys : List Bytes)
    (a b : List (ValId × Option Bytes)) (ha : groupValuesOK t keys a) (hb : groupValuesOK t keys b) :
    a.map (·.2) = b.map (·.2) := by
  induction keys generalizing a b with
  | nil =>
    cases a <;> cases b <;> simp_all [groupValuesOK]
  | cons k ks ih =>
    cases a with
    | nil => simp [groupValuesOK] at ha
    | cons x xs =>
      cases b with
      | nil => simp [groupValuesOK] at hb
      | cons y ys =>
        simp only [groupValuesOK] at ha hb
        obtain ⟨⟨v1, hv1, e1⟩, ha'⟩ := ha
        obtain ⟨⟨v2, hv2, e2⟩, hb'⟩ := hb
        have := nodup_keys_unique hnd hv1 hv2
        subst this
        simp only [List.map_cons, e1, e2, ih xs ys ha' hb']

end LinVerif.TagFilter
