/-
C15 — Go's container/heap (as modelled in Model/MergedIter.lean) meets the abstract heap
specification, for every `heap.Interface` whose Len/Less/Swap behave like an array of keyed
cells (`View`).  Pure function-level facts first (keys as `Nat → Nat`), then the lift to lists.
-/
import LinVerif.Model.MergedIter

namespace LinVerif.MergedIter

/-! ## function-level: keys as a function of the slot -/

/-- exchange of two slots -/
def fsw (k : Nat → Nat) (i j : Nat) : Nat → Nat :=
  fun x => if x = i then k j else if x = j then k i else k x

/-- heap order on the slots `[0,n)` whose parent is ≥ lo -/
def HeapFrom (k : Nat → Nat) (lo n : Nat) : Prop :=
  ∀ c, 0 < c → c < n → lo ≤ (c - 1) / 2 → k ((c - 1) / 2) ≤ k c

theorem heap_root_min {k : Nat → Nat} {n : Nat} (h : HeapFrom k 0 n) : ∀ c, c < n → k 0 ≤ k c := by
  intro c
  induction c using Nat.strongRecOn with
  | _ c ih =>
    intro hc
    by_cases h0 : c = 0
    · subst h0; exact Nat.le_refl _
    · have hp : (c - 1) / 2 < c := by omega
      have h1 := ih ((c - 1) / 2) hp (by omega)
      have h2 := h c (by omega) hc (by omega)
      omega

/-- one iteration of `down` that swaps: the loop invariant moves from i to the chosen child j -/
theorem down_step {k : Nat → Nat} {i0 i j n : Nat}
    (hi0 : i0 ≤ i) (hjc : j = 2 * i + 1 ∨ j = 2 * i + 2) (hjn : j < n)
    (hmin : ∀ c, c < n → (c - 1) / 2 = i → 0 < c → k j ≤ k c)
    (hlt : k j < k i)
    (ha : ∀ c, 0 < c → c < n → i0 ≤ (c - 1) / 2 → (c - 1) / 2 ≠ i → k ((c - 1) / 2) ≤ k c)
    (hb : i ≠ i0 → ∀ c, 0 < c → c < n → (c - 1) / 2 = i → k ((i - 1) / 2) ≤ k c) :
    (∀ c, 0 < c → c < n → i0 ≤ (c - 1) / 2 → (c - 1) / 2 ≠ j →
        fsw k i j ((c - 1) / 2) ≤ fsw k i j c) ∧
    (j ≠ i0 → ∀ c, 0 < c → c < n → (c - 1) / 2 = j → fsw k i j ((j - 1) / 2) ≤ fsw k i j c) := by
  have hpj : (j - 1) / 2 = i := by omega
  have hij : i ≠ j := by omega
  constructor
  · intro c hc0 hcn hlo hne
    by_cases hci : c = i
    · have hne0 : i ≠ i0 := by omega
      have := hb hne0 j (by omega) hjn hpj
      have hpne : (c - 1) / 2 ≠ i := by omega
      grind [fsw]
    · by_cases hcj : c = j
      · grind [fsw]
      · by_cases hpi : (c - 1) / 2 = i
        · have := hmin c hcn hpi hc0
          grind [fsw]
        · have := ha c hc0 hcn hlo hpi
          grind [fsw]
  · intro _ c hc0 hcn hpc
    have hci : c ≠ i := by omega
    have hcj : c ≠ j := by omega
    have := ha c hc0 hcn (by omega) (by omega)
    grind [fsw]

/-- `down` stops: the invariant at i plus "i ≤ its children" is the heap order from i0 -/
theorem down_stop {k : Nat → Nat} {i0 i n : Nat}
    (hch : ∀ c, 0 < c → c < n → (c - 1) / 2 = i → k i ≤ k c)
    (ha : ∀ c, 0 < c → c < n → i0 ≤ (c - 1) / 2 → (c - 1) / 2 ≠ i → k ((c - 1) / 2) ≤ k c) :
    HeapFrom k i0 n := by
  intro c hc0 hcn hlo
  by_cases hpi : (c - 1) / 2 = i
  · rw [hpi]; exact hch c hc0 hcn hpi
  · exact ha c hc0 hcn hlo hpi

/-- one iteration of `up` that swaps j with its parent i -/
theorem up_step {k : Nat → Nat} {i j n : Nat}
    (hi : i = (j - 1) / 2) (hij : i ≠ j) (hjn : j < n) (hlt : k j < k i)
    (ha : ∀ c, 0 < c → c < n → c ≠ j → k ((c - 1) / 2) ≤ k c)
    (hb : ∀ c, 0 < c → c < n → (c - 1) / 2 = j → k i ≤ k c) :
    (∀ c, 0 < c → c < n → c ≠ i → fsw k i j ((c - 1) / 2) ≤ fsw k i j c) ∧
    (∀ c, 0 < c → c < n → (c - 1) / 2 = i → fsw k i j ((i - 1) / 2) ≤ fsw k i j c) := by
  have hj0 : 0 < j := by omega
  have hilt : i < j := by omega
  constructor
  · intro c hc0 hcn hci
    by_cases hcj : c = j
    · grind [fsw]
    · by_cases hpj : (c - 1) / 2 = j
      · have := hb c hc0 hcn hpj
        grind [fsw]
      · have := ha c hc0 hcn hcj
        grind [fsw]
  · intro c hc0 hcn hpc
    by_cases hi0 : i = 0
    · -- i = 0: parent of 0 is 0; new k 0 = old k j ≤ ...
      have hci : c ≠ i := by omega
      by_cases hcj : c = j
      · grind [fsw]
      · have := ha c hc0 hcn hcj
        grind [fsw]
    · have hppi : (i - 1) / 2 ≠ i := by omega
      have hppj : (i - 1) / 2 ≠ j := by omega
      have hci : c ≠ i := by omega
      have hpar := ha i (by omega) (by omega) hij
      by_cases hcj : c = j
      · grind [fsw]
      · have := ha c hc0 hcn hcj
        grind [fsw]

/-! ## list-level: exchange of two cells -/

def swapL {α : Type} (l : List α) (i j : Nat) : List α :=
  match l[i]?, l[j]? with
  | some a, some b => (l.set i b).set j a
  | _, _ => l

def kAt {C : Type} (key : C → Nat) (l : List C) (x : Nat) : Nat :=
  match l[x]? with
  | some c => key c
  | none => 0

theorem perm_set_cons {α : Type} (a b : α) : ∀ (t : List α) (j : Nat), t[j]? = some b →
    (b :: t.set j a).Perm (a :: t) := by
  intro t
  induction t with
  | nil => intro j h; simp at h
  | cons x t ih =>
    intro j h
    cases j with
    | zero =>
      simp at h; subst h
      simp only [List.set_cons_zero]
      exact List.Perm.swap _ _ _
    | succ j =>
      simp at h
      simp only [List.set_cons_succ]
      have := ih j h
      -- b :: x :: t.set j a ~ a :: x :: t
      exact (List.Perm.swap x b _).trans (((List.Perm.cons x this)).trans (List.Perm.swap a x _))

theorem swapL_length {α : Type} (l : List α) (i j : Nat) : (swapL l i j).length = l.length := by
  unfold swapL
  split <;> simp

theorem swapL_perm {α : Type} : ∀ (l : List α) (i j : Nat), (swapL l i j).Perm l := by
  intro l
  induction l with
  | nil => intro i j; simp [swapL]
  | cons x t ih =>
    intro i j
    cases i with
    | zero =>
      cases j with
      | zero => simp [swapL]
      | succ j =>
        unfold swapL
        cases hj : t[j]? with
        | none => simp [hj]
        | some b =>
          simp [hj]
          exact perm_set_cons x b t j hj
    | succ i =>
      cases j with
      | zero =>
        unfold swapL
        cases hi : t[i]? with
        | none => simp [hi]
        | some a =>
          simp [hi]
          exact perm_set_cons x a t i hi
      | succ j =>
        have := ih i j
        unfold swapL at this ⊢
        simp only [List.getElem?_cons_succ]
        cases hi : t[i]? with
        | none => simp
        | some a =>
          cases hj : t[j]? with
          | none => simp
          | some b =>
            simp [hi, hj] at this ⊢
            exact this

theorem getElem?_swapL {α : Type} (l : List α) (i j x : Nat) (hi : i < l.length) (hj : j < l.length) :
    (swapL l i j)[x]? = if x = j then l[i]? else if x = i then l[j]? else l[x]? := by
  unfold swapL
  have ei : l[i]? = some l[i] := List.getElem?_eq_getElem hi
  have ej : l[j]? = some l[j] := List.getElem?_eq_getElem hj
  rw [ei, ej]
  simp only [List.getElem?_set]
  grind

theorem kAt_swapL {C : Type} (key : C → Nat) (l : List C) (i j : Nat) (hi : i < l.length) (hj : j < l.length) :
    kAt key (swapL l i j) = fsw (kAt key l) i j := by
  funext x
  unfold kAt fsw
  rw [getElem?_swapL l i j x hi hj]
  grind
/-! ## the stdlib algorithms against an abstract `heap.Interface` -/

/-- what the heap algorithms need to know about a `heap.Interface`: the container looks like a
list of cells with a key; Len/Less/Swap act on it as on an array. -/
structure View {H : Type} (I : HeapIface H) (C : Type) where
  view : H → List C
  key : C → Nat
  len_eq : ∀ h, I.len h = (view h).length
  less_eq : ∀ h i j, i < (view h).length → j < (view h).length →
    I.less h i j = decide (kAt key (view h) i < kAt key (view h) j)
  swap_eq : ∀ h i j, i < (view h).length → j < (view h).length →
    view (I.swap h i j) = swapL (view h) i j

variable {H C : Type} {I : HeapIface H}

def View.kf (V : View I C) (h : H) : Nat → Nat := kAt V.key (V.view h)

theorem View.kf_swap (V : View I C) (h : H) (i j : Nat) (hi : i < (V.view h).length) (hj : j < (V.view h).length) :
    V.kf (I.swap h i j) = fsw (V.kf h) i j := by
  unfold View.kf
  rw [V.swap_eq h i j hi hj, kAt_swapL V.key _ i j hi hj]

theorem View.len_swap (V : View I C) (h : H) (i j : Nat) (hi : i < (V.view h).length) (hj : j < (V.view h).length) :
    (V.view (I.swap h i j)).length = (V.view h).length := by
  rw [V.swap_eq h i j hi hj, swapL_length]

theorem downLoop_leaf (I : HeapIface H) (fuel : Nat) (h : H) (i n : Nat) (hl : n ≤ 2 * i + 1) :
    downLoop I fuel h i n = (h, i) := by
  cases fuel with
  | zero => rfl
  | succ f => simp [downLoop, hl]

/-- specification of the loop of `heap.down` -/
theorem downLoop_spec (V : View I C) : ∀ (fuel : Nat) (h : H) (i n i0 : Nat),
    n ≤ (V.view h).length → i < n → n - i ≤ fuel → i0 ≤ i →
    (∀ c, 0 < c → c < n → i0 ≤ (c - 1) / 2 → (c - 1) / 2 ≠ i → V.kf h ((c - 1) / 2) ≤ V.kf h c) →
    (i ≠ i0 → ∀ c, 0 < c → c < n → (c - 1) / 2 = i → V.kf h ((i - 1) / 2) ≤ V.kf h c) →
    HeapFrom (V.kf (downLoop I fuel h i n).1) i0 n ∧
    (V.view (downLoop I fuel h i n).1).Perm (V.view h) ∧
    (∀ x, x < i ∨ n ≤ x → (V.view (downLoop I fuel h i n).1)[x]? = (V.view h)[x]?) := by
  intro fuel
  induction fuel with
  | zero => intro h i n i0 _ hin hf; omega
  | succ f ih =>
    intro h i n i0 hlen hin hf hi0 ha hb
    by_cases hleaf : n ≤ 2 * i + 1
    · rw [downLoop_leaf I _ h i n hleaf]
      refine ⟨?_, List.Perm.refl _, fun _ _ => rfl⟩
      apply down_stop (i := i) _ ha
      intro c hc0 hcn hpc; omega
    · have hj1 : 2 * i + 1 < n := by omega
      -- the chosen child
      generalize hjdef : (if (2 * i + 1 + 1 < n && I.less h (2 * i + 1 + 1) (2 * i + 1)) then 2 * i + 1 + 1 else 2 * i + 1) = j
      have hunf : downLoop I (f + 1) h i n =
          if !I.less h j i then (h, i) else downLoop I f (I.swap h i j) j n := by
        simp only [downLoop]
        rw [if_neg (by omega)]
        simp only [hjdef]
      have hjc : j = 2 * i + 1 ∨ j = 2 * i + 2 := by
        rw [← hjdef]; split <;> omega
      have hjn : j < n := by
        rw [← hjdef]; split
        · rename_i hc; simp at hc; omega
        · omega
      have hmin : ∀ c, c < n → (c - 1) / 2 = i → 0 < c → V.kf h j ≤ V.kf h c := by
        intro c hcn hpc hc0
        have hcc : c = 2 * i + 1 ∨ c = 2 * i + 2 := by omega
        by_cases h2 : 2 * i + 1 + 1 < n
        · have hl := V.less_eq h (2 * i + 1 + 1) (2 * i + 1) (by omega) (by omega)
          by_cases hls : I.less h (2 * i + 1 + 1) (2 * i + 1) = true
          · have : j = 2 * i + 2 := by rw [← hjdef]; simp [h2, hls]
            rw [hls] at hl
            have hl' : kAt V.key (V.view h) (2 * i + 2) < kAt V.key (V.view h) (2 * i + 1) := by
              simpa using hl.symm
            subst this
            rcases hcc with hcc | hcc
            · subst hcc; unfold View.kf; omega
            · subst hcc; exact Nat.le_refl _
          · have hj : j = 2 * i + 1 := by rw [← hjdef]; simp [hls]
            have hls' : I.less h (2 * i + 1 + 1) (2 * i + 1) = false := by simpa using hls
            rw [hls'] at hl
            have hl' : ¬ kAt V.key (V.view h) (2 * i + 2) < kAt V.key (V.view h) (2 * i + 1) := by
              simpa using hl.symm
            subst hj
            rcases hcc with hcc | hcc
            · subst hcc; exact Nat.le_refl _
            · subst hcc; unfold View.kf; omega
        · have hj : j = 2 * i + 1 := by rw [← hjdef]; simp [h2]
          subst hj
          have : c = 2 * i + 1 := by omega
          subst this; exact Nat.le_refl _
      have hlji := V.less_eq h j i (by omega) (by omega)
      rw [hunf]
      by_cases hls : I.less h j i = true
      · -- swap and continue
        rw [hls] at hlji
        have hlt : V.kf h j < V.kf h i := by unfold View.kf; simpa using hlji.symm
        rw [if_neg (by simp [hls])]
        have hstep := down_step (k := V.kf h) hi0 hjc hjn hmin hlt ha hb
        have hil : i < (V.view h).length := by omega
        have hjl : j < (V.view h).length := by omega
        have hkf := V.kf_swap h i j hil hjl
        have hlen' := V.len_swap h i j hil hjl
        have := ih (I.swap h i j) j n i0 (by omega) hjn (by omega) (by omega)
          (by rw [hkf]; exact hstep.1) (by rw [hkf]; exact hstep.2)
        refine ⟨this.1, ?_, ?_⟩
        · refine this.2.1.trans ?_
          rw [V.swap_eq h i j hil hjl]; exact swapL_perm _ _ _
        · intro x hx
          rw [this.2.2 x (by omega), V.swap_eq h i j hil hjl, getElem?_swapL _ _ _ _ hil hjl]
          have : x ≠ j := by omega
          have : x ≠ i := by omega
          simp [*]
      · have hls' : I.less h j i = false := by simpa using hls
        rw [hls'] at hlji
        have hge : ¬ V.kf h j < V.kf h i := by unfold View.kf; simpa using hlji.symm
        rw [if_pos (by simp [hls'])]
        refine ⟨?_, List.Perm.refl _, fun _ _ => rfl⟩
        apply down_stop (i := i) _ ha
        intro c hc0 hcn hpc
        have := hmin c hcn hpc hc0
        omega

/-- specification of `heap.up` -/
theorem up_spec (V : View I C) : ∀ (fuel : Nat) (h : H) (j n : Nat),
    n = (V.view h).length → j < n → j < fuel →
    (∀ c, 0 < c → c < n → c ≠ j → V.kf h ((c - 1) / 2) ≤ V.kf h c) →
    (∀ c, 0 < c → c < n → (c - 1) / 2 = j → V.kf h ((j - 1) / 2) ≤ V.kf h c) →
    HeapFrom (V.kf (up I fuel h j)) 0 n ∧ (V.view (up I fuel h j)).Perm (V.view h) := by
  intro fuel
  induction fuel with
  | zero => intro h j n _ _ hf; omega
  | succ f ih =>
    intro h j n hn hjn hf ha hb
    have hunf : up I (f + 1) h j =
        if ((j - 1) / 2 = j || !I.less h j ((j - 1) / 2)) then h
        else up I f (I.swap h ((j - 1) / 2) j) ((j - 1) / 2) := by
      simp only [up]
    rw [hunf]
    have hl := V.less_eq h j ((j - 1) / 2) (by omega) (by omega)
    by_cases hroot : (j - 1) / 2 = j
    · rw [if_pos (by simp [hroot])]
      refine ⟨?_, List.Perm.refl _⟩
      intro c hc0 hcn _
      exact ha c hc0 hcn (by omega)
    · by_cases hls : I.less h j ((j - 1) / 2) = true
      · rw [if_neg (by simp [hroot, hls])]
        rw [hls] at hl
        have hlt : V.kf h j < V.kf h ((j - 1) / 2) := by unfold View.kf; simpa using hl.symm
        have hstep := up_step (k := V.kf h) (i := (j - 1) / 2) (j := j) (n := n) rfl hroot hjn hlt ha hb
        have hil : (j - 1) / 2 < (V.view h).length := by omega
        have hjl : j < (V.view h).length := by omega
        have hkf := V.kf_swap h _ j hil hjl
        have hlen' := V.len_swap h _ j hil hjl
        have := ih (I.swap h ((j - 1) / 2) j) ((j - 1) / 2) n (by omega) (by omega) (by omega)
          (by rw [hkf]; exact hstep.1) (by rw [hkf]; exact hstep.2)
        refine ⟨this.1, this.2.trans ?_⟩
        rw [V.swap_eq h _ j hil hjl]; exact swapL_perm _ _ _
      · have hls' : I.less h j ((j - 1) / 2) = false := by simpa using hls
        rw [if_pos (by simp [hls'])]
        rw [hls'] at hl
        have hge : ¬ V.kf h j < V.kf h ((j - 1) / 2) := by unfold View.kf; simpa using hl.symm
        refine ⟨?_, List.Perm.refl _⟩
        intro c hc0 hcn _
        by_cases hcj : c = j
        · subst hcj; omega
        · exact ha c hc0 hcn hcj

/-- `heap.down(h, i0, n)` for a container whose slots with parent > i0 are already in heap order -/
theorem down_spec (V : View I C) (h : H) (i0 n : Nat) (hlen : n ≤ (V.view h).length) (hi : i0 < n)
    (hpre : ∀ c, 0 < c → c < n → i0 < (c - 1) / 2 → V.kf h ((c - 1) / 2) ≤ V.kf h c) :
    HeapFrom (V.kf (down I h i0 n).1) i0 n ∧
    (V.view (down I h i0 n).1).Perm (V.view h) ∧
    (∀ x, x < i0 ∨ n ≤ x → (V.view (down I h i0 n).1)[x]? = (V.view h)[x]?) := by
  unfold down
  exact downLoop_spec V n h i0 n i0 hlen hi (by omega) (Nat.le_refl _)
    (fun c hc0 hcn hlo hne => hpre c hc0 hcn (by omega)) (fun hne => absurd rfl hne)

theorem initLoop_spec (V : View I C) (n : Nat) : ∀ (k : Nat) (h : H),
    n = (V.view h).length → k ≤ n → (k = 0 ∨ k - 1 < n) →
    HeapFrom (V.kf h) k n →
    HeapFrom (V.kf (initLoop I n k h)) 0 n ∧ (V.view (initLoop I n k h)).Perm (V.view h) := by
  intro k
  induction k with
  | zero => intro h _ _ _ hh; exact ⟨hh, List.Perm.refl _⟩
  | succ k ih =>
    intro h hn hk _ hh
    simp only [initLoop]
    have hd := down_spec V h k n (by omega) (by omega) (fun c hc0 hcn hlo => hh c hc0 hcn (by omega))
    have hlen : (V.view (down I h k n).1).length = (V.view h).length := hd.2.1.length_eq
    have := ih (down I h k n).1 (by omega) (by omega) (by omega) hd.1
    exact ⟨this.1, this.2.trans hd.2.1⟩

/-- `heap.Init` establishes the heap order and only permutes the cells -/
theorem heapInit_spec (V : View I C) (h : H) :
    HeapFrom (V.kf (heapInit I h)) 0 (V.view h).length ∧ (V.view (heapInit I h)).Perm (V.view h) := by
  unfold heapInit
  rw [V.len_eq h]
  apply initLoop_spec V _ _ h rfl (by omega) (by omega)
  intro c hc0 hcn hlo; omega


/-- container part of `heap.Pop` on a non-empty heap of n+1 cells: the old root ends in the last
slot, the first n slots are a heap again, nothing is lost -/
theorem heapPopPrepare_spec (V : View I C) (h : H) (n : Nat) (hlen : (V.view h).length = n + 1)
    (hh : HeapFrom (V.kf h) 0 (n + 1)) :
    (V.view (heapPopPrepare I h)).Perm (V.view h) ∧
    (V.view (heapPopPrepare I h))[n]? = (V.view h)[0]? ∧
    HeapFrom (V.kf (heapPopPrepare I h)) 0 n := by
  have h0 : 0 < (V.view h).length := by omega
  have hn : n < (V.view h).length := by omega
  have hsw := V.swap_eq h 0 n h0 hn
  have hkf := V.kf_swap h 0 n h0 hn
  have hlsw := V.len_swap h 0 n h0 hn
  have hnn : I.len h - 1 = n := by rw [V.len_eq, hlen]; rfl
  unfold heapPopPrepare
  simp only [hnn]
  have hlast : (V.view (I.swap h 0 n))[n]? = (V.view h)[0]? := by
    rw [hsw, getElem?_swapL _ _ _ _ h0 hn]; simp
  by_cases hsmall : n ≤ 1
  · unfold down
    rw [downLoop_leaf I _ _ 0 n (by omega)]
    refine ⟨by rw [hsw]; exact swapL_perm _ _ _, hlast, ?_⟩
    intro c hc0 hcn; omega
  · have hd := down_spec V (I.swap h 0 n) 0 n (by omega) (by omega) (by
      intro c hc0 hcn hlo
      rw [hkf]
      have := hh c hc0 (by omega) (by omega)
      have h1 : (c - 1) / 2 ≠ 0 := by omega
      have h2 : (c - 1) / 2 ≠ n := by omega
      have h3 : c ≠ 0 := by omega
      have h4 : c ≠ n := by omega
      simp only [fsw, h1, h2, h3, h4, if_false]
      exact this)
    refine ⟨hd.2.1.trans (by rw [hsw]; exact swapL_perm _ _ _), ?_, hd.1⟩
    rw [hd.2.2 n (by omega)]; exact hlast

/-- `heap.Fix(h, n)` on the last slot of n+1 cells whose first n slots are a heap (this is what
`m.pq.Push(item); m.pq.update(item)` amounts to): `down` does nothing, `up` restores the order -/
theorem heapFix_last_spec (V : View I C) (h : H) (n : Nat) (hlen : (V.view h).length = n + 1)
    (hh : HeapFrom (V.kf h) 0 n) :
    HeapFrom (V.kf (heapFix I h n)) 0 (n + 1) ∧ (V.view (heapFix I h n)).Perm (V.view h) := by
  have hfix : heapFix I h n = up I (n + 1) h n := by
    unfold heapFix down
    rw [V.len_eq, hlen, downLoop_leaf I _ _ n (n + 1) (by omega)]
    simp
  rw [hfix]
  apply up_spec V (n + 1) h n (n + 1) hlen.symm (by omega) (by omega)
  · intro c hc0 hcn hne
    exact hh c hc0 (by omega) (by omega)
  · intro c hc0 hcn hpc; omega

end LinVerif.MergedIter

