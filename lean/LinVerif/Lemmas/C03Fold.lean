/-
C03 helper lemmas: algebra of `foldAgg` (left fold of the field aggregate over the contributed
values) — append, permutation invariance for commutative/associative aggregates, membership for
selective ones (first/last), and the `Int` instances of `aggInt`.
-/
import LinVerif.Model.MetricBlock
import Mathlib.Data.List.Perm.Basic

namespace LinVerif.C03
open LinVerif.MetricBlock List

variable {V : Type}

/-- one aggregation step into a possibly empty accumulator
(`math.IsInf(targetValues[pos], 1)` / `values.HasValue(pos)` decide between set and aggregate) -/
def comb (op : V → V → V) : Option V → V → Option V
  | none, v => some v
  | some a, v => some (op a v)

/-- an optional arriving value -/
def combOpt (op : V → V → V) (o : Option V) : Option V → Option V
  | none => o
  | some v => comb op o v

def combList (op : V → V → V) (o : Option V) (l : List V) : Option V := l.foldl (comb op) o

/-- two partial aggregates combined -/
def merge2 (op : V → V → V) : Option V → Option V → Option V
  | none, y => y
  | x, none => x
  | some a, some b => some (op a b)

@[simp] theorem combList_nil (op : V → V → V) (o : Option V) : combList op o [] = o := rfl
@[simp] theorem combList_cons (op : V → V → V) (o : Option V) (v : V) (l : List V) :
    combList op o (v :: l) = combList op (comb op o v) l := rfl

theorem combList_append (op : V → V → V) (o : Option V) (l₁ l₂ : List V) :
    combList op o (l₁ ++ l₂) = combList op (combList op o l₁) l₂ := by
  simp [combList, List.foldl_append]

theorem combList_some (op : V → V → V) (a : V) (l : List V) :
    combList op (some a) l = some (l.foldl op a) := by
  induction l generalizing a with
  | nil => rfl
  | cons v t ih => simp [comb, ih]

theorem foldAgg_eq_combList (op : V → V → V) (l : List V) : foldAgg op l = combList op none l := by
  cases l with
  | nil => rfl
  | cons v t => simp [foldAgg, comb, combList_some]

theorem foldAgg_eq_none_iff (op : V → V → V) (l : List V) : foldAgg op l = none ↔ l = [] := by
  cases l <;> simp [foldAgg]

theorem foldAgg_isSome_iff (op : V → V → V) (l : List V) : (foldAgg op l).isSome ↔ l ≠ [] := by
  cases l <;> simp [foldAgg]

/-- `op` always returns one of its arguments (first, last, min, max) -/
def Selective (op : V → V → V) : Prop := ∀ a b, op a b = a ∨ op a b = b

theorem foldl_mem_of_selective {op : V → V → V} (h : Selective op) (a : V) (l : List V) :
    l.foldl op a = a ∨ l.foldl op a ∈ l := by
  induction l generalizing a with
  | nil => left; rfl
  | cons v t ih =>
    simp only [List.foldl_cons, List.mem_cons]
    rcases ih (op a v) with h1 | h1
    · rcases h a v with h2 | h2
      · left; rw [h1, h2]
      · right; left; rw [h1, h2]
    · right; right; exact h1

/-- for a selective aggregate the result is one of the contributed values -/
theorem foldAgg_mem_of_selective {op : V → V → V} (h : Selective op) {l : List V} {v : V}
    (hv : foldAgg op l = some v) : v ∈ l := by
  cases l with
  | nil => simp [foldAgg] at hv
  | cons a t =>
    simp only [foldAgg, Option.some.injEq] at hv
    subst hv
    rcases foldl_mem_of_selective h a t with h1 | h1
    · rw [h1]; exact List.mem_cons_self
    · exact List.mem_cons_of_mem _ h1

theorem foldAgg_last (l : List V) : foldAgg (fun _ b => b) l = l.getLast? := by
  cases l with
  | nil => rfl
  | cons a t =>
    simp only [foldAgg]
    induction t generalizing a with
    | nil => rfl
    | cons b t ih => simp [List.getLast?_cons_cons] at ih ⊢; exact ih b

theorem foldAgg_first (l : List V) : foldAgg (fun a _ => a) l = l.head? := by
  cases l with
  | nil => rfl
  | cons a t =>
    simp only [foldAgg, List.head?_cons, Option.some.injEq]
    induction t with
    | nil => rfl
    | cons b t ih => simp [ih]

section CommAssoc
variable {op : V → V → V}

/-- commutative and associative aggregate (sum, min, max, histogram) -/
structure CommAssoc (op : V → V → V) : Prop where
  comm : ∀ a b, op a b = op b a
  assoc : ∀ a b c, op (op a b) c = op a (op b c)

theorem comb_right_comm (h : CommAssoc op) (o : Option V) (a b : V) :
    comb op (comb op o a) b = comb op (comb op o b) a := by
  cases o with
  | none => simp [comb, h.comm a b]
  | some x =>
    simp only [comb, Option.some.injEq]
    rw [h.assoc, h.assoc, h.comm a b]

theorem combList_perm (h : CommAssoc op) {l₁ l₂ : List V} (p : l₁ ~ l₂) (o : Option V) :
    combList op o l₁ = combList op o l₂ := by
  have : RightCommutative (comb op) := ⟨fun o a b => comb_right_comm h o a b⟩
  exact p.foldl_eq o

theorem foldAgg_perm (h : CommAssoc op) {l₁ l₂ : List V} (p : l₁ ~ l₂) :
    foldAgg op l₁ = foldAgg op l₂ := by
  rw [foldAgg_eq_combList, foldAgg_eq_combList]; exact combList_perm h p none

theorem foldl_op_assoc (h : CommAssoc op) (a b : V) (l : List V) :
    l.foldl op (op a b) = op a (l.foldl op b) := by
  induction l generalizing b with
  | nil => rfl
  | cons v t ih => simp only [List.foldl_cons]; rw [h.assoc, ih]

theorem combList_eq_merge2 (h : CommAssoc op) (o : Option V) (l : List V) :
    combList op o l = merge2 op o (foldAgg op l) := by
  cases l with
  | nil => cases o <;> rfl
  | cons v t =>
    cases o with
    | none => simp [foldAgg, merge2, comb, combList_some]
    | some a => simp [foldAgg, merge2, comb, combList_some, foldl_op_assoc h]

theorem foldAgg_append (h : CommAssoc op) (l₁ l₂ : List V) :
    foldAgg op (l₁ ++ l₂) = merge2 op (foldAgg op l₁) (foldAgg op l₂) := by
  rw [foldAgg_eq_combList, combList_append, ← foldAgg_eq_combList, combList_eq_merge2 h]

/-- replacing a sub-list of contributions by its aggregate does not change the aggregate -/
theorem foldAgg_append_toList (h : CommAssoc op) (l₁ l₂ : List V) :
    foldAgg op (l₁ ++ (foldAgg op l₂).toList) = foldAgg op (l₁ ++ l₂) := by
  rw [foldAgg_append h, foldAgg_append h]
  cases l₂ with
  | nil => rfl
  | cons v t => simp [foldAgg]

end CommAssoc

/-! ### `Int` instances -/

theorem aggInt_commAssoc (ty : FieldType) (h : ty.orderFree = true) : CommAssoc (aggInt ty) := by
  cases ty <;> simp [FieldType.orderFree] at h <;>
    constructor <;> intros <;> simp only [aggInt, FieldType.aggKind, AggKind.aggregate] <;> omega

theorem aggInt_selective_of_not_sum (ty : FieldType) (h : ty.aggKind ≠ .sum) :
    Selective (aggInt ty) := by
  intro a b
  cases ty
  · exact absurd rfl h
  · show min a b = a ∨ min a b = b; omega
  · show max a b = a ∨ max a b = b; omega
  · right; rfl
  · exact absurd rfl h
  · left; rfl

theorem aggInt_last (a b : Int) : aggInt .last a b = b := rfl
theorem aggInt_first (a b : Int) : aggInt .first a b = a := rfl

end LinVerif.C03
