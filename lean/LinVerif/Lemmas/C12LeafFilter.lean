/-
C12 — helper lemmas for the leaf's where-clause path (Model/C12LeafFilter.lean):
what `tagValuesLookup` leaves in `TagFilterResult`, and the per-series meaning of what
`seriesFiltering` computes from it on one shard.
-/
import LinVerif.Model.C12LeafFilter

namespace LinVerif.C12LeafFilter

set_option linter.unusedSectionVars false
set_option linter.unusedSimpArgs false
set_option linter.unnecessarySimpa false

variable {V P : Type} [DecidableEq V] [DecidableEq P]

/-- the atomic filters of a condition, in traversal order -/
def atoms : Cond P → List (Atom P)
  | .atom a => [a]
  | .paren c => atoms c
  | .not c => atoms c
  | .and l r => atoms l ++ atoms r
  | .or l r => atoms l ++ atoms r

theorem condKeys_eq (c : Cond P) : condKeys c = (atoms c).map (·.key) := by
  induction c with
  | atom a => rfl
  | paren c ih => simpa [condKeys, atoms] using ih
  | not c ih => simpa [condKeys, atoms] using ih
  | and l r ihl ihr => simp [condKeys, atoms, ihl, ihr]
  | or l r ihl ihr => simp [condKeys, atoms, ihl, ihr]

/-- every entry of `TagFilterResult` is the node's lookup of its atom -/
def Good (acc : P → V → Bool) (n : Node V) (res : FilterResult V P) : Prop :=
  ∀ p ∈ res, p.2 = lookupAtom acc n p.1

/-- the atom has an entry in `TagFilterResult` -/
def HasEntry (res : FilterResult V P) (a : Atom P) : Prop := ∃ p ∈ res, p.1 = a

theorem lookupGo_error (ff : Bool) (acc : P → V → Bool) (keys : List Key) (n : Node V) (c : Cond P)
    (e : LookupErr) : lookupGo ff acc keys n c (.error e) = .error e := by
  induction c with
  | atom a => simp [lookupGo]
  | paren c ih => simpa [lookupGo] using ih
  | not c ih => simpa [lookupGo] using ih
  | and l r ihl ihr => simp [lookupGo, ihl, ihr]
  | or l r ihl ihr => simp [lookupGo, ihl, ihr]

/-- the code (no fail-fast): when the node's schema has every tag key the condition names, the
lookup succeeds, whatever values the node knows; every atom gets its entry, and every entry is
the node's lookup of its atom -/
theorem lookupGo_ok (acc : P → V → Bool) (keys : List Key) (n : Node V) (c : Cond P)
    (hk : ∀ k ∈ condKeys c, k ∈ keys) (res : FilterResult V P) :
    ∃ res', lookupGo false acc keys n c (.ok res) = .ok res' ∧
      (Good acc n res → Good acc n res') ∧
      (∀ a, HasEntry res a → HasEntry res' a) ∧
      (∀ a ∈ atoms c, HasEntry res' a) := by
  induction c generalizing res with
  | atom a =>
    have hkey : a.key ∈ keys := hk a.key (by simp [condKeys])
    refine ⟨(a, lookupAtom acc n a) :: res.filter (fun p => !(p.1 == a)), ?_, ?_, ?_, ?_⟩
    · simp [lookupGo, hkey]
    · intro hg p hp
      rcases List.mem_cons.mp hp with rfl | hp
      · rfl
      · exact hg p (List.mem_filter.mp hp).1
    · intro b hb
      obtain ⟨p, hp, hpb⟩ := hb
      by_cases h : b = a
      · subst h; exact ⟨(b, lookupAtom acc n b), List.mem_cons_self, rfl⟩
      · refine ⟨p, List.mem_cons_of_mem _ (List.mem_filter.mpr ⟨hp, ?_⟩), hpb⟩
        simp [hpb, h]
    · intro b hb
      have : b = a := by simpa [atoms] using hb
      subst this
      exact ⟨(b, lookupAtom acc n b), List.mem_cons_self, rfl⟩
  | paren c ih => simpa [lookupGo, atoms, condKeys] using ih (by simpa [condKeys] using hk) res
  | not c ih => simpa [lookupGo, atoms, condKeys] using ih (by simpa [condKeys] using hk) res
  | and l r ihl ihr =>
    obtain ⟨r1, h1, g1, e1, a1⟩ := ihl (fun k hkk => hk k (by simp [condKeys, hkk])) res
    obtain ⟨r2, h2, g2, e2, a2⟩ := ihr (fun k hkk => hk k (by simp [condKeys, hkk])) r1
    refine ⟨r2, by simp [lookupGo, h1, h2], fun hg => g2 (g1 hg), fun a h => e2 a (e1 a h), ?_⟩
    intro a ha
    rcases List.mem_append.mp (by simpa [atoms] using ha) with ha | ha
    · exact e2 a (a1 a ha)
    · exact a2 a ha
  | or l r ihl ihr =>
    obtain ⟨r1, h1, g1, e1, a1⟩ := ihl (fun k hkk => hk k (by simp [condKeys, hkk])) res
    obtain ⟨r2, h2, g2, e2, a2⟩ := ihr (fun k hkk => hk k (by simp [condKeys, hkk])) r1
    refine ⟨r2, by simp [lookupGo, h1, h2], fun hg => g2 (g1 hg), fun a h => e2 a (e1 a h), ?_⟩
    intro a ha
    rcases List.mem_append.mp (by simpa [atoms] using ha) with ha | ha
    · exact e2 a (a1 a ha)
    · exact a2 a ha

/-- the code (no fail-fast): a tag key the node's schema does not have fails the lookup with
"tag key not found" — and nothing else does -/
theorem lookupGo_missing_key (acc : P → V → Bool) (keys : List Key) (n : Node V) (c : Cond P)
    (hk : ∃ k ∈ condKeys c, k ∉ keys) (res : FilterResult V P) :
    lookupGo false acc keys n c (.ok res) = .error .tagKeyNotFound := by
  induction c generalizing res with
  | atom a =>
    obtain ⟨k, hk1, hk2⟩ := hk
    have : k = a.key := by simpa [condKeys] using hk1
    subst this
    simp [lookupGo, hk2]
  | paren c ih => simpa [lookupGo] using ih (by simpa [condKeys] using hk) res
  | not c ih => simpa [lookupGo] using ih (by simpa [condKeys] using hk) res
  | and l r ihl ihr =>
    by_cases hl : ∀ k ∈ condKeys l, k ∈ keys
    · obtain ⟨r1, h1, _⟩ := lookupGo_ok acc keys n l hl res
      obtain ⟨k, hk1, hk2⟩ := hk
      have hkr : k ∈ condKeys r := by
        rcases List.mem_append.mp (by simpa [condKeys] using hk1) with h | h
        · exact absurd (hl k h) hk2
        · exact h
      simp [lookupGo, h1, ihr ⟨k, hkr, hk2⟩ r1]
    · have hl' : ∃ k ∈ condKeys l, k ∉ keys := by
        simpa using hl
      simp [lookupGo, ihl hl' res, lookupGo_error]
  | or l r ihl ihr =>
    by_cases hl : ∀ k ∈ condKeys l, k ∈ keys
    · obtain ⟨r1, h1, _⟩ := lookupGo_ok acc keys n l hl res
      obtain ⟨k, hk1, hk2⟩ := hk
      have hkr : k ∈ condKeys r := by
        rcases List.mem_append.mp (by simpa [condKeys] using hk1) with h | h
        · exact absurd (hl k h) hk2
        · exact h
      simp [lookupGo, h1, ihr ⟨k, hkr, hk2⟩ r1]
    · have hl' : ∃ k ∈ condKeys l, k ∉ keys := by
        simpa using hl
      simp [lookupGo, ihl hl' res, lookupGo_error]

/-! ### bitmaps -/

theorem mem_bmAnd (a b : List Nat) (i : Nat) : i ∈ bmAnd a b ↔ i ∈ a ∧ i ∈ b := by
  simp [bmAnd]

theorem mem_bmOr (a b : List Nat) (i : Nat) : i ∈ bmOr a b ↔ i ∈ a ∨ i ∈ b := by
  simp only [bmOr, List.mem_append, List.mem_filter]
  constructor
  · rintro (h | ⟨h, _⟩)
    · exact Or.inl h
    · exact Or.inr h
  · rintro (h | h)
    · exact Or.inl h
    · by_cases ha : i ∈ a
      · exact Or.inl ha
      · exact Or.inr ⟨h, by simpa using ha⟩

theorem mem_bmAndNot (a b : List Nat) (i : Nat) : i ∈ bmAndNot a b ↔ i ∈ a ∧ i ∉ b := by
  simp [bmAndNot]

theorem mem_seriesByValues (sh : Shard V) (k : Key) (vs : List V) (i : Nat) :
    i ∈ seriesByValues sh k vs ↔ ∃ s ∈ sh, s.id = i ∧ ∃ v, s.val k = some v ∧ v ∈ vs := by
  simp only [seriesByValues, List.mem_map, List.mem_filter]
  constructor
  · rintro ⟨s, ⟨hs, hm⟩, rfl⟩
    refine ⟨s, hs, rfl, ?_⟩
    cases hv : s.val k with
    | none => simp [hv] at hm
    | some v => exact ⟨v, rfl, by simpa [hv] using hm⟩
  · rintro ⟨s, hs, rfl, v, hv, hvs⟩
    exact ⟨s, ⟨hs, by simp [hv, hvs]⟩, rfl⟩

theorem mem_seriesForTag (sh : Shard V) (k : Key) (i : Nat) :
    i ∈ seriesForTag sh k ↔ ∃ s ∈ sh, s.id = i ∧ (s.val k).isSome = true := by
  simp only [seriesForTag, List.mem_map, List.mem_filter]
  constructor
  · rintro ⟨s, ⟨hs, hm⟩, rfl⟩; exact ⟨s, hs, rfl, hm⟩
  · rintro ⟨s, hs, rfl, hm⟩; exact ⟨s, ⟨hs, hm⟩, rfl⟩

/-- a value carried by a series written on the node is in the node's dictionary -/
theorem mem_dict_of_series (n : Node V) (s : Series V) (hs : s ∈ n.flatten) (k : Key) (v : V)
    (hv : s.val k = some v) : v ∈ n.dict k := by
  simp only [Node.dict, List.mem_filterMap]
  exact ⟨s, hs, hv⟩

/-- what `seriesFiltering` computes on one shard of the node from the node's `TagFilterResult`:
never an error, the "tag key" is `keyOf`, and a series id is in the bitmap iff its series (of this
shard) satisfies the condition's per-series meaning -/
theorem findSeries_spec (acc : P → V → Bool) (n : Node V) (res : FilterResult V P)
    (hg : Good acc n res) (sh : Shard V) (hsub : ∀ s ∈ sh, s ∈ n.flatten)
    (hinj : ∀ s ∈ sh, ∀ t ∈ sh, s.id = t.id → s = t) (c : Cond P)
    (hc : ∀ a ∈ atoms c, HasEntry res a) :
    ∃ ids, findSeries res sh c = some (keyOf c, ids) ∧
      ∀ i, i ∈ ids ↔ ∃ s ∈ sh, s.id = i ∧ sem acc c s = true := by
  induction c with
  | atom a =>
    obtain ⟨p, hp, hpa⟩ := hc a (by simp [atoms])
    cases hf : res.find? (fun p => p.1 == a) with
    | none =>
      have := List.find?_eq_none.mp hf p hp
      simp [hpa] at this
    | some q =>
      have hq1 : q.1 = a := by simpa using List.find?_some hf
      have hq2 : q.2 = lookupAtom acc n a := by
        have := hg q (List.mem_of_find?_eq_some hf)
        simpa [hq1] using this
      refine ⟨seriesByValues sh a.key q.2, by simp [findSeries, hf, keyOf], ?_⟩
      intro i
      rw [mem_seriesByValues, hq2]
      constructor
      · rintro ⟨s, hs, hid, v, hv, hvs⟩
        refine ⟨s, hs, hid, ?_⟩
        have : acc a.pat v = true := (List.mem_filter.mp hvs).2
        simp [sem, hv, this]
      · rintro ⟨s, hs, hid, hsem⟩
        refine ⟨s, hs, hid, ?_⟩
        cases hv : s.val a.key with
        | none => simp [sem, hv] at hsem
        | some v =>
          refine ⟨v, rfl, List.mem_filter.mpr ⟨mem_dict_of_series n s (hsub s hs) a.key v hv, ?_⟩⟩
          simpa [sem, hv] using hsem
  | paren c ih =>
    obtain ⟨ids, h1, h2⟩ := ih (by simpa [atoms] using hc)
    exact ⟨ids, by simp [findSeries, h1, keyOf], by simpa [sem] using h2⟩
  | not c ih =>
    obtain ⟨m, h1, h2⟩ := ih (by simpa [atoms] using hc)
    refine ⟨bmAndNot (seriesForTag sh (keyOf c)) m, by simp [findSeries, h1, keyOf], ?_⟩
    intro i
    rw [mem_bmAndNot, mem_seriesForTag, h2]
    constructor
    · rintro ⟨⟨s, hs, hid, hk⟩, hn⟩
      refine ⟨s, hs, hid, ?_⟩
      have : sem acc c s ≠ true := fun h => hn ⟨s, hs, hid, h⟩
      simp [sem, hk, this]
    · rintro ⟨s, hs, hid, hsem⟩
      have hk : (s.val (keyOf c)).isSome = true := by
        simp only [sem, Bool.and_eq_true] at hsem; exact hsem.1
      have hns : sem acc c s = false := by
        simp only [sem, Bool.and_eq_true, Bool.not_eq_true'] at hsem; exact hsem.2
      refine ⟨⟨s, hs, hid, hk⟩, ?_⟩
      rintro ⟨t, ht, htid, htsem⟩
      have : t = s := hinj t ht s hs (htid.trans hid.symm)
      subst this
      simp [hns] at htsem
  | and l r ihl ihr =>
    obtain ⟨a, ha1, ha2⟩ := ihl (fun x hx => hc x (by simp [atoms, hx]))
    obtain ⟨b, hb1, hb2⟩ := ihr (fun x hx => hc x (by simp [atoms, hx]))
    refine ⟨bmAnd a b, by simp [findSeries, ha1, hb1, keyOf], ?_⟩
    intro i
    rw [mem_bmAnd, ha2, hb2]
    constructor
    · rintro ⟨⟨s, hs, hid, h1⟩, ⟨t, ht, htid, h2⟩⟩
      have : t = s := hinj t ht s hs (htid.trans hid.symm)
      subst this
      exact ⟨t, ht, htid, by simp [sem, h1, h2]⟩
    · rintro ⟨s, hs, hid, hsem⟩
      simp only [sem, Bool.and_eq_true] at hsem
      exact ⟨⟨s, hs, hid, hsem.1⟩, ⟨s, hs, hid, hsem.2⟩⟩
  | or l r ihl ihr =>
    obtain ⟨a, ha1, ha2⟩ := ihl (fun x hx => hc x (by simp [atoms, hx]))
    obtain ⟨b, hb1, hb2⟩ := ihr (fun x hx => hc x (by simp [atoms, hx]))
    refine ⟨bmOr a b, by simp [findSeries, ha1, hb1, keyOf], ?_⟩
    intro i
    rw [mem_bmOr, ha2, hb2]
    constructor
    · rintro (⟨s, hs, hid, h1⟩ | ⟨s, hs, hid, h1⟩)
      · exact ⟨s, hs, hid, by simp [sem, h1]⟩
      · exact ⟨s, hs, hid, by simp [sem, h1]⟩
    · rintro ⟨s, hs, hid, hsem⟩
      simp only [sem, Bool.or_eq_true] at hsem
      rcases hsem with h | h
      · exact Or.inl ⟨s, hs, hid, h⟩
      · exact Or.inr ⟨s, hs, hid, h⟩

end LinVerif.C12LeafFilter
