/-
C19 helper lemmas, part 11: a root request whose context passes its deadline — the inductive
invariant of `C19Deadline.step` (source as it is: `toleratesErrMsg = false`).
-/
import LinVerif.Model.C19Deadline

namespace LinVerif.C19Deadline
open LinVerif.BrokerMeta

/-- what a return value says about the responses handled before it -/
def RetOk (n : Nat) (sf : Bool) (q : Req) : Ret → Prop
  | .ok vs => sf = false ∧ n ≤ q.handledAtReturn ∧
      (∀ r ∈ q.handled.take q.handledAtReturn, r.isErr = false) ∧
      vs = (q.handled.take q.handledAtReturn).flatMap Resp.vals
  | .err => (sf || (q.handled.take q.handledAtReturn).any Resp.isErr) = true
  | .timeout => q.ctxDone = true

structure Inv (n : Nat) (sf : Bool) (q : Req) : Prop where
  expect : q.ctx.expect = (n : Int) - q.handled.length
  err : q.ctx.err = (sf || q.handled.any Resp.isErr)
  results : q.ctx.results = q.handled.flatMap Resp.vals
  completed : q.ctx.completed = (decide (q.ctx.expect ≤ 0) || q.ctx.err)
  closes : q.ctx.closes = if q.ctx.completed then 1 else 0
  retLen : q.returned.length ≤ 1
  reg : q.returned = [] → q.registered = true
  atRet : q.handledAtReturn ≤ q.handled.length
  ret : ∀ x ∈ q.returned, RetOk n sf q x

theorem inv_init (n : Nat) (sf : Bool) : Inv n sf (init n sf) := by
  cases sf <;> by_cases h : n = 0 <;>
    (refine ⟨?_, ?_, ?_, ?_, ?_, ?_, ?_, ?_, ?_⟩ <;>
      simp [init, complete, tryClose, BrokerMeta.init, h] <;> omega)

/-- `tryClose` establishes the `completed` / `closes` relation when it held before a monotone change -/
theorem tryClose_completed (c : Ctx) :
    (tryClose c).completed = (c.completed || (decide (c.expect ≤ 0) || c.err)) := by
  unfold tryClose
  cases hc : c.completed <;> cases he : c.err <;> by_cases hx : c.expect ≤ 0 <;> simp [hc, hx]

theorem tryClose_fields (c : Ctx) :
    (tryClose c).expect = c.expect ∧ (tryClose c).err = c.err ∧ (tryClose c).results = c.results := by
  unfold tryClose; split <;> simp

theorem tryClose_closes (c : Ctx) (h : c.closes = if c.completed then 1 else 0) :
    (tryClose c).closes = if (tryClose c).completed then 1 else 0 := by
  unfold tryClose
  by_cases hcond : ((decide (c.expect ≤ 0) || c.err) && !c.completed) = true
  · rw [if_pos hcond]
    simp only [Bool.and_eq_true, Bool.not_eq_true'] at hcond
    simp [h, hcond.2]
  · rw [if_neg hcond]; exact h

theorem handle_fields (c : Ctx) (r : Resp) :
    (handle false c r).expect = c.expect - 1 ∧ (handle false c r).err = (c.err || r.isErr) ∧
    (handle false c r).results = c.results ++ r.vals ∧ (handle false c r).completed = c.completed ∧
    (handle false c r).closes = c.closes := by
  cases r <;> simp [handle, Resp.isErr, Resp.vals]

theorem take_append_of_le {α} (l : List α) (x : α) (k : Nat) (h : k ≤ l.length) :
    (l ++ [x]).take k = l.take k := by
  rw [List.take_append_of_le_length h]

theorem inv_handle {n : Nat} {sf : Bool} {q : Req} (r : Resp) (hi : Inv n sf q) :
    Inv n sf { q with ctx := handleRaw false q.ctx r, handled := q.handled ++ [r] } := by
  obtain ⟨h1, h2, h3, h4, h5, h6, h7, h8, h9⟩ := hi
  obtain ⟨f1, f2, f3, f4, f5⟩ := handle_fields q.ctx r
  obtain ⟨t1, t2, t3⟩ := tryClose_fields (handle false q.ctx r)
  have hcomp : (handleRaw false q.ctx r).completed =
      (decide ((handleRaw false q.ctx r).expect ≤ 0) || (handleRaw false q.ctx r).err) := by
    simp only [handleRaw, tryClose_completed, t1, t2, f1, f2, f4, h4]
    cases he : q.ctx.err <;> cases hr : r.isErr <;> by_cases hx : q.ctx.expect ≤ 0 <;>
      by_cases hy : q.ctx.expect - 1 ≤ 0 <;> simp [hx, hy] <;> omega
  refine ⟨?_, ?_, ?_, hcomp, ?_, h6, h7, ?_, ?_⟩
  · simp only [handleRaw, t1, f1, h1, List.length_append, List.length_singleton]; omega
  · simp only [handleRaw, t2, f2, h2, List.any_append, List.any_cons, List.any_nil, Bool.or_false,
      Bool.or_assoc]
  · simp only [handleRaw, t3, f3, h3, List.flatMap_append, List.flatMap_cons, List.flatMap_nil,
      List.append_nil]
  · exact tryClose_closes _ (by rw [f5, f4]; exact h5)
  · simp only [List.length_append, List.length_singleton]; omega
  · intro x hx
    have := h9 x hx
    cases x with
    | ok vs => simpa only [RetOk, take_append_of_le _ _ _ h8] using this
    | err => simpa only [RetOk, take_append_of_le _ _ _ h8] using this
    | timeout => exact this

theorem inv_step {n : Nat} {sf : Bool} {q q' : Req} {e : Ev} (hi : Inv n sf q)
    (h : step false q e = some q') : Inv n sf q' := by
  obtain ⟨h1, h2, h3, h4, h5, h6, h7, h8, h9⟩ := hi
  cases e with
  | resp r accept =>
    simp only [step] at h
    split at h
    · injection h with h; subst h; exact ⟨h1, h2, h3, h4, h5, h6, h7, h8, h9⟩
    · split at h
      · injection h with h; subst h
        exact inv_handle r ⟨h1, h2, h3, h4, h5, h6, h7, h8, h9⟩
      · split at h
        · injection h with h; subst h; exact ⟨h1, h2, h3, h4, h5, h6, h7, h8, h9⟩
        · cases h
  | inflight r =>
    simp only [step] at h
    injection h with h; subst h
    exact inv_handle r ⟨h1, h2, h3, h4, h5, h6, h7, h8, h9⟩
  | deadline =>
    simp only [step] at h
    injection h with h; subst h
    refine ⟨h1, h2, h3, h4, h5, h6, h7, h8, ?_⟩
    intro x hx
    have := h9 x hx
    cases x with
    | ok vs => simpa only [RetOk] using this
    | err => simpa only [RetOk] using this
    | timeout => simp [RetOk]
  | wake v =>
    cases v with
    | true =>
      simp only [step, if_true] at h
      split at h
      · rename_i hc
        simp only [Bool.and_eq_true, List.isEmpty_iff] at hc
        obtain ⟨⟨hr, hreg⟩, hv⟩ := hc
        injection h with h; subst h
        refine ⟨h1, h2, h3, h4, h5, by simp, by simp, by simp, ?_⟩
        intro x hx
        simp only [List.mem_singleton] at hx
        subst hx
        cases he : q.ctx.err with
        | true =>
          simp only [if_true, RetOk, List.take_length]
          rw [← h2]; exact he
        | false =>
          simp only [RetOk, List.take_length, Bool.false_eq_true, if_false]
          have hsf : (sf || q.handled.any Resp.isErr) = false := by rw [← h2]; exact he
          simp only [Bool.or_eq_false_iff] at hsf
          have hex : q.ctx.expect ≤ 0 := by
            have := h4; rw [hv, he] at this; simpa using this.symm
          refine ⟨hsf.1, ?_, ?_, h3⟩
          · have : (n : Int) ≤ q.handled.length := by omega
            exact_mod_cast this
          · intro r hr'
            have := hsf.2
            simp only [List.any_eq_false] at this
            simpa using this r hr'
      · cases h
    | false =>
      simp only [step, Bool.false_eq_true, if_false] at h
      split at h
      · rename_i hc
        simp only [Bool.and_eq_true, List.isEmpty_iff] at hc
        obtain ⟨⟨hr, hreg⟩, hv⟩ := hc
        injection h with h; subst h
        refine ⟨h1, h2, h3, h4, h5, by simp, by simp, by simp, ?_⟩
        intro x hx
        simp only [List.mem_singleton] at hx
        subst hx
        exact hv
      · cases h
  | unregister =>
    simp only [step] at h
    split at h
    · rename_i hc
      simp only [Bool.and_eq_true, Bool.not_eq_true', List.isEmpty_eq_false_iff] at hc
      injection h with h; subst h
      refine ⟨h1, h2, h3, h4, h5, h6, fun hr => absurd hr hc.1, h8, ?_⟩
      intro x hx
      have := h9 x hx
      cases x with
      | ok vs => simpa only [RetOk] using this
      | err => simpa only [RetOk] using this
      | timeout => exact this
    · cases h

theorem inv_run {n : Nat} {sf : Bool} : ∀ (es : List Ev) (q q' : Req), Inv n sf q →
    run false q es = some q' → Inv n sf q'
  | [], q, q', hi, h => by simp [run] at h; subst h; exact hi
  | e :: es, q, q', hi, h => by
    simp only [run] at h
    cases hs : step false q e with
    | none => simp [hs] at h
    | some q1 =>
      simp only [hs] at h
      exact inv_run es q1 q' (inv_step hi hs) h

/-- once `exec` has returned its return value never changes -/
theorem returned_frozen_step {q q' : Req} {e : Ev} {x : Ret} (hx : q.returned = [x])
    (h : step false q e = some q') : q'.returned = [x] := by
  cases e with
  | resp r a =>
    simp only [step] at h
    split at h
    · injection h with h; subst h; exact hx
    · split at h
      · injection h with h; subst h; exact hx
      · split at h
        · injection h with h; subst h; exact hx
        · cases h
  | inflight r => simp only [step] at h; injection h with h; subst h; exact hx
  | deadline => simp only [step] at h; injection h with h; subst h; exact hx
  | wake v =>
    cases v <;> simp only [step, if_true, Bool.false_eq_true, if_false] at h <;>
      (split at h
       · rename_i hc; simp [hx] at hc
       · cases h)
  | unregister =>
    simp only [step] at h
    split at h
    · injection h with h; subst h; exact hx
    · cases h

theorem returned_frozen : ∀ (es : List Ev) (q q' : Req) (x : Ret), q.returned = [x] →
    run false q es = some q' → q'.returned = [x]
  | [], q, q', x, hx, h => by simp [run] at h; subst h; exact hx
  | e :: es, q, q', x, hx, h => by
    simp only [run] at h
    cases hs : step false q e with
    | none => simp [hs] at h
    | some q1 =>
      simp only [hs] at h
      exact returned_frozen es q1 q' x (returned_frozen_step hx hs) h

end LinVerif.C19Deadline
