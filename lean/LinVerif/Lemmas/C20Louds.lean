/-
C20 helper lemmas, layer 2: the LOUDS encoding of a tree (`Louds.encode`) laid out over the
level-order (BFS) list of its nodes, and the three position formulas of trie.go on it:
`firstLabelPos` (= offset of the node's labels), `childNodeID` (= BFS index of the child) and
`valuePos` (= index of the leaf's value).
-/
import LinVerif.Lemmas.C20Bits
import LinVerif.Lemmas.C20WF

set_option linter.unusedSimpArgs false
set_option linter.unusedVariables false

namespace LinVerif.Lemmas.C20
open LinVerif.TrieTree LinVerif.Louds

/-! ### labels of a node as a list of items -/

inductive Item where
  | leaf (l : Nat) (suf : List Nat) (v : Nat)
  | child (l : Nat) (n : Node)

def Item.isChild : Item → Bool
  | .leaf .. => false
  | .child .. => true

def Item.child? : Item → Option Node
  | .leaf .. => none
  | .child _ n => some n

def Item.val? : Item → Option Nat
  | .leaf _ _ v => some v
  | .child .. => none

def Item.label : Item → Nat
  | .leaf l _ _ => l
  | .child l _ => l

def items : Entries → List Item
  | .nil => []
  | .leaf l s v r => .leaf l s v :: items r
  | .child l n r => .child l n :: items r

theorem items_length : ∀ (es : Entries), (items es).length = es.length
  | .nil => rfl
  | .leaf _ _ _ r => by simp [items, Entries.length, items_length r]
  | .child _ _ r => by simp [items, Entries.length, items_length r]

theorem labels_items : ∀ (es : Entries), Entries.labels es = (items es).map Item.label
  | .nil => rfl
  | .leaf _ _ _ r => by simp [items, Entries.labels, labels_items r, Item.label]
  | .child _ _ r => by simp [items, Entries.labels, labels_items r, Item.label]

theorem hasChildBits_items : ∀ (es : Entries), Entries.hasChildBits es = (items es).map Item.isChild
  | .nil => rfl
  | .leaf _ _ _ r => by simp [items, Entries.hasChildBits, hasChildBits_items r, Item.isChild]
  | .child _ _ r => by simp [items, Entries.hasChildBits, hasChildBits_items r, Item.isChild]

theorem children_items : ∀ (es : Entries), Entries.children es = (items es).filterMap Item.child?
  | .nil => rfl
  | .leaf _ _ _ r => by
    rw [items, Entries.children, children_items r, List.filterMap_cons]; rfl
  | .child _ _ r => by simp [items, Entries.children, children_items r, Item.child?]

theorem values_items : ∀ (es : Entries), Entries.values es = (items es).filterMap Item.val?
  | .nil => rfl
  | .leaf _ _ _ r => by simp [items, Entries.values, values_items r, Item.val?]
  | .child _ _ r => by
    rw [items, Entries.values, values_items r, List.filterMap_cons]; rfl

/-! ### the nodes in level order -/

/-- all nodes of the tree in level order: node ids of the Go trie are indices into this list -/
def bfs (t : Node) : List Node := (nodeLevels t.height [t]).flatten

/-- all labels of the trie in vector order -/
def flatItems (t : Node) : List Item := (bfs t).flatMap (fun n => items n.entries)

theorem nodeLevels_nil (fuel : Nat) : nodeLevels fuel [] = [] := by
  cases fuel <;> rfl

theorem childrenOf_append (a b : List Node) : childrenOf (a ++ b) = childrenOf a ++ childrenOf b := by
  simp [childrenOf]

theorem height_pos (n : Node) : 1 ≤ n.height := by
  cases n; simp [Node.height]

theorem children_height : ∀ (es : Entries) (h : Nat), Entries.height es ≤ h → ∀ c ∈ Entries.children es, c.height ≤ h
  | .nil, _, _, c, hc => by simp [Entries.children] at hc
  | .leaf _ _ _ r, h, hh, c, hc => by
    simp only [Entries.children] at hc
    simp only [Entries.height] at hh
    exact children_height r h hh c hc
  | .child _ n r, h, hh, c, hc => by
    simp only [Entries.children, List.mem_cons] at hc
    simp only [Entries.height] at hh
    rcases hc with rfl | hc
    · omega
    · exact children_height r h (by omega) c hc

theorem childrenOf_height {ns : List Node} {h : Nat} (hh : ∀ n ∈ ns, n.height ≤ h + 1) :
    ∀ c ∈ childrenOf ns, c.height ≤ h := by
  intro c hc
  simp only [childrenOf, List.mem_flatMap] at hc
  obtain ⟨n, hn, hcn⟩ := hc
  have := hh n hn
  cases n with
  | mk p es =>
    simp only [Node.height] at this
    exact children_height es h (by omega) c hcn

/-- the children of all nodes, in vector order, are the nodes after the first level -/
theorem bfs_children : ∀ (fuel : Nat) (ns : List Node), (∀ n ∈ ns, n.height ≤ fuel) →
    childrenOf ((nodeLevels fuel ns).flatten) = (nodeLevels (fuel - 1) (childrenOf ns)).flatten
  | 0, ns, h => by
    have : ns = [] := by
      cases ns with
      | nil => rfl
      | cons n r => have := h n (List.mem_cons_self ..); have := height_pos n; omega
    subst this; simp [nodeLevels, childrenOf]
  | fuel + 1, [], _ => by simp [nodeLevels, childrenOf, nodeLevels_nil]
  | fuel + 1, n :: ns', h => by
    have hcs := childrenOf_height h
    simp only [nodeLevels, List.flatten_cons, childrenOf_append, Nat.add_sub_cancel]
    rw [bfs_children fuel (childrenOf (n :: ns')) hcs]
    cases fuel with
    | zero =>
      have : childrenOf (n :: ns') = [] := by
        cases hc : childrenOf (n :: ns') with
        | nil => rfl
        | cons c r => have := hcs c (by rw [hc]; exact List.mem_cons_self ..); have := height_pos c; omega
      simp [this, nodeLevels]
    | succ f =>
      cases hc : childrenOf (n :: ns') with
      | nil => simp [nodeLevels_nil, childrenOf]
      | cons c r => simp [nodeLevels]

/-- level order: the root, then the children of all nodes in vector order -/
theorem bfs_eq (t : Node) : bfs t = t :: childrenOf (bfs t) := by
  unfold bfs
  have hh : ∀ n ∈ [t], n.height ≤ t.height := by simp
  rw [bfs_children t.height [t] hh]
  obtain ⟨m, hm⟩ : ∃ m, t.height = m + 1 := ⟨t.height - 1, by have := height_pos t; omega⟩
  rw [hm]
  simp [nodeLevels]

theorem childrenOf_eq_filterMap (ns : List Node) :
    childrenOf ns = (ns.flatMap (fun n => items n.entries)).filterMap Item.child? := by
  induction ns with
  | nil => rfl
  | cons n r ih =>
    simp only [childrenOf, List.flatMap_cons, List.filterMap_append] at *
    rw [ih, children_items]

/-- the child nodes, in vector order of their labels, are exactly the nodes after the root -/
theorem bfs_tail (t : Node) : (bfs t).tail = (flatItems t).filterMap Item.child? := by
  conv => lhs; rw [bfs_eq t]
  simp only [List.tail_cons, flatItems]
  exact childrenOf_eq_filterMap _

/-! ### the flat vectors over the level order -/

theorem flatMap_levels {β} (ls : List (List Node)) (proj : Level → List β) (f : Node → List β)
    (h : ∀ ns, proj (levelOf ns) = ns.flatMap f) :
    (ls.map levelOf).flatMap proj = ls.flatten.flatMap f := by
  induction ls with
  | nil => rfl
  | cons ns r ih => simp [List.flatMap_cons, h, ih, List.flatMap_append]

theorem encode_labels (t : Node) : (encode t).labels = (flatItems t).map Item.label := by
  unfold encode flatten levelsOf flatItems bfs
  simp only []
  rw [flatMap_levels _ (·.labels) (fun n => Entries.labels n.entries) (fun ns => rfl)]
  simp only [List.map_flatMap, labels_items]

theorem encode_hasChild (t : Node) : (encode t).hasChild = (flatItems t).map Item.isChild := by
  unfold encode flatten levelsOf flatItems bfs
  simp only []
  rw [flatMap_levels _ (·.hasChild) (fun n => Entries.hasChildBits n.entries) (fun ns => rfl)]
  simp only [List.map_flatMap, hasChildBits_items]

theorem encode_hasChildLut (t : Node) : (encode t).hasChildLut = rankLut (encode t).hasChild := rfl
theorem encode_loudsLut (t : Node) : (encode t).loudsLut = selectLut (encode t).louds := rfl

theorem encode_values (t : Node) : (encode t).values = (flatItems t).filterMap Item.val? := by
  unfold encode flatten levelsOf flatItems bfs
  simp only []
  rw [flatMap_levels _ (·.values) (fun n => Entries.values n.entries) (fun ns => rfl)]
  generalize (nodeLevels t.height [t]).flatten = N
  induction N with
  | nil => rfl
  | cons n r ih => rw [List.flatMap_cons, List.flatMap_cons, List.filterMap_append, ih, values_items]

theorem loudsBits_eq (es : Entries) : Entries.loudsBits es = loudsOfSizes [es.length] := by
  unfold Entries.loudsBits loudsOfSizes
  cases es.length <;> simp

theorem loudsOfSizes_append (a b : List Nat) : loudsOfSizes (a ++ b) = loudsOfSizes a ++ loudsOfSizes b := by
  simp [loudsOfSizes]

theorem encode_louds (t : Node) :
    (encode t).louds = loudsOfSizes ((bfs t).map (fun n => n.entries.length)) := by
  unfold encode flatten levelsOf bfs
  simp only []
  rw [flatMap_levels _ (·.louds) (fun n => Entries.loudsBits n.entries) (fun ns => rfl)]
  generalize (nodeLevels t.height [t]).flatten = N
  induction N with
  | nil => rfl
  | cons n r ih =>
    rw [List.flatMap_cons, List.map_cons, ih, loudsBits_eq]
    exact (loudsOfSizes_append [n.entries.length] _).symm

/-! ### every node of a well-formed tree is well formed -/

theorem wfEntries_children : ∀ (es : Entries), WFEntries es → ∀ c ∈ Entries.children es, WFNode c
  | .nil, _, c, hc => by simp [Entries.children] at hc
  | .leaf _ _ _ r, h, c, hc => by
    unfold WFEntries at h
    simp only [Entries.children] at hc
    exact wfEntries_children r h.2.2 c hc
  | .child _ n r, h, c, hc => by
    unfold WFEntries at h
    simp only [Entries.children, List.mem_cons] at hc
    rcases hc with rfl | hc
    · exact h.2.2.1
    · exact wfEntries_children r h.2.2.2.2 c hc

theorem wfNode_children : ∀ (n : Node), WFNode n → ∀ c ∈ Entries.children n.entries, WFNode c
  | .mk _ .nil, h, _, _ => by simp [WFNode, WFRow] at h
  | .mk _ (.leaf l s v r), h, c, hc => by
    unfold WFNode WFRow at h
    simp only [Node.entries, Entries.children] at hc
    rcases h with ⟨_, _, _, hr⟩ | ⟨_, _, hr⟩ <;> exact wfEntries_children r hr c hc
  | .mk _ (.child l n r), h, c, hc => by
    unfold WFNode WFRow at h
    have : WFEntries (.child l n r) := by unfold WFEntries; exact h
    exact wfEntries_children _ this c hc

theorem nodeLevels_forall (P : Node → Prop) (hP : ∀ n, P n → ∀ c ∈ Entries.children n.entries, P c) :
    ∀ (fuel : Nat) (ns : List Node), (∀ n ∈ ns, P n) → ∀ n ∈ (nodeLevels fuel ns).flatten, P n
  | 0, _, _, n, hn => by simp [nodeLevels] at hn
  | fuel + 1, [], _, n, hn => by simp [nodeLevels] at hn
  | fuel + 1, m :: ms, h, n, hn => by
    simp only [nodeLevels, List.flatten_cons, List.mem_append] at hn
    rcases hn with hn | hn
    · exact h n hn
    · refine nodeLevels_forall P hP fuel _ ?_ n hn
      intro c hc
      simp only [childrenOf, List.mem_flatMap] at hc
      obtain ⟨x, hx, hcx⟩ := hc
      exact hP x (h x hx) c hcx

theorem bfs_wf {t : Node} (h : WFNode t) : ∀ n ∈ bfs t, WFNode n :=
  nodeLevels_forall WFNode wfNode_children _ _ (by simpa using h)

theorem wfNode_size_pos : ∀ (n : Node), WFNode n → 1 ≤ n.entries.length
  | .mk _ .nil, h => by simp [WFNode, WFRow] at h
  | .mk _ (.leaf ..), _ => by simp [Node.entries, Entries.length]
  | .mk _ (.child ..), _ => by simp [Node.entries, Entries.length]

/-! ### generic index lemma for `filterMap` -/

theorem filterMap_index {α β} (f : α → Option β) : ∀ (F : List α) (pos : Nat) (x : α) (c : β),
    F[pos]? = some x → f x = some c →
    (F.filterMap f)[((F.map (fun a => (f a).isSome)).take pos).count true]? = some c
  | [], pos, x, c, h, _ => by simp at h
  | a :: F, 0, x, c, h, hf => by
    simp at h; subst h
    simp [List.filterMap_cons, hf]
  | a :: F, pos + 1, x, c, h, hf => by
    simp only [List.getElem?_cons_succ] at h
    have ih := filterMap_index f F pos x c h hf
    simp only [List.map_cons, List.take_succ_cons, List.filterMap_cons]
    cases hfa : f a with
    | none => simpa [List.count_cons] using ih
    | some b => simpa [List.count_cons] using ih

theorem count_false_map_not (l : List Bool) : l.count false = (l.map (!·)).count true := by
  induction l with
  | nil => rfl
  | cons b t ih => cases b <;> simp [List.count_cons, ih]

/-! ### the position formulas on the encoding -/

/-- number of labels before node `n` of the level order -/
def offset (t : Node) (n : Nat) : Nat := (((bfs t).take n).map (fun m => m.entries.length)).sum

/-- **firstLabelPos**: `Select(louds, nodeID+1)` (as computed by select.go) is the offset of the
node's labels in the label vector -/
theorem firstLabelPos_eq_offset {t : Node} (hwf : WFNode t) (n : Nat) (hn : n < (bfs t).length) :
    firstLabelPos (encode t) n = offset t n := by
  unfold firstLabelPos offset
  rw [encode_loudsLut, encode_louds]
  have hpos : ∀ s ∈ (bfs t).map (fun m => m.entries.length), 1 ≤ s := by
    intro s hs
    obtain ⟨m, hm, rfl⟩ := List.mem_map.1 hs
    exact wfNode_size_pos m (bfs_wf hwf m hm)
  have h := louds_firstLabelPos_aux _ n hpos (by simpa using hn)
  rw [h, List.map_take]
where
  louds_firstLabelPos_aux (sizes : List Nat) (n : Nat) (hpos : ∀ s ∈ sizes, 1 ≤ s) (hn : n < sizes.length) :
      selectGo (selectLut (loudsOfSizes sizes)) (loudsOfSizes sizes) (n + 1) = (sizes.take n).sum := by
    have hne : sizes ≠ [] := by intro e; rw [e] at hn; simp at hn
    obtain ⟨s, rest, rfl⟩ := List.exists_cons_of_ne_nil hne
    rw [selectGo_eq_select _ _ (head_loudsOfSizes s rest (hpos s (List.mem_cons_self ..))) (by omega)
      (by rw [popcount_loudsOfSizes _ hpos]; omega)]
    exact select_loudsOfSizes _ n hpos hn

/-- **childNodeID**: at a label with child, `Rank(hasChild, pos)` (as computed by rank.go) is the
level-order index of that child node -/
theorem childNodeID_eq_bfs_index {t : Node} (pos : Nat) (l : Nat) (c : Node)
    (h : (flatItems t)[pos]? = some (.child l c)) :
    (bfs t)[childNodeID (encode t) pos]? = some c := by
  have hlt : pos < (flatItems t).length := (List.getElem?_eq_some_iff.1 h).1
  unfold childNodeID
  rw [encode_hasChildLut, encode_hasChild, rankGo_eq_rank _ _ (by simpa using hlt)]
  have hbit : ((flatItems t).map Item.isChild)[pos]? = some true := by
    rw [List.getElem?_map, h]; rfl
  rw [rank_of_set _ _ hbit]
  have hidx := filterMap_index Item.child? (flatItems t) pos _ c h rfl
  have hsame : (flatItems t).map (fun a => (Item.child? a).isSome) = (flatItems t).map Item.isChild := by
    apply List.map_congr_left
    intro a _; cases a <;> rfl
  rw [hsame, ← bfs_tail] at hidx
  rw [bfs_eq t] at hidx ⊢
  simpa [popcount] using hidx

/-- **valuePos**: at a label without child, `pos - Rank(hasChild, pos)` is the index of its value
in the value vector -/
theorem valuePos_eq_value_index {t : Node} (pos : Nat) (l : Nat) (suf : List Nat) (v : Nat)
    (h : (flatItems t)[pos]? = some (.leaf l suf v)) :
    (encode t).values[valuePos (encode t) pos]? = some v := by
  have hlt : pos < (flatItems t).length := (List.getElem?_eq_some_iff.1 h).1
  unfold valuePos
  rw [encode_hasChildLut, encode_hasChild, rankGo_eq_rank _ _ (by simpa using hlt), encode_values]
  have hbit : ((flatItems t).map Item.isChild)[pos]? = some false := by
    rw [List.getElem?_map, h]; rfl
  rw [valuePos_eq _ _ hbit, count_false_map_not, ← List.map_take, List.map_map]
  have hidx := filterMap_index Item.val? (flatItems t) pos _ v h rfl
  have hsame : (flatItems t).map (fun a => (Item.val? a).isSome) = (flatItems t).map ((!·) ∘ Item.isChild) := by
    apply List.map_congr_left
    intro a _; cases a <;> rfl
  rw [hsame, ← List.map_take] at hidx
  exact hidx

end LinVerif.Lemmas.C20
