/-
C07, several shards x several family hours x several leaders on one node: every lane (log partition) of
every reachable grid state IS the single-partition model run on that lane's projection of the grid
history (`laneTrace`), so every single-partition theorem holds for every partition of the product.
-/
import LinVerif.Lemmas.C07Lanes
import LinVerif.Model.C07Grid

namespace LinVerif.NodeRecovery
set_option linter.unusedSimpArgs false
set_option linter.unusedVariables false

theorem stepGrid_keys (cfg : Cfg) (g : Grid) (ge : GEv) :
    (stepGrid cfg g ge).map (·.1) = g.map (·.1) := by
  simp [stepGrid, List.map_map, Function.comp_def]

theorem runGrid_keys (cfg : Cfg) (gevs : List GEv) : ∀ g : Grid,
    (runGrid cfg g gevs).map (·.1) = g.map (·.1) := by
  induction gevs with
  | nil => intro g; rfl
  | cons ge rest ih =>
    intro g
    show (runGrid cfg (stepGrid cfg g ge) rest).map (·.1) = g.map (·.1)
    rw [ih, stepGrid_keys]

/-- generalised form: lanes that are single-partition runs of `tr` stay single-partition runs of `tr`
extended by their projection of the grid history -/
theorem grid_trace_gen (cfg : Cfg) (gevs : List GEv) : ∀ (g : Grid) (tr : PKey → List Ev),
    (∀ p ∈ g, p.2 = run cfg St.init (tr p.1)) →
    ∀ p ∈ runGrid cfg g gevs, p.2 = run cfg St.init (tr p.1 ++ laneTrace cfg g gevs p.1) := by
  induction gevs with
  | nil => intro g tr h p hp; simpa [laneTrace] using h p hp
  | cons ge rest ih =>
    intro g tr h p hp
    have hp' : p ∈ runGrid cfg (stepGrid cfg g ge) rest := hp
    have h' : ∀ q ∈ stepGrid cfg g ge, q.2 = run cfg St.init ((fun k => tr k ++ laneEvs g ge k) q.1) := by
      intro q hq
      simp only [stepGrid, List.mem_map] at hq
      obtain ⟨r, hr, rfl⟩ := hq
      simp only [run_append]
      rw [← h r hr]
    have := ih (stepGrid cfg g ge) (fun k => tr k ++ laneEvs g ge k) h' p hp'
    simpa [laneTrace, List.append_assoc] using this

theorem grid_trace (cfg : Cfg) (keys : List PKey) (gevs : List GEv) (p : PKey × St)
    (hp : p ∈ runGrid cfg (Grid.init keys) gevs) :
    p.2 = run cfg St.init (laneTrace cfg (Grid.init keys) gevs p.1) := by
  have := grid_trace_gen cfg gevs (Grid.init keys) (fun _ => [])
    (by intro q hq; simp [Grid.init] at hq; obtain ⟨k, _, rfl⟩ := hq; rfl) p hp
  simpa using this

end LinVerif.NodeRecovery
