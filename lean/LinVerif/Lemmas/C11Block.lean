/-
Lemmas for the metric block layout model (`Model/BlockLayout.lean`): what `flushField` leaves
(sizes, field offsets as prefix sums relative to Level4.startAt, the recorded spans), and the
entry-level round trip.
-/
import LinVerif.Model.BlockLayout

namespace LinVerif.Lemmas.C11Block
open LinVerif.BlockLayout

def sumL : List Nat → Nat
  | [] => 0
  | x :: xs => x + sumL xs

/-- offsets of consecutive blocks of the given lengths, the first one at `acc`. -/
def prefixSums : Nat → List Nat → List Nat
  | _, [] => []
  | acc, x :: xs => acc :: prefixSums (acc + x) xs

theorem prefixSums_get : ∀ (xs : List Nat) (acc i : Nat), i < xs.length →
    (prefixSums acc xs)[i]? = some (acc + sumL (xs.take i))
  | [], _, _, h => by simp at h
  | x :: xs, acc, 0, _ => by simp [prefixSums, sumL]
  | x :: xs, acc, i + 1, h => by
    have := prefixSums_get xs (acc + x) i (by simpa using h)
    simp [prefixSums, sumL, this]; omega

theorem prefixSums_get_none : ∀ (xs : List Nat) (acc i : Nat), xs.length ≤ i →
    (prefixSums acc xs)[i]? = none
  | [], _, _, _ => by simp [prefixSums]
  | x :: xs, acc, 0, h => by simp at h
  | x :: xs, acc, i + 1, h => by
    have := prefixSums_get_none xs (acc + x) i (by simpa using h)
    simp [prefixSums, this]

theorem sumL_take_le : ∀ (xs : List Nat) (i : Nat), sumL (xs.take i) ≤ sumL xs
  | [], _ => by simp [sumL]
  | x :: xs, 0 => by simp [sumL]
  | x :: xs, i + 1 => by have := sumL_take_le xs i; simp [sumL]; omega

theorem sumL_take_succ : ∀ (xs : List Nat) (i : Nat) (h : i < xs.length),
    sumL (xs.take (i + 1)) = sumL (xs.take i) + xs[i]
  | [], _, h => by simp at h
  | x :: xs, 0, _ => by simp [sumL]
  | x :: xs, i + 1, h => by
    have := sumL_take_succ xs i (by simpa using h)
    simp [sumL, this]; omega

theorem sumL_take_all : ∀ (xs : List Nat) (i : Nat), xs.length ≤ i → sumL (xs.take i) = sumL xs
  | [], _, _ => by simp
  | x :: xs, 0, h => by simp at h
  | x :: xs, i + 1, h => by simp [sumL, sumL_take_all xs i (by simpa using h)]

/-- what the loop of `flushField` leaves. -/
theorem writeFields_spec (sid : Nat) (multi : Bool) : ∀ (flds : List Nat) (w : W) (k : Nat),
    w.l4 ≤ w.size →
    (writeFields sid multi w k flds).size = w.size + sumL flds ∧
    (writeFields sid multi w k flds).l4 = w.l4 ∧
    (writeFields sid multi w k flds).fldAt = w.fldAt ∧
    (writeFields sid multi w k flds).lenAt = w.lenAt ∧
    (writeFields sid multi w k flds).fOffs =
      (if multi then w.fOffs ++ prefixSums (w.size - w.l4) flds else w.fOffs) ∧
    (∀ j, j < k → (writeFields sid multi w k flds).truth sid j = w.truth sid j) ∧
    (∀ i (h : i < flds.length), (writeFields sid multi w k flds).truth sid (k + i) =
      some (w.size + sumL (flds.take i), flds[i]))
  | [], w, k, _ => by simp [writeFields, sumL, prefixSums]
  | len :: rest, w, k, hle => by
    have ih := writeFields_spec sid multi rest
      { w with size := w.size + len, truth := upd2 w.truth sid k (w.size, len),
               fOffs := if multi then w.fOffs ++ [w.size - w.l4] else w.fOffs } (k + 1)
      (by simp; omega)
    obtain ⟨h1, h2, h3, h4, h5, h6, h7⟩ := ih
    simp only [writeFields]
    refine ⟨by rw [h1]; simp [sumL]; omega, by rw [h2], by rw [h3], by rw [h4], ?_, ?_, ?_⟩
    · rw [h5]
      cases multi
      · simp
      · simp [prefixSums]
        have : w.size + len - w.l4 = w.size - w.l4 + len := by omega
        rw [this]
    · intro j hj
      rw [h6 j (by omega)]
      simp [upd2]; omega
    · intro i hi
      cases i with
      | zero =>
        simp only [Nat.add_zero]
        rw [h6 k (by omega)]
        simp [upd2, sumL]
      | succ i =>
        have := h7 i (by simpa using hi)
        have e : k + (i + 1) = k + 1 + i := by omega
        rw [e, this]
        simp [sumL]; omega

/-- `GetBlock` on prefix-sum offsets: block `k` of consecutive blocks. -/
theorem getBlock_prefixSums (flds : List Nat) (k : Nat) (hk : k < flds.length) :
    getBlock (prefixSums 0 flds) k (sumL flds) = some (sumL (flds.take k), sumL (flds.take k) + flds[k]) := by
  unfold getBlock
  rw [prefixSums_get flds 0 k hk]
  by_cases h1 : k + 1 < flds.length
  · rw [prefixSums_get flds 0 (k + 1) h1]
    have h2 := sumL_take_succ flds k hk
    have h3 := sumL_take_le flds (k + 1)
    simp; rw [h2] at *; omega
  · rw [prefixSums_get_none flds 0 (k + 1) (by omega)]
    have h2 := sumL_take_succ flds k hk
    have h3 := sumL_take_all flds (k + 1) (by omega)
    simp; omega

/-- after the high-key branch the field-offset base is the writer's position again — with the
re-base after the previous bucket's footer. -/
theorem enterBucket_rebased (e : Enc) (w : W) (sid : Nat) (h4 : w.l4 = w.size) (hf : w.fOffs = []) :
    (enterBucket ⟨true⟩ e w sid).l4 = (enterBucket ⟨true⟩ e w sid).size ∧
    (enterBucket ⟨true⟩ e w sid).fOffs = [] := by
  unfold enterBucket newBucket flushBucket
  by_cases hs : w.highSet <;> simp [hs] <;> (try split) <;> (try split) <;> simp_all

/-- ENTRY LEVEL ROUND TRIP. From any writer state whose field-offset base is the writer's position
(`l4 = size`: the deferred reset of the previous `FlushSeries`, re-done after a bucket footer), the
series entry written by `FlushSeries` is decoded by `readSeriesData` into exactly the spans the field
blocks were written to — any number of fields, any data lengths, any codec lengths. (`none` only for a
multi-field entry whose field data are all empty.) -/
theorem entry_roundtrip (e : Enc) (hu : ∀ n, 0 < e.uvarLen n) (nf : Nat) (w : W) (sid : Nat)
    (flds : List Nat) (hlen : flds.length = nf) (hnf : 1 ≤ nf)
    (h4 : w.l4 = w.size) (hf : w.fOffs = []) (k : Nat) (hk : k < nf) :
    (writeEntry e nf w sid flds).truth sid k = some (w.size + sumL (flds.take k), flds[k]'(by omega)) ∧
    readEntry (writeEntry e nf w sid flds).fldAt (writeEntry e nf w sid flds).lenAt nf
        w.size (writeEntry e nf w sid flds).size k
      = if nf ≠ 1 ∧ sumL flds = 0 then none
        else some (w.size + sumL (flds.take k), flds[k]'(by omega)) := by
  have spec := writeFields_spec sid (decide (1 < nf)) flds
    { w with lowOffs := w.lowOffs ++ [w.size - w.l3] } 0 (by simp [h4])
  obtain ⟨s1, s2, s3, s4, s5, _, s7⟩ := spec
  have t := s7 k (by omega)
  simp only [Nat.zero_add] at t
  by_cases h1 : nf = 1
  · -- one field: the entry is the field block
    subst h1
    have hk0 : k = 0 := by omega
    subst hk0
    unfold writeEntry
    simp only [Nat.lt_irrefl, if_false, decide_false] at *
    refine ⟨t, ?_⟩
    simp [readEntry, s1]
    match flds, hlen with
    | [x], _ => simp [sumL]
  · have hm : 1 < nf := by omega
    unfold writeEntry
    simp only [hm, if_true, decide_true] at *
    unfold writeL4Footer
    refine ⟨t, ?_⟩
    simp only [readEntry, h1, if_false, upd, if_true]
    rw [s1, s3, s5]
    simp only [hf, List.nil_append, h4, Nat.sub_self]
    have hul := hu (e.offLen (prefixSums 0 flds))
    by_cases hz : sumL flds = 0
    · have hc : w.size + sumL flds + e.offLen (prefixSums 0 flds) + e.uvarLen (e.offLen (prefixSums 0 flds)) - w.size ≤
            e.offLen (prefixSums 0 flds) + e.uvarLen (e.offLen (prefixSums 0 flds)) := by omega
      rw [if_pos (Or.inr hc)]
      simp [hz, h1]
    · have hne : ¬ (e.uvarLen (e.offLen (prefixSums 0 flds)) = 0 ∨
          w.size + sumL flds + e.offLen (prefixSums 0 flds) + e.uvarLen (e.offLen (prefixSums 0 flds)) - w.size ≤
            e.offLen (prefixSums 0 flds) + e.uvarLen (e.offLen (prefixSums 0 flds))) := by omega
      have hfat : w.size + sumL flds + e.offLen (prefixSums 0 flds) + e.uvarLen (e.offLen (prefixSums 0 flds)) - w.size
          - e.offLen (prefixSums 0 flds) - e.uvarLen (e.offLen (prefixSums 0 flds)) = sumL flds := by omega
      simp only [hne, if_false, hfat, if_true, hz, and_false]
      rw [getBlock_prefixSums flds k (by omega)]
      simp

end LinVerif.Lemmas.C11Block
