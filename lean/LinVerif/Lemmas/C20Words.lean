/-
C20 helper lemmas, layer 2b: the word arithmetic of bits_vector.go / bits.go (`Model/C20Words.lean`)
against the bit-list functions of `Model/Louds.lean`.
-/
import LinVerif.Model.C20Words
import LinVerif.Lemmas.C20Bits

set_option linter.unusedSimpArgs false
set_option linter.unusedVariables false

namespace LinVerif.Lemmas.C20
open LinVerif.Louds LinVerif.C20Words

/-! ### leading zeros and appends -/

theorem lz_append_of_any (a b : List Bool) (h : a.any id = true) :
    leadingZeros (a ++ b) = leadingZeros a := by
  induction a with
  | nil => simp at h
  | cons x xs ih =>
    cases x
    · simp at h
      have := ih (by simpa using h)
      simp [leadingZeros, this]
    · simp [leadingZeros]

theorem lz_append_of_not_any (a b : List Bool) (h : a.any id = false) :
    leadingZeros (a ++ b) = a.length + leadingZeros b := by
  induction a with
  | nil => simp
  | cons x xs ih =>
    cases x
    · have := ih (by simpa using h)
      simp [leadingZeros, this]; omega
    · simp at h

theorem lz_of_not_any (a : List Bool) (h : a.any id = false) : leadingZeros a = a.length := by
  have := lz_append_of_not_any a [] h
  simpa [leadingZeros] using this

theorem any_replicate_false (m : Nat) : (List.replicate m false).any id = false := by
  induction m with
  | zero => rfl
  | succ m ih => simp [List.replicate_succ, ih]

/-- padding with clear bits does not change the distance to the next set bit, if there is one -/
theorem lz_pad (t : List Bool) (m : Nat) :
    (t.any id = true → leadingZeros (t ++ List.replicate m false) = leadingZeros t) ∧
    ((t ++ List.replicate m false).any id = t.any id) := by
  refine ⟨fun h => lz_append_of_any _ _ h, ?_⟩
  rw [List.any_append, any_replicate_false]; simp

/-! ### chunks -/

theorem wchunks_length (k : Nat) (bs : List Bool) : (chunks k bs).length = k := by
  induction k generalizing bs with
  | zero => rfl
  | succ k ih => simp [chunks, ih]

theorem wchunks_drop (k j : Nat) (bs : List Bool) :
    (chunks k bs).drop j = chunks (k - j) (bs.drop (64 * j)) := by
  induction j generalizing k bs with
  | zero => simp
  | succ j ih =>
    cases k with
    | zero => simp [chunks]
    | succ k =>
      simp only [chunks, List.drop_succ_cons]
      rw [ih, List.drop_drop]
      congr 1
      · omega
      · congr 1; omega

theorem wchunks_flatten (k : Nat) (bs : List Bool) : (chunks k bs).flatten = bs.take (64 * k) := by
  induction k generalizing bs with
  | zero => simp [chunks]
  | succ k ih =>
    simp only [chunks, List.flatten_cons, ih]
    have : 64 * (k + 1) = 64 + 64 * k := by omega
    rw [this, List.take_add]

theorem wchunks_getD (k j : Nat) (bs : List Bool) (hj : j < k) :
    (chunks k bs).getD j zeroWord = (bs.drop (64 * j)).take 64 := by
  have h1 : (chunks k bs).getD j zeroWord = ((chunks k bs).drop j).headD zeroWord := by
    simp [List.getD_eq_getElem?_getD, List.headD_eq_head?_getD, List.head?_drop]
  rw [h1, wchunks_drop]
  obtain ⟨m, hm⟩ : ∃ m, k - j = m + 1 := ⟨k - j - 1, by omega⟩
  rw [hm]; simp [chunks]

theorem scanWords_wchunks (k : Nat) (ys : List Bool) (d : Nat) (hlen : ys.length = 64 * k) :
    scanWords (chunks k ys) d =
      if ys.any id then Scan.found (d + leadingZeros ys) else Scan.ended (d + 64 * k) := by
  induction k generalizing ys d with
  | zero =>
    have : ys = [] := List.eq_nil_of_length_eq_zero (by omega)
    subst this; simp [chunks, scanWords]
  | succ k ih =>
    have hsplit : ys = ys.take 64 ++ ys.drop 64 := (List.take_append_drop 64 ys).symm
    have hl1 : (ys.take 64).length = 64 := by simp [List.length_take]; omega
    have hl2 : (ys.drop 64).length = 64 * k := by simp [List.length_drop]; omega
    have htz : tz (ys.take 64) = leadingZeros (ys.take 64) := rfl
    simp only [chunks, scanWords]
    by_cases hw : nz (ys.take 64) = true
    · have hw2 : (ys.take 64).any id = true := hw
      have hany : ys.any id = true := by rw [hsplit, List.any_append, hw2]; simp
      rw [if_pos hw, if_pos hany, htz]
      congr 2
      conv => rhs; rw [hsplit]
      exact (lz_append_of_any _ _ hw2).symm
    · have hw' : (ys.take 64).any id = false := by
        have : nz (ys.take 64) = false := by simpa using hw
        exact this
      rw [if_neg hw, ih _ _ hl2]
      have hany : ys.any id = (ys.drop 64).any id := by
        conv => lhs; rw [hsplit, List.any_append, hw']
        simp
      rw [hany]
      by_cases hr : (ys.drop 64).any id = true
      · rw [if_pos hr, if_pos hr]
        congr 1
        conv => rhs; rw [hsplit, lz_append_of_not_any _ _ hw', hl1]
        omega
      · rw [if_neg hr, if_neg hr]; congr 1; omega

/-! ### `DistanceToNextSetBit` over the words = distance on the bit list -/

theorem numWords_bounds (n : Nat) : n ≤ 64 * numWords n ∧ 64 * numWords n < n + 64 ∧
    (n % 64 = 0 → 64 * numWords n = n) ∧ (n % 64 ≠ 0 → 64 * numWords n = n + 64 - n % 64) := by
  unfold numWords
  by_cases h : n % 64 = 0
  · simp [h]; omega
  · simp [h]; omega

theorem distNextGo_eq' (bs : List Bool) (extra p : Nat) (hp0 : 1 ≤ p) (h : p < bs.length) :
    distNextGo bs.length (toWords bs extra) (p - 1) = 1 + leadingZeros (bs.drop p) := by
  obtain ⟨hk1, hk2, hk3, hk4⟩ := numWords_bounds bs.length
  generalize hkdef : numWords bs.length = k at *
  generalize hn : bs.length = n at *
  -- the padded vector
  let B := bs ++ List.replicate (64 * k - n) false
  have hBlen : B.length = 64 * k := by simp [B, hn]; omega
  have hwords : toWords bs extra = chunks k B ++ List.replicate extra zeroWord := by
    simp [toWords, hkdef, hn, B]
  have hp : p < n := h
  have hpe : p - 1 + 1 = p := by omega
  have hwo : p / 64 < k := by omega
  -- the tail after pos, in the padded vector and in the original one
  have hBdrop : B.drop p = bs.drop p ++ List.replicate (64 * k - n) false := by
    simp only [B]; rw [List.drop_append_of_le_length (by omega)]
  let X := (B.drop p).take (64 - p % 64)
  let Y := B.drop (64 * (p / 64 + 1))
  have hXY : B.drop p = X ++ Y := by
    have := (List.take_append_drop (64 - p % 64) (B.drop p)).symm
    rw [List.drop_drop] at this
    have e : p + (64 - p % 64) = 64 * (p / 64 + 1) := by omega
    simp only [X, Y]; rw [← e]; exact this
  have hXlen : X.length = 64 - p % 64 := by
    simp only [X, List.length_take, List.length_drop, hBlen]; omega
  have hYlen : Y.length = 64 * (k - (p / 64 + 1)) := by
    simp only [Y, List.length_drop, hBlen]; omega
  have hTany : (B.drop p).any id = (bs.drop p).any id := by rw [hBdrop]; exact (lz_pad _ _).2
  have hTlz : (bs.drop p).any id = true → leadingZeros (B.drop p) = leadingZeros (bs.drop p) := by
    intro ha; rw [hBdrop]; exact (lz_pad _ _).1 ha
  have hTlen : (bs.drop p).length = n - p := by simp [List.length_drop, hn]
  -- the word that holds pos+1, shifted
  have hget : (toWords bs extra).getD (p / 64) zeroWord = (B.drop (64 * (p / 64))).take 64 := by
    rw [hwords, List.getD_eq_getElem?_getD, List.getElem?_append_left (by rw [wchunks_length]; exact hwo),
      ← List.getD_eq_getElem?_getD]
    exact wchunks_getD k _ B hwo
  have hshr : shr ((B.drop (64 * (p / 64))).take 64) (p % 64) = X ++ List.replicate (p % 64) false := by
    have hl : ((B.drop (64 * (p / 64))).take 64).length = 64 := by
      simp only [List.length_take, List.length_drop, hBlen]; omega
    unfold shr
    rw [hl, List.drop_take, List.drop_drop]
    have e : 64 * (p / 64) + p % 64 = p := by omega
    have e2 : min (p % 64) 64 = p % 64 := by omega
    rw [e, e2]
  have hlen : (toWords bs extra).length = k + extra := by
    rw [hwords]; simp [wchunks_length]
  have htake : (toWords bs extra).take k = chunks k B := by
    rw [hwords, List.take_append_of_le_length (by rw [wchunks_length]; omega)]
    rw [List.take_of_length_le (by rw [wchunks_length]; omega)]
  unfold distNextGo
  simp only [hpe]
  rw [if_neg (by rw [hlen]; omega), hget, hshr, hkdef]
  have hnz : nz (X ++ List.replicate (p % 64) false) = X.any id := by
    unfold nz; exact (lz_pad _ _).2
  rw [hnz]
  by_cases hX : X.any id = true
  · -- a set bit in the same word
    rw [if_pos hX]
    have h1 : tz (X ++ List.replicate (p % 64) false) = leadingZeros X := (lz_pad _ _).1 hX
    have h2 : leadingZeros (B.drop p) = leadingZeros X := by rw [hXY]; exact lz_append_of_any _ _ hX
    have h3 : (bs.drop p).any id = true := by rw [← hTany, hXY, List.any_append, hX]; simp
    rw [h1, ← hTlz h3, h2]
  · have hX' : X.any id = false := by simpa using hX
    rw [if_neg hX]
    by_cases hlast : (p / 64 == k - 1) = true
    · -- the last word: nothing set up to the end of the vector
      rw [if_pos hlast]
      have hwk : p / 64 = k - 1 := by simpa using hlast
      have hY : Y = [] := List.eq_nil_of_length_eq_zero (by rw [hYlen]; omega)
      have h3 : (bs.drop p).any id = false := by rw [← hTany, hXY, hY]; simpa using hX'
      rw [lz_of_not_any _ h3, hTlen]; omega
    · rw [if_neg hlast]
      have hwk : p / 64 ≠ k - 1 := by simpa using hlast
      rw [htake, wchunks_drop]
      have hsc := scanWords_wchunks (k - (p / 64 + 1)) Y (1 + (64 - p % 64)) hYlen
      rw [show B.drop (64 * (p / 64 + 1)) = Y from rfl, hsc]
      by_cases hY : Y.any id = true
      · rw [if_pos hY]
        have h2 : leadingZeros (B.drop p) = X.length + leadingZeros Y := by
          rw [hXY]; exact lz_append_of_not_any _ _ hX'
        have h3 : (bs.drop p).any id = true := by rw [← hTany, hXY, List.any_append, hY]; simp
        show 1 + (64 - p % 64) + leadingZeros Y = _
        rw [← hTlz h3, h2, hXlen]; omega
      · have hY' : Y.any id = false := by simpa using hY
        rw [if_neg hY]
        have h3 : (bs.drop p).any id = false := by
          rw [← hTany, hXY, List.any_append, hX', hY']; rfl
        rw [lz_of_not_any _ h3, hTlen]
        have hmax : (max (p / 64) (k - 1) == k - 1) = true := by
          have : max (p / 64) (k - 1) = k - 1 := by omega
          simp [this]
        by_cases hm : n % 64 = 0
        · have : (n % 64 != 0) = false := by simp [hm]
          simp only [hmax, this, Bool.and_false]
          have := hk3 hm
          show 1 + (64 - p % 64) + 64 * (k - (p / 64 + 1)) = _
          omega
        · have : (n % 64 != 0) = true := by simp [hm]
          simp only [hmax, this, Bool.and_true, if_true]
          have := hk4 hm
          show 1 + (64 - p % 64) + 64 * (k - (p / 64 + 1)) - (64 - n % 64) = _
          omega

/-! ### `popcountBlock` over the words -/

theorem popcount_shl (x : Word) (s : Nat) (hx : x.length = 64) (hs : s < 64) :
    popcount (shl x s) = popcount (x.take (64 - s)) := by
  unfold shl
  rw [popcount_append, popcount_replicate_false, hx]; simp

theorem sum_popcount_wchunks (j : Nat) (ys : List Bool) :
    ((chunks j ys).map popcount).sum = popcount (ys.take (64 * j)) := by
  induction j generalizing ys with
  | zero => simp [chunks, popcount]
  | succ j ih =>
    simp only [chunks, List.map_cons, List.sum_cons, ih]
    have e : 64 * (j + 1) = 64 + 64 * j := by omega
    rw [e, List.take_add, popcount_append]

theorem wchunks_take (m j : Nat) (ys : List Bool) (h : j ≤ m) : (chunks m ys).take j = chunks j ys := by
  induction j generalizing m ys with
  | zero => simp [chunks]
  | succ j ih =>
    cases m with
    | zero => omega
    | succ m => simp only [chunks, List.take_succ_cons]; rw [ih _ _ (by omega)]

/-- `popcountBlock(bits, off, nbits)` counts the set bits of the `nbits` bits that start at word `off` -/
theorem popcountBlockGo_eq (bs : List Bool) (extra off nbits : Nat) (h1 : 1 ≤ nbits)
    (h : 64 * off + nbits ≤ bs.length) :
    popcountBlockGo (toWords bs extra) off nbits = popcount ((bs.drop (64 * off)).take nbits) := by
  obtain ⟨hk1, hk2, hk3, hk4⟩ := numWords_bounds bs.length
  generalize hkdef : numWords bs.length = k at *
  generalize hn : bs.length = n at *
  let B := bs ++ List.replicate (64 * k - n) false
  have hBlen : B.length = 64 * k := by simp [B, hn]; omega
  have hwords : toWords bs extra = chunks k B ++ List.replicate extra zeroWord := by
    simp [toWords, hkdef, hn, B]
  have hj : off + (nbits - 1) / 64 < k := by omega
  unfold popcountBlockGo
  have hnb : (nbits == 0) = false := by simp; omega
  simp only [hnb]
  -- the full words
  have hfull : ((toWords bs extra).drop off).take ((nbits - 1) / 64) = chunks ((nbits - 1) / 64) (B.drop (64 * off)) := by
    rw [hwords, List.drop_append_of_le_length (by rw [wchunks_length]; omega), wchunks_drop,
      List.take_append_of_le_length (by rw [wchunks_length]; omega), wchunks_take _ _ _ (by omega)]
  -- the last word
  have hget : (toWords bs extra).getD (off + (nbits - 1) / 64) zeroWord
      = (B.drop (64 * (off + (nbits - 1) / 64))).take 64 := by
    rw [hwords, List.getD_eq_getElem?_getD, List.getElem?_append_left (by rw [wchunks_length]; exact hj),
      ← List.getD_eq_getElem?_getD]
    exact wchunks_getD k _ B hj
  have hl : ((B.drop (64 * (off + (nbits - 1) / 64))).take 64).length = 64 := by
    simp only [List.length_take, List.length_drop, hBlen]; omega
  rw [hfull, hget, sum_popcount_wchunks, popcount_shl _ _ hl (by omega), List.take_take]
  have e1 : min (64 - (64 - 1 - (nbits - 1) % 64)) 64 = (nbits - 1) % 64 + 1 := by omega
  have e2 : nbits = 64 * ((nbits - 1) / 64) + ((nbits - 1) % 64 + 1) := by omega
  have hB : (bs.drop (64 * off)).take nbits = (B.drop (64 * off)).take nbits := by
    simp only [B]
    rw [List.drop_append_of_le_length (by omega), List.take_append_of_le_length (by simp [hn]; omega)]
  rw [e1, hB]
  conv => rhs; rw [e2, List.take_add, popcount_append, List.drop_drop]
  have e3 : 64 * off + 64 * ((nbits - 1) / 64) = 64 * (off + (nbits - 1) / 64) := by omega
  rw [e3]
  simp

/-- `rankVectorSparse.Rank` over the words = the table-driven rank on the bit list (= `rank`, by
`rankGo_eq_rank`) -/
theorem rankWords_eq_rankGo (lut : List Nat) (bs : List Bool) (extra pos : Nat) (h : pos < bs.length) :
    rankWords lut (toWords bs extra) pos = rankGo lut bs pos := by
  unfold rankWords rankGo
  simp only [rankSparseBlockSize, wordSize]
  have e : 64 * (pos / 512 * (512 / 64)) = pos / 512 * 512 := by omega
  rw [popcountBlockGo_eq bs extra _ _ (by omega) (by omega), e]

/-! ### select inside a word: byte table and byte-level skeleton of `select64Broadword` -/

set_option maxRecDepth 1000000 in
/-- every entry of `selectInByteLut` (as computed by `selectInByte`, the loop of bits.go `init`) is the
position of the (j+1)-th set bit of the byte, or 8 — all 256 × 8 entries -/
theorem selectInByte_table :
    (List.range 256).all (fun b => (List.range 8).all (fun j => selectInByte b j == selectByteSpec b j)) = true := by
  decide

theorem selectInByte_eq_spec (b j : Nat) (hb : b < 256) (hj : j < 8) : selectInByte b j = selectByteSpec b j := by
  have h := selectInByte_table
  rw [List.all_eq_true] at h
  have h2 := h b (List.mem_range.mpr hb)
  rw [List.all_eq_true] at h2
  simpa using h2 j (List.mem_range.mpr hj)

theorem byteBits_length (b : Nat) : (byteBits b).length = 8 := by simp [byteBits]

theorem select_append_left (a r : List Bool) (k : Nat) (h1 : 1 ≤ k) (h : k ≤ popcount a) :
    select (a ++ r) k = select a k := by
  induction a generalizing k with
  | nil => simp [popcount] at h; omega
  | cons x xs ih =>
    cases x
    · simp only [List.cons_append, select]
      rw [ih k h1 (by simpa [popcount_cons] using h)]
    · simp only [List.cons_append, select]
      by_cases hk : k ≤ 1
      · simp [hk]
      · simp only [hk, if_false]
        rw [ih (k - 1) (by omega) (by simp [popcount_cons] at h; omega)]

theorem select_append_skip (a r : List Bool) (k : Nat) (h : popcount a < k) :
    select (a ++ r) k = a.length + select r (k - popcount a) := by
  induction a generalizing k with
  | nil => simp [popcount]
  | cons x xs ih =>
    cases x
    · simp only [List.cons_append, select, List.length_cons]
      have h' : popcount xs < k := by simpa [popcount_cons] using h
      rw [ih k h']; simp [popcount_cons]; omega
    · simp only [List.cons_append, select, List.length_cons]
      have h' : popcount xs < k - 1 := by simp [popcount_cons] at h; omega
      have hk : ¬ k ≤ 1 := by omega
      simp only [hk, if_false]
      rw [ih (k - 1) h']; simp [popcount_cons, Nat.sub_sub]; omega

/-- the byte-level skeleton of `select64Broadword` (byte sums → place → byte rank → table lookup) finds the
(k+1)-th set bit of the word made of the bytes, for every list of bytes and every k below the popcount -/
theorem select64Bytes_eq_select (bytes : List Nat) (k : Nat) (hb : ∀ b ∈ bytes, b < 256)
    (hk : k < popcount (bytes.flatMap byteBits)) :
    select64Bytes bytes k = select (bytes.flatMap byteBits) (k + 1) := by
  induction bytes generalizing k with
  | nil => simp [popcount] at hk
  | cons b rest ih =>
    have hb0 : b < 256 := hb b (by simp)
    simp only [select64Bytes, List.flatMap_cons]
    rw [List.flatMap_cons, popcount_append] at hk
    by_cases hc : popcount (byteBits b) ≤ k
    · rw [if_pos hc, select_append_skip _ _ _ (by omega), byteBits_length,
        ih (k - popcount (byteBits b)) (fun x hx => hb x (by simp [hx])) (by omega)]
      congr 2; omega
    · rw [if_neg hc, select_append_left _ _ _ (by omega) (by omega)]
      have hk8 : k < 8 := by
        have := byteBits_length b
        have hle : popcount (byteBits b) ≤ (byteBits b).length := by unfold popcount; exact List.count_le_length
        omega
      have hrow : (selectInByteLut.getD b []).getD k 8 = selectInByte b k := by
        simp [selectInByteLut, List.getD_eq_getElem?_getD, List.getElem?_map, List.getElem?_range, hb0, hk8]
      rw [hrow, selectInByte_eq_spec b k hb0 hk8]
      unfold selectByteSpec
      rw [if_pos (by omega)]

theorem distNextGo_eq (bs : List Bool) (extra pos : Nat) (h : pos + 1 < bs.length) :
    distNextGo bs.length (toWords bs extra) pos = 1 + leadingZeros (bs.drop (pos + 1)) := by
  have := distNextGo_eq' bs extra (pos + 1) (by omega) h
  simpa using this

end LinVerif.Lemmas.C20
