/-
C11 — first/last (any aggregate, commutative or not) inside ONE source: when the writes of a page
arrive in time order, the compress buffer holds only slots at or before the window start, so the
two `DownSampling` calls of the memory query (compress buffer, then write buffer) visit the slots
in ascending order and the leaf reduce folds them as the reference does.
-/
import LinVerif.Lemmas.C11Compose

set_option linter.unusedSimpArgs false
set_option linter.unusedVariables false

namespace LinVerif.Lemmas.C11
open LinVerif LinVerif.NaiveQuery LinVerif.MemDB

/-- two folds over an ascending list, the first function living at or below a pivot, the second at
or above it: the combination of the folds is the fold of the combinations (no commutativity). -/
theorem fsum_split_ordered (A : AggType) (p : Nat) (f g : Nat → Option Int) :
    ∀ (l : List Nat), l.Pairwise (· < ·) → (∀ s ∈ l, p < s → f s = none) → (∀ s ∈ l, s < p → g s = none) →
      ocomb A (fsum A l f) (fsum A l g) = fsum A l (fun s => ocomb A (f s) (g s)) := by
  intro l
  induction l with
  | nil => intro _ _ _; rfl
  | cons x rest ih =>
    intro hp hf hg
    rw [List.pairwise_cons] at hp
    rw [fsum_cons, fsum_cons, fsum_cons]
    by_cases hx : x < p
    · have hgx : g x = none := hg x (by simp) hx
      rw [hgx, ← ih hp.2 (fun s hs => hf s (by simp [hs])) (fun s hs => hg s (by simp [hs]))]
      simp [ocomb_assoc]
    · -- every later slot is above the pivot: f vanishes on the rest
      have hF : fsum A rest f = none := by
        apply fsum_all_none
        intro s hs
        exact hf s (by simp [hs]) (by have := hp.1 s hs; omega)
      have hR : fsum A rest (fun s => ocomb A (f s) (g s)) = fsum A rest g := by
        apply fsum_congr
        intro s hs
        rw [hf s (by simp [hs]) (by have := hp.1 s hs; omega)]
        simp
      rw [hF, hR]
      simp [ocomb_assoc]

/-- the compress buffer holds only slots before the window start (and nothing before the first
write): no slot lives in the compress buffer and in the window. -/
def SortedB (b : Buf) : Prop :=
  (b.hasData = false → b.compress = none) ∧ ∀ s, oldValue b.compress s ≠ none → s < b.start

theorem sortedB_fresh (w : Nat) : SortedB (Buf.fresh w) := by
  refine ⟨fun _ => rfl, ?_⟩
  intro s h
  simp [Buf.fresh, oldValue] at h

/-- the last marked slot of the window is visible. -/
theorem memView_end_ne_none {w : Nat} (A : AggType) (b : Buf) (hi : BufInv w b) (hd : b.hasData = true) :
    memView A b (b.start + b.endd) ≠ none := by
  have hc : curValue b (b.start + b.endd) ≠ none := by
    have : ¬ (b.start + b.endd < b.start ∨ b.start + b.endd > b.start + b.endd) := by omega
    simp only [curValue, this, if_false]
    have : b.start + b.endd - b.start = b.endd := by omega
    rw [this]
    exact hi.endMarked hd
  simp only [memView, hd, if_true]
  cases ho : oldValue b.compress (b.start + b.endd) <;> cases hcv : curValue b (b.start + b.endd) <;> simp_all [ocomb]

/-- a write at or after every slot the page holds keeps the compress buffer before the window. -/
theorem write_sorted (w : Nat) (A : AggType) (b : Buf) (hi : BufInv w b) (hs : SortedB b) (slot : Nat) (v : Int)
    (hle : ∀ t, memView A b t ≠ none → t ≤ slot) : SortedB (write w A b slot v) := by
  unfold write writeG
  by_cases hd : b.hasData = false
  · simp only [hd, Bool.not_false, if_true]
    refine ⟨fun h => by simp [writeFirst] at h, ?_⟩
    intro s h
    have hc : (writeFirst b slot v).compress = b.compress := rfl
    rw [hc, hs.1 hd] at h
    simp [oldValue] at h
  · have hd' : b.hasData = true := by cases h : b.hasData <;> simp_all
    simp only [hd', Bool.not_true, Bool.false_eq_true, if_false]
    by_cases hout : slot < b.start ∨ slot > b.start + w - 1
    · simp only [hout, if_true]
      refine ⟨fun h => by simp [writeFirst] at h, ?_⟩
      intro s h
      have hc : (writeFirst (compact A b) slot v).compress = (compact A b).compress := rfl
      have hst : (writeFirst (compact A b) slot v).start = slot := rfl
      rw [hc, oldValue_compact, mergeCell_eq] at h
      rw [hst]
      -- the write left the window to the right: the end of the window is held, hence ≤ slot
      have hend := hle _ (memView_end_ne_none A b hi hd')
      have hew := hi.endLt hd'
      have hright : slot > b.start + w - 1 := by
        rcases hout with h1 | h1
        · omega
        · exact h1
      -- s is held by the compress buffer (before the window) or by the window
      cases ho : oldValue b.compress s with
      | some x =>
        have := hs.2 s (by simp [ho])
        omega
      | none =>
        rw [ho] at h
        simp only [ocomb_none_left] at h
        have hcur : ¬ (s < b.start ∨ s > b.start + b.endd) := by
          intro hh
          exact h (curValue_none_of_out b s hh)
        omega
    · simp only [hout, if_false]
      have hc : ∀ (b' : Buf), b'.compress = b.compress → b'.start = b.start → b'.hasData = true → SortedB b' := by
        intro b' h1 h2 h3
        refine ⟨fun h => ?_, ?_⟩
        · rw [h3] at h; exact absurd h (by simp)
        intro s h4
        rw [h1] at h4
        rw [h2]
        exact hs.2 s h4
      split <;> exact hc _ rfl rfl (by simpa using hd')

/-- in a sorted page a slot is held by the compress buffer or by the window, never by both: the
view under the field's aggregate is the combination under ANY aggregate. -/
theorem memView_any_of_sorted {w : Nat} (F A : AggType) (b : Buf) (hi : BufInv w b) (hs : SortedB b) (s : Nat) :
    memView A b s = ocomb F (oldValue b.compress s) (if b.hasData then curValue b s else none) := by
  unfold memView
  cases ho : oldValue b.compress s with
  | none => simp
  | some x =>
    have hlt := hs.2 s (by simp [ho])
    have : curValue b s = none := curValue_none_of_out b s (Or.inl hlt)
    cases b.hasData <;> simp [this, ocomb]

/-- **the memory query of one page in time order**: with the compress buffer before the window
(`SortedB`) the two calls reduce, for ANY function aggregate `F` (the field's own or not,
commutative or not), to the slot-ascending `F`-fold of the page's view under the field's aggregate. -/
theorem pageCalls_spec_sorted {w : Nat} (F A : AggType) (L : List AggType) (hL : L.Nodup) (hAL : F ∈ L)
    (b : Buf) (hi' : BufInv w b) (hs : SortedB b) (lo hi tLo tHi g0 qs ratio t : Nat) :
    arrGet ((pageCalls L b lo hi tLo tHi g0 qs ratio).foldl reduceInto (Arrays.init L)) F t =
      fsum F (slotsOf lo hi)
        (fun s => if tLo ≤ s ∧ s ≤ tHi ∧ (g0 + s - qs) / ratio = t then memView A b s else none) := by
  rw [reduce_spec L hL F hAL _ (pageCalls_wf L hL b lo hi tLo tHi g0 qs ratio) t]
  have hcur : ∀ s, (if b.hasData then curValue b s else none) = curValue b s := by
    intro s
    cases hd : b.hasData with
    | true => simp
    | false => simp [curValue_noData' hi' hd s]
  unfold pageCalls
  cases hcomp : b.compress with
  | none =>
    simp only [List.nil_append]
    rw [fsum_cons]
    simp only [fsum, List.foldl_nil, ocomb_none_right]
    rw [dsCall_spec L hL F hAL]
    apply fsum_congr
    intro s _
    simp [memView, hcomp, oldValue, hcur]
  | some cc =>
    simp only [List.singleton_append]
    rw [fsum_cons, fsum_cons]
    simp only [fsum, List.foldl_nil, ocomb_none_right]
    rw [dsCall_spec L hL F hAL, dsCall_spec L hL F hAL, ← hcomp]
    have := fsum_split_ordered F b.start
      (fun s => if tLo ≤ s ∧ s ≤ tHi ∧ (g0 + s - qs) / ratio = t then oldValue b.compress s else none)
      (fun s => if tLo ≤ s ∧ s ≤ tHi ∧ (g0 + s - qs) / ratio = t then
          (if b.hasData then curValue b s else none) else none)
      (slotsOf lo hi) (slotsOf_pairwise lo hi)
      (by
        intro s _ hps
        by_cases hcond : tLo ≤ s ∧ s ≤ tHi ∧ (g0 + s - qs) / ratio = t
        · simp only [hcond, and_self, if_true]
          cases ho : oldValue b.compress s with
          | none => rfl
          | some x =>
            have := hs.2 s (by simp [ho])
            omega
        · simp [hcond])
      (by
        intro s _ hps
        by_cases hcond : tLo ≤ s ∧ s ≤ tHi ∧ (g0 + s - qs) / ratio = t
        · simp only [hcond, and_self, if_true, hcur]
          exact curValue_none_of_out b s (Or.inl hps)
        · simp [hcond])
    unfold fsum at this ⊢
    rw [this]
    apply fsum_congr
    intro s _
    by_cases hcond : tLo ≤ s ∧ s ≤ tHi ∧ (g0 + s - qs) / ratio = t
    · simp only [hcond, and_self, if_true]
      exact (memView_any_of_sorted F A b hi' hs s).symm
    · simp [hcond]

theorem refSlots_ne_none_mem (A : AggType) (ws : List (Nat × Int)) (t : Nat) (h : refSlots A ws t ≠ none) :
    t ∈ ws.map Prod.fst := by
  induction ws with
  | nil => simp [refSlots] at h
  | cons x rest ih =>
    rw [refSlots_cons] at h
    by_cases hx : x.1 = t
    · simp [hx]
    · simp only [hx, if_false, ocomb_none_left] at h
      simp [ih h]

/-- a page written in time order from a fresh buffer. -/
theorem runWrites_sorted (w : Nat) (hw : 0 < w) (A : AggType) :
    ∀ (ws pre : List (Nat × Int)), ((pre ++ ws).map Prod.fst).Pairwise (· ≤ ·) →
      SortedB (runWrites w A (Buf.fresh w) pre) →
      SortedB (runWrites w A (Buf.fresh w) (pre ++ ws)) := by
  intro ws
  induction ws with
  | nil => intro pre _ h; simpa using h
  | cons x rest ih =>
    intro pre hp hs
    have hstep : runWrites w A (Buf.fresh w) (pre ++ [x]) = write w A (runWrites w A (Buf.fresh w) pre) x.1 x.2 := by
      simp [runWrites, List.foldl_append]
    have hpre := run_refines w A pre (Buf.fresh w) (BufInv.fresh hw)
    have hs' : SortedB (runWrites w A (Buf.fresh w) (pre ++ [x])) := by
      rw [hstep]
      apply write_sorted w A _ hpre.1 hs
      intro t ht
      rw [hpre.2 t] at ht
      simp only [memView_fresh, ocomb_none_left] at ht
      have hm := refSlots_ne_none_mem A pre t ht
      -- every slot of the prefix is at most the next slot
      rw [List.map_append, List.pairwise_append] at hp
      exact hp.2.2 t hm x.1 (by simp)
    have := ih (pre ++ [x]) (by simpa [List.append_assoc] using hp) hs'
    simpa [List.append_assoc] using this

theorem pageFold_sorted {w : Nat} (F A : AggType) (L : List AggType) (hL : L.Nodup) (hAL : F ∈ L)
    (b : Buf) (hi' : BufInv w b) (hs : SortedB b) : PageFold F A L b := by
  intro lo hi tLo tHi g0 qs ratio t
  rw [← reduce_spec L hL F hAL _ (pageCalls_wf L hL b lo hi tLo tHi g0 qs ratio) t]
  exact pageCalls_spec_sorted F A L hL hAL b hi' hs lo hi tLo tHi g0 qs ratio t

/-! ### the shard: write order = time order inside one source -/

/-- the write's slot is at or after every slot that its page in the CURRENT memory database holds
(a new memory database after a flush starts afresh). -/
def sortedOp (s : Shard) : Op → Prop
  | .write tick fam ser fld ft slot _ =>
    ∀ t, memView ft.aggType (curPage s tick fam ser fld) t ≠ none → t ≤ slot
  | _ => True

def sortedOps : Shard → List Op → Prop
  | _, [] => True
  | s, op :: rest => sortedOp s op ∧ sortedOps (applyOp s op) rest

/-- every page of every mutable memory database has its compress buffer before its window. -/
def PagesSorted (s : Shard) : Prop :=
  ∀ fam md, (s.family fam).mutable_ = some md → ∀ k b, Map.lookup md.pages k = some b → SortedB b

theorem pagesSorted_write (s : Shard) (pts : List Point) (hinv : Inv s pts) (hp : PagesSorted s)
    (tick fam ser fld : Nat) (ft : FieldType) (slot : Nat) (v : Int)
    (hso : sortedOp s (.write tick fam ser fld ft slot v)) :
    PagesSorted (s.write tick fam ser fld ft slot v) := by
  intro fam2 md2 hm k b hk
  by_cases hf : fam = fam2
  · subst hf
    rw [write_family_self] at hm
    simp only [Option.some.injEq] at hm
    subst hm
    simp only at hk
    by_cases hkk : (ser, fld) = k
    · subst hkk
      rw [Map.lookup_upsert_self] at hk
      injection hk with hk
      subst hk
      have hw : MemDB.writeV s.cfg = write := by rw [hinv.cfgFixed]; exact writeV_fixed Cfg.fixed rfl rfl
      rw [hw]
      apply write_sorted
      · exact curPage_ok s pts hinv tick fam ser fld
      · -- the page before the write
        unfold curPage
        cases hl : Map.lookup (curMem s tick fam).pages (ser, fld) with
        | none => exact sortedB_fresh s.window
        | some b0 =>
          simp only [Option.getD_some]
          unfold curMem at hl
          cases hmm : (s.family fam).mutable_ with
          | none => rw [hmm] at hl; simp [Map.lookup] at hl
          | some md => rw [hmm] at hl; exact hp fam md hmm _ b0 hl
      · exact hso
    · rw [Map.lookup_upsert_ne _ _ _ _ hkk] at hk
      unfold curMem at hk
      cases hmm : (s.family fam).mutable_ with
      | none => rw [hmm] at hk; simp [Map.lookup] at hk
      | some md => rw [hmm] at hk; exact hp fam md hmm k b hk
  · rw [write_family_ne _ _ _ _ _ _ _ _ fam2 hf] at hm
    exact hp fam2 md2 hm k b hk

theorem pagesSorted_flush (s : Shard) (hp : PagesSorted s) (fam : Nat) : PagesSorted (s.flush fam) := by
  cases hm : (s.family fam).mutable_ with
  | none => rw [flush_none s fam hm]; exact hp
  | some md =>
    intro fam2 md2 hm2 k b hk
    by_cases hf : fam = fam2
    · subst hf
      rw [flush_some_family_self s fam md hm] at hm2
      cases hm2
    · rw [flush_some_family_ne s fam fam2 md hm hf] at hm2
      exact hp fam2 md2 hm2 k b hk

theorem pagesSorted_flushAll : ∀ (l : List Nat) (s : Shard), PagesSorted s → PagesSorted (flushAll s l) := by
  intro l
  induction l with
  | nil => intro s h; exact h
  | cons x rest ih => intro s h; simp only [flushAll, List.foldl_cons] at ih ⊢; exact ih _ (pagesSorted_flush s h x)

theorem pagesSorted_compact (s : Shard) (hp : PagesSorted s) (fam : Nat) : PagesSorted (s.compact fam) := by
  unfold Shard.compact
  simp only
  split
  · exact hp
  · cases hmb : mergeBlocks s.fieldAgg (s.family fam).chron with
    | none => exact hp
    | some blk =>
      simp only
      intro fam2 md2 hm k b hk
      by_cases hf : fam = fam2
      · subst hf
        rw [family_upsert_self s fam _ _ _ _ _] at hm
        exact hp fam md2 hm k b hk
      · rw [family_upsert_ne s fam fam2 _ _ _ _ _ hf] at hm
        exact hp fam2 md2 hm k b hk

theorem pagesSorted_applyOp (s : Shard) (pts : List Point) (hinv : Inv s pts) (hp : PagesSorted s) (op : Op)
    (hso : sortedOp s op) : PagesSorted (applyOp s op) := by
  cases op with
  | write tick fam ser fld ft slot v => exact pagesSorted_write s pts hinv hp tick fam ser fld ft slot v hso
  | flush fam => exact pagesSorted_flush s hp fam
  | compact fam => exact pagesSorted_compact s hp fam
  | reopen =>
    simp only [applyOp, Shard.reopen]
    have := pagesSorted_flushAll (s.families.map Prod.fst) s hp
    exact this

theorem pagesSorted_runOps : ∀ (ops : List Op) (s : Shard) (pts : List Point), Inv s pts → goodOps s ops = true →
    PagesSorted s → sortedOps s ops → PagesSorted (runOps s ops) := by
  intro ops
  induction ops with
  | nil => intro s _ _ _ h _; exact h
  | cons op rest ih =>
    intro s pts hinv hg hp hso
    simp only [goodOps, Bool.and_eq_true] at hg
    simp only [runOps, List.foldl_cons]
    exact ih (applyOp s op) _ (inv_applyOp s pts hinv op hg.1) hg.2
      (pagesSorted_applyOp s pts hinv hp op hso.1) hso.2

theorem pagesSorted_init (w : Nat) (sch : List (Nat × FieldType)) :
    PagesSorted { Shard.init w with fieldTypes := sch } := by
  intro fam md hm
  simp [Shard.family, Shard.init, Family.empty, Map.lookup] at hm

/-! ### one source per family -/

/-- the family keeps its data in ONE source: only the memory database, or — without a memory
database — at most one file. (Several sources are reduced in load order, not in time order: findings
`last-field-flushed-value-wins`, `last-downsampling-flushed-slot-wins`.) -/
def OneSource (s : Shard) (fam : Nat) : Prop :=
  (s.family fam).readers = [] ∨ ((s.family fam).mutable_ = none ∧ ∃ blk, (s.family fam).readers = [blk])

theorem chron_of_readers_nil (f : Family) (h : f.readers = []) : f.chron = [] := by
  unfold Family.readers at h
  unfold Family.chron
  cases hb : f.base with
  | none => rw [hb] at h; simpa using h
  | some b => rw [hb] at h; simp at h

theorem chron_of_readers_single (f : Family) (blk : Block) (h : f.readers = [blk]) : f.chron = [blk] := by
  unfold Family.readers at h
  unfold Family.chron
  cases hb : f.base with
  | none => rw [hb] at h; simpa using h
  | some b =>
    rw [hb] at h
    cases hf : f.files with
    | nil => rw [hf] at h; simpa using h
    | cons x rest =>
      rw [hf] at h
      simp at h

/-- one family with one source, ANY aggregate: the family's calls fold to the family's store view. -/
theorem familyCalls_fsum_one_source (s : Shard) (pts : List Point) (hinv : Inv s pts) (h2 : Inv2 s) (hps : PagesSorted s)
    (q : Query) {L : List AggType} (hL : L.Nodup) (hAL : s.fieldAgg q.field ∈ L) (sc : Scope)
    (hspf : 0 < q.spf) (fam : Nat) (hone : OneSource s fam) (group : List Nat)
    (hsc : ScopeOK q sc group) (t : Nat) :
    fsum (s.fieldAgg q.field) (familyCalls s q sc L fam group)
        (fun c => arrGet c (s.fieldAgg q.field) t) =
      famBucket (s.fieldAgg q.field) q fam t group (fun ser slot => storeView s fam ser q.field slot) := by
  rw [familyCalls_fsum_raw s pts hinv h2 q _ hL hAL sc hspf fam group hsc t
    (fun md hm => memCalls_fsum_gen s pts hinv q _ hspf fam md hm
      (fun ser b hp hbi => pageFold_sorted _ _ L hL hAL b hbi (hps fam md hm _ b hp)) group t)]
  rcases hone with hr | ⟨hmn, blk, hr⟩
  · rw [hr, fsum_nil, ocomb_none_right]
    apply famBucket_congr
    intro ser slot _ _
    unfold storeView
    rw [chron_of_readers_nil _ hr]
    simp [filesView]
  · rw [hr, fsum_cons, fsum_nil, ocomb_none_right]
    have hpv : famBucket (s.fieldAgg q.field) q fam t group (fun ser slot => pageView s fam ser q.field slot) = none := by
      apply famBucket_none
      intro ser slot _ _
      simp [pageView, hmn]
    rw [hpv, ocomb_none_left]
    apply famBucket_congr
    intro ser slot _ _
    unfold storeView
    rw [chron_of_readers_single _ blk hr]
    simp [filesView, pageView, hmn]

/-- all families, one series: no reordering across families and series is needed. -/
theorem leafGroup_eq_fsum_one_source (s : Shard) (pts : List Point) (hinv : Inv s pts) (h2 : Inv2 s) (hps : PagesSorted s)
    (q : Query) {L : List AggType} (hL : L.Nodup) (hAL : s.fieldAgg q.field ∈ L) (sc : Scope)
    (hspf : 0 < q.spf) (fams : List Nat) (hone : ∀ fam ∈ fams, OneSource s fam) (ser : Nat)
    (hsc : ScopeOK q sc [ser]) (t : Nat) :
    arrGet (leafGroup s q sc L fams [ser]) (s.fieldAgg q.field) t =
      fsum (s.fieldAgg q.field) fams (fun fam =>
        fsum (s.fieldAgg q.field) (List.range q.spf) (fun slot =>
          if bucketOf q fam slot = some t then storeView s fam ser q.field slot else none)) := by
  unfold leafGroup
  have hab : s.cfg.aggregateByType = true := by rw [hinv.cfgFixed]; rfl
  rw [hab]
  simp only [if_true]
  rw [reduce_spec L hL _ hAL _ (by
    intro c hcm
    rw [List.mem_flatMap] at hcm
    obtain ⟨fam, _, hf⟩ := hcm
    exact familyCalls_wf s q sc L hL fam [ser] c hf) t]
  rw [fsum_flatMap]
  apply fsum_congr
  intro fam hfam
  rw [familyCalls_fsum_one_source s pts hinv h2 hps q hL hAL sc hspf fam (hone fam hfam) [ser] hsc t]
  unfold famBucket
  rw [fsum_cons, fsum_nil, ocomb_none_right]

end LinVerif.Lemmas.C11
