/-
C01 helper lemmas: the post-recovery cleanup removes every table file that is not live.
-/
import LinVerif.Lemmas.C01Crash

namespace LinVerif.Kv
open LinVerif

/-- only removals of manifests / tables -/
def RemovalsOnly (l : List FsOp) : Prop :=
  ∀ o ∈ l, (∃ n, o = .removeManifest n) ∨ (∃ a b, o = .removeTable a b)

theorem table_removeTable (x : Disk) (a : Nat) (b : Int) (nm : Nat) (g : Int) :
    (applyFs x (.removeTable a b)).table nm g = if a = nm ∧ b = g then none else x.table nm g := by
  by_cases h : a = nm ∧ b = g
  · obtain ⟨rfl, rfl⟩ := h
    simp [applyFs, table_upsert_dir, Map.lookup_erase_self]
  · simp only [h, if_false]
    exact table_frame _ _ _ _ (by
      simp only [FsOp.touches, ne_eq, Option.some.injEq, Prod.mk.injEq]; exact h)

theorem removals_shrink (l : List FsOp) (hl : RemovalsOnly l) (x : Disk) (nm : Nat) (g : Int) (t : Table)
    (h : (applyFsList x l).table nm g = some t) : x.table nm g = some t := by
  induction l generalizing x with
  | nil => exact h
  | cons o r ih =>
    have hr : RemovalsOnly r := fun o' ho' => hl o' (List.mem_cons_of_mem _ ho')
    rw [applyFsList_cons] at h
    have := ih hr _ h
    rcases hl o (by simp) with ⟨n, rfl⟩ | ⟨a, b, rfl⟩
    · rw [table_frame _ _ _ _ (by simp [FsOp.touches])] at this; exact this
    · rw [table_removeTable] at this
      split at this
      · simp at this
      · exact this

theorem removals_remove (l : List FsOp) (hl : RemovalsOnly l) (x : Disk) (nm : Nat) (g : Int)
    (h : FsOp.removeTable nm g ∈ l) : (applyFsList x l).table nm g = none := by
  induction l generalizing x with
  | nil => simp at h
  | cons o r ih =>
    have hr : RemovalsOnly r := fun o' ho' => hl o' (List.mem_cons_of_mem _ ho')
    rw [applyFsList_cons]
    simp only [List.mem_cons] at h
    rcases h with rfl | h
    · cases hq : (applyFsList (applyFs x (.removeTable nm g)) r).table nm g with
      | none => rfl
      | some t =>
        have := removals_shrink r hr _ nm g t hq
        rw [table_removeTable] at this
        simp at this
    · exact ih hr _ h

theorem removalsOnly_post (x : Disk) (keep : Int) (fams : List Fam) (vs : VS) :
    RemovalsOnly (obsoleteManifestOps x keep ++ allFamObsoleteOps x fams vs) := by
  intro o ho
  simp only [List.mem_append] at ho
  rcases ho with ho | ho
  · obtain ⟨m, rfl, _⟩ := mem_obsoleteManifestOps ho
    exact Or.inl ⟨m, rfl⟩
  · obtain ⟨fam, _, v, _, f, rfl, _⟩ := mem_allFamObsoleteOps ho
    exact Or.inr ⟨_, _, rfl⟩

/-- after a successful open, every table file left in a family directory is live for the recovered
version of that family (a file of some level or a file waiting for rollup): orphans — in
particular every half-written table — are gone. -/
theorem open_cleanup (cfg : Cfg) (d : Disk) (vs : VS) (hrec : recoverVS cfg d = (vs, true))
    (o : FamOpt) (ho : o ∈ d.options.getD []) (v : Version) (hv : vs.verOf o.id = some v)
    (g : Int) (t : Table) (ht : (applyFsList d (openStore cfg d).2).table o.name g = some t) :
    g ∈ liveFiles [] v := by
  rw [openStore_ok cfg d vs hrec] at ht
  simp only at ht
  rw [applyFsList_append] at ht
  generalize hd1 : applyFsList d (openPrepOps d ++ initJournalOps vs) = d1 at ht
  have hro := removalsOnly_post d1 vs.manifestNo ((d.options.getD []).map (fun o => ⟨o, [], none⟩)) vs
  cases hlive : (liveFiles [] v).contains g with
  | true => simpa using hlive
  | false =>
    exfalso
    have h1 := removals_shrink _ hro d1 o.name g t ht
    have hkey : g ∈ sortInts (Map.keys (d1.tables o.name)) := by
      rw [mem_sortInts]
      exact Map.mem_keys_of_lookup h1
    have hmem : FsOp.removeTable o.name g ∈
        obsoleteManifestOps d1 vs.manifestNo ++ allFamObsoleteOps d1 ((d.options.getD []).map (fun o => ⟨o, [], none⟩)) vs := by
      simp only [List.mem_append]
      right
      simp only [allFamObsoleteOps, List.mem_flatMap, List.mem_map]
      refine ⟨⟨o, [], none⟩, ⟨o, ho, rfl⟩, ?_⟩
      simp only [hv, famObsoleteOps, List.mem_map, List.mem_filter]
      have hnl : g ∉ liveFiles [] v := by
        intro hm
        have : (liveFiles [] v).contains g = true := by simpa using hm
        rw [hlive] at this; cases this
      exact ⟨g, ⟨hkey, by simpa using hnl⟩, rfl⟩
    have := removals_remove _ hro d1 o.name g hmem
    rw [this] at ht
    simp at ht

end LinVerif.Kv
