/-
C02: the rollup job's DeleteRollupFile records (`family.rollup`, model `rollupDels` / `jRollupStart`).

* `rollupDels true marks ok` (the source: records created inside the per-target loop, with that
  target's interval) names exactly the marks whose target interval succeeded;
* `RollInv`: in every reachable state the edit log of a rollup job names only (file, interval)
  pairs whose target is in the job's set of succeeded targets — for ALL subsets of succeeding /
  failing targets (the job's payload is arbitrary) and all interleavings.
-/
import LinVerif.Lemmas.C02Cur
set_option linter.unusedSimpArgs false
set_option linter.unusedVariables false

namespace LinVerif.Lemmas.C02
open LinVerif.VersionSet LinVerif.TableCache

theorem mem_dedupNat' (l : List Nat) (x : Nat) : x ∈ dedupNat l ↔ x ∈ l := by
  induction l with
  | nil => simp [dedupNat]
  | cons a t ih =>
    simp only [dedupNat, List.foldr_cons] at ih ⊢
    split
    · next hc =>
      have hc' : a ∈ List.foldr (fun x acc => if acc.contains x = true then acc else x :: acc) [] t := by
        simpa using hc
      constructor
      · intro h; exact List.mem_cons_of_mem _ (ih.mp h)
      · intro h
        rcases List.mem_cons.mp h with rfl | h
        · exact hc'
        · exact ih.mpr h
    · simp only [List.mem_cons, ih]

/-- per-interval records: exactly the marks of the targets that succeeded -/
theorem mem_rollupDels_perInterval (marks : List (Nat × Nat)) (ok : List Nat) (p : Nat × Nat) :
    p ∈ rollupDels true marks ok ↔ p ∈ marks ∧ p.2 ∈ ok := by
  obtain ⟨f, iv⟩ := p
  simp only [rollupDels, rollupIntervals, List.mem_flatMap, mem_dedupNat', List.mem_map]
  constructor
  · rintro ⟨jv, ⟨q, hq, rfl⟩, hmem⟩
    split at hmem
    · next hok =>
      simp only [if_true, List.mem_map, List.mem_filter] at hmem
      obtain ⟨g, ⟨r, ⟨hr, hr2⟩, rfl⟩, heq⟩ := hmem
      have h2 : r.2 = q.2 := by simpa using hr2
      cases heq
      refine ⟨?_, by simpa using hok⟩
      have : r = (r.1, q.2) := by rw [← h2]
      rw [← this]; exact hr
    · cases hmem
  · rintro ⟨hm, hok⟩
    refine ⟨iv, ⟨(f, iv), hm, rfl⟩, ?_⟩
    have : ok.contains iv = true := by simpa using hok
    simp only [this, if_true, List.mem_map, List.mem_filter]
    exact ⟨f, ⟨(f, iv), ⟨hm, by simp⟩, rfl⟩, rfl⟩

/-- the variant (records for ALL intervals of every file that reached some target) also names marks
of targets that did not succeed -/
theorem rollupDels_allIntervals_overreach :
    (7, 60) ∈ rollupDels false [(7, 5), (7, 60)] [5] ∧ (7, 60) ∉ rollupDels true [(7, 5), (7, 60)] [5] := by decide


/-! ### the rollup job's edit log names only targets that succeeded (all schedules, all outcome subsets) -/

/-- the targets of rollup job `b` whose rollup succeeded (its payload: chosen freely at spawn) -/
def okTargets (b : Job) : List Nat := b.payload.map (·.1)

def RollInv (s : St) : Prop :=
  ∀ k, (s.job k).kind = .rollupJob → ∀ p ∈ (s.job k).edit.rollDel, p.2 ∈ okTargets (s.job k)

theorem removeVersion_job (cfg : Cfg) (s : St) (v : Nat) : (removeVersion cfg s v).job = s.job := by
  unfold removeVersion; split <;> rfl

theorem snapGetReader_job (s : St) (i f : Nat) (keep : Bool) : (snapGetReader s i f keep).job = s.job := by
  unfold snapGetReader
  split
  · cases keep <;> rfl
  · rfl

theorem snapRemove_job (cfg : Cfg) (s : St) (i : Nat) (z : Bool) : (snapRemove cfg s i z).job = s.job := by
  unfold snapRemove
  cases z
  · rfl
  · simp only [if_true, St.setSnap]; exact removeVersion_job cfg s _

theorem rollInv_init (v0 f0 : Nat) : RollInv (St.init v0 f0) := by
  intro k hk; simp [St.init] at hk

/-- a state whose job table is the old one, possibly with job `j`'s record replaced by one that keeps
kind and payload and either keeps the edit log or carries no DeleteRollupFile record -/
theorem rollInv_of_job {s s' : St} {j : Nat} {x : Job} (h : RollInv s) (hjob : s'.job = upd s.job j x)
    (hk : x.kind = (s.job j).kind) (hp : x.payload = (s.job j).payload)
    (he : x.edit = (s.job j).edit ∨ x.edit.rollDel = [] ∨
      (x.kind = .rollupJob → ∀ p ∈ x.edit.rollDel, p.2 ∈ okTargets x)) : RollInv s' := by
  intro k hkk p hpm
  rw [hjob] at hkk hpm ⊢
  by_cases hkj : k = j
  · subst hkj
    simp only [upd, if_true] at hkk hpm ⊢
    rcases he with he | he | he
    · rw [he] at hpm
      have := h k (by rw [← hk]; exact hkk) p hpm
      simpa [okTargets, hp] using this
    · rw [he] at hpm; cases hpm
    · exact he hkk p hpm
  · simp only [upd, hkj, if_false] at hkk hpm ⊢
    exact h k hkk p hpm

theorem rollInv_same {s s' : St} (h : RollInv s) (hjob : s'.job = s.job) : RollInv s' := by
  intro k hk p hp; rw [hjob] at hk hp ⊢; exact h k hk p hp


-- job `j`'s record moved on keeping kind, payload and edit log
set_option hygiene false in
macro "roll_keep" : tactic => `(tactic| exact rollInv_of_job h (x := _) rfl rfl rfl (Or.inl rfl))

theorem jPrevRm_job (cfg : Cfg) (s : St) (j : Nat) :
    (jPrevRm cfg s j).job = upd s.job j { s.job j with pc := .cPrevDone } := by
  unfold jPrevRm; dsimp only
  split
  · rw [removeVersion_job]; rfl
  · rfl

theorem createEdit_rollDel (cfg : Cfg) (b : Job) :
    (match b.kind with
      | .flush => ({ adds := b.out.toList, rollAdd := flushMarks cfg b } : Edit)
      | _ => { dels := b.inputs.map (fun (m : FileMeta) => (m.level, m.no)), adds := b.out.toList }).rollDel = [] := by
  cases b.kind <;> rfl

theorem rollInv_jstep {cfg : Cfg} {s s' : St} {j : Nat} (hpf : cfg.pendFirst = true)
    (hpi : cfg.rollDelPerInterval = true) (h : RollInv s) (hs : jstep cfg s j = some s') : RollInv s' := by
  unfold jstep at hs
  simp only [hpf, ↓reduceIte] at hs
  split at hs
  case isFalse => cases hs
  case isTrue hj =>
  try dsimp only at hs
  split at hs
  case h_1 hpc =>
    split at hs
    · split at hs
      · cases hs; roll_keep
      · cases hs
    · split at hs
      · cases hs
      · cases hs
        unfold jStartCompact; dsimp only
        cases pickL0 (s.ver s.cur) cfg.threshold <;> roll_keep
    · next hk =>
      cases hs
      refine rollInv_of_job h (x := _) rfl rfl rfl (Or.inr (Or.inr ?_))
      intro hc; simp only [hk] at hc; cases hc
    · cases hs; roll_keep
    · cases hs
      refine rollInv_of_job h (x := _) rfl rfl rfl (Or.inr (Or.inr ?_))
      intro _ p hp
      simp only [hpi] at hp
      exact ((mem_rollupDels_perInterval _ _ p).mp hp).2
  case h_2 hpc =>
    cases hs; unfold jPicked; dsimp only
    split
    · exact rollInv_of_job h (x := _) rfl rfl rfl (Or.inr (Or.inl rfl))
    · roll_keep
  case h_3 hpc =>
    cases hs; unfold jRead; dsimp only
    split
    · roll_keep
    · next f rest _ =>
      split
      · have h1 : RollInv (s.setJob j { s.job j with todoIn := rest }) := by roll_keep
        exact rollInv_same h1 (snapGetReader_job _ _ _ _)
      · roll_keep
  case h_4 hpc =>
    split at hs
    · cases hs; roll_keep
    · cases hs
  case h_5 hpc =>
    cases hs
    exact rollInv_of_job h (x := _) rfl rfl rfl (Or.inr (Or.inl (createEdit_rollDel cfg (s.job j))))
  case h_6 hpc =>
    split at hs
    · cases hs; roll_keep
    · split at hs
      · split at hs
        · cases hs; roll_keep
        · cases hs
      · cases hs; roll_keep
  case h_7 hpc =>
    split at hs
    · cases hs; roll_keep
    · cases hs
  case h_8 hpc => cases hs; roll_keep
  case h_9 hpc => cases hs; roll_keep
  case h_10 hpc => cases hs; roll_keep
  case h_11 hpc =>
    cases hs
    exact rollInv_of_job h (x := _) (jPrevRm_job cfg s j) rfl rfl (Or.inl rfl)
  case h_12 hpc =>
    split at hs
    · cases hs; roll_keep
    · cases hs
  case h_13 hpc =>
    split at hs
    · cases hs
      have h1 : RollInv (setPc s j .cRemoved) := by roll_keep
      exact rollInv_same h1 (snapRemove_job _ _ _ _)
    · cases hs
  case h_14 hpc =>
    split at hs
    · cases hs; roll_keep
    · cases hs
  case h_15 hpc => cases hs; roll_keep
  case h_16 hpc =>
    split at hs
    · cases hs; roll_keep
    · cases hs; roll_keep
    · cases hs; roll_keep
  case h_17 hpc =>
    split at hs
    · cases hs; roll_keep
    · cases hs
  case h_18 hpc =>
    split at hs
    · cases hs
      have h1 : RollInv (setPc s j .oRemoved) := by roll_keep
      exact rollInv_same h1 (snapRemove_job _ _ _ _)
    · cases hs
  case h_19 hpc =>
    split at hs
    · cases hs; roll_keep
    · cases hs
  case h_20 hpc =>
    cases hs
    split <;> roll_keep
  case h_21 hpc => cases hs; roll_keep
  case h_22 hpc => cases hs; roll_keep
  case h_23 hpc =>
    cases hs
    split <;> roll_keep
  case h_24 hpc =>
    split at hs
    · cases hs; roll_keep
    · cases hs; roll_keep
  case h_25 hpc =>
    split at hs
    · cases hs; roll_keep
    · cases hs; roll_keep
  case h_26 hpc =>
    split at hs
    · cases hs
    · cases hs; roll_keep
  case h_27 hpc => cases hs
  case h_28 hpc =>
    cases hs
    exact rollInv_of_job h (x := _) rfl rfl rfl (Or.inr (Or.inl (createEdit_rollDel cfg (s.job j))))
  case h_29 hpc => cases hs; roll_keep

theorem rollInv_step {cfg : Cfg} {s s' : St} {a : Act} (hpf : cfg.pendFirst = true)
    (hpi : cfg.rollDelPerInterval = true) (h : RollInv s) (hs : step cfg s a = some s') : RollInv s' := by
  cases a with
  | jstep j => exact rollInv_jstep hpf hpi h hs
  | spawn k p =>
    simp only [step] at hs; cases hs
    intro i hi q hq
    simp only [spawnJob, upd] at hi hq ⊢
    split at hq
    · cases hq
    · next hne => simp only [hne, if_false] at hi ⊢; exact h i hi q hq
  | acquire => simp only [step] at hs; cases hs; exact rollInv_same h rfl
  | getReader i f =>
    simp only [step] at hs
    split at hs
    · cases hs; exact rollInv_same h (snapGetReader_job _ _ _ _)
    · cases hs
  | loadFile i f =>
    simp only [step] at hs
    split at hs
    · cases hs; exact rollInv_same h (snapGetReader_job _ _ _ _)
    · cases hs
  | sDec i =>
    simp only [step] at hs
    split at hs
    · cases hs; exact rollInv_same h rfl
    · cases hs
  | sRemove i =>
    simp only [step] at hs
    split at hs
    · split at hs
      · cases hs; exact rollInv_same h (snapRemove_job _ _ _ _)
      · cases hs
    · cases hs
  | sRel i =>
    simp only [step] at hs
    split at hs
    · cases hs; exact rollInv_same h rfl
    · cases hs
  | cleanup fs =>
    simp only [step] at hs
    split at hs
    · cases hs; exact rollInv_same h rfl
    · cases hs
  | findErrRelease i fs =>
    simp only [step] at hs
    split at hs
    · cases hs; exact rollInv_same h rfl
    · cases hs
  | sDec2 i =>
    simp only [step] at hs
    split at hs
    · cases hs; exact rollInv_same h rfl
    · cases hs
  | getReaderNoRetain i f =>
    simp only [step] at hs
    split at hs
    · cases hs; exact rollInv_same h rfl
    · cases hs
  | env df dv =>
    simp only [step] at hs
    split at hs
    · cases hs; exact rollInv_same h rfl
    · cases hs

theorem rollInv_reachable {cfg : Cfg} {v0 f0 : Nat} {s : St} (hpf : cfg.pendFirst = true)
    (hpi : cfg.rollDelPerInterval = true) (h : Reachable cfg v0 f0 s) : RollInv s := by
  induction h with
  | init => exact rollInv_init v0 f0
  | step a _ hst ih => exact rollInv_step hpf hpi ih hst

end LinVerif.Lemmas.C02
