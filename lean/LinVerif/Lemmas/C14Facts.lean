/-
Ties between the regenerated zig-zag formulas (Generated/C14.lean: Go's shifts / xor / conversions
translated literally) and the arithmetic definitions of Model/Varint.lean.
-/
import LinVerif.Generated.C14
import LinVerif.Model.Varint

namespace LinVerif.Varint

theorem xor_allones (u : Nat) (h : u < 2 ^ 64) : u ^^^ (2 ^ 64 - 1) = 2 ^ 64 - 1 - u := by
  have e : 2 ^ 64 - 1 - u = 2 ^ 64 - (u + 1) := by omega
  rw [e]
  apply Nat.eq_of_testBit_eq
  intro i
  rw [Nat.testBit_xor, Nat.testBit_two_pow_sub_one, Nat.testBit_two_pow_sub_succ h]
  by_cases hi : i < 64
  · simp [hi]
  · have : u.testBit i = false :=
      Nat.testBit_lt_two_pow (Nat.lt_of_lt_of_le h (Nat.pow_le_pow_right (by omega) (by omega)))
    simp [hi, this]

open LinVerif.Generated.C14 in
/-- Go's `uint64(x<<1) ^ uint64(x>>63)` is the model's `zigzagEnc` on every `int64` -/
theorem zigZagEncode_tie (x : Int) (h1 : -9223372036854775808 ≤ x) (h2 : x < 9223372036854775808) :
    zigZagEncode x = (zigzagEnc x : Int) := by
  unfold zigZagEncode xorU u64 i64 zigzagEnc toU64
  simp only [two64]
  by_cases hx : x < 0
  · have ha : ((x * 2 + 9223372036854775808) % 18446744073709551616 - 9223372036854775808) % 18446744073709551616
        = ((((x % 18446744073709551616).toNat * 2) % 18446744073709551616 : Nat) : Int) := by omega
    have hb : x / 9223372036854775808 % 18446744073709551616 = ((2 ^ 64 - 1 : Nat) : Int) := by
      have : (2 : Nat) ^ 64 - 1 = 18446744073709551615 := by decide
      rw [this]; omega
    rw [ha, hb, Int.toNat_natCast, Int.toNat_natCast, xor_allones _ (by
      have : (2 : Nat) ^ 64 = 18446744073709551616 := by decide
      rw [this]; omega)]
    simp only [hx, if_true]
    have : (2 : Nat) ^ 64 = 18446744073709551616 := by decide
    rw [this]
    omega
  · have ha : ((x * 2 + 9223372036854775808) % 18446744073709551616 - 9223372036854775808) % 18446744073709551616
        = ((((x % 18446744073709551616).toNat * 2) % 18446744073709551616 : Nat) : Int) := by omega
    have hb : x / 9223372036854775808 % 18446744073709551616 = ((0 : Nat) : Int) := by omega
    rw [ha, hb, Int.toNat_natCast, Int.toNat_natCast, Nat.xor_zero]
    simp only [hx, if_false]
    omega

open LinVerif.Generated.C14 in
/-- Go's `int64((v >> 1) ^ uint64((int64(v&1)<<63)>>63))` is the model's `zigzagDec` on every `uint64` -/
theorem zigZagDecode_tie (v : Nat) (h : v < 18446744073709551616) :
    zigZagDecode (v : Int) = zigzagDec v := by
  unfold zigZagDecode xorU andU u64 i64 zigzagDec toI64
  simp only [two64, two63]
  have hand : ((v : Int).toNat &&& (1 : Int).toNat) = v % 2 := by
    rw [Int.toNat_natCast]; exact Nat.and_one_is_mod v
  rw [hand]
  have hhalf : ((v : Int) / 2).toNat = v / 2 := by omega
  rw [hhalf]
  by_cases hodd : v % 2 = 1
  · have hm : (((((v % 2 : Nat) : Int) + 9223372036854775808) % 18446744073709551616 - 9223372036854775808)
        * 9223372036854775808 + 9223372036854775808) % 18446744073709551616 - 9223372036854775808
        = -9223372036854775808 := by omega
    rw [hm]
    have hb : (-9223372036854775808 : Int) / 9223372036854775808 % 18446744073709551616
        = ((2 ^ 64 - 1 : Nat) : Int) := by
      have : (2 : Nat) ^ 64 - 1 = 18446744073709551615 := by decide
      rw [this]; omega
    rw [hb, Int.toNat_natCast, xor_allones _ (by
      have : (2 : Nat) ^ 64 = 18446744073709551616 := by decide
      rw [this]; omega)]
    simp only [hodd, if_true]
    have : (2 : Nat) ^ 64 = 18446744073709551616 := by decide
    rw [this]
    omega
  · have hm : (((((v % 2 : Nat) : Int) + 9223372036854775808) % 18446744073709551616 - 9223372036854775808)
        * 9223372036854775808 + 9223372036854775808) % 18446744073709551616 - 9223372036854775808
        = 0 := by omega
    rw [hm]
    have hb : (0 : Int) / 9223372036854775808 % 18446744073709551616 = ((0 : Nat) : Int) := by omega
    rw [hb, Int.toNat_natCast, Nat.xor_zero]
    simp only [hodd, if_false]
    omega

/-- first row of a threshold table whose bound exceeds `v` -/
def tableWidth : List (Nat × Nat) → Nat → Nat → Nat
  | [], d, _ => d
  | (t, w) :: rest, d, v => if v < t then w else tableWidth rest d v


end LinVerif.Varint
