/-
C02: the current version changes only in the swap step of a commit.
-/
import LinVerif.Lemmas.C02Frame
set_option linter.unusedSimpArgs false
set_option linter.unusedVariables false

namespace LinVerif.Lemmas.C02
open LinVerif.VersionSet LinVerif.TableCache

theorem removeVersion_cur (cfg : Cfg) (s : St) (v : Nat) : (removeVersion cfg s v).cur = s.cur := by
  unfold removeVersion; split <;> rfl

theorem snapGetReader_cur (s : St) (i f : Nat) (keep : Bool) : (snapGetReader s i f keep).cur = s.cur := by
  unfold snapGetReader
  split
  · cases keep <;> rfl
  · rfl

theorem snapRemove_cur (cfg : Cfg) (s : St) (i : Nat) (z : Bool) : (snapRemove cfg s i z).cur = s.cur := by
  unfold snapRemove
  cases z
  · rfl
  · simp only [if_true]; exact removeVersion_cur cfg s _

syntax "curtac" : tactic
set_option hygiene false in
macro_rules
  | `(tactic| curtac) =>
    `(tactic| first
      | (cases hs; first | done | exact Or.inl rfl)
      | (split at hs <;> curtac))

/-- every job step other than the version swap leaves `current` alone -/
theorem cur_jstep {cfg : Cfg} {s s' : St} {j : Nat} (hpf : cfg.pendFirst = true) (hs : jstep cfg s j = some s') :
    s'.cur = s.cur ∨ (j < s.nJob ∧ (s.job j).pc = .cSnapped ∧ s' = jSwap s j) := by
  unfold jstep at hs
  simp only [hpf, ↓reduceIte] at hs
  split at hs
  case isFalse => cases hs
  case isTrue hj =>
  try dsimp only at hs
  split at hs
  case h_9 hpc => cases hs; exact Or.inr ⟨hj, hpc, rfl⟩
  case h_3 hpc =>
    cases hs; left
    unfold jRead; dsimp only
    split
    · rfl
    · split
      · exact snapGetReader_cur _ _ _ _
      · rfl
  case h_2 hpc => cases hs; left; unfold jPicked; dsimp only; split <;> rfl
  case h_11 hpc =>
    cases hs; left; unfold jPrevRm; dsimp only
    split
    · exact removeVersion_cur _ _ _
    · rfl
  case h_13 hpc =>
    split at hs
    · cases hs; left; exact snapRemove_cur _ _ _ _
    · cases hs
  case h_18 hpc =>
    split at hs
    · cases hs; left; exact snapRemove_cur _ _ _ _
    · cases hs
  all_goals curtac

theorem cur_step {cfg : Cfg} {s s' : St} {a : Act} (hpf : cfg.pendFirst = true) (hs : step cfg s a = some s') :
    s'.cur = s.cur ∨ ∃ j, a = .jstep j ∧ j < s.nJob ∧ (s.job j).pc = .cSnapped ∧ s' = jSwap s j := by
  cases a with
  | jstep j =>
    rcases cur_jstep hpf hs with h | h
    · exact Or.inl h
    · exact Or.inr ⟨j, rfl, h⟩
  | acquire => simp only [step] at hs; cases hs; exact Or.inl rfl
  | spawn k p => simp only [step] at hs; cases hs; exact Or.inl rfl
  | getReader i f =>
    simp only [step] at hs
    split at hs
    · cases hs; exact Or.inl (snapGetReader_cur _ _ _ _)
    · cases hs
  | loadFile i f =>
    simp only [step] at hs
    split at hs
    · cases hs; exact Or.inl (snapGetReader_cur _ _ _ _)
    · cases hs
  | sDec i =>
    simp only [step] at hs
    split at hs
    · cases hs; exact Or.inl rfl
    · cases hs
  | sRemove i =>
    simp only [step] at hs
    split at hs
    · split at hs
      · cases hs; exact Or.inl (snapRemove_cur _ _ _ _)
      · cases hs
    · cases hs
  | sRel i =>
    simp only [step] at hs
    split at hs
    · cases hs; exact Or.inl rfl
    · cases hs
  | cleanup fs =>
    simp only [step] at hs
    split at hs
    · cases hs; exact Or.inl rfl
    · cases hs
  | findErrRelease i fs =>
    simp only [step] at hs
    split at hs
    · cases hs; exact Or.inl rfl
    · cases hs
  | sDec2 i =>
    simp only [step] at hs
    split at hs
    · cases hs; exact Or.inl rfl
    · cases hs
  | getReaderNoRetain i f =>
    simp only [step] at hs
    split at hs
    · cases hs; exact Or.inl rfl
    · cases hs
  | env df dv =>
    simp only [step] at hs
    split at hs
    · cases hs; exact Or.inl rfl
    · cases hs

end LinVerif.Lemmas.C02
