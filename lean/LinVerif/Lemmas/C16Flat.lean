/-
C16 — helper lemmas: the stateful flat decoder (pooled RowBuilder, scratch slices) refines the
stateless `flatSpec`.
-/
import Mathlib.Tactic.SplitIfs
import LinVerif.Model.FlatRow
import LinVerif.Lemmas.C16Row

namespace LinVerif.Lemmas.C16
open LinVerif.Row LinVerif.FlatRow

/-! ### the loops of `rebuild` -/

theorem addRowTags_spec (l : Limits) : ∀ (tags : List Tag) (b : RB),
    (addRowTags l b tags).2 = firstTagErr l tags ∧
    (firstTagErr l tags = none →
      ∃ st, (addRowTags l b tags).1 = { b with kvs := b.kvs ++ tags, staleKvs := st })
  | [], b => by
    refine ⟨rfl, fun _ => ⟨b.staleKvs, ?_⟩⟩
    simp [addRowTags]
  | t :: rest, b => by
    simp only [addRowTags, firstTagErr, RB.addTag]
    split_ifs with h1 h2 h3
    · simp
    · simp
    · simp
    · have ih := addRowTags_spec l rest { b with kvs := b.kvs ++ [t], staleKvs := b.staleKvs.drop 1 }
      refine ⟨ih.1, fun h => ?_⟩
      obtain ⟨st, hst⟩ := ih.2 h
      exact ⟨st, by rw [hst]; simp⟩

theorem addEnriched_spec : ∀ (tags : List Tag) (b : RB),
    (addEnriched b tags).2 = firstEnrichedErr tags ∧
    (firstEnrichedErr tags = none →
      ∃ st, (addEnriched b tags).1 = { b with kvs := b.kvs ++ tags, staleKvs := st })
  | [], b => by
    refine ⟨rfl, fun _ => ⟨b.staleKvs, ?_⟩⟩
    simp [addEnriched]
  | t :: rest, b => by
    simp only [addEnriched, firstEnrichedErr, RB.addTag]
    split_ifs with h3
    · simp
    · have ih := addEnriched_spec rest { b with kvs := b.kvs ++ [t], staleKvs := b.staleKvs.drop 1 }
      refine ⟨ih.1, fun h => ?_⟩
      obtain ⟨st, hst⟩ := ih.2 h
      exact ⟨st, by rw [hst]; simp⟩

/-- the in-place rewrite of an accepted flat field -/
def sanF (f : SField) : SField := { f with name := sanitizeFieldName f.name }

theorem addFields_spec (l : Limits) : ∀ (fs : List SField) (b : RB),
    (addFields l b fs).2 = firstFieldErr l fs ∧
    (firstFieldErr l fs = none →
      ∃ st, (addFields l b fs).1 = { b with fields := b.fields ++ fs.map sanF, staleFields := st })
  | [], b => by
    refine ⟨rfl, fun _ => ⟨b.staleFields, ?_⟩⟩
    simp [addFields]
  | f :: rest, b => by
    simp only [addFields, firstFieldErr, RB.addSimpleField]
    split_ifs with h1
    · simp
    · cases he : simpleFieldErr f with
      | some e => simp
      | none =>
        have ih := addFields_spec l rest
          { b with fields := b.fields ++ [{ f with name := sanitizeFieldName f.name }],
                   staleFields := b.staleFields.drop 1 }
        refine ⟨ih.1, fun h => ?_⟩
        obtain ⟨st, hst⟩ := ih.2 h
        exact ⟨st, by rw [hst]; simp [sanF]⟩

/-! ### first half of `rebuild` -/

/-- error of the first half of `rebuild` -/
def errA (fc : FCfg) (r : FRow) : Option FErr :=
  if over fc.c.limits.maxTags (r.tags.length + fc.c.enriched.length) then some .tooManyTags
  else match firstTagErr fc.c.limits r.tags with
  | some e => some e
  | none =>
    match firstEnrichedErr fc.c.enriched with
    | some e => some e
    | none =>
      if over fc.c.limits.maxFields r.fields.length then some .tooManyFields
      else firstFieldErr fc.c.limits r.fields

/-- error of the second half of `rebuild` -/
def errB (fc : FCfg) (r : FRow) : Option FErr :=
  match compoundErr r.compound with
  | some e => some e
  | none =>
    if over fc.c.limits.maxName (blen r.name) then some .nameTooLong
    else if over fc.maxNs (blen (nsOf fc r)) then some .nsTooLong
    else none

theorem rebuildErr_eq (fc : FCfg) (r : FRow) :
    rebuildErr fc r = match errA fc r with
      | some e => some e
      | none => errB fc r := by
  simp only [rebuildErr, errA, errB]
  by_cases hT : over fc.c.limits.maxTags (r.tags.length + fc.c.enriched.length) = true
  · simp [hT]
  · simp only [if_neg hT]
    cases firstTagErr fc.c.limits r.tags with
    | some e => rfl
    | none =>
      simp only
      cases firstEnrichedErr fc.c.enriched with
      | some e => rfl
      | none =>
        simp only
        by_cases hF : over fc.c.limits.maxFields r.fields.length = true
        · simp [hF]
        · simp only [if_neg hF]
          cases firstFieldErr fc.c.limits r.fields with
          | some e => rfl
          | none => rfl

theorem rebuildA_spec (fc : FCfg) (b : RB) (r : FRow) :
    (rebuildA fc b r).2 = errA fc r ∧
    (errA fc r = none → ∃ sk sf, (rebuildA fc b r).1 =
      { b with kvs := b.kvs ++ r.tags ++ fc.c.enriched, staleKvs := sk,
               fields := b.fields ++ r.fields.map sanF, staleFields := sf }) := by
  simp only [errA, rebuildA]
  by_cases hT : over fc.c.limits.maxTags (r.tags.length + fc.c.enriched.length) = true
  · simp [hT]
  · simp only [if_neg hT]
    obtain ⟨t2, t1⟩ := addRowTags_spec fc.c.limits r.tags b
    rcases hA : addRowTags fc.c.limits b r.tags with ⟨b1, _ | e⟩
    · -- tag loop passed
      rw [hA] at t2 t1
      simp only at t2 t1
      rw [← t2]
      obtain ⟨st1, hb1⟩ := t1 t2.symm
      simp only
      obtain ⟨e2, e1⟩ := addEnriched_spec fc.c.enriched b1
      rcases hE : addEnriched b1 fc.c.enriched with ⟨b2, _ | e⟩
      · rw [hE] at e2 e1
        simp only at e2 e1
        rw [← e2]
        obtain ⟨st2, hb2⟩ := e1 e2.symm
        simp only
        by_cases hF : over fc.c.limits.maxFields r.fields.length = true
        · simp [hF]
        · simp only [if_neg hF]
          obtain ⟨f2, f1⟩ := addFields_spec fc.c.limits r.fields b2
          refine ⟨f2, fun h => ?_⟩
          obtain ⟨sf, hsf⟩ := f1 h
          refine ⟨st2, sf, ?_⟩
          rw [hsf, hb2, hb1]
      · rw [hE] at e2
        simp only at e2
        rw [← e2]
        simp
    · rw [hA] at t2
      simp only at t2
      rw [← t2]
      simp

/-! ### the compound part -/

theorem bucketsErr_none_ne_nil (vs bs : List F) (h : bucketsErr vs bs = none) : vs ≠ [] := by
  intro hv
  subst hv
  unfold bucketsErr at h
  split_ifs at h <;> (simp_all; try omega)

theorem addCompound_spec (b : RB) (c : Compound) :
    ((⟨b, [], []⟩ : Dec).addCompound c).2 = compoundErr (some c) ∧
    (compoundErr (some c) = none →
      ((⟨b, [], []⟩ : Dec).addCompound c).1.rb =
        { b with cvalues := (bucketsOf c).1, cbounds := (bucketsOf c).2,
                 cmin := c.min, cmax := c.max, csum := c.sum, ccount := c.count }) := by
  simp only [Dec.addCompound, compoundErr, bucketsOf, List.nil_append, RB.addCompoundData, RB.addMMSC]
  cases hb : bucketsErr (List.take (min c.bounds.length c.values.length) c.values)
      (List.take (min c.bounds.length c.values.length) c.bounds) with
  | some e => simp
  | none =>
    simp only
    split_ifs with hm
    · simp
    · simp

/-! ### second half of `rebuild`, on a decoder whose scratch slices are empty -/

/-- what `rebuildB` leaves in the builder when it succeeds -/
def afterB (fc : FCfg) (b : RB) (r : FRow) : RB :=
  match r.compound with
  | none => { b with name := sanitizeName r.name, ts := r.ts, ns := sanitizeName (nsOf fc r) }
  | some c =>
    { b with name := sanitizeName r.name, ts := r.ts, ns := sanitizeName (nsOf fc r),
             cvalues := (bucketsOf c).1, cbounds := (bucketsOf c).2,
             cmin := c.min, cmax := c.max, csum := c.sum, ccount := c.count }

theorem rebuildB_spec (fc : FCfg) (b : RB) (r : FRow) :
    (rebuildB fc ⟨b, [], []⟩ r).2 = errB fc r ∧
    (errB fc r = none → (rebuildB fc ⟨b, [], []⟩ r).1.rb = afterB fc b r) := by
  simp only [errB, rebuildB, afterB]
  cases hc : r.compound with
  | none =>
    simp only [compoundErr]
    by_cases h1 : over fc.c.limits.maxName (blen r.name) = true
    · simp [h1]
    · by_cases h2 : over fc.maxNs (blen (nsOf fc r)) = true
      · simp [h1, h2]
      · simp [h1, h2, RB.addMetricName, RB.addTimestamp, RB.addNameSpace]
  | some c =>
    simp only
    obtain ⟨c2, c1⟩ := addCompound_spec b c
    rcases hA : (⟨b, [], []⟩ : Dec).addCompound c with ⟨d2, _ | e⟩
    · rw [hA] at c2 c1
      simp only at c2 c1
      rw [← c2]
      have hrb := c1 c2.symm
      simp only
      by_cases h1 : over fc.c.limits.maxName (blen r.name) = true
      · simp [h1]
      · by_cases h2 : over fc.maxNs (blen (nsOf fc r)) = true
        · simp [h1, h2]
        · simp [h1, h2, RB.addMetricName, RB.addTimestamp, RB.addNameSpace, hrb]
    · rw [hA] at c2
      simp only at c2
      rw [← c2]
      simp

/-! ### DecodeTo -/

theorem compoundErr_none_cvalues (c : Compound) (h : compoundErr (some c) = none) : (bucketsOf c).1 ≠ [] := by
  simp only [compoundErr] at h
  cases hb : bucketsErr (bucketsOf c).1 (bucketsOf c).2 with
  | some e => simp [hb] at h
  | none => exact bucketsErr_none_ne_nil _ _ hb

theorem decode_snd (x : RB × Except FErr Stored) (d1 : Dec) :
    (match x with | (rb, res) => (({ d1 with rb := rb } : Dec), res)).2 = x.2 := by
  cases x; rfl

/-- **the refinement**: whatever state the pooled decoder and its builder are in, DecodeTo returns
what `flatSpec` says about the row -/
theorem decodeTo_result (fc : FCfg) (sortK : List Tag → List Tag) (H : String → Nat) (d : Dec) (r : FRow) :
    (decodeTo fc sortK H d r).2 = flatSpec fc sortK H r := by
  obtain ⟨a2, a1⟩ := rebuildA_spec fc d.rb.reset r
  simp only [decodeTo, rebuild, Dec.resetForNextDecode, flatSpec, rebuildErr_eq]
  rcases hA : rebuildA fc d.rb.reset r with ⟨b1, _ | e⟩
  · rw [hA] at a2 a1
    simp only at a2 a1
    rw [← a2]
    obtain ⟨sk, sf, hb1⟩ := a1 a2.symm
    simp only
    obtain ⟨b2, b1'⟩ := rebuildB_spec fc b1 r
    rcases hB : rebuildB fc ⟨b1, [], []⟩ r with ⟨d2, _ | e⟩
    · rw [hB] at b2 b1'
      simp only at b2 b1'
      rw [← b2]
      have hrb := b1' b2.symm
      simp only
      have hce : compoundErr r.compound = none := by
        unfold errB at b2
        cases hce : compoundErr r.compound with
        | some e => rw [hce] at b2; simp at b2
        | none => rfl
      cases hc : r.compound with
      | none =>
        have hrb' : d2.rb = { b1 with name := sanitizeName r.name, ts := r.ts, ns := sanitizeName (nsOf fc r) } := by
          rw [hrb]; simp [afterB, hc]
        simp only [RB.build, hrb', hb1, RB.reset, compoundOf, List.nil_append, List.isEmpty_nil, Bool.and_true,
          Option.isNone_none]
        split_ifs <;> simp_all [sanF]
      | some c =>
        have hne := compoundErr_none_cvalues c (hc ▸ hce)
        have hne' : (bucketsOf c).1.isEmpty = false := by
          cases hq : (bucketsOf c).1 with
          | nil => exact absurd hq hne
          | cons _ _ => rfl
        have hrb' : d2.rb = { b1 with name := sanitizeName r.name, ts := r.ts, ns := sanitizeName (nsOf fc r), cvalues := (bucketsOf c).1, cbounds := (bucketsOf c).2, cmin := c.min, cmax := c.max, csum := c.sum, ccount := c.count } := by
          rw [hrb]; simp [afterB, hc]
        simp only [RB.build, hrb', hb1, RB.reset, compoundOf, List.nil_append, hne', Bool.and_false,
          Option.isNone_some]
        split_ifs <;> simp_all [sanF]
    · rw [hB] at b2
      simp only at b2
      rw [← b2]
  · rw [hA] at a2
    simp only at a2
    rw [← a2]

/-- histories: a stream of rows through ONE decoder (whatever its state at the start) is decoded row by
row exactly as by `flatSpec` -/
theorem decodeStream_result (fc : FCfg) (sortK : List Tag → List Tag) (H : String → Nat) :
    ∀ (rows : List FRow) (d : Dec), (decodeStream fc sortK H d rows).2 = rows.map (flatSpec fc sortK H)
  | [], d => rfl
  | r :: rest, d => by
    simp only [decodeStream, List.map_cons]
    rw [← decodeTo_result fc sortK H d r, ← decodeStream_result fc sortK H rest (decodeTo fc sortK H d r).1]

/-! ### `flatDedup` is `dedupRuns` of the key-ordered list -/

theorem dedupRuns_of_no_adjDup : ∀ (s : List Tag), hasAdjDup s = false → dedupRuns s = s
  | [], _ => rfl
  | [_], _ => rfl
  | a :: b :: rest, h => by
    simp only [hasAdjDup, Bool.or_eq_false_iff, beq_eq_false_iff_ne, ne_eq] at h
    simp only [dedupRuns, h.1, if_false]
    rw [dedupRuns_of_no_adjDup (b :: rest) h.2]

theorem flatDedup_eq (sortK : List Tag → List Tag) (kvs : List Tag) :
    flatDedup sortK kvs =
      if kvs.length < 2 then kvs else dedupRuns (if isSortedBy (less false) kvs then kvs else sortK kvs) := by
  simp only [flatDedup]
  by_cases h1 : kvs.length < 2
  · simp [h1]
  · simp only [if_neg h1]
    generalize (if isSortedBy (less false) kvs = true then kvs else sortK kvs) = s
    by_cases h3 : hasAdjDup s = true
    · simp [h3]
    · simp only [if_neg h3]
      exact (dedupRuns_of_no_adjDup s (by simpa using h3)).symm

end LinVerif.Lemmas.C16
