/-
C09, lookup ‖ flush: a name that exists is found by every later call, whatever else runs — other
callers (creating, in ANY variant of createValue, so also with the current code), PrepareFlush and the
two steps of Flush — PROVIDED the memory maps are consulted before the persisted bucket: entries move
from memory to the kv family, and the caller looks in the same direction.
Key-level facts only (`Has`), because with the current createValue one name may have several ids.
-/
import LinVerif.Lemmas.C09Kv

namespace LinVerif.IdAssign

def Has (d : Dict) (b n : Nat) : Prop := ∃ i, d b n = some i

/-- a step function that leaves the store alone or inserts one entry into the mutable map -/
def Inserting (f : KFun) : Prop :=
  ∀ s c t, (f s c t).1 = s ∨ ∃ b n j, (f s c t).1 = s.insert b n j

theorem kstep_inserting (v : KvVariant) : Inserting (kstep v) := by
  intro s c t
  unfold kstep
  cases t.pc with
  | start => simp only []; split <;> exact Or.inl rfl
  | afterMem q => simp only []; split <;> exact Or.inl rfl
  | afterDisk q =>
    simp only []
    cases v with
    | noRecheck => exact Or.inr ⟨_, _, _, rfl⟩
    | recheckMem => simp only []; split; exact Or.inl rfl; exact Or.inr ⟨_, _, _, rfl⟩
    | recheckFull =>
      simp only []
      split
      · exact Or.inl rfl
      · split
        · exact Or.inr ⟨_, _, _, rfl⟩
        · exact Or.inl rfl
    | recheckLocked =>
      simp only []
      split
      · exact Or.inl rfl
      · split
        · exact Or.inl rfl
        · exact Or.inr ⟨_, _, _, rfl⟩
    | recheckLockedCached =>
      simp only []
      split
      · exact Or.inl rfl
      · split
        · exact Or.inl rfl
        · exact Or.inr ⟨_, _, _, rfl⟩
  | done i => exact Or.inl rfl

/-- a step never changes which name the caller asks for -/
theorem kstep_key (v : KvVariant) (s : KvStore) (c : Nat) (t : KThread) :
    (kstep v s c t).2.2.bucket = t.bucket ∧ (kstep v s c t).2.2.name = t.name := by
  unfold kstep
  repeat' split
  all_goals exact ⟨rfl, rfl⟩

/-- structure of the store that every variant keeps -/
structure KWf (s : KSys) : Prop where
  snapSub : ∀ b n, Has s.store.snap b n → Has s.store.disk b n
  diskSub : ∀ b n, Has s.store.disk b n → Has s.store.snap b n ∨ Has s.store.immDict b n
  comm : s.committed = true → s.store.needFlush = true ∧ ∀ b n, Has s.store.immDict b n → Has s.store.disk b n
  mutE : s.store.mutEmpty = true → ∀ b n, s.store.mutable b n = none
  immE : ∀ d, s.store.immutable = some (d, true) → ∀ b n, d b n = none

/-- the name (b, n) is somewhere in the store -/
def KvStore.Owned (st : KvStore) (b n : Nat) : Prop := Has st.mutable b n ∨ Has st.immDict b n ∨ Has st.disk b n

theorem kwf_start {s : KSys} (h : KStart s) : KWf s := by
  have him : s.store.immDict = Dict.empty := by simp [KvStore.immDict, h.immNil]
  refine ⟨?_, ?_, ?_, fun _ => h.mutEmpty, fun d hd => by rw [h.immNil] at hd; cases hd⟩
  · intro b n hh; rw [h.snapDisk] at hh; exact hh
  · intro b n hh; left; rw [h.snapDisk]; exact hh
  · intro hc; rw [h.idle] at hc; cases hc

theorem owned_insert {st : KvStore} {b n : Nat} (h : st.Owned b n) (b' n' j : Nat) : (st.insert b' n' j).Owned b n := by
  rcases h with ⟨i, h⟩ | h | h
  · left
    by_cases hk : b = b' ∧ n = n'
    · exact ⟨j, by show (st.mutable.set b' n' j) b n = some j; simp [Dict.set, hk]⟩
    · exact ⟨i, by show (st.mutable.set b' n' j) b n = some i; simp [Dict.set, hk, h]⟩
  · exact Or.inr (Or.inl h)
  · exact Or.inr (Or.inr h)

/-- forgetting an empty immutable map, then `PrepareFlush` -/
theorem immDict_dropEmpty {st : KvStore} (hE : ∀ d, st.immutable = some (d, true) → ∀ b n, d b n = none) (b n : Nat) :
    st.dropEmpty.immDict b n = st.immDict b n := by
  unfold KvStore.dropEmpty
  cases him : st.immutable with
  | none => rfl
  | some p =>
    obtain ⟨d, e⟩ := p
    cases e with
    | false => rfl
    | true => simp [KvStore.immDict, him, Dict.empty, hE d him b n]

theorem dropEmpty_fields (st : KvStore) :
    st.dropEmpty.mutable = st.mutable ∧ st.dropEmpty.mutEmpty = st.mutEmpty ∧ st.dropEmpty.disk = st.disk ∧
    st.dropEmpty.snap = st.snap ∧ st.dropEmpty.flushSeq = st.flushSeq := by
  unfold KvStore.dropEmpty
  cases st.immutable with
  | none => exact ⟨rfl, rfl, rfl, rfl, rfl⟩
  | some p => obtain ⟨d, e⟩ := p; cases e <;> exact ⟨rfl, rfl, rfl, rfl, rfl⟩

theorem dropEmpty_needFlush (st : KvStore) : st.dropEmpty.needFlush = st.needFlush := by
  cases him : st.immutable with
  | none => simp [KvStore.dropEmpty, KvStore.needFlush, him]
  | some p => obtain ⟨d, e⟩ := p; cases e <;> simp [KvStore.dropEmpty, KvStore.needFlush, him]

theorem dropEmpty_immE (st : KvStore) : ∀ d, st.dropEmpty.immutable = some (d, true) → False := by
  intro d hd
  unfold KvStore.dropEmpty at hd
  cases him : st.immutable with
  | none => simp [him] at hd
  | some p => obtain ⟨d0, e⟩ := p; cases e <;> simp [him] at hd

/-- key-level effect of `prepareFlush` (old shape) -/
theorem prepare_keys (st : KvStore) (hm : st.mutEmpty = true → ∀ b n, st.mutable b n = none) :
    (∀ b n, st.prepareFlush.Owned b n ↔ st.Owned b n) ∧ st.prepareFlush.snap = st.snap ∧ st.prepareFlush.disk = st.disk ∧
    (∀ b n, Has st.immDict b n → Has st.prepareFlush.immDict b n) ∧
    (st.prepareFlush.needFlush = true → st.needFlush = true ∨ st.immutable = none) ∧
    (st.prepareFlush.mutEmpty = true → ∀ b n, st.prepareFlush.mutable b n = none) ∧
    (∀ d, st.prepareFlush.immutable = some (d, true) → (st.immutable = some (d, true)) ∨ (∀ b n, d b n = none)) := by
  cases him : st.immutable with
  | some p =>
    have e : st.prepareFlush = st := by simp [KvStore.prepareFlush, him]
    rw [e]
    exact ⟨fun _ _ => Iff.rfl, rfl, rfl, fun _ _ h => h, fun h => Or.inl h, hm, fun d hd => Or.inl (by rw [him] at hd; exact hd)⟩
  | none =>
    have h1 : st.prepareFlush.immDict = st.mutable := by simp [KvStore.prepareFlush, him, KvStore.immDict]
    have h2 : st.prepareFlush.mutable = Dict.empty := by simp [KvStore.prepareFlush, him]
    have h3 : st.prepareFlush.disk = st.disk := by simp [KvStore.prepareFlush, him]
    have h4 : st.prepareFlush.snap = st.snap := by simp [KvStore.prepareFlush, him]
    have h0 : st.immDict = Dict.empty := by simp [KvStore.immDict, him]
    refine ⟨?_, h4, h3, ?_, fun _ => Or.inr rfl, ?_, ?_⟩
    · intro b n
      unfold KvStore.Owned Has
      rw [h1, h2, h3, h0]
      simp [Dict.empty]
    · intro b n h; rw [h0] at h; obtain ⟨i, hi⟩ := h; simp [Dict.empty] at hi
    · intro _ b n; rw [h2]; rfl
    · intro d hd
      simp [KvStore.prepareFlush, him] at hd
      right; intro b n; rw [← hd.1]; exact hm hd.2 b n

theorem kwf_prepareE {s : KSys} (wf : KWf s) (se : Bool) : KWf { s with store := s.store.prepareFlushE se } := by
  -- first the (optional) dropEmpty, then the old prepare
  have wfD : KWf { s with store := s.store.dropEmpty } := by
    obtain ⟨f1, f2, f3, f4, f5⟩ := dropEmpty_fields s.store
    refine ⟨?_, ?_, ?_, ?_, ?_⟩
    · intro b n h; show Has s.store.dropEmpty.disk b n; rw [f3]; apply wf.snapSub
      have : Has s.store.dropEmpty.snap b n := h
      rw [f4] at this; exact this
    · intro b n h
      have h' : Has s.store.dropEmpty.disk b n := h
      rw [f3] at h'
      rcases wf.diskSub b n h' with g | g
      · left; show Has s.store.dropEmpty.snap b n; rw [f4]; exact g
      · right; obtain ⟨i, hi⟩ := g; exact ⟨i, by show s.store.dropEmpty.immDict b n = some i; rw [immDict_dropEmpty wf.immE]; exact hi⟩
    · intro hc
      obtain ⟨a, b⟩ := wf.comm hc
      refine ⟨by show s.store.dropEmpty.needFlush = true; rw [dropEmpty_needFlush]; exact a, ?_⟩
      intro b' n' h
      show Has s.store.dropEmpty.disk b' n'
      rw [f3]; apply b
      obtain ⟨i, hi⟩ := h
      exact ⟨i, by have : s.store.dropEmpty.immDict b' n' = some i := hi; rw [immDict_dropEmpty wf.immE] at this; exact this⟩
    · intro hm b n
      have hm' : s.store.dropEmpty.mutEmpty = true := hm
      rw [f2] at hm'
      show s.store.dropEmpty.mutable b n = none
      rw [f1]; exact wf.mutE hm' b n
    · intro d hd; exact absurd (dropEmpty_immE s.store d hd) id
  have step : ∀ s : KSys, KWf s → KWf { s with store := s.store.prepareFlush } := by
    intro s wf
    obtain ⟨_, ps, pd, pi, pn, pm, pe⟩ := prepare_keys s.store wf.mutE
    refine ⟨?_, ?_, ?_, pm, ?_⟩
    · intro b n h; show Has s.store.prepareFlush.disk b n; rw [pd]; apply wf.snapSub
      have : Has s.store.prepareFlush.snap b n := h
      rw [ps] at this; exact this
    · intro b n h
      have h' : Has s.store.prepareFlush.disk b n := h
      rw [pd] at h'
      rcases wf.diskSub b n h' with g | g
      · left; show Has s.store.prepareFlush.snap b n; rw [ps]; exact g
      · right; exact pi b n g
    · intro hc
      obtain ⟨a, b⟩ := wf.comm hc
      obtain ⟨d, hd⟩ := needFlush_imm a
      have e : s.store.prepareFlush = s.store := by simp [KvStore.prepareFlush, hd]
      show s.store.prepareFlush.needFlush = true ∧ ∀ b n, Has s.store.prepareFlush.immDict b n → Has s.store.prepareFlush.disk b n
      rw [e]; exact ⟨a, b⟩
    · intro d hd
      rcases pe d hd with g | g
      · exact wf.immE d g
      · exact g
  unfold KvStore.prepareFlushE
  cases se with
  | false => simpa using step s wf
  | true => simpa using step _ wfD

theorem kwf_commit {s : KSys} (wf : KWf s) (h2 : s.store.needFlush = true) :
    KWf { s with store := s.store.commit, committed := true } := by
  obtain ⟨d, hd⟩ := needFlush_imm h2
  have him : s.store.immDict = d := by simp [KvStore.immDict, hd]
  have hc : s.store.commit = { s.store with disk := d.over s.store.disk } := by simp [KvStore.commit, hd]
  have hdisk : ∀ b n, Has s.store.commit.disk b n ↔ Has d b n ∨ Has s.store.disk b n := by
    intro b n
    rw [hc]
    show Has (d.over s.store.disk) b n ↔ _
    unfold Has Dict.over
    cases hdb : d b n with
    | some j => simp
    | none => simp
  have himm' : s.store.commit.immDict = d := by rw [hc]; simp [KvStore.immDict, hd]
  have hsnap' : s.store.commit.snap = s.store.snap := by rw [hc]
  refine ⟨?_, ?_, ?_, ?_, ?_⟩
  · intro b n h
    show Has s.store.commit.disk b n
    rw [hdisk]; right; apply wf.snapSub
    have : Has s.store.commit.snap b n := h
    rw [hsnap'] at this; exact this
  · intro b n h
    have h' : Has s.store.commit.disk b n := h
    rw [hdisk] at h'
    rcases h' with g | g
    · right; show Has s.store.commit.immDict b n; rw [himm']; exact g
    · rcases wf.diskSub b n g with g' | g'
      · left; show Has s.store.commit.snap b n; rw [hsnap']; exact g'
      · right; show Has s.store.commit.immDict b n; rw [himm', ← him]; exact g'
  · intro _
    refine ⟨by show s.store.commit.needFlush = true; rw [hc]; simp [KvStore.needFlush, hd], ?_⟩
    intro b n h
    have h' : Has s.store.commit.immDict b n := h
    rw [himm'] at h'
    show Has s.store.commit.disk b n
    rw [hdisk]; exact Or.inl h'
  · intro hm b n
    have hm' : s.store.commit.mutEmpty = true := hm
    rw [hc] at hm'
    show s.store.commit.mutable b n = none
    rw [hc]; exact wf.mutE hm' b n
  · intro d' hd'
    have h' : s.store.commit.immutable = some (d', true) := hd'
    rw [hc] at h'; exact wf.immE d' h'

theorem kwf_finish {s : KSys} (wf : KWf s) (h : s.committed = true) :
    KWf { s with store := s.store.finish, committed := false } := by
  obtain ⟨hnf, hsub⟩ := wf.comm h
  obtain ⟨d, hd⟩ := needFlush_imm hnf
  have hf : s.store.finish = { s.store with snap := s.store.disk, immutable := none, flushSeq := s.store.flushSeq + 1 } := by
    simp [KvStore.finish, hd]
  refine ⟨?_, ?_, ?_, ?_, ?_⟩
  · intro b n hh; have : Has s.store.finish.snap b n := hh; rw [hf] at this; show Has s.store.finish.disk b n; rw [hf]; exact this
  · intro b n hh; have : Has s.store.finish.disk b n := hh; rw [hf] at this; left; show Has s.store.finish.snap b n; rw [hf]; exact this
  · intro hc; cases hc
  · intro hm b n
    have hm' : s.store.finish.mutEmpty = true := hm
    rw [hf] at hm'
    show s.store.finish.mutable b n = none
    rw [hf]; exact wf.mutE hm' b n
  · intro d' hd'
    have h' : s.store.finish.immutable = some (d', true) := hd'
    rw [hf] at h'; cases h'

theorem kwf_insert {s : KSys} (wf : KWf s) (b n j c : Nat) (ts : List KThread) :
    KWf { s with store := s.store.insert b n j, ctr := c, threads := ts } :=
  ⟨wf.snapSub, wf.diskSub, wf.comm, fun h => absurd h (by simp [KvStore.insert]), wf.immE⟩

theorem kwf_step {f : KFun} (hf : Inserting f) {s s' : KSys} (wf : KWf s) (st : KStepG f s s') : KWf s' := by
  cases st with
  | call b n => exact ⟨wf.snapSub, wf.diskSub, wf.comm, wf.mutE, wf.immE⟩
  | thread i t h =>
    rcases hf s.store s.ctr t with e | ⟨b, n, j, e⟩
    · simp only [e]; exact ⟨wf.snapSub, wf.diskSub, wf.comm, wf.mutE, wf.immE⟩
    · simp only [e]; exact kwf_insert wf b n j _ _
  | prepare se => exact kwf_prepareE wf se
  | commit h1 h2 => exact kwf_commit wf h2
  | finish h => exact kwf_finish wf h

theorem kwf_reach {f : KFun} (hf : Inserting f) {s0 s : KSys} (h0 : KWf s0) (r : KReachG f s0 s) : KWf s := by
  induction r with
  | init => exact h0
  | step _ st ih => exact kwf_step hf ih st

/-! ### the callers that begin after the name exists -/

/-- what a caller for (b, n) that began after the name existed knows (memory maps first) -/
def LateOk (st : KvStore) (b n : Nat) (t : KThread) : Prop :=
  match t.pc with
  | .start => True
  | .afterMem _ => Has st.snap b n
  | .afterDisk _ => False
  | .done _ => True

structure KFInv (b n L : Nat) (s : KSys) : Prop where
  wf : KWf s
  owned : s.store.Owned b n
  len : L ≤ s.threads.length
  thr : ∀ k t, L ≤ k → s.threads[k]? = some t → t.bucket = b → t.name = n → LateOk s.store b n t

theorem lateOk_congr {st st' : KvStore} {b n : Nat} {t : KThread} (h : LateOk st b n t)
    (hs : Has st.snap b n → Has st'.snap b n) : LateOk st' b n t := by
  unfold LateOk at *
  cases hpc : t.pc with
  | start => simp
  | afterMem q => rw [hpc] at h; exact hs h
  | afterDisk q => rw [hpc] at h; exact h
  | done i => simp

theorem getElem?_set_cases {α : Type} {l : List α} {i k : Nat} {a x : α} (h : (l.set i a)[k]? = some x) :
    (k = i ∧ x = a) ∨ l[k]? = some x := by
  by_cases hk : i = k
  · subst hk
    by_cases hl : i < l.length
    · simp [List.getElem?_set, hl] at h; exact Or.inl ⟨rfl, h.symm⟩
    · simp [List.getElem?_set, hl] at h
  · rw [List.getElem?_set_ne hk] at h; exact Or.inr h

/-- one step of a caller of the mem-first order (any variant) -/
theorem kfinv_thread (v : KvVariant) {b n L : Nat} {s : KSys} (inv : KFInv b n L s) {i : Nat} {t : KThread}
    (ht : s.threads[i]? = some t) :
    KFInv b n L { s with store := (kstep v s.store s.ctr t).1, ctr := (kstep v s.store s.ctr t).2.1,
                         threads := s.threads.set i (kstep v s.store s.ctr t).2.2 } := by
  have hsnap : (kstep v s.store s.ctr t).1.snap = s.store.snap := by
    rcases kstep_inserting v s.store s.ctr t with e | ⟨b', n', j, e⟩ <;> rw [e] <;> rfl
  have hown : (kstep v s.store s.ctr t).1.Owned b n := by
    rcases kstep_inserting v s.store s.ctr t with e | ⟨b', n', j, e⟩
    · rw [e]; exact inv.owned
    · rw [e]; exact owned_insert inv.owned _ _ _
  have hwf := kwf_step (kstep_inserting v) inv.wf (.thread s i t ht)
  refine ⟨hwf, hown, by simpa using inv.len, ?_⟩
  intro k x hk hx hb hn
  have hx' : (s.threads.set i (kstep v s.store s.ctr t).2.2)[k]? = some x := hx
  rcases getElem?_set_cases hx' with ⟨rfl, rfl⟩ | hold
  · -- the stepping caller itself
    have hbk := kstep_key v s.store s.ctr t
    have tb : t.bucket = b := by rw [← hbk.1]; exact hb
    have tn : t.name = n := by rw [← hbk.2]; exact hn
    have told := inv.thr k t hk ht tb tn
    unfold LateOk at told ⊢
    unfold kstep
    cases hpc : t.pc with
    | start =>
      simp only []
      cases hl : s.store.lookupMem t.bucket t.name with
      | some j => simp
      | none =>
        simp only []
        -- the name is owned, not in memory: it is in the kv family, hence in the snapshot
        obtain ⟨hm, him⟩ := lookupMem_none hl
        rw [tb, tn] at hm him
        show Has s.store.snap b n
        rcases inv.owned with ⟨j, hj⟩ | ⟨j, hj⟩ | hd
        · rw [hm] at hj; cases hj
        · rw [him] at hj; cases hj
        · rcases inv.wf.diskSub b n hd with g | ⟨j, hj⟩
          · exact g
          · rw [him] at hj; cases hj
    | afterMem q =>
      rw [hpc] at told
      simp only []
      obtain ⟨j, hj⟩ := told
      have : s.store.lookupPersisted t.bucket t.name = some j := by rw [tb, tn]; exact hj
      rw [this]; simp
    | afterDisk q => rw [hpc] at told; exact absurd told id
    | done j => exact told
  · exact lateOk_congr (inv.thr k x hk hold hb hn) (fun h => by rw [hsnap]; exact h)

theorem owned_of_keys {st st' : KvStore} {b n : Nat} (h : st.Owned b n)
    (h1 : Has st.mutable b n → st'.Owned b n) (h2 : Has st.immDict b n → st'.Owned b n) (h3 : Has st.disk b n → st'.Owned b n) :
    st'.Owned b n := by
  rcases h with g | g | g
  · exact h1 g
  · exact h2 g
  · exact h3 g

theorem kfinv_step (v : KvVariant) {b n L : Nat} {s s' : KSys} (inv : KFInv b n L s) (st : KStep v s s') :
    KFInv b n L s' := by
  have hwf := kwf_step (kstep_inserting v) inv.wf st
  cases st with
  | call b' n' =>
    refine ⟨hwf, inv.owned, by simp; exact Nat.le_succ_of_le inv.len, ?_⟩
    intro k x hk hx hb hn
    have hx' : (s.threads ++ [{ bucket := b', name := n' }])[k]? = some x := hx
    by_cases hlt : k < s.threads.length
    · rw [List.getElem?_append_left hlt] at hx'; exact inv.thr k x hk hx' hb hn
    · rw [List.getElem?_append_right (by omega)] at hx'
      have : x = { bucket := b', name := n' } := by
        cases hkk : k - s.threads.length with
        | zero => rw [hkk] at hx'; simpa using hx'.symm
        | succ m => rw [hkk] at hx'; simp at hx'
      subst this; simp [LateOk]
  | thread i t h => exact kfinv_thread v inv h
  | prepare se =>
    -- keys stay where they are or move from the mutable to the immutable map
    have keys : ∀ st : KvStore, (st.mutEmpty = true → ∀ b n, st.mutable b n = none) → st.Owned b n → st.prepareFlush.Owned b n :=
      fun st hm h => ((prepare_keys st hm).1 b n).2 h
    have hsnapP : ∀ st : KvStore, st.prepareFlush.snap = st.snap := by
      intro st; cases hi : st.immutable <;> simp [KvStore.prepareFlush, hi]
    have ownedD : s.store.dropEmpty.Owned b n := by
      obtain ⟨f1, _, f3, _, _⟩ := dropEmpty_fields s.store
      rcases inv.owned with g | ⟨j, hj⟩ | g
      · left; rw [f1]; exact g
      · right; left; exact ⟨j, by rw [immDict_dropEmpty inv.wf.immE]; exact hj⟩
      · right; right; rw [f3]; exact g
    have hmD : s.store.dropEmpty.mutEmpty = true → ∀ b n, s.store.dropEmpty.mutable b n = none := by
      obtain ⟨f1, f2, _, _, _⟩ := dropEmpty_fields s.store
      intro hm b n; rw [f1]; rw [f2] at hm; exact inv.wf.mutE hm b n
    have hsnap : (s.store.prepareFlushE se).snap = s.store.snap := by
      unfold KvStore.prepareFlushE
      cases se with
      | false => simp [hsnapP]
      | true => simp [hsnapP, (dropEmpty_fields s.store).2.2.2.1]
    refine ⟨hwf, ?_, inv.len, ?_⟩
    · show (s.store.prepareFlushE se).Owned b n
      unfold KvStore.prepareFlushE
      cases se with
      | false => simpa using keys _ inv.wf.mutE inv.owned
      | true => simpa using keys _ hmD ownedD
    · intro k x hk hx hb hn
      exact lateOk_congr (inv.thr k x hk hx hb hn) (fun h => by rw [hsnap]; exact h)
  | commit h1 h2 =>
    obtain ⟨d, hd⟩ := needFlush_imm h2
    have hc : s.store.commit = { s.store with disk := d.over s.store.disk } := by simp [KvStore.commit, hd]
    refine ⟨hwf, ?_, inv.len, ?_⟩
    · show s.store.commit.Owned b n
      rcases inv.owned with g | g | ⟨j, hj⟩
      · left; rw [hc]; exact g
      · right; left; rw [hc]; exact g
      · right; right; rw [hc]
        show Has (d.over s.store.disk) b n
        unfold Has Dict.over
        cases d b n with
        | some q => exact ⟨q, rfl⟩
        | none => exact ⟨j, hj⟩
    · intro k x hk hx hb hn
      exact lateOk_congr (inv.thr k x hk hx hb hn) (fun h => by rw [hc]; exact h)
  | finish h =>
    obtain ⟨hnf, hsub⟩ := inv.wf.comm h
    obtain ⟨d, hd⟩ := needFlush_imm hnf
    have hf : s.store.finish = { s.store with snap := s.store.disk, immutable := none, flushSeq := s.store.flushSeq + 1 } := by
      simp [KvStore.finish, hd]
    refine ⟨hwf, ?_, inv.len, ?_⟩
    · show s.store.finish.Owned b n
      rcases inv.owned with g | g | g
      · left; rw [hf]; exact g
      · right; right; rw [hf]; exact hsub b n g
      · right; right; rw [hf]; exact g
    · intro k x hk hx hb hn
      exact lateOk_congr (inv.thr k x hk hx hb hn) (fun h => by rw [hf]; exact inv.wf.snapSub b n h)

/-- **lookup ‖ flush**: once (b, n) is in the store (state `s1`), no call for (b, n) that begins later
ever decides to create it — in every variant of createValue, under every interleaving with other
callers, PrepareFlush and Flush — when the memory maps are looked at before the persisted bucket -/
theorem late_callers_find (v : KvVariant) {s0 s1 s : KSys} (h0 : KStart s0) (r1 : KReach v s0 s1) {b n : Nat}
    (hown : s1.store.Owned b n) (r : KReach v s1 s) :
    ∀ k t, s1.threads.length ≤ k → s.threads[k]? = some t → t.bucket = b → t.name = n → ∀ q, t.pc ≠ .afterDisk q := by
  have wf1 : KWf s1 := kwf_reach (kstep_inserting v) (kwf_start h0) r1
  have inv : KFInv b n s1.threads.length s := by
    induction r with
    | init =>
      refine ⟨wf1, hown, Nat.le_refl _, ?_⟩
      intro k t hk ht _ _
      have : s1.threads[k]? = none := List.getElem?_eq_none (by omega)
      rw [this] at ht; cases ht
    | step _ st ih => exact kfinv_step v ih st
  intro k t hk ht hb hn q hpc
  have := inv.thr k t hk ht hb hn
  unfold LateOk at this
  rw [hpc] at this
  exact this

end LinVerif.IdAssign
