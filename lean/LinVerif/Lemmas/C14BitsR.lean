/-
The bit reader refines "take from the front of a `List Bool`" (vocabulary: Lemmas/C14Bits.lean).
-/
import LinVerif.Lemmas.C14Bits

namespace LinVerif.Bits
open LinVerif.Varint (two64)

/-- the abstract stream still to be read -/
def Reader.rest (r : Reader) : List Bool :=
  natBits r.count (r.b >>> (8 - r.count)) ++ bytesBits (r.buf.drop r.idx)

/-- representation invariant of the reader between two calls -/
structure Reader.Ok (r : Reader) : Prop where
  le : r.count ≤ 7
  lt : r.b < 256
  low : ∀ i, i < 8 - r.count → r.count ≠ 0 → r.b.testBit i = false
  noerr : r.err = false
  bytes : ∀ x ∈ r.buf, x < 256

theorem and128 : ∀ x, x < 256 → (x &&& 128 != 0) = x.testBit 7 := by decide +kernel

theorem drop_cons_of_bits_ne_nil {buf : List Nat} {idx : Nat} (h : bytesBits (buf.drop idx) ≠ []) :
    ∃ (hlt : idx < buf.length), buf.drop idx = buf[idx] :: buf.drop (idx + 1) := by
  have hlt : idx < buf.length := by
    apply Classical.byContradiction
    intro hn
    have : buf.drop idx = [] := List.drop_eq_nil_of_le (by omega)
    rw [this] at h
    exact h rfl
  exact ⟨hlt, List.drop_eq_getElem_cons hlt⟩

theorem shl1_bits (x k : Nat) (hk : k ≤ 7) :
    natBits k (((x <<< 1) % 256) >>> (8 - k)) = natBits k (x >>> (7 - k)) := by
  apply natBits_congr
  intro i hi
  have e : (256:Nat) = 2 ^ 8 := by decide
  simp only [e, Nat.testBit_shiftRight, Nat.testBit_mod_two_pow, Nat.testBit_shiftLeft]
  have h1 : 8 - k + i < 8 := by omega
  have h2 : 8 - k + i ≥ 1 := by omega
  simp only [h1, h2, decide_true, Bool.true_and]
  congr 1; omega

theorem shl1_low (x k : Nat) (hlow : ∀ i, i < 7 - k → x.testBit i = false) :
    ∀ i, i < 8 - k → ((x <<< 1) % 256).testBit i = false := by
  intro i hi
  have e : (256:Nat) = 2 ^ 8 := by decide
  simp only [e, Nat.testBit_mod_two_pow, Nat.testBit_shiftLeft]
  by_cases h1 : i ≥ 1
  · have := hlow (i - 1) (by omega)
    simp [this]
  · simp [h1]

theorem Reader.readBit_spec (r : Reader) (h : r.Ok) (bit : Bool) (t : List Bool) (hr : r.rest = bit :: t) :
    ∃ r', r.readBit = (bit, false, r') ∧ r'.Ok ∧ r'.rest = t ∧ r'.buf = r.buf := by
  obtain ⟨hle, hlt, hlow, hne, hbytes⟩ := h
  by_cases hc : r.count = 0
  · -- a new byte is fetched
    have hr' : bytesBits (r.buf.drop r.idx) = bit :: t := by
      simpa [Reader.rest, hc, natBits] using hr
    obtain ⟨hidx, hd⟩ := drop_cons_of_bits_ne_nil (by rw [hr']; simp)
    have hx : r.buf[r.idx] < 256 := hbytes _ (List.getElem_mem hidx)
    rw [hd, bytesBits_cons] at hr'
    have hsplit : natBits 8 r.buf[r.idx] = r.buf[r.idx].testBit 7 :: natBits 7 r.buf[r.idx] := rfl
    rw [hsplit, List.cons_append] at hr'
    injection hr' with hb ht
    have hget : r.buf[r.idx]? = some r.buf[r.idx] := List.getElem?_eq_getElem hidx
    refine ⟨{ r with b := (r.buf[r.idx] <<< 1) % 256, idx := r.idx + 1, err := false, count := 7 }, ?_, ?_, ?_, rfl⟩
    · simp only [Reader.readBit, Reader.getByte, hc, hget, if_true]
      rw [and128 _ hx, hb]
    · refine ⟨by simp, Nat.mod_lt _ (by decide), ?_, rfl, hbytes⟩
      intro i hi _
      exact shl1_low _ 7 (by intro j hj; omega) i hi
    · simp only [Reader.rest]
      rw [shl1_bits _ 7 (by omega), ← ht]
      simp
  · obtain ⟨k, hk⟩ : ∃ k, r.count = k + 1 := ⟨r.count - 1, by omega⟩
    have hr' := hr
    simp only [Reader.rest, hk, natBits, List.cons_append] at hr'
    injection hr' with hb ht
    have e8 : 8 - (k + 1) = 7 - k := by omega
    rw [e8] at hb ht
    refine ⟨{ r with b := (r.b <<< 1) % 256, count := k }, ?_, ?_, ?_, rfl⟩
    · simp only [Reader.readBit, hk, Nat.add_one_ne_zero, ↓reduceIte, Nat.add_sub_cancel]
      have e7 : 7 - k + k = 7 := by omega
      rw [and128 _ hlt, ← hb, Nat.testBit_shiftRight, hne, e7]
    · refine ⟨by simp; omega, Nat.mod_lt _ (by decide), ?_, hne, hbytes⟩
      intro i hi _
      refine shl1_low _ k ?_ i hi
      intro j hj
      exact hlow j (by omega) hc
    · simp only [Reader.rest]
      rw [shl1_bits _ k (by omega), ← ht]

theorem Reader.readByte_spec (r : Reader) (h : r.Ok) (l t : List Bool) (hl : l.length = 8) (hr : r.rest = l ++ t) :
    ∃ r', r.readByte = (bitsVal l, false, r') ∧ r'.Ok ∧ r'.rest = t ∧ r'.buf = r.buf := by
  obtain ⟨hle, hlt, hlow, hne, hbytes⟩ := h
  by_cases hc : r.count = 0
  · have hr' : bytesBits (r.buf.drop r.idx) = l ++ t := by
      simpa [Reader.rest, hc, natBits] using hr
    obtain ⟨hidx, hd⟩ := drop_cons_of_bits_ne_nil (by
      rw [hr']; intro hn
      have := congrArg List.length hn
      simp [hl] at this)
    have hx : r.buf[r.idx] < 256 := hbytes _ (List.getElem_mem hidx)
    rw [hd, bytesBits_cons] at hr'
    obtain ⟨h1, h2⟩ := List.append_inj hr' (by simp [hl])
    have hget : r.buf[r.idx]? = some r.buf[r.idx] := List.getElem?_eq_getElem hidx
    refine ⟨{ r with b := r.buf[r.idx], idx := r.idx + 1, err := false }, ?_, ?_, ?_, rfl⟩
    · simp only [Reader.readByte, Reader.getByte, hc, hget, if_true]
      rw [← h1, bitsVal_natBits]
      have : r.buf[r.idx] % 2 ^ 8 = r.buf[r.idx] := Nat.mod_eq_of_lt (by simpa using hx)
      rw [this]
    · exact ⟨by simp [hc], hx, by intro i _ hcc; exact absurd hc hcc, rfl, hbytes⟩
    · simp [Reader.rest, hc, natBits, h2]
  · have hk8 : r.count ≤ 8 := by omega
    -- the unread bits of the current byte are a strict prefix of `l`
    have hr' := hr
    simp only [Reader.rest] at hr'
    have hnext : bytesBits (r.buf.drop r.idx) ≠ [] := by
      intro hn
      rw [hn, List.append_nil] at hr'
      have := congrArg List.length hr'
      simp [hl] at this
      omega
    obtain ⟨hidx, hd⟩ := drop_cons_of_bits_ne_nil hnext
    have hx : r.buf[r.idx] < 256 := hbytes _ (List.getElem_mem hidx)
    have hget : r.buf[r.idx]? = some r.buf[r.idx] := List.getElem?_eq_getElem hidx
    rw [hd, bytesBits_cons] at hr'
    have hsx : natBits 8 r.buf[r.idx]
        = natBits (8 - r.count) (r.buf[r.idx] >>> r.count) ++ natBits r.count r.buf[r.idx] := by
      have := natBits_add (8 - r.count) r.count r.buf[r.idx]
      rwa [Nat.sub_add_cancel hk8] at this
    rw [hsx] at hr'
    have hr'' : (natBits r.count (r.b >>> (8 - r.count)) ++ natBits (8 - r.count) (r.buf[r.idx] >>> r.count))
        ++ (natBits r.count r.buf[r.idx] ++ bytesBits (r.buf.drop (r.idx + 1))) = l ++ t := by
      rw [← hr']; simp [List.append_assoc]
    obtain ⟨h1, h2⟩ := List.append_inj hr'' (by simp [hl]; omega)
    -- the byte returned
    have hbyt : natBits 8 (r.b ||| r.buf[r.idx] >>> r.count)
        = natBits r.count (r.b >>> (8 - r.count)) ++ natBits (8 - r.count) (r.buf[r.idx] >>> r.count) := by
      have := natBits_add r.count (8 - r.count) (r.b ||| r.buf[r.idx] >>> r.count)
      rw [Nat.add_sub_cancel' hk8] at this
      rw [this]
      congr 1
      · apply natBits_congr
        intro i hi
        simp only [Nat.testBit_shiftRight, Nat.testBit_or]
        rw [testBit_of_lt_256 hx (by omega)]
        simp
      · apply natBits_congr
        intro i hi
        simp only [Nat.testBit_or, Nat.testBit_shiftRight, hlow i hi hc, Bool.false_or]
    have hblt : (r.b ||| r.buf[r.idx] >>> r.count) < 256 := by
      have hs : r.buf[r.idx] >>> r.count < 2 ^ 8 := by
        rw [Nat.shiftRight_eq_div_pow]
        exact Nat.lt_of_le_of_lt (Nat.div_le_self _ _) (by simpa using hx)
      exact Nat.or_lt_two_pow (n := 8) (by simpa using hlt) hs
    refine ⟨{ r with b := (r.buf[r.idx] <<< (8 - r.count)) % 256, idx := r.idx + 1, err := false }, ?_, ?_, ?_, rfl⟩
    · simp only [Reader.readByte, Reader.getByte, hc, hget, if_false]
      rw [← h1, ← hbyt, bitsVal_natBits]
      have : (r.b ||| r.buf[r.idx] >>> r.count) % 2 ^ 8 = (r.b ||| r.buf[r.idx] >>> r.count) :=
        Nat.mod_eq_of_lt (by simpa using hblt)
      rw [this]
    · refine ⟨hle, Nat.mod_lt _ (by decide), ?_, rfl, hbytes⟩
      intro i hi _
      dsimp only at hi ⊢
      have e : (256:Nat) = 2 ^ 8 := by decide
      simp only [e, Nat.testBit_mod_two_pow, Nat.testBit_shiftLeft]
      simp; omega
    · simp only [Reader.rest]
      rw [← h2]
      congr 1
      apply natBits_congr
      intro i hi
      have e : (256:Nat) = 2 ^ 8 := by decide
      simp only [e, Nat.testBit_shiftRight, Nat.testBit_mod_two_pow, Nat.testBit_shiftLeft]
      have h3 : 8 - r.count + i < 8 := by omega
      have h4 : 8 - r.count + i ≥ 8 - r.count := by omega
      simp only [h3, h4, decide_true, Bool.true_and]
      congr 1; omega

theorem pow_le_two64 {n : Nat} (h : n ≤ 64) : 2 ^ n ≤ two64 := by
  have : (2:Nat) ^ n ≤ 2 ^ 64 := Nat.pow_le_pow_right (by omega) h
  simpa [two64] using this

theorem Reader.readBytesAcc_spec : ∀ (k : Nat) (r : Reader) (p l t : List Bool), r.Ok →
    r.rest = l ++ t → l.length = 8 * k → p.length + 8 * k ≤ 64 →
    ∃ r', r.readBytesAcc (bitsVal p) k = (some (bitsVal (p ++ l)), r') ∧ r'.Ok ∧ r'.rest = t ∧ r'.buf = r.buf := by
  intro k
  induction k with
  | zero =>
    intro r p l t h hr hl _
    have : l = [] := List.eq_nil_of_length_eq_zero (by simpa using hl)
    subst this
    exact ⟨r, by simp [Reader.readBytesAcc], h, by simpa using hr, rfl⟩
  | succ k ih =>
    intro r p l t h hr hl hp
    have hsplit : l = l.take 8 ++ l.drop 8 := (List.take_append_drop 8 l).symm
    have hl8 : (l.take 8).length = 8 := by simp; omega
    have hld : (l.drop 8).length = 8 * k := by simp; omega
    have hr2 : r.rest = l.take 8 ++ (l.drop 8 ++ t) := by rw [← List.append_assoc, ← hsplit]; exact hr
    obtain ⟨r1, hrd, ok1, hrest1, hbuf1⟩ := r.readByte_spec h (l.take 8) (l.drop 8 ++ t) hl8 hr2
    have hp8 : (p ++ l.take 8).length + 8 * k ≤ 64 := by simp [hl8]; omega
    obtain ⟨r2, hrd2, ok2, hrest2, hbuf2⟩ := ih r1 (p ++ l.take 8) (l.drop 8) t ok1 hrest1 hld hp8
    refine ⟨r2, ?_, ok2, hrest2, by rw [hbuf2, hbuf1]⟩
    simp only [Reader.readBytesAcc, hrd]
    -- accumulator update
    have hv : ((bitsVal p <<< 8) % two64) ||| bitsVal (l.take 8) = bitsVal (p ++ l.take 8) := by
      rw [bitsVal_append, hl8]
      have hlt8 : bitsVal (l.take 8) < 2 ^ 8 := by have := bitsVal_lt (l.take 8); rwa [hl8] at this
      have hpl : bitsVal p < 2 ^ p.length := bitsVal_lt p
      have hpp : 2 ^ (p.length + 8) ≤ two64 := pow_le_two64 (by omega)
      have hmul : bitsVal p * 2 ^ 8 < 2 ^ (p.length + 8) := by
        rw [Nat.pow_add]; exact Nat.mul_lt_mul_of_pos_right hpl (by decide)
      rw [Nat.shiftLeft_eq, Nat.mod_eq_of_lt (by omega), ← Nat.shiftLeft_eq,
        ← Nat.shiftLeft_add_eq_or_of_lt hlt8, Nat.shiftLeft_eq]
    simp only [Bool.false_eq_true, if_false, hv]
    rw [hrd2, List.append_assoc, ← hsplit]

theorem Reader.readBitsAcc_spec : ∀ (k : Nat) (r : Reader) (p l t : List Bool), r.Ok →
    r.rest = l ++ t → l.length = k → p.length + k ≤ 64 →
    ∃ r', r.readBitsAcc (bitsVal p) k = (some (bitsVal (p ++ l)), r') ∧ r'.Ok ∧ r'.rest = t ∧ r'.buf = r.buf := by
  intro k
  induction k with
  | zero =>
    intro r p l t h hr hl _
    have : l = [] := List.eq_nil_of_length_eq_zero hl
    subst this
    exact ⟨r, by simp [Reader.readBitsAcc], h, by simpa using hr, rfl⟩
  | succ k ih =>
    intro r p l t h hr hl hp
    match l, hl with
    | bit :: l', hl =>
      have hl' : l'.length = k := by simpa using hl
      have hr2 : r.rest = bit :: (l' ++ t) := by simpa using hr
      obtain ⟨r1, hrd, ok1, hrest1, hbuf1⟩ := r.readBit_spec h bit (l' ++ t) hr2
      have hp1 : (p ++ [bit]).length + k ≤ 64 := by simp; omega
      obtain ⟨r2, hrd2, ok2, hrest2, hbuf2⟩ := ih r1 (p ++ [bit]) l' t ok1 hrest1 hl' hp1
      refine ⟨r2, ?_, ok2, hrest2, by rw [hbuf2, hbuf1]⟩
      simp only [Reader.readBitsAcc, hrd]
      have hpl : bitsVal p < 2 ^ p.length := bitsVal_lt p
      have hpp : 2 ^ (p.length + 1) ≤ two64 := pow_le_two64 (by omega)
      have hmul : bitsVal p * 2 ^ 1 < 2 ^ (p.length + 1) := by
        rw [Nat.pow_add]; exact Nat.mul_lt_mul_of_pos_right hpl (by decide)
      have hsh : (bitsVal p <<< 1) % two64 = bitsVal p <<< 1 := by
        rw [Nat.shiftLeft_eq]; exact Nat.mod_eq_of_lt (by omega)
      have hv : (if bit then ((bitsVal p <<< 1) % two64) ||| 1 else (bitsVal p <<< 1) % two64)
          = bitsVal (p ++ [bit]) := by
        rw [bitsVal_append, hsh]
        cases bit
        · simp [bitsVal, Nat.shiftLeft_eq]
        · simp only [if_true]
          rw [← Nat.shiftLeft_add_eq_or_of_lt (by decide : 1 < 2 ^ 1), Nat.shiftLeft_eq]
          simp [bitsVal]
      simp only [Bool.false_eq_true, if_false, hv]
      rw [hrd2]
      simp

/-- `ReadBits(n)` returns the number denoted by the next `n ≤ 64` bits of the stream -/
theorem Reader.readBits_spec (r : Reader) (h : r.Ok) (n : Nat) (l t : List Bool) (hn : n ≤ 64)
    (hl : l.length = n) (hr : r.rest = l ++ t) :
    ∃ r', r.readBits n = (some (bitsVal l), r') ∧ r'.Ok ∧ r'.rest = t ∧ r'.buf = r.buf := by
  have hsplit : l = l.take (8 * (n / 8)) ++ l.drop (8 * (n / 8)) := (List.take_append_drop _ l).symm
  have hl1 : (l.take (8 * (n / 8))).length = 8 * (n / 8) := by simp; omega
  have hl2 : (l.drop (8 * (n / 8))).length = n % 8 := by simp; omega
  have hr2 : r.rest = l.take (8 * (n / 8)) ++ (l.drop (8 * (n / 8)) ++ t) := by
    rw [← List.append_assoc, ← hsplit]; exact hr
  obtain ⟨r1, hrd1, ok1, hrest1, hbuf1⟩ := Reader.readBytesAcc_spec (n / 8) r [] _ _ h hr2 hl1 (by simp; omega)
  obtain ⟨r2, hrd2, ok2, hrest2, hbuf2⟩ := Reader.readBitsAcc_spec (n % 8) r1 (l.take (8 * (n / 8))) _ t ok1 hrest1 hl2
    (by rw [hl1]; omega)
  refine ⟨r2, ?_, ok2, hrest2, by rw [hbuf2, hbuf1]⟩
  unfold Reader.readBits
  have hb0 : bitsVal ([] : List Bool) = 0 := rfl
  rw [hb0] at hrd1
  simp only [List.nil_append] at hrd1
  rw [hrd1]
  simp only
  rw [hrd2, ← hsplit]

/-- a reader positioned at byte `idx` with no partial byte -/
theorem Reader.ok_of_aligned (buf : List Nat) (idx : Nat) (hb : ∀ x ∈ buf, x < 256) :
    ({ buf := buf, idx := idx, b := 0, count := 0, err := false } : Reader).Ok :=
  ⟨by simp, by simp, by intro i _ hc; exact absurd rfl hc, rfl, hb⟩

theorem Reader.rest_of_aligned (buf : List Nat) (idx : Nat) :
    ({ buf := buf, idx := idx, b := 0, count := 0, err := false } : Reader).rest = bytesBits (buf.drop idx) := by
  simp [Reader.rest, natBits]

end LinVerif.Bits
