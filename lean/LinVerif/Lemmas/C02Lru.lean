/-
C02: the concrete reader cache (LRU list + `last` timestamps + TTL, Model/TableCache.lean) refines
the abstract one: its deterministic `Cleanup` (walk from the LRU tail while unreferenced and
expired) is one of the choices of the nondeterministic abstract `cleanup`, its `Evict` is the
abstract `evict`, a hit / miss of `GetReader` is the abstract `getReader`.
-/
import LinVerif.Model.TableCache
set_option linter.unusedSimpArgs false
set_option linter.unusedVariables false

namespace LinVerif.Lemmas.C02
open LinVerif.TableCache

/-- file names in the list are pairwise distinct (`LRUCache.items` is a map keyed by file name) -/
def LruOk (l : Lru) : Prop := (l.map (·.file)).Nodup

theorem absLru_none {l : Lru} {f : Nat} : absLru l f = none ↔ f ∉ l.map (·.file) := by
  simp only [absLru, Option.map_eq_none_iff, List.find?_eq_none, List.mem_map, not_exists, not_and]
  constructor
  · intro h e he heq; exact h e he (by simp [heq])
  · intro h e he hc; exact h e he (by simpa using hc)

theorem absLru_append (a b : Lru) (f : Nat) :
    absLru (a ++ b) f = match absLru a f with | some r => some r | none => absLru b f := by
  simp only [absLru, List.find?_append]
  cases h : a.find? (fun e => e.file == f) <;> simp

theorem find_of_mem {l : Lru} (hl : LruOk l) {e : Entry} (he : e ∈ l) :
    l.find? (fun x => x.file == e.file) = some e := by
  induction l with
  | nil => cases he
  | cons a rest ih =>
    simp only [LruOk, List.map_cons, List.nodup_cons, List.mem_map, not_exists, not_and] at hl
    rcases List.mem_cons.mp he with rfl | hr
    · simp
    · have hne : a.file ≠ e.file := fun h => hl.1 e hr h.symm
      simp only [List.find?_cons, beq_iff_eq, hne, ↓reduceIte]
      have : (a.file == e.file) = false := by simp [hne]
      simp only [this]
      exact ih hl.2 hr

theorem cleanup_apply (c : Cache) (fs : List Nat) (f : Nat) :
    cleanup c fs f = if f ∈ fs then none else c f := by
  induction fs generalizing c with
  | nil => simp [cleanup]
  | cons a rest ih =>
    simp only [cleanup, List.foldl_cons] at ih ⊢
    rw [ih]
    by_cases h1 : f ∈ rest
    · simp [h1]
    · by_cases h2 : f = a
      · subst h2; simp [h1, evict, upd]
      · simp [h1, h2, evict, upd]

/-- `Evict` of the list model is the abstract `evict` -/
theorem absLru_evict (l : Lru) (f : Nat) : absLru (lruEvict l f) = evict (absLru l) f := by
  funext g
  simp only [lruEvict, evict, upd]
  by_cases h : g = f
  · subst h
    simp only [↓reduceIte]
    rw [absLru_none]
    simp [List.mem_map, List.mem_filter]
  · simp only [h, ↓reduceIte, absLru]
    congr 1
    rw [List.find?_filter]
    congr 1
    funext a
    by_cases hg : a.file = g
    · have : a.file ≠ f := fun hh => h (hg ▸ hh)
      simp [hg, this]
      exact fun hh => h hh
    · simp [hg]

theorem mem_takeWhile' {α : Type} {p : α → Bool} {l : List α} {x : α} (h : x ∈ l.takeWhile p) : p x = true ∧ x ∈ l := by
  induction l with
  | nil => simp at h
  | cons a rest ih =>
    simp only [List.takeWhile_cons] at h
    split at h
    next hp =>
      rcases List.mem_cons.mp h with rfl | hr
      · exact ⟨hp, by simp⟩
      · exact ⟨(ih hr).1, by simp [(ih hr).2]⟩
    next => simp at h

theorem walk_split (ttl : Int) (now : Nat) (l : Lru) :
    l = lruWalk ttl now l ++ (l.reverse.takeWhile (expired ttl now)).reverse := by
  have := List.takeWhile_append_dropWhile (p := expired ttl now) (l := l.reverse)
  have h2 := congrArg List.reverse this
  simp only [List.reverse_append, List.reverse_reverse] at h2
  simpa [lruWalk] using h2.symm

/-- every entry the TTL/LRU `Cleanup` closes is unreferenced (and expired) -/
theorem lruClosed_idle {ttl : Int} {now : Nat} {l : Lru} (hl : LruOk l) :
    (lruClosed ttl now l).all (canClean (absLru l)) = true := by
  rw [List.all_eq_true]
  intro f hf
  simp only [lruClosed, List.mem_map] at hf
  obtain ⟨e, he, rfl⟩ := hf
  have hp : expired ttl now e = true := (mem_takeWhile' he).1
  have hmem : e ∈ l := by simpa using (mem_takeWhile' he).2
  have hz : e.ref = 0 := by
    simp only [expired, Bool.and_eq_true, beq_iff_eq] at hp
    exact hp.1
  simp [canClean, absLru, find_of_mem hl hmem, hz]

/-- the deterministic TTL/LRU `Cleanup` is the abstract `cleanup` for the set it closed -/
theorem absLru_walk {ttl : Int} {now : Nat} {l : Lru} (hl : LruOk l) :
    absLru (lruWalk ttl now l) = cleanup (absLru l) (lruClosed ttl now l) := by
  funext f
  rw [cleanup_apply]
  have hs := walk_split ttl now l
  have hnd : ((lruWalk ttl now l).map (·.file) ++ ((l.reverse.takeWhile (expired ttl now)).reverse).map (·.file)).Nodup := by
    have : (l.map (·.file)).Nodup := hl
    rw [hs, List.map_append] at this
    exact this
  have hdisj := (List.nodup_append.mp hnd).2.2
  by_cases hf : f ∈ lruClosed ttl now l
  · simp only [hf, ↓reduceIte]
    rw [absLru_none]
    intro hm
    have : f ∈ ((l.reverse.takeWhile (expired ttl now)).reverse).map (·.file) := by
      simpa [lruClosed] using hf
    exact hdisj f hm f this rfl
  · simp only [hf, ↓reduceIte]
    conv => rhs; rw [hs]
    rw [absLru_append]
    cases h : absLru (lruWalk ttl now l) f with
    | some r => rfl
    | none =>
      simp only
      symm
      rw [absLru_none]
      simpa [lruClosed] using hf

theorem lruOk_walk {ttl : Int} {now : Nat} {l : Lru} (hl : LruOk l) : LruOk (lruWalk ttl now l) := by
  have hs := walk_split ttl now l
  have : (l.map (·.file)).Nodup := hl
  rw [hs, List.map_append] at this
  exact (List.nodup_append.mp this).1

/-- a miss of `GetReader` is the abstract miss -/
theorem absLru_get_miss {l : Lru} {disk : List Nat} {now f : Nat} (hm : absLru l f = none) :
    (lruGet l disk now f).map absLru = getReader (absLru l) disk f := by
  have hfind : l.find? (fun e => e.file == f) = none := by
    simpa [absLru] using hm
  simp only [lruGet, hfind, getReader, hm]
  by_cases hd : f ∈ disk
  · simp only [hd, ↓reduceIte, Option.map_some]
    congr 1
    funext g
    by_cases hg : g = f
    · subst hg; simp [absLru, upd]
    · have : (f == g) = false := by simp [Ne.symm hg]
      simp [absLru, upd, hg, List.find?_cons, this]
  · simp [hd]

/-- a hit of `GetReader` (MoveToFront + retain) is the abstract hit -/
theorem absLru_get_hit {l : Lru} {disk : List Nat} {now f : Nat} {r : Int} (hh : absLru l f = some r) :
    (lruGet l disk now f).map absLru = getReader (absLru l) disk f := by
  simp only [absLru, Option.map_eq_some_iff] at hh
  obtain ⟨e, hfind, hr⟩ := hh
  have hef : e.file = f := by simpa using List.find?_some hfind
  have habs : absLru l f = some r := by simp [absLru, hfind, hr]
  simp only [lruGet, hfind, getReader, habs, Option.map_some]
  congr 1
  funext g
  by_cases hg : g = f
  · subst hg
    have h0 : (e.file == g) = true := by simp [hef]
    simp only [absLru, List.find?_cons, h0, upd, ↓reduceIte, Option.map_some, hr]
  · have h1 : (e.file == g) = false := by simp [hef, Ne.symm hg]
    simp only [absLru, upd, hg, ↓reduceIte, List.find?_cons, h1]
    congr 1
    rw [List.find?_filter]
    congr 1
    funext a
    by_cases ha : a.file = g
    · have : a.file ≠ f := fun hx => hg (ha ▸ hx)
      simp [ha, this]
      exact fun hx => hg hx
    · simp [ha]

/-! ### `ReleaseReaders` on the list model -/

/-- the abstract effect of releasing one reader of table `f` -/
def release1 (c : Cache) (f : Nat) : Cache := fun g => if g = f then (c g).map (· - 1) else c g

theorem releaseAll_nil (c : Cache) : releaseAll c [] = c := by
  funext g; simp only [releaseAll, List.count_nil]; cases c g <;> simp

theorem releaseAll_cons (c : Cache) (f : Nat) (fs : List Nat) :
    releaseAll c (f :: fs) = releaseAll (release1 c f) fs := by
  funext g
  simp only [releaseAll, release1, List.count_cons]
  by_cases hg : g = f
  · subst hg
    cases c g with
    | none => simp
    | some r => simp; omega
  · have : (f == g) = false := by simp [Ne.symm hg]
    simp only [hg, ↓reduceIte, this, Bool.false_eq_true]
    cases c g <;> simp

/-- one `Get` + `release()` of the list model is the abstract release of one reference -/
theorem absLru_release1 (l : Lru) (f : Nat) : absLru (lruRelease1 l f) = release1 (absLru l) f := by
  unfold lruRelease1
  cases hfind : l.find? (fun e => e.file == f) with
  | none =>
    funext g
    simp only [release1]
    by_cases hg : g = f
    · subst hg; simp [absLru, hfind]
    · simp [hg]
  | some e =>
    have hef : e.file = f := by simpa using List.find?_some hfind
    funext g
    by_cases hg : g = f
    · subst hg
      have h0 : (e.file == g) = true := by simp [hef]
      simp only [release1, absLru, List.find?_cons, h0, ↓reduceIte, hfind, Option.map_some]
    · have h1 : (e.file == g) = false := by simp [hef, Ne.symm hg]
      simp only [release1, absLru, hg, ↓reduceIte, List.find?_cons, h1]
      congr 1
      rw [List.find?_filter]
      congr 1
      funext a
      by_cases ha : a.file = g
      · have : a.file ≠ f := fun hx => hg (ha ▸ hx)
        simp [ha, this]
        exact fun hx => hg hx
      · simp [ha]

/-- `ReleaseReaders` of the list model (with its `MoveToFront`s) refines the closed form `releaseAll`
the invariant is stated with — for every list of readers, with repetitions, found or not -/
theorem absLru_release (l : Lru) (fs : List Nat) : absLru (lruRelease l fs) = releaseAll (absLru l) fs := by
  induction fs generalizing l with
  | nil => simp [lruRelease, releaseAll_nil]
  | cons f rest ih =>
    simp only [lruRelease, List.foldl_cons] at ih ⊢
    rw [ih (lruRelease1 l f), absLru_release1, releaseAll_cons]

/-- the LRU order after one release: the entry (if cached) moves to the front, the others keep
their relative order; an uncached name changes nothing -/
theorem lruOrder_release1 (l : Lru) (f : Nat) :
    lruOrder (lruRelease1 l f) = if f ∈ lruOrder l then f :: (lruOrder l).filter (· ≠ f) else lruOrder l := by
  unfold lruRelease1
  cases hfind : l.find? (fun e => e.file == f) with
  | none =>
    have : f ∉ lruOrder l := by
      simp only [lruOrder, List.mem_map, not_exists, not_and]
      intro e he heq
      have := List.find?_eq_none.mp hfind e he
      simp [heq] at this
    simp [this]
  | some e =>
    have hef : e.file = f := by simpa using List.find?_some hfind
    have hmem : f ∈ lruOrder l := by
      simp only [lruOrder, List.mem_map]
      exact ⟨e, List.mem_of_find?_eq_some hfind, hef⟩
    rw [if_pos hmem]
    simp only [lruOrder, List.map_cons, hef, List.filter_map]
    congr 2
    apply List.filter_congr
    intro a _
    simp only [Function.comp, bne, ne_eq, decide_not]
    by_cases h : a.file = f <;> simp [h]

theorem lruOk_release1 {l : Lru} (hl : LruOk l) (f : Nat) : LruOk (lruRelease1 l f) := by
  have ho := lruOrder_release1 l f
  unfold LruOk
  have hl' : (lruOrder l).Nodup := hl
  change (lruOrder (lruRelease1 l f)).Nodup
  rw [ho]
  split
  · rw [List.nodup_cons]
    exact ⟨by simp, List.Nodup.sublist List.filter_sublist hl'⟩
  · exact hl'

theorem lruOk_release {l : Lru} (hl : LruOk l) (fs : List Nat) : LruOk (lruRelease l fs) := by
  induction fs generalizing l with
  | nil => exact hl
  | cons f rest ih =>
    simp only [lruRelease, List.foldl_cons] at ih ⊢
    exact ih (lruOk_release1 hl f)

/-- a release never makes an entry cleanable that is still referenced: after releasing `fs`, entry `g`
is closable by the TTL/LRU `Cleanup` only if its count reached 0 -/
theorem release_then_walk_closes_only_idle {ttl : Int} {now : Nat} {l : Lru} (hl : LruOk l) (fs : List Nat) :
    (lruClosed ttl now (lruRelease l fs)).all (canClean (releaseAll (absLru l) fs)) = true := by
  rw [← absLru_release]
  exact lruClosed_idle (lruOk_release hl fs)

end LinVerif.Lemmas.C02
