/-
C02: the concrete reader cache (LRU list + `last` timestamps + TTL, Model/TableCache.lean) refines
the abstract one: its deterministic `Cleanup` (walk from the LRU tail while unreferenced and
expired) is one of the choices of the nondeterministic abstract `cleanup`, its `Evict` is the
abstract `evict`, a hit / miss of `GetReader` is the abstract `getReader`.
-/
import LinVerif.Model.TableCache
set_option linter.unusedSimpArgs false
set_option linter.unusedVariables false

namespace LinVerif.Lemmas.C02
open LinVerif.TableCache

/-- file names in the list are pairwise distinct (`LRUCache.items` is a map keyed by file name) -/
def LruOk (l : Lru) : Prop := (l.map (·.file)).Nodup

theorem absLru_none {l : Lru} {f : Nat} : absLru l f = none ↔ f ∉ l.map (·.file) := by
  simp only [absLru, Option.map_eq_none_iff, List.find?_eq_none, List.mem_map, not_exists, not_and]
  constructor
  · intro h e he heq; exact h e he (by simp [heq])
  · intro h e he hc; exact h e he (by simpa using hc)

theorem absLru_append (a b : Lru) (f : Nat) :
    absLru (a ++ b) f = match absLru a f with | some r => some r | none => absLru b f := by
  simp only [absLru, List.find?_append]
  cases h : a.find? (fun e => e.file == f) <;> simp

theorem find_of_mem {l : Lru} (hl : LruOk l) {e : Entry} (he : e ∈ l) :
    l.find? (fun x => x.file == e.file) = some e := by
  induction l with
  | nil => cases he
  | cons a rest ih =>
    simp only [LruOk, List.map_cons, List.nodup_cons, List.mem_map, not_exists, not_and] at hl
    rcases List.mem_cons.mp he with rfl | hr
    · simp
    · have hne : a.file ≠ e.file := fun h => hl.1 e hr h.symm
      simp only [List.find?_cons, beq_iff_eq, hne, ↓reduceIte]
      have : (a.file == e.file) = false := by simp [hne]
      simp only [this]
      exact ih hl.2 hr

theorem cleanup_apply (c : Cache) (fs : List Nat) (f : Nat) :
    cleanup c fs f = if f ∈ fs then none else c f := by
  induction fs generalizing c with
  | nil => simp [cleanup]
  | cons a rest ih =>
    simp only [cleanup, List.foldl_cons] at ih ⊢
    rw [ih]
    by_cases h1 : f ∈ rest
    · simp [h1]
    · by_cases h2 : f = a
      · subst h2; simp [h1, evict, upd]
      · simp [h1, h2, evict, upd]

/-- `Evict` of the list model is the abstract `evict` -/
theorem absLru_evict (l : Lru) (f : Nat) : absLru (lruEvict l f) = evict (absLru l) f := by
  funext g
  simp only [lruEvict, evict, upd]
  by_cases h : g = f
  · subst h
    simp only [↓reduceIte]
    rw [absLru_none]
    simp [List.mem_map, List.mem_filter]
  · simp only [h, ↓reduceIte, absLru]
    congr 1
    rw [List.find?_filter]
    congr 1
    funext a
    by_cases hg : a.file = g
    · have : a.file ≠ f := fun hh => h (hg ▸ hh)
      simp [hg, this]
      exact fun hh => h hh
    · simp [hg]

theorem mem_takeWhile' {α : Type} {p : α → Bool} {l : List α} {x : α} (h : x ∈ l.takeWhile p) : p x = true ∧ x ∈ l := by
  induction l with
  | nil => simp at h
  | cons a rest ih =>
    simp only [List.takeWhile_cons] at h
    split at h
    next hp =>
      rcases List.mem_cons.mp h with rfl | hr
      · exact ⟨hp, by simp⟩
      · exact ⟨(ih hr).1, by simp [(ih hr).2]⟩
    next => simp at h

theorem walk_split (ttl : Int) (now : Nat) (l : Lru) :
    l = lruWalk ttl now l ++ (l.reverse.takeWhile (expired ttl now)).reverse := by
  have := List.takeWhile_append_dropWhile (p := expired ttl now) (l := l.reverse)
  have h2 := congrArg List.reverse this
  simp only [List.reverse_append, List.reverse_reverse] at h2
  simpa [lruWalk] using h2.symm

/-- every entry the TTL/LRU `Cleanup` closes is unreferenced (and expired) -/
theorem lruClosed_idle {ttl : Int} {now : Nat} {l : Lru} (hl : LruOk l) :
    (lruClosed ttl now l).all (canClean (absLru l)) = true := by
  rw [List.all_eq_true]
  intro f hf
  simp only [lruClosed, List.mem_map] at hf
  obtain ⟨e, he, rfl⟩ := hf
  have hp : expired ttl now e = true := (mem_takeWhile' he).1
  have hmem : e ∈ l := by simpa using (mem_takeWhile' he).2
  have hz : e.ref = 0 := by
    simp only [expired, Bool.and_eq_true, beq_iff_eq] at hp
    exact hp.1
  simp [canClean, absLru, find_of_mem hl hmem, hz]

/-- the deterministic TTL/LRU `Cleanup` is the abstract `cleanup` for the set it closed -/
theorem absLru_walk {ttl : Int} {now : Nat} {l : Lru} (hl : LruOk l) :
    absLru (lruWalk ttl now l) = cleanup (absLru l) (lruClosed ttl now l) := by
  funext f
  rw [cleanup_apply]
  have hs := walk_split ttl now l
  have hnd : ((lruWalk ttl now l).map (·.file) ++ ((l.reverse.takeWhile (expired ttl now)).reverse).map (·.file)).Nodup := by
    have : (l.map (·.file)).Nodup := hl
    rw [hs, List.map_append] at this
    exact this
  have hdisj := (List.nodup_append.mp hnd).2.2
  by_cases hf : f ∈ lruClosed ttl now l
  · simp only [hf, ↓reduceIte]
    rw [absLru_none]
    intro hm
    have : f ∈ ((l.reverse.takeWhile (expired ttl now)).reverse).map (·.file) := by
      simpa [lruClosed] using hf
    exact hdisj f hm f this rfl
  · simp only [hf, ↓reduceIte]
    conv => rhs; rw [hs]
    rw [absLru_append]
    cases h : absLru (lruWalk ttl now l) f with
    | some r => rfl
    | none =>
      simp only
      symm
      rw [absLru_none]
      simpa [lruClosed] using hf

theorem lruOk_walk {ttl : Int} {now : Nat} {l : Lru} (hl : LruOk l) : LruOk (lruWalk ttl now l) := by
  have hs := walk_split ttl now l
  have : (l.map (·.file)).Nodup := hl
  rw [hs, List.map_append] at this
  exact (List.nodup_append.mp this).1

/-- a miss of `GetReader` is the abstract miss -/
theorem absLru_get_miss {l : Lru} {disk : List Nat} {now f : Nat} (hm : absLru l f = none) :
    (lruGet l disk now f).map absLru = getReader (absLru l) disk f := by
  have hfind : l.find? (fun e => e.file == f) = none := by
    simpa [absLru] using hm
  simp only [lruGet, hfind, getReader, hm]
  by_cases hd : f ∈ disk
  · simp only [hd, ↓reduceIte, Option.map_some]
    congr 1
    funext g
    by_cases hg : g = f
    · subst hg; simp [absLru, upd]
    · have : (f == g) = false := by simp [Ne.symm hg]
      simp [absLru, upd, hg, List.find?_cons, this]
  · simp [hd]

/-- a hit of `GetReader` (MoveToFront + retain) is the abstract hit -/
theorem absLru_get_hit {l : Lru} {disk : List Nat} {now f : Nat} {r : Int} (hh : absLru l f = some r) :
    (lruGet l disk now f).map absLru = getReader (absLru l) disk f := by
  simp only [absLru, Option.map_eq_some_iff] at hh
  obtain ⟨e, hfind, hr⟩ := hh
  have hef : e.file = f := by simpa using List.find?_some hfind
  have habs : absLru l f = some r := by simp [absLru, hfind, hr]
  simp only [lruGet, hfind, getReader, habs, Option.map_some]
  congr 1
  funext g
  by_cases hg : g = f
  · subst hg
    have h0 : (e.file == g) = true := by simp [hef]
    simp only [absLru, List.find?_cons, h0, upd, ↓reduceIte, Option.map_some, hr]
  · have h1 : (e.file == g) = false := by simp [hef, Ne.symm hg]
    simp only [absLru, upd, hg, ↓reduceIte, List.find?_cons, h1]
    congr 1
    rw [List.find?_filter]
    congr 1
    funext a
    by_cases ha : a.file = g
    · have : a.file ≠ f := fun hx => hg (ha ▸ hx)
      simp [ha, this]
      exact fun hx => hg hx
    · simp [ha]

end LinVerif.Lemmas.C02
