/-
C20 helper lemmas (round 12): the bucket framing — `TrieBucket.Unmarshal` undoes what
`TrieBucketBuilder.Write` framed, frame by frame, on an object that may already hold entries.
-/
import LinVerif.Lemmas.C20WireErr
import LinVerif.Model.BucketWire

set_option linter.unusedSimpArgs false
set_option linter.unusedVariables false

namespace LinVerif.Lemmas.C20
open LinVerif.Louds LinVerif.TrieWire LinVerif.BucketWire

/-- what the framing needs of an image: well-formed, no wrap inside, and `4 + size` fits `uint32` -/
structure BucketFrameOK (w : Wire) : Prop where
  ok : WireOK w
  fits : WireFits w
  size : U32 (4 + marshalSize w)

/-- the entry `Unmarshal` makes of a frame -/
def entryOf (w : Wire) : Entry := ⟨w, frame w⟩

theorem frame_length (w : Wire) (h : BucketFrameOK w) : (frame w).length = 4 + marshalSize w := by
  simp [frame, u32le_length, marshal_length w h.ok]

theorem frame_ne_nil (w : Wire) : frame w ≠ [] := by
  simp [frame, u32le]

/-- one round of the loop on a frame followed by anything -/
theorem unmarshalLoop_frame (w : Wire) (h : BucketFrameOK w) (rest : List Nat) (acc : List Entry) (fuel : Nat) :
    unmarshalLoop (fuel + 1) (frame w ++ rest) acc = unmarshalLoop fuel rest (acc ++ [entryOf w]) := by
  have hsz : U32 (marshalSize w) := by have := h.size; unfold U32 at *; omega
  have hmod : marshalSize w % two32 = marshalSize w := Nat.mod_eq_of_lt hsz
  have hstop : (4 + marshalSize w) % two32 = 4 + marshalSize w := Nat.mod_eq_of_lt h.size
  have hlen := frame_length w h
  obtain ⟨b, bs, hb⟩ : ∃ b bs, frame w ++ rest = b :: bs := by
    cases hf : frame w ++ rest with
    | nil => exact absurd (List.append_eq_nil_iff.1 hf).1 (frame_ne_nil w)
    | cons b bs => exact ⟨b, bs, rfl⟩
  rw [hb]
  simp only [unmarshalLoop]
  rw [← hb]
  have hread : readU32 (frame w ++ rest) = some (marshalSize w, marshal w ++ rest) := by
    unfold frame
    rw [List.append_assoc, hmod]
    exact readU32_u32le _ hsz _
  rw [hread]
  simp only [hstop]
  have hnot : ¬ (4 + marshalSize w < 4 ∨ (frame w ++ rest).length < 4 + marshalSize w) := by
    rw [List.length_append, hlen]; omega
  rw [if_neg hnot]
  have htake : (frame w ++ rest).take (4 + marshalSize w) = frame w := by
    rw [← hlen, List.take_left']
    rfl
  have hdrop : (frame w ++ rest).drop (4 + marshalSize w) = rest := by
    rw [← hlen, List.drop_left']
    rfl
  have himg : (frame w).drop 4 = marshal w := by
    unfold frame
    rw [show 4 = (u32le (marshalSize w % two32)).length from rfl, List.drop_left']
    rfl
  rw [htake, hdrop, himg, unmarshalR_marshal_wire w h.ok h.fits]
  rfl

theorem bucketBytes_cons (w : Wire) (ws : List Wire) : bucketBytes (w :: ws) = frame w ++ bucketBytes ws := by
  simp [bucketBytes]

theorem bucketBytes_length_ge (ws : List Wire) (h : ∀ w ∈ ws, BucketFrameOK w) : ws.length ≤ (bucketBytes ws).length := by
  induction ws with
  | nil => simp [bucketBytes]
  | cons w ws ih =>
    rw [bucketBytes_cons, List.length_append, frame_length w (h w (List.mem_cons_self ..))]
    have := ih (fun x hx => h x (List.mem_cons_of_mem _ hx))
    simp only [List.length_cons]; omega

/-- the loop over the frames of a builder call, with enough fuel -/
theorem unmarshalLoop_frames : ∀ (ws : List Wire), (∀ w ∈ ws, BucketFrameOK w) → ∀ (acc : List Entry) (fuel : Nat),
    ws.length ≤ fuel → unmarshalLoop fuel (bucketBytes ws) acc = .ok (acc ++ ws.map entryOf)
  | [], _, acc, fuel, _ => by
    cases fuel <;> simp [bucketBytes, unmarshalLoop]
  | w :: ws, h, acc, 0, hf => by simp at hf
  | w :: ws, h, acc, fuel + 1, hf => by
    rw [bucketBytes_cons, unmarshalLoop_frame w (h w (List.mem_cons_self ..))]
    rw [unmarshalLoop_frames ws (fun x hx => h x (List.mem_cons_of_mem _ hx)) _ fuel
      (by simp only [List.length_cons] at hf; omega)]
    simp [List.append_assoc]

theorem bucketUnmarshal_frames (ws : List Wire) (h : ∀ w ∈ ws, BucketFrameOK w) (acc : List Entry) :
    bucketUnmarshal acc (bucketBytes ws) = .ok (acc ++ ws.map entryOf) :=
  unmarshalLoop_frames ws h acc _ (bucketBytes_length_ge ws h)

theorem loadAll_frames : ∀ (wss : List (List Wire)), (∀ ws ∈ wss, ∀ w ∈ ws, BucketFrameOK w) → ∀ (acc : List Entry),
    loadAll acc (wss.map bucketBytes) = .ok (acc ++ wss.flatten.map entryOf)
  | [], _, acc => by simp [loadAll]
  | ws :: wss, h, acc => by
    simp only [List.map_cons, loadAll]
    rw [bucketUnmarshal_frames ws (h ws (List.mem_cons_self ..)) acc]
    simp only
    rw [loadAll_frames wss (fun x hx => h x (List.mem_cons_of_mem _ hx))]
    simp [List.append_assoc]

theorem copiedBytes_entries (ws : List Wire) : copiedBytes (ws.map entryOf) = bucketBytes ws := by
  simp [copiedBytes, bucketBytes, List.flatMap_map, entryOf]

end LinVerif.Lemmas.C20
