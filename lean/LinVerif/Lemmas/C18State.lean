/-
Helper lemmas for C18, round 10: closed forms of the `models.StorageState` helpers
(LeadersOnNode / ReplicasOnNode) for ANY set of databases, and the refinement
`step2 = step` (the handlers written with the helpers compute what `Master.step` computes).
-/
import LinVerif.Model.C18State
import LinVerif.Lemmas.C18Master

namespace LinVerif.Lemmas.C18
open LinVerif LinVerif.Assign LinVerif.Master

section Generic
variable {ν α : Type}

theorem upsert_of_not_mem : ∀ (m : List (Nat × ν)) (k : Nat) (v : ν), k ∉ Map.keys m →
    Map.upsert m k v = m ++ [(k, v)]
  | [], _, _, _ => rfl
  | (k', v') :: t, k, v, h => by
    simp only [Map.keys, List.map_cons, List.mem_cons, not_or] at h
    have hne : k' ≠ k := fun e => h.1 e.symm
    simp only [Map.upsert, hne, ite_false, List.cons_append]
    rw [upsert_of_not_mem t k v h.2]

theorem upsert_upsert : ∀ (m : List (Nat × ν)) (k : Nat) (v v' : ν),
    Map.upsert (Map.upsert m k v) k v' = Map.upsert m k v'
  | [], k, v, v' => by simp [Map.upsert]
  | (k', w) :: t, k, v, v' => by
    by_cases h : k' = k
    · simp [Map.upsert, h]
    · simp [Map.upsert, h, upsert_upsert t k v v']

theorem upsert_lookup_self : ∀ (m : List (Nat × ν)) (k : Nat) (v : ν), Map.lookup m k = some v →
    Map.upsert m k v = m
  | [], _, _, h => by simp [Map.lookup] at h
  | (k', w) :: t, k, v, h => by
    by_cases hk : k' = k
    · subst hk; simp [Map.lookup] at h; subst h; simp [Map.upsert]
    · simp only [Map.lookup, hk, ite_false] at h
      simp [Map.upsert, hk, upsert_lookup_self t k v h]

/-- the shard ids of one database that satisfy `p`, in iteration order -/
def idsOf (p : ν → Bool) (inner : List (Nat × ν)) : List Nat :=
  (inner.filter (fun kv => p kv.2)).map Prod.fst

theorem collect_inner (p : ν → Bool) (db : Nat) : ∀ (inner : List (Nat × ν)) (res : List (Nat × List Nat)),
    inner.foldl (fun res (kv : Nat × ν) =>
      if p kv.2 then Map.upsert res db ((Map.lookup res db).getD [] ++ [kv.1]) else res) res
    = if idsOf p inner = [] then res
      else Map.upsert res db ((Map.lookup res db).getD [] ++ idsOf p inner)
  | [], res => by simp [idsOf]
  | kv :: t, res => by
    rw [List.foldl_cons]
    by_cases hp : p kv.2 = true
    · rw [if_pos hp, collect_inner p db t]
      have hids : idsOf p (kv :: t) = kv.1 :: idsOf p t := by simp [idsOf, hp]
      rw [hids]
      simp only [reduceCtorEq, ite_false]
      by_cases he : idsOf p t = []
      · simp [he]
      · simp [he, Map.lookup_upsert_self, upsert_upsert, List.append_assoc]
    · have hp' : p kv.2 = false := by simpa using hp
      have hids : idsOf p (kv :: t) = idsOf p t := by simp [idsOf, hp']
      rw [hids]
      simp only [hp', Bool.false_eq_true, ite_false]
      exact collect_inner p db t res

/-- the closed form of LeadersOnNode / ReplicasOnNode -/
def collected (p : ν → Bool) (m : List (Nat × List (Nat × ν))) : List (Nat × List Nat) :=
  (m.map (fun e => (e.1, idsOf p e.2))).filter (fun e => decide (e.2 ≠ []))

theorem keys_collected_sub (p : ν → Bool) (m : List (Nat × List (Nat × ν))) (k : Nat)
    (h : k ∈ Map.keys (collected p m)) : k ∈ Map.keys m := by
  simp only [Map.keys, collected, List.mem_map, List.mem_filter] at *
  obtain ⟨e, ⟨⟨e0, he0, rfl⟩, _⟩, rfl⟩ := h
  exact ⟨e0, he0, rfl⟩

theorem collect_outer (p : ν → Bool) : ∀ (m : List (Nat × List (Nat × ν))) (res : List (Nat × List Nat)),
    (Map.keys m).Nodup → (∀ k ∈ Map.keys m, k ∉ Map.keys res) →
    m.foldl (fun res (entry : Nat × List (Nat × ν)) =>
      entry.2.foldl (fun res (kv : Nat × ν) =>
        if p kv.2 then Map.upsert res entry.1 ((Map.lookup res entry.1).getD [] ++ [kv.1]) else res) res) res
    = res ++ collected p m
  | [], res, _, _ => by simp [collected]
  | e :: t, res, hnd, hdis => by
    simp only [Map.keys, List.map_cons, List.nodup_cons] at hnd
    rw [List.foldl_cons, collect_inner p e.1 e.2 res]
    have hk : e.1 ∉ Map.keys res := hdis e.1 (by simp [Map.keys])
    have hlk : Map.lookup res e.1 = none := lookup_none_of_not_mem_keys res e.1 hk
    by_cases he : idsOf p e.2 = []
    · rw [if_pos he, collect_outer p t res hnd.2 (fun k hk' => hdis k (by
        simp only [Map.keys, List.map_cons, List.mem_cons]; right; exact hk'))]
      simp [collected, he]
    · rw [if_neg he, hlk, upsert_of_not_mem res e.1 _ hk]
      rw [collect_outer p t _ hnd.2 (by
        intro k hk' hin
        have : k ∈ Map.keys res ∨ k = e.1 := by
          simp only [Map.keys, List.map_append, List.mem_append, List.map_cons, List.map_nil,
            List.mem_singleton] at hin
          exact hin
        rcases this with h1 | h1
        · exact hdis k (by simp only [Map.keys, List.map_cons, List.mem_cons]; right; exact hk') h1
        · subst h1; exact hnd.1 hk')]
      simp [collected, he]

theorem collectOnNode_eq (p : ν → Bool) (m : List (Nat × List (Nat × ν))) (h : (Map.keys m).Nodup) :
    collectOnNode p m = collected p m := by
  unfold collectOnNode
  rw [collect_outer p m [] h (by simp [Map.keys])]
  simp

theorem nodup_keys_collected (p : ν → Bool) (m : List (Nat × List (Nat × ν))) (h : (Map.keys m).Nodup) :
    (Map.keys (collected p m)).Nodup := by
  unfold collected Map.keys
  apply List.Nodup.sublist (List.Sublist.map _ List.filter_sublist)
  simpa [Map.keys, List.map_map, Function.comp_def] using h

theorem lookup_collected (p : ν → Bool) : ∀ (m : List (Nat × List (Nat × ν))) (k : Nat),
    (Map.keys m).Nodup →
    Map.lookup (collected p m) k =
      (Map.lookup m k).bind (fun inner => if idsOf p inner = [] then none else some (idsOf p inner))
  | [], _, _ => by simp [collected, Map.lookup]
  | e :: t, k, hnd => by
    obtain ⟨k', inner⟩ := e
    simp only [Map.keys, List.map_cons, List.nodup_cons] at hnd
    have hrec := lookup_collected p t k hnd.2
    have hcons : collected p ((k', inner) :: t) =
        if idsOf p inner = [] then collected p t else (k', idsOf p inner) :: collected p t := by
      by_cases he : idsOf p inner = [] <;> simp [collected, he]
    rw [hcons]
    by_cases hk : k' = k
    · subst hk
      have hnone : Map.lookup (collected p t) k' = none :=
        lookup_none_of_not_mem_keys _ _ (fun hin => hnd.1 (keys_collected_sub p t k' hin))
      by_cases he : idsOf p inner = []
      · simp [he, hnone, Map.lookup]
      · simp [he, Map.lookup]
    · by_cases he : idsOf p inner = []
      · simp [he, Map.lookup, hk, hrec]
      · simp [he, Map.lookup, hk, hrec]

/-! folds that update a map entry by entry vs. one `map` over the map -/

theorem keys_adjust (m : List (Nat × ν)) (k : Nat) (f : ν → ν) : Map.keys (adjust m k f) = Map.keys m := by
  unfold adjust
  cases h : Map.lookup m k with
  | none => rfl
  | some v =>
    simp only
    induction m with
    | nil => simp [Map.lookup] at h
    | cons p t ih =>
      obtain ⟨k', w⟩ := p
      by_cases hk : k' = k
      · subst hk; simp [Map.upsert, Map.keys]
      · simp only [Map.lookup, hk, ite_false] at h
        have := ih h
        simp only [Map.keys] at this
        simp [Map.upsert, hk, Map.keys, this]

theorem adjust_eq_map : ∀ (m : List (Nat × ν)) (k : Nat) (f : ν → ν), (Map.keys m).Nodup →
    adjust m k f = m.map (fun p => if p.1 = k then (p.1, f p.2) else p)
  | [], _, _, _ => by simp [adjust, Map.lookup]
  | (k', w) :: t, k, f, hnd => by
    simp only [Map.keys, List.map_cons, List.nodup_cons] at hnd
    by_cases hk : k' = k
    · subst hk
      have htail : t.map (fun p => if p.1 = k' then (p.1, f p.2) else p) = t := by
        conv => rhs; rw [← List.map_id t]
        apply List.map_congr_left
        intro p hp
        have : p.1 ≠ k' := fun e => hnd.1 (e ▸ List.mem_map.mpr ⟨p, hp, rfl⟩)
        simp [this]
      simp [adjust, Map.lookup, Map.upsert, htail]
    · have ih := adjust_eq_map t k f hnd.2
      unfold adjust at ih ⊢
      simp only [Map.lookup, hk, ite_false, List.map_cons]
      cases h : Map.lookup t k with
      | none => simp only [h] at ih; simp only; rw [← ih]
      | some v => simp only [h] at ih; simp only [Map.upsert, hk, ite_false]; rw [ih]

/-- a fold of `adjust`s over a duplicate-free work list is one `map` over the target -/
theorem foldl_adjust_eq_map (g : Nat → α → ν → ν) : ∀ (l : List (Nat × α)) (m : List (Nat × ν)),
    (Map.keys l).Nodup → (Map.keys m).Nodup →
    l.foldl (fun m e => adjust m e.1 (g e.1 e.2)) m =
      m.map (fun p => match Map.lookup l p.1 with
        | some x => (p.1, g p.1 x p.2)
        | none => p)
  | [], m, _, _ => by simp [Map.lookup]
  | (k, x) :: t, m, hl, hm => by
    simp only [Map.keys, List.map_cons, List.nodup_cons] at hl
    rw [List.foldl_cons]
    have hm' : (Map.keys (adjust m k (g k x))).Nodup := by rw [keys_adjust]; exact hm
    rw [foldl_adjust_eq_map g t _ hl.2 hm', adjust_eq_map m k _ hm, List.map_map]
    apply List.map_congr_left
    intro p _
    by_cases hk : p.1 = k
    · have hnone : Map.lookup t k = none := lookup_none_of_not_mem_keys t k hl.1
      simp [Function.comp, hk, Map.lookup, hnone]
    · have hk' : ¬ k = p.1 := fun e => hk e.symm
      simp [Function.comp, hk, hk', Map.lookup]

/-- the Go idiom `s := m[k]; …; m[k] = f(s)` (zero value for a missing key) is `adjust` when the key
is present -/
theorem upsert_getD_eq_adjust (m : List (Nat × ν)) (k : Nat) (z : ν) (f : ν → ν) (h : k ∈ Map.keys m) :
    Map.upsert m k (f ((Map.lookup m k).getD z)) = adjust m k f := by
  unfold adjust
  cases hl : Map.lookup m k with
  | some v => simp
  | none =>
    exfalso
    induction m with
    | nil => simp [Map.keys] at h
    | cons p t ih =>
      obtain ⟨k', w⟩ := p
      by_cases hk : k' = k
      · simp [Map.lookup, hk] at hl
      · simp only [Map.lookup, hk, ite_false] at hl
        simp only [Map.keys, List.map_cons, List.mem_cons] at h
        rcases h with h | h
        · exact hk h.symm
        · exact ih h hl

theorem foldl_upsertD_eq_map (z : ν) (f : Nat → ν → ν) : ∀ (ks : List Nat) (m : List (Nat × ν)),
    ks.Nodup → (Map.keys m).Nodup → (∀ k ∈ ks, k ∈ Map.keys m) →
    ks.foldl (fun m k => Map.upsert m k (f k ((Map.lookup m k).getD z))) m =
      m.map (fun p => if p.1 ∈ ks then (p.1, f p.1 p.2) else p)
  | [], m, _, _, _ => by simp
  | k :: t, m, hks, hm, hsub => by
    simp only [List.nodup_cons] at hks
    rw [List.foldl_cons, upsert_getD_eq_adjust m k z (f k) (hsub k List.mem_cons_self)]
    have hm' : (Map.keys (adjust m k (f k))).Nodup := by rw [keys_adjust]; exact hm
    rw [foldl_upsertD_eq_map z f t _ hks.2 hm' (by
      intro k' hk'; rw [keys_adjust]; exact hsub k' (List.mem_cons_of_mem _ hk'))]
    rw [adjust_eq_map m k _ hm, List.map_map]
    apply List.map_congr_left
    intro p _
    by_cases hk : p.1 = k
    · have : p.1 ∉ t := fun hin => hks.1 (hk ▸ hin)
      simp [Function.comp, hk, hks.1]
    · simp [Function.comp, hk]

end Generic

/-! ### the handlers written with the helpers compute what `Master.step` computes -/

theorem mem_idsOf {ν : Type} (p : ν → Bool) (inner : List (Nat × ν)) (h : (Map.keys inner).Nodup)
    (e : Nat × ν) (he : e ∈ inner) : e.1 ∈ idsOf p inner ↔ p e.2 = true := by
  unfold idsOf
  simp only [List.mem_map, List.mem_filter]
  constructor
  · rintro ⟨e', ⟨hin, hp⟩, hk⟩
    have h1 := lookup_of_mem inner e'.1 e'.2 h hin
    have h2 := lookup_of_mem inner e.1 e.2 h he
    rw [hk] at h1
    have : e'.2 = e.2 := by rw [h1] at h2; exact Option.some.inj h2
    rw [← this]; exact hp
  · intro hp; exact ⟨e, ⟨he, hp⟩, rfl⟩

theorem nodup_idsOf {ν : Type} (p : ν → Bool) (inner : List (Nat × ν)) (h : (Map.keys inner).Nodup) :
    (idsOf p inner).Nodup := by
  unfold idsOf
  exact List.Nodup.sublist (List.Sublist.map _ List.filter_sublist) h

theorem idsOf_sub_keys {ν : Type} (p : ν → Bool) (inner : List (Nat × ν)) :
    ∀ k ∈ idsOf p inner, k ∈ Map.keys inner := by
  intro k hk
  simp only [idsOf, List.mem_map, List.mem_filter] at hk
  obtain ⟨e, ⟨he, _⟩, rfl⟩ := hk
  exact List.mem_map.mpr ⟨e, he, rfl⟩

/-- inner loop of onNodeStartup over the ids `ReplicasOnNode` lists for one database = `startupDb` -/
theorem startup_inner (id : Nat) : ∀ (a : Assignment) (ss : List (Nat × ShardState)),
    (idsOf (fun rs : List Nat => rs.contains id) a).foldl (startupShard id) ss = startupDb id a ss
  | [], ss => by simp [idsOf, startupDb]
  | (sid, rs) :: t, ss => by
    have ih := startup_inner id t
    unfold startupDb at ih ⊢
    rw [List.foldl_cons]
    by_cases hc : id ∈ rs
    · have : idsOf (fun rs : List Nat => rs.contains id) ((sid, rs) :: t) =
          sid :: idsOf (fun rs : List Nat => rs.contains id) t := by simp [idsOf, hc]
      rw [this, List.foldl_cons, ih]
      simp [hc, startupShard]
    · have : idsOf (fun rs : List Nat => rs.contains id) ((sid, rs) :: t) =
          idsOf (fun rs : List Nat => rs.contains id) t := by simp [idsOf, hc]
      rw [this, ih]
      simp [hc]

/-- inner loop of onNodeFailure over the ids `LeadersOnNode` lists for one database = `failureDb` -/
theorem failure_inner (id : Nat) (a : Assignment) (live : List Nat) (ss : List (Nat × ShardState))
    (h : (Map.keys ss).Nodup) :
    (idsOf (fun s : ShardState => decide (s.leader = (id : Int))) ss).foldl (failureShard a live) ss
      = failureDb id a live ss := by
  have := foldl_upsertD_eq_map ShardState.zero (fun sid s => elected ((Map.lookup a sid).getD []) live s)
    (idsOf (fun s : ShardState => decide (s.leader = (id : Int))) ss) ss
    (nodup_idsOf _ ss h) h (idsOf_sub_keys _ ss)
  unfold failureShard
  rw [this]
  unfold failureDb
  apply List.map_congr_left
  intro e he
  have hm := mem_idsOf (fun s : ShardState => decide (s.leader = (id : Int))) ss h e he
  by_cases hl : e.2.leader = (id : Int)
  · have : e.1 ∈ idsOf (fun s : ShardState => decide (s.leader = (id : Int))) ss := hm.mpr (by simp [hl])
    simp [this, hl]
  · have : e.1 ∉ idsOf (fun s : ShardState => decide (s.leader = (id : Int))) ss :=
      fun hin => hl (by simpa using hm.mp hin)
    simp [this, hl]

theorem onNodeStartup_eq (asg : List (Nat × Assignment)) (shards : List (Nat × List (Nat × ShardState)))
    (id : Nat) (ha : (Map.keys asg).Nodup) (hs : (Map.keys shards).Nodup) :
    onNodeStartup asg shards id =
      shards.map (fun (db, ss) =>
        match Map.lookup asg db with
        | some a => (db, startupDb id a ss)
        | none => (db, ss)) := by
  unfold onNodeStartup replicasOnNode
  rw [collectOnNode_eq _ asg ha]
  rw [foldl_adjust_eq_map (fun _ (ids : List Nat) (ss : List (Nat × ShardState)) => ids.foldl (startupShard id) ss)
    _ shards (nodup_keys_collected _ asg ha) hs]
  apply List.map_congr_left
  intro e _
  obtain ⟨db, ss⟩ := e
  simp only
  rw [lookup_collected _ asg db ha]
  cases hl : Map.lookup asg db with
  | none => rfl
  | some a =>
    have hin := startup_inner id a ss
    simp only [Option.bind]
    by_cases he : idsOf (fun rs : List Nat => rs.contains id) a = []
    · rw [if_pos he]
      rw [he] at hin
      simp only [List.foldl_nil] at hin
      simp only; rw [← hin]
    · rw [if_neg he]
      simp only; rw [hin]

theorem onNodeFailure_eq (asg : List (Nat × Assignment)) (shards : List (Nat × List (Nat × ShardState)))
    (live : List Nat) (id : Nat) (hs : (Map.keys shards).Nodup)
    (hss : ∀ e ∈ shards, (Map.keys e.2).Nodup) :
    onNodeFailure asg shards live id =
      shards.map (fun (db, ss) => (db, failureDb id ((Map.lookup asg db).getD []) live ss)) := by
  unfold onNodeFailure leadersOnNode
  rw [collectOnNode_eq _ shards hs]
  rw [foldl_adjust_eq_map (fun db (ids : List Nat) (ss : List (Nat × ShardState)) =>
      ids.foldl (failureShard ((Map.lookup asg db).getD []) live) ss)
    _ shards (nodup_keys_collected _ shards hs) hs]
  apply List.map_congr_left
  intro e he
  obtain ⟨db, ss⟩ := e
  simp only
  rw [lookup_collected _ shards db hs, lookup_of_mem shards db ss hs he]
  have hin := failure_inner id ((Map.lookup asg db).getD []) live ss (hss _ he)
  simp only [Option.bind]
  by_cases hid : idsOf (fun s : ShardState => decide (s.leader = (id : Int))) ss = []
  · rw [if_pos hid]
    rw [hid] at hin
    simp only [List.foldl_nil] at hin
    simp only; rw [← hin]
  · rw [if_neg hid]
    simp only; rw [hin]

/-- REFINEMENT: on every state whose maps have distinct keys (they are Go maps) the handlers written
with LeadersOnNode / ReplicasOnNode / DropDatabase / NodeOnline / NodeOffline compute exactly
`Master.step` — for any number of databases -/
theorem step2_eq_step_of_keys (st : St) (ev : Event) (ha : (Map.keys st.asg).Nodup)
    (hs : (Map.keys st.shards).Nodup) (hss : ∀ e ∈ st.shards, (Map.keys e.2).Nodup) :
    step2 st ev = step st ev := by
  cases ev with
  | nodeUp id =>
    show ({ st with live := nodeOnline st.live id, shards := onNodeStartup st.asg st.shards id } : St) = _
    rw [onNodeStartup_eq st.asg st.shards id ha hs]; rfl
  | nodeDown id =>
    show ({ st with live := nodeOffline st.live id,
                    shards := onNodeFailure st.asg st.shards (nodeOffline st.live id) id } : St) = _
    rw [onNodeFailure_eq st.asg st.shards _ id hs hss]; rfl
  | assignChanged db a => rfl
  | dbCfg db => rfl
  | dropDb db =>
    simp only [step2, step, dropDatabase]

theorem step2_eq_step_of_inv (st : St) (h : Inv st) (ev : Event) : step2 st ev = step st ev := by
  apply step2_eq_step_of_keys st ev h.asg_keys h.shards_keys
  intro e he
  obtain ⟨a, _, hdb⟩ := h.db_ok e.1 e.2 (lookup_of_mem st.shards e.1 e.2 h.shards_keys he)
  exact hdb.st_keys

theorem run2_eq_run_of_inv : ∀ (es : List Event) (st : St), Inv st → (∀ e ∈ es, WellFormed e) →
    run2 st es = run st es
  | [], _, _, _ => rfl
  | e :: t, st, h, hw => by
    have hw' : ∀ e' ∈ t, WellFormed e' := fun e' he' => hw e' (List.mem_cons_of_mem _ he')
    have h1 := step2_eq_step_of_inv st h e
    have hinv := inv_step h e (hw e List.mem_cons_self)
    simp only [run2, run, List.foldl_cons]
    rw [h1]
    exact run2_eq_run_of_inv t (step st e) hinv hw'

end LinVerif.Lemmas.C18
