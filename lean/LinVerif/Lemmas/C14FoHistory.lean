/-
C14 round 12 — a `FixedOffsetDecoder` object under a history of calls (`Dec.step/run`): reads return the object
unchanged, so the object after any history is the object after the history's `Unmarshal` inputs alone.
-/
import LinVerif.Model.FixedOffset

namespace LinVerif.FixedOffset

/-- reads (`Get`, `GetBlock`, `Size`, `ValueWidth`) -/
def DecOp.isRead : DecOp → Bool
  | .unm _ => false
  | _ => true

theorem Dec.step_read_state (d : Dec) (op : DecOp) (h : op.isRead = true) : (d.step op).2 = d := by
  cases op <;> simp_all [Dec.step, DecOp.isRead]

/-- the object after a history = the object after the `Unmarshal` inputs of that history -/
theorem Dec.run_state (ops : List DecOp) : ∀ d : Dec, (d.run ops).2 = d.feed (unmInputs ops) := by
  induction ops with
  | nil => intro d; rfl
  | cons op ops ih =>
    intro d
    cases op <;> simp only [Dec.run, Dec.step, unmInputs] <;> rw [ih] <;> rfl

/-- a list of `GetBlock` questions on one data block is answered one by one from the SAME object -/
theorem Dec.run_blks (data : List Nat) (idxs : List Nat) : ∀ d : Dec,
    (d.run (idxs.map (fun (i : Nat) => DecOp.blk (i : Int) data))).1
      = idxs.map (fun (i : Nat) => DecAns.blk (d.getBlock (i : Int) data)) ∧
    (d.run (idxs.map (fun (i : Nat) => DecOp.blk (i : Int) data))).2 = d := by
  induction idxs with
  | nil => intro d; exact ⟨rfl, rfl⟩
  | cons i idxs ih =>
    intro d
    simp only [List.map_cons, Dec.run, Dec.step]
    exact ⟨by rw [(ih d).1], (ih d).2⟩

/-- reads only: the object is unchanged -/
theorem Dec.run_reads_state (ops : List DecOp) (h : ∀ op ∈ ops, op.isRead = true) :
    ∀ d : Dec, (d.run ops).2 = d := by
  induction ops with
  | nil => intro d; rfl
  | cons op ops ih =>
    intro d
    simp only [Dec.run]
    rw [Dec.step_read_state d op (h op (by simp))]
    exact ih (fun o ho => h o (by simp [ho])) d

end LinVerif.FixedOffset
