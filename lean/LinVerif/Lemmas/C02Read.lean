/-
C02: what a read through an open snapshot returns in a `Safe` state, and how installed edit logs
show up in the current version.
-/
import LinVerif.Lemmas.C02Safe3
import LinVerif.Lemmas.C02Frame
set_option linter.unusedSimpArgs false
set_option linter.unusedVariables false

namespace LinVerif.Lemmas.C02
open LinVerif.VersionSet LinVerif.TableCache

/-- frame facts along a run from a reachable state of the proved variant (the step of a commit
that stores the file counter back needs `Safe`: the number it read is still the counter) -/
theorem frame_run {cfg : Cfg} {acts : List Act} {s s' : St} (hr : cfg.recheck = true) (hcl : cfg.cloneLocked = true)
    (hal : cfg.allocLocked = true) (hfe : cfg.findErrReleases = false) (hpf : cfg.pendFirst = true)
    (hcc : cfg.closeCAS = true) (hga : cfg.getReaderAtomic = true) (hlf : cfg.listFirst = true) (hs : Safe s) (h : run cfg s acts = some s') :
    Frame s s' := by
  induction acts generalizing s with
  | nil => simp only [run] at h; cases h; exact Frame.refl _
  | cons a rest ih =>
    simp only [run] at h
    split at h
    next s1 hs1 =>
      exact Frame.trans (frame_step hpf (fun k hk hp => (hs.jobs k hk).nfread hp) hs1)
        (ih (safe_step hr hcl hal hfe hpf hcc hga hlf hs hs1) h)
    next => cases h

/-- the content of version data `v` for key `k` given the table contents -/
def contentOf (v : VData) (content : Nat → Content) (k : Nat) : List (Nat × List Nat) :=
  (findFiles v k).filterMap (fun m => (lookupKey (content m.no) k).map (fun ts => (m.no, ts)))

theorem filterMap_congr' {α β : Type} {f g : α → Option β} {l : List α} (h : ∀ a ∈ l, f a = g a) :
    l.filterMap f = l.filterMap g := by
  induction l with
  | nil => rfl
  | cons a as ih =>
    simp only [List.filterMap_cons, h a (by simp)]
    rw [ih (fun x hx => h x (by simp [hx]))]

theorem findFiles_sub {v : VData} {k : Nat} {m : FileMeta} (h : m ∈ findFiles v k) : m.no ∈ v.nos := by
  simp only [findFiles, List.mem_filter] at h
  exact List.mem_map.mpr ⟨m, h.1, rfl⟩

theorem readKey_safe {s : St} {i : Nat} (h : Safe s) (hi : i < s.nSnap) (ho : (s.snap i).st = .opened) (k : Nat) :
    readKey s i k = some (contentOf (s.ver (s.snap i).ver) s.content k) := by
  have hact := h.open_active i hi ho
  have hall : (findFiles (s.ver (s.snap i).ver) k).all (fun m => readable s m.no) = true := by
    rw [List.all_eq_true]
    intro m hm
    have := h.files_on_disk _ hact _ (findFiles_sub hm)
    simp [readable, this]
  simp only [readKey, hall, if_true, contentOf]

theorem contentOf_frame {s s' : St} {i : Nat} (h : Safe s) (hf : Frame s s') (hi : i < s.nSnap) (k : Nat) :
    contentOf (s'.ver (s'.snap i).ver) s'.content k = contentOf (s.ver (s.snap i).ver) s.content k := by
  have hv := h.ver_bound.2.2 i hi
  rw [hf.snap_ver i hi, hf.ver_eq _ hv]
  simp only [contentOf]
  apply filterMap_congr'
  intro m hm
  have := h.file_bound.1 _ _ (findFiles_sub hm)
  rw [hf.content_eq _ this]

/-- an added table of an installed edit log is listed by the version obtained by replaying the
history, unless a later edit log deleted it -/
theorem mem_replay {later earlier : List Edit} {e : Edit} {m : FileMeta} (hm : m ∈ e.adds)
    (hnd : ∀ e' ∈ later, (m.level, m.no) ∉ e'.dels) :
    m ∈ ((later ++ e :: earlier).foldr (fun e v => applyEdit v e) ({} : VData)).files := by
  induction later with
  | nil =>
    simp only [List.nil_append, List.foldr_cons, applyEdit, List.mem_append]
    exact Or.inr hm
  | cons e' rest ih =>
    have ih' := ih (fun x hx => hnd x (by simp [hx]))
    have hd := hnd e' (by simp)
    simp only [List.cons_append, List.foldr_cons, applyEdit, List.mem_append, List.mem_filter]
    left
    refine ⟨ih', ?_⟩
    simpa using hd

end LinVerif.Lemmas.C02
