/-
C09: histories of the sequential node model (runs, observations) and the two inductions over them
that the property theorems of Props/C09 rest on.
-/
import LinVerif.Lemmas.C09Run
import LinVerif.Lemmas.C09Index

namespace LinVerif.IdAssign

/-- the ops of one run of the node: no reopen / crash, and no series refused by the series limit -/
def epochOk (c : Cfg) : Node → List Op → Prop
  | _, [] => True
  | nd, op :: rest => op.isRecover = false ∧ (step c nd op).2 ≠ some .tooManySeries ∧ epochOk c (step c nd op).1 rest

instance epochOkDec (c : Cfg) : ∀ (nd : Node) (ops : List Op), Decidable (epochOk c nd ops)
  | _, [] => isTrue trivial
  | nd, op :: rest =>
    have := epochOkDec c (step c nd op).1 rest
    inferInstanceAs (Decidable (op.isRecover = false ∧ (step c nd op).2 ≠ some .tooManySeries ∧ epochOk c (step c nd op).1 rest))

/-- any history (reopen / crashes included) in which no series is refused by the series limit -/
def historyOk (c : Cfg) : Node → List Op → Prop
  | _, [] => True
  | nd, op :: rest => (step c nd op).2 ≠ some .tooManySeries ∧ historyOk c (step c nd op).1 rest

/-- the answers of the get-or-create calls of a history: (name, id) -/
def observations (c : Cfg) : Node → List Op → List (NameKey × Nat)
  | _, [] => []
  | nd, op :: rest =>
    (match op.key, (step c nd op).2 with
      | some k, some (.id i) => [(k, i)]
      | _, _ => []) ++ observations c (step c nd op).1 rest

theorem invariant_run (c : Cfg) (ops : List Op) : ∀ nd, NodeInv nd → historyOk c nd ops → NodeInv (run c nd ops) := by
  induction ops with
  | nil => intro nd inv _; exact inv
  | cons op rest ih =>
    intro nd inv hh
    obtain ⟨h1, h2⟩ := hh
    simp only [run]
    apply ih _ _ h2
    by_cases hr : op.isRecover = true
    · exact (recover_step_spec c inv op hr).1
    · exact (step_spec c inv op (by simpa using hr) h1).1

/-- one run of the node: invariant at the end, views only grow, every answer is in the final view -/
theorem epoch_final (c : Cfg) (ops : List Op) : ∀ nd, NodeInv nd → epochOk c nd ops →
    NodeInv (run c nd ops) ∧ Mono nd (run c nd ops) ∧
    ∀ k i, (k, i) ∈ observations c nd ops → (run c nd ops).view k = some i := by
  induction ops with
  | nil => intro nd inv _; exact ⟨inv, Mono.refl _, fun _ _ h => by cases h⟩
  | cons op rest ih =>
    intro nd inv hh
    obtain ⟨hr, hno, hrest⟩ := hh
    obtain ⟨i1, m1, r1, _⟩ := step_spec c inv op hr hno
    obtain ⟨i2, m2, r2⟩ := ih _ i1 hrest
    simp only [run]
    refine ⟨i2, m1.trans m2, ?_⟩
    intro k i hk
    simp only [observations, List.mem_append] at hk
    rcases hk with hk | hk
    · apply m2
      cases hkey : op.key with
      | none => rw [hkey] at hk; cases hk
      | some k0 =>
        cases hout : (step c nd op).2 with
        | none => rw [hkey, hout] at hk; cases hk
        | some o =>
          cases o with
          | id j =>
            rw [hkey, hout] at hk
            simp at hk
            rw [hk.1, hk.2]
            exact r1 k0 j hkey hout
          | tooManyFields | tooManyTags | tooManySeries | stuck => rw [hkey, hout] at hk; cases hk
    · exact r2 k i hk

theorem tvStep_epoch (c : Cfg) (ops : List Op) : ∀ nd, NodeInv nd → epochOk c nd ops → TvStep nd (run c nd ops) := by
  induction ops with
  | nil => intro nd _ _; exact TvStep.refl _
  | cons op rest ih =>
    intro nd inv hh
    obtain ⟨hr, hno, hrest⟩ := hh
    simp only [run]
    exact (tvStep_step c inv op hr).trans (ih _ (step_spec c inv op hr hno).1 hrest)

end LinVerif.IdAssign
