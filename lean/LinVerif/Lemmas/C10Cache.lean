/-
C10 helper lemmas, part 8: the bucket cache of indexKVStore under every interleaving of one exact
lookup with the steps of Flush; dictionary compaction keeps every key paired with its own id.
-/
import LinVerif.Lemmas.C10Park

set_option linter.unusedSimpArgs false
set_option linter.unusedVariables false

namespace LinVerif.TagFilter
open LinVerif

/-- every cached bucket is the bucket of the store's CURRENT snapshot -/
def Coherent (s : KVStore) : Prop := ∀ k b, (k, b) ∈ s.cache → b = bucketOf s.snapFiles k

theorem exactFind_coherent {s : KVStore} (hc : Coherent s) (kid : KeyId) (v : Bytes) :
    s.exactFind kid v =
      match partFind s.mtb kid v with
      | some id => some id
      | none =>
        match partFind (optList s.imm) kid v with
        | some id => some id
        | none => partFind (bucketOf s.snapFiles kid) kid v := by
  unfold KVStore.exactFind
  cases partFind s.mtb kid v with
  | some id => rfl
  | none =>
    cases partFind (optList s.imm) kid v with
    | some id => rfl
    | none =>
      cases hl : Map.lookup s.cache kid with
      | none => rfl
      | some b => simp only [hc kid b (lookup_some_mem hl)]

theorem mem_bucketOf {files : List DictPart} {kid : KeyId} {e : KeyId × Bytes × ValId} :
    e ∈ bucketOf files kid ↔ e ∈ files.flatten ∧ e.1 = kid := by
  unfold bucketOf
  rw [List.mem_filter]
  simp

/-- the exact lookup in a bucket finds every value the files hold under the key -/
theorem partFind_bucketOf_isSome {files : List DictPart} {kid : KeyId} {v : Bytes} {id : ValId}
    (h : (kid, v, id) ∈ files.flatten) : (partFind (bucketOf files kid) kid v).isSome = true := by
  cases hf : partFind (bucketOf files kid) kid v with
  | some x => rfl
  | none => exact absurd (mem_bucketOf.mpr ⟨h, rfl⟩) (partFind_none hf id)

/-- **every interleaving** of one exact lookup (of any bucket `k`) with the steps of a flush in the
source order (file committed, then snapshot swap + table cleared + cache purged under one lock)
ends with the batch visible through the new snapshot and a coherent cache -/
theorem flush_lookup_interleavings (s : KVStore) (hc : Coherent s) (p : DictPart) (himm : s.imm = some p)
    (k : KeyId) (sched : List PStep)
    (hs : sched ∈ merges [PStep.l (.take k), PStep.l (.add k)] ((flushOrder true).map PStep.f)) :
    Coherent (sched.foldl pstep (s, {})).1 ∧ (sched.foldl pstep (s, {})).1.imm = none ∧
    (sched.foldl pstep (s, {})).1.snapFiles = s.files ++ [p] ∧ (sched.foldl pstep (s, {})).1.mtb = s.mtb := by
  simp only [flushOrder, ite_true, List.map_cons, List.map_nil, merges, mergesAux, List.map_append, List.append_nil,
    List.mem_append, List.mem_cons, List.mem_map, List.not_mem_nil, or_false, exists_eq_or_imp, exists_eq_left,
    List.cons_append, List.nil_append] at hs
  have hne : ¬ s.snapGen = s.snapGen + 1 := by omega
  have hne' : ¬ s.snapGen + 1 = s.snapGen := by omega
  rcases hs with rfl | rfl | rfl | rfl | rfl | rfl <;>
    simp [pstep, lstep, KVStore.fstep, himm, Coherent, hne, hne'] <;>
    first
      | (intro a b hab; exact hc a b hab)
      | (intro a b hab; rcases hab with hab | ⟨rfl, rfl⟩ <;> first | exact hc a b hab | rfl)
      | skip

/-! ### dictionary compaction -/

theorem mem_insertByKey {e x : Bytes × ValId} {l : List (Bytes × ValId)} :
    x ∈ insertByKey e l ↔ x = e ∨ x ∈ l := by
  induction l with
  | nil => simp [insertByKey]
  | cons y t ih =>
    unfold insertByKey
    split
    · simp
    · simp only [List.mem_cons, ih]
      constructor
      · rintro (h | h | h)
        · exact Or.inr (Or.inl h)
        · exact Or.inl h
        · exact Or.inr (Or.inr h)
      · rintro (h | h | h)
        · exact Or.inr (Or.inl h)
        · exact Or.inl h
        · exact Or.inr (Or.inr h)

theorem mem_trieIterate {t : List (Bytes × ValId)} {x : Bytes × ValId} : x ∈ trieIterate t ↔ x ∈ t := by
  unfold trieIterate
  induction t with
  | nil => simp
  | cons y r ih => simp only [List.foldr_cons, mem_insertByKey, ih, List.mem_cons]

/-- **compaction keeps the key → id pairing**: the merged bucket holds exactly the (key, id) pairs of
the merged tries — for every key set (keys that are prefixes of other keys, of any lengths, included) -/
theorem mem_mergeTries {ts : List (List (Bytes × ValId))} {x : Bytes × ValId} :
    x ∈ mergeTries ts ↔ ∃ t ∈ ts, x ∈ t := by
  unfold mergeTries
  simp only [List.mem_flatMap, mem_trieIterate]

end LinVerif.TagFilter
