/-
C04 — the target slot range `merger.prepare` computes for a rollup job, for ARBITRARY source range
ends and ratio: exact formulas for its two ends and its length, no source slot of the range falls
outside it and both ends are hit (the range is tight); and the exact condition under which the
"simplified" end `Start + (sourceEnd - sourceStart)/ratio` is one slot short.
-/
import LinVerif.Lemmas.C04Arith

set_option linter.unusedSimpArgs false
namespace LinVerif.Lemmas.C04
open LinVerif.Rollup

/-! ### division facts (all `s ≤ e`, all ratios) -/

/-- the quotient of the end in terms of the quotient of the start: the start's offset inside its
target slot is carried into the distance -/
theorem div_end_eq (s e ρ : Nat) (hρ : 0 < ρ) (hse : s ≤ e) :
    e / ρ = s / ρ + (s % ρ + (e - s)) / ρ := by
  have h : e = ρ * (s / ρ) + (s % ρ + (e - s)) := by
    have := Nat.div_add_mod s ρ; omega
  calc e / ρ = (ρ * (s / ρ) + (s % ρ + (e - s))) / ρ := by rw [← h]
    _ = s / ρ + (s % ρ + (e - s)) / ρ := Nat.mul_add_div hρ _ _

/-- `Start + (End-Start)/ratio` never overshoots and is at most one slot short … -/
theorem shortcut_bounds (s e ρ : Nat) (hρ : 0 < ρ) (hse : s ≤ e) :
    s / ρ + (e - s) / ρ ≤ e / ρ ∧ e / ρ ≤ s / ρ + (e - s) / ρ + 1 := by
  have h := Nat.add_div (a := s) (b := e - s) hρ
  have he : s + (e - s) = e := by omega
  rw [he] at h
  split at h <;> omega

/-- … and it IS one slot short exactly when the offsets of the start and of the distance add up to a
full target slot -/
theorem shortcut_short_iff (s e ρ : Nat) (hρ : 0 < ρ) (hse : s ≤ e) :
    s / ρ + (e - s) / ρ < e / ρ ↔ ρ ≤ s % ρ + (e - s) % ρ := by
  have h := Nat.add_div (a := s) (b := e - s) hρ
  have he : s + (e - s) = e := by omega
  rw [he] at h
  split at h <;> omega

/-- a source range that starts on a target-slot boundary is never cut short -/
theorem shortcut_exact_of_aligned (s e ρ : Nat) (hρ : 0 < ρ) (hse : s ≤ e) (ha : s % ρ = 0) :
    s / ρ + (e - s) / ρ = e / ρ := by
  have h1 := (shortcut_short_iff s e ρ hρ hse).not
  have h2 := shortcut_bounds s e ρ hρ hse
  have : (e - s) % ρ < ρ := Nat.mod_lt _ hρ
  omega

/-! ### the source range of `prepare` -/

theorem foldl_min_le (rest : List MBlock) : ∀ a : Nat,
    rest.foldl (fun acc x => if x.start < acc then x.start else acc) a ≤ a := by
  induction rest with
  | nil => intro a; simp
  | cons x t ih =>
    intro a
    simp only [List.foldl_cons]
    split
    · exact Nat.le_trans (ih _) (by omega)
    · exact ih a

theorem le_foldl_max (rest : List MBlock) : ∀ a : Nat,
    a ≤ rest.foldl (fun acc x => if acc < x.stop then x.stop else acc) a := by
  induction rest with
  | nil => intro a; simp
  | cons x t ih =>
    intro a
    simp only [List.foldl_cons]
    split
    · exact Nat.le_trans (by omega) (ih _)
    · exact ih a

/-- the merged source range is not empty when the first block's range is not -/
theorem prepare_src_le (r : R) (b : MBlock) (rest : List MBlock) (p : Prep) (hb : b.start ≤ b.stop)
    (hp : prepare r (b :: rest) = some p) : p.srcStart ≤ p.srcEnd := by
  simp only [prepare, Option.some.injEq] at hp
  subst hp
  exact Nat.le_trans (foldl_min_le rest b.start) (Nat.le_trans hb (le_foldl_max rest b.stop))

/-- what `prepare` takes from the rollup object -/
theorem prepare_fields (r : R) (blocks : List MBlock) (p : Prep) (hp : prepare r blocks = some p) :
    p.tStart = r.calcSlot (r.getTimestamp p.srcStart) ∧ p.tEnd = r.calcSlot (r.getTimestamp p.srcEnd) ∧
    p.ratio = r.intervalRatio ∧ p.baseSlot = r.baseSlot := by
  cases blocks with
  | nil => simp [prepare] at hp
  | cons b rest =>
    simp only [prepare, Option.some.injEq] at hp
    subst hp
    exact ⟨rfl, rfl, rfl, rfl⟩

theorem getTimestamp_zero (r : R) : r.getTimestamp ((0 : Nat) : Int) = r.sourceFTime := by
  simp [R.getTimestamp]

/-- The target range of a rollup job when the slot of the timestamp of source slot `t` is
`b + t / ρ` (what the placement lemmas give under the interval guard, `b` = base slot, `ρ` = ratio):
exact ends, exact length, every source slot of the merged range gets a position inside the range,
the first and the last position are hit. -/
theorem prepare_range_of_placement (r : R) (b ρ : Nat) (hρ : 0 < ρ) (hr : r.intervalRatio = (ρ : Int))
    (blocks : List MBlock) (p : Prep) (hp : prepare r blocks = some p) (hse : p.srcStart ≤ p.srcEnd)
    (hplace : ∀ t : Nat, t ≤ p.srcEnd → r.calcSlot (r.getTimestamp t) = ((b + t / ρ : Nat) : Int))
    (hsmall : b + p.srcEnd / ρ < 65536) :
    p.tStart = ((b + p.srcStart / ρ : Nat) : Int)
    ∧ p.tEnd = ((b + p.srcEnd / ρ : Nat) : Int)
    ∧ p.tEnd - p.tStart = (((p.srcStart % ρ + (p.srcEnd - p.srcStart)) / ρ : Nat) : Int)
    ∧ p.length = p.srcEnd / ρ - p.srcStart / ρ + 1
    ∧ (∀ t : Nat, p.srcStart ≤ t → t ≤ p.srcEnd →
        0 ≤ targetPos p.ratio p.baseSlot p.tStart t ∧ targetPos p.ratio p.baseSlot p.tStart t < p.length)
    ∧ targetPos p.ratio p.baseSlot p.tStart p.srcStart = 0
    ∧ targetPos p.ratio p.baseSlot p.tStart p.srcEnd = (p.length : Int) - 1 := by
  obtain ⟨f1, f2, f3, f4⟩ := prepare_fields r blocks p hp
  have hs := hplace p.srcStart hse
  have he := hplace p.srcEnd (Nat.le_refl _)
  have hbase : p.baseSlot = (b : Int) := by
    rw [f4, R.baseSlot, ← getTimestamp_zero r, hplace 0 (Nat.zero_le _)]
    simp
  have hmono : p.srcStart / ρ ≤ p.srcEnd / ρ := Nat.div_le_div_right hse
  have hd := div_end_eq p.srcStart p.srcEnd ρ hρ hse
  have hts : p.tStart = ((b + p.srcStart / ρ : Nat) : Int) := by rw [f1, hs]
  have hte : p.tEnd = ((b + p.srcEnd / ρ : Nat) : Int) := by rw [f2, he]
  have hpos : ∀ t : Nat, targetPos p.ratio p.baseSlot p.tStart t =
      ((b + t / ρ : Nat) : Int) - ((b + p.srcStart / ρ : Nat) : Int) := by
    intro t
    unfold targetPos
    rw [f3, hr, hbase, hts]
    push_cast
    rfl
  have hposS := hpos p.srcStart
  have hposE := hpos p.srcEnd
  have hlen : p.length = p.srcEnd / ρ - p.srcStart / ρ + 1 := by
    unfold Prep.length u16
    rw [hts, hte]
    generalize p.srcStart / ρ = qs at *
    generalize p.srcEnd / ρ = qe at *
    omega
  refine ⟨hts, hte, ?_, hlen, ?_, ?_, ?_⟩
  · rw [hts, hte]
    generalize (p.srcStart % ρ + (p.srcEnd - p.srcStart)) / ρ = dq at *
    generalize p.srcStart / ρ = qs at *
    generalize p.srcEnd / ρ = qe at *
    omega
  · intro t h1 h2
    have m1 : p.srcStart / ρ ≤ t / ρ := Nat.div_le_div_right h1
    have m2 : t / ρ ≤ p.srcEnd / ρ := Nat.div_le_div_right h2
    rw [hpos t, hlen]
    generalize t / ρ = qt at *
    generalize p.srcStart / ρ = qs at *
    generalize p.srcEnd / ρ = qe at *
    omega
  · rw [hposS]; omega
  · rw [hposE, hlen]
    generalize p.srcStart / ρ = qs at *
    generalize p.srcEnd / ρ = qe at *
    omega

end LinVerif.Lemmas.C04
