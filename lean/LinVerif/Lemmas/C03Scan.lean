/-
C03 helper lemmas: `dataScanner` — while the merged series ids are visited in ascending order, the
scanner of a block without zero-length series bucket (or a scanner that tolerates such a bucket)
returns for every visited id exactly the block's entry for it; hence the merge the code performs
(`mergeBlocksWith`) is the specification-level merge (`mergeBlocksIdeal`).
-/
import LinVerif.Lemmas.C03Merge

set_option linter.unusedSectionVars false
set_option linter.unusedSimpArgs false
namespace LinVerif.C03
open LinVerif.Map LinVerif.MetricBlock LinVerif.Merge

variable {V : Type}

/-- no container of the block has only zero-length series entries -/
def NoDeadBucket (b : Block V) : Prop := ∀ k ∈ highKeys b, deadBucket b k = false

/-- what the merge needs of an input block: it has series, and its scanner never meets a
zero-length bucket it cannot handle -/
def GoodBlock (tol : Bool) (b : Block V) : Prop := b.series ≠ [] ∧ (tol = true ∨ NoDeadBucket b)

theorem hkOf_mono {x y : Nat} (h : x ≤ y) : hkOf x ≤ hkOf y := Nat.div_le_div_right h

theorem lt_of_hkOf_lt {x y : Nat} (h : hkOf x < hkOf y) : x < y := by
  apply Nat.lt_of_not_le
  intro hc
  have := hkOf_mono hc
  omega

theorem highKeys_eq (b : Block V) :
    highKeys b = (b.series.map (fun p => hkOf p.1)).foldl (fun acc s => insertId s acc) [] := by
  unfold highKeys; rw [List.foldl_map]

theorem mem_highKeys (b : Block V) (k : Nat) : k ∈ highKeys b ↔ ∃ p ∈ b.series, hkOf p.1 = k := by
  rw [highKeys_eq, mem_foldl_insertId]
  simp only [List.not_mem_nil, false_or, List.mem_map]

theorem highKeys_sorted (b : Block V) : (highKeys b).Pairwise (· < ·) := by
  rw [highKeys_eq]; exact foldl_insertId_sorted _ [] (by simp)

theorem lookup_bucket (b : Block V) (k s : Nat) :
    lookup (bucket b k) s = if hkOf s = k then lookup b.series s else none := by
  unfold bucket
  induction b.series with
  | nil => simp
  | cons p t ih =>
    obtain ⟨x, e⟩ := p
    by_cases hx : hkOf x = k
    · have hb : (hkOf x == k) = true := by simp [hx]
      rw [List.filter_cons]
      simp only [hb, if_true, lookup_cons, ih]
      by_cases e1 : x = s
      · subst e1; simp [hx]
      · simp [e1]
    · have hb : (hkOf x == k) = false := by simp [hx]
      rw [List.filter_cons]
      simp only [hb, lookup_cons, ih, Bool.false_eq_true, if_false]
      by_cases e1 : x = s
      · subst e1; simp [hx]
      · simp [e1]

theorem pick_eq_lookup (es : List (Nat × Entry V)) (s : Nat) :
    pick (es.map Prod.fst) (es.map Prod.snd) s = lookup es s := by
  induction es with
  | nil => rfl
  | cons p t ih =>
    obtain ⟨x, e⟩ := p
    simp only [List.map_cons, pick, lookup_cons, ih]

/-- the scanner sits on container `k`, correctly loaded; `post` are the containers still ahead -/
def ScanInv (b : Block V) (sc : Scanner V) (k : Nat) (post : List Nat) : Prop :=
  sc.hk = k ∧ sc.cont = (bucket b k).map Prod.fst ∧ sc.ents = (bucket b k).map Prod.snd ∧ sc.rest = post

theorem next_good (tol : Bool) (b : Block V) (hg : tol = true ∨ NoDeadBucket b) (sc : Scanner V)
    (k : Nat) (r : List Nat) (hk : k ∈ highKeys b) :
    (Scanner.next tol b sc k r).2 = true ∧ ScanInv b (Scanner.next tol b sc k r).1 k r := by
  have hd : (deadBucket b k && !tol) = false := by
    rcases hg with h | h
    · simp [h]
    · simp [h k hk]
  unfold Scanner.next
  simp only [hd]
  exact ⟨rfl, rfl, rfl, rfl, rfl⟩

theorem scanLoop_correct (tol : Bool) (b : Block V) (hg : tol = true ∨ NoDeadBucket b) :
    ∀ (rem : List Nat) (sc : Scanner V) (pre : List Nat) (k : Nat) (post : List Nat),
      highKeys b = pre ++ k :: post → ScanInv b sc k post → rem.Pairwise (· < ·) →
      (∀ x ∈ b.seriesIds, hkOf x ∈ post → x ∈ rem) →
      (∀ x ∈ b.seriesIds, hkOf x ∈ pre → ∀ s ∈ rem, x < s) →
      scanLoop tol b sc rem = rem.map (fun s => (s, lookup b.series s)) := by
  intro rem
  induction rem with
  | nil => intros; rfl
  | cons s r ih =>
    intro sc pre k post hsplit hinv hrem hA hB
    have hsorted := highKeys_sorted b
    rw [hsplit, List.pairwise_append] at hsorted
    obtain ⟨_, hkpost, hprek⟩ := hsorted
    simp only [List.pairwise_cons] at hkpost
    have hpre_lt : ∀ a ∈ pre, a < k := fun a ha => hprek a ha k List.mem_cons_self
    have hpost_gt : ∀ c ∈ post, k < c := hkpost.1
    simp only [List.pairwise_cons] at hrem
    obtain ⟨h1, h2, h3, h4⟩ := hinv
    -- where can the high key of an own series lie
    have hown : ∀ e, lookup b.series s = some e → hkOf s ∈ pre ∨ hkOf s = k ∨ hkOf s ∈ post := by
      intro e he
      have : hkOf s ∈ highKeys b := (mem_highKeys b _).mpr ⟨(s, e), lookup_mem he, rfl⟩
      rw [hsplit] at this
      simpa using this
    have hnotpre : ∀ e, lookup b.series s = some e → hkOf s ∉ pre := by
      intro e he hp
      have := hB s (mem_keys_of_lookup he) hp s List.mem_cons_self
      omega
    simp only [scanLoop, List.map_cons]
    by_cases hlt : k < hkOf s
    · -- the scanner is behind: one container step
      cases hpost : post with
      | nil =>
        have hstep : Scanner.scan tol b sc s = (sc, none) := by
          unfold Scanner.scan
          simp [h1, hlt, h4, hpost]
        rw [hstep]
        have hnone : lookup b.series s = none := by
          cases hl : lookup b.series s with
          | none => rfl
          | some e =>
            rcases hown e hl with h | h | h
            · exact absurd h (hnotpre e hl)
            · omega
            · rw [hpost] at h; cases h
        rw [hnone]
        congr 1
        exact ih sc pre k post hsplit ⟨h1, h2, h3, h4⟩ hrem.2
          (fun x hx hxp => by rw [hpost] at hxp; cases hxp)
          (fun x hx hxp t ht => hB x hx hxp t (List.mem_cons_of_mem _ ht))
      | cons k' post' =>
        have hk'mem : k' ∈ highKeys b := by rw [hsplit, hpost]; simp
        obtain ⟨n1, n2⟩ := next_good tol b hg sc k' post' hk'mem
        have hk'gt : k < k' := hpost_gt k' (by rw [hpost]; exact List.mem_cons_self)
        -- the bucket ahead is not empty and all its series are still to be visited
        obtain ⟨p, hp, hpk⟩ := (mem_highKeys b k').mp hk'mem
        have hpx : p.1 ∈ s :: r := hA p.1 (List.mem_map_of_mem (f := Prod.fst) hp)
          (by rw [hpk, hpost]; exact List.mem_cons_self)
        have hle : hkOf s ≤ k' := by
          rw [← hpk]
          rcases List.mem_cons.mp hpx with h | h
          · rw [h]; exact Nat.le_refl _
          · exact hkOf_mono (Nat.le_of_lt (hrem.1 _ h))
        have hsplit' : highKeys b = (pre ++ [k]) ++ k' :: post' := by
          rw [hsplit, hpost]; simp
        have hsorted' := highKeys_sorted b
        rw [hsplit', List.pairwise_append] at hsorted'
        have hpost'_gt : ∀ c ∈ post', k' < c := by
          have := hsorted'.2.1
          simp only [List.pairwise_cons] at this
          exact this.1
        have hstep : Scanner.scan tol b sc s =
            ((Scanner.next tol b sc k' post').1,
              if hkOf s ≠ k' then none else pick (Scanner.next tol b sc k' post').1.cont
                (Scanner.next tol b sc k' post').1.ents s) := by
          unfold Scanner.scan
          simp only [h1, hlt, if_true, h4, hpost, n1, Bool.not_true, Bool.false_eq_true, if_false, n2.1]
          by_cases e : hkOf s = k' <;> simp [e]
        rw [hstep]
        have hval : (if hkOf s ≠ k' then none else pick (Scanner.next tol b sc k' post').1.cont
            (Scanner.next tol b sc k' post').1.ents s) = lookup b.series s := by
          by_cases e : hkOf s = k'
          · simp only [e, ne_eq, not_true_eq_false, if_false]
            rw [n2.2.1, n2.2.2.1, pick_eq_lookup, lookup_bucket, if_pos e]
          · simp only [ne_eq, e, not_false_eq_true, if_true]
            cases hl : lookup b.series s with
            | none => rfl
            | some en =>
              exfalso
              rcases hown en hl with h | h | h
              · exact hnotpre en hl h
              · omega
              · rw [hpost] at h
                rcases List.mem_cons.mp h with h | h
                · exact e h
                · have := hpost'_gt _ h; omega
        rw [hval]
        congr 1
        refine ih _ (pre ++ [k]) k' post' hsplit' n2 hrem.2 ?_ ?_
        · intro x hx hxp
          have hxin : x ∈ s :: r := hA x hx (by rw [hpost]; exact List.mem_cons_of_mem _ hxp)
          rcases List.mem_cons.mp hxin with h | h
          · exfalso; rw [h] at hxp; have := hpost'_gt _ hxp; omega
          · exact h
        · intro x hx hxp t ht
          rcases List.mem_append.mp hxp with h | h
          · exact hB x hx h t (List.mem_cons_of_mem _ ht)
          · simp only [List.mem_singleton] at h
            have : x < s := lt_of_hkOf_lt (by rw [h]; exact hlt)
            have := hrem.1 t ht
            omega
    · -- the scanner is on or ahead of the requested container
      have hstep : Scanner.scan tol b sc s =
          (sc, if hkOf s ≠ k then none else pick sc.cont sc.ents s) := by
        unfold Scanner.scan
        simp only [h1, hlt, if_false, Bool.not_true, Bool.false_eq_true]
        by_cases e : hkOf s = k <;> simp [e]
      rw [hstep]
      have hval : (if hkOf s ≠ k then none else pick sc.cont sc.ents s) = lookup b.series s := by
        by_cases e : hkOf s = k
        · simp only [e, ne_eq, not_true_eq_false, if_false]
          rw [h2, h3, pick_eq_lookup, lookup_bucket, if_pos e]
        · simp only [ne_eq, e, not_false_eq_true, if_true]
          cases hl : lookup b.series s with
          | none => rfl
          | some en =>
            exfalso
            rcases hown en hl with h | h | h
            · exact hnotpre en hl h
            · exact e h
            · have := hpost_gt _ h; omega
      rw [hval]
      congr 1
      refine ih sc pre k post hsplit ⟨h1, h2, h3, h4⟩ hrem.2 ?_ ?_
      · intro x hx hxp
        have hxin : x ∈ s :: r := hA x hx hxp
        rcases List.mem_cons.mp hxin with h | h
        · exfalso; rw [h] at hxp; have := hpost_gt _ hxp; omega
        · exact h
      · intro x hx hxp t ht
        exact hB x hx hxp t (List.mem_cons_of_mem _ ht)

theorem scanner_new_good (tol : Bool) (b : Block V) (hg : GoodBlock tol b) :
    ∃ sc k post, Scanner.new tol b = some sc ∧ highKeys b = k :: post ∧ ScanInv b sc k post := by
  obtain ⟨hne, hd⟩ := hg
  cases hk : highKeys b with
  | nil =>
    exfalso
    cases hs : b.series with
    | nil => exact hne hs
    | cons p t =>
      have : hkOf p.1 ∈ highKeys b := (mem_highKeys b _).mpr ⟨p, by rw [hs]; exact List.mem_cons_self, rfl⟩
      rw [hk] at this; cases this
  | cons k r =>
    have hkm : k ∈ highKeys b := by rw [hk]; exact List.mem_cons_self
    obtain ⟨n1, n2⟩ := next_good tol b hd { rest := k :: r, hk := 0, cont := [], ents := [] } k r hkm
    refine ⟨_, k, r, ?_, rfl, n2⟩
    unfold Scanner.new
    rw [hk]
    simp only []
    cases hx : Scanner.next tol b { rest := k :: r, hk := 0, cont := [], ents := [] } k r with
    | mk sc ok =>
      rw [hx] at n1
      simp only at n1
      subst n1
      rfl

/-- **the scanner finds every entry**: visiting any ascending id list that contains the block's own
series ids, the scanner returns for every visited id the block's entry (or nothing) -/
theorem scanAll_correct (tol : Bool) (b : Block V) (hg : GoodBlock tol b) (ids : List Nat)
    (hids : ids.Pairwise (· < ·)) (hsub : ∀ x ∈ b.seriesIds, x ∈ ids) :
    scanAll tol b ids = ids.map (fun s => (s, lookup b.series s)) := by
  obtain ⟨sc, k, post, hnew, hk, hinv⟩ := scanner_new_good tol b hg
  unfold scanAll
  rw [hnew]
  exact scanLoop_correct tol b hg.2 ids sc [] k post (by rw [hk]; rfl) hinv hids
    (fun x hx _ => hsub x hx) (fun x _ hxp => by cases hxp)

theorem scanData_eq_fieldData (tol : Bool) (b : Block V) (hg : GoodBlock tol b) (ids : List Nat)
    (hids : ids.Pairwise (· < ·)) (hsub : ∀ x ∈ b.seriesIds, x ∈ ids) (s f : Nat) :
    scanData tol ids b s f = b.fieldData s f := by
  unfold scanData Block.fieldData
  rw [scanAll_correct tol b hg ids hids hsub, lookup_map_keys]
  by_cases hs : s ∈ ids
  · rw [if_pos hs]
    cases lookup b.series s <;> rfl
  · rw [if_neg hs]
    have : lookup b.series s = none := by
      rw [lookup_eq_none_iff]; intro h; exact hs (hsub s h)
    rw [this]

theorem mergeFails_false (tol : Bool) (bs : List (Block V)) (hg : ∀ b ∈ bs, GoodBlock tol b) :
    mergeFails tol bs = false := by
  unfold mergeFails
  rw [List.any_eq_false]
  intro b hb
  obtain ⟨sc, _, _, hnew, _, _⟩ := scanner_new_good tol b (hg b hb)
  simp [hnew]

theorem foldl_congr_mem {α β : Type} (l : List α) (f g : β → α → β)
    (h : ∀ a ∈ l, ∀ acc, f acc a = g acc a) : ∀ acc, l.foldl f acc = l.foldl g acc := by
  induction l with
  | nil => intro acc; rfl
  | cons a t ih =>
    intro acc
    simp only [List.foldl_cons]
    rw [h a List.mem_cons_self acc]
    exact ih (fun a' ha' => h a' (List.mem_cons_of_mem _ ha')) _

/-- **the merge the code performs is the specification-level merge** when every input block is good -/
theorem mergeBlocksWith_eq_ideal (tol : Bool) (cfg : Cfg) (agg : FieldType → V → V → V)
    (bs : List (Block V)) (hg : ∀ b ∈ bs, GoodBlock tol b) :
    mergeBlocksWith tol cfg agg bs = mergeBlocksIdeal cfg agg bs := by
  unfold mergeBlocksWith mergeBlocksIdeal mergeBlocksBy
  simp only []
  congr 1
  apply List.map_congr_left
  intro s _
  congr 1
  apply List.map_congr_left
  intro fm _
  congr 1
  unfold mergeFieldBy
  simp only []
  congr 1
  apply foldl_congr_mem
  intro b hb acc
  rw [scanData_eq_fieldData tol b (hg b hb) (unionIds bs) (unionIds_sorted bs)
    (fun x hx => (mem_unionIds bs x).mpr ⟨b, hb, hx⟩)]

theorem mergeBlocks_eq_ideal (tol : Bool) (agg : FieldType → V → V → V) (bs : List (Block V))
    (hg : ∀ b ∈ bs, GoodBlock tol b) : mergeBlocks tol agg bs = mergeBlocksI agg bs :=
  mergeBlocksWith_eq_ideal tol compactCfg agg bs hg

/-! ### the merged block is good again -/

theorem mergeBlocksI_series_ne_nil (agg : FieldType → V → V → V) (bs : List (Block V))
    (b : Block V) (hb : b ∈ bs) (hne : b.series ≠ []) : (mergeBlocksI agg bs).series ≠ [] := by
  intro e
  cases hs : b.series with
  | nil => exact hne hs
  | cons p t =>
    have hp : p.1 ∈ b.seriesIds := by
      unfold Block.seriesIds; rw [hs]; simp [keys]
    have : p.1 ∈ (mergeBlocksI agg bs).seriesIds := by
      rw [mergeBlocks_seriesIds]; exact (mem_unionIds bs p.1).mpr ⟨b, hb, hp⟩
    unfold Block.seriesIds at this
    rw [e] at this
    simp [keys] at this

/-- every series entry of a merged block carries data for every field of the block: no
zero-length entry, no dead bucket -/
theorem mergeBlocksI_noDead (agg : FieldType → V → V → V) (bs : List (Block V)) :
    NoDeadBucket (mergeBlocksI agg bs) := by
  intro k hk
  obtain ⟨p, hp, hpk⟩ := (mem_highKeys _ k).mp hk
  unfold deadBucket
  rw [List.all_eq_false]
  refine ⟨p, ?_, ?_⟩
  · unfold bucket; rw [List.mem_filter]; exact ⟨hp, by simp [hpk]⟩
  · -- p.2 lists every field of the merged block
    have hser : (mergeBlocksI agg bs).series = (unionIds bs).map (fun s =>
        (s, (sortFields (prepare bs).fields).map (fun fm =>
          (fm.1, mergeField agg compactCfg (prepare bs).srcStart (prepare bs).srcEnd fm.2 s fm.1 bs)))) := rfl
    rw [hser, List.mem_map] at hp
    obtain ⟨s, _, hse⟩ := hp
    have hp2 : p.2 = (sortFields (prepare bs).fields).map (fun fm =>
          (fm.1, mergeField agg compactCfg (prepare bs).srcStart (prepare bs).srcEnd fm.2 s fm.1 bs)) := by
      rw [← hse]
    unfold zeroLen
    have hf : (mergeBlocksI agg bs).fields = sortFields (prepare bs).fields := rfl
    rw [hf]
    cases hsf : sortFields (prepare bs).fields with
    | nil => simp
    | cons fm t =>
      cases t with
      | cons _ _ => simp
      | nil =>
        simp only [Bool.not_eq_true, Option.isNone_eq_false_iff]
        rw [hp2, hsf]
        obtain ⟨f, ty⟩ := fm
        simp [lookup_cons]

theorem mergeBlocksI_good (tol : Bool) (agg : FieldType → V → V → V) (bs : List (Block V))
    (b : Block V) (hb : b ∈ bs) (hne : b.series ≠ []) : GoodBlock tol (mergeBlocksI agg bs) :=
  ⟨mergeBlocksI_series_ne_nil agg bs b hb hne, Or.inr (mergeBlocksI_noDead agg bs)⟩

end LinVerif.C03
