/-
C20 helper lemmas (round 12): `TrieBucket.CollectKVs` — the early `return` when the wanted set runs empty
does not change the result: the writes are those of a full scan of all pairs (`firstHits`).
-/
import LinVerif.Lemmas.C20Merge

set_option linter.unusedSimpArgs false
set_option linter.unusedVariables false

namespace LinVerif.Lemmas.C20
open LinVerif.TrieTree LinVerif.TrieBucket

theorem firstHits_nil_vals : ∀ (l : List KV), firstHits l [] = []
  | [] => rfl
  | (k, v) :: rest => by simp [firstHits, firstHits_nil_vals rest]

theorem remVals_nil_vals : ∀ (l : List KV), remVals l [] = []
  | [] => rfl
  | (k, v) :: rest => by simp [remVals, remVals_nil_vals rest]

theorem firstHits_append : ∀ (l1 l2 : List KV) (vs : List Nat),
    firstHits (l1 ++ l2) vs = firstHits l1 vs ++ firstHits l2 (remVals l1 vs)
  | [], l2, vs => rfl
  | (k, v) :: rest, l2, vs => by
    simp only [List.cons_append, firstHits, remVals]
    by_cases h : vs.contains v = true
    · simp only [h, if_true, List.cons_append]; rw [firstHits_append rest l2]
    · simp only [h, if_false, Bool.false_eq_true]
      exact firstHits_append rest l2 vs

theorem remVals_append : ∀ (l1 l2 : List KV) (vs : List Nat),
    remVals (l1 ++ l2) vs = remVals l2 (remVals l1 vs)
  | [], l2, vs => rfl
  | (k, v) :: rest, l2, vs => by
    simp only [List.cons_append, remVals]; rw [remVals_append rest l2]

/-- the inner loop: the writes are the full-scan writes; when it goes on the open values are `remVals`, when it
returned early nothing is open any more -/
theorem collectPairs_spec : ∀ (l : List KV) (vs : List Nat) (res : List (Nat × Key)),
    (collectPairs l vs res).2.1 = res ++ firstHits l vs ∧
    ((collectPairs l vs res).2.2 = false → (collectPairs l vs res).1 = remVals l vs) ∧
    ((collectPairs l vs res).2.2 = true → remVals l vs = [])
  | [], vs, res => by simp [collectPairs, firstHits, remVals]
  | (k, v) :: rest, vs, res => by
    simp only [collectPairs, firstHits, remVals]
    by_cases h : vs.contains v = true
    · simp only [h, if_true]
      by_cases he : (vs.erase v).isEmpty = true
      · have : vs.erase v = [] := List.isEmpty_iff.1 he
        simp only [he, if_true, this, firstHits_nil_vals, remVals_nil_vals]
        simp
      · simp only [he, if_false, Bool.false_eq_true]
        obtain ⟨a, b, c⟩ := collectPairs_spec rest (vs.erase v) (res ++ [(v, k)])
        refine ⟨?_, b, c⟩
        rw [a]; simp
    · simp only [h, if_false, Bool.false_eq_true]
      by_cases he : vs.isEmpty = true
      · have : vs = [] := List.isEmpty_iff.1 he
        subst this
        simp [firstHits_nil_vals, remVals_nil_vals]
      · simp only [he, if_false, Bool.false_eq_true]
        exact collectPairs_spec rest vs res

/-- the whole of `CollectKVs` over any list of tries = the full scan of the enumeration -/
theorem collectTries_spec (step : Bool) : ∀ (ts : List Node) (vs : List Nat) (res : List (Nat × Key)),
    collectTries step ts vs res = res ++ firstHits (bucketPrefix step ts []) vs
  | [], vs, res => by simp [collectTries, bucketPrefix, firstHits]
  | t :: ts, vs, res => by
    obtain ⟨a, b, c⟩ := collectPairs_spec (prefixIter step t []) vs res
    have hbp : bucketPrefix step (t :: ts) [] = prefixIter step t [] ++ bucketPrefix step ts [] := by
      simp [bucketPrefix]
    rw [hbp, firstHits_append]
    simp only [collectTries]
    by_cases hd : (collectPairs (prefixIter step t []) vs res).2.2 = true
    · simp only [hd, if_true]
      rw [a, c hd, firstHits_nil_vals]; simp
    · have hd' : (collectPairs (prefixIter step t []) vs res).2.2 = false := by simpa using hd
      simp only [hd', if_false, Bool.false_eq_true]
      rw [collectTries_spec step ts, a, b hd', List.append_assoc]

/-- membership in the full scan when every value occurs on at most one pair -/
theorem mem_firstHits : ∀ (l : List KV) (vs : List Nat), vs.Nodup → l.Pairwise (fun a b => a.2 ≠ b.2) →
    ∀ (v : Nat) (k : Key), (v, k) ∈ firstHits l vs ↔ (v ∈ vs ∧ (k, v) ∈ l)
  | [], vs, _, _, v, k => by simp [firstHits]
  | (k0, v0) :: rest, vs, hnd, hp, v, k => by
    have hp' := List.pairwise_cons.1 hp
    simp only [firstHits]
    by_cases h : vs.contains v0 = true
    · have hv0 : v0 ∈ vs := by simpa using h
      simp only [h, if_true, List.mem_cons, Prod.mk.injEq]
      rw [mem_firstHits rest (vs.erase v0) (hnd.erase v0) hp'.2 v k]
      constructor
      · rintro (⟨rfl, rfl⟩ | ⟨h1, h2⟩)
        · exact ⟨hv0, Or.inl ⟨rfl, rfl⟩⟩
        · exact ⟨List.mem_of_mem_erase h1, Or.inr h2⟩
      · rintro ⟨h1, (⟨rfl, rfl⟩ | h2)⟩
        · exact Or.inl ⟨rfl, rfl⟩
        · refine Or.inr ⟨?_, h2⟩
          have hne : v ≠ v0 := fun e => hp'.1 (k, v) h2 (by simp [e])
          exact (List.mem_erase_of_ne hne).2 h1
    · have hv0 : v0 ∉ vs := by simpa using h
      simp only [h, if_false, Bool.false_eq_true, List.mem_cons, Prod.mk.injEq]
      rw [mem_firstHits rest vs hnd hp'.2 v k]
      constructor
      · rintro ⟨h1, h2⟩; exact ⟨h1, Or.inr h2⟩
      · rintro ⟨h1, (⟨rfl, rfl⟩ | h2)⟩
        · exact absurd h1 hv0
        · exact ⟨h1, h2⟩

end LinVerif.Lemmas.C20
