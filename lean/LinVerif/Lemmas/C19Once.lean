/-
C19 helper lemmas, part 2: the `completed` CAS guards the callback (at most once), and what the
callback's argument is relative to the completing stage's own error.
-/
import LinVerif.Lemmas.C19Base

namespace LinVerif.Pipeline

/-- the callback has fired exactly when `completed` is set, and then exactly once -/
def InvOnce (s : State) : Prop :=
  (s.sh.completed = false → s.sh.fired = []) ∧ (s.sh.completed = true → s.sh.fired.length = 1)

theorem invOnce_init (root : Stage) : InvOnce (init root) := by
  simp [InvOnce, init]

theorem invOnce_step {cfg : Cfg} {s s' : State} {n : Nat} (hinv : InvOnce s)
    (h : stepAt cfg s n = some s') : InvOnce s' := by
  obtain ⟨pooled, i, rest, hget, rfl⟩ := stepAt_elim h
  obtain ⟨h1, h2⟩ := hinv
  cases i <;> simp only [stepInstr, InvOnce] <;> (repeat' split) <;> simp_all

theorem invOnce_reachable {cfg : Cfg} {root : Stage} {s : State}
    (hr : Reachable cfg (init root) s) : InvOnce s :=
  Reachable.invariant (invOnce_init root) (fun _ _ _ hi hs => invOnce_step hi hs) hr

end LinVerif.Pipeline

namespace LinVerif.Pipeline

/-! ### the callback's argument vs. the completing stage's own error -/

/-- what is known about a pending instruction (`fe` = `sm.err != nil`) -/
def OwnOK (cfg : Cfg) (fe : Bool) : Instr → Prop
  | .fire e own => own = true → e = true
  | .load own => own = true → fe = true
  | .dec e => cfg.arg = .first → e = true → fe = true
  | _ => True

theorem OwnOK.mono {cfg : Cfg} {fe : Bool} {i : Instr} (x : Bool) (h : OwnOK cfg fe i) : OwnOK cfg (fe || x) i := by
  cases i <;> simp_all [OwnOK]

def InvOwn (cfg : Cfg) (s : State) : Prop :=
  (∀ t ∈ s.threads, ∀ i ∈ t.code, OwnOK cfg s.sh.firstErr i) ∧ (∀ f ∈ s.sh.fired, f.own = true → f.arg = true)

theorem invOwn_init (cfg : Cfg) (root : Stage) : InvOwn cfg (init root) := by
  simp [InvOwn, init, OwnOK]

theorem invOwn_step {cfg : Cfg} {s s' : State} {n : Nat} (hinv : InvOwn cfg s)
    (h : stepAt cfg s n = some s') : InvOwn cfg s' := by
  obtain ⟨pooled, i, rest, hget, rfl⟩ := stepAt_elim h
  obtain ⟨h1, h2⟩ := hinv
  have hmem := List.mem_of_getElem? hget
  have hcode := h1 _ hmem
  have hhead : OwnOK cfg s.sh.firstErr i := hcode i (by simp)
  have hrest : ∀ j ∈ rest, OwnOK cfg s.sh.firstErr j := fun j hj => hcode j (by simp [hj])
  -- `firstErr` only grows
  have hmono : ∀ x : Bool, ∀ t ∈ s.threads, ∀ j ∈ t.code, OwnOK cfg (s.sh.firstErr || x) j :=
    fun x t ht j hj => (h1 t ht j hj).mono x
  have cons : ∀ {fe : Bool} {j : Instr} {c : List Instr}, OwnOK cfg fe j → (∀ k ∈ c, OwnOK cfg fe k) →
      ∀ k ∈ j :: c, OwnOK cfg fe k := fun hj hc => List.forall_mem_cons.mpr ⟨hj, hc⟩
  cases i with
  | start st =>
    simp only [stepInstr]; split
    · exact ⟨forall_step h1 hrest (by simp), h2⟩
    · exact ⟨forall_step h1 (cons (by simp [OwnOK]) hrest) (by simp), h2⟩
  | register st =>
    simp only [stepInstr]
    exact ⟨forall_step h1 (cons (by simp [OwnOK]) hrest) (by simp), h2⟩
  | launch st =>
    simp only [stepInstr]; split
    · exact ⟨forall_step h1 hrest (by simp [OwnOK]), h2⟩
    · exact ⟨forall_step h1 (cons (by simp [OwnOK]) hrest) (by simp), h2⟩
  | exec st =>
    simp only [stepInstr]; split
    · refine ⟨forall_step h1 ?_ (by simp), h2⟩
      intro j hj
      simp only [handler, List.append_assoc, List.mem_append, List.mem_map, List.mem_cons, List.mem_nil_iff, or_false] at hj
      rcases hj with ⟨c, _, rfl⟩ | rfl | hj
      · simp [OwnOK]
      · simp [OwnOK]
      · exact hrest j hj
    · exact ⟨forall_step h1 (cons (by simp [OwnOK]) hrest) (by simp), h2⟩
    · split
      · exact ⟨forall_step h1 (cons (by simp [OwnOK]) hrest) (by simp), h2⟩
      · refine ⟨forall_step h1 ?_ (by simp), h2⟩
        cases pooled <;> simp [OwnOK]
  | track e =>
    simp only [stepInstr]
    refine ⟨forall_step (hmono _) (cons ?_ (fun j hj => (hrest j hj).mono _)) (by simp), h2⟩
    simp only [OwnOK]; intro ha he; simp [ha, he]
  | dec e =>
    simp only [stepInstr]
    split
    · split
      · exact ⟨forall_step h1 (cons (by simp [OwnOK]) hrest) (by simp), h2⟩
      · rename_i harg
        refine ⟨forall_step h1 (cons ?_ hrest) (by simp), h2⟩
        simp only [OwnOK] at hhead ⊢
        exact hhead harg
    · exact ⟨forall_step h1 hrest (by simp), h2⟩
  | load own =>
    simp only [stepInstr]
    refine ⟨forall_step h1 (cons ?_ hrest) (by simp), h2⟩
    simp only [OwnOK] at hhead ⊢
    exact hhead
  | fire e own =>
    simp only [stepInstr]; split
    · exact ⟨forall_step h1 hrest (by simp), h2⟩
    · refine ⟨forall_step h1 hrest (by simp), ?_⟩
      intro f hf
      rcases List.mem_append.mp hf with hf | hf
      · exact h2 f hf
      · simp only [List.mem_singleton] at hf; subst hf
        simp only [OwnOK] at hhead
        exact hhead

theorem invOwn_reachable {cfg : Cfg} {root : Stage} {s : State}
    (hr : Reachable cfg (init root) s) : InvOwn cfg s :=
  Reachable.invariant (invOwn_init cfg root) (fun _ _ _ hi hs => invOwn_step hi hs) hr

end LinVerif.Pipeline
