/-
C19 helper lemmas, part 2: the `completed` CAS guards the callback (at most once), and what the
callback's argument is relative to the completing stage's own error.
-/
import LinVerif.Lemmas.C19Created

namespace LinVerif.Pipeline

/-- the callback has fired exactly when `completed` is set, and then exactly once -/
def InvOnce (s : State) : Prop :=
  (s.sh.completed = false → s.sh.fired = []) ∧ (s.sh.completed = true → s.sh.fired.length = 1)

theorem invOnce_init (root : Stage) : InvOnce (init root) := by
  simp [InvOnce, init]

theorem invOnce_step {cfg : Cfg} {s s' : State} {n : Nat} (hinv : InvOnce s)
    (h : stepAt cfg s n = some s') : InvOnce s' := by
  obtain ⟨pooled, i, rest, hget, rfl⟩ := stepAt_elim h
  obtain ⟨h1, h2⟩ := hinv
  cases i <;> simp only [stepInstr, panicEff, InvOnce] <;> (repeat' split) <;> simp_all

theorem invOnce_reachable {cfg : Cfg} {root : Stage} {s : State}
    (hr : Reachable cfg (init root) s) : InvOnce s :=
  Reachable.invariant (invOnce_init root) (fun _ _ _ hi hs => invOnce_step hi hs) hr

end LinVerif.Pipeline

namespace LinVerif.Pipeline

/-! ### the callback's argument vs. the completing stage's own error -/

/-- what is known about a pending instruction (`fe` = `sm.err != nil`) -/
def OwnOK (cfg : Cfg) (fe : Bool) : Instr → Prop
  | .fire e own => own = true → e = true
  | .load own => own = true → fe = true
  | .dec e => cfg.arg = .first → e = true → fe = true
  | _ => True

theorem OwnOK.mono {cfg : Cfg} {fe : Bool} {i : Instr} (x : Bool) (h : OwnOK cfg fe i) : OwnOK cfg (fe || x) i := by
  cases i <;> simp_all [OwnOK]

def InvOwn (cfg : Cfg) (s : State) : Prop :=
  (∀ t ∈ s.threads, ∀ i ∈ t.code, OwnOK cfg s.sh.firstErr i) ∧ (∀ f ∈ s.sh.fired, f.own = true → f.arg = true)

theorem invOwn_init (cfg : Cfg) (root : Stage) : InvOwn cfg (init root) := by
  simp [InvOwn, init, OwnOK]

theorem invOwn_step {cfg : Cfg} {s s' : State} {n : Nat} (hinv : InvOwn cfg s)
    (h : stepAt cfg s n = some s') : InvOwn cfg s' := by
  obtain ⟨pooled, i, rest, hget, rfl⟩ := stepAt_elim h
  obtain ⟨h1, h2⟩ := hinv
  have hmem := List.mem_of_getElem? hget
  have hcode := h1 _ hmem
  have hhead : OwnOK cfg s.sh.firstErr i := hcode i (by simp)
  -- `firstErr` only grows
  have hmono : ∀ {j : Instr}, OwnOK cfg s.sh.firstErr j →
      OwnOK cfg (stepInstr cfg s.sh pooled i rest).sh.firstErr j := by
    intro j hj
    cases hfe : s.sh.firstErr with
    | true =>
      rw [stepInstr_firstErr_mono cfg s.sh pooled i rest hfe]
      rw [hfe] at hj
      exact hj
    | false =>
      rw [hfe] at hj
      have := hj.mono (stepInstr cfg s.sh pooled i rest).sh.firstErr
      simpa using this
  refine ⟨forall_step (fun t ht j hj => hmono (h1 t ht j hj)) ?_ ?_, ?_⟩
  · refine stepInstr_forall (fun j hj => hmono (hcode j (by simp [hj]))) ?_
    intro j hc
    cases hc with
    | dec e =>
      simp only [OwnOK, stepInstr]
      intro ha he; simp [ha, he]
    | fireOwn e _ _ => simp [OwnOK]
    | load e ha _ =>
      simp only [OwnOK] at hhead ⊢
      intro he
      exact stepInstr_firstErr_mono cfg s.sh pooled _ rest (hhead ha he)
    | fire own =>
      simp only [OwnOK] at hhead ⊢
      exact hhead
    | _ => simp [OwnOK]
  · intro t ht j hj
    obtain ⟨st, _, _, _, rfl⟩ := stepInstr_spawn ht
    simp only [List.mem_singleton] at hj; subst hj
    simp [OwnOK]
  · -- `fired` grows only by a `fire` that wins the CAS
    cases i with
    | fire e own =>
      simp only [stepInstr]; split
      · exact h2
      · intro f hf
        rcases List.mem_append.mp hf with hf | hf
        · exact h2 f hf
        · simp only [List.mem_singleton] at hf; subst hf
          simp only [OwnOK] at hhead
          exact hhead
    | _ => simp only [stepInstr, panicEff] <;> (repeat' split) <;> exact h2

theorem invOwn_reachable {cfg : Cfg} {root : Stage} {s : State}
    (hr : Reachable cfg (init root) s) : InvOwn cfg s :=
  Reachable.invariant (invOwn_init cfg root) (fun _ _ _ hi hs => invOwn_step hi hs) hr

end LinVerif.Pipeline
