import LinVerif.Lemmas.C13Table
/-! C13 era table, days `[98304, 131072)` of the era. -/
namespace LinVerif.Lemmas.C13
theorem tableD : checkRange okN 15 98304 = true := by decide +kernel
end LinVerif.Lemmas.C13
